import TbotVerif.Model.Shell
import TbotVerif.Model.ChanRun
/-! C01 — cases, observations, the model run (replaying the fragmentation a real run produced)
    and the specification. -/

namespace Shell
open Chan

inductive ShOp where | exec | exec0 | test deriving Repr, BEq, DecidableEq, Inhabited

structure ShCmd where
  op : ShOp
  pre : List Bytes      -- leading words of the command (helper program, its two bookkeeping args)
  args : List Bytes     -- the arguments under test
  out : Bytes           -- what the program prints
  status : Nat          -- its exit status
  deriving Repr, Inhabited

structure ShCase where
  ash : Bool            -- false: Bash driver on bash; true: Ash driver on dash
  chunk : Nat
  cmds : List ShCmd
  deriving Repr, Inhabited

inductive ShVal where
  | rc (status : Nat) (out : List Char)
  | out (out : List Char)
  | bool (b : Bool)
  | err (tag : String)
  deriving Repr, BEq, Inhabited

structure CmdObs where
  val : ShVal
  argv : Option (List Bytes)   -- argument vector the program recorded (`none`: it did not run)
  written : Bytes              -- what reached the transport during the call
  pieces : List Nat            -- sizes of the transport deliveries of this call
  deriving Repr, BEq, Inhabited

def prompt (c : ShCase) : Bytes := if c.ash then Params.ashPrompt else Params.bashPrompt
def blacklist (c : ShCase) : Bytes := if c.ash then Params.ashBlacklist else Params.bashBlacklist

def lineOf (cmd : ShCmd) : Bytes := Quote.escape (cmd.pre ++ cmd.args)

def excTag : ShExc → String
  | .chan e => Wire.exc e
  | .invalidRetcode => "invalid-retcode"
  | .commandFailure _ => "command-failure"

/-- run one command on the channel model, with the remote's answer cut into `pieces` -/
def runCmd (c : ShCase) (cmd : ShCmd) (pieces : List Nat) : CmdObs :=
  let line := lineOf cmd
  let resp := respCmd false (prompt c) line cmd.out ++ respStatus false (prompt c) cmd.status
  let s : St := { chunk := c.chunk, prompt := some (.lit (prompt c)), blacklist := blacklist c,
                  script := toScript (cutBy pieces resp) }
  let fin (v : ShVal) (s : St) : CmdObs :=
    let ran := !s.writes.isEmpty
    { val := v, argv := if ran then some cmd.args else none,
      written := (s.writes.map fun w => w.1.take w.2).flatten,
      pieces := s.reads.filterMap fun r => r.data.map List.length }
  match cmd.op with
  | .exec => match exec line s with
    | (.ok (rc, out), s) => fin (.rc rc out) s
    | (.error e, s) => fin (.err (excTag e)) s
  | .exec0 => match exec0 line s with
    | (.ok out, s) => fin (.out out) s
    | (.error e, s) => fin (.err (excTag e)) s
  | .test => match test line s with
    | (.ok b, s) => fin (.bool b) s
    | (.error e, s) => fin (.err (excTag e)) s

def run (c : ShCase) (pieces : List (List Nat)) : List CmdObs :=
  (c.cmds.zip pieces).map fun (cmd, ps) => runCmd c cmd ps

/-- **C01** for one command -/
def specCmd (c : ShCase) (cmd : ShCmd) (o : CmdObs) : Bool :=
  let line := lineOf cmd ++ [Tty.CR]
  if containsSub (prompt c) (Tty.cook cmd.out) then
    -- outside the domain: no prompt-delimited protocol can return output that contains the prompt
    true
  else if Chan.forbidden (blacklist c) line then
    -- rejected, and the program never ran (with whatever arguments)
    o.val == .err "illegal" && o.argv.isNone
  else
    let want := text (Tty.cook cmd.out)
    o.argv == some cmd.args &&
    (match cmd.op with
     | .exec => o.val == .rc cmd.status want
     | .exec0 => if cmd.status = 0 then o.val == .out want else o.val == .err "command-failure"
     | .test => o.val == .bool (cmd.status == 0))

def specAll (c : ShCase) : List ShCmd → List CmdObs → Bool
  | [], [] => true
  | cmd :: cs, o :: os => specCmd c cmd o && specAll c cs os
  | _, _ => false

end Shell

def Spec.C01 (c : Shell.ShCase) (obs : List Shell.CmdObs) : Bool := Shell.specAll c c.cmds obs
