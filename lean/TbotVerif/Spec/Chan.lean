import TbotVerif.Model.ChanRun
/-! Specifications of the channel properties as decidable predicates over what is
    *observable* for one operation (`OpObs`) given the configuration in force (`Cfg`).
    The same predicates are proved of the model (`Props/`) and evaluated on the
    implementation's observations by the harness (`spec` command of the driver). -/

/-- configuration in force, as determined by the configuration operations alone -/
structure Cfg where
  chunk : Nat
  slice : Nat
  prompt : Option Pat := none
  prompts : List (Option Pat) := []
  blacklist : List Byte := []
  slowDelay : Option Nat := none
  slowChunk : Nat := 32
  deriving Repr, Inhabited

namespace Cfg

def ofRun (r : RunSt) : Cfg :=
  { chunk := r.st.chunk, slice := r.st.slice, prompt := r.st.prompt, prompts := r.prompts,
    blacklist := r.st.blacklist, slowDelay := r.st.slowDelay, slowChunk := r.st.slowChunk }

def step (op : Op) (c : Cfg) : Cfg :=
  match op with
  | .setPrompt p => { c with prompt := p.map .lit }
  | .promptEnter p => { c with prompt := some (Chan.anchor p), prompts := c.prompt :: c.prompts }
  | .promptExit =>
    match c.prompts with
    | [] => c
    | p :: ps => { c with prompt := p, prompts := ps }
  | .setBlacklist b => { c with blacklist := b }
  | .setSlow d k => { c with slowDelay := d, slowChunk := k }
  | _ => c

end Cfg

namespace Spec

def delivered (o : OpObs) : List Bytes := o.reads.filterMap (·.data)

/-- `f` holds for the buffer after the last delivery and for no earlier one
    (`acc` = what was buffered before the first delivery) -/
def hitsOnlyAtEnd (f : Bytes → Bool) : Bytes → List Bytes → Bool
  | _, [] => false
  | acc, [d] => f (acc ++ d)
  | acc, d :: ds => !f (acc ++ d) && hitsOnlyAtEnd f (acc ++ d) ds

/-- `f` holds for the buffer after no delivery -/
def neverHits (f : Bytes → Bool) : Bytes → List Bytes → Bool
  | _, [] => true
  | acc, d :: ds => !f (acc ++ d) && neverHits f (acc ++ d) ds

/-! ### C02 -/

/-- the prompt a `read_until_prompt(prompt=p)` call waits for -/
def effPrompt (p : Option Pat) (configured : Option Pat) : Option Pat :=
  match p with
  | some p => some (Chan.anchor p)
  | none => configured

def c02Op (cfg : Cfg) (p : Option Pat) (o : OpObs) : Bool :=
  let P := effPrompt p cfg.prompt
  let ds := delivered o
  match o.res with
  | .text out =>
    match P with
    | none => false
    | some P =>
      match Chan.promptEnd P ds.flatten with
      | none => false
      | some n =>
        out == text (ds.flatten.take n)
          && hitsOnlyAtEnd (fun b => (Chan.promptEnd P b).isSome) [] ds
  | .err .timeout | .err .hang =>
    match P with
    | none => true
    | some P => neverHits (fun b => (Chan.promptEnd P b).isSome) [] ds
  | .err (.death _ _) => true
  | _ => false

def c02 (cfg : Cfg) (op : Op) (o : OpObs) : Bool :=
  match op with
  | .rup p _ => c02Op cfg p o && o.reads.all fun r => r.n ≤ cfg.chunk
  | _ => true

/-! ### C04 -/

def anyMatch (pats : List Pat) (buf : Bytes) : Bool := pats.any fun p => (p.search buf).isSome

def c04 (op : Op) (o : OpObs) : Bool :=
  match op with
  | .expect pats _ =>
    let ds := delivered o
    match o.res with
    | .expect i before m after =>
      let buf := ds.flatten
      hitsOnlyAtEnd (anyMatch pats) [] ds
        && (match pats[i]? with
            | none => false
            | some p =>
              match p.search buf with
              | none => false
              | some (a, e) =>
                (pats.take i).all (fun q => (q.search buf).isNone)
                  && before == text (buf.take a) && after == text (buf.drop e)
                  && m == (buf.drop a).take (e - a)
                  && a ≤ e && e ≤ buf.length)
    | .err .timeout | .err .hang => neverHits (anyMatch pats) [] ds
    | .err (.death _ _) => true
    | _ => false
  | _ => true

/-! ### C03 -/

/-- transport requests of a bounded read: the k-th asks for `min chunk (max - got)` -/
def boundedReqs (chunk : Nat) (max : Option Nat) : Nat → List ReadRec → Bool
  | _, [] => true
  | got, r :: rs =>
    let want := match max with | none => chunk | some m => min chunk (m - got)
    r.n == want && (match r.data with
      | some d => d.length ≤ r.n && boundedReqs chunk max (got + d.length) rs
      | none => rs.isEmpty)

/-- the write loop: every transport write offers the not-yet-accepted rest (capped when slow
    sending is on), accepted counts add up -/
def writeTrace (slow : Option Nat) (slowChunk : Nat) : Bytes → List (Bytes × Nat) → Bool
  | buf, [] => buf.isEmpty
  | buf, (off, k) :: ws =>
    let want := match slow with | none => buf | some _ => buf.take slowChunk
    !buf.isEmpty && off == want && 1 ≤ k && k ≤ off.length
      && writeTrace slow slowChunk (buf.drop k) ws

def accepted (ws : List (Bytes × Nat)) : Bytes := (ws.map fun w => w.1.take w.2).flatten

/-- number of bytes `Channel.send(..., read_back=True)` reads back for the bytes `b` it has written:
    `len(b) + b.count(b"\r") + b.count(b"\n")` — the model's own expression
    (`chunk.length + countNl chunk` in `Chan.sendLoop`), see `C03.readBack_model`, `C03.readBack_eq` -/
def readBack (b : Bytes) : Nat := b.length + Chan.countNl b

def slices (n : Nat) : Nat → Bytes → List Bytes
  | 0, _ => []
  | _ + 1, [] => []
  | f + 1, b :: t => (b :: t).take n :: slices n f ((b :: t).drop n)

/-- `n ≤ bound` when a bound is given -/
def leOpt (n : Nat) : Option Nat → Bool
  | some m => n ≤ m
  | none => true

/-- the chunks a `read_iter` hands out: every delivery, except the one a death string fired on -/
def yielded (e : Option Exc) (ds : List Bytes) : List Bytes :=
  match e with
  | some (.death _ _) => ds.dropLast
  | _ => ds

def c03 (cfg : Cfg) (op : Op) (o : OpObs) : Bool :=
  let ds := delivered o
  match op with
  | .read none _ =>
    (match o.res with
     | .bytes b => o.reads.length == 1 && b == ds.flatten
     | .err _ => o.reads.length ≤ 1
     | _ => false)
    && o.reads.all fun r => r.n == cfg.chunk
  | .read (some n) _ =>
    (match o.res with
     | .bytes b => b.length == n && b == ds.flatten
     | .err .timeout | .err .hang => ds.flatten.length < n || n == 0
     | .err (.death _ _) => ds.flatten.length ≤ n
     | _ => false)
    && boundedReqs cfg.chunk (some n) 0 o.reads
  | .readIter max _ k =>
    (match o.res with
     | .chunks cs e =>
       cs == yielded e ds && leOpt ds.flatten.length max && leOpt cs.length k
     | _ => false)
    && boundedReqs cfg.chunk max 0 o.reads
  | .readline e _ =>
    (match o.res with
     | .text t =>
       t == text ds.flatten && hitsOnlyAtEnd (fun b => e.isSuffixOf b) [] ds
     | .err .timeout | .err .hang => neverHits (fun b => e.isSuffixOf b) [] ds
     | .err (.death _ _) => true
     | _ => false)
    && o.reads.all fun r => r.n == 1
  | .write b ign =>
    match o.res with
    | .unit => (ign || !Chan.forbidden cfg.blacklist b) && writeTrace cfg.slowDelay cfg.slowChunk b o.writes
                 && accepted o.writes == b
    | .err .illegal => !ign && Chan.forbidden cfg.blacklist b && o.writes.isEmpty
    | _ => false
  | .send b rb _ ign =>
    -- a rejected `send` may already have delivered earlier slices: what reached the transport
    -- is a prefix of the request and contains no forbidden byte
    let fine := ign || !Chan.forbidden cfg.blacklist b
    match o.res with
    | .unit => fine && accepted o.writes == b
    | .err .illegal => !fine && (accepted o.writes).isPrefixOf b
                         && !Chan.forbidden cfg.blacklist (accepted o.writes)
    -- TimeoutError (or blocking for ever) is justified only by a read-back that is still owed
    -- bytes: the call asked for read-back and fewer bytes were delivered to it than the echo of
    -- what it had written.  Without read-back `send` never waits, so it never times out.
    | .err .timeout | .err .hang =>
      fine && (accepted o.writes).isPrefixOf b
        && rb && decide (ds.flatten.length < readBack (accepted o.writes))
    | .err _ => fine && (accepted o.writes).isPrefixOf b
    | _ => false
  | .sendline b rb _ =>
    let b := b ++ [13]
    let fine := !Chan.forbidden cfg.blacklist b
    match o.res with
    | .unit => fine && accepted o.writes == b
    | .err .illegal => !fine && (accepted o.writes).isPrefixOf b
                         && !Chan.forbidden cfg.blacklist (accepted o.writes)
    | .err .timeout | .err .hang =>
      fine && (accepted o.writes).isPrefixOf b
        && rb && decide (ds.flatten.length < readBack (accepted o.writes))
    | .err _ => fine && (accepted o.writes).isPrefixOf b
    | _ => false
  | .sendcontrol n =>
    match o.res with
    | .unit => n ≤ 31 && accepted o.writes == [UInt8.ofNat n]
    | .err .assertion => 31 < n && o.writes.isEmpty
    | _ => false
  | _ => true

/-- pieces no larger than the slow-send size, and slices no larger than the send slice -/
def c03Sizes (cfg : Cfg) (op : Op) (o : OpObs) : Bool :=
  match op with
  | .write _ _ | .send _ _ _ _ | .sendline _ _ _ =>
    (match cfg.slowDelay with
     | some _ => o.writes.all fun w => w.1.length ≤ cfg.slowChunk
     | none => true)
    && (match op with
        | .write _ _ => true
        | _ => o.writes.all fun w => w.1.length ≤ cfg.slice)
  | _ => true

/-! ### C06 -/

/-- the timeout parameter of a timed operation (`none`: the operation takes no timeout) -/
def timeoutOf : Op → Option (Option Nat)
  | .read _ t | .readIter _ t _ | .readline _ t | .expect _ t | .rup _ t | .rut t => some t
  | .send _ rb t _ | .sendline _ rb t => if rb then some t else none
  | _ => none

/-- every transport request carries exactly the time that is left of the overall timeout -/
def readsTimed (T : Option Nat) (t0 : Nat) (rs : List ReadRec) : Bool :=
  rs.all fun r =>
    match T with
    | none => r.timeout.isNone
    | some T => r.t0 - t0 ≤ T && r.timeout == some (T - (r.t0 - t0)) && t0 ≤ r.t0

def c06 (cfg : Cfg) (op : Op) (o : OpObs) : Bool :=
  match timeoutOf op with
  | none => true
  | some T =>
    readsTimed T o.t0 o.reads
    && (match o.res, T with
        | .err .timeout, none => false                       -- no timeout given: never TimeoutError
        | .err .timeout, some T => cfg.slowDelay.isSome || o.t1 == o.t0 + T   -- exactly at the deadline
        | _, none => true
        | _, some T => cfg.slowDelay.isSome || o.t1 ≤ o.t0 + T)
    -- a result other than a time-out is returned at the moment of the last delivery
    && (match o.res with
        | .err .timeout => true
        | _ => cfg.slowDelay.isSome || (match o.reads.getLast? with
                  | none => o.t1 == o.t0
                  | some r => r.t1 == o.t1))
    -- read_until_timeout never raises TimeoutError and ends exactly at the deadline
    && (match op, o.res with
        | .rut (some T), .text _ => o.t1 == o.t0 + T
        | .rut _, .err .timeout => false
        | _, _ => true)

/-! ### C05 -/

/-- a registration as the monitor sees it: the data received since it was made -/
structure Reg where
  id : Nat
  pat : Pat
  exc : Nat
  since : Bytes := []
  fired : Bool := false        -- its first occurrence has been completed (and reported)
  deriving Repr, Inhabited

structure DeathMon where
  regs : List Reg := []
  frames : List Nat := []
  next : Nat := 0
  deriving Repr, Inhabited

def Reg.occurs (r : Reg) : Bool := (r.pat.search r.since).isSome

/-- does a raised death exception `(e, m)` belong to a registration whose string has occurred? -/
def justified (regs : List Reg) (e : Nat) (m : Bytes) : Bool :=
  regs.any fun r => r.exc == e && r.occurs &&
    (match r.pat with | .lit b => m == b | .re _ => true)

def deathOf : OpRes → Option (Nat × Bytes)
  | .err (.death e m) => some (e, m)
  | .chunks _ (some (.death e m)) => some (e, m)
  | _ => none

/-- walk through the deliveries of one operation -/
def c05Walk (res : OpRes) : List Bytes → List Reg → Bool × List Reg
  | [], regs => ((deathOf res).isNone, regs)
  | d :: ds, regs =>
    let regs := regs.map fun r => { r with since := r.since ++ d }
    let due := regs.any fun r => !r.fired && r.occurs
    if due then
      -- a first occurrence was completed by this delivery: it is the last one of the
      -- operation and the operation raises the exception of a string that has occurred
      let ok := ds.isEmpty && (match deathOf res with
        | some (e, m) => justified regs e m
        | none => false)
      (ok, regs.map fun r => { r with fired := r.fired || r.occurs })
    else if ds.isEmpty then
      ((match deathOf res with
        | some (e, m) => justified regs e m      -- only strings that occurred may fire
        | none => true), regs)
    else c05Walk res ds regs

def isReadOp : Op → Bool
  | .read _ _ | .readIter _ _ _ | .readline _ _ | .expect _ _ | .rup _ _ | .rut _ => true
  | .send _ rb _ _ | .sendline _ rb _ => rb
  | _ => false

def c05 (m : DeathMon) (op : Op) (o : OpObs) : Bool × DeathMon :=
  match op with
  | .deathEnter p e =>
    (true, { regs := { id := m.next, pat := p, exc := e } :: m.regs, frames := m.next :: m.frames,
             next := m.next + 1 })
  | .deathAdd p e => (true, { m with regs := { id := m.next, pat := p, exc := e } :: m.regs, next := m.next + 1 })
  | .deathExit =>
    match m.frames with
    | [] => (true, m)
    | id :: fs => (true, { m with regs := m.regs.filter (·.id != id), frames := fs })
  | _ =>
    if isReadOp op then
      let (ok, regs) := c05Walk o.res (delivered o) m.regs
      (ok, { m with regs := regs })
    else ((deathOf o.res).isNone, m)

/-! ### C08 -/

/-- ASCII projection: bytes below 0x80 decode to themselves whatever the fragmentation, and
    every other byte decodes to a character ≥ 0x80, so these projections commute with
    `decodeReplace` for every way of cutting the data into fragments. -/
def asciiB (b : Bytes) : List Char := (b.filter (· < 128)).map fun x => Char.ofNat x.toNat
def asciiT (t : List Char) : List Char := t.filter (·.toNat < 128)
def isAscii (b : Bytes) : Bool := b.all (· < 128)

/-- one open attachment as the monitor sees it -/
structure Att where
  id : Nat
  showPrompt : Bool
  prompt : Option Pat          -- channel prompt at the time of attaching
  steady : Bool := true        -- the prompt has not changed and no other mode was in force
  r : Bytes := []              -- data read since attaching
  fw : List Char := []         -- text forwarded since attaching
  deriving Repr, Inhabited

structure StreamMon where
  atts : List Att := []        -- most recently attached first
  vis : Bool := true           -- every attachment made so far shows the prompt (`show_prompt=True`)
  deriving Repr, Inhabited

def fwdFor (id : Nat) (fwd : List (Nat × List Char)) : List (List Char) :=
  (fwd.filter (·.1 == id)).map (·.2)

/-- the laws for one attachment after an operation -/
def attOk (a : Att) : Bool :=
  -- (1) forwarded is a prefix of what was read
  (asciiT a.fw).isPrefixOf (asciiB a.r)
  && (if !a.steady then true
      else if a.showPrompt then asciiT a.fw == asciiB a.r          -- (2) everything, suppression off
      else match a.prompt with
        | none => asciiT a.fw == asciiB a.r
        | some (.lit p) =>
          -- (3) exactly the longest suffix that is a prefix of the prompt is held back
          !isAscii a.r || !isAscii p ||
            (asciiT a.fw).length + Chan.overlap p a.r (min p.length a.r.length) == a.r.length
        | some (.re _) => true)

/-- at detach: a read that ended at the prompt leaves exactly the output in the stream -/
def detachOk (a : Att) : Bool :=
  if !a.steady || a.showPrompt || !isAscii a.r then true else
  match a.prompt with
  | none => true
  | some p =>
    match Chan.promptEnd (match p with | .lit b => .lit b | .re r => .re r) a.r with
    | some n => asciiT a.fw == asciiB (a.r.take n)
    | none => true

/-- the text fragments one stream receives for the deliveries `ds` when nothing is suppressed: every delivery
    is decoded on its own (`buf.decode("utf-8", errors="replace")`); empty texts are not observed -/
def visText (ds : List Bytes) : List (List Char) := (ds.map decodeReplace).filter fun t => !t.isEmpty

/-- (6) as long as every attachment made so far shows the prompt (`vis`), every attached stream receives
    exactly the data delivered while it is attached: one text fragment per delivery, in the order of the
    deliveries, and nothing else — whatever else is attached, and in whatever order attachments are ended -/
def visOk (vis : Bool) (atts : List Att) (o : OpObs) : Bool :=
  !vis || atts.all fun a => fwdFor a.id o.fwd == visText (delivered o)

/-- The monitor.  A detach names the attachment it ends: `streamExit` (a `with` block left in
    last-in-first-out order) ends the most recent one, `streamExitAt k` ends the attachment of stream `k`
    wherever it is; from then on (4) forbids anything to reach that stream, and the laws of the attachments
    that stay open go on unchanged. -/
def c08 (m : StreamMon) (cfg : Cfg) (op : Op) (o : OpObs) : Bool × StreamMon :=
  -- (4) nothing reaches a stream that is not attached
  let attached := o.fwd.all fun f => m.atts.any (·.id == f.1)
  -- (5) all attached streams receive the same fragments
  let same := match m.atts with
    | [] => true
    | a :: rest => rest.all fun b => fwdFor b.id o.fwd == fwdFor a.id o.fwd
  let data := (delivered o).flatten
  let mode := match m.atts with | [] => true | a :: _ => a.showPrompt
  let prompt := match op with | .rup (some p) _ => some (Chan.anchor p) | _ => cfg.prompt
  let atts := m.atts.map fun a =>
    { a with r := a.r ++ data, fw := a.fw ++ (fwdFor a.id o.fwd).flatten,
             steady := a.steady && (data.isEmpty || (a.showPrompt == mode && a.prompt == prompt)) }
  let ok := attached && same && atts.all attOk && visOk m.vis atts o
  match op with
  | .streamEnter id sp =>
    (ok, { atts := { id := id, showPrompt := sp, prompt := cfg.prompt } :: atts, vis := m.vis && sp })
  | .streamExit =>
    match atts with
    | [] => (ok, { m with atts := [] })
    | a :: rest => (ok && (a.prompt != cfg.prompt || detachOk a), { m with atts := rest })
  | .streamExitAt k =>
    (ok && (match atts.find? (·.id == k) with
            | none => true
            | some a => a.prompt != cfg.prompt || detachOk a),
     { m with atts := atts.eraseP (·.id == k) })
  | _ => (ok, { m with atts := atts })

/-- C08 at the level of its consumers (`exec()` command events): the text logged into the command's
    event while its stream was attached is exactly the output the command returned — nothing of the
    prompt, nothing held back from an earlier command. -/
def consumerLog (obs : List (List Char × List Char)) : Bool :=
  -- carriage returns are compared away: the returned text went through CR/LF normalisation as a
  -- whole, the event normalises per write
  obs.all fun p => p.1.filter (· != '\r') == p.2.filter (· != '\r')

def foldOpsCM {σ} (f : σ → Cfg → Op → OpObs → Bool × σ) : σ → Cfg → List Op → List OpObs → Bool
  | _, _, [], [] => true
  | st, c, op :: ops, o :: os =>
    let (ok, st') := f st c op o
    ok && foldOpsCM f st' (c.step op) ops os
  | _, _, _, _ => false

def foldOpsM {σ} (f : σ → Op → OpObs → Bool × σ) : σ → List Op → List OpObs → Bool
  | _, [], [] => true
  | st, op :: ops, o :: os =>
    let (ok, st') := f st op o
    ok && foldOpsM f st' ops os
  | _, _, _ => false

/-- whole case: every byte handed out by the transport plus what is left is the stream -/
def conservation (c : Case) (obs : List OpObs × Bytes) : Bool :=
  ((obs.1.map fun o => (delivered o).flatten).flatten ++ obs.2) == (c.script.map (·.data)).flatten

/-- fold a per-operation predicate over a case, tracking the configuration -/
def foldOps (f : Cfg → Op → OpObs → Bool) : Cfg → List Op → List OpObs → Bool
  | _, [], [] => true
  | c, op :: ops, o :: os => f c op o && foldOps f (c.step op) ops os
  | _, _, _ => false

def initCfg (c : Case) : Cfg := { chunk := c.chunk, slice := c.slice }

def C02 (c : Case) (obs : List OpObs × Bytes) : Bool := foldOps c02 (initCfg c) c.ops obs.1
def C03 (c : Case) (obs : List OpObs × Bytes) : Bool :=
  foldOps (fun cfg op o => c03 cfg op o && c03Sizes cfg op o) (initCfg c) c.ops obs.1 && conservation c obs
def C04 (c : Case) (obs : List OpObs × Bytes) : Bool := foldOps (fun _ => c04) (initCfg c) c.ops obs.1
def C05 (c : Case) (obs : List OpObs × Bytes) : Bool := foldOpsM c05 {} c.ops obs.1
def C08 (c : Case) (obs : List OpObs × Bytes) : Bool := foldOpsCM c08 {} (initCfg c) c.ops obs.1
def C06 (c : Case) (obs : List OpObs × Bytes) : Bool := foldOps c06 (initCfg c) c.ops obs.1

end Spec
