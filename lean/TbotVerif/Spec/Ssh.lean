import TbotVerif.Model.Ssh
/-! # C20 — ssh and scp are invoked with exactly the machine's configured parameters

The property as a decidable predicate over what is observable: the exception that left the
call (if any) and the commands that were executed, each parsed into a `Parsed` record (the
`-o` options are compared as a *multiset*, so their order is not part of the property).

What the configuration of the remote machine calls for is written down here declaratively
(`want…`), independently of the argv builders of the model:

* `user@host`, the port, `StrictHostKeyChecking=no` only when configured, every extra ssh
  option, the identity file / password of the authenticator, `BatchMode=yes` unless a password
  is used, the three multiplexing options only when enabled — all read from the *remote*
  machine (the ssh machine being opened; for a copy the one end that is reached through ssh);
* a copy between two machines is supported iff they are the same machine (`cp` there), or one
  is an ssh machine and the other the very host it was created from, or one is a local
  (subprocess) host and the other an ssh / paramiko machine; everything else, an authenticator
  that cannot be used from the executing host, or an unknown authenticator must raise and run
  no command at all.  One pairing is left to tbot's discretion: an ssh machine and a *clone* of
  the (non-local) host it was created from — refusing it and doing the transfer with the right
  parameters are both fine, anything else is not. -/

namespace Ssh

/-- the connection parameters in force for a remote machine -/
structure Eff where
  user : Str
  host : Str
  port : Nat
  hk : Bool
  opts : List Str
  auth : Auth
  mux : Bool
  deriving DecidableEq, Repr

/-- everything is read from machine `r` (and, for the default user name, the chain of hosts it
was created from) -/
def eff (hs : List Host) (r : Nat) (m : Host) : Eff :=
  ⟨userOf hs hs.length r, hostnameOf m, portOf m, hkOf m, optsOf m, authOf m, muxOf m⟩

def Auth.isPassword : Auth → Bool
  | .password _ => true
  | _ => false

/-- the `-o` options called for, as a multiset (in some order); `wd` is the work directory of
the executing host (multiplexing sockets live below it) -/
def wantOpts (e : Eff) (wd : Str) : List Str :=
  (if e.auth.isPassword then [] else [batchMode])
    ++ (if e.hk then [noHostKey] else [])
    ++ (if e.mux then [ctlMaster, ctlPersist, controlPath wd] else [])
    ++ e.opts

/-- the password handed to `sshpass` -/
def wantPw : Auth → Option Str
  | .password p => some p
  | _ => none

/-- the identity files to pass when executing on machine `exec`; `none`: the authenticator
cannot be used there (or is unknown) and the call must raise -/
def wantIdents (hs : List Host) (exec : Nat) : Auth → Option (List Str)
  | .none => some []
  | .password _ => some []
  | .keyStr s => some [s]
  | .keyPure s => some [s]
  | .keyPath k s => if sameMachine hs k exec then some [s] else none
  | .undefined => none

/-- what must have happened -/
inductive Want where
  /-- must raise and run nothing -/
  | fail
  /-- must succeed having run exactly these commands -/
  | cmds (l : List PEvent)
  /-- may refuse (raise, run nothing) or do exactly this -/
  | either (l : List PEvent)
  deriving Repr

/-- a transfer tbot is free to refuse -/
def Want.optional : Want → Want
  | .cmds l => .either l
  | w => w

/-- `user@host` -/
def target (e : Eff) : Str := e.user ++ '@' :: e.host

/-- opening ssh machine `i`: (when multiplexing) `mkdir -p <workdir>/.ssh-multi` on the host it
was created from, then one `ssh` on that host with the machine's parameters -/
def wantConnect (hs : List Host) (i : Nat) : Want :=
  match hs[i]? with
  | none => .fail
  | some m =>
    match m.via with
    | none => .fail
    | some v =>
      match hs[v]? with
      | none => .fail
      | some jh =>
        let e := eff hs i m
        match wantIdents hs v e.auth with
        | none => .fail
        | some ids =>
          .cmds ((if e.mux then
                    [⟨⟨v, 0⟩, false, .raw [.s (lit "mkdir"), .s (lit "-p"), .p ⟨v, 0⟩ (muxDir jh.wd)]⟩]
                  else [])
            ++ [⟨⟨v, 0⟩, true,
                 .parsed ⟨wantPw e.auth, lit "ssh", wantOpts e jh.wd, ids, [natStr e.port], [.s (target e)]⟩⟩])

/-- how two machines relate for `copy` -/
inductive Role where
  | same | fromRemote | toRemote
  /-- an ssh machine and a *clone* of the host it was created from (which is not a local host):
  the same two machines as in a supported pairing, but not the very instance -/
  | fromRemoteViaClone | toRemoteViaClone
  | unsupported
  deriving DecidableEq, Repr

/-- `a` is an ssh machine created from a machine equal to `b` -/
def viaEquals (hs : List Host) (a b : Nat) : Bool :=
  isKind hs a .ssh && (viaOf hs a).any (fun v => sameMachine hs v b)

def role (hs : List Host) (a b : Nat) : Role :=
  if sameMachine hs a b then .same
  else if classRelated hs a b then .unsupported   -- same machine class, but not the same machine
  else if (isKind hs a .ssh && viaOf hs a == some b) || (isKind hs b .loc && isRemote hs a) then .fromRemote
  else if (isKind hs b .ssh && viaOf hs b == some a) || (isKind hs a .loc && isRemote hs b) then .toRemote
  else if viaEquals hs a b then .fromRemoteViaClone
  else if viaEquals hs b a then .toRemoteViaClone
  else .unsupported

/-- one `scp` on `exec` with the parameters of remote machine `r` -/
def wantScp (hs : List Host) (r exec : Nat) (lp rp : Str) (toRemote : Bool) : Want :=
  match hs[r]?, hs[exec]? with
  | some m, some l =>
    let e := eff hs r m
    match wantIdents hs exec e.auth with
    | none => .fail
    | some ids =>
      let lo : Arg := .p ⟨exec, 0⟩ lp
      let ro : Arg := .s (target e ++ ':' :: rp)
      .cmds [⟨⟨exec, 0⟩, false,
        .parsed ⟨wantPw e.auth, lit "scp", wantOpts e l.wd, ids, [natStr e.port],
                 if toRemote then [lo, ro] else [ro, lo]⟩⟩]
  | _, _ => .fail

def wantCopy (hs : List Host) (a : Nat) (pa : Str) (b : Nat) (pb : Str) : Want :=
  match role hs a b with
  | .same => .cmds [⟨⟨a, 0⟩, false, .raw [.s (lit "cp"), .p ⟨a, 0⟩ pa, .p ⟨a, 0⟩ pb]⟩]
  | .fromRemote => wantScp hs a b pb pa false
  | .toRemote => wantScp hs b a pa pb true
  | .fromRemoteViaClone => (wantScp hs a b pb pa false).optional
  | .toRemoteViaClone => (wantScp hs b a pa pb true).optional
  | .unsupported => .fail

def want (c : Case) : Want :=
  match c.op with
  | .connect i => wantConnect c.hosts i
  | .copy a pa b pb => wantCopy c.hosts a pa b pb

/-! comparison of an observation with what is wanted: machines are compared by their index in
the case (a clone made during the call *is* that machine), `-o` values as a multiset -/

def Arg.same : Arg → Arg → Bool
  | .s a, .s b => a == b
  | .p h a, .p k b => h.idx == k.idx && a == b
  | _, _ => false

def argsSame : List Arg → List Arg → Bool
  | [], [] => true
  | x :: xs, y :: ys => Arg.same x y && argsSame xs ys
  | _, _ => false

def Cmd.same : Cmd → Cmd → Bool
  | .parsed p, .parsed q =>
    p.pw == q.pw && p.prog == q.prog && p.oOpts.isPerm q.oOpts && p.idents == q.idents
      && p.ports == q.ports && argsSame p.operands q.operands
  | .raw a, .raw b => argsSame a b
  | _, _ => false

def eventsSame : List PEvent → List PEvent → Bool
  | [], [] => true
  | x :: xs, y :: ys => x.host.idx == y.host.idx && x.chan == y.chan && Cmd.same x.cmd y.cmd && eventsSame xs ys
  | _, _ => false

/-- well-formed machine sets: every machine is an instance of its own class, and clones have the
class of their original -/
def hostsWf (hs : List Host) : Bool :=
  hs.all (fun h => h.mro.contains h.cls)
    && hs.all (fun x => hs.all (fun y => x.orig != y.orig || x.cls == y.cls))

def Case.wf (c : Case) : Bool := hostsWf c.hosts

/-- an observation is what is wanted -/
def holds (w : Want) (o : Obs) : Bool :=
  match w with
  | .fail => o.err.isSome && o.events.isEmpty
  | .cmds l => o.err.isNone && eventsSame o.events l
  | .either l => (o.err.isSome && o.events.isEmpty) || (o.err.isNone && eventsSame o.events l)

end Ssh

namespace Spec

/-- C20 on one case -/
def C20 (c : Ssh.Case) (o : Ssh.Obs) : Bool := Ssh.holds (Ssh.want c) o

end Spec
