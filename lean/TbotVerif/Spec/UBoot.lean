import TbotVerif.Model.UBoot
import TbotVerif.Model.ChanRun
/-! C19 (exec / exec0 / test / env) — cases, observations, the model run and the specification.

    A case is a sequence of calls on ONE `UBootShell` whose console is `UBoot.Con`; `cuts` is the
    fragmentation schedule of everything the console sends (piece sizes, applied to the console's
    output stream as a whole).  Observed per call: the return value / exception, what the console
    dispatched (`ran`), the bytes that reached the transport, the sizes of the pieces the transport
    handed out. -/

namespace UBoot
open Chan

inductive Kind where | exec | exec0 | test deriving Repr, BEq, DecidableEq, Inhabited

inductive UOp where
  /-- `ub.exec/exec0/test(*args)`; the console's table says `args ↦ (out, status)` -/
  | cmd (k : Kind) (args : List Bytes) (out : Bytes) (status : Nat)
  /-- `ub.env(var[, value])` -/
  | env (var : Bytes) (value : Option Bytes)
  deriving Repr, Inhabited

structure UCase where
  prompt : Bytes        -- `UBootShell.prompt` (what the console prints, too)
  chunk : Nat           -- `Channel.READ_CHUNK_SIZE`
  cuts : List Nat
  ops : List UOp
  deriving Repr, Inhabited

inductive UVal where
  | rc (status : Nat) (out : List Char)
  | out (out : List Char)
  | bool (b : Bool)
  | err (tag : String)
  deriving Repr, BEq, DecidableEq, Inhabited

structure UObs where
  val : UVal
  ran : List Ran
  written : Bytes
  pieces : List Nat
  deriving Repr, BEq, Inhabited

def excTag : UExc → String
  | .chan e => Wire.exc e
  | .invalidRetcode => "invalid-retcode"
  | .commandFailure => "command-failure"

def tableOf : UOp → Option Entry
  | .cmd _ args out status => some ⟨args, out, status⟩
  | .env _ _ => none

def valOf (op : UOp) (ss : Sess) : UVal × Sess :=
  match op with
  | .cmd .exec args _ _ =>
    match exec args ss with
    | (.ok (rc, out), ss) => (.rc rc out, ss)
    | (.error e, ss) => (.err (excTag e), ss)
  | .cmd .exec0 args _ _ =>
    match exec0 args ss with
    | (.ok out, ss) => (.out out, ss)
    | (.error e, ss) => (.err (excTag e), ss)
  | .cmd .test args _ _ =>
    match test args ss with
    | (.ok b, ss) => (.bool b, ss)
    | (.error e, ss) => (.err (excTag e), ss)
  | .env var value =>
    match env var value ss with
    | (.ok v, ss) => (.out v, ss)
    | (.error e, ss) => (.err (excTag e), ss)

/-- the session as one call finds it: logs cut, the table row of this call installed -/
def enter (op : UOp) (ss : Sess) : Sess :=
  { ss with st := { ss.st with reads := [], writes := [], fwd := [] },
            con := { ss.con with ran := [], table := tableOf op } }

def obsOf (v : UVal) (ss : Sess) : UObs :=
  { val := v, ran := ss.con.ran,
    written := (ss.st.writes.map fun w => w.1.take w.2).flatten,
    pieces := ss.st.reads.filterMap fun r => r.data.map List.length }

def runOp (op : UOp) (ss : Sess) : UObs × Sess :=
  let r := valOf op (enter op ss)
  (obsOf r.1 r.2, r.2)

def runOps : List UOp → Sess → List UObs
  | [], _ => []
  | op :: ops, ss =>
    let r := runOp op ss
    r.1 :: runOps ops r.2

/-- the machine after `_init_shell`: prompt and black-list installed, nothing pending -/
def init (c : UCase) : Sess :=
  { st := { chunk := c.chunk, prompt := some (.lit c.prompt), blacklist := Params.ubootBlacklist },
    con := { prompt := c.prompt }, cuts := c.cuts }

def run (c : UCase) : List UObs := runOps c.ops (init c)

/-! ### the specification -/

def printableB (b : Bytes) : Bool := b.all Hush.printable

/-- `w` ends with `p` — and no shorter non-empty prefix of `w` does -/
def onlyEnd (p w : Bytes) : Bool :=
  (List.range w.length).all fun k => k == 0 || !p.isSuffixOf (w.take k)

/-- one prompt-delimited read of a call: the echo in front of it (consumed by read-back), the
    stream it has to get through, the prompt in force -/
structure Win where
  skip : Nat
  body : Bytes
  prompt : Bytes
  deriving Repr, Inhabited

def CRLF : Bytes := [CR, LF]

/-- command line `line`, then `echo $?`, on a console that answers (out, status) -/
def winsOf (prompt ovr line out : Bytes) (status : Nat) : List Win :=
  [ ⟨line.length + 2, Tty.cook out ++ prompt, ovr⟩,
    ⟨echoStatus.length + 2, statusBytes status ++ CRLF ++ prompt, prompt⟩ ]

/-- a window can be read at all: it ends with its prompt (else tbot waits for ever) -/
def Win.readable (w : Win) : Bool := w.prompt.isSuffixOf w.body

/-- … and in one way only, however the transport cuts it -/
def Win.good (w : Win) : Bool := w.readable && onlyEnd w.prompt w.body

/-- did the transport hand out a boundary at which a window ended with its prompt, early?
    (`bs`: the stream offsets of all piece boundaries of the call) -/
def earlyHit : Nat → List Win → List Nat → Bool
  | _, [], _ => false
  | base, w :: ws, bs =>
    let lo := base + w.skip
    let hi := lo + w.body.length
    bs.any (fun k => decide (lo < k) && decide (k < hi) && w.prompt.isSuffixOf (w.body.take (k - lo)))
      || earlyHit hi ws bs

def sums : Nat → List Nat → List Nat
  | _, [] => []
  | a, n :: ns => (a + n) :: sums (a + n) ns

/-- the prompt `exec` waits for after the command line -/
def effPrompt (prompt : Bytes) (args : List Bytes) : Bytes :=
  if args.head? == some crcName && prompt == crcPrompt then Params.ubootCrcOverride else prompt

def setenvArgs (var x : Bytes) : List Bytes := [setenvB, var, x]
def printenvArgs (var : Bytes) : List Bytes := [printenvB, var]

def cmdWins (prompt : Bytes) (args : List Bytes) (out : Bytes) (status : Nat) : List Win :=
  winsOf prompt (effPrompt prompt args) (Hush.escape args) out status

def envSetWins (prompt var x : Bytes) : List Win :=
  winsOf prompt prompt (Hush.escape (setenvArgs var x)) [] 0
    ++ winsOf prompt prompt (Hush.escape (printenvArgs var)) (printLine var x) 0

def envGetWins (prompt var : Bytes) (cur : Option Bytes) : List Win :=
  match cur with
  | some x => winsOf prompt prompt (Hush.escape (printenvArgs var)) (printLine var x) 0
  | none => winsOf prompt prompt (Hush.escape (printenvArgs var)) (notDefinedMsg var) 1

inductive Verdict where
  | bad                                     -- the property is violated
  | stop                                    -- outside the domain: nothing (more) is claimed
  | ok (env : List (Bytes × Bytes))         -- as demanded; the reference environment afterwards

def refused (o : UObs) : Bool := decide (o.val = .err "illegal") && o.ran.isEmpty && o.written.isEmpty

def sendable (line : Bytes) : Bool := !forbidden Params.ubootBlacklist (line ++ [CR])

/-- the line holds a key the console's line editor acts on: it must never get as far as the console -/
def hasSpecial (line : Bytes) : Bool := Quote.forbidden special line

/-- **C19** for one call, against the reference environment `env` -/
def specOp (c : UCase) (env : List (Bytes × Bytes)) (op : UOp) (o : UObs) : Verdict :=
  match op with
  | .cmd k args out status =>
    if !sendable (Hush.escape args) then
      (if refused o then .ok env else .bad)              -- rejected; nothing reached the console
    else if hasSpecial (Hush.escape args) then .bad      -- … and it must be rejected
    else if args.isEmpty || !args.all printableB then .stop
    else
      let wins := cmdWins c.prompt args out status
      if !wins.all Win.readable || earlyHit 0 wins (sums 0 o.pieces) then .stop
      else
        let want := text (Tty.cook out)
        let v := match k with
          | .exec => decide (o.val = .rc status want)
          | .exec0 => if status = 0 then decide (o.val = .out want) else decide (o.val = .err "command-failure")
          | .test => decide (o.val = .bool (status == 0))
        if v && decide (o.ran = [.argv args, .status]) then .ok env else .bad
  | .env var (some x) =>
    if !sendable (Hush.escape (setenvArgs var x)) then (if refused o then .ok env else .bad)
    else if hasSpecial (Hush.escape (setenvArgs var x)) then .bad
    else if !(printableB var && nameOk var && printableB x) then .stop
    else
      let wins := envSetWins c.prompt var x
      if !wins.all Win.readable || earlyHit 0 wins (sums 0 o.pieces) then .stop
      else if decide (o.val = .out (decodeReplace x))
          && decide (o.ran = [.argv (setenvArgs var x), .status, .argv (printenvArgs var), .status]) then
        .ok (envSet env var x)
      else .bad
  | .env var none =>
    if !sendable (Hush.escape (printenvArgs var)) then (if refused o then .ok env else .bad)
    else if hasSpecial (Hush.escape (printenvArgs var)) then .bad
    else if !printableB var then .stop
    else
      let cur := envGet env var
      let wins := envGetWins c.prompt var cur
      if !wins.all Win.readable || earlyHit 0 wins (sums 0 o.pieces) then .stop
      else
        let v := match cur with
          | some x => decide (o.val = .out (decodeReplace x))
          | none => decide (o.val = .err "command-failure")
        if v && decide (o.ran = [.argv (printenvArgs var), .status]) then .ok env else .bad

def specOps (c : UCase) : List (Bytes × Bytes) → List UOp → List UObs → Bool
  | _, [], [] => true
  | env, op :: ops, o :: os =>
    match specOp c env op o with
    | .bad => false
    | .stop => os.length == ops.length
    | .ok env' => specOps c env' ops os
  | _, _, _ => false

/-- per-call verdicts (`ok` / `stop` / `bad`), for the input-distribution evidence -/
def verdicts (c : UCase) : List (Bytes × Bytes) → List UOp → List UObs → List String
  | env, op :: ops, o :: os =>
    match specOp c env op o with
    | .bad => ["bad"]
    | .stop => ["stop"]
    | .ok env' => "ok" :: verdicts c env' ops os
  | _, _, _ => []

/-- the inputs the theorem ranges over: every argument printable (ASCII 0x20–0x7E and all of
    UTF-8 beyond), legal variable names, single-line values, and every window readable in
    exactly one way — the no-early-prompt hypothesis, here at the level of the STREAM, so that it
    covers every fragmentation -/
def wfOp (prompt : Bytes) (env : List (Bytes × Bytes)) : UOp → Bool
  | .cmd _ args out status =>
    !args.isEmpty && args.all printableB && (cmdWins prompt args out status).all Win.good
  | .env var (some x) =>
    printableB var && nameOk var && printableB x && (envSetWins prompt var x).all Win.good
  | .env var none =>
    printableB var && (envGetWins prompt var (envGet env var)).all Win.good

/-- the reference environment after a call -/
def nextEnv (env : List (Bytes × Bytes)) : UOp → List (Bytes × Bytes)
  | .env var (some x) => envSet env var x
  | _ => env

def wfOps (prompt : Bytes) : List (Bytes × Bytes) → List UOp → Bool
  | _, [] => true
  | env, op :: ops => wfOp prompt env op && wfOps prompt (nextEnv env op) ops

def wellformed (c : UCase) : Bool := decide (0 < c.chunk) && !c.prompt.isEmpty && wfOps c.prompt [] c.ops

end UBoot

def Spec.C19 (c : UBoot.UCase) (obs : List UBoot.UObs) : Bool := UBoot.specOps c [] c.ops obs
