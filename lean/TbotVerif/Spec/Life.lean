import TbotVerif.Model.Life
/-! C13 as a decidable predicate over what a caller of the machine can observe: the event log of
    the instrumented callbacks, the identity of the exception that reached it and the counter.

    The property is stated *declaratively* — no counter, no exit stack, no guard: a session's log
    is "begin the steps in the documented order up to the first one that raises; run the body iff
    every step came up; tear down exactly what was begun, in reverse — whatever the steps handle;
    the caller gets the last tear-down fault that no step further out handled, else the set-up's or
    the body's own exception (always: `Machine.__exit__` never swallows it)".  Without a handling
    step that is "the last exception raised" (`Spec.C13plain`, `C13.spec_eq_plain`).
    `Props/C13.lean` proves that the operational model of the code
    (`Life.run`) satisfies it; the harness evaluates it on the implementation's observation. -/

namespace Life

/-- position of a kind in the documented initialisation order (`init` and `power` share one) -/
def Kind.rank : Kind → Nat
  | .pre => 0 | .host => 1 | .conn => 2 | .init => 3 | .power => 3 | .shell => 4 | .post => 5 | .hook => 6

/-- the documented order: pre-connect steps, the connection (for a console connector: the
    lab-host clone, then the console), the initialisers in class order, the shell, the post-shell
    steps, the `init` hook -/
def specOrder (mro : List Step) : List Step :=
  (List.range 7).flatMap fun r => mro.filter fun s => s.kind.rank == r

/-- the callbacks that begin a step, in order -/
def beginEvs (s : Step) : List Ev :=
  match s.kind with
  | .power => [.check s.id, .on s.id]
  | .hook => [.hook s.id]
  | _ => [.enter s.id]

/-- the exception the callback behind an event raises under the fault assignment, if any -/
def faultTag (f : Faults) : Ev → Option Tag
  | .enter i => if f (.enter i) then some (.enter i) else none
  | .exit i => if f (.exit i) then some (.exit i) else none
  | .check i => if f (.check i) then some (.check i) else if f (.refused i) then some (.refused i) else none
  | .on i => if f (.on i) then some (.on i) else none
  | .off i => if f (.off i) then some (.off i) else none
  | .hook i => if f (.hook i) then some (.hook i) else none
  | .raise k => some (.body k)
  | _ => none

def raises (f : Faults) (e : Ev) : Bool := (faultTag f e).isSome

/-- the list up to and including the first element satisfying `p` (all of it if there is none) -/
def uptoFirst {α} (p : α → Bool) : List α → List α
  | [] => []
  | a :: l => if p a then [a] else a :: uptoFirst p l

/-- what has to be undone once a begin-callback has been reached: a context manager that was
    entered is exited; power that was *attempted* is switched off -/
def teardownOf (f : Faults) : Ev → List Ev
  | .enter i => if f (.enter i) then [] else [.exit i]
  | .on i => [.off i]
  | _ => []

/-- the tear-down owed for a list of begin-callbacks: in reverse -/
def teardown (f : Faults) (ini : List Ev) : List Ev := (ini.flatMap (teardownOf f)).reverse

/-- the last exception raised along a log (`e0` if none) -/
def lastRaised (f : Faults) (evs : List Ev) (e0 : Option Tag) : Option Tag :=
  evs.foldl (fun acc e => (faultTag f e).or acc) e0

def isRaise : Ev → Bool
  | .raise _ => true
  | _ => false

/-- the begin-callbacks a session reaches -/
def expectedInit (steps : List Step) (f : Faults) : List Ev :=
  uptoFirst (raises f) (steps.flatMap beginEvs)

/-- the body's log: its actions up to the first `raise` -/
def expectedBody (body : List Op) : List Ev := uptoFirst isRaise (body.map Op.ev)

/-- the log a session must produce -/
def expectedTrace (steps : List Step) (f : Faults) (body : List Op) : List Ev :=
  let ini := expectedInit steps f
  ini ++ (if ini.all (fun e => !raises f e) then expectedBody body else []) ++ teardown f ini

def isSleep : Ev → Bool
  | .sleep _ => true
  | _ => false

/-- the log without the `powercycle_delay` waits (C13 says nothing about them) -/
def noSleep (t : List Ev) : List Ev := t.filter fun e => !isSleep e

/-- the begin-callbacks a session reaches, split by unit (`units`: the steps that are one context
    manager for `Machine.__enter__`): those of the units that STARTED (every begin-callback
    returned), and those of the unit that failed, up to the callback that raised -/
def splitInit (f : Faults) : List (List Step) → List Ev × List Ev
  | [] => ([], [])
  | u :: us =>
    let b := u.flatMap beginEvs
    if b.any (raises f) then ([], uptoFirst (raises f) b)
    else (b ++ (splitInit f us).1, (splitInit f us).2)

def startedInit (f : Faults) (steps : List Step) : List Ev := (splitInit f (units steps)).1
def failedInit (f : Faults) (steps : List Step) : List Ev := (splitInit f (units steps)).2

/-- the clean-up the unit that failed to come up does itself before the exception leaves it: the
    `finally:` of `PowerControl._init_machine` around a failing `poweron()`; the exit of the
    lab-host clone when `connect()` fails inside `ConsoleConnector._connect`.  Part of the failing
    set-up step — no other step sees it. -/
def ownCleanup (f : Faults) (steps : List Step) : List Ev := teardown f (failedInit f steps)

/-- the tear-down of the units that were STARTED: what the exit stack runs, top first -/
def stackTeardown (f : Faults) (steps : List Step) : List Ev := teardown f (startedInit f steps)

/-- is the event the exit of a step whose context manager handles exceptions (step table `H`)? -/
def handlesEv (H : Handles) : Ev → Bool
  | .exit i => H i
  | _ => false

/-- the tear-down fault in flight after the tear-down callbacks `evs` (`p` before them): a callback
    that raises replaces it, a handling step whose own exit does not raise clears it -/
def pendingFault (f : Faults) (H : Handles) (evs : List Ev) (p : Option Tag) : Option Tag :=
  evs.foldl (fun acc e => match faultTag f e with
    | some x => some x
    | none => if handlesEv H e then none else acc) p

/-- the part of the log that belongs to the set-up and the body themselves -/
def ownTrace (steps : List Step) (f : Faults) (body : List Op) : List Ev :=
  let ini := expectedInit steps f
  ini ++ (if ini.all (fun e => !raises f e) then expectedBody body else []) ++ ownCleanup f steps

/-- the session's OWN exception: the last one raised by the set-up or by the body -/
def ownExc (steps : List Step) (f : Faults) (body : List Op) : Option Tag :=
  lastRaised f (ownTrace steps f body) none

/-- the tear-down fault that reaches the caller: the last one raised by the tear-down of a started
    step after which no handling step exits cleanly (`C13.pendingFault_eq_some_iff`) -/
def survivingFault (steps : List Step) (f : Faults) : Option Tag :=
  pendingFault f (handlesOf steps) (stackTeardown f steps) none

/-- the exception that must reach the caller: a tear-down fault unless a step further out handled
    it; else the set-up's / body's own exception — always, whatever the steps handle -/
def expectedExc (steps : List Step) (f : Faults) (body : List Op) : Option Tag :=
  (survivingFault steps f).or (ownExc steps f body)

/-- C13 for one session -/
def specSession (steps : List Step) (s : Session) (o : SObs) : Bool :=
  let t := expectedTrace steps s.f s.body
  noSleep o.trace == t && o.exc == expectedExc steps s.f s.body && o.rc == 0

def specSessions (steps : List Step) : List Session → List SObs → Bool
  | [], [] => true
  | s :: ss, o :: os => specSession steps s o && specSessions steps ss os
  | _, _ => false

/-- C13 for one session of a composition WITHOUT handling steps (the formulation before handling
    steps were modelled): the last exception raised along the log reaches the caller -/
def specSessionPlain (steps : List Step) (s : Session) (o : SObs) : Bool :=
  let t := expectedTrace steps s.f s.body
  noSleep o.trace == t && o.exc == lastRaised s.f t none && o.rc == 0

def specSessionsPlain (steps : List Step) : List Session → List SObs → Bool
  | [], [] => true
  | s :: ss, o :: os => specSessionPlain steps s o && specSessionsPlain steps ss os
  | _, _ => false

end Life

/-- **C13**: every session of the case, and the fault-free fresh entry after them, initialises
    in order up to the first fault, runs the body iff initialisation completed, tears down exactly
    what was begun in reverse order — every started step once, whatever the steps handle —, hands
    to the caller the last tear-down fault not handled by a step further out, else the set-up's /
    body's own exception, and leaves the counter at zero.  (Ill-formed cases are not in the
    domain: `false`.) -/
def Spec.C13 (c : Life.Case) (o : List Life.SObs) : Bool :=
  c.wf && Life.specSessions (Life.specOrder c.mro) (c.sessions ++ [Life.probe]) o

/-- C13 as it was stated before handling steps were modelled ("hands the last exception raised to
    the caller"); equal to `Spec.C13` on compositions without a handling step (`C13.spec_eq_plain`) -/
def Spec.C13plain (c : Life.Case) (o : List Life.SObs) : Bool :=
  c.wf && Life.specSessionsPlain (Life.specOrder c.mro) (c.sessions ++ [Life.probe]) o
