import TbotVerif.Model.Hush
/-! Specs of the quoting checks (helper checks of C01 and C19): decidable predicates over what is
    observable — the arguments handed to `escape`, the command-line text it returned (or the
    exception), and, for the splitter validation, the argument vector a real shell printed. -/

namespace Quote

/-- a case of check C01Q -/
inductive Case where
  /-- `escape(*args)` on a Bash/Ash machine; `bl` is a write black-list the caller cares about -/
  | esc (bl : Bytes) (args : List Arg)
  /-- splitter validation: a command line handed to the real shells -/
  | split (line : Bytes)
  deriving Repr

/-- what is observed -/
inductive Obs where
  | line (l : Bytes)           -- `escape` returned this text (UTF-8 encoded)
  | typeError                  -- `escape` raised `TypeError`
  | words (ws : List Bytes)    -- the shell's argument vector
  | hazard                     -- (model only) the splitter refuses the line
  deriving Repr, DecidableEq

/-- the model's answer -/
def run : Case → Obs
  | .esc _ args => match escapeArgs args with | some l => .line l | none => .typeError
  | .split l => match posixWords l with | some ws => .words ws | none => .hazard

def CR : Byte := 13
def LF : Byte := 10

def Arg.isStr : Arg → Bool | .str _ => true | _ => false
def Arg.isOther : Arg → Bool | .other => true | _ => false
def Arg.strOf : Arg → Bytes | .str s => s | _ => []

/-- the redirection suffix is empty or starts with the blank that separates it from the path -/
def Arg.wf : Arg → Bool
  | .redir _ _ post => post.isEmpty || post.head? == some SP
  | _ => true

def Case.wf : Case → Bool
  | .esc _ args => args.all Arg.wf
  | .split _ => true

/-- the black-list contains none of the bytes quoting can introduce -/
def blOk (bl : Bytes) : Bool := !(bl.contains SP || bl.contains SQ || bl.contains DQ)

def countPayload (c : Byte) (args : List Arg) : Nat := (args.map fun a => a.payload.count c).sum

end Quote

namespace Spec
open Quote

/-- C01 (quoting part).  For `escape`:
    * `TypeError` exactly when an argument of an unsupported type was passed;
    * the returned line consists, blank-separated and in order, of: for every string argument a
      piece that a POSIX shell reads as exactly that one word without meeting any hazard
      (`firstWord`), every special token verbatim, every redirection as operator + word;
    * if all arguments are strings: the shell's argument vector for the line is the argument list;
    * no CR and no LF is added (counts equal those of the arguments);
    * a black-listed byte occurs in the line iff it occurs in an argument (for black-lists that
      do not contain blank, `'`, `"`).
    For the splitter validation: a shell that printed `ws` for `line` agrees with `posixWords`
    whenever `posixWords` accepts the line. -/
def C01Q : Case → Obs → Bool
  | .esc bl args, .line l =>
    !args.any Arg.isOther
    && segCheck firstWord (args.flatMap Arg.atoms) l
    && (!args.all Arg.isStr || posixWords l == some (args.map Arg.strOf))
    && l.count CR == countPayload CR args
    && l.count LF == countPayload LF args
    && (!blOk bl || forbidden bl l == args.any (fun a => forbidden bl a.payload))
  | .esc _ args, .typeError => args.any Arg.isOther
  | .esc _ _, _ => false
  | .split line, .words ws => posixWords line == some ws
  | .split line, .hazard => posixWords line == none
  | .split _, _ => false

end Spec

namespace Hush

/-- a case of check C19Q: `UBootShell.escape(*args)` -/
structure Case where
  bl : Bytes
  args : List Arg
  deriving Repr

inductive Obs where
  | line (l : Bytes)
  | typeError
  deriving Repr, DecidableEq

def run (c : Case) : Obs :=
  match escapeArgs c.args with | some l => .line l | none => .typeError

def Arg.isStr : Arg → Bool | .str _ => true | _ => false
def Arg.isOther : Arg → Bool | .other => true | _ => false
def Arg.strOf : Arg → Bytes | .str s => s | _ => []

/-- the domain of the theorem: string arguments over printable ASCII and bytes >= 0x80 -/
def Arg.wf : Arg → Bool
  | .str s => s.all printable
  | _ => true

def Case.wf (c : Case) : Bool := c.args.all Arg.wf

/-- black-lists that contain none of the bytes `_hush_quote` can introduce -/
def blOk (bl : Bytes) : Bool :=
  !(bl.contains Quote.SP || bl.contains Quote.SQ || bl.contains Quote.DQ || bl.contains BS)

def countPayload (c : Byte) (args : List Arg) : Nat := (args.map fun a => a.payload.count c).sum

end Hush

namespace Spec
open Hush

/-- C19 (quoting part): `TypeError` exactly for unsupported argument types; the line consists of
    one hush word per string argument (read by the hazard-rejecting hush tokenizer: no variable
    expansion, separator, comment or quote state escapes) and the special tokens verbatim, single
    blanks in between; if all arguments are strings, `hushWords line` is the argument list;
    no CR/LF is added; a black-listed byte is in the line iff it is in an argument (black-lists
    without the quoting bytes).  Arguments outside the domain (control bytes) make the case ill-formed: only the
    `TypeError` clause is required of them. -/
def C19Q (c : Case) : Obs → Bool
  | .line l =>
    !c.args.any Arg.isOther
    && (!c.wf ||
        (Quote.segCheck firstWord (c.args.flatMap Arg.atoms) l
         && (!c.args.all Arg.isStr || hushWords l == some (c.args.map Arg.strOf))))
    && l.count Quote.CR == countPayload Quote.CR c.args
    && l.count Quote.LF == countPayload Quote.LF c.args
    && (!blOk c.bl || Quote.forbidden c.bl l == c.args.any (fun a => Quote.forbidden c.bl a.payload))
  | .typeError => c.args.any Arg.isOther

end Spec
