import TbotVerif.Model.Board
import TbotVerif.Model.ChanRun
/-! C18 — board bring-up, as a decidable predicate over what is observable from outside: the
    events at the transport (`ChannelIO.read` / `write` with their virtual times), the
    `poweron`/`poweroff` callbacks, the `init()` / `do_boot()` hooks, the exception that ends
    bring-up and the `bootlog` attributes.

    The predicate is a reference monitor over the event trace.  It knows the configuration
    but not the console: whatever the console does, the trace must be one in which

    * every write is the one the configuration calls for at that point (autoboot keys, `^C`
      polls, `boot`, ENTER for askfirst / after the login delay, user name, password) and is made
      at the very moment the awaited text was completed by a delivery — the user name only
      after the login prompt, the password only after the password prompt — or, for the `^C`
      poll, exactly one poll read after the wait began with no prompt seen;
    * the password is skipped only when `no_password_timeout` ran out without a password prompt;
    * with a boot time-out configured, nothing is written, no stage is completed and no failure
      is reported later than `stage start + boot_timeout` (+ one poll period for the U-Boot
      prompt loop: + the poll read for a write or success, + read and sleep for the failure);
      the failure then is a `TimeoutError`, never a hang, and is not reported when the awaited
      text had arrived;
    * `bootlog` is the text of everything delivered while the startup event was attached;
    * `poweron` comes first and `poweroff` last. -/

namespace Spec
open Board

/-- where the bring-up is, as far as the trace tells -/
inductive Ph where
  | off | ubAuto | ubLoop | ubUp | bootSent | ask | login1 | login2 | pw | done | lnxUp
  deriving Repr, DecidableEq, Inhabited

structure Mon where
  ph : Ph := .off
  start : Nat := 0             -- when the current boot stage began
  t0 : Nat := 0                -- when the current wait began
  acc : Bytes := []            -- delivered since the current wait began
  hit : Option Nat := none     -- when `acc` first ended with the awaited text (at a delivery)
  lastT : Nat := 0             -- time of the latest event (after a `^C`: the end of the sleep that follows it)
  ulog : List Char := []       -- text delivered while the U-Boot startup event was attached
  llog : List Char := []       -- … the Linux startup event
  ubSet : Bool := false        -- the U-Boot startup event was entered: `bootlog` gets set
  lnxSet : Bool := false
  deriving Repr, BEq, Inhabited

def ubT (c : Board.Case) : Option Nat := c.ub.bind (·.timeout)
def lnxT (c : Board.Case) : Option Nat := c.lnx.bind (·.timeout)

/-- has the awaited text been completed by `buf`? -/
def awaited (c : Board.Case) : Ph → Bytes → Bool
  | .ubAuto, buf =>
    match c.ub.bind (·.autoboot) with
    | some p => (Chan.promptEnd (Chan.anchor p) buf).isSome
    | none => false
  | .ubLoop, buf =>
    match c.ub with
    | some u => (Chan.promptEnd (.lit u.prompt) buf).isSome
    | none => false
  | .ask, buf =>
    match c.lnx.bind (·.askfirst) with
    | some banner => (Chan.firstMatch buf 0 [.lit banner]).isSome
    | none => false
  | .login1, buf | .login2, buf =>
    match c.lnx with
    | some l => (Chan.promptEnd (.lit l.login) buf).isSome
    | none => false
  | .pw, buf =>
    match c.lnx with
    | some l => (Chan.promptEnd (Chan.anchor l.pwPrompt) buf).isSome
    | none => false
  | _, _ => false

/-- which bootlog a delivery in this phase goes to: 1 U-Boot, 2 Linux, 0 none -/
def logId : Ph → Nat
  | .ubAuto | .ubLoop => 1
  | .ask | .login1 | .login2 | .pw => 2
  | _ => 0

def reading : Ph → Bool
  | .ubAuto | .ubLoop | .bootSent | .ask | .login1 | .login2 | .pw => true
  | _ => false

/-- one transport read -/
def rdStep (f : Bytes → Bool) (lg : Nat) (m : Mon) (r : ReadRec) : Mon :=
  match r.data with
  | none => { m with lastT := r.t1 }
  | some d =>
    { m with
      acc := m.acc ++ d, lastT := r.t1,
      hit := (match m.hit with
              | some h => some h
              | none => if f (m.acc ++ d) then some r.t1 else none),
      ulog := if lg = 1 then m.ulog ++ evText d else m.ulog,
      llog := if lg = 2 then m.llog ++ evText d else m.llog }

/-- `t ≤ base + T` when a time-out `T` is configured -/
def within (T : Option Nat) (base t : Nat) : Bool :=
  match T with
  | none => true
  | some T => t ≤ base + T

/-- a new wait begins at `t` -/
def wait (ph : Ph) (t t0 : Nat) (m : Mon) : Mon :=
  { m with ph := ph, t0 := t0, acc := [], hit := none, lastT := t }

/-- the Linux boot stage begins at `t` -/
def enterLnx (l : LnxCfg) (t : Nat) (m : Mon) : Mon :=
  { wait (if l.askfirst.isSome then .ask else .login1) t t m with start := t, lnxSet := true }

def afterUser (l : LnxCfg) (t : Nat) (m : Mon) : Mon :=
  if l.password.isSome then wait .pw t t m else wait .done t t m

def bootLine : Bytes := Params.ubootBootCmd ++ [13]

/-- one event; `none`: the trace is not one the configuration allows -/
def step (c : Board.Case) (m : Mon) : Ev → Option Mon
  | .pon t =>
    if m.ph != .off then none else
    match c.ub, c.lnx with
    | some u, _ =>
      some { wait (if u.autoboot.isSome then .ubAuto else .ubLoop) t t m with start := t, ubSet := u.autoboot.isNone }
    | none, some l => some (enterLnx l t m)
    | none, none => none
  | .poff _ => none
  | .rd r => if reading m.ph then some (rdStep (awaited c m.ph) (logId m.ph) m r) else none
  | .wr t b =>
    match m.ph with
    | .ubAuto =>
      match c.ub with
      | some u => if b == u.keys && m.hit == some t && within u.timeout m.start t
                  then some { wait .ubLoop t t m with ubSet := true } else none
      | none => none
    | .ubLoop =>
      match c.ub with
      | some u => if b == [3] && m.hit == none && t == m.t0 + Params.ubootPollRead
                     && within u.timeout m.start (t - Params.ubootPollRead)
                  then some (wait .ubLoop (t + Params.ubootPollSleep) (t + Params.ubootPollSleep) m) else none
      | none => none
    | .ubUp =>
      if c.lnx.isSome && b == bootLine && t == m.lastT then some (wait .bootSent t t m) else none
    | .ask =>
      match c.lnx with
      | some l => if b == [13] && m.hit == some t && within l.timeout m.start t
                  then some (wait .login1 t t m) else none
      | none => none
    | .login1 =>
      match c.lnx with
      | some l =>
        if l.delay = 0 then
          if b == l.user ++ [13] && m.hit == some t && within l.timeout m.start t then some (afterUser l t m) else none
        else
          match m.hit with
          | some th => if b == [13] && t == th + l.delay && within l.timeout m.start t
                       then some (wait .login2 t t m) else none
          | none => none
      | none => none
    | .login2 =>
      match c.lnx with
      | some l => if b == l.user ++ [13] && m.hit == some t && within l.timeout m.start t
                  then some (afterUser l t m) else none
      | none => none
    | .pw =>
      match c.lnx.bind (·.password), c.lnx with
      | some pw, some l => if b == pw ++ [13] && m.hit == some t && within l.timeout m.start t
                           then some (wait .done t t m) else none
      | _, _ => none
    | _ => none
  | .ubReady t =>
    match m.ph, c.ub with
    | .ubLoop, some u =>
      if m.hit == some t && within u.timeout m.start (t - Params.ubootPollRead) then some { m with ph := .ubUp, lastT := t } else none
    | _, _ => none
  | .booted t =>
    match m.ph, c.lnx with
    | .bootSent, some l =>
      if m.acc.length == bootLine.length + Chan.countNl bootLine && t == m.lastT then some (enterLnx l t m) else none
    | _, _ => none
  | .lnxReady t =>
    match m.ph, c.lnx with
    | .done, some _ => if t == m.lastT then some { m with ph := .lnxUp } else none
    | .pw, some l =>
      -- no password was sent: only because `no_password_timeout` ran out with no prompt seen
      match l.noPw with
      | some n => if m.hit == none && t == m.t0 + n && t == m.lastT && within l.timeout m.start t
                  then some { m with ph := .lnxUp } else none
      | none => none
    | _, _ => none

def steps (c : Board.Case) : Mon → List Ev → Option Mon
  | m, [] => some m
  | m, e :: es =>
    match step c m e with
    | none => none
    | some m' => steps c m' es

/-- the verdict when `poweroff()` is called at `t` with bring-up having ended in `res` -/
def accept (c : Board.Case) (m : Mon) (t : Nat) : Option Exc → Bool
  | none => m.ph == (if c.lnx.isSome then .lnxUp else .ubUp) && t == m.lastT
  | some .timeout =>
    match m.ph with
    | .ubAuto => (ubT c).isSome && within (ubT c) m.start t && m.hit == none
    | .ubLoop => (ubT c).isSome && within (ubT c) m.start (t - (Params.ubootPollRead + Params.ubootPollSleep))
                   && m.hit == none && t == m.t0
    | .ask | .login2 | .pw => (lnxT c).isSome && within (lnxT c) m.start t && m.hit == none
    | .login1 =>
      (lnxT c).isSome && within (lnxT c) m.start t
        && (match c.lnx with | some l => l.delay != 0 || m.hit == none | none => false)
    | _ => false
  | some .hang =>
    t == m.lastT &&
    match m.ph with
    | .ubAuto => (ubT c).isNone && m.hit == none
    | .bootSent => true
    | .ask | .login1 | .login2 => (lnxT c).isNone && m.hit == none
    | .pw => (lnxT c).isNone && m.hit == none
               && (match c.lnx with | some l => l.noPw.isNone | none => false)
    | _ => false
  | some .fuel => m.ph == .ubLoop && (ubT c).isNone && c.cap < t && t == m.t0
  | some _ => false

def logsOk (m : Mon) (o : Obs) : Bool :=
  o.ubLog == (if m.ubSet then some m.ulog else none) && o.lnxLog == (if m.lnxSet then some m.llog else none)

/-! ### cooperative consoles

    A console is cooperative for a configuration when, at power-on and in answer to every write
    of the protocol, it shows a non-empty output that completes what tbot waits for exactly at
    its end (never earlier — any garbage may precede the prompt, any fragmentation, any delays)
    and within the time-out in force (`boot_timeout`, `no_password_timeout`; one poll read for the
    U-Boot prompt).  `coopB` decides it; `Props/C18Coop.lean` proves that the model then returns
    normally (`coop_success`), and `C18` demands the same of every observation. -/

def outTotal (o : Out) : Nat := (o.map (·.1)).sum
def outBytes (o : Out) : Bytes := (o.map (·.2)).flatten

def endsB (test : Bytes → Bool) (o : Out) : Bool :=
  !o.isEmpty && test (outBytes o)
    && (List.range (outBytes o).length).all fun k => k == 0 || !test ((outBytes o).take k)

def fitsB (d : Nat) : Option Nat → Bool
  | none => true
  | some r => decide (d < r)

def afterB (d : Nat) : Option Nat → Option Nat := Option.map (· - d)

def loginT (l : LnxCfg) : Bytes → Bool := fun buf => (Chan.promptEnd (Chan.anchor (.lit l.login)) buf).isSome
def pwT (l : LnxCfg) : Bytes → Bool := fun buf => (Chan.promptEnd (Chan.anchor l.pwPrompt) buf).isSome
def askT (banner : Bytes) : Bytes → Bool := fun buf => (Chan.firstMatch buf 0 [.lit banner]).isSome
def autoT (p : Pat) : Bytes → Bool := fun buf => (Chan.promptEnd (Chan.anchor p) buf).isSome
def ubPromptT (u : UbCfg) : Bytes → Bool := fun buf => (Chan.promptEnd (.lit u.prompt) buf).isSome

def coopPwB (l : LnxCfg) (stages : List Stage) (budget : Option Nat) : Bool :=
  match l.password with
  | none => true
  | some _ =>
    match stages with
    | s :: _ => s.trig.fires (l.user ++ [13]) && endsB (pwT l) s.out && fitsB (outTotal s.out) budget
                  && fitsB (outTotal s.out) l.noPw
    | [] => false

def coopLoginB (l : LnxCfg) (o : Out) (stages : List Stage) (budget : Option Nat) : Bool :=
  endsB (loginT l) o && fitsB (outTotal o) budget &&
  if l.delay = 0 then coopPwB l stages (afterB (outTotal o) budget)
  else fitsB l.delay (afterB (outTotal o) budget) &&
    match stages with
    | s :: rest => s.trig.fires ([] ++ [13]) && endsB (loginT l) s.out
        && fitsB (outTotal s.out) (afterB l.delay (afterB (outTotal o) budget))
        && coopPwB l rest (afterB (outTotal s.out) (afterB l.delay (afterB (outTotal o) budget)))
    | [] => false

def coopLnxB (l : LnxCfg) (o : Out) (stages : List Stage) : Bool :=
  match l.askfirst with
  | none => coopLoginB l o stages l.timeout
  | some banner =>
    endsB (askT banner) o && fitsB (outTotal o) l.timeout &&
    match stages with
    | s :: rest => s.trig.fires ([] ++ [13]) && coopLoginB l s.out rest (afterB (outTotal o) l.timeout)
    | [] => false

def coopUbB (u : UbCfg) (init : Out) (stages : List Stage) (k : List Stage → Bool) : Bool :=
  match u.autoboot with
  | none => endsB (ubPromptT u) init && decide (outTotal init < Params.ubootPollRead) && k stages
  | some p =>
    endsB (autoT p) init && fitsB (outTotal init) u.timeout &&
    match stages with
    | s :: rest => s.trig.fires u.keys && endsB (ubPromptT u) s.out && decide (outTotal s.out < Params.ubootPollRead) && k rest
    | [] => false

/-- the echo of `boot`: the shortest prefix of the pieces that has the read-back length -/
def splitEcho : Nat → Out → Option (Out × Out)
  | 0, o => some ([], o)
  | _ + 1, [] => none
  | n + 1, (dt, d) :: r =>
    if d.length ≤ n + 1 then (splitEcho (n + 1 - d.length) r).map fun x => ((dt, d) :: x.1, x.2) else none

def coopBootB (l : LnxCfg) (stages : List Stage) : Bool :=
  match stages with
  | s :: rest =>
    s.trig.fires bootLine &&
    match splitEcho (bootLine.length + Chan.countNl bootLine) s.out with
    | some (_, o2) => coopLnxB l o2 rest
    | none => false
  | [] => false

def coopB (c : Board.Case) : Bool :=
  match c.ub, c.lnx with
  | none, none => false
  | some u, none => coopUbB u c.init c.stages fun _ => true
  | none, some l => coopLnxB l c.init c.stages
  | some u, some l => coopUbB u c.init c.stages (coopBootB l)

/-- `poweroff` is the last event; the events before it are a trace the monitor accepts; the
    outcome and the bootlogs fit the state it is in -/
def monitorOk (c : Board.Case) (o : Obs) : Bool :=
  match o.evs.getLast? with
  | some (.poff t) =>
    match steps c {} o.evs.dropLast with
    | some m => accept c m t o.res && logsOk m o
    | none => false
  | _ => false

/-- **C18** on an observation: the monitor accepts it, and against a cooperative console
    bring-up returned normally -/
def C18 (c : Board.Case) (o : Obs) : Bool :=
  monitorOk c o && (!coopB c || o.res.isNone)

end Spec
