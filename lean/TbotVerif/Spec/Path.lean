import TbotVerif.Model.PathRun
/-! C12 — the property as a predicate over observations.

    `Ref.run` is the reference semantics: `pathlib.PurePosixPath` (`PurePath`) applied directly —
    no wrapper objects, no re-parsing of results — plus the host rule "an operation that is handed
    a path of a machine that is not clone-equivalent to the machine in charge raises
    `WrongHostError` (before anything else), otherwise it yields what pathlib yields / the string
    of the path".  `Spec.C12 case obs` says that an observation is the reference one. -/

namespace PathM

/-- `i` and `j` were created as clones (of clones …) of the same fresh machine: follow the
    `clone` links down to the fresh instance. -/
def rootOf (specs : List MSpec) : Nat → Nat → Nat
  | 0, i => i
  | fuel + 1, i =>
    match specs[i]? with
    | some (.clone k) => rootOf specs fuel k
    | _ => i

/-- clone-equivalence of two machine indices of a case -/
def cloneEq (specs : List MSpec) (i j : Nat) : Bool :=
  rootOf specs specs.length i == rootOf specs specs.length j

namespace Ref

/-- the reference state: which machine the path belongs to, and the pathlib object -/
structure St where
  host : Nat
  path : PP
  deriving Repr, Inhabited

/-- host of an argument that is a tbot path -/
def argHost (cur : Option St) : AArg → Option Nat
  | .t h _ => some h
  | .self => cur.map (·.host)
  | _ => none

/-- the pathlib argument an argument stands for -/
def argPure (cur : Option St) : AArg → PArg
  | .s x => .s x
  | .t _ segs => .p (PP.ofRaw segs)
  | .q segs => .p (PP.ofRaw segs)
  | .bad => .bad
  | .self => match cur with
    | some st => .p st.path
    | none => .bad

/-- some argument is a path of a foreign machine -/
def foreign (heq : Nat → Nat → Bool) (host : Nat) (cur : Option St) (args : List AArg) : Bool :=
  args.any fun a => match argHost cur a with
    | some h => !heq h host
    | none => false

/-- host rule, then pathlib -/
def guarded {α : Type} (heq : Nat → Nat → Bool) (host : Nat) (cur : Option St) (args : List AArg)
    (f : List PArg → Except Exc α) : Except Exc α :=
  if foreign heq host cur args then .error .wrongHost else f (args.map (argPure cur))

def applyOp (heq : Nat → Nat → Bool) (st : St) : POp → Except Exc St
  | .parent => .ok { st with path := st.path.parent }
  | .par i => do let r ← st.path.parentsGet i; pure { st with path := r }
  | .withName s => do let r ← st.path.withName s; pure { st with path := r }
  | .withStem s => do let r ← st.path.withStem s; pure { st with path := r }
  | .withSuffix s => do let r ← st.path.withSuffix s; pure { st with path := r }
  | .joinpath args => do
    let r ← guarded heq st.host (some st) args st.path.joinpath
    pure { st with path := r }
  | .div a => do
    let r ← guarded heq st.host (some st) [a] st.path.joinpath
    pure { st with path := r }
  | .rdiv a => do
    let r ← guarded heq st.host (some st) [a] (fun l => PP.new (l ++ [.p st.path]))
    pure { st with path := r }
  | .relativeTo args => do
    let r ← guarded heq st.host (some st) args st.path.relativeTo
    pure { st with path := r }

def runChain (heq : Nat → Nat → Bool) : St → List POp → Nat → Except (Nat × Exc) St
  | st, [], _ => .ok st
  | st, o :: t, k =>
    match applyOp heq st o with
    | .ok st' => runChain heq st' t (k + 1)
    | .error e => .error (k, e)

def valOf (host : Nat) (p : PP) : Val := .p host p.str p.parts

def valsOf (host : Nat) (ps : List PP) : Val := .ps (ps.map fun p => (host, p.str, p.parts))

/-- the other operand of a comparison / a `Background` file -/
def argSt (st : St) : AArg → Option St
  | .t h segs => some { host := h, path := PP.ofRaw segs }
  | .self => some st
  | _ => none

/-- a path handed to machine `h`: `WrongHostError` unless clone-equivalent, else its string -/
def strAt (heq : Nat → Nat → Bool) (st : St) (h : Nat) : Except Exc Str :=
  if heq st.host h then .ok st.path.str else .error .wrongHost

/-- `Background(stdout=, stderr=)` handed to machine `h`: every given file must belong to a
    clone-equivalent machine; one file for both streams is written as `1>f 2>&1` -/
def background (heq : Nat → Nat → Bool) (out err : Option St) (h : Nat) : Except Exc Str :=
  match out, err with
  | some o, some e => do
    let s ← strAt heq o h
    let t ← strAt heq e h
    if s == t then pure ("1>".toList ++ shQuote s ++ " 2>&1 &".toList)
    else pure ("1>".toList ++ shQuote s ++ " 2>".toList ++ shQuote t ++ " &".toList)
  | none, some e => do
    let t ← strAt heq e h
    pure ("1>/dev/null 2>".toList ++ shQuote t ++ " &".toList)
  | some o, none => do
    let s ← strAt heq o h
    pure ("2>/dev/null 1>".toList ++ shQuote s ++ " &".toList)
  | none, none => pure "1>/dev/null 2>&1 &".toList

def query (heq : Nat → Nat → Bool) (st : St) : Query → Except Exc Val
  | .str => pure (.s st.path.str)
  | .parts => pure (.l st.path.parts)
  | .name => pure (.s st.path.name)
  | .suffix => pure (.s st.path.suffix)
  | .suffixes => pure (.l st.path.suffixes)
  | .stem => pure (.s st.path.stem)
  | .isAbs => pure (.b st.path.isAbsolute)
  | .plen => pure (.n st.path.parentsLen)
  | .plist => do let l ← st.path.parentsList; pure (valsOf st.host l)
  | .pslice a b => do let l ← st.path.parentsSlice a b; pure (valsOf st.host l)
  | .op o => do let r ← applyOp heq st o; pure (valOf r.host r.path)
  | .isRel args => do
    let b ← guarded heq st.host (some st) args st.path.isRelativeTo
    pure (.b b)
  | .match pat => do let b ← st.path.match pat; pure (.b b)
  | .cmp a =>
    match argSt st a with
    | some o => pure (cmpVal (heq st.host o.host && st.path.eq o.path) (st.path.cmp o.path) true)
    | none => .error .typeError
  | .atHost h => do let s ← strAt heq st h; pure (.s s)
  | .escape h => do let s ← strAt heq st h; pure (.s (shQuote s))
  | .redir k h =>
    match redirToken k with
    | some (tok, both) => do
      let s ← strAt heq st h
      pure (.s (tok ++ shQuote s ++ (if both then " 2>&1".toList else [])))
    | none => .error .typeError
  | .bg h out err => do
    let s ← background heq (out.bind (argSt st)) (err.bind (argSt st)) h
    pure (.s s)
  | .auth h => do let s ← strAt heq st (h.getD st.host); pure (.s s)

/-- reference observation of a case -/
def run (c : Case) : Obs :=
  let heq : Nat → Nat → Bool := if c.pure then (fun _ _ => true) else cloneEq c.machines
  match guarded heq c.host none c.args PP.new with
  | .error e => .fail 0 e
  | .ok p0 =>
    match runChain heq { host := c.host, path := p0 } c.chain 1 with
    | .error (k, e) => .fail k e
    | .ok st => .results (c.queries.map fun q => Res.ofExcept (query heq st q))

end Ref

/-- C12: the observation is the reference observation -/
def Spec.C12 (c : Case) (o : Obs) : Bool := o == Ref.run c

/-- the model whose observation is compared with the implementation's: pathlib itself for
    `pure` cases, tbot's wrapper otherwise -/
def run (c : Case) : Obs := if c.pure then Ref.run c else TPath.run c

/-! ### well-formedness of cases, and the one input class excluded from the theorem -/

def argWf (nm : Nat) (allowSelf : Bool) : AArg → Bool
  | .t h _ => h < nm
  | .self => allowSelf
  | _ => true

def opWf (nm : Nat) : POp → Bool
  | .joinpath args => args.all (argWf nm true)
  | .relativeTo args => args.all (argWf nm true)
  | .div a => argWf nm true a
  | .rdiv a => argWf nm true a
  | _ => true

def isPathArg : AArg → Bool
  | .t _ _ => true
  | .self => true
  | _ => false

def queryWf (nm : Nat) : Query → Bool
  | .op o => opWf nm o
  | .isRel args => args.all (argWf nm true)
  | .cmp a => argWf nm true a
  | .atHost h => h < nm
  | .escape h => h < nm
  | .redir _ h => h < nm
  | .bg h out err =>
    h < nm && (out.all fun a => argWf nm true a && isPathArg a)
      && (err.all fun a => argWf nm true a && isPathArg a)
  | .auth h => h.all (· < nm)
  | _ => true

def specsWf : List MSpec → Nat → Bool
  | [], _ => true
  | .fresh _ :: t, i => specsWf t (i + 1)
  | .clone k :: t, i => k < i && specsWf t (i + 1)

/-- machine references are in range, `clone` refers to an earlier machine, `self` is not used as
    a constructor argument -/
def Case.wf (c : Case) : Bool :=
  let nm := c.machines.length
  specsWf c.machines 0 && c.host < nm && c.args.all (argWf nm false)
    && c.chain.all (opWf nm) && c.queries.all (queryWf nm)

/-- pathlib 3.12 quirk: `with_suffix('')` on a name whose stem is `'.'` (`'..x'`) caches the
    component `'.'`, which no parsed path can have; tbot re-parses and loses it. -/
def opQuirk (p : PP) : POp → Bool
  | .withSuffix s => s.isEmpty && PP.stemOf p.name == ['.']
  | _ => false

def chainQuirkFree (heq : Nat → Nat → Bool) : Ref.St → List POp → Bool
  | _, [] => true
  | st, o :: t =>
    !opQuirk st.path o &&
      match Ref.applyOp heq st o with
      | .ok st' => chainQuirkFree heq st' t
      | .error _ => true

def queryQuirkFree (st : Ref.St) : Query → Bool
  | .op o => !opQuirk st.path o
  | _ => true

/-- no step of the case is the `with_suffix` quirk -/
def Case.quirkFree (c : Case) : Bool :=
  let heq : Nat → Nat → Bool := if c.pure then (fun _ _ => true) else cloneEq c.machines
  match Ref.guarded heq c.host none c.args PP.new with
  | .error _ => true
  | .ok p0 =>
    chainQuirkFree heq { host := c.host, path := p0 } c.chain &&
      match Ref.runChain heq { host := c.host, path := p0 } c.chain 1 with
      | .ok st => c.queries.all (queryQuirkFree st)
      | .error _ => true

end PathM
