import TbotVerif.Model.Run
import TbotVerif.Spec.Chan
/-! C10 — "Interactive commands: output, exit status and early exit are reported faithfully" as a
    decidable predicate over the case and what is observable: per call its value / exception and
    the sizes of the transport deliveries it consumed; how the `with` block ended; the result of
    the next command on the machine; the lines the command read.

    The predicate replays the scenario on a *reference*: the remote (tty, scripted process,
    shell prompt) and the number of bytes each call took from the stream — nothing of the channel
    or proxy implementation.  A step is either *accepted*, *rejected* (the property is violated)
    or *outside the domain* (then nothing more is demanded; the domain is spelled out in
    `Ref.step` and summarised in `Props/C10.lean`).  One kind of rejection is singled out
    (`V.split`): a value-returning read that has consumed part of the shell's prompt — the
    known finding of this property, see `Props/C10.lean`. -/

namespace Run
open Chan

inductive Phase where
  | running        -- the proxy may be used
  | ended          -- a call has raised CommandEndedException
  | terminated     -- `terminate*` has returned
  deriving Repr, BEq, DecidableEq, Inhabited

/-- verdict of one step -/
inductive V (α : Type) where
  | ok (next : α)
  | bad                  -- the observation contradicts the property
  | outside              -- the scenario has left the domain of the property
  | split                -- contradicts the property: a returned value reaches into the shell's prompt
  deriving Repr, Inhabited

structure Ref where
  rem : Rem
  since : Bytes := []      -- consumed from the stream since the command line was read back
  pend : Bytes             -- sent by the remote, not yet consumed
  phase : Phase := .running
  deriving Repr, Inhabited

/-- The prompt is not part of anything the remote sends except as the prompt the shell prints
    when the command is gone (the analogue of C01's `NoEarlyPrompt`): its first occurrence in
    the stream ends the stream, and there is none while the command is alive. -/
def promptOk (ps1 : Bytes) (stream : Bytes) (status : Option Nat) : Bool :=
  match findSub ps1 stream with
  | none => status.isNone
  | some i => status.isSome && i + ps1.length == stream.length

/-- what may be typed in one `send`: no line ending except as the last byte -/
def typable (b : Bytes) : Bool := b.dropLast.all fun c => c != Tty.CR && c != Tty.LF

namespace Ref

def consume (k : Nat) (r : Ref) : Ref := { r with since := r.since ++ r.pend.take k, pend := r.pend.drop k }

/-- the deliveries of this call reach the end of the prompt the shell printed after the command:
    the command has ended during (or before) the call -/
def fin (k : Nat) (r : Ref) : Bool := r.rem.status.isSome && k == r.pend.length && 0 < k

/-- a value-returning read must leave the shell's prompt alone -/
def leaves (ps1 : Bytes) (k : Nat) (r : Ref) : Bool := r.rem.status.isNone || k + ps1.length ≤ r.pend.length

/-- something is typed while the command is in the foreground -/
def typed (ps1 : Bytes) (b : Bytes) (r : Ref) : V Ref :=
  if r.rem.status.isSome then .outside else
  let (out, rem) := type ps1 b r.rem
  let r := { r with rem := rem, pend := r.pend ++ out }
  if promptOk ps1 (r.since ++ r.pend) rem.status then .ok r else .outside

/-- a read-type call in the running phase: `val` judges a returned value on the bytes consumed,
    `quiet` is what a time-out / an endless wait additionally requires -/
def reading (ps1 : Bytes) (t : Option Nat) (o : OpObs) (r : Ref)
    (val : TRes → Bytes → Bool) : V Ref :=
  if t == some 0 then .outside else
  let k := o.pieces.sum
  if r.pend.length < k then .bad else      -- more than was pending cannot have been delivered
  match o.res with
  | .err .ended => if r.fin k then .ok { r.consume k with phase := .ended } else .bad
  | .err .timeout => if t.isSome && k == r.pend.length && !r.fin k then .ok (r.consume k) else .bad
  | .err .hang => if t.isNone && k == r.pend.length && !r.fin k then .ok (r.consume k) else .bad
  | res =>
    if r.fin k || !val res (r.pend.take k) then .bad
    else if r.leaves ps1 k then .ok (r.consume k) else .split

def valExpect (pats : List Pat) (res : TRes) (buf : Bytes) : Bool :=
  match res with
  | .expect i before m after =>
    match pats[i]? with
    | none => false
    | some p =>
      match p.search buf with
      | none => false
      | some (a, e) => before == text (buf.take a) && m == decodeReplace ((buf.drop a).take (e - a)) && after == text (buf.drop e)
  | _ => false

def valRup (P : Option Pat) (res : TRes) (buf : Bytes) : Bool :=
  match res, P with
  | .text out, some P =>
    match promptEnd P buf with
    | some n => out == text (buf.take n)
    | none => false
  | _, _ => false

def valRut (t : Option Nat) (res : TRes) (buf : Bytes) : Bool :=
  match res with
  | .text out => t.isSome && out == text buf
  | _ => false

/-- `terminate()`: the rest of the output up to the prompt, and the real status -/
def term (ps1 : Bytes) (o : OpObs) (r : Ref) (want : Nat → List Char → TRes) : V Ref :=
  match r.phase with
  | .terminated => if o.res == .err .assertion && o.pieces.isEmpty then .ok r else .bad
  | ph =>
    match r.rem.status with
    | none => .outside          -- the command is still waiting for input
    | some st =>
      if 256 ≤ st then .outside else     -- an exit status is a byte
      let resp := Shell.respStatus false ps1 st
      let rest := if ph == .ended then [] else r.pend
      if ph == .ended && !r.pend.isEmpty then .outside else
      if o.pieces.sum == rest.length + resp.length
          && ps1.isSuffixOf rest == (ph == .running)
          && o.res == want st (text (rest.take (rest.length - ps1.length)))
      then .ok { r with since := r.since ++ rest, pend := [], phase := .terminated } else .bad

/-- `send` / `sendline` with the bytes that go out (`payload` carries the CR of `sendline`) -/
def sendLike (ps1 bl : Bytes) (payload : Bytes) (rb : Bool) (o : OpObs) (r : Ref) : V Ref :=
  if payload.isEmpty then (if o.res == .unit && o.pieces.isEmpty then .ok r else .bad)
  else if r.phase != .running then (if o.res == .err .ended && o.pieces.isEmpty then .ok r else .bad)
  else if forbidden bl payload then (if o.res == .err .illegal && o.pieces.isEmpty then .ok r else .bad)
  else if !typable payload then .outside
  else if rb && !r.pend.isEmpty then .outside       -- read-back is only specified when nothing is pending
  else match r.typed ps1 payload with
    | .ok r' =>
      if !rb then (if o.res == .unit && o.pieces.isEmpty then .ok r' else .bad)
      else
        let k := o.pieces.sum
        if o.res == .unit && k == Tty.readBackLen payload && k ≤ r'.pend.length
        then .ok (r'.consume k) else .bad
    | v => v

/-- one call of the test body -/
def step (ps1 bl : Bytes) (op : TOp) (o : OpObs) (r : Ref) : V Ref :=
  match op with
  | .send b rb => r.sendLike ps1 bl b rb o
  | .sendline b rb => r.sendLike ps1 bl (b ++ [Tty.CR]) rb o
  | .sendcontrol n =>
    if r.phase != .running then (if o.res == .err .ended && o.pieces.isEmpty then .ok r else .bad)
    else if n != 3 && n != 4 then .outside
    else match r.typed ps1 [UInt8.ofNat n] with
      | .ok r' => if o.res == .unit && o.pieces.isEmpty then .ok r' else .bad
      | v => v
  | .expect ps t =>
    if r.phase != .running then
      (if t == some 0 then .outside else if o.res == .err .ended && o.pieces.isEmpty then .ok r else .bad)
    else r.reading ps1 t o (valExpect ps)
  | .rup q t =>
    if r.phase != .running then
      (if t == some 0 then .outside else if o.res == .err .ended && o.pieces.isEmpty then .ok r else .bad)
    else r.reading ps1 t o (valRup (Spec.effPrompt q (some (.lit ps1))))
  | .rut t =>
    if r.phase != .running then
      (if t == some 0 then .outside else if o.res == .err .ended && o.pieces.isEmpty then .ok r else .bad)
    else r.reading ps1 t o (valRut t)
  | .terminate => r.term ps1 o fun st out => .term st out
  | .terminate0 => r.term ps1 o fun st out => if st = 0 then .out out else .err .failure
  | .raise => if o.res == .unit && o.pieces.isEmpty then .ok r else .bad
  | .wait => if o.res == .unit && o.pieces.isEmpty then .ok r else .bad
  | .probe _ => if o.res == .err .borrowed && o.pieces.isEmpty then .ok r else .bad

/-- the calls of the body, up to and including a `raise`; returns whether it raised -/
def walk (ps1 bl : Bytes) : List TOp → List OpObs → Ref → V (Ref × Bool)
  | [], [], r => .ok (r, false)
  | .raise :: _, [o], r =>
    (match step ps1 bl .raise o r with | .ok r => .ok (r, true) | .bad => .bad | .outside => .outside | .split => .split)
  | .raise :: _, _, _ => .bad
  | op :: ops, o :: os, r =>
    (match step ps1 bl op o r with
     | .ok r => walk ps1 bl ops os r
     | .bad => .bad
     | .outside => .outside
     | .split => .split)
  | _, _, _ => .bad

end Ref

/-- the command that follows on the machine is exact (C01 for one command; its output must not
    contain the prompt either) -/
def nextOk (c : Case) (n : NextObs) : Bool :=
  let line := Shell.lineOf c.next ++ [Tty.CR]
  if forbidden (blacklist c) line then
    (match n.val with | .err t => t == "illegal" | _ => false) && n.argv.isNone
  else if !promptOk (prompt c) (Tty.cook c.next.out ++ prompt c) (some 0) || 256 ≤ c.next.status then true
  else n.argv == some c.next.args &&
    (match n.val with
     | .rc st out => st == c.next.status && out == text (Tty.cook c.next.out)
     | _ => false)

/-- the scenario after `run()` was entered -/
def entered (c : Case) (o : Obs) : Bool :=
  let ps1 := prompt c
  let line := lineOf c ++ [Tty.CR]
  let (out0, rem) := start ps1 c.steps
  let echo := Tty.echo false line
  -- the command line is read back exactly
  o.enter.res == .unit && o.enter.pieces.sum == echo.length &&
  (if !promptOk ps1 out0 rem.status then true else      -- outside: the command prints the prompt itself
   match Ref.walk ps1 (blacklist c) c.ops o.ops { rem := rem, pend := out0 } with
   | .bad => false
   | .split => false
   | .outside => true
   | .ok (r, raised) =>
     -- leaving the block: the body's exception, else RuntimeError unless terminated
     o.exit == (if raised then .body else if r.phase == .terminated then .none else .runtime)
     -- after termination the machine is in sync: the next command is exact …
     && (match r.phase, o.next with
         | .terminated, some n => nextOk c n
         | .terminated, none => false
         | _, none => true
         | _, some _ => false)
     -- … and the command has read exactly what was sent
     && (match r.phase, o.lines with
         | .terminated, some ls => ls == r.rem.lines
         | .terminated, none => false
         | _, none => true
         | _, some _ => false))

/-- diagnostic only: which part of the observation the specification rejects -/
def explain (c : Case) (o : Obs) : String :=
  let ps1 := prompt c
  if forbidden (blacklist c) (lineOf c ++ [Tty.CR]) then "command line refused: see enter / next" else
  let (out0, rem) := start ps1 c.steps
  if !(o.enter.res == .unit && o.enter.pieces.sum == (Tty.echo false (lineOf c ++ [Tty.CR])).length) then "enter" else
  if !promptOk ps1 out0 rem.status then "outside: prompt in initial output" else
  let rec go (i : Nat) : List TOp → List OpObs → Ref → String
    | [], [], r => s!"after the body: phase {repr r.phase} pending {r.pend.length}"
    | op :: ops, ob :: os, r =>
      (match Ref.step ps1 (blacklist c) op ob r with
       | .ok r' => (match op with | .raise => "after raise" | _ => go (i + 1) ops os r')
       | .bad => s!"operation {i} rejected: phase {repr r.phase} pending {r.pend.length} status {repr r.rem.status}"
       | .split => s!"operation {i} returned a value that reaches into the shell's prompt: pending {r.pend.length}"
       | .outside => s!"operation {i} outside the domain")
    | _, _, _ => s!"operation count at {i}"
  go 0 c.ops o.ops { rem := rem, pend := out0 }

/-- the scenario is in the domain up to a value-returning read that has consumed part of the
    shell's prompt (the known finding) -/
def splits (c : Case) (o : Obs) : Bool :=
  let ps1 := prompt c
  if forbidden (blacklist c) (lineOf c ++ [Tty.CR]) then false else
  let (out0, rem) := start ps1 c.steps
  if !promptOk ps1 out0 rem.status then false else
  match Ref.walk ps1 (blacklist c) c.ops o.ops { rem := rem, pend := out0 } with
  | .split => true
  | _ => false

end Run

/-- **C10** -/
def Spec.C10 (c : Run.Case) (o : Run.Obs) : Bool :=
  if Chan.forbidden (Run.blacklist c) (Run.lineOf c ++ [Tty.CR]) then
    -- `run()` refuses the command line: nothing was sent, the machine is untouched
    o.enter.res == .err .illegal && o.enter.pieces.isEmpty && o.ops.isEmpty && o.exit == .notEntered
      && (match o.next with | some n => Run.nextOk c n | none => false) && o.lines == some []
  else Run.entered c o
