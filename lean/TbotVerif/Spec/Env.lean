import TbotVerif.Model.Env
/-! C09 — the specification: a reference semantics of test bodies that knows nothing about
    channels, ttys, quoting or shells.  One frame of abstract state (variables as STRINGS, working
    directory, options); a `with m.subshell():` block runs its body on a copy and then continues
    **with the state from before the block** — that is the isolation property; `m.env(v)` returns
    the string last given to `m.env(v, x)` — that is the round-trip property. -/

namespace Env

/-- abstract state of the shell the machine currently talks to -/
structure RFrame where
  env : List (Bytes × List Char)   -- variable ↦ the Python string it was set to
  cwd : Bytes
  opts : List Byte
  deriving Repr, BEq, DecidableEq, Inhabited

def rlookup (env : List (Bytes × List Char)) (name : Bytes) : Option (List Char) :=
  (env.find? (·.1 == name)).map (·.2)

def kindOf : Op → Kind
  | .set .. => .set | .get .. => .get | .probe .. => .probe | .cd .. => .cd | .pwd => .pwd
  | .setopt .. => .setopt | .getopt => .getopt | .echo .. => .echo | .run .. => .run

/-- what one operation must return, and the state afterwards -/
def refOp (ash : Bool) (o : Op) (f : RFrame) : Val × RFrame :=
  match o with
  | .set n v =>
    -- a value with a byte the driver refuses to send is rejected and changes nothing
    if Chan.forbidden (blacklist ash) (enc v) then (.err "illegal", f)
    else (.ok, { f with env := (n, v) :: f.env.filter (·.1 != n) })
  | .get n => (.str ((rlookup f.env n).getD []), f)
  | .probe _ n => (.env ((rlookup f.env n).map enc), f)
  | .cd d => (.ok, { f with cwd := d })
  | .pwd => (.str (text (Tty.cook (f.cwd ++ [LF]))), f)
  | .setopt c on => (.ok, { f with opts := setOpt f.opts c on })
  | .getopt => (.opts (tracked.filter f.opts.contains), f)
  | .echo a => (.rc 0 (text (Tty.cook (echoOut ash [Quote.SP :: enc a]))) none, f)
  | .run _ args out st => (.rc (st % 256) (text (Tty.cook out)) (some args), f)

/-- expected results of a test body started in state `f`, how it ends, and the final state -/
def refProg (ash : Bool) : Prog → RFrame → (List (Kind × Val) × Outcome) × RFrame
  | .done, f => (([], .normal), f)
  | .op o k, f =>
    let r := refOp ash o f
    let rk := refProg ash k r.2
    (((kindOf o, r.1) :: rk.1.1, rk.1.2), rk.2)
  | .raise, f => (([(.raise, .ok)], .raised "user"), f)
  | .sub c body k, f =>
    -- the nested shell inherits variables and working directory; its options start afresh
    let rb := refProg ash body { f with opts := [] }
    let pre := (Kind.enter, Val.ok) :: rb.1.1 ++ [(Kind.exit, Val.ok)]
    match rb.1.2 with
    | .raised t =>
      if c && t == "user" then
        let rk := refProg ash k f          -- … and the state from BEFORE the block is back
        ((pre ++ rk.1.1, rk.1.2), rk.2)
      else ((pre, .raised t), f)
    | .normal =>
      let rk := refProg ash k f
      ((pre ++ rk.1.1, rk.1.2), rk.2)

def initFrame (c : Case) : RFrame := { env := [], cwd := c.cwd, opts := [] }

/-! ### the domain of the theorems (`Props/C09.lean`): well-formed cases -/

/-- not on the black-list and not CR (the tty would turn it into LF) -/
def okByte (bl : Bytes) (c : Byte) : Bool := !bl.contains c && c != CR

def clean (bl : Bytes) (l : Bytes) : Bool := l.all (okByte bl)

/-- decidable form of "the prompt `p` ends `pre ++ p` and no shorter non-empty prefix" -/
def noEarly (p pre : Bytes) : Bool :=
  (List.range (pre.length + p.length)).all fun k => k == 0 || !(p.isSuffixOf ((pre ++ p).take k))

/-- the prompt does not end a proper prefix of the cooked output followed by the prompt -/
def okOut (ash : Bool) (out : Bytes) : Bool := noEarly (prompt ash) (Tty.cook out)

/-- the words that start an external command: an absolute path first, all of them sendable -/
def extPre (bl : Bytes) (pre : List Bytes) : Bool :=
  match pre with
  | (47 :: _) :: _ => pre.all (clean bl)
  | _ => false

/-- one operation is in the domain: names are shell identifiers; strings have no CR (the tty would
    turn it into LF) and — except for the value of `env(name, value)`, where the rejection is part
    of the specification — no black-listed byte; what the command prints does not contain the prompt
    at a piece end -/
def Op.wf (ash : Bool) : Op → Bool
  | .set n v =>
    isName n && (Chan.forbidden (blacklist ash) (enc v)
      || (clean (blacklist ash) (enc v) && okOut ash (Quote.SP :: enc v ++ [LF])))
  | .get n => isName n
  | .probe pre _ => extPre (blacklist ash) pre
  | .cd d => clean (blacklist ash) d && okOut ash (d ++ [LF])
  | .pwd => true
  | .setopt c _ => tracked.contains c
  | .getopt => true
  | .echo a => clean (blacklist ash) (enc a) && okOut ash (echoOut ash [Quote.SP :: enc a])
  | .run pre args out _ => extPre (blacklist ash) pre && args.all (clean (blacklist ash)) && okOut ash out

def Prog.wf (ash : Bool) : Prog → Bool
  | .done => true
  | .op o k => o.wf ash && k.wf ash
  | .raise => true
  | .sub _ body k => body.wf ash && k.wf ash

def Case.wf (c : Case) : Bool :=
  decide (0 < c.chunk) && clean (blacklist c.ash) c.cwd && okOut c.ash (c.cwd ++ [LF]) && c.prog.wf c.ash

end Env

/-- **C09**: every observed result is the one the reference semantics demands, in order, and the
    body ends the same way -/
def Spec.C09 (c : Env.Case) (obs : List Env.Obs × Env.Outcome) : Bool :=
  let r := (Env.refProg c.ash c.prog (Env.initFrame c)).1
  decide (obs.1.map (fun o => (o.kind, o.val)) = r.1) && decide (obs.2 = r.2)
