import TbotVerif.Model.Log
/-! C17 as a decidable predicate over what is observable of `EventIO` (constructor output,
    per-call results and stdout text, `getvalue()`, the documents in the log file) and of
    `logparser.logfile` (the events yielded).  The printed text is specified in *batch* form
    (`render`): it never mentions `cursor` / `_nextline`. -/

namespace Log

/-- the lines of `s`, each with its terminator (a line ends at every CR and every LF) -/
def linesKeep : Str → List Str
  | [] => []
  | c :: t =>
    if isSep c then [c] :: linesKeep t
    else
      match linesKeep t with
      | [] => [[c]]
      | l :: ls => (c :: l) :: ls

/-- batch specification of the terminal output for stored text `s`: the prefix before the
    first character of every line -/
def render (pfx s : Str) : Str := (linesKeep s).flatMap (pfx ++ ·)

/-- the last line is open (non-empty text not ending in CR / LF): `close` adds a newline -/
def openEnd (s : Str) : Bool :=
  match s.getLast? with
  | none => false
  | some c => !isSep c

/-- header printing enabled (`verbosity <= VERBOSITY` in the constructor) -/
def en0 (c : EvCase) : Bool := decide (c.verb0 ≤ c.g.verbosity)
/-- body printing enabled (after `ev.verbosity = …`) -/
def en1 (c : EvCase) : Bool := decide (c.verb1 ≤ c.g.verbosity)

/-- what the constructor stores: the rest of a multi-line message, as a line -/
def stored0 (c : EvCase) : Str :=
  match (splitMsg c.msg).2 with
  | none => []
  | some r => normalise (r ++ ['\n'])

def firstGlyph (c : EvCase) : Str :=
  match c.nestFirst with
  | none => u c.g Params.logFirstU Params.logFirstA
  | some [] => u c.g Params.logFirstU Params.logFirstA
  | some s => s

def linePfx0 (c : EvCase) : Str := prefixOf c.g none none ++ emptyC c.g
def linePfx1 (c : EvCase) : Str := prefixOf c.g c.pfx1 none ++ emptyC c.g

/-- the constructor's output: the message line and (for a multi-line message) the rest,
    rendered with the construction-time prefix; nothing when not enabled -/
def expHdr (c : EvCase) : Str :=
  if en0 c then
    prefixOf c.g none (some (firstGlyph c)) ++ (splitMsg c.msg).1 ++ ['\n']
      ++ render (linePfx0 c) (stored0 c)
  else []

/-- how much of the stored text the constructor already printed -/
def cursor0 (c : EvCase) : Nat := if en0 c then (stored0 c).length else 0

/-- everything printed after construction once the stored text is `st`: the batch rendering
    of the part the constructor did not print, plus the closing newline; nothing when the
    event is above the verbosity level -/
def expBody (c : EvCase) (st : Str) (closed : Bool) : Str :=
  if en1 c then
    render (linePfx1 c) (st.drop (cursor0 c))
      ++ (if closed && openEnd (st.drop (cursor0 c)) then ['\n'] else [])
  else []

/-- calls on a closed event raise and print nothing -/
def specDead : List Op → List (Res × Str) → Bool
  | [], [] => true
  | _ :: ops, (r, d) :: rs => r == .closedErr && d == [] && specDead ops rs
  | _, _ => false

/-- calls on the open event.  `st` = text stored so far (each normalised write once, in
    order), `pr` = text printed so far since construction, `data` = the `data` dict. -/
def specLive (c : EvCase) (o : EvObs) : Str → Str → List (Str × Str) → List Op → List (Res × Str) → Bool
  | st, _, _, [], [] => o.stored == st && o.docs == []
  | st, pr, data, .write s :: ops, (r, d) :: rs =>
    let st' := st ++ normalise s
    r == .wrote (normalise s).length && pr ++ d == expBody c st' false
      && specLive c o st' (pr ++ d) data ops rs
  | st, pr, data, .writeln s :: ops, (r, d) :: rs =>
    let st' := st ++ normalise (s ++ ['\n'])
    r == .wrote (normalise (s ++ ['\n'])).length && pr ++ d == expBody c st' false
      && specLive c o st' (pr ++ d) data ops rs
  | st, pr, data, .setData k :: ops, (r, d) :: rs =>
    r == .unit && d == [] && specLive c o st pr (setKey k st data) ops rs
  | st, pr, data, .close :: ops, (r, d) :: rs =>
    r == .unit && pr ++ d == expBody c st true && o.stored == st
      && o.docs == (if c.g.logOn then [⟨c.ty, data⟩] else [])
      && specDead ops rs
  | _, _, _, _, _ => false

def specEv (c : EvCase) (o : EvObs) : Bool :=
  o.hdr == expHdr c && specLive c o (stored0 c) [] c.kw c.ops o.steps

/-- the parser yields exactly the closed events, in closing order -/
def specPf (c : PfCase) (o : PfObs) : Bool := o.yielded == c.docs.map (·.1)

def wellformed : Case → Prop
  | .ev _ => True
  | .pf c => 1 ≤ c.n ∧ ∀ d ∈ c.docs, 1 ≤ d.2

end Log

/-- C17: log events are recorded completely; the log file parses back to the same events -/
def Spec.C17 : Log.Case → Log.Obs → Bool
  | .ev c, .ev o => Log.specEv c o
  | .pf c, .pf o => Log.specPf c o
  | _, _ => false
