import TbotVerif.Model.Tc
/-! # C16 as a decidable predicate over what a run shows

The observation is the log of the run (`Tc.Obs`): tbot's own events (`begin`, `end_`, `excev`,
`tbotEnd`) interleaved with the marks the *program under test* leaves (`enter`, `body`, `ret`),
the exit status (or what left the in-process driver), and `NESTING` afterwards.  The marks are
the ground truth about "what happened" (how each body ended, what each caller got); the Spec
says that tbot's events and the exit status tell the same story.

The log is read left to right by a small stack automaton (`step`): -/
namespace Tc

/-- A testcase that has begun and not ended yet. -/
structure Frame where
  n : Name
  /-- its body has started (mark `enter` seen) -/
  entered : Bool
  /-- `some h`: its body is over and ended like `h` (mark `body` seen) -/
  how : Option How
  deriving DecidableEq, Repr

/-- Reader state. -/
structure Ck where
  /-- open testcases, innermost first -/
  stack : List Frame
  /-- a testcase has just ended like this and its caller has not reported yet -/
  pending : Option (Name × How)
  /-- names of the top-level testcases begun so far, in order -/
  roots : List Name
  /-- CLI level: this exception escaped a top-level testcase -/
  failed : Option Exc
  deriving DecidableEq, Repr

def Ck.init : Ck := ⟨[], none, [], none⟩

/-- The verdict an end event gives.  `testcase_end` documents "if a testcase was skipped,
    `success` is ignored": the event *says* success when `success ∧ ¬skipped`.
    It must say success exactly when the body finished without an exception, and `skipped`
    exactly when the body raised the skip exception. -/
def flagsOk (h : How) (success skipped : Bool) : Bool :=
  (skipped == (h == some .skip)) && ((success && !skipped) == (h == none))

/-- What the caller must get, given how the body ended: the body's value (nothing for a `with`
    block) when it finished; `None` (nothing for a `with` block) instead of the skip exception;
    otherwise the very exception. -/
def retOk (n : Name) (h : How) (r : Ret) : Bool :=
  match h with
  | none => r == (if n.form == .ctx then .unit else .val n.id)
  | some .skip => r == (if n.form == .ctx then .unit else .none)
  | some e => r == .exc e

/-- What leaves a testcase whose body ended like `h`. -/
def escapes : How → Option Exc
  | some .skip => none
  | h => h

/-- `begin n`: only while the caller's body is running (or at top level before any failure);
    the caller of the previous testcase has reported. -/
def stepBegin (s : Ck) (n : Name) : Option Ck :=
  if s.pending.isSome then none else
  match s.stack with
  | [] => if s.failed.isSome then none
          else some { s with stack := [⟨n, false, none⟩], roots := s.roots ++ [n] }
  | f :: _ => if f.entered && f.how.isNone then some { s with stack := ⟨n, false, none⟩ :: s.stack }
              else none

/-- `enter n d`: the innermost open testcase is `n`, just begun; the nesting level it sees is the
    level of the run plus the number of open testcases. -/
def stepEnter (base : Int) (s : Ck) (n : Name) (d : Int) : Option Ck :=
  match s.stack with
  | [] => none
  | f :: rest =>
    if f.n == n && !f.entered && s.pending.isNone && d == base + (s.stack.length : Int)
    then some { s with stack := { f with entered := true } :: rest } else none

/-- `body n h`: the innermost open testcase is `n`, its body was running. -/
def stepBody (s : Ck) (n : Name) (h : How) : Option Ck :=
  match s.stack with
  | [] => none
  | f :: rest =>
    if f.n == n && f.entered && f.how.isNone && s.pending.isNone
    then some { s with stack := { f with how := some h } :: rest } else none

/-- `end_ n success skipped`: closes the innermost open testcase, which is `n` and whose body is
    over; the flags tell how the body ended.  Inside a body (and at top level of the in-process
    driver) the caller's report must follow; the CLIs do not report, there an escaping exception
    is remembered. -/
def stepEnd (cli : Bool) (s : Ck) (n : Name) (success skipped : Bool) : Option Ck :=
  match s.stack with
  | [] => none
  | f :: rest =>
    match f.how with
    | none => none
    | some h =>
      if f.n == n && flagsOk h success skipped then
        if rest.isEmpty && cli then some { s with stack := rest, failed := escapes h }
        else some { s with stack := rest, pending := some (n, h) }
      else none

/-- `ret n r`: the caller of the testcase that has just ended got what it should. -/
def stepRet (s : Ck) (n : Name) (r : Ret) : Option Ck :=
  match s.pending with
  | none => none
  | some (m, h) => if m == n && retOk n h r then some { s with pending := none } else none

def step (base : Int) (cli : Bool) (s : Ck) : Item → Option Ck
  | .begin n => stepBegin s n
  | .enter n d => stepEnter base s n d
  | .body n h => stepBody s n h
  | .end_ n a b => stepEnd cli s n a b
  | .ret n r => stepRet s n r
  | .excev _ => none
  | .tbotEnd _ => none

/-- Read a list of testcase-level items. -/
def feed (base : Int) (cli : Bool) : Ck → List Item → Option Ck
  | s, [] => some s
  | s, i :: is =>
    match step base cli s i with
    | some s' => feed base cli s' is
    | none => none

/-- Items of the testcase level (everything except the two process-level events). -/
def Item.isTc : Item → Bool
  | .excev _ => false
  | .tbotEnd _ => false
  | _ => true

def Case.rootNames (c : Case) : List Name := c.roots.map Node.name

end Tc

open Tc in
/-- **C16.**  The testcase-level part of the log is accepted by the reader (events properly
    nested with matching names, flags = how the body ended, callers get `None` for a skip and
    the exception otherwise, `NESTING` inside = level + depth) and ends with nothing open;
    `NESTING` is back at the level the run started with; the top-level testcases begun are a
    prefix of the ones asked for.  CLI level: after the testcases come exactly
    `tbotEnd true` with exit status 0 and all testcases run — if nothing escaped a top-level
    testcase — or the `exception` event naming what escaped, `tbotEnd false`, a non-zero exit
    status that is 130 exactly for KeyboardInterrupt, and no testcase begun after the failing one
    (the reader refuses a `begin` at top level once `failed` is set).
    In-process level: nothing but testcase items; a skip exception never leaves the driver; if
    the driver returned, every top-level testcase was run. -/
def Spec.C16 (c : Case) (o : Obs) : Bool :=
  let cli := c.mode != .ip
  let tcs := o.items.takeWhile Item.isTc
  let tail := o.items.dropWhile Item.isTc
  match feed c.base cli Ck.init tcs with
  | none => false
  | some s =>
    s.stack.isEmpty && s.pending.isNone && o.nest == c.base && s.roots.isPrefixOf c.rootNames &&
    match c.mode with
    | .ip =>
      tail == [] &&
      (match o.fin with
       | .escaped h => h != some .skip && (h != none || s.roots == c.rootNames)
       | .exit _ => false)
    | _ =>
      match s.failed with
      | none => tail == [.tbotEnd true] && o.fin == .exit 0 && s.roots == c.rootNames
      | some e =>
        tail == [.excev e, .tbotEnd false] &&
        (match o.fin with
         | .exit code => code != 0 && ((code == 130) == (e == .kbd))
         | .escaped _ => false)
