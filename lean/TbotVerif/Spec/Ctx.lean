import TbotVerif.Model.CtxRef
/-! Properties C14 and C15 as decidable predicates over the observable event log of a case.

    Every condition has the form "whenever event `ev` is logged, `cond ev (summary of the log so
    far)`"; the summaries (`ups`, `nSeen`, `opens`, …) are plain recursive functions of the log
    prefix (newest event first).  `Spec.C14`/`Spec.C15` take the log in chronological order. -/
namespace Ctx

/-- the objects that are up after the log `tr` (newest first): `(class, object)` -/
def ups : List Ev → List (Nat × Nat)
  | [] => []
  | .init c o :: t => (c, o) :: ups t
  | .down c o :: t => (ups t).filter (· != (c, o))
  | _ :: t => ups t

/-- number of initialisations so far = number of object identities seen -/
def nSeen : List Ev → Nat
  | [] => 0
  | .init _ _ :: t => nSeen t + 1
  | _ :: t => nSeen t

/-- number of requests on class `c` that have yielded and not been released yet -/
def opens (c : Nat) : List Ev → Nat
  | [] => 0
  | .yielded _ c' _ :: t => if c' = c then opens c t + 1 else opens c t
  | .released _ c' :: t => if c' = c then opens c t - 1 else opens c t
  | _ :: t => opens c t

/-- number of open *program* requests (all classes) -/
def opensP : List Ev → Nat
  | [] => 0
  | .yielded false _ _ :: t => opensP t + 1
  | .released false _ :: t => opensP t - 1
  | _ :: t => opensP t

/-- nesting depth of `with ctx` blocks -/
def depth : List Ev → Nat
  | [] => 0
  | .ctxEnter :: t => depth t + 1
  | .ctxLeave :: t => depth t - 1
  | _ :: t => depth t

/-- inside the `__exit__` of the outermost `with ctx`, and no teardown has failed in it so far -/
def inWindow : List Ev → Bool
  | [] => false
  | .ctxBody :: t => depth t == 1
  | .ctxLeave :: _ => false
  | .ctxEnter :: _ => false
  | .created _ :: _ => false
  | _ :: t => inWindow t

/-- a class that some `from_context` requests exclusively is requested by no other class
    (otherwise the end of the exclusive request tears it down under the feet of the others —
    documented behaviour of `exclusive=True`, not an ordering defect) -/
def Cfg.exclUnique (cfg : Cfg) : Bool :=
  (List.range cfg.n).all fun a => (cfg.depsOf a).all fun d =>
    !d.2 || (List.range cfg.n).all fun a' => a' == a || !((cfg.depsOf a').any (·.1 == d.1))

def classUp (tr : List Ev) (c : Nat) : Bool := (ups tr).any (·.1 == c)

/-- "whenever `ev` is logged after `older`, `cond older ev`" -/
def always (cond : List Ev → Ev → Bool) : List Ev → Bool
  | [] => true
  | ev :: older => cond older ev && always cond older

/-- I1: no object of the same class is up when a machine is initialised -/
def condInit (older : List Ev) : Ev → Bool
  | .init c _ => !classUp older c
  | _ => true

/-- I2 (exactly once): an initialisation creates a new identity — no object is initialised twice -/
def condFresh (older : List Ev) : Ev → Bool
  | .init _ o => o == nSeen older
  | _ => true

/-- I2 (alternation): only an object that is up goes down -/
def condDown (older : List Ev) : Ev → Bool
  | .down c o => (ups older).contains (c, o)
  | _ => true

/-- I3: a yielded object is up -/
def condYield (older : List Ev) : Ev → Bool
  | .yielded _ c o => (ups older).contains (c, o)
  | _ => true

/-- I4 (keep-alive off): when the last request on a class has been left, no object of it is up -/
def condRelease (older : List Ev) : Ev → Bool
  | .released _ c => !decide (opens c older ≤ 1) || !classUp older c
  | _ => true

/-- I5: after the outermost `with ctx` has been left with no program request open, nothing is up -/
def condLeave (older : List Ev) : Ev → Bool
  | .ctxLeave => !(depth older == 1 && opensP older == 0) || (ups older).isEmpty
  | _ => true

/-- I6: during the outermost `__exit__` (as long as no teardown has failed, and for dependency graphs
    with `exclUnique`), a machine goes down only when no machine that was built from its class is
    still up -/
def condOrder (cfg : Cfg) (older : List Ev) : Ev → Bool
  | .down c _ => !inWindow older || (ups older).all fun a => !((cfg.depsOf a.1).any (·.1 == c))
  | _ => true

mutual
/-- the program never switches keep-alive on -/
def Stmt.noKaOn : Stmt → Bool
  | .req _ _ _ _ body => body.noKaOn
  | .ctx body => body.noKaOn
  | .reconf ka _ body => ka != some true && body.noKaOn
  | .try_ body => body.noKaOn
  | .raise => true
  | .skip => true
  | .td _ => true
def Block.noKaOn : Block → Bool
  | .nil => true
  | .cons s rest => s.noKaOn && rest.noKaOn
end

/-- keep-alive is off throughout the case -/
def Case.kaOff (cs : Case) : Bool := !cs.ka && cs.prog.noKaOn

def specI1 (tr : List Ev) : Bool := always condInit tr
def specI2 (tr : List Ev) : Bool := always condFresh tr && always condDown tr && (ups tr).isEmpty
def specI3 (tr : List Ev) : Bool := always condYield tr
def specI4 (cs : Case) (tr : List Ev) : Bool := !cs.kaOff || always condRelease tr
def specI5 (tr : List Ev) : Bool := always condLeave tr
def specI6 (cs : Case) (tr : List Ev) : Bool := !cs.cfg.exclUnique || always (condOrder cs.cfg) tr

/-! canonical naming: object and exception identities are renamed by first appearance (the
    harness can only observe `id()`s) -/

/-- position of `i` in the list of identities seen so far (appending it if new) -/
def renameId (seen : List Nat) (i : Nat) : List Nat × Nat :=
  let k := seen.idxOf i
  if k < seen.length then (seen, k) else (seen ++ [i], seen.length)

def renameExc (seen : List Nat) (e : Exc) : List Nat × Exc :=
  let r := renameId seen e.id
  (r.1, { e with id := r.2 })

/-- rename one event; state = identities of objects and of exceptions seen so far -/
def canonEv (st : List Nat × List Nat) : Ev → (List Nat × List Nat) × Ev
  | .init c o => let r := renameId st.1 o; ((r.1, st.2), .init c r.2)
  | .down c o => let r := renameId st.1 o; ((r.1, st.2), .down c r.2)
  | .yielded d c o => let r := renameId st.1 o; ((r.1, st.2), .yielded d c r.2)
  | .created e => let r := renameExc st.2 e; ((st.1, r.1), .created r.2)
  | .leaves e => let r := renameExc st.2 e; ((st.1, r.1), .leaves r.2)
  | .caught e => let r := renameExc st.2 e; ((st.1, r.1), .caught r.2)
  | .fin (some e) => let r := renameExc st.2 e; ((st.1, r.1), .fin (some r.2))
  | ev => (st, ev)

def canonFrom (st : List Nat × List Nat) : List Ev → List Ev
  | [] => []
  | ev :: rest => let r := canonEv st ev; r.2 :: canonFrom r.1 rest

/-- chronological log with identities renamed by first appearance -/
def canon (obs : List Ev) : List Ev := canonFrom ([], []) obs

end Ctx

/-- C14 over the chronological event log `obs` of case `cs` -/
def Spec.C14 (cs : Ctx.Case) (obs : List Ctx.Ev) : Bool :=
  let tr := obs.reverse
  Ctx.specI1 tr && Ctx.specI2 tr && Ctx.specI3 tr && Ctx.specI4 cs tr && Ctx.specI5 tr && Ctx.specI6 cs tr

/-- C15: the log is the one the documentation-level reference model produces -/
def Spec.C15 (cs : Ctx.Case) (obs : List Ctx.Ev) : Bool :=
  Ctx.canon obs == Ctx.canon (Ctx.Ref.run cs)
