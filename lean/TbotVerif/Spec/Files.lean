import TbotVerif.Model.Files
import TbotVerif.Model.ChanRun
/-! C11 — cases, observations, the model run (replaying the fragmentation a real run produced) and
    the specification. -/

namespace Files
open Chan Shell

inductive Data where
  | text (t : List Char)     -- `write_text(t)` then `read_text()`
  | bytes (d : Bytes)        -- `write_bytes(d)` then `read_bytes()`
  deriving Repr, DecidableEq, Inhabited

structure Case where
  ash : Bool        -- false: Bash driver on bash; true: Ash driver on dash
  chunk : Nat
  data : Data
  path : Bytes      -- absolute path of the file (UTF-8)
  deriving Repr, Inhabited

/-- what a call returned -/
inductive Val where
  | n (k : Nat)              -- `write_*` returned `k`
  | text (t : List Char)     -- `read_text` returned `t`
  | bytes (d : Bytes)        -- `read_bytes` returned `d`
  | err (tag : String)       -- it raised
  | skip                     -- not called (the write raised)
  deriving Repr, DecidableEq, Inhabited

structure Obs where
  ret : Val                  -- the write
  file : Option Bytes        -- content of the file afterwards, read INDEPENDENTLY (`none`: no file / not looked at)
  back : Val                 -- the read
  txW : Bytes                -- what reached the transport during the write
  txR : Bytes                -- … during the read
  piecesW : List Nat         -- sizes of the transport deliveries during the write
  piecesR : List Nat         -- … during the read
  deriving Repr, DecidableEq, Inhabited

def prompt (c : Case) : Bytes := if c.ash then Params.ashPrompt else Params.bashPrompt
def blacklist (c : Case) : Bytes := if c.ash then Params.ashBlacklist else Params.bashBlacklist

def excTag : ShExc → String
  | .chan e => Wire.exc e
  | .invalidRetcode => "invalid-retcode"
  | .commandFailure _ => "command-failure"

/-- the piece sizes that belong to the first `n` bytes, and the rest (a piece that straddles the
    boundary — never produced by a real run — is split) -/
def splitSizes : List Nat → Nat → List Nat × List Nat
  | [], _ => ([], [])
  | ps, 0 => ([], ps)
  | p :: ps, n + 1 =>
    if p ≤ n + 1 then let (a, b) := splitSizes ps (n + 1 - p); (p :: a, b)
    else ([n + 1], (p - (n + 1)) :: ps)

def initSt (c : Case) : St :=
  { chunk := c.chunk, prompt := some (.lit (prompt c)), blacklist := blacklist c }

/-- the write line of a case -/
def writeLine (c : Case) : Bytes :=
  match c.data with
  | .text t => if fastPath (enc t) then printfLine c.path (enc t) else teeLine c.path
  | .bytes _ => b64TeeLine c.path

/-- what tbot is meant to type between the command line and `echo $?` -/
def writeBody (cd : Codec) (c : Case) : Bytes :=
  match c.data with
  | .text t => if fastPath (enc t) then [] else enc t ++ Remote.fin (enc t)
  | .bytes d => (chunksOf Params.b64LineLen (cd.enc d)).flatMap (· ++ [Tty.CR]) ++ [EOT]

/-- everything tbot is meant to type during the write -/
def writeTyped (cd : Codec) (c : Case) : Bytes :=
  writeLine c ++ [Tty.CR] ++ writeBody cd c ++ (echoStatusLine ++ [Tty.CR])

/-- the remote's answer to the command line and the body: their echo (the EOF character is not
    echoed), then the prompt (`tee`'s output goes to /dev/null, `printf`'s to the file) -/
def writeAns1 (cd : Codec) (c : Case) : Bytes :=
  Tty.echo false (writeLine c ++ [Tty.CR]) ++ Remote.echoTyped (writeBody cd c) ++ prompt c

def valOfRes {α} (f : α → Val) : Except ShExc α → Val
  | .ok a => f a
  | .error e => .err (excTag e)

def piecesOf (s : St) : List Nat := s.reads.filterMap fun r => r.data.map List.length

/-- the read half of a case, from the file `file` the remote holds -/
def runRead (cd : Codec) (c : Case) (file : Bytes) (pr : List Nat) : Val × St :=
  let ps1 := prompt c
  let b2 := respStatus false ps1 0
  match c.data with
  | .text _ =>
    let b1 := respCmd false ps1 (catLine c.path) file
    let (q1, q2) := splitSizes pr b1.length
    match readText c.path (cutBy q1 b1) (cutBy q2 b2) (initSt c) with
    | (r, s) => (valOfRes Val.text r, s)
  | .bytes _ =>
    let b1 := respCmd false ps1 (b64Line c.path) (Remote.b64Out cd file)
    let (q1, q2) := splitSizes pr b1.length
    match readBytes cd c.path (cutBy q1 b1) (cutBy q2 b2) (initSt c) with
    | (r, s) => (valOfRes Val.bytes r, s)

/-- the write half of a case -/
def runWrite (cd : Codec) (c : Case) (pw : List Nat) : Except ShExc Nat × St :=
  let ps1 := prompt c
  let a1 := writeAns1 cd c
  let a2 := respStatus false ps1 0
  let (p1, p2) := splitSizes pw a1.length
  match c.data with
  | .text t => writeText ps1 c.path t (cutBy p1 a1) (cutBy p2 a2) (initSt c)
  | .bytes d => writeBytes cd ps1 c.path d (cutBy p1 a1) (cutBy p2 a2) (initSt c)

/-- run a case on the model; the remote's answers are cut as the recorded piece sizes say.  The
    file is what the remote model (`Remote.session`) makes of the bytes the write really typed. -/
def run (cd : Codec) (c : Case) (pw pr : List Nat) : Obs :=
  let (rw, sw) := runWrite cd c pw
  let txW := written sw
  let ret := valOfRes Val.n rw
  match rw, Remote.session cd (prompt c) txW with
  | .ok _, some o =>
    let (rr, sr) := runRead cd c o.file pr
    { ret := ret, file := some o.file, back := rr, txW := txW, txR := written sr,
      piecesW := piecesOf sw, piecesR := piecesOf sr }
  | _, _ =>
    { ret := ret, file := none, back := .skip, txW := txW, txR := [], piecesW := piecesOf sw, piecesR := [] }

/-! ### the specification -/

/-- lines of a byte string (split at LF) -/
def maxLineLen : Bytes → Nat → Nat → Nat
  | [], cur, best => max cur best
  | c :: t, cur, best => if c == Tty.LF then maxLineLen t 0 (max cur best) else maxLineLen t (cur + 1) best

/-- longest line the tty accepts in canonical mode (N_TTY_BUF_SIZE - 1) -/
def ttyLineMax : Nat := 4095

/-- the command lines of a case are well-formed: no CR / LF / black-listed byte in the path, below
    the tty line limit -/
def Case.wf (c : Case) : Bool :=
  !c.path.contains Tty.CR && !c.path.contains Tty.LF && !Chan.forbidden (blacklist c) c.path
  && !c.path.isEmpty && 0 < c.chunk && (b64TeeLine c.path).length ≤ ttyLineMax

/-- the text domain of C11: no CR, no byte the shell forbids, every line (for single-line text:
    the `printf` command line) below the tty line limit, and the prompt string neither occurs in the
    echo of the text nor ends a proper prefix of `cat`'s answer (no prompt-delimited protocol can
    tell such text from the end of the command) -/
def textOk (c : Case) (t : List Char) : Bool :=
  let e := enc t
  !e.contains Tty.CR && !Chan.forbidden (blacklist c) e
  && maxLineLen e 0 0 ≤ ttyLineMax
  && (!fastPath e || (printfLine c.path e).length ≤ ttyLineMax)
  && !containsSub (prompt c) ((Tty.cook e ++ prompt c).dropLast)

/-- **C11**: in the domain, the write returns the length, the file holds exactly the data and the
    read returns it; a text with a forbidden byte is rejected with `IllegalDataException`. -/
def spec (c : Case) (o : Obs) : Bool :=
  match c.data with
  | .bytes d => o.ret == .n d.length && o.file == some d && o.back == .bytes d
  | .text t =>
    if Chan.forbidden (blacklist c) (enc t) then o.ret == .err "illegal"
    else if textOk c t then
      o.file == some (enc t) && o.back == .text t
      && (o.ret == .n (enc t).length || (fastPath (enc t) && o.ret == .n t.length))
    else true

end Files

def Spec.C11 (c : Files.Case) (o : Files.Obs) : Bool := !c.wf || Files.spec c o
