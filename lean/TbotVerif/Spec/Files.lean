import TbotVerif.Model.Files
import TbotVerif.Model.ChanRun
/-! C11 — cases, observations, the model run (replaying the fragmentation a real run produced) and
    the specification. -/

namespace Files
open Chan Shell

inductive Data where
  | text (t : List Char)     -- `write_text(t)` then `read_text()`
  | bytes (d : Bytes)        -- `write_bytes(d)` then `read_bytes()`
  deriving Repr, BEq, Inhabited

structure Case where
  ash : Bool        -- false: Bash driver on bash; true: Ash driver on dash
  chunk : Nat
  data : Data
  path : Bytes      -- absolute path of the file (UTF-8)
  deriving Repr, Inhabited

/-- what a call returned -/
inductive Val where
  | n (k : Nat)              -- `write_*` returned `k`
  | text (t : List Char)     -- `read_text` returned `t`
  | bytes (d : Bytes)        -- `read_bytes` returned `d`
  | err (tag : String)       -- it raised
  | skip                     -- not called (the write raised)
  deriving Repr, BEq, Inhabited

structure Obs where
  ret : Val                  -- the write
  file : Option Bytes        -- content of the file afterwards, read INDEPENDENTLY (`none`: no file / not looked at)
  back : Val                 -- the read
  txW : Bytes                -- what reached the transport during the write
  txR : Bytes                -- … during the read
  piecesW : List Nat         -- sizes of the transport deliveries during the write
  piecesR : List Nat         -- … during the read
  deriving Repr, BEq, Inhabited

def prompt (c : Case) : Bytes := if c.ash then Params.ashPrompt else Params.bashPrompt
def blacklist (c : Case) : Bytes := if c.ash then Params.ashBlacklist else Params.bashBlacklist

def excTag : ShExc → String
  | .chan e => Wire.exc e
  | .invalidRetcode => "invalid-retcode"
  | .commandFailure _ => "command-failure"

/-- the piece sizes that belong to the first `n` bytes, and the rest (a piece that straddles the
    boundary — never produced by a real run — is split) -/
def splitSizes : List Nat → Nat → List Nat × List Nat
  | [], _ => ([], [])
  | ps, 0 => ([], ps)
  | p :: ps, n + 1 =>
    if p ≤ n + 1 then let (a, b) := splitSizes ps (n + 1 - p); (p :: a, b)
    else ([n + 1], (p - (n + 1)) :: ps)

def initSt (c : Case) : St :=
  { chunk := c.chunk, prompt := some (.lit (prompt c)), blacklist := blacklist c }

/-- the write line of a case -/
def writeLine (c : Case) : Bytes :=
  match c.data with
  | .text t => if fastPath (enc t) then printfLine c.path (enc t) else teeLine c.path
  | .bytes _ => b64TeeLine c.path

/-- everything tbot is meant to type during the write (what the remote's answer is computed from) -/
def writeTyped (cd : Codec) (c : Case) : Bytes :=
  let status := echoStatusLine ++ [Tty.CR]
  match c.data with
  | .text t =>
    let e := enc t
    if fastPath e then printfLine c.path e ++ [Tty.CR] ++ status
    else teeLine c.path ++ [Tty.CR] ++ e ++ (if !(e.isEmpty || endsInNl e) then [EOT] else []) ++ [EOT] ++ status
  | .bytes d =>
    b64TeeLine c.path ++ [Tty.CR] ++ (chunksOf Params.b64LineLen (cd.enc d)).flatMap (· ++ [Tty.CR]) ++ [EOT] ++ status

def valOfRes {α} (f : α → Val) : Except ShExc α → Val
  | .ok a => f a
  | .error e => .err (excTag e)

/-- run a case on the model; the remote's answers are cut as the recorded piece sizes say -/
def run (cd : Codec) (c : Case) (pw pr : List Nat) : Obs :=
  let ps1 := prompt c
  -- the write
  let (a1, a2, okW) := match Remote.session cd ps1 (writeTyped cd c) with
    | some o => (o.ans1, o.ans2, true)
    | none => ([], [], false)
  let (p1, p2) := splitSizes pw a1.length
  let s0 := initSt c
  let (rw, sw) := match c.data with
    | .text t => writeText ps1 c.path t (cutBy p1 a1) (cutBy p2 a2) s0
    | .bytes d => writeBytes cd ps1 c.path d (cutBy p1 a1) (cutBy p2 a2) s0
  let txW := written sw
  let piecesOf (s : St) := s.reads.filterMap fun r => r.data.map List.length
  let ret := valOfRes Val.n rw
  match rw, okW, Remote.session cd ps1 txW with
  | .ok _, true, some o =>
    -- the read, from the file the remote model holds now
    let isText := match c.data with | .text _ => true | .bytes _ => false
    let line := if isText then catLine c.path else b64Line c.path
    let out := if isText then o.file else Remote.b64Out cd o.file
    let b1 := respCmd false ps1 line out
    let b2 := respStatus false ps1 0
    let (q1, q2) := splitSizes pr b1.length
    let (rr, sr) := if isText then
        (match readText c.path (cutBy q1 b1) (cutBy q2 b2) s0 with | (r, s) => (valOfRes Val.text r, s))
      else
        (match readBytes cd c.path (cutBy q1 b1) (cutBy q2 b2) s0 with | (r, s) => (valOfRes Val.bytes r, s))
    { ret := ret, file := some o.file, back := rr, txW := txW, txR := written sr,
      piecesW := piecesOf sw, piecesR := piecesOf sr }
  | _, _, _ =>
    { ret := ret, file := none, back := .skip, txW := txW, txR := [], piecesW := piecesOf sw, piecesR := [] }

/-! ### the specification -/

/-- lines of a byte string (split at LF) -/
def maxLineLen : Bytes → Nat → Nat → Nat
  | [], cur, best => max cur best
  | c :: t, cur, best => if c == Tty.LF then maxLineLen t 0 (max cur best) else maxLineLen t (cur + 1) best

/-- longest line the tty accepts in canonical mode (N_TTY_BUF_SIZE - 1) -/
def ttyLineMax : Nat := 4095

/-- the command lines of a case are well-formed: no CR / LF / black-listed byte in the path, below
    the tty line limit -/
def Case.wf (c : Case) : Bool :=
  !c.path.contains Tty.CR && !c.path.contains Tty.LF && !Chan.forbidden (blacklist c) c.path
  && !c.path.isEmpty && 0 < c.chunk && (b64TeeLine c.path).length ≤ ttyLineMax

/-- the text domain of C11: no CR, no byte the shell forbids, every line (for single-line text:
    the `printf` command line) below the tty line limit, and the prompt string neither occurs in the
    echo of the text nor ends a proper prefix of `cat`'s answer (no prompt-delimited protocol can
    tell such text from the end of the command) -/
def textOk (c : Case) (t : List Char) : Bool :=
  let e := enc t
  !e.contains Tty.CR && !Chan.forbidden (blacklist c) e
  && maxLineLen e 0 0 ≤ ttyLineMax
  && (!fastPath e || (printfLine c.path e).length ≤ ttyLineMax)
  && !containsSub (prompt c) ((Tty.cook e ++ prompt c).dropLast)

/-- **C11**: in the domain, the write returns the length, the file holds exactly the data and the
    read returns it; a text with a forbidden byte is rejected with `IllegalDataException`. -/
def spec (c : Case) (o : Obs) : Bool :=
  match c.data with
  | .bytes d => o.ret == .n d.length && o.file == some d && o.back == .bytes d
  | .text t =>
    if Chan.forbidden (blacklist c) (enc t) then o.ret == .err "illegal"
    else if textOk c t then
      o.file == some (enc t) && o.back == .text t
      && (o.ret == .n (enc t).length || (fastPath (enc t) && o.ret == .n t.length))
    else true

end Files

def Spec.C11 (c : Files.Case) (o : Files.Obs) : Bool := !c.wf || Files.spec c o
