import TbotVerif.Model.GuardPrompt
import TbotVerif.Spec.Chan
/-! Spec.C02G — C02 for prompts behind a look-behind assertion, judged on an observation
    (result, number of pieces consumed) of the implementation or of the model. -/

namespace Spec
open GuardPrompt

def C02G (c : GuardPrompt.Case) (o : GuardPrompt.Obs) : Bool :=
  let f : Bytes → Bool := fun b => (gPromptEnd c.g c.r b).isSome
  match o with
  | .text out k =>
    k ≤ c.pieces.length &&
    hitsOnlyAtEnd f [] (c.pieces.take k) &&
    (match gPromptEnd c.g c.r (c.pieces.take k).flatten with
     | some n => out == text ((c.pieces.take k).flatten.take n)
     | none => false)
  | .timeout k => k == c.pieces.length && neverHits f [] c.pieces

end Spec
