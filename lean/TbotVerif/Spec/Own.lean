import TbotVerif.Model.Own
/-! C07 as a reference automaton over handle *statuses* (not `_c` slots): a handle has access,
    is lent (until the matching end of borrow), or has been taken (for ever).  `Spec.C07`
    replays a history on this automaton and compares every observed result with what the
    property demands. -/

namespace Spec.C07
open Own

inductive Status where
  | access
  | lent
  | taken
  deriving Repr, BEq, DecidableEq, Inhabited

structure Ref where
  status : List Status := [.access]
  cfgs : List HCfg := [{}]
  frames : List (Nat × Status) := []  -- open borrows, innermost first: lender and the status it returns to
  closed : Bool := false
  closeCalls : Nat := 0
  deriving Repr, Inhabited

def setAt {α} (l : List α) (i : Nat) (x : α) : List α := l.set i x

/-- expected result and next reference state; `none`: the call is outside the domain
    (unknown handle, end of borrow without open borrow) -/
def expect (r : Ref) (op : Op) : Option (Res × Ref) :=
  let st (h : Nat) := r.status[h]?
  match op with
  | .io h => (st h).map fun s => (match s with | .access => .ok | .lent => .errBorrowed | .taken => .errTaken, r)
  | .closed h => (st h).map fun s =>
      (match s with | .access => .bool r.closed | .lent => .errBorrowed | .taken => .bool true, r)
  | .close h => (st h).map fun s =>
      match s with
      | .access => (.ok, { r with closed := true, closeCalls := r.closeCalls + 1 })
      | .lent => (.errBorrowed, r)
      | .taken => (.ok, r)                       -- closing a taken handle does not touch the transport
  | .exit h => (st h).map fun s =>
      match s with
      | .access => if r.closed then (.ok, r) else (.ok, { r with closed := true, closeCalls := r.closeCalls + 1 })
      | .lent => (.errBorrowed, r)
      | .taken => (.ok, r)
  | .borrowEnter h =>
    match st h, r.cfgs[h]? with
    | some .access, some c =>
      some (.new r.status.length,
        { r with status := setAt r.status h .lent ++ [.access], cfgs := r.cfgs ++ [c], frames := (h, .access) :: r.frames })
    | some .lent, _ => some (.errBorrowed, r)
    | some .taken, _ => some (.errTaken, r)
    | _, _ => none
  | .borrowExit =>
    match r.frames with
    | [] => none
    | (h, back) :: fs => some (.ok, { r with status := setAt r.status h back, frames := fs })
  | .take h =>
    match st h, r.cfgs[h]? with
    | some .access, some c =>
      some (.new r.status.length, { r with status := setAt r.status h .taken ++ [.access], cfgs := r.cfgs ++ [c] })
    | some .lent, _ => some (.errBorrowed, r)
    | some .taken, _ => some (.errTaken, r)
    | _, _ => none
  | .setPrompt h p => (r.cfgs[h]?).map fun c => (.ok, { r with cfgs := setAt r.cfgs h { c with prompt := p } })
  | .setBlacklist h b => (r.cfgs[h]?).map fun c => (.ok, { r with cfgs := setAt r.cfgs h { c with blacklist := b } })
  | .addDeath h d e => (r.cfgs[h]?).map fun c => (.ok, { r with cfgs := setAt r.cfgs h { c with deaths := (d, e) :: c.deaths } })
  | .setSlow h d k => (r.cfgs[h]?).map fun c => (.ok, { r with cfgs := setAt r.cfgs h { c with slowDelay := d, slowChunk := k } })
  | .getCfg h => (r.cfgs[h]?).map fun c => (.cfg c, r)

/-- The property says nothing about `borrow()`/`take()` on a handle that has been *taken*
    (they are not I/O): besides refusing with ChannelTakenError, handing out a new handle that
    is itself dead (taken) is acceptable. -/
def lenient (r : Ref) (op : Op) (o : Obs) : Option Ref :=
  match op, o.res with
  | .borrowEnter h, .new n =>
    match r.status[h]?, r.cfgs[h]? with
    | some .taken, some c =>
      if n = r.status.length then
        some { r with status := r.status ++ [.taken], cfgs := r.cfgs ++ [c], frames := (h, .taken) :: r.frames }
      else none
    | _, _ => none
  | .take h, .new n =>
    match r.status[h]?, r.cfgs[h]? with
    | some .taken, some c =>
      if n = r.status.length then some { r with status := r.status ++ [.taken], cfgs := r.cfgs ++ [c] }
      else none
    | _, _ => none
  | _, _ => none

/-- the history is in the domain and every observation is what the property demands -/
def check : Ref → List Op → List Obs → Bool
  | _, [], [] => true
  | r, op :: ops, o :: os =>
    match lenient r op o with
    | some r' => o.ioClosed == r'.closed && o.closeCalls == r'.closeCalls && check r' ops os
    | none =>
    match expect r op with
    | none => o.res == .badop && check r ops os
    | some (res, r') => o.res == res && o.ioClosed == r'.closed && o.closeCalls == r'.closeCalls && check r' ops os
  | _, _, _ => false

end Spec.C07

def Spec.C07 (ops : List Own.Op) (obs : List Own.Obs) : Bool := Spec.C07.check {} ops obs
