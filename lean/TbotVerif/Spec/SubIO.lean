import TbotVerif.Model.SubIO
/-! `Spec.C06S`: the contract of `ChannelIO.read(n, timeout)` (and of the write guard) that the
    channel-level timeout proofs (C06) assume of a transport, as a decidable predicate over what
    can be observed of `SubprocessChannelIO` from outside: per call the outcome, the virtual time
    of return and the timeouts handed to `select`.

    For a read called at `t0` with timeout `T` (deadline `D = t0 + T`), `a` = arrival time of the
    next unread byte, `g` = the instant the subprocess is gone:

    * data ⇒ returned at exactly `max t0 a` (as soon as available), `a ≤ D` (never late),
      between 1 and `n` bytes, a prefix of what has arrived and is unread at that moment;
    * `TimeoutError` ⇒ `T` is not `None`, raised at exactly `D` (never early, never late), and
      nothing was readable up to and including `D` (closed on the right: a piece arriving exactly
      at the deadline is still delivered).  In particular `T = 0` is a non-blocking read: data
      that is already waiting is returned, `TimeoutError` only if there is none;
    * `ChannelClosedError` ⇒ the subprocess is gone by then (`g ≤ t1`), nothing is readable at
      that moment (pending data is delivered first), less than one slice after it went
      (`t1 < g + minReadWait`; at once if it was gone on entry) and not after `D`;
    * never returning ⇒ no timeout, nothing scripted, subprocess never gone;
    * every `select` timeout is `≤ minReadWait`, `≤` the time remaining to `D`, and `> 0` except
      for one last poll made exactly at `D`; the call returns within its last `select`.

    State is threaded through the observation only: the next call starts `gap` ticks after the
    previous one returned, and the unread stream is the script minus the bytes handed out. -/

namespace SubIO

/-- drop the first `k` bytes of the stream -/
def dropBytes : Nat → List Piece → List Piece
  | _, [] => []
  | k, p :: ps =>
    if k < p.data.length then (if k = 0 then p :: ps else { p with data := p.data.drop k } :: ps)
    else dropBytes (k - p.data.length) ps

/-- the bytes that have arrived by `t` and are unread (FIFO: up to the first piece still to come) -/
def avail (pend : List Piece) (t : Nat) : Bytes :=
  ((pend.takeWhile (fun p => decide (p.tick ≤ t))).map (·.data)).flatten

/-- the `select` timeouts of one read: `start` is the time of the first of them -/
def selOk (mrw : Nat) (dl : Option Nat) : Nat → List Nat → Bool
  | _, [] => true
  | start, x :: xs =>
    decide (x ≤ mrw)
    && (match dl with
        | none => decide (0 < x)
        | some d => decide (start + x ≤ d) && (decide (0 < x) || (decide (start = d) && xs.isEmpty)))
    && selOk mrw dl (start + x) xs

/-- the call returns within its last `select` -/
def spanOk (t0 t1 : Nat) (sel : List Nat) : Bool :=
  decide (t0 + sel.dropLast.sum ≤ t1) && decide (t1 ≤ t0 + sel.sum)

def dataOk (d : Bytes) (pend : List Piece) (t1 n : Nat) : Bool :=
  decide (d.length ≤ n) && (decide (n = 0) || !d.isEmpty) && d.isPrefixOf (avail pend t1)

def headTick (pend : List Piece) : Option Nat := pend.head?.map (·.tick)

/-- one `read(n, T)` called at `t0` with `pend` unread -/
def readOk (c : Case) (t0 : Nat) (pend : List Piece) (n : Nat) (T : Option Nat) (o : OpObs) : Bool :=
  let dl := T.map (t0 + ·)
  if closedAt c.gone t0 then
    o.sel.isEmpty && decide (o.t1 = t0)
    && (match o.out with
        | .data d => ready pend t0 && dataOk d pend t0 n
        | .closed => !ready pend t0
        | _ => false)
  else
    selOk c.mrw dl t0 o.sel && spanOk t0 o.t1 o.sel
    && (match o.out with
        | .data d =>
          ready pend o.t1 && decide (some o.t1 = (headTick pend).map (max t0)) && dataOk d pend o.t1 n
          && (match dl with | none => true | some dd => decide (o.t1 ≤ dd))
        | .timeout =>
          (match dl with | none => false | some dd => decide (o.t1 = dd) && !ready pend dd)
        | .closed =>
          closedAt c.gone o.t1 && !ready pend o.t1
          && (match c.gone with | none => false | some g => decide (o.t1 < g + c.mrw))
          && (match dl with | none => true | some dd => decide (o.t1 ≤ dd))
        | .hang => T.isNone && pend.isEmpty && c.gone.isNone && decide (o.t1 = t0)
        | _ => false)

/-- one `write(buf)` called at `t0` -/
def writeOk (c : Case) (t0 : Nat) (accept : List Nat) (buf : Bytes) (o : OpObs) : Bool :=
  if closedAt c.gone t0 then
    o.sel.isEmpty && decide (o.t1 = t0) && decide (o.out = .closed)
  else
    decide (o.sel = [c.wguard])
    && (match o.out with
        | .wtimeout =>
          decide (o.t1 = t0 + c.wguard)
          && (match c.wready with | none => true | some w => decide (t0 + c.wguard < w))
        | .wrote k =>
          (match c.wready with
           | none => false
           | some w => decide (w ≤ t0 + c.wguard) && decide (o.t1 = max t0 w))
          && decide (0 < k) && decide (k = accepted accept buf.length)
        | .closed =>
          (match c.wready with
           | none => false
           | some w => decide (w ≤ t0 + c.wguard) && decide (o.t1 = max t0 w))
          && decide (accepted accept buf.length = 0)
        | _ => false)

/-- state carried from one call to the next, reconstructed from the observation -/
def nextPend (pend : List Piece) (o : OpObs) : List Piece :=
  match o.out with
  | .data d => dropBytes d.length pend
  | _ => pend

def nextAccept (accept : List Nat) (o : OpObs) : List Nat :=
  match o.out with
  | .wrote _ => accept.drop 1
  | .closed => if o.sel.isEmpty then accept else accept.drop 1
  | _ => accept

def seqOk (c : Case) : List Op → List OpObs → Nat → List Piece → List Nat → Bool
  | [], [], _, _, _ => true
  | op :: ops, o :: os, t, pend, accept =>
    (match op with
     | .read n T gap => readOk c (t + gap) pend n T o
     | .write b gap => writeOk c (t + gap) accept b o)
    && (if o.out = .hang then os.isEmpty
        else match op with
          | .read _ _ _ => seqOk c ops os o.t1 (nextPend pend o) accept
          | .write _ _ => seqOk c ops os o.t1 pend (nextAccept accept o))
  | _, _, _, _, _ => false

end SubIO

namespace Spec

/-- C06 for the subprocess transport: every call of the sequence honours the `ChannelIO`
    contract (see the file header) -/
def C06S (c : SubIO.Case) (obs : List SubIO.OpObs) : Bool :=
  SubIO.seqOk c c.ops obs 0 c.script c.accept

end Spec
