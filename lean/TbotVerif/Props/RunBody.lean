import TbotVerif.Props.RunAll
/-! C10 — the whole body of the `with` block, entering `run()`, and the command that follows. -/

namespace Run
open Chan Spec

theorem body_cons (op : TOp) (hne : op ≠ .raise) (ops : List TOp) (pcs : List (List Nat)) (p : PSt) :
    body (op :: ops) pcs p =
      ((step op (pcs.headD []) p).1 :: (body ops (pcs.drop 1) (step op (pcs.headD []) p).2).1,
       (body ops (pcs.drop 1) (step op (pcs.headD []) p).2).2.1,
       (body ops (pcs.drop 1) (step op (pcs.headD []) p).2).2.2.1,
       (body ops (pcs.drop 1) (step op (pcs.headD []) p).2).2.2.2) := by
  cases op <;> first | rfl | exact absurd rfl hne

theorem walk_cons (ps1 bl : Bytes) (op : TOp) (hne : op ≠ .raise) (ops : List TOp) (o : OpObs) (os : List OpObs) (r : Ref) :
    Ref.walk ps1 bl (op :: ops) (o :: os) r =
      (match Ref.step ps1 bl op o r with
       | .ok r => Ref.walk ps1 bl ops os r
       | .bad => .bad
       | .outside => .outside
       | .split => .split) := by
  cases op <;> first | rfl | exact absurd rfl hne

/-- **the body**: the reference accepts what the model does, and both end in step -/
theorem body_sim (c : Case) : ∀ (ops : List TOp) (pcs : List (List Nat)) (p : PSt) (r : Ref), Sim c p r →
    match Ref.walk (prompt c) (blacklist c) ops (body ops pcs p).1 r with
    | .ok (r', raised) => Sim c (body ops pcs p).2.2.2 r' ∧ raised = (body ops pcs p).2.1
    | .bad => False
    | _ => True := by
  intro ops
  induction ops with
  | nil =>
    intro pcs p r h
    simp only [body, Ref.walk]
    exact ⟨h, trivial⟩
  | cons op ops ih =>
    intro pcs p r h
    by_cases hr : op = .raise
    · subst hr
      simp only [body, Ref.walk, Ref.step, beq_unit, List.isEmpty_nil, Bool.and_self, if_true]
      exact ⟨h, trivial⟩
    · rw [body_cons op hr, walk_cons _ _ op hr]
      simp only
      have hs := step_sim c op (pcs.headD []) p r h
      cases hst : Ref.step (prompt c) (blacklist c) op (step op (pcs.headD []) p).1 r with
      | ok r' =>
        rw [hst] at hs
        simp only at hs ⊢
        exact ih (pcs.drop 1) _ r' hs
      | bad => rw [hst] at hs; exact hs
      | outside => trivial
      | split => trivial

/-! ### the machine's own channel -/

/-- the machine's channel with a given transport state -/
def mach (c : Case) (script : List Piece) (now : Nat) : RunSt := { st := { machineSt c with script := script, now := now } }

theorem mach_rel0 (c : Case) (script : List Piece) (now : Nat) : Rel0 (mach c script now) :=
  ⟨{}, ⟨rfl, rfl, rfl, by intro reg h; simp at h⟩, rfl, rfl⟩

theorem mach_load_good (c : Case) (hc : 0 < c.chunk) (sizes : List Nat) (extra : Bytes) (script : List Piece) (now : Nat) :
    C03.Good (load sizes extra (mach c script now)).st :=
  ⟨load_wf _ _ _, hc, by show 0 < Params.sendSliceSize; decide, by intro h; simp [load, mach, machineSt] at h⟩

/-- the two `with` blocks opened by `run()` after the command line was read back -/
theorem enter_blocks (c : Case) (r : RunSt) (hg : C03.Good r.st) (h0 : Rel0 r) :
    C03.Good (obsOp (.deathEnter (.lit (prompt c)) 0) (obsOp (.streamEnter 0 false) r).2).2.st
    ∧ pending (obsOp (.deathEnter (.lit (prompt c)) 0) (obsOp (.streamEnter 0 false) r).2).2.st = pending r.st
    ∧ (obsOp (.deathEnter (.lit (prompt c)) 0) (obsOp (.streamEnter 0 false) r).2).2.st.prompt = r.st.prompt
    ∧ (obsOp (.deathEnter (.lit (prompt c)) 0) (obsOp (.streamEnter 0 false) r).2).2.st.blacklist = r.st.blacklist
    ∧ Mon1 (prompt c) [] (obsOp (.deathEnter (.lit (prompt c)) 0) (obsOp (.streamEnter 0 false) r).2).2 := by
  obtain ⟨hg1, hp1, hpr1, hbl1⟩ := struct_keep r (.streamEnter 0 false) rfl hg
  have h01 := (rel0_step r (.streamEnter 0 false) h0 rfl).1
  generalize (obsOp (.streamEnter 0 false) r).2 = r1 at hg1 hp1 hpr1 hbl1 h01
  obtain ⟨hg2, hp2, hpr2, hbl2⟩ := struct_keep r1 (.deathEnter (.lit (prompt c)) 0) rfl hg1
  obtain ⟨m, hrel, hregs, hfr⟩ := h01
  obtain ⟨_, h2⟩ := C05.c05_step m r1 (.deathEnter (.lit (prompt c)) 0) hrel (patOk_prompt c)
  refine ⟨hg2, by rw [hp2, hp1], by rw [hpr2, hpr1], by rw [hbl2, hbl1], ?_⟩
  refine ⟨_, m.next, h2, ?_, ?_⟩
  · simp [c05, hregs]
  · simp [c05, hfr]

/-- entering `run()` with an acceptable command line -/
theorem enter_sim (c : Case) (hc : 0 < c.chunk) (sizes : List Nat)
    (hnf : forbidden (blacklist c) (lineOf c ++ [Tty.CR]) = false) :
    ∃ o p, enter c sizes = (o, some p) ∧ o.res = .unit
      ∧ o.pieces.sum = (Tty.echo false (lineOf c ++ [Tty.CR])).length
      ∧ (promptOk (prompt c) (start (prompt c) c.steps).1 (start (prompt c) c.steps).2.status = true →
          Sim c p { rem := (start (prompt c) c.steps).2, pend := (start (prompt c) c.steps).1 }) := by
  unfold enter
  simp only [hnf, Bool.false_eq_true, if_false]
  generalize hout : (start (prompt c) c.steps).1 = out0
  generalize hrem : (start (prompt c) c.steps).2 = rem
  have hecho : (Tty.echo false (lineOf c ++ [Tty.CR])).length = Tty.readBackLen (lineOf c ++ [13]) :=
    Tty.echo_length_noctl _
  generalize hr1 : load sizes (Tty.echo false (lineOf c ++ [Tty.CR]) ++ out0) ({ st := machineSt c } : RunSt) = r1
  have hmach : ({ st := machineSt c } : RunSt) = mach c [] 0 := rfl
  have hg1 : C03.Good r1.st := by rw [← hr1, hmach]; exact mach_load_good c hc _ _ _ _
  have hz1 : Z r1.st := by rw [← hr1]; exact load_z _ _ _
  have h01 : Rel0 r1 := by rw [← hr1, hmach]; exact rel0_load _ _ (mach_rel0 c [] 0)
  have hp1 : pending r1.st = Tty.echo false (lineOf c ++ [Tty.CR]) ++ out0 := by
    rw [← hr1, load_pending]; rfl
  have hprm1 : r1.st.prompt = some (.lit (prompt c)) := by rw [← hr1]; rfl
  have hbl1 : r1.st.blacklist = blacklist c := by rw [← hr1]; rfl
  have hstep := rel0_step r1 (.send (lineOf c ++ [13]) true none false) h01 rfl
  have hsend := send_rb_op r1 (lineOf c ++ [13]) hg1 hz1 (by rw [hbl1]; exact hnf)
    (by rw [hp1, List.length_append, hecho]; omega) hstep.2
  have hk := ChanCase.keeps r1 (.send (lineOf c ++ [13]) true none false) hg1 rfl
  have hcons := consumed r1 (.send (lineOf c ++ [13]) true none false) hg1 rfl
  obtain ⟨hprm2, hbl2⟩ := keeps_cfg hk rfl
  rw [sendline_eq_send]
  generalize obsOp (.send (lineOf c ++ [13]) true none false) r1 = o2 at hstep hsend hk hcons hprm2 hbl2
  obtain ⟨o, r2⟩ := o2
  simp only at hstep hsend hk hcons hprm2 hbl2 ⊢
  rw [hsend.1]
  simp only
  have hp2 : pending r2.st = out0 := by
    rw [hcons.2.2, hsend.2.1, hp1, ← hecho, List.drop_left']
    rfl
  obtain ⟨hg3, hp3, hprm3, hbl3, hmon⟩ := enter_blocks c r2 hk.good hstep.1
  refine ⟨_, _, rfl, rfl, by rw [hsend.2.1, hecho], ?_⟩
  intro hpok
  refine ⟨rfl, rfl, hg3, by rw [hp3, hp2], by rw [hbl3, hbl2, hbl1], by rw [hprm3, hprm2, hprm1],
    rfl, ?_, ?_, ?_⟩
  · intro _
    refine ⟨rfl, rfl, rfl, rfl, hmon, by simpa using hpok, ?_⟩
    intro hs
    show (prompt c).length ≤ out0.length
    rw [← hout, ← hrem] at *
    unfold start at hs ⊢
    simp only at hs ⊢
    simp only [List.length_append, promptIf, hs, if_true]
    omega
  · intro hc'; simp at hc'
  · intro hc'; simp at hc'

end Run
