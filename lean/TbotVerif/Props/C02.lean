import TbotVerif.Spec.Chan
namespace C02
theorem placeholder : True := trivial
end C02
