import TbotVerif.Props.ChanLemmas
/-! C02 — prompt-delimited reads. -/

namespace Spec

@[simp] theorem hitsOnlyAtEnd_nil (f : Bytes → Bool) (acc : Bytes) : hitsOnlyAtEnd f acc [] = false := rfl

theorem hitsOnlyAtEnd_cons (f : Bytes → Bool) (acc d : Bytes) (ds : List Bytes) :
    hitsOnlyAtEnd f acc (d :: ds) =
      if ds = [] then f (acc ++ d) else (!f (acc ++ d) && hitsOnlyAtEnd f (acc ++ d) ds) := by
  cases ds with
  | nil => simp [hitsOnlyAtEnd]
  | cons e es => simp [hitsOnlyAtEnd]

@[simp] theorem neverHits_nil (f : Bytes → Bool) (acc : Bytes) : neverHits f acc [] = true := rfl

@[simp] theorem neverHits_cons (f : Bytes → Bool) (acc d : Bytes) (ds : List Bytes) :
    neverHits f acc (d :: ds) = (!f (acc ++ d) && neverHits f (acc ++ d) ds) := rfl

end Spec

namespace Chan

theorem bytesLeft_eq (s : St) : bytesLeft s = (flat s.script).length := by
  unfold bytesLeft flat
  induction s.script with
  | nil => rfl
  | cons p ps ih => simp [List.sum_cons, ih]

theorem ReadFrame.bytes {s s' : St} {recs : List ReadRec} (h : ReadFrame s s' recs) :
    (dataOf recs).flatten.length + bytesLeft s' = bytesLeft s := by
  rw [bytesLeft_eq, bytesLeft_eq, ← h.flat, List.length_append]

@[simp] theorem dataOf_cons_some (r : ReadRec) (rs : List ReadRec) (d : Bytes) (h : r.data = some d) :
    dataOf (r :: rs) = d :: dataOf rs := by
  simp [dataOf, List.filterMap_cons, h]

@[simp] theorem dataOf_cons_none (r : ReadRec) (rs : List ReadRec) (h : r.data = none) :
    dataOf (r :: rs) = dataOf rs := by
  simp [dataOf, List.filterMap_cons, h]

@[simp] theorem dataOf_nil : dataOf [] = [] := rfl

theorem maxRead_le (ri : RI) (c : Nat) : ri.maxRead c ≤ c := by
  unfold RI.maxRead; split
  · exact Nat.le_refl _
  · exact Nat.min_le_left _ _

theorem maxRead_none (ri : RI) (c : Nat) (h : ri.max = none) : ri.maxRead c = c := by
  unfold RI.maxRead; rw [h]

end Chan

namespace C02
open Chan Spec

abbrev atPrompt (P : Pat) : Bytes → Bool := fun b => (promptEnd P b).isSome

/-- The loop of `read_until_prompt`, for every state, buffer and fuel that covers the script. -/
theorem rupLoop_spec : ∀ (f : Nat) (buf : Bytes) (ri : RI) (s : St),
    ri.max = none → bytesLeft s < f → WF s → 0 < s.chunk →
    ∃ recs, ReadFrame s (rupLoop f buf ri s).2 recs ∧ (∀ r ∈ recs, r.n ≤ s.chunk) ∧
      (∀ b full, (rupLoop f buf ri s).1 = .ok (b, full) →
        ∃ P n, s.prompt = some P ∧ full = buf ++ (dataOf recs).flatten ∧ promptEnd P full = some n
          ∧ b = full.take n ∧ hitsOnlyAtEnd (atPrompt P) buf (dataOf recs) = true) ∧
      (∀ e, (rupLoop f buf ri s).1 = .error e →
        (e = .timeout ∨ e = .hang ∨ ∃ x m, e = .death x m) ∧
        ((e = .timeout ∨ e = .hang) → ∀ P, s.prompt = some P → neverHits (atPrompt P) buf (dataOf recs) = true)) := by
  intro f
  induction f with
  | zero => intro buf ri s _ hf; omega
  | succ f ih =>
    intro buf ri s hmax hf hwf hc
    unfold rupLoop
    have hout := riNext_out ri s
    generalize riNext ri s = out at hout
    obtain ⟨st, ri', s'⟩ := out
    simp only at hout
    cases hout with
    | done h1 h2 => rw [hmax] at h1; simp at h1
    | expired hnd hrem =>
      refine ⟨[], ReadFrame.refl s, by simp, by simp, ?_⟩
      intro e he
      simp only [Except.error.injEq] at he
      subst he
      exact ⟨Or.inl rfl, fun _ P _ => rfl⟩
    | ioErr rem rec s' e hnd hrem hio =>
      refine ⟨[rec], hio.frame, ?_, by simp, ?_⟩
      · intro r hr
        simp only [List.mem_singleton] at hr
        subst hr; rw [hio.hn]; exact maxRead_le _ _
      · intro e' he
        simp only [Except.error.injEq] at he
        subst he
        have herr := hio.err e rfl
        refine ⟨?_, fun _ P _ => ?_⟩
        · rcases herr.2.1 with h | h
          · exact Or.inl h
          · exact Or.inr (Or.inl h)
        · rw [dataOf_cons_none _ _ herr.1]; rfl
    | death rem rec s1 b x m hnd hrem hio hchk =>
      refine ⟨[rec], chunk_frame hio, ?_, by simp, ?_⟩
      · intro r hr
        simp only [List.mem_singleton] at hr
        subst hr; rw [hio.hn]; exact maxRead_le _ _
      · intro e' he
        simp only [Except.error.injEq] at he
        subst he
        exact ⟨Or.inr (Or.inr ⟨x, m, rfl⟩), fun h => by rcases h with h | h <;> simp at h⟩
    | chunk rem rec s1 b hnd hrem hio hchk =>
      have hfr := chunk_frame hio
      have hdata := (hio.ok b rfl).1
      have hbne : b ≠ [] := (hio.ok b rfl).2.2 hwf (by rw [maxRead_none _ _ hmax]; exact hc)
      have hrn : ∀ r ∈ [rec], r.n ≤ s.chunk := by
        intro r hr
        simp only [List.mem_singleton] at hr
        subst hr; rw [hio.hn]; exact maxRead_le _ _
      generalize hs2 : (check b (writeStream b s1)).2 = s2 at hfr
      simp only
      have hp2 : s2.prompt = s.prompt := hfr.prompt
      have hbytes := hfr.bytes
      rw [dataOf_cons_some _ _ _ hdata] at hbytes
      simp only [dataOf_nil, List.flatten_cons, List.flatten_nil, List.append_nil] at hbytes
      have hblen : 0 < b.length := List.length_pos_iff.mpr hbne
      -- recursive call facts
      have hrec := ih (buf ++ b) { ri with got := ri.got + b.length, started := true } s2 hmax (by omega) (hfr.wf hwf)
        (by rw [hfr.chunk]; exact hc)
      cases hpr : s2.prompt with
      | none =>
        simp only
        obtain ⟨recs, hf2, hn2, hok2, herr2⟩ := hrec
        refine ⟨rec :: recs, hfr.trans hf2, ?_, ?_, ?_⟩
        · intro r hr
          rcases List.mem_cons.mp hr with rfl | hr
          · exact hrn _ (by simp)
          · have := hn2 r hr; rw [hfr.chunk] at this; exact this
        · intro b' full hres
          obtain ⟨P, n, hP, _⟩ := hok2 b' full hres
          rw [hpr] at hP; simp at hP
        · intro e he
          refine ⟨(herr2 e he).1, fun hto P hP => ?_⟩
          rw [← hp2, hpr] at hP; simp at hP
      | some P =>
        simp only
        cases hpe : promptEnd P (buf ++ b) with
        | some n =>
          simp only
          refine ⟨[rec], hfr, hrn, ?_, by simp⟩
          intro b' full hres
          simp only [Except.ok.injEq, Prod.mk.injEq] at hres
          obtain ⟨rfl, rfl⟩ := hres
          refine ⟨P, n, by rw [← hp2, hpr], ?_, hpe, rfl, ?_⟩
          · rw [dataOf_cons_some _ _ _ hdata]; simp
          · rw [dataOf_cons_some _ _ _ hdata, dataOf_nil, hitsOnlyAtEnd_cons]
            simp [atPrompt, hpe]
        | none =>
          simp only
          obtain ⟨recs, hf2, hn2, hok2, herr2⟩ := hrec
          refine ⟨rec :: recs, hfr.trans hf2, ?_, ?_, ?_⟩
          · intro r hr
            rcases List.mem_cons.mp hr with rfl | hr
            · exact hrn _ (by simp)
            · have := hn2 r hr; rw [hfr.chunk] at this; exact this
          · intro b' full hres
            obtain ⟨P', n, hP, hfull, hpe', hb, hhit⟩ := hok2 b' full hres
            rw [hpr] at hP
            simp only [Option.some.injEq] at hP
            subst hP
            refine ⟨P, n, by rw [← hp2, hpr], ?_, hpe', hb, ?_⟩
            · rw [hfull, dataOf_cons_some _ _ _ hdata]; simp
            · rw [dataOf_cons_some _ _ _ hdata, hitsOnlyAtEnd_cons]
              have hne : dataOf recs ≠ [] := by
                intro hc'; rw [hc'] at hhit; simp at hhit
              simp [hne, atPrompt, hpe, hhit]
          · intro e he
            refine ⟨(herr2 e he).1, fun hto P' hP => ?_⟩
            have hP' : s2.prompt = some P' := by rw [hp2]; exact hP
            rw [hpr] at hP'
            simp only [Option.some.injEq] at hP'
            subst hP'
            rw [dataOf_cons_some _ _ _ hdata, neverHits_cons]
            have := (herr2 e he).2 hto P hpr
            simp [atPrompt, hpe, this]

/-- `read_until_prompt` on any state: frame, and the C02 laws in terms of the transport log. -/
theorem readUntilPrompt_spec (p : Option Pat) (t : Option Nat) (s : St) (hwf : WF s) (hc : 0 < s.chunk) :
    let P := effPrompt p s.prompt
    ∃ recs, ReadFrame s (readUntilPrompt p t s).2 recs ∧ (∀ r ∈ recs, r.n ≤ s.chunk) ∧
      (∀ b full, (readUntilPrompt p t s).1 = .ok (b, full) →
        ∃ P' n, P = some P' ∧ full = (dataOf recs).flatten ∧ promptEnd P' full = some n
          ∧ b = full.take n ∧ hitsOnlyAtEnd (atPrompt P') [] (dataOf recs) = true) ∧
      (∀ e, (readUntilPrompt p t s).1 = .error e →
        (e = .timeout ∨ e = .hang ∨ ∃ x m, e = .death x m) ∧
        ((e = .timeout ∨ e = .hang) → ∀ P', P = some P' → neverHits (atPrompt P') [] (dataOf recs) = true)) := by
  intro P
  unfold readUntilPrompt
  simp only
  cases p with
  | none =>
    simp only
    obtain ⟨recs, hf, hn, hok, herr⟩ := rupLoop_spec (fuelFor s) [] (riStart none t s) s rfl
      (by unfold fuelFor; omega) hwf hc
    refine ⟨recs, hf, hn, ?_, herr⟩
    intro b full h
    obtain ⟨P', n, h1, h2, h3, h4, h5⟩ := hok b full h
    exact ⟨P', n, h1, by simpa using h2, h3, h4, h5⟩
  | some p =>
    have hPdef : P = some (anchor p) := rfl
    simp only
    generalize hs1 : ({ s with prompt := some (anchor p) } : St) = s1
    have hwf1 : WF s1 := by subst hs1; exact hwf
    have hc1 : 0 < s1.chunk := by subst hs1; exact hc
    obtain ⟨recs, hf, hn, hok, herr⟩ := rupLoop_spec (fuelFor s1) [] (riStart none t s1) s1 rfl
      (by unfold fuelFor; omega) hwf1 hc1
    have hp1 : s1.prompt = some (anchor p) := by subst hs1; rfl
    refine ⟨recs, ?_, ?_, ?_, ?_⟩
    · subst hs1
      exact {
        reads := hf.reads, chunk := hf.chunk, slice := hf.slice, prompt := rfl, blacklist := hf.blacklist,
        accept := hf.accept, writes := hf.writes, slowDelay := hf.slowDelay, slowChunk := hf.slowChunk,
        streams := hf.streams, logPrompt := hf.logPrompt, flat := hf.flat, now := hf.now,
        wf := fun h => hf.wf h }
    · intro r hr; have := hn r hr; subst hs1; exact this
    · intro b full h
      obtain ⟨P', n, h1, h2, h3, h4, h5⟩ := hok b full h
      rw [hp1] at h1
      exact ⟨P', n, by rw [hPdef]; exact h1, by simpa using h2, h3, h4, h5⟩
    · intro e he
      refine ⟨(herr e he).1, fun hto P' hP => (herr e he).2 hto P' ?_⟩
      rw [hp1, ← hPdef]; exact hP

/-- **C02 (per call).**  For every reachable-or-not channel state, prompt, timeout and script:
    the observation of a `read_until_prompt` call satisfies the specification. -/
theorem rup_spec (r : RunSt) (p : Option Pat) (t : Option Nat) (hwf : WF r.st) (hc : 0 < r.st.chunk) :
    Spec.c02 (Cfg.ofRun r) (.rup p t) (obsOp (.rup p t) r).1 = true := by
  generalize hs0 : ({ r.st with reads := [], writes := [], fwd := [] } : St) = s0
  have hwf0 : WF s0 := by subst hs0; exact hwf
  have hc0 : 0 < s0.chunk := by subst hs0; exact hc
  have hpr0 : s0.prompt = r.st.prompt := by subst hs0; rfl
  have hch0 : s0.chunk = r.st.chunk := by subst hs0; rfl
  have hrd0 : s0.reads = [] := by subst hs0; rfl
  obtain ⟨recs, hf, hn, hok, herr⟩ := readUntilPrompt_spec p t s0 hwf0 hc0
  unfold obsOp runOp
  simp only [hs0]
  have hreads : (readUntilPrompt p t s0).2.reads = recs := by rw [hf.reads, hrd0]; rfl
  unfold Spec.c02 Spec.c02Op Spec.delivered
  cases hres : readUntilPrompt p t s0 with
  | mk res s1 =>
    rw [hres] at hreads hok herr
    simp only at hreads hok herr
    cases res with
    | ok v =>
      obtain ⟨b, full⟩ := v
      obtain ⟨P', n, hP, hfull, hpe, hb, hhit⟩ := hok b full rfl
      simp only [hreads, Cfg.ofRun, ← hpr0]
      have hd : List.filterMap (fun x => x.data) recs = dataOf recs := rfl
      rw [hP, hd, ← hfull]
      simp only [hpe]
      simp only [Bool.and_eq_true, List.all_eq_true, decide_eq_true_eq, beq_iff_eq]
      refine ⟨⟨by rw [hb], hhit⟩, fun x hx => ?_⟩
      rw [← hch0]; exact hn x hx
    | error e =>
      obtain ⟨hkind, hnever⟩ := herr e rfl
      simp only [hreads, Cfg.ofRun, ← hpr0]
      have hd : List.filterMap (fun x => x.data) recs = dataOf recs := rfl
      have hall : (recs.all fun r' => decide (r'.n ≤ r.st.chunk)) = true := by
        simp only [List.all_eq_true, decide_eq_true_eq]
        intro x hx; rw [← hch0]; exact hn x hx
      rcases hkind with rfl | rfl | ⟨x, m, rfl⟩
      · simp only [hd, hall, Bool.and_true]
        split
        · rfl
        · rename_i P' hP; exact hnever (Or.inl rfl) P' hP
      · simp only [hd, hall, Bool.and_true]
        split
        · rfl
        · rename_i P' hP; exact hnever (Or.inr rfl) P' hP
      · simp only [hall, Bool.and_true]

end C02
