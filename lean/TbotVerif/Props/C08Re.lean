import TbotVerif.Props.PatLemmas
/-! Width bound of the backtracking matcher and the "held-back tail" search lemma (C08). -/

namespace Re

/-- inner induction of `M_width` for bounded repetition -/
theorem mrep_width {β} (r : Re) (k : Bytes → Option β)
    (ih : ∀ (s : Bytes) (k : Bytes → Option β) (x : β), M r s k = some x →
      ∃ u t, s = u ++ t ∧ u.length ≤ r.maxWidth ∧ k t = some x) :
    ∀ (hi lo : Nat) (s : Bytes) (x : β), mrep (M r) lo hi s k = some x →
      ∃ u t, s = u ++ t ∧ u.length ≤ r.maxWidth * hi ∧ k t = some x := by
  intro hi
  induction hi with
  | zero =>
    intro lo s x hx
    unfold mrep at hx
    split at hx
    · exact ⟨[], s, rfl, Nat.zero_le _, hx⟩
    · simp at hx
  | succ hi ihh =>
    intro lo s x hx
    unfold mrep at hx
    split at hx
    · rename_i y hy
      simp only [Option.some.injEq] at hx; subst hx
      obtain ⟨u1, t1, hs, hl1, hk1⟩ := ih s _ _ hy
      obtain ⟨u2, t2, hs2, hl2, hk2⟩ := ihh _ t1 _ hk1
      refine ⟨u1 ++ u2, t2, ?_, ?_, hk2⟩
      · rw [hs, hs2, List.append_assoc]
      · rw [List.length_append, Nat.mul_succ]; omega
    · split at hx
      · exact ⟨[], s, rfl, Nat.zero_le _, hx⟩
      · simp at hx

/-- whatever the continuation, a successful match consumed a prefix no longer than `maxWidth` -/
theorem M_width {β} (r : Re) : ∀ (s : Bytes) (k : Bytes → Option β) (x : β), M r s k = some x →
    ∃ u t, s = u ++ t ∧ u.length ≤ r.maxWidth ∧ k t = some x := by
  induction r with
  | eps =>
    intro s k x hx
    unfold M at hx
    exact ⟨[], s, rfl, Nat.zero_le _, hx⟩
  | cls neg rs =>
    intro s k x hx
    unfold M at hx
    split at hx
    · rename_i c t
      split at hx
      · exact ⟨[c], t, rfl, Nat.le_refl _, hx⟩
      · simp at hx
    · simp at hx
  | seq a b iha ihb =>
    intro s k x hx
    unfold M at hx
    obtain ⟨u1, t1, hs, hl1, hk1⟩ := iha s _ x hx
    obtain ⟨u2, t2, hs2, hl2, hk2⟩ := ihb t1 k x hk1
    refine ⟨u1 ++ u2, t2, ?_, ?_, hk2⟩
    · rw [hs, hs2, List.append_assoc]
    · have hw : (Re.seq a b).maxWidth = a.maxWidth + b.maxWidth := rfl
      rw [List.length_append, hw]; omega
  | alt a b iha ihb =>
    intro s k x hx
    have hw : (Re.alt a b).maxWidth = max a.maxWidth b.maxWidth := rfl
    unfold M at hx
    split at hx
    · rename_i y hy
      simp only [Option.some.injEq] at hx; subst hx
      obtain ⟨u, t, hs, hl, hk⟩ := iha s k _ hy
      exact ⟨u, t, hs, by rw [hw]; omega, hk⟩
    · obtain ⟨u, t, hs, hl, hk⟩ := ihb s k x hx
      exact ⟨u, t, hs, by rw [hw]; omega, hk⟩
  | rep r lo hi ih =>
    intro s k x hx
    unfold M at hx
    exact mrep_width r k ih hi lo s x hx
  | eos =>
    intro s k x hx
    unfold M at hx
    split at hx
    · exact ⟨[], s, rfl, Nat.zero_le _, hx⟩
    · simp at hx
  | la r _ =>
    intro s k x hx
    unfold M at hx
    split at hx
    · exact ⟨[], s, rfl, Nat.zero_le _, hx⟩
    · simp at hx

theorem matchAt_width (r : Re) (s : Bytes) (n : Nat) (h : matchAt r s = some n) : n ≤ r.maxWidth := by
  unfold matchAt at h
  obtain ⟨u, t, hs, hl, hk⟩ := M_width r s _ n h
  simp only [Option.some.injEq] at hk
  subst hs
  rw [List.length_append] at hk
  omega

/-- an end-anchored expression only matches up to the end of the input -/
theorem matchAt_anchored_len (r : Re) (s : Bytes) (n : Nat) (h : matchAt (.seq r .eos) s = some n) : n = s.length := by
  unfold matchAt at h
  unfold M at h
  obtain ⟨u, t, hs, hl, hk⟩ := M_width r s _ n h
  unfold M at hk
  split at hk
  · rename_i he
    have ht : t = [] := List.isEmpty_iff.mp he
    subst ht
    simp only [Option.some.injEq, List.length_nil, Nat.sub_zero] at hk
    exact hk.symm
  · simp at hk

theorem searchFrom_shift (r : Re) : ∀ (s : Bytes) (i : Nat),
    searchFrom r i s = (searchFrom r 0 s).map fun p => (p.1 + i, p.2 + i) := by
  intro s
  induction s with
  | nil =>
    intro i
    unfold searchFrom
    cases matchAt r [] with
    | none => rfl
    | some n =>
      simp only [Option.map_some, Option.some.injEq, Prod.mk.injEq]
      omega
  | cons c t ih =>
    intro i
    unfold searchFrom
    cases matchAt r (c :: t) with
    | some n =>
      simp only [Option.map_some, Option.some.injEq, Prod.mk.injEq]
      omega
    | none =>
      simp only []
      rw [ih (i + 1), ih (0 + 1)]
      cases searchFrom r 0 t with
      | none => rfl
      | some p =>
        simp only [Option.map_some, Option.some.injEq, Prod.mk.injEq]
        omega

theorem searchFrom_cons_none (r : Re) (i : Nat) (c : Byte) (t : Bytes)
    (h : matchAt r (c :: t) = none) : searchFrom r i (c :: t) = searchFrom r (i + 1) t := by
  rw [searchFrom, h]

/-- positions at which nothing matches are skipped -/
theorem searchFrom_skip (r : Re) : ∀ (u v : Bytes) (i : Nat),
    (∀ j, j < u.length → matchAt r ((u ++ v).drop j) = none) →
    searchFrom r i (u ++ v) = searchFrom r (i + u.length) v := by
  intro u
  induction u with
  | nil =>
    intro v i _
    simp only [List.nil_append, List.length_nil, Nat.add_zero]
  | cons c u ih =>
    intro v i h
    have h0 : matchAt r (c :: (u ++ v)) = none := by
      have := h 0 (by simp only [List.length_cons]; omega)
      simpa only [List.cons_append, List.drop_zero] using this
    have hrest : ∀ j, j < u.length → matchAt r ((u ++ v).drop j) = none := by
      intro j hj
      have := h (j + 1) (by simp only [List.length_cons]; omega)
      simpa only [List.cons_append, List.drop_succ_cons] using this
    rw [List.cons_append, searchFrom_cons_none r i c (u ++ v) h0, ih v (i + 1) hrest]
    have hidx : i + 1 + u.length = i + (c :: u).length := by
      rw [List.length_cons]; omega
    rw [hidx]

/-- the use case: `R = fw ++ sb` where the hold-back part `sb` is at least `maxWidth` long
    (or nothing was forwarded): searching the anchored prompt in `R` is searching it in `sb` -/
theorem search_heldback (r : Re) (fw sb : Bytes)
    (h : fw = [] ∨ (Re.seq r .eos).maxWidth ≤ sb.length) :
    search (.seq r .eos) (fw ++ sb) =
      (search (.seq r .eos) sb).map fun p => (p.1 + fw.length, p.2 + fw.length) := by
  cases h with
  | inl h =>
    subst h
    simp only [List.nil_append, List.length_nil, Nat.add_zero]
    cases search (.seq r .eos) sb with
    | none => rfl
    | some p => rfl
  | inr h =>
    have hnone : ∀ j, j < fw.length → matchAt (.seq r .eos) ((fw ++ sb).drop j) = none := by
      intro j hj
      cases hm : matchAt (.seq r .eos) ((fw ++ sb).drop j) with
      | none => rfl
      | some n =>
        have h1 := matchAt_anchored_len r _ n hm
        have h2 := matchAt_width _ _ n hm
        rw [List.length_drop, List.length_append] at h1
        omega
    unfold search
    rw [searchFrom_skip _ fw sb 0 hnone, searchFrom_shift]
    simp only [Nat.zero_add]

end Re
