import TbotVerif.Props.C08Mon
/-! C08 — OVERLAPPING attachments that all show the prompt (`show_prompt=True`), ended in ANY order
    (`streamExit` = the most recent one, `streamExitAt k` = the attachment of stream `k`): the Spec's
    monitor accepts the model's run (`case_spec_overlapping`), and what the monitor accepts means, in plain words,
    that every stream holds exactly what was delivered between its attach and its detach
    (`window_of_spec`, `stream_gets_exactly_its_window`).

    (The characterisation of the function `Chan.overlap` is in `C08Overlap.lean`; this file is about
    attachments that overlap in time.) -/

namespace C08
open Chan Spec C03 ChanCase

/-! ### hypotheses on the operation sequence -/

def showsPrompt : Op → Bool
  | .streamEnter _ sp => sp
  | _ => true

/-- **every attachment of the case shows the prompt** -/
def allVisible (ops : List Op) : Bool := ops.all showsPrompt

/-- the streams attached after `op` (most recent first), given those attached before it -/
def openNext (o : List Nat) : Op → List Nat
  | .streamEnter id _ => id :: o
  | .streamExit => o.tail
  | .streamExitAt k => o.erase k
  | _ => o

def freshOk (o : List Nat) : Op → Bool
  | .streamEnter id _ => !o.contains id
  | _ => true

def freshFrom : List Nat → List Op → Bool
  | _, [] => true
  | o, op :: ops => freshOk o op && freshFrom (openNext o op) ops

/-- **no stream is attached again while it is still attached** (`o`: the streams attached now) -/
def freshIds (ops : List Op) : Bool := freshFrom [] ops

/-! ### the monitor step, taken apart -/

/-- the records of the open attachments after an operation -/
def updAll (m : StreamMon) (cfg : Cfg) (op : Op) (o : OpObs) : List Att :=
  m.atts.map fun a =>
    { a with r := a.r ++ (delivered o).flatten, fw := a.fw ++ (fwdFor a.id o.fwd).flatten,
             steady := a.steady && ((delivered o).flatten.isEmpty ||
               (a.showPrompt == (match m.atts with | [] => true | a :: _ => a.showPrompt) &&
                 a.prompt == (match op with | .rup (some p) _ => some (Chan.anchor p) | _ => cfg.prompt))) }

/-- the laws every operation is checked against -/
def okAll (m : StreamMon) (cfg : Cfg) (op : Op) (o : OpObs) : Bool :=
  (o.fwd.all fun f => m.atts.any (·.id == f.1))
  && (match m.atts with
      | [] => true
      | a :: rest => rest.all fun b => fwdFor b.id o.fwd == fwdFor a.id o.fwd)
  && (updAll m cfg op o).all attOk && visOk m.vis (updAll m cfg op o) o

theorem c08_enter (m : StreamMon) (cfg : Cfg) (id : Nat) (sp : Bool) (o : OpObs) :
    c08 m cfg (.streamEnter id sp) o
      = (okAll m cfg (.streamEnter id sp) o,
         { atts := { id := id, showPrompt := sp, prompt := cfg.prompt } :: updAll m cfg (.streamEnter id sp) o,
           vis := m.vis && sp }) := rfl

theorem c08_exit (m : StreamMon) (cfg : Cfg) (o : OpObs) :
    c08 m cfg .streamExit o
      = match updAll m cfg .streamExit o with
        | [] => (okAll m cfg .streamExit o, { m with atts := [] })
        | a :: rest => (okAll m cfg .streamExit o && (a.prompt != cfg.prompt || detachOk a), { m with atts := rest }) := rfl

theorem c08_exitAt (m : StreamMon) (cfg : Cfg) (k : Nat) (o : OpObs) :
    c08 m cfg (.streamExitAt k) o
      = (okAll m cfg (.streamExitAt k) o
          && (match (updAll m cfg (.streamExitAt k) o).find? (·.id == k) with
              | none => true
              | some a => a.prompt != cfg.prompt || detachOk a),
         { m with atts := (updAll m cfg (.streamExitAt k) o).eraseP (·.id == k) }) := rfl

theorem c08_other (m : StreamMon) (cfg : Cfg) (op : Op) (o : OpObs) (h : isStreamOp op = false) :
    c08 m cfg op o = (okAll m cfg op o, { m with atts := updAll m cfg op o }) := by
  cases op <;> first | (simp [isStreamOp] at h; done) | rfl

theorem updAll_ids (m : StreamMon) (cfg : Cfg) (op : Op) (o : OpObs) :
    (updAll m cfg op o).map (·.id) = m.atts.map (·.id) := by
  simp [updAll, List.map_map, Function.comp_def]

/-! ### list facts -/

theorem map_eraseP_eq {α} (f : α → Nat) (k : Nat) (l : List α) :
    (l.eraseP fun x => f x == k).map f = (l.map f).erase k := by
  induction l with
  | nil => rfl
  | cons x l ih =>
    by_cases h : f x = k
    · simp [h]
    · have h' : (f x == k) = false := by simpa using h
      simp [h', ih]

theorem find?_none_iff {α} (f : α → Nat) (k : Nat) (l : List α) :
    (l.find? fun x => f x == k) = none ↔ k ∉ l.map f := by
  rw [List.find?_eq_none]
  simp only [List.mem_map, not_exists, not_and, beq_iff_eq]

theorem find?_some_id {α} (f : α → Nat) (k : Nat) (l : List α) (a : α)
    (h : (l.find? fun x => f x == k) = some a) : a ∈ l ∧ f a = k := by
  refine ⟨List.mem_of_find?_eq_some h, ?_⟩
  have := List.find?_some h
  simpa using this

/-- the streams the monitor regards as attached move as `openNext` says — whatever the verdict -/
theorem c08_ids (m : StreamMon) (cfg : Cfg) (op : Op) (o : OpObs) :
    (c08 m cfg op o).2.atts.map (·.id) = openNext (m.atts.map (·.id)) op := by
  cases hso : isStreamOp op with
  | false =>
    rw [c08_other m cfg op o hso]
    have : openNext (m.atts.map (·.id)) op = m.atts.map (·.id) := by
      cases op <;> first | rfl | (simp [isStreamOp] at hso; done)
    rw [this]
    exact updAll_ids m cfg op o
  | true =>
    cases op with
    | streamEnter id sp =>
      rw [c08_enter]
      show id :: (updAll m cfg _ o).map (·.id) = _
      rw [updAll_ids]; rfl
    | streamExit =>
      rw [c08_exit]
      have hid := updAll_ids m cfg .streamExit o
      cases hu : updAll m cfg .streamExit o with
      | nil =>
        rw [hu] at hid
        simp only [openNext, ← hid]
        rfl
      | cons a rest =>
        rw [hu] at hid
        simp only [openNext, ← hid]
        rfl
    | streamExitAt k =>
      rw [c08_exitAt]
      show ((updAll m cfg _ o).eraseP fun x => x.id == k).map (·.id) = _
      rw [map_eraseP_eq (fun x : Att => x.id) k, updAll_ids]; rfl
    | _ => simp [isStreamOp] at hso

theorem c08_vis (m : StreamMon) (cfg : Cfg) (op : Op) (o : OpObs) (h : showsPrompt op = true) :
    (c08 m cfg op o).2.vis = m.vis := by
  cases hso : isStreamOp op with
  | false => rw [c08_other m cfg op o hso]
  | true =>
    cases op with
    | streamEnter id sp =>
      rw [c08_enter]
      have : sp = true := h
      subst this
      exact Bool.and_true _
    | streamExit =>
      rw [c08_exit]
      cases updAll m cfg .streamExit o <;> rfl
    | streamExitAt k => rw [c08_exitAt]
    | _ => simp [isStreamOp] at hso

/-! ### what the monitor's laws say when nothing is suppressed -/

theorem visText_append (a b : List Bytes) : visText (a ++ b) = visText a ++ visText b := by
  simp [visText]

/-- dropping the empty texts does not change the text -/
theorem visText_flatten (ds : List Bytes) : (visText ds).flatten = (ds.map decodeReplace).flatten := by
  unfold visText
  induction ds.map decodeReplace with
  | nil => rfl
  | cons t ts ih =>
    rw [List.filter_cons]
    cases ht : t.isEmpty with
    | true =>
      have : t = [] := by simpa using ht
      simp [this, ih]
    | false => simp [ih]

/-- text level: the ASCII projection of the fragments is the ASCII projection of the data — for every
    way the data was cut into deliveries -/
theorem asciiT_visText (ds : List Bytes) : asciiT (visText ds).flatten = asciiB ds.flatten := by
  rw [visText_flatten, asciiT_fragments]

theorem mem_fwdFor (f : Nat × List Char) (fwd : List (Nat × List Char)) (h : f ∈ fwd) : f.2 ∈ fwdFor f.1 fwd :=
  List.mem_map.mpr ⟨f, List.mem_filter.mpr ⟨h, beq_self_eq_true _⟩, rfl⟩

/-- **the monitor's per-operation laws hold** when every stream in `S` (the streams the monitor regards as
    attached) observed one fragment per delivery and no other stream observed anything -/
theorem okAll_vis (m : StreamMon) (cfg : Cfg) (op : Op) (o : OpObs) (S : List Nat)
    (hatts : ∀ a ∈ m.atts, a.showPrompt = true ∧ asciiT a.fw = asciiB a.r)
    (hmem : ∀ i, i ∈ S ↔ i ∈ m.atts.map (·.id))
    (hF : ∀ id, fwdFor id o.fwd = if id ∈ S then visText (delivered o) else []) :
    okAll m cfg op o = true ∧ ∀ a ∈ updAll m cfg op o, a.showPrompt = true ∧ asciiT a.fw = asciiB a.r := by
  have hattF : ∀ a ∈ m.atts, fwdFor a.id o.fwd = visText (delivered o) := by
    intro a ha
    rw [hF, if_pos ((hmem _).mpr (List.mem_map_of_mem ha))]
  have hupd : ∀ a ∈ updAll m cfg op o, a.showPrompt = true ∧ asciiT a.fw = asciiB a.r := by
    intro a' ha'
    obtain ⟨a, ha, rfl⟩ := List.mem_map.mp ha'
    refine ⟨(hatts a ha).1, ?_⟩
    show asciiT (a.fw ++ (fwdFor a.id o.fwd).flatten) = asciiB (a.r ++ (delivered o).flatten)
    rw [asciiT_append, asciiB_append, (hatts a ha).2, hattF a ha, asciiT_visText]
  refine ⟨?_, hupd⟩
  have h1 : (o.fwd.all fun f => m.atts.any (·.id == f.1)) = true := by
    rw [List.all_eq_true]
    intro f hf
    by_cases hS : f.1 ∈ S
    · obtain ⟨a, ha, hid⟩ := List.mem_map.mp ((hmem _).mp hS)
      rw [List.any_eq_true]
      exact ⟨a, ha, by simpa using hid⟩
    · have := mem_fwdFor f o.fwd hf
      rw [hF, if_neg hS] at this
      cases this
  have h2 : (match m.atts with
      | [] => true
      | a :: rest => rest.all fun b => fwdFor b.id o.fwd == fwdFor a.id o.fwd) = true := by
    cases hm : m.atts with
    | nil => rfl
    | cons a rest =>
      simp only [List.all_eq_true]
      intro b hb
      rw [hattF b (by rw [hm]; exact List.mem_cons_of_mem _ hb), hattF a (by rw [hm]; exact List.mem_cons_self)]
      exact beq_self_eq_true _
  have h3 : (updAll m cfg op o).all attOk = true := by
    rw [List.all_eq_true]
    intro a' ha'
    have h := hupd a' ha'
    exact attOk_of a' a'.r h.2 (List.prefix_refl _) (fun _ => rfl)
      (fun hf => by rw [h.1] at hf; cases hf) (fun p hf => by rw [h.1] at hf; cases hf)
  have h4 : visOk m.vis (updAll m cfg op o) o = true := by
    unfold visOk
    rw [Bool.or_eq_true]
    right
    rw [List.all_eq_true]
    intro a' ha'
    obtain ⟨a, ha, rfl⟩ := List.mem_map.mp ha'
    show (fwdFor a.id o.fwd == visText (delivered o)) = true
    rw [hattF a ha]
    exact beq_self_eq_true _
  unfold okAll
  rw [h1, h2, h3, h4]
  rfl

theorem c08_ok_imp (m : StreamMon) (cfg : Cfg) (op : Op) (o : OpObs) (h : (c08 m cfg op o).1 = true) :
    okAll m cfg op o = true := by
  cases hso : isStreamOp op with
  | false => rw [c08_other m cfg op o hso] at h; exact h
  | true =>
    cases op with
    | streamEnter id sp => rw [c08_enter] at h; exact h
    | streamExit =>
      rw [c08_exit] at h
      cases hu : updAll m cfg .streamExit o with
      | nil => rw [hu] at h; exact h
      | cons a rest =>
        rw [hu] at h
        exact (Bool.and_eq_true_iff.mp h).1
    | streamExitAt k =>
      rw [c08_exitAt] at h
      exact (Bool.and_eq_true_iff.mp h).1
    | _ => simp [isStreamOp] at hso

/-! ### the plain-words reading of the monitor: every stream holds exactly its window -/

/-- all text fragments stream `k` received in the course of a run, in order -/
def streamFrags (k : Nat) (os : List OpObs) : List (List Char) := (os.map fun o => fwdFor k o.fwd).flatten

/-- the text stream `k` holds at the end of a run -/
def streamText (k : Nat) (os : List OpObs) : List Char := (streamFrags k os).flatten

/-- **the window of stream `k`**: the deliveries (transport reads that returned data), in order, of the
    operations during which `k` was attached — from its `streamEnter` to the detach that ends it, be it a
    last-in-first-out `streamExit` while `k` is the most recent attachment or a `streamExitAt k`
    (`o`: the streams attached before the first operation, most recent first) -/
def windowOf (k : Nat) : List Nat → List Op → List OpObs → List Bytes
  | _, [], _ => []
  | _, _ :: _, [] => []
  | o, op :: ops, ob :: obs => (if k ∈ o then delivered ob else []) ++ windowOf k (openNext o op) ops obs

theorem windowOf_cons (k : Nat) (o : List Nat) (op : Op) (ops : List Op) (ob : OpObs) (obs : List OpObs) :
    windowOf k o (op :: ops) (ob :: obs)
      = (if k ∈ o then delivered ob else []) ++ windowOf k (openNext o op) ops obs := rfl

/-- one operation the monitor accepts (nothing ever suppressed): an attached stream received exactly one
    fragment per delivery, a stream that is not attached received nothing -/
theorem c08_window_step (m : StreamMon) (cfg : Cfg) (op : Op) (o : OpObs) (k : Nat) (hv : m.vis = true)
    (hok : (c08 m cfg op o).1 = true) :
    fwdFor k o.fwd = if k ∈ m.atts.map (·.id) then visText (delivered o) else [] := by
  have h := c08_ok_imp m cfg op o hok
  unfold okAll at h
  simp only [Bool.and_eq_true] at h
  obtain ⟨⟨⟨hatt, _⟩, _⟩, hvis⟩ := h
  split
  · rename_i hk
    rw [← updAll_ids m cfg op o] at hk
    obtain ⟨a', ha', hid⟩ := List.mem_map.mp hk
    unfold visOk at hvis
    rw [hv] at hvis
    simp only [Bool.not_true, Bool.false_or, List.all_eq_true] at hvis
    have := hvis a' ha'
    rw [hid] at this
    exact beq_iff_eq.mp this
  · rename_i hk
    unfold fwdFor
    have : o.fwd.filter (fun x => x.1 == k) = [] := by
      rw [List.filter_eq_nil_iff]
      intro f hf hfk
      rw [List.all_eq_true] at hatt
      have hany := hatt f hf
      rw [List.any_eq_true] at hany
      obtain ⟨a, ha, hid⟩ := hany
      apply hk
      have h1 : a.id = f.1 := by simpa using hid
      have h2 : f.1 = k := by simpa using hfk
      rw [← h2, ← h1]
      exact List.mem_map_of_mem ha
    rw [this]; rfl

theorem streamFrags_cons (k : Nat) (o : OpObs) (os : List OpObs) :
    streamFrags k (o :: os) = fwdFor k o.fwd ++ streamFrags k os := by
  simp [streamFrags]

/-- **what the monitor accepts, in plain words** (any run, any observation): as long as every attachment
    shows the prompt, the fragments stream `k` received are, one for one and in order, the decoded
    deliveries of its window -/
theorem window_of_monitor (k : Nat) : ∀ (ops : List Op) (os : List OpObs) (m : StreamMon) (cfg : Cfg),
    m.vis = true → allVisible ops = true → foldOpsCM c08 m cfg ops os = true →
    streamFrags k os = visText (windowOf k (m.atts.map (·.id)) ops os) := by
  intro ops
  induction ops with
  | nil =>
    intro os m cfg _ _ h
    cases os with
    | nil => rfl
    | cons o os => simp [foldOpsCM] at h
  | cons op ops ih =>
    intro os m cfg hv hall h
    cases os with
    | nil => simp [foldOpsCM] at h
    | cons o os =>
      simp only [allVisible, List.all_cons, Bool.and_eq_true] at hall
      unfold foldOpsCM at h
      have hstep := c08_window_step m cfg op o k hv
      have hvis := c08_vis m cfg op o hall.1
      have hids := c08_ids m cfg op o
      generalize c08 m cfg op o = res at h hstep hvis hids
      obtain ⟨ok, m'⟩ := res
      simp only [Bool.and_eq_true] at h hstep hvis hids
      have ih' := ih os m' (cfg.step op) (hvis.trans hv) hall.2 h.2
      rw [streamFrags_cons, hstep h.1, ih', hids, windowOf_cons, visText_append]
      split <;> rfl

/-- **C08, overlapping attachments, read off the Spec**: for every observation — the model's or the
    implementation's — of a case whose attachments all show the prompt: if `Spec.C08` accepts it, every
    stream received exactly the decoded deliveries of its window -/
theorem window_of_spec (c : Case) (obs : List OpObs × Bytes) (hv : allVisible c.ops = true)
    (h : Spec.C08 c obs = true) (k : Nat) :
    streamFrags k obs.1 = visText (windowOf k [] c.ops obs.1) :=
  window_of_monitor k c.ops obs.1 {} (initCfg c) rfl hv h

/-! ### the model, one operation, nothing suppressed -/

theorem openNext_other (I : List Nat) (op : Op) (h : isStreamOp op = false) : openNext I op = I := by
  cases op <;> first | rfl | (simp [isStreamOp] at h; done)

theorem openNext_nodup (I : List Nat) (op : Op) (hnd : I.Nodup) (hfresh : freshOk I op = true) :
    (openNext I op).Nodup := by
  cases op with
  | streamEnter id sp =>
    refine List.nodup_cons.mpr ⟨?_, hnd⟩
    simpa [freshOk] using hfresh
  | streamExit => exact List.Nodup.sublist (List.tail_sublist I) hnd
  | streamExitAt k => exact List.Nodup.erase k hnd
  | _ => exact hnd

/-- the three prompt-configuration operations leave the attachments alone (cf. `cfg_op`) -/
theorem cfg_op_streams (r : RunSt) (op : Op) (h : isReading op = false) (hs : isStreamOp op = false) :
    (obsOp op r).2.streams = r.streams ∧ (obsOp op r).2.st.streams = r.st.streams
    ∧ (obsOp op r).2.st.logPrompt = r.st.logPrompt
    ∧ (obsOp op r).2.st.fwd = [] ∧ (obsOp op r).2.st.reads = [] := by
  cases op with
  | setPrompt p => exact ⟨rfl, rfl, rfl, rfl, rfl⟩
  | promptEnter p => exact ⟨rfl, rfl, rfl, rfl, rfl⟩
  | promptExit =>
    cases hpr : r.prompts with
    | nil =>
      have h2 : (obsOp .promptExit r).2 = { r with st := cut r.st } := by
        rw [obsOp_snd]; simp [runOp, hpr]
      rw [h2]
      exact ⟨rfl, rfl, rfl, rfl, rfl⟩
    | cons p ps =>
      have h2 : (obsOp .promptExit r).2 = { r with st := { cut r.st with prompt := p }, prompts := ps } := by
        rw [obsOp_snd]; simp [runOp, hpr]
      rw [h2]
      exact ⟨rfl, rfl, rfl, rfl, rfl⟩
  | _ => first | (simp [isReading] at h; done) | (simp [isStreamOp] at hs; done)

/-- an operation that forwards nothing and reads nothing -/
theorem quiet_fwd (o : OpObs) (S : List Nat) (hf : o.fwd = []) (hd : delivered o = []) :
    ∀ id, fwdFor id o.fwd = if id ∈ S then visText (delivered o) else [] := by
  intro id
  rw [hf, hd]
  simp [fwdFor, visText]

/-- `with_stream` exit with suppression off: nothing is flushed, the stream is taken out of `_streams`, the
    saved mode is written back -/
theorem streamExit_show (id : Nat) (prev : Bool) (s : St) (h : s.logPrompt = true) :
    (Chan.streamExit id prev s).fwd = s.fwd ∧ (Chan.streamExit id prev s).streams = s.streams.erase id
    ∧ (Chan.streamExit id prev s).logPrompt = prev ∧ (Chan.streamExit id prev s).reads = s.reads := by
  refine ⟨?_, rfl, rfl, rfl⟩
  show s.fwd ++ exitFlush s = s.fwd
  rw [exitFlush_nil_of_not_re s (Or.inl h), List.append_nil]

/-- the result of detaching stream `k` whose frame is `fr` -/
theorem detach_facts (r : RunSt) (op : Op) (k : Nat) (fr : Nat × Bool) (frames' : List (Nat × Bool))
    (hlp : r.st.logPrompt = true)
    (h2 : (obsOp op r).2 = { r with st := Chan.streamExit k fr.2 (cut r.st), streams := frames' }) :
    (obsOp op r).1.fwd = [] ∧ delivered (obsOp op r).1 = [] ∧ (obsOp op r).2.st.logPrompt = fr.2
    ∧ (obsOp op r).2.streams = frames' ∧ (obsOp op r).2.st.streams = r.st.streams.erase k := by
  have hx := streamExit_show k fr.2 (cut r.st) hlp
  refine ⟨?_, ?_, ?_, ?_, ?_⟩
  · rw [obsOp_fwd, h2]
    show fwdText (Chan.streamExit k fr.2 (cut r.st)).fwd = []
    rw [hx.1]; rfl
  · rw [obsOp_delivered, h2]
    show dataOf (Chan.streamExit k fr.2 (cut r.st)).reads = []
    rw [hx.2.2.2]; rfl
  · rw [h2]; exact hx.2.2.1
  · rw [h2]
  · rw [h2]; exact hx.2.1

/-- **one operation of the model while nothing is suppressed** (`I`: the streams of the open `with_stream`
    frames, most recent first): every attached stream observes one fragment per delivery and no other stream
    observes anything; the mode stays "show"; the frames and `_streams` move as `openNext` says — also when an
    attachment other than the most recent one is ended -/
theorem model_step (r : RunSt) (op : Op) (I : List Nat) (hlp : r.st.logPrompt = true)
    (hprev : ∀ fr ∈ r.streams, fr.2 = true) (hfr : r.streams.map (·.1) = I) (hperm : r.st.streams.Perm I)
    (hnd : I.Nodup) (hsp : showsPrompt op = true) :
    (∀ id, fwdFor id (obsOp op r).1.fwd = if id ∈ r.st.streams then visText (delivered (obsOp op r).1) else [])
    ∧ (obsOp op r).2.st.logPrompt = true ∧ (∀ fr ∈ (obsOp op r).2.streams, fr.2 = true)
    ∧ (obsOp op r).2.streams.map (·.1) = openNext I op ∧ (obsOp op r).2.st.streams.Perm (openNext I op) := by
  have hSnd : r.st.streams.Nodup := hperm.nodup_iff.mpr hnd
  cases hso : isStreamOp op with
  | false =>
    rw [openNext_other I op hso]
    cases hrd : isReading op with
    | true =>
      have he := eff r op hrd
      obtain ⟨h1, h2, h3, _, _⟩ := he.vis hlp
      refine ⟨?_, h3, by rw [he.streams]; exact hprev, by rw [he.streams]; exact hfr, by rw [h2]; exact hperm⟩
      intro id
      rw [obsOp_fwd, h1, fwdFor_visFwd id _ _ hSnd]
    | false =>
      obtain ⟨h1, h2, h3, h4, h5⟩ := cfg_op_streams r op hrd hso
      refine ⟨?_, h3.trans hlp, by rw [h1]; exact hprev, by rw [h1]; exact hfr, by rw [h2]; exact hperm⟩
      refine quiet_fwd _ _ ?_ ?_
      · rw [obsOp_fwd, h4]; rfl
      · rw [obsOp_delivered, h5]; rfl
  | true =>
    cases op with
    | streamEnter id sp =>
      have hsp' : sp = true := hsp
      subst hsp'
      refine ⟨quiet_fwd _ _ rfl rfl, rfl, ?_, ?_, ?_⟩
      · intro fr hfrm
        have : fr ∈ (id, r.st.logPrompt) :: r.streams := hfrm
        rcases List.mem_cons.mp this with rfl | h
        · exact hlp
        · exact hprev fr h
      · show id :: r.streams.map (·.1) = id :: I
        rw [hfr]
      · show (r.st.streams ++ [id]).Perm (id :: I)
        exact List.perm_append_comm.trans (hperm.cons id)
    | streamExit =>
      cases hs : r.streams with
      | nil =>
        have h2 : (obsOp .streamExit r).2 = { r with st := cut r.st } := by
          rw [obsOp_snd]; simp [runOp, hs]
        have hI : I = [] := by rw [← hfr, hs]; rfl
        subst hI
        refine ⟨quiet_fwd _ _ (by rw [obsOp_fwd, h2]; rfl) (by rw [obsOp_delivered, h2]; rfl), ?_, ?_, ?_, ?_⟩
        · rw [h2]; exact hlp
        · rw [h2]; exact hprev
        · rw [h2]; exact hfr
        · rw [h2]; exact hperm
      | cons x rest =>
        obtain ⟨id, prev⟩ := x
        have h2 : (obsOp .streamExit r).2 = { r with st := Chan.streamExit id (id, prev).2 (cut r.st), streams := rest } := by
          rw [obsOp_snd]; simp [runOp, hs]
        obtain ⟨f1, f2, f3, f4, f5⟩ := detach_facts r .streamExit id (id, prev) rest hlp h2
        have hI : I = id :: rest.map (·.1) := by rw [← hfr, hs]; rfl
        subst hI
        refine ⟨quiet_fwd _ _ f1 f2, ?_, ?_, ?_, ?_⟩
        · rw [f3]; exact hprev (id, prev) (by rw [hs]; exact List.mem_cons_self)
        · rw [f4]; intro fr h; exact hprev fr (by rw [hs]; exact List.mem_cons_of_mem _ h)
        · rw [f4]; rfl
        · rw [f5]
          have := hperm.erase id
          rw [List.erase_cons_head] at this
          exact this
    | streamExitAt k =>
      cases hfind : r.streams.find? (fun x => x.1 == k) with
      | none =>
        have h2 : (obsOp (.streamExitAt k) r).2 = { r with st := cut r.st } := by
          rw [obsOp_snd]; simp [runOp, hfind]
        have hk : k ∉ I := by rw [← hfr]; exact (find?_none_iff (fun x : Nat × Bool => x.1) k r.streams).mp hfind
        have hI : openNext I (.streamExitAt k) = I := List.erase_of_not_mem hk
        rw [hI]
        refine ⟨quiet_fwd _ _ (by rw [obsOp_fwd, h2]; rfl) (by rw [obsOp_delivered, h2]; rfl), ?_, ?_, ?_, ?_⟩
        · rw [h2]; exact hlp
        · rw [h2]; exact hprev
        · rw [h2]; exact hfr
        · rw [h2]; exact hperm
      | some fr =>
        have h2 : (obsOp (.streamExitAt k) r).2
            = { r with st := Chan.streamExit k fr.2 (cut r.st), streams := r.streams.eraseP (fun x => x.1 == k) } := by
          rw [obsOp_snd]; simp [runOp, hfind]
        obtain ⟨f1, f2, f3, f4, f5⟩ := detach_facts r (.streamExitAt k) k fr _ hlp h2
        have hfrm := find?_some_id (fun x : Nat × Bool => x.1) k r.streams fr hfind
        refine ⟨quiet_fwd _ _ f1 f2, ?_, ?_, ?_, ?_⟩
        · rw [f3]; exact hprev fr hfrm.1
        · rw [f4]; intro x h; exact hprev x (List.mem_of_mem_eraseP h)
        · rw [f4, map_eraseP_eq (fun x : Nat × Bool => x.1) k, hfr]; rfl
        · rw [f5]; exact hperm.erase k
    | _ => simp [isStreamOp] at hso

/-! ### monitor and model together -/

theorem detachOk_show (a : Att) (h : a.showPrompt = true) : detachOk a = true := by
  unfold detachOk
  simp [h]

/-- with every attachment showing the prompt, the detach check adds nothing to the per-operation laws -/
theorem c08_ok_of (m : StreamMon) (cfg : Cfg) (op : Op) (o : OpObs) (hok : okAll m cfg op o = true)
    (h : ∀ a ∈ updAll m cfg op o, a.showPrompt = true) : (c08 m cfg op o).1 = true := by
  cases hso : isStreamOp op with
  | false => rw [c08_other m cfg op o hso]; exact hok
  | true =>
    cases op with
    | streamEnter id sp => rw [c08_enter]; exact hok
    | streamExit =>
      rw [c08_exit]
      cases hu : updAll m cfg .streamExit o with
      | nil => exact hok
      | cons a rest =>
        have ha : a.showPrompt = true := h a (by rw [hu]; exact List.mem_cons_self)
        simp only [hok, detachOk_show a ha, Bool.or_true, Bool.and_self]
    | streamExitAt k =>
      rw [c08_exitAt]
      cases hf : (updAll m cfg (.streamExitAt k) o).find? (fun x => x.id == k) with
      | none => simp only [hok, Bool.and_self]
      | some a =>
        have ha : a.showPrompt = true := h a (List.mem_of_find?_eq_some hf)
        simp only [hok, detachOk_show a ha, Bool.or_true, Bool.and_self]
    | _ => simp [isStreamOp] at hso

theorem c08_atts_vis (m : StreamMon) (cfg : Cfg) (op : Op) (o : OpObs) (hsp : showsPrompt op = true)
    (h : ∀ a ∈ updAll m cfg op o, a.showPrompt = true ∧ asciiT a.fw = asciiB a.r) :
    ∀ a ∈ (c08 m cfg op o).2.atts, a.showPrompt = true ∧ asciiT a.fw = asciiB a.r := by
  cases hso : isStreamOp op with
  | false => rw [c08_other m cfg op o hso]; exact h
  | true =>
    cases op with
    | streamEnter id sp =>
      rw [c08_enter]
      intro a ha
      have : a ∈ ({ id := id, showPrompt := sp, prompt := cfg.prompt } : Att) :: updAll m cfg (.streamEnter id sp) o := ha
      rcases List.mem_cons.mp this with rfl | ha'
      · exact ⟨hsp, rfl⟩
      · exact h a ha'
    | streamExit =>
      rw [c08_exit]
      cases hu : updAll m cfg .streamExit o with
      | nil => intro a ha; cases ha
      | cons a0 rest =>
        intro a ha
        have : a ∈ rest := ha
        exact h a (by rw [hu]; exact List.mem_cons_of_mem _ this)
    | streamExitAt k =>
      rw [c08_exitAt]
      intro a ha
      have : a ∈ (updAll m cfg (.streamExitAt k) o).eraseP (fun x => x.id == k) := ha
      exact h a (List.mem_of_mem_eraseP this)
    | _ => simp [isStreamOp] at hso

/-- monitor state vs. model state between two operations, while every attachment made so far shows the
    prompt: the mode is "show" and every frame has saved "show"; the monitor's attachments are the open
    frames (same streams, same order) and `_streams` holds the same streams; no stream twice; every stream has
    received, as text, exactly what was read since it was attached -/
structure VInv (m : StreamMon) (r : RunSt) : Prop where
  vis : m.vis = true
  lp : r.st.logPrompt = true
  prevs : ∀ fr ∈ r.streams, fr.2 = true
  frames : r.streams.map (·.1) = m.atts.map (·.id)
  perm : r.st.streams.Perm (m.atts.map (·.id))
  nodup : (m.atts.map (·.id)).Nodup
  atts : ∀ a ∈ m.atts, a.showPrompt = true ∧ asciiT a.fw = asciiB a.r

/-- **one step of the monitor along the model, overlapping attachments**: the verdict is `true` and the
    invariant moves on — for every operation, also a detach that ends an attachment other than the most
    recent one, under any configuration `cfg` -/
theorem vstep (m : StreamMon) (r : RunSt) (cfg : Cfg) (op : Op) (hinv : VInv m r)
    (hsp : showsPrompt op = true) (hfresh : freshOk (m.atts.map (·.id)) op = true) :
    (c08 m cfg op (obsOp op r).1).1 = true ∧ VInv (c08 m cfg op (obsOp op r).1).2 (obsOp op r).2 := by
  obtain ⟨hF, hlp', hprev', hfr', hperm'⟩ :=
    model_step r op _ hinv.lp hinv.prevs hinv.frames hinv.perm hinv.nodup hsp
  obtain ⟨hok, hupd⟩ := okAll_vis m cfg op (obsOp op r).1 r.st.streams hinv.atts (fun _ => hinv.perm.mem_iff) hF
  refine ⟨c08_ok_of _ _ _ _ hok (fun a ha => (hupd a ha).1), ?_⟩
  have hids := c08_ids m cfg op (obsOp op r).1
  exact ⟨(c08_vis m cfg op (obsOp op r).1 hsp).trans hinv.vis, hlp', hprev', by rw [hids]; exact hfr',
    by rw [hids]; exact hperm', by rw [hids]; exact openNext_nodup _ _ hinv.nodup hfresh,
    c08_atts_vis m cfg op (obsOp op r).1 hsp hupd⟩

theorem vfold : ∀ (ops : List Op) (r : RunSt) (m : StreamMon) (cfg : Cfg), VInv m r → allVisible ops = true →
    freshFrom (m.atts.map (·.id)) ops = true → foldOpsCM c08 m cfg ops (runOps ops r).1 = true := by
  intro ops
  induction ops with
  | nil => intro r m cfg _ _ _; rfl
  | cons op ops ih =>
    intro r m cfg hinv hall hfr
    simp only [allVisible, List.all_cons, Bool.and_eq_true] at hall
    simp only [freshFrom, Bool.and_eq_true] at hfr
    obtain ⟨h1, h2⟩ := vstep m r cfg op hinv hall.1 hfr.1
    have hids := c08_ids m cfg op (obsOp op r).1
    rw [(runOps_cons op ops r).1]
    unfold foldOpsCM
    generalize c08 m cfg op (obsOp op r).1 = res at h1 h2 hids
    obtain ⟨ok, m'⟩ := res
    simp only at h1 h2 hids ⊢
    rw [h1, Bool.true_and]
    exact ih _ m' _ h2 hall.2 (by rw [hids]; exact hfr.2)

/-- **C08, overlapping attachments (whole case).**  For every case whose attachments all have
    `show_prompt = true` and that attaches no stream twice at the same time — any number of attachments open at
    once, ended in any order (`streamExit` / `streamExitAt`), any operations in between, any fragmentation of
    the data, any chunk size, prompts set and changed at will — the strengthened monitor accepts the model's run. -/
theorem case_spec_overlapping (c : Case) (hv : allVisible c.ops = true) (hf : freshIds c.ops = true) :
    Spec.C08 c (Chan.run c) = true := by
  unfold Spec.C08 Chan.run
  simp only
  refine vfold c.ops (initSt c) {} (initCfg c) ⟨rfl, rfl, ?_, rfl, List.Perm.refl _, List.nodup_nil, ?_⟩ hv hf
  · intro fr h; simp [initSt] at h
  · intro a h; cases h

/-- from fragments to text -/
theorem window_text (k : Nat) (os : List OpObs) (W : List Bytes) (h : streamFrags k os = visText W) :
    streamText k os = (W.map decodeReplace).flatten ∧ asciiT (streamText k os) = asciiB W.flatten := by
  unfold streamText
  rw [h]
  exact ⟨visText_flatten W, asciiT_visText W⟩

/-- **every stream gets exactly its window.**  In a case whose attachments all show the prompt (no stream
    attached twice at the same time), for every stream `k`, with `W` = the deliveries made between the attach
    of `k` and the detach that ends it (`windowOf`) — whatever else was attached or detached in between, in
    whatever order:
    * the fragments `k` received in the whole run are the decoded deliveries of `W`, one for one, in order
      (nothing before the attach, nothing after the detach, nothing twice, nothing missing);
    * so the text `k` holds is the concatenation of the decoded deliveries of `W`;
    * and, for every way the data was cut into deliveries, its ASCII projection is the ASCII projection of
      the concatenation of `W`. -/
theorem stream_gets_exactly_its_window (c : Case) (hv : allVisible c.ops = true) (hf : freshIds c.ops = true)
    (k : Nat) :
    streamFrags k (Chan.run c).1 = visText (windowOf k [] c.ops (Chan.run c).1)
    ∧ streamText k (Chan.run c).1 = ((windowOf k [] c.ops (Chan.run c).1).map decodeReplace).flatten
    ∧ asciiT (streamText k (Chan.run c).1) = asciiB (windowOf k [] c.ops (Chan.run c).1).flatten := by
  have h := window_of_spec c (Chan.run c) hv (case_spec_overlapping c hv hf) k
  exact ⟨h, window_text k _ _ h⟩

/-! ### non-vacuity -/

/-- two overlapping attachments ended FIRST-in-first-out: stream 0 is attached, `ab` is read, stream 1 is
    attached, `cd` is read, stream 0 is detached (`streamExitAt 0` — it is not the most recent one), `ef` is
    read, stream 1 is detached -/
def exFifo : Case :=
  { chunk := 4, slice := 8, accept := []
    script := [⟨0, [97, 98]⟩, ⟨0, [99, 100]⟩, ⟨0, [101, 102]⟩]
    ops := [.streamEnter 0 true, .read none (some 1), .streamEnter 1 true, .read none (some 1), .streamExitAt 0,
            .read none (some 1), .streamExit] }

example : allVisible exFifo.ops = true ∧ freshIds exFifo.ops = true := by decide

example : windowOf 0 [] exFifo.ops (Chan.run exFifo).1 = [[97, 98], [99, 100]]
    ∧ windowOf 1 [] exFifo.ops (Chan.run exFifo).1 = [[99, 100], [101, 102]] := by decide +kernel

/-- stream 0 holds `abcd`, stream 1 holds `cdef` -/
example : streamText 0 (Chan.run exFifo).1 = ['a', 'b', 'c', 'd']
    ∧ streamText 1 (Chan.run exFifo).1 = ['c', 'd', 'e', 'f'] := by decide +kernel

/-- what the run looks like when the detach takes out the MOST RECENT stream instead of the one it was asked
    to (`self._streams.pop()` in place of `.remove(stream)`): after `streamExitAt 0` the third delivery goes
    to stream 0 and not to stream 1 -/
def exFifoPopped : List OpObs × Bytes :=
  (((Chan.run exFifo).1.take 5) ++
     [{ res := .bytes [101, 102], t0 := 0, t1 := 0, reads := [⟨4, some 1, 0, 0, some [101, 102]⟩], writes := [],
        fwd := [(0, ['e', 'f'])] }] ++ ((Chan.run exFifo).1.drop 6), (Chan.run exFifo).2)

/-- the monitor accepts the model's run and rejects the popped one -/
example : Spec.C08 exFifo (Chan.run exFifo) = true ∧ Spec.C08 exFifo exFifoPopped = false := by decide +kernel

/-- three attachments, the middle one ended first, then the oldest, then the most recent one -/
def exMiddle : Case :=
  { chunk := 2, slice := 8, accept := []
    script := [⟨0, [97, 98, 99]⟩, ⟨1, [195]⟩, ⟨2, [169, 10]⟩]
    ops := [.streamEnter 5 true, .streamEnter 6 true, .setPrompt (some [98]), .streamEnter 7 true,
            .read (some 3) (some 1), .streamExitAt 6, .read none (some 1), .streamExitAt 5, .rut (some 3), .streamExit] }

example : allVisible exMiddle.ops = true ∧ freshIds exMiddle.ops = true := by decide

example : Spec.C08 exMiddle (Chan.run exMiddle) = true := case_spec_overlapping exMiddle (by decide) (by decide)

end C08
