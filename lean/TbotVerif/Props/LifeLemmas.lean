import TbotVerif.Spec.Life
namespace C13
open Life

variable {α : Type}

theorem uptoFirst_append_of_none {p : α → Bool} : ∀ {a b : List α}, (∀ x ∈ a, p x = false) →
    uptoFirst p (a ++ b) = a ++ uptoFirst p b
  | [], _, _ => rfl
  | x :: a, b, h => by
    have hx : p x = false := h x (by simp)
    have := uptoFirst_append_of_none (a := a) (b := b) (fun y hy => h y (by simp [hy]))
    simp [uptoFirst, hx, this]

theorem uptoFirst_append_of_any {p : α → Bool} : ∀ {a b : List α}, a.any p = true →
    uptoFirst p (a ++ b) = uptoFirst p a
  | [], _, h => by simp at h
  | x :: a, b, h => by
    cases hx : p x with
    | true => simp [uptoFirst, hx]
    | false =>
      have h' : a.any p = true := by simpa [hx] using h
      simp [uptoFirst, hx, uptoFirst_append_of_any (b := b) h']

theorem uptoFirst_of_none {p : α → Bool} {a : List α} (h : ∀ x ∈ a, p x = false) : uptoFirst p a = a := by
  have := uptoFirst_append_of_none (b := []) h
  simpa [uptoFirst] using this

theorem lastRaised_append (f : Faults) (a b : List Ev) (e : Option Tag) :
    lastRaised f (a ++ b) e = lastRaised f b (lastRaised f a e) := by
  simp [lastRaised, List.foldl_append]

theorem lastRaised_cons (f : Faults) (x : Ev) (a : List Ev) (e : Option Tag) :
    lastRaised f (x :: a) e = lastRaised f a ((faultTag f x).or e) := rfl

theorem lastRaised_nil (f : Faults) (e : Option Tag) : lastRaised f [] e = e := rfl

theorem teardown_append (f : Faults) (a b : List Ev) : teardown f (a ++ b) = teardown f b ++ teardown f a := by
  simp [teardown, List.flatMap_append]

theorem noSleep_append (a b : List Ev) : noSleep (a ++ b) = noSleep a ++ noSleep b := by
  simp [noSleep]

theorem lastRaised_noSleep (f : Faults) : ∀ (a : List Ev) (e : Option Tag), lastRaised f (noSleep a) e = lastRaised f a e
  | [], e => rfl
  | x :: a, e => by
    cases x <;> simp [noSleep, isSleep, lastRaised_cons, faultTag] <;> exact lastRaised_noSleep f a _
end C13
