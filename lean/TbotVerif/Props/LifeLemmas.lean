import TbotVerif.Spec.Life
/-! List-level lemmas about the vocabulary of `Spec/Life.lean` (`uptoFirst`, `lastRaised`, `teardown`,
    `noSleep`, `expectedInit/Body/Trace`, `specOrder`) used by `Props/C13.lean`.  Nothing here mentions the
    operational model. -/
namespace C13
open Life

variable {α : Type}

theorem uptoFirst_append_of_none {p : α → Bool} : ∀ {a b : List α}, (∀ x ∈ a, p x = false) →
    uptoFirst p (a ++ b) = a ++ uptoFirst p b
  | [], _, _ => rfl
  | x :: a, b, h => by
    have hx : p x = false := h x (by simp)
    have := uptoFirst_append_of_none (a := a) (b := b) (fun y hy => h y (by simp [hy]))
    simp [uptoFirst, hx, this]

theorem uptoFirst_append_of_any {p : α → Bool} : ∀ {a b : List α}, a.any p = true →
    uptoFirst p (a ++ b) = uptoFirst p a
  | [], _, h => by simp at h
  | x :: a, b, h => by
    cases hx : p x with
    | true => simp [uptoFirst, hx]
    | false =>
      have h' : a.any p = true := by simpa [hx] using h
      simp [uptoFirst, hx, uptoFirst_append_of_any (b := b) h']

theorem uptoFirst_of_none {p : α → Bool} {a : List α} (h : ∀ x ∈ a, p x = false) : uptoFirst p a = a := by
  have := uptoFirst_append_of_none (b := []) h
  simpa [uptoFirst] using this

theorem lastRaised_append (f : Faults) (a b : List Ev) (e : Option Tag) :
    lastRaised f (a ++ b) e = lastRaised f b (lastRaised f a e) := by
  simp [lastRaised, List.foldl_append]

theorem lastRaised_cons (f : Faults) (x : Ev) (a : List Ev) (e : Option Tag) :
    lastRaised f (x :: a) e = lastRaised f a ((faultTag f x).or e) := rfl

theorem lastRaised_nil (f : Faults) (e : Option Tag) : lastRaised f [] e = e := rfl

theorem teardown_append (f : Faults) (a b : List Ev) : teardown f (a ++ b) = teardown f b ++ teardown f a := by
  simp [teardown, List.flatMap_append]

theorem noSleep_append (a b : List Ev) : noSleep (a ++ b) = noSleep a ++ noSleep b := by
  simp [noSleep]

theorem lastRaised_noSleep (f : Faults) : ∀ (a : List Ev) (e : Option Tag), lastRaised f (noSleep a) e = lastRaised f a e
  | [], e => rfl
  | x :: a, e => by
    cases x <;> simp [noSleep, isSleep, lastRaised_cons, faultTag] <;> exact lastRaised_noSleep f a _

theorem all_not_raises_iff (f : Faults) (l : List Ev) :
    l.all (fun e => !raises f e) = true ↔ ∀ e ∈ l, raises f e = false := by
  simp [List.all_eq_true]

theorem lastRaised_of_none (f : Faults) : ∀ (l : List Ev) (e0 : Option Tag), (∀ e ∈ l, raises f e = false) →
    lastRaised f l e0 = e0
  | [], _, _ => rfl
  | x :: l, e0, h => by
    have hx : faultTag f x = none := by
      have := h x (by simp)
      simpa [raises] using this
    rw [lastRaised_cons, hx]
    exact lastRaised_of_none f l _ (fun e he => h e (by simp [he]))

theorem uptoFirst_all_not_of_any {α} {p : α → Bool} : ∀ {a : List α}, a.any p = true →
    (uptoFirst p a).all (fun x => !p x) = false
  | [], h => by simp at h
  | x :: a, h => by
    cases hx : p x with
    | true => simp [uptoFirst, hx]
    | false =>
      have h' : a.any p = true := by simpa [hx] using h
      simp [uptoFirst, hx, uptoFirst_all_not_of_any h']

theorem expectedBody_cons_raise (k : Nat) (ops : List Op) : expectedBody (.raise k :: ops) = [.raise k] := by
  simp [expectedBody, Op.ev, uptoFirst, isRaise]

theorem expectedBody_cons_mark (k : Nat) (ops : List Op) : expectedBody (.mark k :: ops) = .mark k :: expectedBody ops := by
  simp [expectedBody, Op.ev, uptoFirst, isRaise]

theorem expectedBody_cons_opened (ops : List Op) : expectedBody (.opened :: ops) = .opened :: expectedBody ops := by
  simp [expectedBody, Op.ev, uptoFirst, isRaise]

theorem expectedBody_cons_closed (ops : List Op) : expectedBody (.closed :: ops) = .closed :: expectedBody ops := by
  simp [expectedBody, Op.ev, uptoFirst, isRaise]

theorem lastRaised_isSome (f : Faults) : ∀ (l : List Ev) (t : Tag), (lastRaised f l (some t)).isSome = true
  | [], t => rfl
  | x :: l, t => by
    rw [lastRaised_cons]
    cases hx : faultTag f x with
    | none => simpa using lastRaised_isSome f l t
    | some u => simpa using lastRaised_isSome f l u

theorem noSleep_expectedBody : ∀ (ops : List Op), noSleep (expectedBody ops) = expectedBody ops
  | [] => rfl
  | .opened :: ops => by
    rw [expectedBody_cons_opened]
    simpa [noSleep, isSleep] using noSleep_expectedBody ops
  | .closed :: ops => by
    rw [expectedBody_cons_closed]
    simpa [noSleep, isSleep] using noSleep_expectedBody ops
  | .mark k :: ops => by
    rw [expectedBody_cons_mark]
    simpa [noSleep, isSleep] using noSleep_expectedBody ops
  | .raise k :: ops => by
    rw [expectedBody_cons_raise]
    simp [noSleep, isSleep]

theorem find?_toList_eq_filter {α} (p : α → Bool) : ∀ (l : List α), (l.filter p).length ≤ 1 →
    (l.find? p).toList = l.filter p
  | [], _ => rfl
  | x :: l, h => by
    cases hx : p x with
    | false =>
      have h' : (l.filter p).length ≤ 1 := by simpa [List.filter_cons, hx] using h
      simp [hx, find?_toList_eq_filter p l h']
    | true =>
      have h' : (l.filter p).length = 0 := by
        simp [hx] at h; simpa using h
      have : l.filter p = [] := List.length_eq_zero_iff.mp h'
      simp [hx, this]

theorem filter_rank (mro : List Step) (k : Kind) (r : Nat) (h : ∀ k', (k'.rank == r) = (k' == k)) :
    mro.filter (fun s => s.kind.rank == r) = mro.filter (fun s => s.kind == k) := by
  congr 1; funext s; exact h s.kind

theorem lastRaised_none_iff (f : Faults) : ∀ (l : List Ev),
    lastRaised f l none = none ↔ ∀ e ∈ l, raises f e = false
  | [] => by simp [lastRaised]
  | x :: l => by
    rw [lastRaised_cons]
    cases hx : faultTag f x with
    | none =>
      simp only [Option.or_none, List.mem_cons, forall_eq_or_imp, raises, hx, Option.isSome_none, true_and]
      exact lastRaised_none_iff f l
    | some t =>
      have := lastRaised_isSome f l t
      constructor
      · intro h
        have h' : lastRaised f l (some t) = none := by simpa using h
        simp [h'] at this
      · intro h
        have := h x (by simp)
        simp [raises, hx] at this

theorem begin_not_raises (s : Step) : ∀ e ∈ beginEvs s, raises (fun _ => false) e = false := by
  obtain ⟨id, k, hd⟩ := s
  cases k <;> simp [beginEvs, raises, faultTag]

theorem mem_uptoFirst {α} {p : α → Bool} : ∀ {l : List α} {x : α}, x ∈ uptoFirst p l → x ∈ l
  | [], _, h => by simp [uptoFirst] at h
  | a :: l, x, h => by
    unfold uptoFirst at h
    cases ha : p a with
    | true => simp [ha] at h; simp [h]
    | false =>
      simp only [ha, Bool.false_eq_true, if_false, List.mem_cons] at h
      rcases h with h | h
      · simp [h]
      · simp [mem_uptoFirst h]

theorem count_noSleep (e : Ev) (he : isSleep e = false) (l : List Ev) :
    List.count e (noSleep l) = List.count e l := by
  unfold noSleep
  exact List.count_filter (by simp [he])

theorem count_off_teardown (f : Faults) (id : Nat) : ∀ (ini : List Ev),
    List.count (.off id) (teardown f ini) = List.count (.on id) ini
  | [] => rfl
  | x :: ini => by
    have ih := count_off_teardown f id ini
    have : teardown f (x :: ini) = teardown f ini ++ (teardownOf f x).reverse := by
      simp [teardown]
    rw [this, List.count_append, ih, List.count_cons]
    cases x <;> simp [teardownOf]
    case enter i => split <;> simp
    case on i => by_cases h : i = id <;> simp [h]

theorem not_on_mem_teardown (f : Faults) (id : Nat) (ini : List Ev) : Ev.on id ∉ teardown f ini := by
  simp only [teardown, List.mem_reverse, List.mem_flatMap, not_exists, not_and]
  intro x _ hx
  cases x <;> simp [teardownOf] at hx

theorem not_off_mem_begin (id : Nat) (steps : List Step) : Ev.off id ∉ steps.flatMap beginEvs := by
  simp only [List.mem_flatMap, not_exists, not_and]
  intro s _ hs
  obtain ⟨i, k, hd⟩ := s
  cases k <;> simp [beginEvs] at hs

theorem mem_expectedBody {e : Ev} {ops : List Op} (h : e ∈ expectedBody ops) : ∃ op ∈ ops, e = op.ev := by
  have := mem_uptoFirst h
  simp only [List.mem_map] at this
  obtain ⟨op, ho, rfl⟩ := this
  exact ⟨op, ho, rfl⟩

theorem not_power_mem_body (id : Nat) (ops : List Op) :
    Ev.on id ∉ expectedBody ops ∧ Ev.off id ∉ expectedBody ops := by
  constructor <;> intro h <;> obtain ⟨op, _, ho⟩ := mem_expectedBody h <;> cases op <;> simp [Op.ev] at ho

theorem count_expectedTrace (steps : List Step) (f : Faults) (body : List Op) (id : Nat) :
    List.count (.off id) (expectedTrace steps f body) = List.count (.on id) (expectedTrace steps f body) := by
  unfold expectedTrace
  simp only [List.count_append, count_off_teardown]
  have h1 : List.count (Ev.off id) (expectedInit steps f) = 0 :=
    List.count_eq_zero.mpr (fun h => not_off_mem_begin id steps (mem_uptoFirst h))
  have h2 : List.count (Ev.on id) (teardown f (expectedInit steps f)) = 0 :=
    List.count_eq_zero.mpr (not_on_mem_teardown f id _)
  rw [h1, h2]
  split
  · rw [List.count_eq_zero.mpr (not_power_mem_body id body).1, List.count_eq_zero.mpr (not_power_mem_body id body).2]
    omega
  · simp

theorem uptoFirst_prefix {α} (p : α → Bool) : ∀ (l : List α), ∃ r, l = uptoFirst p l ++ r
  | [] => ⟨[], rfl⟩
  | a :: l => by
    unfold uptoFirst
    cases ha : p a with
    | true => exact ⟨l, by simp⟩
    | false =>
      obtain ⟨r, hr⟩ := uptoFirst_prefix p l
      exact ⟨r, by simp [← hr]⟩

theorem uptoFirst_before {α} {p : α → Bool} : ∀ {l A : List α} {x : α} {B : List α},
    uptoFirst p l = A ++ x :: B → ∀ a ∈ A, p a = false
  | [], A, x, B, h => by cases A <;> simp [uptoFirst] at h
  | y :: l, A, x, B, h => by
    unfold uptoFirst at h
    cases hy : p y with
    | true =>
      simp only [hy, if_true] at h
      cases A with
      | nil => intro a ha; simp at ha
      | cons a' A' =>
        simp only [List.cons_append, List.cons.injEq] at h
        have := h.2
        cases A' <;> simp at this
    | false =>
      simp only [hy, Bool.false_eq_true, if_false] at h
      cases A with
      | nil => intro a ha; simp at ha
      | cons a' A' =>
        simp only [List.cons_append, List.cons.injEq] at h
        obtain ⟨rfl, h⟩ := h
        intro a ha
        rcases List.mem_cons.mp ha with rfl | ha
        · exact hy
        · exact uptoFirst_before h a ha

theorem on_mem_begin {id : Nat} {s : Step} (h : Ev.on id ∈ beginEvs s) : beginEvs s = [.check id, .on id] := by
  obtain ⟨i, k, hd⟩ := s
  cases k <;> simp [beginEvs] at h ⊢
  exact h.symm

theorem on_not_mem_expectedInit (f : Faults) (id : Nat) (h : raises f (.check id) = true) :
    ∀ (steps : List Step), Ev.on id ∉ expectedInit steps f
  | [] => by simp [expectedInit, uptoFirst]
  | s :: rest => by
    have ih := on_not_mem_expectedInit f id h rest
    unfold expectedInit at ih ⊢
    rw [List.flatMap_cons]
    cases hany : (beginEvs s).any (raises f) with
    | true =>
      rw [uptoFirst_append_of_any hany]
      intro hm
      have hb := on_mem_begin (mem_uptoFirst hm)
      rw [hb] at hm
      simp [uptoFirst, h] at hm
    | false =>
      have hnone : ∀ x ∈ beginEvs s, raises f x = false := by
        intro x hx
        have := List.any_eq_false.mp hany x hx
        simpa using this
      rw [uptoFirst_append_of_none hnone]
      intro hm
      rcases List.mem_append.mp hm with hm | hm
      · have hb := on_mem_begin hm
        have := hnone (.check id) (by rw [hb]; simp)
        rw [h] at this; cases this
      · exact ih hm

/-- in the documented order the connector's `__enter__` precedes every `poweron` -/
theorem begin_split (mro : List Step) (k : Nat) (hd : Bool) (hk : (⟨k, .conn, hd⟩ : Step) ∈ mro) :
    ∃ P Q, (specOrder mro).flatMap beginEvs = P ++ Q ∧ Ev.enter k ∈ P ∧ ∀ w, Ev.on w ∉ P := by
  have hr : List.range 7 = [0, 1, 2, 3, 4, 5, 6] := by decide
  refine ⟨(mro.filter (fun s => s.kind.rank == 0) ++ mro.filter (fun s => s.kind.rank == 1)
      ++ mro.filter (fun s => s.kind.rank == 2)).flatMap beginEvs,
    (mro.filter (fun s => s.kind.rank == 3) ++ mro.filter (fun s => s.kind.rank == 4)
      ++ mro.filter (fun s => s.kind.rank == 5) ++ mro.filter (fun s => s.kind.rank == 6)).flatMap beginEvs, ?_, ?_, ?_⟩
  · unfold specOrder
    rw [hr]
    simp [List.flatMap_append]
  · rw [List.flatMap_append, List.mem_append]
    right
    rw [List.mem_flatMap]
    exact ⟨⟨k, .conn, hd⟩, by simp [hk, Kind.rank], by simp [beginEvs]⟩
  · intro w hw
    rw [List.mem_flatMap] at hw
    obtain ⟨s, hs, hw⟩ := hw
    obtain ⟨i, kd, hd⟩ := s
    rw [List.mem_append, List.mem_append, List.mem_filter, List.mem_filter, List.mem_filter] at hs
    cases kd <;> simp [Kind.rank, beginEvs] at hs hw


theorem on_mem_begin_kind {id : Nat} {s : Step} (h : Ev.on id ∈ beginEvs s) : s.kind = .power := by
  obtain ⟨i, k, hd⟩ := s
  cases k <;> simp [beginEvs] at h ⊢

theorem count_on_begin_le (w : Nat) : ∀ (steps : List Step),
    List.count (Ev.on w) (steps.flatMap beginEvs) ≤ (steps.filter (fun s => s.kind == .power)).length
  | [] => by simp
  | s :: rest => by
    have ih := count_on_begin_le w rest
    rw [List.flatMap_cons, List.count_append, List.filter_cons]
    obtain ⟨i, k, hd⟩ := s
    cases k <;> simp [beginEvs, List.count_cons] <;> (try split) <;> omega

theorem count_on_begin_filter_zero (w : Nat) (mro : List Step) (p : Step → Bool)
    (hp : ∀ s, p s = true → s.kind ≠ .power) :
    List.count (Ev.on w) ((mro.filter p).flatMap beginEvs) = 0 := by
  rw [List.count_eq_zero, List.mem_flatMap]
  rintro ⟨s, hs, hon⟩
  exact hp s (List.mem_filter.mp hs).2 (on_mem_begin_kind hon)

theorem count_on_begin_filter_le (w : Nat) (p : Step → Bool) : ∀ (mro : List Step),
    List.count (Ev.on w) ((mro.filter p).flatMap beginEvs) ≤ List.count (Ev.on w) (mro.flatMap beginEvs)
  | [] => by simp
  | s :: rest => by
    have ih := count_on_begin_filter_le w p rest
    rw [List.filter_cons]
    split
    · rw [List.flatMap_cons, List.flatMap_cons, List.count_append, List.count_append]; omega
    · rw [List.flatMap_cons, List.count_append]; omega

theorem count_on_specOrder_le (w : Nat) (mro : List Step) :
    List.count (Ev.on w) ((specOrder mro).flatMap beginEvs) ≤ (mro.filter (fun s => s.kind == .power)).length := by
  have hr : List.range 7 = [0, 1, 2, 3, 4, 5, 6] := by decide
  unfold specOrder
  rw [hr]
  simp only [List.flatMap_cons, List.flatMap_nil, List.append_nil, List.flatMap_append, List.count_append]
  rw [count_on_begin_filter_zero w mro _ (by intro s hs; cases hk : s.kind <;> simp [hk, Kind.rank] at hs ⊢),
      count_on_begin_filter_zero w mro (fun s => s.kind.rank == 1) (by intro s hs; cases hk : s.kind <;> simp [hk, Kind.rank] at hs ⊢),
      count_on_begin_filter_zero w mro (fun s => s.kind.rank == 2) (by intro s hs; cases hk : s.kind <;> simp [hk, Kind.rank] at hs ⊢),
      count_on_begin_filter_zero w mro (fun s => s.kind.rank == 4) (by intro s hs; cases hk : s.kind <;> simp [hk, Kind.rank] at hs ⊢),
      count_on_begin_filter_zero w mro (fun s => s.kind.rank == 5) (by intro s hs; cases hk : s.kind <;> simp [hk, Kind.rank] at hs ⊢),
      count_on_begin_filter_zero w mro (fun s => s.kind.rank == 6) (by intro s hs; cases hk : s.kind <;> simp [hk, Kind.rank] at hs ⊢)]
  have h1 := count_on_begin_filter_le w (fun s => s.kind.rank == 3) mro
  have h2 := count_on_begin_le w mro
  omega

theorem count_on_expectedTrace (steps : List Step) (f : Faults) (body : List Op) (id : Nat) :
    List.count (.on id) (expectedTrace steps f body) = List.count (.on id) (expectedInit steps f) := by
  unfold expectedTrace
  simp only [List.count_append]
  rw [List.count_eq_zero.mpr (not_on_mem_teardown f id _)]
  split
  · rw [List.count_eq_zero.mpr (not_power_mem_body id body).1]; omega
  · simp


/-! ## handling steps: `pendingFault`, `ownCleanup`, `stackTeardown` -/

theorem pendingFault_nil (f : Faults) (H : Handles) (p : Option Tag) : pendingFault f H [] p = p := rfl

theorem pendingFault_cons (f : Faults) (H : Handles) (x : Ev) (a : List Ev) (p : Option Tag) :
    pendingFault f H (x :: a) p
      = pendingFault f H a (match faultTag f x with
          | some t => some t
          | none => if handlesEv H x then none else p) := rfl

theorem pendingFault_append (f : Faults) (H : Handles) (a b : List Ev) (p : Option Tag) :
    pendingFault f H (a ++ b) p = pendingFault f H b (pendingFault f H a p) := by
  simp [pendingFault, List.foldl_append]

/-- without a handling step among the callbacks the fault in flight is the last one raised -/
theorem pendingFault_nohandle (f : Faults) (H : Handles) : ∀ (l : List Ev) (p : Option Tag),
    (∀ e ∈ l, handlesEv H e = false) → pendingFault f H l p = lastRaised f l p
  | [], _, _ => rfl
  | x :: l, p, h => by
    rw [pendingFault_cons, lastRaised_cons, h x (by simp)]
    have ih := fun q => pendingFault_nohandle f H l q (fun e he => h e (by simp [he]))
    cases hx : faultTag f x <;> simp [ih]

theorem handlesEv_none (e : Ev) : handlesEv (fun _ => false) e = false := by
  cases e <;> rfl

theorem handlesOf_none {steps : List Step} (h : ∀ s ∈ steps, s.handles = false) :
    handlesOf steps = fun _ => false := by
  funext i
  simp only [handlesOf, List.any_eq_false, Bool.and_eq_true, beq_iff_eq, not_and, Bool.not_eq_true]
  intro s hs _
  exact h s hs

theorem lastRaised_or (f : Faults) : ∀ (l : List Ev) (a e0 : Option Tag),
    (lastRaised f l a).or e0 = lastRaised f l (a.or e0)
  | [], _, _ => rfl
  | x :: l, a, e0 => by
    rw [lastRaised_cons, lastRaised_cons, lastRaised_or f l, Option.or_assoc]

theorem pendingFault_of_none (f : Faults) (H : Handles) : ∀ (l : List Ev), (∀ e ∈ l, raises f e = false) →
    pendingFault f H l none = none
  | [], _ => rfl
  | x :: l, h => by
    have hx : faultTag f x = none := by
      have := h x (by simp)
      simpa [raises] using this
    rw [pendingFault_cons, hx]
    simp only [ite_self]
    exact pendingFault_of_none f H l (fun e he => h e (by simp [he]))

/-- after callbacks none of which raises: the fault in flight survives iff none of them handles -/
theorem pendingFault_quiet (f : Faults) (H : Handles) : ∀ (l : List Ev) (p : Option Tag),
    (∀ e ∈ l, raises f e = false) →
    pendingFault f H l p = if l.any (handlesEv H) then none else p
  | [], _, _ => rfl
  | x :: l, p, h => by
    have hx : faultTag f x = none := by
      have := h x (by simp)
      simpa [raises] using this
    have hl : ∀ e ∈ l, raises f e = false := fun e he => h e (by simp [he])
    rw [pendingFault_cons, hx, List.any_cons]
    cases hh : handlesEv H x
    · simpa using pendingFault_quiet f H l p hl
    · simp only [if_true, Bool.true_or]
      rw [pendingFault_quiet f H l none hl]
      simp

theorem pendingFault_some_split (f : Faults) (H : Handles) (x : Tag) : ∀ (l : List Ev) (p : Option Tag),
    pendingFault f H l p = some x →
      (∃ A e B, l = A ++ e :: B ∧ faultTag f e = some x ∧ ∀ b ∈ B, raises f b = false ∧ handlesEv H b = false)
      ∨ (p = some x ∧ ∀ b ∈ l, raises f b = false ∧ handlesEv H b = false)
  | [], p, h => Or.inr ⟨h, by simp⟩
  | y :: l, p, h => by
    rw [pendingFault_cons] at h
    rcases pendingFault_some_split f H x l _ h with ⟨A, e, B, rfl, h1, h2⟩ | ⟨hp, hq⟩
    · exact Or.inl ⟨y :: A, e, B, rfl, h1, h2⟩
    · cases hy : faultTag f y with
      | some t =>
        simp only [hy, Option.some.injEq] at hp
        subst hp
        exact Or.inl ⟨[], y, l, rfl, hy, hq⟩
      | none =>
        simp only [hy] at hp
        cases hh : handlesEv H y with
        | true => simp [hh] at hp
        | false =>
          simp only [hh, Bool.false_eq_true, if_false] at hp
          refine Or.inr ⟨hp, ?_⟩
          intro b hb
          rcases List.mem_cons.mp hb with rfl | hb
          · exact ⟨by simp [raises, hy], hh⟩
          · exact hq b hb

/-- **which tear-down fault is in flight at the end**: `x` iff some callback raised `x` and every
    callback after it neither raised nor belonged to a handling step -/
theorem pendingFault_eq_some_iff (f : Faults) (H : Handles) (l : List Ev) (x : Tag) :
    pendingFault f H l none = some x
      ↔ ∃ A e B, l = A ++ e :: B ∧ faultTag f e = some x
          ∧ ∀ b ∈ B, raises f b = false ∧ handlesEv H b = false := by
  constructor
  · intro h
    rcases pendingFault_some_split f H x l none h with h | ⟨h, _⟩
    · exact h
    · cases h
  · rintro ⟨A, e, B, rfl, h1, h2⟩
    rw [pendingFault_append, pendingFault_cons, h1]
    simp only
    rw [pendingFault_quiet f H B _ (fun b hb => (h2 b hb).1)]
    have : B.any (handlesEv H) = false := by
      rw [List.any_eq_false]
      intro b hb
      simp [(h2 b hb).2]
    simp [this]

theorem units_flatten : ∀ (steps : List Step), (units steps).flatten = steps
  | [] => rfl
  | [s] => rfl
  | s :: c :: rest => by
    unfold units
    split
    · simp [units_flatten rest]
    · simp [units_flatten (c :: rest)]

theorem uptoFirst_none_all {p : α → Bool} : ∀ {l : List α}, (∀ x ∈ uptoFirst p l, p x = false) → ∀ x ∈ l, p x = false
  | [], _ => by simp
  | a :: l, h => by
    unfold uptoFirst at h
    cases ha : p a with
    | true =>
      have := h a (by simp [ha])
      rw [ha] at this; cases this
    | false =>
      simp only [ha, Bool.false_eq_true, if_false] at h
      intro x hx
      rcases List.mem_cons.mp hx with rfl | hx
      · exact ha
      · exact uptoFirst_none_all (fun y hy => h y (by simp [hy])) x hx

/-- the begin-callbacks a session reaches = those of the started units, then those of the unit
    that failed -/
theorem splitInit_append (f : Faults) : ∀ (us : List (List Step)),
    uptoFirst (raises f) (us.flatten.flatMap beginEvs) = (splitInit f us).1 ++ (splitInit f us).2
  | [] => rfl
  | u :: us => by
    simp only [List.flatten_cons, List.flatMap_append, splitInit]
    cases hany : (u.flatMap beginEvs).any (raises f) with
    | true => simp [uptoFirst_append_of_any hany]
    | false =>
      have hnone : ∀ x ∈ u.flatMap beginEvs, raises f x = false := by
        intro x hx
        have := List.any_eq_false.mp hany x hx
        simpa using this
      simp [uptoFirst_append_of_none hnone, splitInit_append f us]

theorem splitInit_started_none (f : Faults) : ∀ (us : List (List Step)), ∀ e ∈ (splitInit f us).1, raises f e = false
  | [], e, he => by simp [splitInit] at he
  | u :: us, e, he => by
    simp only [splitInit] at he
    cases hany : (u.flatMap beginEvs).any (raises f) with
    | true => simp [hany] at he
    | false =>
      simp only [hany, Bool.false_eq_true, if_false] at he
      rcases List.mem_append.mp he with he | he
      · have := List.any_eq_false.mp hany e he
        simpa using this
      · exact splitInit_started_none f us e he

theorem splitInit_of_none (f : Faults) : ∀ (us : List (List Step)),
    (∀ e ∈ us.flatten.flatMap beginEvs, raises f e = false) →
    splitInit f us = (us.flatten.flatMap beginEvs, [])
  | [], _ => rfl
  | u :: us, h => by
    simp only [List.flatten_cons, List.flatMap_append] at h ⊢
    have hany : (u.flatMap beginEvs).any (raises f) = false := by
      rw [List.any_eq_false]
      intro x hx
      simp [h x (List.mem_append_left _ hx)]
    simp [splitInit, hany, splitInit_of_none f us (fun e he => h e (List.mem_append_right _ he))]

theorem expectedInit_split (steps : List Step) (f : Faults) :
    expectedInit steps f = startedInit f steps ++ failedInit f steps := by
  unfold expectedInit startedInit failedInit
  rw [← splitInit_append, units_flatten]

/-- the tear-down owed = what the failing unit cleans up itself, then what the exit stack runs -/
theorem teardown_split (steps : List Step) (f : Faults) :
    teardown f (expectedInit steps f) = ownCleanup f steps ++ stackTeardown f steps := by
  unfold ownCleanup stackTeardown
  rw [← teardown_append, ← expectedInit_split]

theorem startedInit_none (steps : List Step) (f : Faults) : ∀ e ∈ startedInit f steps, raises f e = false :=
  splitInit_started_none f _

/-- when every begin-callback returned there is no failing unit: everything is on the exit stack -/
theorem ownCleanup_of_none (steps : List Step) (f : Faults) (h : ∀ e ∈ expectedInit steps f, raises f e = false) :
    ownCleanup f steps = [] ∧ stackTeardown f steps = teardown f (expectedInit steps f) := by
  have hall : ∀ e ∈ (units steps).flatten.flatMap beginEvs, raises f e = false := by
    rw [units_flatten]
    exact uptoFirst_none_all h
  have hs := splitInit_of_none f (units steps) hall
  have hini : expectedInit steps f = steps.flatMap beginEvs := uptoFirst_of_none (by rw [units_flatten] at hall; exact hall)
  unfold ownCleanup stackTeardown failedInit startedInit
  rw [hs, hini, units_flatten]
  exact ⟨rfl, rfl⟩

theorem count_exit_teardown (f : Faults) (id : Nat) (hf : f (.enter id) = false) : ∀ (ini : List Ev),
    List.count (.exit id) (teardown f ini) = List.count (.enter id) ini
  | [] => rfl
  | x :: ini => by
    have ih := count_exit_teardown f id hf ini
    have : teardown f (x :: ini) = teardown f ini ++ (teardownOf f x).reverse := by
      simp [teardown]
    rw [this, List.count_append, ih, List.count_cons]
    cases x <;> simp [teardownOf]
    case enter i =>
      by_cases h : i = id
      · subst h; simp [hf]
      · split <;> simp [h]

theorem not_enter_mem_teardown (f : Faults) (id : Nat) (ini : List Ev) : Ev.enter id ∉ teardown f ini := by
  simp only [teardown, List.mem_reverse, List.mem_flatMap, not_exists, not_and]
  intro x _ hx
  cases x <;> simp [teardownOf] at hx

theorem not_exit_mem_begin (id : Nat) (steps : List Step) : Ev.exit id ∉ steps.flatMap beginEvs := by
  simp only [List.mem_flatMap, not_exists, not_and]
  intro s _ hs
  obtain ⟨i, k, hd⟩ := s
  cases k <;> simp [beginEvs] at hs

theorem not_cm_mem_body (id : Nat) (ops : List Op) :
    Ev.enter id ∉ expectedBody ops ∧ Ev.exit id ∉ expectedBody ops := by
  constructor <;> intro h <;> obtain ⟨op, _, ho⟩ := mem_expectedBody h <;> cases op <;> simp [Op.ev] at ho

/-- every context manager that was entered is exited as often as it was entered -/
theorem count_exit_expectedTrace (steps : List Step) (f : Faults) (body : List Op) (id : Nat)
    (hf : f (.enter id) = false) :
    List.count (.exit id) (expectedTrace steps f body) = List.count (.enter id) (expectedTrace steps f body) := by
  unfold expectedTrace
  simp only [List.count_append, count_exit_teardown f id hf]
  have h1 : List.count (Ev.exit id) (expectedInit steps f) = 0 :=
    List.count_eq_zero.mpr (fun h => not_exit_mem_begin id steps (mem_uptoFirst h))
  have h2 : List.count (Ev.enter id) (teardown f (expectedInit steps f)) = 0 :=
    List.count_eq_zero.mpr (not_enter_mem_teardown f id _)
  rw [h1, h2]
  split
  · rw [List.count_eq_zero.mpr (not_cm_mem_body id body).1, List.count_eq_zero.mpr (not_cm_mem_body id body).2]
    omega
  · simp

/-- the begin callbacks, hence the whole expected log, do not depend on what the steps handle -/
theorem beginEvs_clear (steps : List Step) :
    (steps.map fun s => { s with handles := false }).flatMap beginEvs = steps.flatMap beginEvs := by
  induction steps with
  | nil => rfl
  | cons s rest ih =>
    simp only [List.map_cons, List.flatMap_cons, ih]
    congr 1

theorem expectedTrace_clear (steps : List Step) (f : Faults) (body : List Op) :
    expectedTrace (steps.map fun s => { s with handles := false }) f body = expectedTrace steps f body := by
  unfold expectedTrace expectedInit
  rw [beginEvs_clear]

end C13
