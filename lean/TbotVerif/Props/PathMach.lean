import TbotVerif.Props.PathOps
/-! C12 — the machine table of a case: `Machine.__eq__` on the objects that `buildMachines`
    creates is clone-equivalence of their indices. -/

namespace PathM

/-- what the construction sequence produces, element by element -/
def Built (specs : List MSpec) (ms : List Mach) : Prop :=
  ms.length = specs.length ∧ ∀ i s, specs[i]? = some s →
    match s with
    | MSpec.fresh c => ms.getD i default = ({ id := i, cls := c, orig := none } : Mach)
    | MSpec.clone k => k < i ∧ ms.getD i default = (ms.getD k default).clone i

theorem getD_append_left {α : Type} (l r : List α) (i : Nat) (d : α) (h : i < l.length) :
    (l ++ r).getD i d = l.getD i d := by
  simp [List.getD, List.getElem?_append_left h]

theorem getD_append_at {α : Type} (l : List α) (x : α) (d : α) :
    (l ++ [x]).getD l.length d = x := by
  simp [List.getD]

theorem built_snoc {done : List MSpec} {acc : List Mach} (hb : Built done acc) (s : MSpec) (m : Mach)
    (hm : match s with
      | MSpec.fresh c => m = ({ id := acc.length, cls := c, orig := none } : Mach)
      | MSpec.clone k => k < done.length ∧ m = (acc.getD k default).clone acc.length) :
    Built (done ++ [s]) (acc ++ [m]) := by
  obtain ⟨hlen, hel⟩ := hb
  refine ⟨by simp [hlen], ?_⟩
  intro i s' hs'
  by_cases hi : i < done.length
  · rw [List.getElem?_append_left hi] at hs'
    have := hel i s' hs'
    cases s' with
    | fresh c =>
      simp only at this ⊢
      rw [getD_append_left _ _ _ _ (by omega)]
      exact this
    | clone k =>
      simp only at this ⊢
      obtain ⟨hk, hm⟩ := this
      refine ⟨hk, ?_⟩
      rw [getD_append_left _ _ _ _ (by omega), getD_append_left _ _ _ _ (by omega)]
      exact hm
  · have hlt : i < (done ++ [s]).length := (List.getElem?_eq_some_iff.mp hs').1
    have hi' : i = done.length := by simp at hlt; omega
    subst hi'
    simp only [List.getElem?_append_right (Nat.le_refl _), Nat.sub_self, List.getElem?_cons_zero,
      Option.some.injEq] at hs'
    subst hs'
    have hget : (acc ++ [m]).getD done.length default = m := by
      rw [← hlen]; exact getD_append_at acc m default
    cases s with
    | fresh c =>
      simp only at hm ⊢
      rw [hget, hm, hlen]
    | clone k =>
      simp only at hm ⊢
      refine ⟨hm.1, ?_⟩
      rw [hget, getD_append_left _ _ _ _ (by omega), hm.2, hlen]

theorem built_aux : ∀ (specs done : List MSpec) (acc : List Mach), Built done acc →
    specsWf specs done.length = true → Built (done ++ specs) (buildMachines specs acc)
  | [], done, acc, hb, _ => by simpa [buildMachines] using hb
  | s :: t, done, acc, hb, hwf => by
    have hlen := hb.1
    cases s with
    | fresh c =>
      simp only [specsWf] at hwf
      have := built_snoc hb (.fresh c) { id := acc.length, cls := c, orig := none } rfl
      have ih := built_aux t (done ++ [.fresh c]) _ this (by simpa using hwf)
      simpa [buildMachines] using ih
    | clone k =>
      simp only [specsWf, Bool.and_eq_true, decide_eq_true_eq] at hwf
      have := built_snoc hb (.clone k) ((acc.getD k default).clone acc.length) ⟨hwf.1, rfl⟩
      have ih := built_aux t (done ++ [.clone k]) _ this (by simpa using hwf.2)
      simpa [buildMachines] using ih

theorem built (specs : List MSpec) (h : specsWf specs 0 = true) :
    Built specs (buildMachines specs []) := by
  have := built_aux specs [] [] ⟨rfl, by simp⟩ (by simpa using h)
  simpa using this

theorem built_id {specs : List MSpec} {ms : List Mach} (hb : Built specs ms) (i : Nat)
    (hi : i < specs.length) : (ms.getD i default).id = i := by
  have := hb.2 i specs[i] (by simp [hi])
  cases hs : specs[i] with
  | fresh c => rw [hs] at this; simp only at this; rw [this]
  | clone k => rw [hs] at this; simp only at this; rw [this.2]; rfl

/-- `_orig` of the i-th machine is the fresh machine its clone links lead to -/
theorem rootOf_eq_origId {specs : List MSpec} {ms : List Mach} (hb : Built specs ms) :
    ∀ (n i : Nat), i < n → i < specs.length → ∀ fuel, i < fuel →
      rootOf specs fuel i = (ms.getD i default).origId := by
  intro n
  induction n with
  | zero => intro i hi; omega
  | succ n ih =>
    intro i hin hi fuel hf
    obtain ⟨f, rfl⟩ : ∃ f, fuel = f + 1 := ⟨fuel - 1, by omega⟩
    have hs := hb.2 i specs[i] (by simp [hi])
    unfold rootOf
    cases hsi : specs[i] with
    | fresh c =>
      rw [hsi] at hs
      simp only at hs
      have : specs[i]? = some (.fresh c) := by simp [hi, hsi]
      rw [this, hs]
      rfl
    | clone k =>
      rw [hsi] at hs
      simp only at hs
      have : specs[i]? = some (.clone k) := by simp [hi, hsi]
      simp only [this]
      rw [ih k (by omega) (by omega) f (by omega), hs.2]
      simp [Mach.clone, Mach.origId]

/-- real `Machine.__eq__` on the built objects = clone-equivalence of the indices -/
theorem machEq_iff_cloneEq (specs : List MSpec) (hwf : specsWf specs 0 = true) (i j : Nat)
    (hi : i < specs.length) (hj : j < specs.length) :
    (machOf (buildMachines specs []) i).eq (machOf (buildMachines specs []) j)
      = cloneEq specs i j := by
  have hb := built specs hwf
  unfold Mach.eq cloneEq machOf
  rw [rootOf_eq_origId hb (i + 1) i (by omega) hi _ hi,
    rootOf_eq_origId hb (j + 1) j (by omega) hj _ hj]

theorem machOf_id (specs : List MSpec) (hwf : specsWf specs 0 = true) (i : Nat)
    (hi : i < specs.length) : (machOf (buildMachines specs []) i).id = i :=
  built_id (built specs hwf) i hi

/-- clone-equivalence is an equivalence relation … -/
theorem cloneEq_equivalence (specs : List MSpec) :
    (∀ i, cloneEq specs i i = true) ∧
    (∀ i j, cloneEq specs i j = cloneEq specs j i) ∧
    (∀ i j k, cloneEq specs i j = true → cloneEq specs j k = true → cloneEq specs i k = true) := by
  refine ⟨fun i => by simp [cloneEq], fun i j => ?_, fun i j k h1 h2 => ?_⟩
  · simp only [cloneEq]
    exact Bool.eq_iff_iff.mpr ⟨fun h => by simpa using (by simpa using h : _ = _).symm,
      fun h => by simpa using (by simpa using h : _ = _).symm⟩
  · simp only [cloneEq, beq_iff_eq] at *
    omega

/-- … that relates every clone to the machine it was cloned from … -/
theorem cloneEq_clone (specs : List MSpec) (hwf : specsWf specs 0 = true) (i k : Nat)
    (h : specs[i]? = some (.clone k)) : cloneEq specs i k = true := by
  have hb := built specs hwf
  have hi : i < specs.length := (List.getElem?_eq_some_iff.mp h).1
  have hk := (hb.2 i _ h).1
  unfold cloneEq
  rw [rootOf_eq_origId hb (i + 1) i (by omega) hi _ hi,
    rootOf_eq_origId hb (k + 1) k (by omega) (by omega) _ (by omega)]
  have := (hb.2 i _ h).2
  rw [this]
  simp [Mach.clone, Mach.origId]

/-- … and keeps distinct fresh instances apart (also of the same class) -/
theorem cloneEq_fresh (specs : List MSpec) (i j : Nat) (ci cj : Nat)
    (hi : specs[i]? = some (.fresh ci)) (hj : specs[j]? = some (.fresh cj))
    (h : cloneEq specs i j = true) : i = j := by
  have h1 : i < specs.length := (List.getElem?_eq_some_iff.mp hi).1
  obtain ⟨f, hf⟩ : ∃ f, specs.length = f + 1 := ⟨specs.length - 1, by omega⟩
  simpa [cloneEq, hf, rootOf, hi, hj] using h

end PathM
