import TbotVerif.Props.BoardMon
/-! C18 — the simulation, continued: waits (`read_until_prompt`, `expect`) and writes at the
    level of the bring-up state, with what the monitor knows afterwards. -/

namespace Board
open Chan Spec C06

/-! ### one transport write -/

theorem writeLoop_nil (f : Nat) (s : St) : writeLoop f [] s = s := by
  cases f <;> rfl

theorem write_one (buf : Bytes) (ign : Bool) (s : St) (hne : buf ≠ [])
    (hacc : s.accept = []) (hslow : s.slowDelay = none) (hbl : ign = true ∨ forbidden s.blacklist buf = false) :
    Chan.write buf ign s = (.ok (), { s with writes := s.writes ++ [(buf, buf.length)] }) := by
  cases buf with
  | nil => exact absurd rfl hne
  | cons b t =>
    have hcond : (!ign && forbidden s.blacklist (b :: t)) = false := by
      rcases hbl with h | h <;> simp [h]
    unfold Chan.write
    rw [hcond]
    simp only [Bool.false_eq_true, if_false, List.length_cons]
    unfold writeLoop
    simp only [hslow, ioWrite, hacc, List.length_cons]
    congr 1
    cases s
    simp_all [writeLoop_nil]

theorem send_one (buf : Bytes) (ign : Bool) (s : St) (hne : buf ≠ []) (hlen : buf.length ≤ s.slice)
    (hacc : s.accept = []) (hslow : s.slowDelay = none) (hbl : ign = true ∨ forbidden s.blacklist buf = false) :
    send buf false none ign s = (.ok (), { s with writes := s.writes ++ [(buf, buf.length)] }) := by
  cases buf with
  | nil => exact absurd rfl hne
  | cons b t =>
    have hcond : (!ign && forbidden s.blacklist (b :: t)) = false := by
      rcases hbl with h | h <;> simp [h]
    unfold send
    simp only [List.isEmpty_cons, Bool.false_eq_true, if_false, hcond, List.length_cons]
    unfold sendLoop
    have htake : (b :: t).take s.slice = b :: t := List.take_of_length_le hlen
    have hdrop : (b :: t).drop s.slice = [] := List.drop_of_length_le hlen
    simp only [htake, hdrop, write_one (b :: t) ign s (by simp) hacc hslow hbl, Bool.false_eq_true, if_false]
    unfold sendLoop
    rfl

theorem sendcontrol_one (s : St) (hacc : s.accept = []) (hslow : s.slowDelay = none) :
    sendcontrol 3 s = (.ok (), { s with writes := s.writes ++ [([3], 1)] }) := by
  unfold sendcontrol
  simp only [show (3 : Nat) ≤ 0x1F by decide, if_true]
  exact write_one [3] true s (by simp) hacc hslow (Or.inl rfl)

/-! ### the console keeps the script well-formed -/

theorem insertPiece_mem (p q : Piece) : ∀ sc : List Piece, q ∈ insertPiece p sc → q = p ∨ q ∈ sc := by
  intro sc
  induction sc with
  | nil => intro h; simp [insertPiece] at h; exact Or.inl h
  | cons x xs ih =>
    intro h
    unfold insertPiece at h
    split at h
    · rcases List.mem_cons.mp h with h | h
      · exact Or.inr (h ▸ List.mem_cons_self ..)
      · rcases ih h with h | h
        · exact Or.inl h
        · exact Or.inr (List.mem_cons_of_mem _ h)
    · rcases List.mem_cons.mp h with h | h
      · exact Or.inl h
      · exact Or.inr h

theorem insertAll_mem (q : Piece) : ∀ (ps sc : List Piece), q ∈ insertAll ps sc → q ∈ ps ∨ q ∈ sc := by
  intro ps
  induction ps with
  | nil => intro sc h; exact Or.inr h
  | cons p ps ih =>
    intro sc h
    rcases ih (insertPiece p sc) h with h | h
    · exact Or.inl (List.mem_cons_of_mem _ h)
    · rcases insertPiece_mem p q sc h with h | h
      · exact Or.inl (h ▸ List.mem_cons_self ..)
      · exact Or.inr h

theorem stamp_mem (q : Piece) : ∀ (out : Out) (now : Nat), q ∈ stamp now out → ∃ p ∈ out, q.data = p.2 := by
  intro out
  induction out with
  | nil => intro now h; simp [stamp] at h
  | cons p ps ih =>
    intro now h
    obtain ⟨dt, d⟩ := p
    simp only [stamp, List.mem_cons] at h
    rcases h with h | h
    · exact ⟨(dt, d), List.mem_cons_self .., by rw [h]⟩
    · obtain ⟨p', hp', hq⟩ := ih _ h
      exact ⟨p', List.mem_cons_of_mem _ hp', hq⟩

theorem react_ok (now : Nat) (w : Bytes) (sc : List Piece) (con : List Stage)
    (hwf : ∀ q ∈ sc, q.data ≠ []) (hcon : ConOk con) :
    (∀ q ∈ (react now w (sc, con)).1, q.data ≠ []) ∧ ConOk (react now w (sc, con)).2 := by
  unfold react
  cases con with
  | nil => exact ⟨hwf, hcon⟩
  | cons st rest =>
    simp only
    split
    · refine ⟨fun q hq => ?_, fun s hs => hcon s (List.mem_cons_of_mem _ hs)⟩
      rcases insertAll_mem q _ _ hq with h | h
      · obtain ⟨p, hp, hd⟩ := stamp_mem q _ _ h
        rw [hd]; exact hcon st (List.mem_cons_self ..) p hp
      · exact hwf q h
    · exact ⟨hwf, hcon⟩

/-- what a writing primitive leaves alone -/
structure WrSim (b b' : BS) : Prop where
  now : b'.st.now = b.st.now
  ubLog : b'.ubLog = b.ubLog
  lnxLog : b'.lnxLog = b.lnxLog
  prompt : b'.st.prompt = b.st.prompt
  blacklist : b'.st.blacklist = b.st.blacklist
  streams : b'.st.streams = b.st.streams

/-- a channel method that makes exactly one transport write: the console reacts, the monitor
    makes the step the write calls for -/
theorem sim_wr (c : Board.Case) (b : BS) (m : Mon) (hinv : Inv c b m) (op : St → Res Unit) (buf : Bytes)
    (hop : op { b.st with writes := [] } = (.ok (), { b.st with writes := [(buf, buf.length)] }))
    (m' : Mon) (hstep : step c m (.wr b.st.now buf) = some m') (hul : m'.ulog = m.ulog) (hll : m'.llog = m.llog) :
    (wr op b).1 = .ok () ∧ Inv c (wr op b).2 m' ∧ WrSim b (wr op b).2 := by
  have hw : wr op b = (.ok (), { b with
      st := { b.st with writes := [(buf, buf.length)], script := (react b.st.now buf (b.st.script, b.con)).1 },
      con := (react b.st.now buf (b.st.script, b.con)).2, evs := b.evs ++ [.wr b.st.now buf] }) := by
    unfold wr
    simp only [hop, List.map_cons, List.map_nil, List.foldl_cons, List.foldl_nil]
  rw [hw]
  obtain ⟨h1, h2⟩ := react_ok b.st.now buf b.st.script b.con hinv.calm.wf hinv.con
  refine ⟨rfl, ⟨?_, ⟨h1, hinv.calm.chunk, hinv.calm.deaths, hinv.calm.lp⟩, hinv.accept, hinv.slow, hinv.slice, h2, ?_, ?_⟩,
    ⟨rfl, rfl, rfl, rfl, rfl, rfl⟩⟩
  · show steps c {} (b.evs ++ [.wr b.st.now buf]) = some m'
    rw [steps_append, hinv.mon]
    simp only [Option.bind, steps, hstep]
  · rw [hul]; exact hinv.ulog
  · rw [hll]; exact hinv.llog

/-! ### waits -/

/-- what the monitor knows after a wait -/
structure WaitSim (b : BS) (m : Mon) (t : Option Nat) (r : Option Exc) (b' : BS) (m' : Mon) : Prop where
  sim : RdSim b m b' m'
  dead : ∀ T, t = some T → b'.st.now ≤ b.st.now + T
  ok : r = none → m'.hit = some b'.st.now
  bad : ∀ e, r = some e → m'.hit = none
        ∧ ((e = .timeout ∧ ∃ T, t = some T ∧ b'.st.now = b.st.now + T) ∨ (e = .hang ∧ t = none))

theorem waitSim_of {α : Type} (op : St → Res α) (c : Board.Case) (b : BS) (m : Mon) (hinv : Inv c b m)
    (hread : reading m.ph = true) (hlast : m.lastT = b.st.now) (hstreams : b.st.streams = streamsOf m.ph)
    (hacc : m.acc = []) (hhit : m.hit = none) (t : Option Nat) (recs : List ReadRec)
    (hw : WaitOut (awaited c m.ph) t b.st.now [] { b.st with reads := [] } (op { b.st with reads := [] }).2
      (errOf (op { b.st with reads := [] }).1) recs) :
    ∃ m', Inv c (rd op b).2 m' ∧ WaitSim b m t (errOf (rd op b).1) (rd op b).2 m' := by
  obtain ⟨hinv', hsim, hst⟩ := sim_rd op c b m hinv hread hlast hstreams t b.st.now recs hw.rd
  refine ⟨_, hinv', hsim, ?_, ?_, ?_⟩
  · intro T hT
    rw [hst]
    exact hw.rd.dead T hT (Nat.le_add_right _ _)
  · intro hr
    have hr' : errOf (op { b.st with reads := [] }).1 = none := hr
    obtain ⟨hhits, hall⟩ := hw.ok hr'
    rw [rdAll_eq, hst]
    simp only [hacc, hhit]
    rw [hitOf_end _ recs [] m.lastT hhits hall, hlast]
    exact congrArg some hw.rd.last
  · intro e he
    have he' : errOf (op { b.st with reads := [] }).1 = some e := he
    obtain ⟨hnever, hk⟩ := hw.bad e he'
    refine ⟨?_, ?_⟩
    · rw [rdAll_eq]
      simp only [hacc, hhit]
      exact hitOf_never _ recs [] hnever
    · rw [hst]
      rcases hk with ⟨h1, T, hT, hle⟩ | ⟨h1, h2⟩
      · refine Or.inl ⟨h1, T, hT, ?_⟩
        have := hw.rd.dead T hT (Nat.le_add_right _ _)
        exact Nat.le_antisymm this hle
      · exact Or.inr ⟨h1, h2⟩

/-- `read_until_prompt` in a phase that waits for `P` -/
theorem sim_rup (c : Board.Case) (b : BS) (m : Mon) (hinv : Inv c b m) (p : Option Pat) (t : Option Nat) (P : Pat)
    (hP : effPrompt p b.st.prompt = some P)
    (hread : reading m.ph = true) (haw : awaited c m.ph = fun buf => (promptEnd P buf).isSome)
    (hlast : m.lastT = b.st.now) (hstreams : b.st.streams = streamsOf m.ph)
    (hacc : m.acc = []) (hhit : m.hit = none) :
    ∃ m', Inv c (rd (readUntilPrompt p t) b).2 m'
      ∧ WaitSim b m t (errOf (rd (readUntilPrompt p t) b).1) (rd (readUntilPrompt p t) b).2 m' := by
  obtain ⟨recs, hw⟩ := rup_out p t { b.st with reads := [] } hinv.calm.cutReads P hP
  rw [← haw] at hw
  exact waitSim_of _ c b m hinv hread hlast hstreams hacc hhit t recs hw

/-- `expect` in a phase that waits for one of `pats` -/
theorem sim_expect (c : Board.Case) (b : BS) (m : Mon) (hinv : Inv c b m) (pats : List Pat) (t : Option Nat)
    (hread : reading m.ph = true) (haw : awaited c m.ph = fun buf => (firstMatch buf 0 pats).isSome)
    (hlast : m.lastT = b.st.now) (hstreams : b.st.streams = streamsOf m.ph)
    (hacc : m.acc = []) (hhit : m.hit = none) :
    ∃ m', Inv c (rd (expect pats t) b).2 m'
      ∧ WaitSim b m t (errOf (rd (expect pats t) b).1) (rd (expect pats t) b).2 m' := by
  obtain ⟨recs, hw⟩ := expect_out pats t { b.st with reads := [] } hinv.calm.cutReads
  rw [← haw] at hw
  exact waitSim_of _ c b m hinv hread hlast hstreams hacc hhit t recs hw

end Board
