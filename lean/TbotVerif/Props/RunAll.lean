import TbotVerif.Props.RunTerm
/-! C10 — every call of the test body keeps the proxy model and the reference in step; so does
    the whole body. -/

namespace Run
open Chan Spec

theorem beq_unit : ((TRes.unit : TRes) == .unit) = true := by decide
theorem beq_err (t : Tag) : ((TRes.err t : TRes) == .err t) = true := beq_self_eq_true _

/-- a read-type call, in any phase -/
theorem io_sim (c : Case) (p : PSt) (r : Ref) (h : Sim c p r) (op : Op) (t : Option Nat)
    (hop : opTimeout op = some t) (sizes : List Nat) (val : TRes → Bytes → Bool)
    (hverr : ∀ tag buf, val (.err tag) buf = false)
    (hval : t ≠ some 0 → ∀ r1 : RunSt, C03.Good r1.st → Z r1.st → r1.st.prompt = some (.lit (prompt c)) →
      ReadRes val (obsOp op r1).1) :
    match (if r.phase != .running then
        (if t == some 0 then V.outside
         else if (proxyIO op sizes [] p).1.res == .err .ended && (proxyIO op sizes [] p).1.pieces.isEmpty then .ok r else .bad)
      else r.reading (prompt c) t (proxyIO op sizes [] p).1 val) with
    | .ok r' => Sim c (proxyIO op sizes [] p).2 r'
    | .bad => False
    | _ => True := by
  by_cases hph' : ¬ r.phase = .running
  · rw [phase_bne hph']
    simp only [if_true]
    cases ht : (t == some 0) with
    | true => simp
    | false =>
      rw [io_ended c p r h hph' op sizes (zeroTimeout_none op t hop ht)]
      simp only [Bool.false_eq_true, if_false, beq_err, List.isEmpty_nil, Bool.and_self, if_true]
      exact h
  · have hph : r.phase = .running := Decidable.not_not.mp hph'
    rw [phase_beq hph]
    simp only [Bool.false_eq_true, if_false]
    exact reading_sim c p r h hph op t hop sizes val hverr hval

/-- **one call of the test body** -/
theorem step_sim (c : Case) (op : TOp) (sizes : List Nat) (p : PSt) (r : Ref) (h : Sim c p r) :
    match Ref.step (prompt c) (blacklist c) op (step op sizes p).1 r with
    | .ok r' => Sim c (step op sizes p).2 r'
    | .bad => False
    | _ => True := by
  cases op with
  | send b rb => exact send_sim c p r h b rb sizes
  | sendline b rb => exact send_sim c p r h (b ++ [Tty.CR]) rb sizes
  | sendcontrol n => exact sendcontrol_sim c p r h n sizes
  | expect ps t =>
    exact io_sim c p r h (.expect ps t) t rfl sizes (Ref.valExpect ps) (fun _ _ => rfl)
      (fun _ r1 hg _ _ => expect_res r1 ps t hg)
  | rup q t =>
    exact io_sim c p r h (.rup q t) t rfl sizes (Ref.valRup (effPrompt q (some (.lit (prompt c)))))
      (fun _ _ => by simp [Ref.valRup])
      (fun _ r1 hg _ hprm => by have := rup_res r1 q t hg; rw [hprm] at this; exact this)
  | rut t =>
    exact io_sim c p r h (.rut t) t rfl sizes (Ref.valRut t) (fun _ _ => rfl)
      (fun ht r1 hg hz _ => rut_res r1 t hg hz ht)
  | raise =>
    simp only [Ref.step, step, beq_unit, List.isEmpty_nil, Bool.and_self, if_true]
    exact h
  | wait =>
    simp only [Ref.step, step, beq_unit, List.isEmpty_nil, Bool.and_self, if_true]
    exact h
  | probe k =>
    simp only [Ref.step, step, h.own, probe_own k]
    simp only [ownTag, beq_err, List.isEmpty_nil, Bool.and_self, if_true]
    exact ⟨h.rem, h.ps1, h.good, h.pend, h.bl, h.prm, rfl, h.running, h.ended, h.terminated⟩
  | terminate =>
    simp only [Ref.step, step]
    unfold Ref.term
    cases hp : r.phase with
    | terminated =>
      obtain ⟨ha, _, _⟩ := h.terminated hp
      have : terminate sizes p = (.error .assertion, [], p) := by
        unfold terminate; simp [ha]
      rw [this]
      simp only [beq_err, List.isEmpty_nil, Bool.and_self, if_true]
      exact h
    | running =>
      simp only
      cases hst : r.rem.status with
      | none => simp
      | some st =>
        simp only
        by_cases h256 : 256 ≤ st
        · simp [h256]
        · rw [if_neg h256]
          obtain ⟨used, p', hterm, hsum, hsuf, hsim⟩ := terminate_live c p r h (by rw [hp]; simp) st hst (by omega) sizes
          rw [hp] at hterm hsum hsim
          simp only [show (Phase.running = Phase.ended) = False by simp, if_false] at hterm hsum hsim
          rw [hterm]
          have hsx : (prompt c).isSuffixOf r.pend = true := List.isSuffixOf_iff_suffix.mpr (hsuf hp)
          have hb1 : ((Phase.running : Phase) == .ended) = false := by decide
          have hb2 : ((Phase.running : Phase) == .running) = true := by decide
          simp only [hb1, hb2, Bool.false_and, Bool.false_eq_true, if_false, hsum, beq_self_eq_true, hsx, Bool.and_self,
            if_true]
          exact hsim
    | ended =>
      simp only
      obtain ⟨_, _, _, _, _, hpend0, _⟩ := h.ended hp
      cases hst : r.rem.status with
      | none => simp
      | some st =>
        simp only
        by_cases h256 : 256 ≤ st
        · simp [h256]
        · rw [if_neg h256]
          obtain ⟨used, p', hterm, hsum, _, hsim⟩ := terminate_live c p r h (by rw [hp]; simp) st hst (by omega) sizes
          rw [hp] at hterm hsum hsim
          simp only [if_true] at hterm hsum hsim
          rw [hterm]
          have hsx : (prompt c).isSuffixOf ([] : Bytes) = false := by
            rw [Bool.eq_false_iff]
            intro hh
            exact prompt_ne c (List.suffix_nil.mp (List.isSuffixOf_iff_suffix.mp hh))
          have hb1 : ((Phase.ended : Phase) == .ended) = true := by decide
          have hb2 : ((Phase.ended : Phase) == .running) = false := by decide
          simp only [hb1, hb2, hpend0, List.isEmpty_nil, Bool.not_true, Bool.and_false, Bool.false_eq_true, if_false,
            if_true, hsum, beq_self_eq_true, hsx, Bool.and_self]
          exact hsim
  | terminate0 =>
    simp only [Ref.step, step]
    unfold Ref.term
    cases hp : r.phase with
    | terminated =>
      obtain ⟨ha, _, _⟩ := h.terminated hp
      have : terminate sizes p = (.error .assertion, [], p) := by
        unfold terminate; simp [ha]
      rw [this]
      simp only [beq_err, List.isEmpty_nil, Bool.and_self, if_true]
      exact h
    | running =>
      simp only
      cases hst : r.rem.status with
      | none => simp
      | some st =>
        simp only
        by_cases h256 : 256 ≤ st
        · simp [h256]
        · rw [if_neg h256]
          obtain ⟨used, p', hterm, hsum, hsuf, hsim⟩ := terminate_live c p r h (by rw [hp]; simp) st hst (by omega) sizes
          rw [hp] at hterm hsum hsim
          simp only [show (Phase.running = Phase.ended) = False by simp, if_false] at hterm hsum hsim
          rw [hterm]
          have hsx : (prompt c).isSuffixOf r.pend = true := List.isSuffixOf_iff_suffix.mpr (hsuf hp)
          have hb1 : ((Phase.running : Phase) == .ended) = false := by decide
          have hb2 : ((Phase.running : Phase) == .running) = true := by decide
          simp only [hb1, hb2, Bool.false_and, Bool.false_eq_true, if_false, hsum, beq_self_eq_true, hsx, Bool.and_self,
            if_true]
          exact hsim
    | ended =>
      simp only
      obtain ⟨_, _, _, _, _, hpend0, _⟩ := h.ended hp
      cases hst : r.rem.status with
      | none => simp
      | some st =>
        simp only
        by_cases h256 : 256 ≤ st
        · simp [h256]
        · rw [if_neg h256]
          obtain ⟨used, p', hterm, hsum, _, hsim⟩ := terminate_live c p r h (by rw [hp]; simp) st hst (by omega) sizes
          rw [hp] at hterm hsum hsim
          simp only [if_true] at hterm hsum hsim
          rw [hterm]
          have hsx : (prompt c).isSuffixOf ([] : Bytes) = false := by
            rw [Bool.eq_false_iff]
            intro hh
            exact prompt_ne c (List.suffix_nil.mp (List.isSuffixOf_iff_suffix.mp hh))
          have hb1 : ((Phase.ended : Phase) == .ended) = true := by decide
          have hb2 : ((Phase.ended : Phase) == .running) = false := by decide
          simp only [hb1, hb2, hpend0, List.isEmpty_nil, Bool.not_true, Bool.and_false, Bool.false_eq_true, if_false,
            if_true, hsum, beq_self_eq_true, hsx, Bool.and_self]
          exact hsim

end Run
