import TbotVerif.Props.C02Extra
import TbotVerif.Props.C03Write
import TbotVerif.Props.C04
import TbotVerif.Props.Tty
/-! Liveness of the channel operations the shell drivers use, on a *quiet* channel (no death
    strings, whole writes accepted, no slow-send): `read(n)` returns exactly the next `n` bytes of
    the stream however it is fragmented, `send(read_back=True)` consumes exactly the tty's echo,
    `read_until_prompt` and `expect` stop where they should.  The safety halves are C02/C03/C04;
    here the calls are shown to SUCCEED, and what is left of the stream is stated. -/

namespace EnvChan
open Chan

/-- nothing that could interfere with plain request/response traffic -/
structure Quiet (s : St) : Prop where
  deaths : s.deaths = []
  accept : s.accept = []
  slow : s.slowDelay = none
  chunk : 0 < s.chunk
  slice : 0 < s.slice
  wf : WF s

/-- the configuration a call leaves alone -/
structure Same (s s' : St) : Prop where
  chunk : s'.chunk = s.chunk
  slice : s'.slice = s.slice
  prompt : s'.prompt = s.prompt
  blacklist : s'.blacklist = s.blacklist
  accept : s'.accept = s.accept
  slow : s'.slowDelay = s.slowDelay
  deaths : s'.deaths = s.deaths

theorem Same.refl (s : St) : Same s s := by constructor <;> rfl

theorem Same.trans {a b c : St} (h1 : Same a b) (h2 : Same b c) : Same a c := by
  constructor
  · rw [h2.chunk, h1.chunk]
  · rw [h2.slice, h1.slice]
  · rw [h2.prompt, h1.prompt]
  · rw [h2.blacklist, h1.blacklist]
  · rw [h2.accept, h1.accept]
  · rw [h2.slow, h1.slow]
  · rw [h2.deaths, h1.deaths]

theorem Same.ofRead {s s' : St} {recs : List ReadRec} (h : ReadFrame s s' recs) (hd : s'.deaths = s.deaths) :
    Same s s' :=
  ⟨h.chunk, h.slice, h.prompt, h.blacklist, h.accept, h.slowDelay, hd⟩

theorem Quiet.of_same {s s' : St} (hq : Quiet s) (h : Same s s') (hwf : WF s') : Quiet s' :=
  ⟨by rw [h.deaths, hq.deaths], by rw [h.accept, hq.accept], by rw [h.slow, hq.slow],
   by rw [h.chunk]; exact hq.chunk, by rw [h.slice]; exact hq.slice, hwf⟩

/-! ### one resumption of `read_iter` -/

/-- on a non-empty script, without a timeout and without death strings, `read_iter` yields the
    head of the next piece (cut to the request size) -/
theorem riNext_step (ri : RI) (s : St) (hq : Quiet s) (hne : s.script ≠ []) (ht : ri.timeout = none)
    (hnd : (ri.started && ri.max == some ri.got) = false) (hm : 0 < ri.maxRead s.chunk) :
    ∃ b s2, riNext ri s = (.chunk b, { ri with got := ri.got + b.length, started := true }, s2)
      ∧ b ≠ [] ∧ b.length ≤ ri.maxRead s.chunk ∧ b ++ flat s2.script = flat s.script
      ∧ Same s s2 ∧ WF s2 := by
  obtain ⟨pc, ps, hs⟩ : ∃ pc ps, s.script = pc :: ps := by
    cases h : s.script with
    | nil => exact absurd h hne
    | cons pc ps => exact ⟨pc, ps, rfl⟩
  have hrem : remaining ri.timeout ri.t0 s.now = some none := by rw [ht]; rfl
  obtain ⟨b, s1, hio, _⟩ := C02.ioRead_ok (ri.maxRead s.chunk) none s pc ps hs (Or.inl rfl)
  obtain ⟨rec, hspec⟩ := ioRead_spec (ri.maxRead s.chunk) none s
  rw [hio] at hspec
  have hok := hspec.ok b rfl
  have hbne : b ≠ [] := hok.2.2 hq.wf hm
  have hside := writeStream_side b s1
  have hd2 : (writeStream b s1).deaths = [] := by
    rw [C02.writeStream_deaths', hspec.deaths, hq.deaths]
  have hflat : b ++ flat s1.script = flat s.script := by
    have := hspec.frame.flat
    rw [dataOf_cons_some _ _ _ hok.1] at this
    simpa using this
  refine ⟨b, writeStream b s1, ?_, hbne, hok.2.1, ?_, ?_, ?_⟩
  · unfold riNext
    rw [hnd]
    simp only [Bool.false_eq_true, if_false, hrem, hio, C02.check_nil b _ hd2]
  · rw [hside.script]; exact hflat
  · exact ⟨by rw [hside.chunk, hspec.frame.chunk], by rw [hside.slice, hspec.frame.slice],
      by rw [hside.prompt, hspec.frame.prompt], by rw [hside.blacklist, hspec.frame.blacklist],
      by rw [hside.accept, hspec.frame.accept], by rw [hside.slowDelay, hspec.frame.slowDelay],
      by rw [hd2, hq.deaths]⟩
  · have := hspec.frame.wf hq.wf
    unfold WF at *
    rw [hside.script]; exact this

theorem script_ne_of_flat {s : St} (h : flat s.script ≠ []) : s.script ≠ [] := by
  intro hs; rw [hs] at h; exact h rfl

/-! ### `read(n)` -/

/-- the loop behind `read(n)`: it stops exactly when `n` bytes have been collected -/
theorem riTake_exact : ∀ (f : Nat) (ri : RI) (s : St) (acc : List Bytes) (n : Nat),
    Quiet s → ri.timeout = none → ri.max = some n → ri.got ≤ n → (ri.started = false → ri.got < n) →
    n - ri.got ≤ (flat s.script).length → bytesLeft s + 2 ≤ f →
    ∃ cs s', riTake f none ri s acc = ((acc ++ cs, none), s')
      ∧ cs.flatten = (flat s.script).take (n - ri.got)
      ∧ flat s'.script = (flat s.script).drop (n - ri.got) ∧ Same s s' ∧ WF s' := by
  intro f
  induction f with
  | zero => intro ri s acc n _ _ _ _ _ _ hf; omega
  | succ f ih =>
    intro ri s acc n hq ht hmax hle hst hlen hf
    unfold riTake
    simp only [reduceCtorEq, if_false]
    by_cases hdone : ri.got = n
    · -- all collected: the generator is exhausted
      have hstarted : ri.started = true := by
        cases h : ri.started with
        | true => rfl
        | false => have := hst h; omega
      have : riNext ri s = (.done, ri, s) := by
        unfold riNext
        simp [hstarted, hmax, hdone]
      rw [this]
      refine ⟨[], s, by simp, ?_, ?_, Same.refl s, hq.wf⟩
      · simp [hdone]
      · simp [hdone]
    · have hlt : ri.got < n := by omega
      have hnd : (ri.started && ri.max == some ri.got) = false := by
        rw [hmax]
        have : (some n == some ri.got) = false := by simp; omega
        simp [this]
      have hmr : ri.maxRead s.chunk = min s.chunk (n - ri.got) := by unfold RI.maxRead; rw [hmax]
      have hm : 0 < ri.maxRead s.chunk := by rw [hmr]; have := hq.chunk; omega
      have hne : s.script ≠ [] := by
        apply script_ne_of_flat
        intro h; rw [h] at hlen; simp at hlen; omega
      obtain ⟨b, s2, hnext, hbne, hble, hflat, hsame, hwf2⟩ := riNext_step ri s hq hne ht hnd hm
      rw [hnext]
      simp only [Option.map_none]
      have hblen : 0 < b.length := List.length_pos_iff.mpr hbne
      have hb2 : b.length ≤ n - ri.got := by rw [hmr] at hble; omega
      have hq2 : Quiet s2 := hq.of_same hsame hwf2
      have hlen2 : (flat s2.script).length + b.length = (flat s.script).length := by
        have := congrArg List.length hflat
        simp only [List.length_append] at this; omega
      have hbytes : bytesLeft s2 + 2 ≤ f := by
        rw [bytesLeft_eq] at hf ⊢; omega
      obtain ⟨cs, s', hrun, hcs, hrest, hsame', hwf'⟩ :=
        ih { ri with got := ri.got + b.length, started := true } s2 (acc ++ [b]) n hq2 ht hmax
          (by simp only; omega) (by intro h; simp at h) (by simp only; omega) hbytes
      refine ⟨b :: cs, s', ?_, ?_, ?_, hsame.trans hsame', hwf'⟩
      · rw [hrun]; simp
      · simp only [List.flatten_cons, hcs]
        rw [← hflat]
        have : n - ri.got = b.length + (n - (ri.got + b.length)) := by omega
        rw [this, List.take_length_add_append]
      · rw [hrest, ← hflat]
        have : n - ri.got = b.length + (n - (ri.got + b.length)) := by omega
        rw [this, List.drop_length_add_append]

/-- **`read(n)` is exact and always succeeds** when at least `n ≥ 1` bytes are under way: it
    returns the next `n` bytes of the stream, whatever the fragmentation and the chunk size -/
theorem read_exact (n : Nat) (s : St) (hq : Quiet s) (hn : 0 < n) (hlen : n ≤ (flat s.script).length) :
    ∃ s', Chan.read (some n) none s = (.ok ((flat s.script).take n), s')
      ∧ flat s'.script = (flat s.script).drop n ∧ Same s s' ∧ WF s' := by
  obtain ⟨cs, s', hrun, hcs, hrest, hsame, hwf⟩ :=
    riTake_exact (fuelFor s) (riStart (some n) none s) s [] n hq rfl rfl (by simp [riStart])
      (by intro _; simpa [riStart] using hn) (by simpa [riStart] using hlen) (by unfold fuelFor; omega)
  simp only [riStart, Nat.sub_zero, List.nil_append] at hrun hcs hrest
  refine ⟨s', ?_, hrest, hsame, hwf⟩
  unfold Chan.read
  simp only [riStart]
  rw [hrun]
  have hl : ((flat s.script).take n).length = n := by rw [List.length_take]; omega
  simp only [hcs, hl, beq_self_eq_true, if_true]

/-! ### writing -/

theorem writeLoop_all (buf : Bytes) (s : St) (ha : s.accept = []) (hs : s.slowDelay = none) (f : Nat) (hf : 0 < f) :
    ∃ s', writeLoop f buf s = s' ∧ s'.script = s.script ∧ Same s s' := by
  cases f with
  | zero => omega
  | succ f =>
    cases buf with
    | nil => exact ⟨s, by simp [writeLoop], rfl, Same.refl s⟩
    | cons b t =>
      refine ⟨_, rfl, ?_, ?_⟩
      · unfold writeLoop
        simp only [hs, ioWrite, ha, List.drop_length]
        cases f <;> simp [writeLoop]
      · unfold writeLoop
        simp only [hs, ioWrite, ha, List.drop_length]
        cases f <;> (simp only [writeLoop]; constructor <;> first | rfl | exact hs.symm | simp [ha])

/-- `Channel.write` of a non-empty, not black-listed buffer: everything is written at once -/
theorem write_ok (buf : Bytes) (s : St) (hq : Quiet s) (hne : buf ≠ []) (hf : forbidden s.blacklist buf = false) :
    ∃ s', write buf false s = (.ok (), s') ∧ s'.script = s.script ∧ Same s s' := by
  have hlen : 0 < buf.length := List.length_pos_iff.mpr hne
  obtain ⟨s', hw, hsc, hsame⟩ := writeLoop_all buf s hq.accept hq.slow buf.length hlen
  refine ⟨s', ?_, hsc, hsame⟩
  unfold write
  simp [hf, hw]

theorem forbidden_take_false (bl : List Byte) (buf : Bytes) (n : Nat) (h : forbidden bl buf = false) :
    forbidden bl (buf.take n) = false := by
  cases hc : forbidden bl (buf.take n) with
  | false => rfl
  | true => rw [C03.forbidden_take bl buf n hc] at h; exact absurd h (by simp)

theorem forbidden_drop_false (bl : List Byte) (buf : Bytes) (n : Nat) (h : forbidden bl buf = false) :
    forbidden bl (buf.drop n) = false := by
  cases hc : forbidden bl (buf.drop n) with
  | false => rfl
  | true => rw [C03.forbidden_drop bl buf n hc] at h; exact absurd h (by simp)

theorem countNl_eq (b : Bytes) : b.length + countNl b = Tty.readBackLen b := by
  unfold countNl Tty.readBackLen Tty.CR Tty.LF; omega

/-- the slice loop of `send(read_back=True)` against a tty that echoes (ECHOCTL off): every slice
    is written and exactly its echo is consumed -/
theorem sendLoop_rb : ∀ (f : Nat) (buf : Bytes) (t0 : Nat) (s : St) (rest : Bytes),
    Quiet s → buf.length < f → forbidden s.blacklist buf = false →
    flat s.script = Tty.echo false buf ++ rest →
    ∃ s', sendLoop f buf true none false t0 s = (.ok (), s') ∧ flat s'.script = rest ∧ Same s s' ∧ WF s' := by
  intro f
  induction f with
  | zero => intro buf _ _ _ _ hf; omega
  | succ f ih =>
    intro buf t0 s rest hq hf hfb hflat
    cases buf with
    | nil =>
      refine ⟨s, by simp [sendLoop], ?_, Same.refl s, hq.wf⟩
      simpa [Tty.echo] using hflat
    | cons b t =>
      unfold sendLoop
      simp only
      have hcne : (b :: t).take s.slice ≠ [] := by
        have := hq.slice
        cases hsl : s.slice with
        | zero => omega
        | succ k => simp
      obtain ⟨s1, hw, hsc1, hsame1⟩ := write_ok _ s hq hcne (forbidden_take_false _ _ _ hfb)
      rw [hw]
      simp only [remaining]
      have hwf1 : WF s1 := by unfold WF; rw [hsc1]; exact hq.wf
      have hq1 : Quiet s1 := hq.of_same hsame1 hwf1
      have hsplit : Tty.echo false (b :: t) = Tty.echo false ((b :: t).take s.slice) ++ Tty.echo false ((b :: t).drop s.slice) := by
        rw [← Tty.echo_append, List.take_append_drop]
      have hflat1 : flat s1.script = Tty.echo false ((b :: t).take s.slice)
          ++ (Tty.echo false ((b :: t).drop s.slice) ++ rest) := by
        rw [hsc1, hflat, hsplit, List.append_assoc]
      have hn : ((b :: t).take s.slice).length + countNl ((b :: t).take s.slice)
          = (Tty.echo false ((b :: t).take s.slice)).length := by
        rw [countNl_eq, Tty.echo_length_noctl]
      have hpos : 0 < ((b :: t).take s.slice).length + countNl ((b :: t).take s.slice) := by
        have := List.length_pos_iff.mpr hcne; omega
      obtain ⟨s2, hrd, hrest2, hsame2, hwf2⟩ := read_exact _ s1 hq1 hpos
        (by rw [hflat1, hn]; simp)
      rw [hrd]
      simp only
      have hq2 : Quiet s2 := hq1.of_same hsame2 hwf2
      have hsl2 : s2.slice = s.slice := by rw [hsame2.slice, hsame1.slice]
      have hflat2 : flat s2.script = Tty.echo false ((b :: t).drop s.slice) ++ rest := by
        rw [hrest2, hflat1, hn, List.drop_left]
      have hbl2 : s2.blacklist = s.blacklist := by rw [hsame2.blacklist, hsame1.blacklist]
      rw [hsl2]
      obtain ⟨s', hrun, hfl', hsame', hwf'⟩ := ih ((b :: t).drop s.slice) t0 s2 rest hq2
        (by
          have := hq.slice
          simp only [List.length_drop, List.length_cons] at hf ⊢; omega)
        (by rw [hbl2]; exact forbidden_drop_false _ _ _ hfb) hflat2
      exact ⟨s', hrun, hfl', (hsame1.trans hsame2).trans hsame', hwf'⟩

/-- the slice loop of `send()` without read-back: nothing is read -/
theorem sendLoop_plain : ∀ (f : Nat) (buf : Bytes) (t0 : Nat) (s : St),
    Quiet s → buf.length < f → forbidden s.blacklist buf = false →
    ∃ s', sendLoop f buf false none false t0 s = (.ok (), s') ∧ s'.script = s.script ∧ Same s s' := by
  intro f
  induction f with
  | zero => intro buf _ _ _ hf; omega
  | succ f ih =>
    intro buf t0 s hq hf hfb
    cases buf with
    | nil => exact ⟨s, by simp [sendLoop], rfl, Same.refl s⟩
    | cons b t =>
      unfold sendLoop
      simp only
      have hcne : (b :: t).take s.slice ≠ [] := by
        have := hq.slice
        cases hsl : s.slice with
        | zero => omega
        | succ k => simp
      obtain ⟨s1, hw, hsc1, hsame1⟩ := write_ok _ s hq hcne (forbidden_take_false _ _ _ hfb)
      rw [hw]
      simp only [Bool.false_eq_true, if_false]
      have hwf1 : WF s1 := by unfold WF; rw [hsc1]; exact hq.wf
      have hq1 : Quiet s1 := hq.of_same hsame1 hwf1
      rw [hsame1.slice]
      obtain ⟨s', hrun, hsc', hsame'⟩ := ih ((b :: t).drop s.slice) t0 s1 hq1
        (by
          have := hq.slice
          simp only [List.length_drop, List.length_cons] at hf ⊢; omega)
        (by rw [hsame1.blacklist]; exact forbidden_drop_false _ _ _ hfb)
      exact ⟨s', hrun, by rw [hsc', hsc1], hsame1.trans hsame'⟩

/-- **`sendline(line, read_back=True)`** on a quiet channel whose stream starts with the tty's echo
    of the line: succeeds, and exactly the echo has been consumed -/
theorem sendline_rb (line : Bytes) (s : St) (rest : Bytes) (hq : Quiet s)
    (hfb : forbidden s.blacklist (line ++ [13]) = false)
    (hflat : flat s.script = Tty.echo false (line ++ [13]) ++ rest) :
    ∃ s', sendline line true none s = (.ok (), s') ∧ flat s'.script = rest ∧ Same s s' ∧ WF s' := by
  have he : (line ++ [13]).isEmpty = false := by cases line <;> rfl
  unfold sendline send
  simp only [he, hfb, Bool.false_eq_true, if_false, Bool.not_false, Bool.and_false]
  exact sendLoop_rb ((line ++ [13]).length + 1) (line ++ [13]) s.now s rest hq (Nat.lt_succ_self _) hfb hflat

/-- `sendline(line)` without read-back: succeeds and reads nothing -/
theorem sendline_plain (line : Bytes) (s : St) (hq : Quiet s)
    (hfb : forbidden s.blacklist (line ++ [13]) = false) :
    ∃ s', sendline line false none s = (.ok (), s') ∧ s'.script = s.script ∧ Same s s' := by
  have he : (line ++ [13]).isEmpty = false := by cases line <;> rfl
  unfold sendline send
  simp only [he, hfb, Bool.false_eq_true, if_false, Bool.not_false, Bool.and_false]
  exact sendLoop_plain ((line ++ [13]).length + 1) (line ++ [13]) s.now s hq (Nat.lt_succ_self _) hfb

/-- a line with a black-listed byte is refused before anything is written (F1) -/
theorem sendline_illegal (line : Bytes) (rb : Bool) (s : St) (hfb : forbidden s.blacklist (line ++ [13]) = true) :
    sendline line rb none s = (.error .illegal, s) := by
  have he : (line ++ [13]).isEmpty = false := by cases line <;> rfl
  unfold sendline send
  simp [he, hfb]

/-! ### death strings stay away -/

theorem riNext_deaths (ri : RI) (s : St) (hd : s.deaths = []) : (riNext ri s).2.2.deaths = [] := by
  have h := riNext_out ri s
  generalize (riNext ri s).1 = a at h
  generalize (riNext ri s).2.1 = b at h
  generalize (riNext ri s).2.2 = c at h
  cases h with
  | done => exact hd
  | expired => exact hd
  | ioErr rem rec s' e _ _ hio => rw [hio.deaths]; exact hd
  | chunk rem rec s1 b' _ _ hio _ =>
    have : (writeStream b' s1).deaths = [] := by rw [C02.writeStream_deaths', hio.deaths]; exact hd
    rw [C02.check_nil _ _ this]; exact this
  | death rem rec s1 b' x m _ _ hio _ =>
    have : (writeStream b' s1).deaths = [] := by rw [C02.writeStream_deaths', hio.deaths]; exact hd
    rw [C02.check_nil _ _ this]; exact this

theorem rupLoop_deaths : ∀ (f : Nat) (buf : Bytes) (ri : RI) (s : St), s.deaths = [] →
    (rupLoop f buf ri s).2.deaths = [] := by
  intro f
  induction f with
  | zero => intro buf ri s hd; exact hd
  | succ f ih =>
    intro buf ri s hd
    unfold rupLoop
    have hn := riNext_deaths ri s hd
    cases hr : riNext ri s with
    | mk st rest =>
      obtain ⟨ri', s'⟩ := rest
      rw [hr] at hn
      cases st with
      | done => exact hn
      | err e => exact hn
      | chunk b =>
        simp only
        cases hp : s'.prompt with
        | none => exact ih _ _ _ hn
        | some p =>
          simp only
          cases promptEnd p (buf ++ b) with
          | none => exact ih _ _ _ hn
          | some n => exact hn

theorem expectLoop_deaths : ∀ (f : Nat) (pats : List Pat) (buf : Bytes) (ri : RI) (s : St), s.deaths = [] →
    (expectLoop f pats buf ri s).2.deaths = [] := by
  intro f
  induction f with
  | zero => intro pats buf ri s hd; exact hd
  | succ f ih =>
    intro pats buf ri s hd
    unfold expectLoop
    have hn := riNext_deaths ri s hd
    cases hr : riNext ri s with
    | mk st rest =>
      obtain ⟨ri', s'⟩ := rest
      rw [hr] at hn
      cases st with
      | done => exact hn
      | err e => exact hn
      | chunk b =>
        simp only
        cases firstMatch (buf ++ b) 0 pats with
        | none => exact ih _ _ _ _ hn
        | some m => exact hn

/-! ### `read_until_prompt` -/

/-- the prompt `p` ends `w`, and no proper non-empty prefix of `w` ends with it -/
def OnlyAtEnd (p w : Bytes) : Prop :=
  p <:+ w ∧ ∀ k, 0 < k → k ≤ w.length → p <:+ w.take k → k = w.length

/-- **`read_until_prompt()`** on a quiet channel whose pending stream is `w`, which ends with the
    prompt and contains it nowhere else at a piece end: returns what precedes the prompt, for
    every fragmentation; the stream is used up -/
theorem rup_ok (p w : Bytes) (s : St) (hq : Quiet s) (hp : p ≠ []) (hpr : s.prompt = some (.lit p))
    (hflat : flat s.script = w) (hw : OnlyAtEnd p w) :
    ∃ s', readUntilPrompt none none s = (.ok (w.take (w.length - p.length), w), s')
      ∧ s'.script = [] ∧ Same s s' := by
  obtain ⟨h1, h2⟩ := C02.rup_fragmentation p w hp hw.1 hw.2 s hpr hq.deaths hq.wf hq.chunk hflat
  obtain ⟨recs, hfr, _⟩ := C02.readUntilPrompt_spec none none s hq.wf hq.chunk
  have hd : (readUntilPrompt none none s).2.deaths = s.deaths := by
    rw [hq.deaths]
    unfold readUntilPrompt
    exact rupLoop_deaths _ _ _ _ hq.deaths
  refine ⟨(readUntilPrompt none none s).2, ?_, h2, Same.ofRead hfr hd⟩
  rw [← h1]

theorem quiet_of_nil {s s' : St} (hq : Quiet s) (h : Same s s') (hs : s'.script = []) : Quiet s' :=
  hq.of_same h (by unfold WF; rw [hs]; simp)

/-! ### `expect` -/

/-- the loop of `expect(literal)` on a stream that contains the literal: it succeeds; what is left
    of the stream is a suffix -/
theorem expectLoop_ok (pat : Bytes) : ∀ (f : Nat) (buf : Bytes) (ri : RI) (s : St),
    ri.max = none → bytesLeft s < f → WF s → 0 < s.chunk → s.deaths = [] → s.script ≠ [] →
    C02.TimeOk ri s → containsSub pat (buf ++ flat s.script) = true →
    ∃ res s', expectLoop f [.lit pat] buf ri s = (.ok res, s')
      ∧ (∃ pre, pre ++ flat s'.script = flat s.script) ∧ WF s' ∧ s'.chunk = s.chunk ∧ s'.prompt = s.prompt := by
  intro f
  induction f with
  | zero => intro buf ri s _ hf; omega
  | succ f ih =>
    intro buf ri s hmax hf hwf hc hd hne htime hcont
    obtain ⟨b, s2, hnext, hbne, hflat, hwf2, hc2, hpr2, hd2, htime2⟩ :=
      C02.riNext_deliver ri s hmax hne hd hwf hc htime
    unfold expectLoop
    rw [hnext]
    simp only
    cases hm : firstMatch (buf ++ b) 0 [.lit pat] with
    | some m => exact ⟨_, s2, rfl, ⟨b, hflat⟩, hwf2, hc2, hpr2⟩
    | none =>
      simp only
      have hnomatch : containsSub pat (buf ++ b) = false := by
        simp only [firstMatch, Pat.search] at hm
        cases hfs : findSub pat (buf ++ b) with
        | none => simp [containsSub, hfs]
        | some i => simp [hfs] at hm
      have hrest : s2.script ≠ [] := by
        intro h
        have : flat s2.script = [] := by rw [h]; rfl
        rw [← hflat, this, List.append_nil] at hcont
        rw [hcont] at hnomatch; exact absurd hnomatch (by simp)
      have hbytes : bytesLeft s2 < f := by
        rw [bytesLeft_eq] at hf ⊢
        have := congrArg List.length hflat
        have hb := List.length_pos_iff.mpr hbne
        simp only [List.length_append] at this
        omega
      obtain ⟨res, s', hrun, ⟨pre, hpre⟩, hwf', hc', hpr'⟩ := ih (buf ++ b)
        { ri with got := ri.got + b.length, started := true } s2 hmax hbytes hwf2 (by rw [hc2]; exact hc) hd2
        hrest htime2 (by rw [List.append_assoc, hflat]; exact hcont)
      exact ⟨res, s', hrun, ⟨b ++ pre, by rw [List.append_assoc, hpre, hflat]⟩, hwf', by rw [hc', hc2], by rw [hpr', hpr2]⟩

/-- **`expect(literal, timeout)`** on a quiet channel whose pending stream has arrived and contains
    the literal: succeeds for every fragmentation; what is left is a suffix of the stream -/
theorem expect_ok (pat : Bytes) (T : Nat) (s : St) (hq : Quiet s) (hT : 0 < T)
    (harr : ∀ q ∈ s.script, q.tick ≤ s.now) (hcont : containsSub pat (flat s.script) = true)
    (hne : flat s.script ≠ []) :
    ∃ res s', expect [.lit pat] (some T) s = (.ok res, s')
      ∧ (∃ pre, pre ++ flat s'.script = flat s.script) ∧ Same s s' ∧ WF s' := by
  have htime : C02.TimeOk (riStart none (some T) s) s := Or.inr ⟨T, rfl, hT, rfl, harr⟩
  obtain ⟨res, s', hrun, hpre, hwf', _, _⟩ := expectLoop_ok pat (fuelFor s) [] (riStart none (some T) s) s rfl
    (by unfold fuelFor; omega) hq.wf hq.chunk hq.deaths (script_ne_of_flat hne) htime (by simpa using hcont)
  obtain ⟨recs, hfr, _⟩ := C04.expectLoop_spec (fuelFor s) [.lit pat] [] (riStart none (some T) s) s rfl
    (by unfold fuelFor; omega) hq.wf hq.chunk
  have hd := expectLoop_deaths (fuelFor s) [.lit pat] [] (riStart none (some T) s) s hq.deaths
  rw [hrun] at hfr hd
  refine ⟨res, s', ?_, hpre, Same.ofRead hfr (by rw [hd, hq.deaths]), hwf'⟩
  unfold expect
  exact hrun

end EnvChan
