import TbotVerif.Props.RunStep
/-! C10 — `terminate()`: for a command that is gone (noticed by the proxy or not) it returns the
    rest of the output and the real status, for every fragmentation, and leaves the channel in
    sync. -/

namespace Run
open Chan Spec

/-- opening / closing a `with` block keeps the channel as it is -/
theorem struct_keep (r : RunSt) (op : Op) (hs : structOp op = true) (hg : C03.Good r.st) :
    C03.Good (obsOp op r).2.st ∧ pending (obsOp op r).2.st = pending r.st
    ∧ (obsOp op r).2.st.prompt = r.st.prompt ∧ (obsOp op r).2.st.blacklist = r.st.blacklist := by
  have hopok : ChanCase.opOk op = true := by cases op <;> simp [structOp] at hs <;> rfl
  have hstep : (Cfg.ofRun r).step op = Cfg.ofRun r := by cases op <;> simp [structOp] at hs <;> rfl
  have hk := ChanCase.keeps r op hg hopok
  obtain ⟨h1, h2⟩ := keeps_cfg hk hstep
  exact ⟨hk.good, struct_pending r op hs, h1, h2⟩

/-- leaving `with_death_string` of the only registration frees the channel of death strings -/
theorem deathExit_rel0 (r : RunSt) (m : DeathMon) (reg : Reg) (hrel : C05.Rel m r) (hregs : m.regs = [reg])
    (hfr : m.frames = [reg.id]) : Rel0 (obsOp .deathExit r).2 := by
  obtain ⟨_, h2⟩ := C05.c05_step m r .deathExit hrel trivial
  have hc : c05 m .deathExit (obsOp .deathExit r).1 = (true, { m with regs := [], frames := [] }) := by
    simp only [c05, hfr, hregs, List.filter_cons, bne_self_eq_false, Bool.false_eq_true, if_false, List.filter_nil]
  rw [hc] at h2
  exact ⟨_, h2, rfl, rfl⟩

theorem noEarly_pend (ps1 since pend : Bytes) (h : NoEarly ps1 (since ++ pend) true) (hlen : ps1.length ≤ pend.length) :
    NoEarly ps1 pend true := by
  constructor
  · intro x y hw
    have := h.only (since ++ x) y (by rw [hw]; simp)
    exact this
  · intro _
    have h1 := h.fin rfl
    exact List.suffix_of_suffix_length_le h1 (List.suffix_append since pend) hlen

theorem react_status (ps1 : Bytes) (m : Rem) (st : Nat) (hst : m.status = some st) :
    react ps1 (Shell.echoStatusLine ++ [Tty.CR]) m = (Shell.respStatus false ps1 st, m) := by
  unfold react
  rw [hst]
  simp

/-- `terminate()` on a proxy that was not terminated yet, for a command that is gone -/
theorem terminate_live (c : Case) (p : PSt) (r : Ref) (h : Sim c p r) (hph : r.phase ≠ .terminated)
    (st : Nat) (hst : r.rem.status = some st) (h256 : st < 256) (sizes : List Nat) :
    ∃ used p', terminate sizes p
        = (.ok (st, text ((if r.phase = .ended then [] else r.pend).take
              ((if r.phase = .ended then [] else r.pend).length - (prompt c).length))), used, p')
      ∧ used.sum = (if r.phase = .ended then [] else r.pend).length + (Shell.respStatus false (prompt c) st).length
      ∧ (r.phase = .running → (prompt c) <:+ r.pend)
      ∧ Sim c p' { r with since := r.since ++ (if r.phase = .ended then [] else r.pend), pend := [], phase := .terminated } := by
  -- what both live phases share
  have hlive : p.alive = true ∧ p.gen = true ∧ ∃ m reg, C05.Rel m p.r ∧ m.regs = [reg] ∧ m.frames = [reg.id] := by
    cases hp : r.phase with
    | running =>
      obtain ⟨_, ha, hg, _, ⟨m, id, hrel, hregs, hfr⟩, _, _⟩ := h.running hp
      exact ⟨ha, hg, m, _, hrel, hregs, hfr⟩
    | ended =>
      obtain ⟨_, ha, hg, _, ⟨m, reg, hrel, hregs, hfr⟩, _, _⟩ := h.ended hp
      exact ⟨ha, hg, m, reg, hrel, hregs, hfr⟩
    | terminated => exact absurd hp hph
  obtain ⟨halive, hgen, m, reg, hrel, hregs, hfr⟩ := hlive
  unfold terminate
  have hna : (!p.alive) = false := by rw [halive]; rfl
  have hng : (!p.gen) = false := by rw [hgen]; rfl
  simp only [hna, hng, Bool.false_eq_true, if_false]
  -- leave `with_death_string`
  generalize hr1 : load sizes [] p.r = r1
  have hg1 : C03.Good r1.st := by rw [← hr1]; exact load_good _ _ _ h.good
  have hz1 : Z r1.st := by rw [← hr1]; exact load_z _ _ _
  have hp1 : pending r1.st = r.pend := by rw [← hr1, load_pending, h.pend, List.append_nil]
  have hprm1 : r1.st.prompt = some (.lit (prompt c)) := by rw [← hr1]; exact h.prm
  have hbl1 : r1.st.blacklist = blacklist c := by rw [← hr1]; exact h.bl
  have hrel1 : C05.Rel m r1 := by rw [← hr1]; exact rel_load _ _ hrel
  have h02 := deathExit_rel0 r1 m reg hrel1 hregs hfr
  obtain ⟨hg2, hp2, hprm2, hbl2⟩ := struct_keep r1 .deathExit rfl hg1
  have hz2 := struct_z r1 .deathExit rfl hz1
  generalize hr2 : (obsOp .deathExit r1).2 = r2 at h02 hg2 hp2 hprm2 hbl2 hz2
  rw [hp1] at hp2
  rw [hprm1] at hprm2
  rw [hbl1] at hbl2
  -- the status part, once the channel is in sync
  have hfetch : ∀ (szs : List Nat) (r4 : RunSt), C03.Good r4.st → Rel0 r4 → r4.st.prompt = some (.lit (prompt c)) →
      r4.st.blacklist = blacklist c → pending r4.st = [] →
      (fetchRc szs (react p.ps1 (Shell.echoStatusLine ++ [Tty.CR]) p.rem).1 r4).1 = .ok st
      ∧ (fetchRc szs (react p.ps1 (Shell.echoStatusLine ++ [Tty.CR]) p.rem).1 r4).2.1.sum
          = (Shell.respStatus false (prompt c) st).length
      ∧ (fetchRc szs (react p.ps1 (Shell.echoStatusLine ++ [Tty.CR]) p.rem).1 r4).2.2.st.script = []
      ∧ C03.Good (fetchRc szs (react p.ps1 (Shell.echoStatusLine ++ [Tty.CR]) p.rem).1 r4).2.2.st
      ∧ (fetchRc szs (react p.ps1 (Shell.echoStatusLine ++ [Tty.CR]) p.rem).1 r4).2.2.st.prompt = some (.lit (prompt c))
      ∧ (fetchRc szs (react p.ps1 (Shell.echoStatusLine ++ [Tty.CR]) p.rem).1 r4).2.2.st.blacklist = blacklist c := by
    intro szs r4 hg4 h04 hprm4 hbl4 hp4
    rw [h.ps1, h.rem, react_status _ _ _ hst]
    exact fetchRc_exact c szs st h256 r4 hg4 h04 hprm4 hbl4 hp4
  have hrem : (react p.ps1 (Shell.echoStatusLine ++ [Tty.CR]) p.rem).2 = r.rem := by
    rw [h.ps1, h.rem, react_status _ _ _ hst]
  -- the final state
  have hfinal : ∀ (rest : Bytes) (q : PSt), q.rem = (react p.ps1 (Shell.echoStatusLine ++ [Tty.CR]) p.rem).2 →
      q.ps1 = p.ps1 → q.own = p.own → q.alive = false → q.slot = false →
      q.r.st.script = [] → C03.Good q.r.st →
      q.r.st.prompt = some (.lit (prompt c)) → q.r.st.blacklist = blacklist c →
      Sim c q { r with since := r.since ++ rest, pend := [], phase := .terminated } := by
    intro rest q hqr hqp hqo hqa hqs hscr hgf hprmf hblf
    refine ⟨by rw [hqr]; exact hrem, by rw [hqp]; exact h.ps1, hgf, by simp [pending, hscr], hblf, hprmf,
      by rw [hqo]; exact h.own, ?_, ?_, ?_⟩
    · intro hc; simp at hc
    · intro hc; simp at hc
    · intro _; exact ⟨hqa, hqs, rfl⟩
  cases hp : r.phase with
  | terminated => exact absurd hp hph
  | ended =>
    obtain ⟨_, _, _, hearly, _, hpend0, _⟩ := h.ended hp
    simp only [hearly, if_true, hr1, hr2]
    rw [hpend0] at hp2
    -- leave `with_stream`
    have h03 := (rel0_step r2 .streamExit h02 rfl).1
    obtain ⟨hg3, hp3, hprm3, hbl3⟩ := struct_keep r2 .streamExit rfl hg2
    generalize (obsOp .streamExit r2).2 = r3 at h03 hg3 hp3 hprm3 hbl3
    obtain ⟨hf1, hf2, hf3, hf4, hf5, hf6⟩ := hfetch (sizes.drop ([] : List Nat).length) r3 hg3 h03 (by rw [hprm3, hprm2]) (by rw [hbl3, hbl2])
      (by rw [hp3, hp2])
    generalize fetchRc (sizes.drop ([] : List Nat).length) (react p.ps1 (Shell.echoStatusLine ++ [Tty.CR]) p.rem).1 r3 = fr at hf1 hf2 hf3 hf4 hf5 hf6
    obtain ⟨rc, used2, rf⟩ := fr
    simp only at hf1 hf2 hf3 hf4 hf5 hf6 ⊢
    rw [hf1]
    simp only
    have htx : text (List.take (([] : Bytes).length - (prompt c).length) []) = [] := by
      simp [text, decodeReplace, decodeFuel, normNl, replace2]
    refine ⟨_, _, by rw [htx], ?_, by intro hc; simp at hc, ?_⟩
    · simp [hf2]
    · exact hfinal [] _ rfl rfl rfl rfl rfl hf3 hf4 hf5 hf6
  | running =>
    obtain ⟨_, _, _, hearly, _, hpok, hlenp⟩ := h.running hp
    have hne := noEarly_pend (prompt c) r.since r.pend (by
      have := noEarly_of _ _ _ hpok
      rw [hst] at this
      exact this) (hlenp (by rw [hst]; rfl))
    simp only [hearly, Bool.false_eq_true, if_false, hr1, hr2]
    have hrup := rup_exact r2 (prompt c) r.pend hg2 h02 hprm2 (prompt_ne c) hp2 hne
    have h03' := (rel0_step r2 (.rup none none) h02 rfl).1
    have hk3 := ChanCase.keeps r2 (.rup none none) hg2 rfl
    obtain ⟨hprm3, hbl3⟩ := keeps_cfg hk3 rfl
    generalize obsOp (.rup none none) r2 = o3 at hrup h03' hk3 hprm3 hbl3
    obtain ⟨o, r3⟩ := o3
    simp only at hrup h03' hk3 hprm3 hbl3 ⊢
    have h04 := (rel0_step r3 .streamExit h03' rfl).1
    obtain ⟨hg4, hp4, hprm4, hbl4⟩ := struct_keep r3 .streamExit rfl hk3.good
    generalize (obsOp .streamExit r3).2 = r4 at h04 hg4 hp4 hprm4 hbl4
    rw [hrup.1]
    simp only
    have hp3 : pending r3.st = [] := by simp [pending, hrup.2.2]
    obtain ⟨hf1, hf2, hf3, hf4, hf5, hf6⟩ := hfetch (sizes.drop (sizesOf o).length) r4 hg4 h04
      (by rw [hprm4, hprm3, hprm2]) (by rw [hbl4, hbl3, hbl2]) (by rw [hp4, hp3])
    generalize fetchRc (sizes.drop (sizesOf o).length) (react p.ps1 (Shell.echoStatusLine ++ [Tty.CR]) p.rem).1 r4 = fr at hf1 hf2 hf3 hf4 hf5 hf6
    obtain ⟨rc, used2, rf⟩ := fr
    simp only at hf1 hf2 hf3 hf4 hf5 hf6 ⊢
    rw [hf1]
    simp only
    have hne' : (Phase.running = Phase.ended) = False := by simp
    simp only [hne', if_false]
    refine ⟨_, _, rfl, ?_, fun _ => hne.fin rfl, ?_⟩
    · simp [List.sum_append, hrup.2.1, hf2]
    · exact hfinal r.pend _ rfl rfl rfl rfl rfl hf3 hf4 hf5 hf6

end Run
