import TbotVerif.Props.C03Write
/-! C03 — per-operation theorem: every raw I/O call on any channel state satisfies `Spec.c03`
    and `Spec.c03Sizes`. -/

namespace C03
open Chan Spec

/-- the state an operation starts from inside `obsOp`: logs cut -/
def cut (s : St) : St := { s with reads := [], writes := [], fwd := [] }

theorem cut_wf {s : St} (h : WF s) : WF (cut s) := h

/-- hypotheses about the configuration under which the operations are specified -/
structure Good (s : St) : Prop where
  wf : WF s
  chunk : 0 < s.chunk
  slice : 0 < s.slice
  slow : s.slowDelay.isSome → 0 < s.slowChunk

theorem Good.cut {s : St} (h : Good s) : Good (cut s) := ⟨h.wf, h.chunk, h.slice, h.slow⟩

theorem filterMap_data (recs : List ReadRec) : List.filterMap (fun x => x.data) recs = dataOf recs := rfl

theorem read_none_spec (r : RunSt) (t : Option Nat) (hg : Good r.st) :
    Spec.c03 (Cfg.ofRun r) (.read none t) (obsOp (.read none t) r).1 = true := by
  unfold obsOp runOp
  simp only
  change Spec.c03 (Cfg.ofRun r) (.read none t) _ = true
  generalize hs0 : ({ r.st with reads := [], writes := [], fwd := [] } : St) = s0
  have hrd0 : s0.reads = [] := by subst hs0; rfl
  have hch0 : s0.chunk = r.st.chunk := by subst hs0; rfl
  unfold Chan.read
  simp only
  obtain ⟨rec, hio⟩ := ioRead_spec s0.chunk t s0
  cases hr : ioRead s0.chunk t s0 with
  | mk res s1 =>
    rw [hr] at hio
    have hreads1 : s1.reads = [rec] := by rw [hio.frame.reads, hrd0]; rfl
    cases res with
    | error e =>
      simp only [Spec.c03, Spec.delivered, hreads1, Cfg.ofRun]
      simp [hio.hn, hch0]
    | ok buf =>
      simp only
      have hdata := (hio.ok buf rfl).1
      have hside := (writeStream_side buf s1).trans (check_side buf (writeStream buf s1))
      have hreads2 : (check buf (writeStream buf s1)).2.reads = [rec] := by rw [hside.reads, hreads1]
      cases hc : check buf (writeStream buf s1) with
      | mk cr s2 =>
        rw [hc] at hreads2
        simp only at hreads2
        cases cr with
        | error e =>
          simp only [Spec.c03, Spec.delivered, hreads2, Cfg.ofRun]
          simp [hio.hn, hch0]
        | ok u =>
          simp only [Spec.c03, Spec.delivered, hreads2, Cfg.ofRun]
          simp [hio.hn, hch0, hdata]

theorem read_n_spec (r : RunSt) (n : Nat) (t : Option Nat) (hg : Good r.st) :
    Spec.c03 (Cfg.ofRun r) (.read (some n) t) (obsOp (.read (some n) t) r).1 = true := by
  unfold obsOp runOp
  simp only
  change Spec.c03 (Cfg.ofRun r) (.read (some n) t) _ = true
  generalize hs0 : ({ r.st with reads := [], writes := [], fwd := [] } : St) = s0
  have hrd0 : s0.reads = [] := by subst hs0; rfl
  have hch0 : s0.chunk = r.st.chunk := by subst hs0; rfl
  have hg0 : Good s0 := by subst hs0; exact hg.cut
  obtain ⟨recs, hf, hb, htot, hok, herr⟩ := read_some_spec n t s0 hg0.wf hg0.chunk
  have hreads : (Chan.read (some n) t s0).2.reads = recs := by rw [hf.reads, hrd0]; rfl
  cases hr : Chan.read (some n) t s0 with
  | mk res s1 =>
    rw [hr] at hreads hok herr
    simp only at hreads
    cases res with
    | ok b =>
      obtain ⟨hb1, hb2⟩ := hok b rfl
      simp only [Spec.c03, Spec.delivered, hreads, Cfg.ofRun, filterMap_data]
      simp [← hb1, ← hch0, hb]
      exact hb2
    | error e =>
      obtain ⟨hkind, hto⟩ := herr e rfl
      simp only [Spec.c03, Spec.delivered, hreads, Cfg.ofRun, filterMap_data, ← hch0, hb, Bool.and_true]
      rcases hkind with rfl | rfl | ⟨x, m, rfl⟩
      · have := hto (Or.inl rfl); unfold total at this
        simp only [Bool.or_eq_true, decide_eq_true_eq, beq_iff_eq]; exact this
      · have := hto (Or.inr rfl); unfold total at this
        simp only [Bool.or_eq_true, decide_eq_true_eq, beq_iff_eq]; exact this
      · unfold total at htot; simpa using htot

theorem leOpt_of (n : Nat) (o : Option Nat) (h : ∀ m, o = some m → n ≤ m) : leOpt n o = true := by
  cases o with
  | none => rfl
  | some m => simpa [leOpt] using h m rfl

theorem readIter_spec (r : RunSt) (m : Option Nat) (t : Option Nat) (k : Option Nat) (hg : Good r.st) :
    Spec.c03 (Cfg.ofRun r) (.readIter m t k) (obsOp (.readIter m t k) r).1 = true := by
  unfold obsOp runOp
  simp only
  change Spec.c03 (Cfg.ofRun r) (.readIter m t k) _ = true
  generalize hs0 : ({ r.st with reads := [], writes := [], fwd := [] } : St) = s0
  have hrd0 : s0.reads = [] := by subst hs0; rfl
  have hch0 : s0.chunk = r.st.chunk := by subst hs0; rfl
  have hg0 : Good s0 := by subst hs0; exact hg.cut
  obtain ⟨recs, hf, hb, hm, hok, herr⟩ := riTake_spec (fuelFor s0) k (riStart m t s0) s0 []
    (by unfold fuelFor riStart; simp) hg0.wf hg0.chunk (by intro m' _; simp [riStart]) (fun _ => rfl)
  have hlen := riTake_len (fuelFor s0) k (riStart m t s0) s0 []
  have hreads : (riTake (fuelFor s0) k (riStart m t s0) s0 []).2.reads = recs := by rw [hf.reads, hrd0]; rfl
  have hmax : (riStart m t s0).max = m := rfl
  have hgot : (riStart m t s0).got = 0 := rfl
  rw [hmax, hgot] at hb hm
  cases hr : riTake (fuelFor s0) k (riStart m t s0) s0 [] with
  | mk res s1 =>
    rw [hr] at hreads hok herr hlen
    simp only at hreads hlen
    obtain ⟨cs, e⟩ := res
    simp only [Spec.c03, Spec.delivered, hreads, Cfg.ofRun, filterMap_data, ← hch0, hb, Bool.and_true]
    have hmaxok : ∀ m', m = some m' → (dataOf recs).flatten.length ≤ m' := by
      intro m' h; have := hm m' h; unfold total at this; omega
    have hkok : ∀ k', k = some k' → cs.length ≤ k' := by
      intro k' h; have := hlen k' h; simpa using this
    cases e with
    | none =>
      obtain ⟨hcs, _, _⟩ := hok cs rfl
      simp only [List.nil_append] at hcs
      subst hcs
      simp only [yielded, beq_self_eq_true, Bool.true_and, leOpt_of _ _ hmaxok, leOpt_of _ _ hkok, Bool.and_self]
    | some e =>
      obtain ⟨hkind, hto, hde⟩ := herr cs e rfl
      rcases hkind with rfl | rfl | ⟨x, mm, rfl⟩
      · have := (hto (Or.inl rfl)).1; simp only [List.nil_append] at this
        subst this
        simp only [yielded, beq_self_eq_true, Bool.true_and, leOpt_of _ _ hmaxok, leOpt_of _ _ hkok, Bool.and_self]
      · have := (hto (Or.inr rfl)).1; simp only [List.nil_append] at this
        subst this
        simp only [yielded, beq_self_eq_true, Bool.true_and, leOpt_of _ _ hmaxok, leOpt_of _ _ hkok, Bool.and_self]
      · have := (hde x mm rfl).1; simp only [List.nil_append] at this
        subst this
        simp only [yielded, beq_self_eq_true, Bool.true_and, leOpt_of _ _ hmaxok, leOpt_of _ _ hkok, Bool.and_self]

theorem readline_spec (r : RunSt) (e : Bytes) (t : Option Nat) (hg : Good r.st) :
    Spec.c03 (Cfg.ofRun r) (.readline e t) (obsOp (.readline e t) r).1 = true := by
  unfold obsOp runOp
  simp only
  change Spec.c03 (Cfg.ofRun r) (.readline e t) _ = true
  generalize hs0 : ({ r.st with reads := [], writes := [], fwd := [] } : St) = s0
  have hrd0 : s0.reads = [] := by subst hs0; rfl
  have hg0 : Good s0 := by subst hs0; exact hg.cut
  unfold readline
  obtain ⟨recs, hf, hn, hok, herr⟩ := readlineLoop_spec (fuelFor s0) e [] s0.now t s0
    (by unfold fuelFor; omega) hg0.wf hg0.chunk
  have hreads : (readlineLoop (fuelFor s0) e [] s0.now t s0).2.reads = recs := by rw [hf.reads, hrd0]; rfl
  have hall : (recs.all fun r => r.n == 1) = true := by
    simp only [List.all_eq_true, beq_iff_eq]; exact hn
  cases hr : readlineLoop (fuelFor s0) e [] s0.now t s0 with
  | mk res s1 =>
    rw [hr] at hreads hok herr
    simp only at hreads
    cases res with
    | ok l =>
      obtain ⟨h1, h2⟩ := hok l rfl
      simp only [List.nil_append] at h1
      simp only [Spec.c03, Spec.delivered, hreads, filterMap_data, hall, Bool.and_true]
      simp [h1, h2]
    | error x =>
      obtain ⟨hkind, hto⟩ := herr x rfl
      simp only [Spec.c03, Spec.delivered, hreads, filterMap_data, hall, Bool.and_true]
      rcases hkind with rfl | rfl | ⟨y, m, rfl⟩
      · exact hto (Or.inl rfl)
      · exact hto (Or.inr rfl)
      · rfl

theorem allLe_of {ws : List (Bytes × Nat)} {n : Nat} (h : ∀ w ∈ ws, w.1.length ≤ n) :
    (ws.all fun w => decide (w.1.length ≤ n)) = true := by
  simp only [List.all_eq_true, decide_eq_true_eq]; exact h

theorem write_op_spec (r : RunSt) (b : Bytes) (ign : Bool) (hg : Good r.st) :
    Spec.c03 (Cfg.ofRun r) (.write b ign) (obsOp (.write b ign) r).1 = true
    ∧ Spec.c03Sizes (Cfg.ofRun r) (.write b ign) (obsOp (.write b ign) r).1 = true := by
  unfold obsOp runOp ofUnit
  simp only
  generalize hs0 : ({ r.st with reads := [], writes := [], fwd := [] } : St) = s0
  have hw0 : s0.writes = [] := by subst hs0; rfl
  have hbl : s0.blacklist = r.st.blacklist := by subst hs0; rfl
  have hsd : s0.slowDelay = r.st.slowDelay := by subst hs0; rfl
  have hsc : s0.slowChunk = r.st.slowChunk := by subst hs0; rfl
  have hg0 : Good s0 := by subst hs0; exact hg.cut
  obtain ⟨ws, hf, hl, hs, hok, herr⟩ := write_spec b ign s0 hg0.slow
  have hwrites : (write b ign s0).2.writes = ws := by rw [hf.writes, hw0]; rfl
  cases hr : write b ign s0 with
  | mk res s1 =>
    rw [hr] at hwrites hok herr
    simp only at hwrites
    cases res with
    | ok u =>
      obtain ⟨hfine, ht, ha⟩ := hok rfl
      constructor
      · simp only [Spec.c03, Cfg.ofRun, hwrites, ← hbl, ← hsd, ← hsc, ht, ha, beq_self_eq_true, Bool.and_true]
        rcases hfine with h | h
        · simp [h]
        · simp [h]
      · simp only [Spec.c03Sizes, Cfg.ofRun, hwrites, ← hsd, ← hsc, Bool.and_true]
        cases hd : s0.slowDelay with
        | none => rfl
        | some d => exact allLe_of (hs (by rw [hd]; rfl))
    | error e =>
      obtain ⟨he, hi, hfb, hws⟩ := herr e rfl
      subst he; subst hws
      constructor
      · simp [Spec.c03, Cfg.ofRun, hwrites, ← hbl, hi, hfb]
      · simp only [Spec.c03Sizes, Cfg.ofRun, hwrites, Bool.and_true]
        cases r.st.slowDelay <;> rfl

/-- `Channel.send` on any state: what reached the transport -/
theorem send_spec (b : Bytes) (rb : Bool) (t : Option Nat) (ign : Bool) (s : St) (hg : Good s) :
    ∃ recs ws, IOFrame s (send b rb t ign s).2 recs ws
      ∧ (∀ w ∈ ws, w.1.length ≤ s.slice)
      ∧ (s.slowDelay.isSome → ∀ w ∈ ws, w.1.length ≤ s.slowChunk)
      ∧ (let fine := ign || !forbidden s.blacklist b
         match (send b rb t ign s).1 with
         | .ok _ => fine = true ∧ accepted ws = b
         | .error .illegal => fine = false ∧ ws = []
         | .error e => fine = true ∧ (∃ rest, b = accepted ws ++ rest)
                        ∧ (e = .timeout ∨ e = .hang ∨ ∃ x m, e = .death x m))
      -- the bytes delivered to the read-backs: none without read-back, never more than the echo of
      -- what was written, all of it on success, and strictly less when the call times out / hangs
      ∧ (rb = false → recs = [])
      ∧ total recs ≤ readBack (accepted ws)
      ∧ ((send b rb t ign s).1 = .ok () → rb = true → total recs = readBack (accepted ws))
      ∧ (∀ e, (send b rb t ign s).1 = .error e → e = .timeout ∨ e = .hang →
          rb = true ∧ total recs < readBack (accepted ws)) := by
  unfold send
  split
  · rename_i he
    have : b = [] := by simpa using he
    subst this
    refine ⟨[], [], IOFrame.refl s, by simp, by simp, ?_, fun _ => rfl, by simp, fun _ _ => by simp, by simp⟩
    simp [forbidden, accepted]
  · split
    · rename_i _ hf
      simp only [Bool.and_eq_true, Bool.not_eq_true'] at hf
      refine ⟨[], [], IOFrame.refl s, by simp, by simp, ?_, fun _ => rfl, by simp, by simp, ?_⟩
      · simp [hf.1, hf.2]
      · intro e he hk
        simp only [Except.error.injEq] at he
        subst he
        simp at hk
    · rename_i _ hnf
      have hfine : (ign || !forbidden s.blacklist b) = true := by
        cases ign with
        | true => rfl
        | false => simpa using hnf
      obtain ⟨recs, ws, hfr, ⟨rest, hrest, hrok⟩, hwl, hws, _, herr, hnr, hle, hokr, hto⟩ :=
        sendLoop_spec (b.length + 1) b rb t ign s.now s (by omega) hg.slice hg.wf hg.chunk hg.slow
      refine ⟨recs, ws, hfr, hwl, hws, ?_, hnr, hle, hokr, hto⟩
      simp only [hfine]
      cases hr : sendLoop (b.length + 1) b rb t ign s.now s with
      | mk res s1 =>
        rw [hr] at hrok herr
        cases res with
        | ok u =>
          have := hrok rfl
          subst this
          simp only [List.append_nil] at hrest
          exact ⟨trivial, hrest.symm⟩
        | error e =>
          rcases herr e rfl with ⟨h1, h2, h3⟩ | h
          · exfalso
            rw [h2] at hfine
            simp [h3] at hfine
          · rcases h with rfl | rfl | ⟨x, m, rfl⟩
            · exact ⟨trivial, ⟨rest, hrest⟩, Or.inl rfl⟩
            · exact ⟨trivial, ⟨rest, hrest⟩, Or.inr (Or.inl rfl)⟩
            · exact ⟨trivial, ⟨rest, hrest⟩, Or.inr (Or.inr ⟨x, m, rfl⟩)⟩

theorem isPrefixOf_append (a rest : Bytes) : a.isPrefixOf (a ++ rest) = true := by
  rw [List.isPrefixOf_iff_prefix]; exact List.prefix_append a rest

/-- shared by `send` and `sendline`: the observation of `send payload rb t ign` judged against
    the request `payload` -/
theorem send_obs (r : RunSt) (payload : Bytes) (rb : Bool) (t : Option Nat) (ign : Bool) (hg : Good r.st) :
    let s0 : St := { r.st with reads := [], writes := [], fwd := [] }
    let res := ofUnit (send payload rb t ign s0)
    let fine := ign || !forbidden r.st.blacklist payload
    (match res.1 with
     | .unit => fine && accepted res.2.writes == payload
     | .err .illegal => !fine && (accepted res.2.writes).isPrefixOf payload
                          && !forbidden r.st.blacklist (accepted res.2.writes)
     | .err .timeout | .err .hang =>
       fine && (accepted res.2.writes).isPrefixOf payload
         && rb && decide ((res.2.reads.filterMap (·.data)).flatten.length < readBack (accepted res.2.writes))
     | .err _ => fine && (accepted res.2.writes).isPrefixOf payload
     | _ => false) = true
    ∧ (match r.st.slowDelay with
       | some _ => res.2.writes.all fun w => decide (w.1.length ≤ r.st.slowChunk)
       | none => true) = true
    ∧ (res.2.writes.all fun w => decide (w.1.length ≤ r.st.slice)) = true := by
  intro s0 res fine
  have hg0 : Good s0 := hg.cut
  obtain ⟨recs, ws, hfr, hwl, hws, hres, _, _, _, hto⟩ := send_spec payload rb t ign s0 hg0
  have hwrites : (send payload rb t ign s0).2.writes = ws := by rw [hfr.writes]; rfl
  have hreads : (send payload rb t ign s0).2.reads = recs := by rw [hfr.reads]; rfl
  have hresw : res.2.writes = ws := by
    show (ofUnit (send payload rb t ign s0)).2.writes = ws
    unfold ofUnit
    cases hs : send payload rb t ign s0 with
    | mk a b => rw [hs] at hwrites; cases a <;> exact hwrites
  have hresr : res.2.reads = recs := by
    show (ofUnit (send payload rb t ign s0)).2.reads = recs
    unfold ofUnit
    cases hs : send payload rb t ign s0 with
    | mk a b => rw [hs] at hreads; cases a <;> exact hreads
  refine ⟨?_, ?_, ?_⟩
  · rw [hresw, hresr, filterMap_data]
    show (match (ofUnit (send payload rb t ign s0)).1 with
     | .unit => fine && accepted ws == payload
     | .err .illegal => !fine && (accepted ws).isPrefixOf payload && !forbidden r.st.blacklist (accepted ws)
     | .err .timeout | .err .hang =>
       fine && (accepted ws).isPrefixOf payload && rb
         && decide ((dataOf recs).flatten.length < readBack (accepted ws))
     | .err _ => fine && (accepted ws).isPrefixOf payload
     | _ => false) = true
    unfold ofUnit
    simp only at hres
    cases hs : send payload rb t ign s0 with
    | mk a b =>
      rw [hs] at hres hto
      cases a with
      | ok u =>
        simp only at hres ⊢
        have h1 : fine = true := hres.1
        simp [h1, hres.2]
      | error e =>
        cases e with
        | illegal =>
          simp only at hres ⊢
          have h1 : fine = false := hres.1
          rw [hres.2]
          simp [h1, accepted, forbidden]
        | timeout =>
          simp only at hres ⊢
          obtain ⟨h1, ⟨rest, hrest⟩, _⟩ := hres
          have h1' : fine = true := h1
          obtain ⟨hrb, hlt⟩ := hto .timeout rfl (Or.inl rfl)
          have hlt' : (dataOf recs).flatten.length < readBack (accepted ws) := hlt
          have hp : (accepted ws).isPrefixOf payload = true := by
            rw [hrest]; exact isPrefixOf_append _ _
          rw [h1', hrb, decide_eq_true hlt', hp]
          rfl
        | hang =>
          simp only at hres ⊢
          obtain ⟨h1, ⟨rest, hrest⟩, _⟩ := hres
          have h1' : fine = true := h1
          obtain ⟨hrb, hlt⟩ := hto .hang rfl (Or.inr rfl)
          have hlt' : (dataOf recs).flatten.length < readBack (accepted ws) := hlt
          have hp : (accepted ws).isPrefixOf payload = true := by
            rw [hrest]; exact isPrefixOf_append _ _
          rw [h1', hrb, decide_eq_true hlt', hp]
          rfl
        | death x m =>
          simp only at hres ⊢
          obtain ⟨h1, ⟨rest, hrest⟩, _⟩ := hres
          have h1' : fine = true := h1
          rw [h1', hrest]; simp [isPrefixOf_append]
        | assertion =>
          simp only at hres
          obtain ⟨_, _, h⟩ := hres
          rcases h with h | h | ⟨_, _, h⟩ <;> simp at h
        | fuel =>
          simp only at hres
          obtain ⟨_, _, h⟩ := hres
          rcases h with h | h | ⟨_, _, h⟩ <;> simp at h
  · rw [hresw]
    cases hd : r.st.slowDelay with
    | none => rfl
    | some d => exact allLe_of (hws (by show r.st.slowDelay.isSome = true; rw [hd]; rfl))
  · rw [hresw]; exact allLe_of hwl

theorem send_op_spec (r : RunSt) (b : Bytes) (rb : Bool) (t : Option Nat) (ign : Bool) (hg : Good r.st) :
    Spec.c03 (Cfg.ofRun r) (.send b rb t ign) (obsOp (.send b rb t ign) r).1 = true
    ∧ Spec.c03Sizes (Cfg.ofRun r) (.send b rb t ign) (obsOp (.send b rb t ign) r).1 = true := by
  obtain ⟨h1, h2, h3⟩ := send_obs r b rb t ign hg
  simp only at h1 h2 h3
  unfold obsOp runOp
  simp only [Spec.c03, Spec.c03Sizes, Cfg.ofRun]
  refine ⟨h1, ?_⟩
  simp only [Bool.and_eq_true]
  exact ⟨h2, h3⟩

theorem sendline_op_spec (r : RunSt) (b : Bytes) (rb : Bool) (t : Option Nat) (hg : Good r.st) :
    Spec.c03 (Cfg.ofRun r) (.sendline b rb t) (obsOp (.sendline b rb t) r).1 = true
    ∧ Spec.c03Sizes (Cfg.ofRun r) (.sendline b rb t) (obsOp (.sendline b rb t) r).1 = true := by
  obtain ⟨h1, h2, h3⟩ := send_obs r (b ++ [13]) rb t false hg
  simp only [Bool.false_or] at h1 h2 h3
  unfold obsOp runOp sendline
  simp only [Spec.c03, Spec.c03Sizes, Cfg.ofRun]
  refine ⟨h1, ?_⟩
  simp only [Bool.and_eq_true]
  exact ⟨h2, h3⟩

theorem sendcontrol_op_spec (r : RunSt) (n : Nat) (hg : Good r.st) :
    Spec.c03 (Cfg.ofRun r) (.sendcontrol n) (obsOp (.sendcontrol n) r).1 = true := by
  unfold obsOp runOp ofUnit sendcontrol
  simp only
  generalize hs0 : ({ r.st with reads := [], writes := [], fwd := [] } : St) = s0
  have hw0 : s0.writes = [] := by subst hs0; rfl
  have hg0 : Good s0 := by subst hs0; exact hg.cut
  by_cases hn : n ≤ 31
  · simp only [hn, if_true]
    obtain ⟨ws, hf, _, _, hok, herr⟩ := write_spec [UInt8.ofNat n] true s0 hg0.slow
    have hwrites : (write [UInt8.ofNat n] true s0).2.writes = ws := by rw [hf.writes, hw0]; rfl
    cases hr : write [UInt8.ofNat n] true s0 with
    | mk res s1 =>
      rw [hr] at hwrites hok herr
      simp only at hwrites
      cases res with
      | ok u =>
        obtain ⟨_, _, ha⟩ := hok rfl
        simp [Spec.c03, hwrites, ha, hn]
      | error e =>
        obtain ⟨_, hi, _, _⟩ := herr e rfl
        simp at hi
  · simp only [hn, if_false, Spec.c03, hw0]
    have : 31 < n := by omega
    simp [accepted, this]

/-- **C03 (per call).**  Every raw I/O operation on every channel state satisfies the
    specification (other operations are not constrained by C03). -/
theorem op_spec (r : RunSt) (op : Op) (hg : Good r.st) :
    Spec.c03 (Cfg.ofRun r) op (obsOp op r).1 = true ∧ Spec.c03Sizes (Cfg.ofRun r) op (obsOp op r).1 = true := by
  cases op with
  | read n t =>
    cases n with
    | none => exact ⟨read_none_spec r t hg, rfl⟩
    | some n => exact ⟨read_n_spec r n t hg, rfl⟩
  | readIter m t k => exact ⟨readIter_spec r m t k hg, rfl⟩
  | readline e t => exact ⟨readline_spec r e t hg, rfl⟩
  | write b ign => exact write_op_spec r b ign hg
  | send b rb t ign => exact send_op_spec r b rb t ign hg
  | sendline b rb t => exact sendline_op_spec r b rb t hg
  | sendcontrol n => exact ⟨sendcontrol_op_spec r n hg, rfl⟩
  | _ => exact ⟨rfl, rfl⟩

end C03
