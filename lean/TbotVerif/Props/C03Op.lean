import TbotVerif.Props.C03Write
/-! C03 — per-operation theorem: every raw I/O call on any channel state satisfies `Spec.c03`
    and `Spec.c03Sizes`. -/

namespace C03
open Chan Spec

/-- the state an operation starts from inside `obsOp`: logs cut -/
def cut (s : St) : St := { s with reads := [], writes := [], fwd := [] }

theorem cut_wf {s : St} (h : WF s) : WF (cut s) := h

/-- hypotheses about the configuration under which the operations are specified -/
structure Good (s : St) : Prop where
  wf : WF s
  chunk : 0 < s.chunk
  slice : 0 < s.slice
  slow : s.slowDelay.isSome → 0 < s.slowChunk

theorem Good.cut {s : St} (h : Good s) : Good (cut s) := ⟨h.wf, h.chunk, h.slice, h.slow⟩

theorem filterMap_data (recs : List ReadRec) : List.filterMap (fun x => x.data) recs = dataOf recs := rfl

theorem read_none_spec (r : RunSt) (t : Option Nat) (hg : Good r.st) :
    Spec.c03 (Cfg.ofRun r) (.read none t) (obsOp (.read none t) r).1 = true := by
  unfold obsOp runOp
  simp only
  change Spec.c03 (Cfg.ofRun r) (.read none t) _ = true
  generalize hs0 : ({ r.st with reads := [], writes := [], fwd := [] } : St) = s0
  have hrd0 : s0.reads = [] := by subst hs0; rfl
  have hch0 : s0.chunk = r.st.chunk := by subst hs0; rfl
  unfold Chan.read
  simp only
  obtain ⟨rec, hio⟩ := ioRead_spec s0.chunk t s0
  cases hr : ioRead s0.chunk t s0 with
  | mk res s1 =>
    rw [hr] at hio
    have hreads1 : s1.reads = [rec] := by rw [hio.frame.reads, hrd0]; rfl
    cases res with
    | error e =>
      simp only [Spec.c03, Spec.delivered, hreads1, Cfg.ofRun]
      simp [hio.hn, hch0]
    | ok buf =>
      simp only
      have hdata := (hio.ok buf rfl).1
      have hside := (writeStream_side buf s1).trans (check_side buf (writeStream buf s1))
      have hreads2 : (check buf (writeStream buf s1)).2.reads = [rec] := by rw [hside.reads, hreads1]
      cases hc : check buf (writeStream buf s1) with
      | mk cr s2 =>
        rw [hc] at hreads2
        simp only at hreads2
        cases cr with
        | error e =>
          simp only [Spec.c03, Spec.delivered, hreads2, Cfg.ofRun]
          simp [hio.hn, hch0]
        | ok u =>
          simp only [Spec.c03, Spec.delivered, hreads2, Cfg.ofRun]
          simp [hio.hn, hch0, hdata]

theorem read_n_spec (r : RunSt) (n : Nat) (t : Option Nat) (hg : Good r.st) :
    Spec.c03 (Cfg.ofRun r) (.read (some n) t) (obsOp (.read (some n) t) r).1 = true := by
  unfold obsOp runOp
  simp only
  change Spec.c03 (Cfg.ofRun r) (.read (some n) t) _ = true
  generalize hs0 : ({ r.st with reads := [], writes := [], fwd := [] } : St) = s0
  have hrd0 : s0.reads = [] := by subst hs0; rfl
  have hch0 : s0.chunk = r.st.chunk := by subst hs0; rfl
  have hg0 : Good s0 := by subst hs0; exact hg.cut
  obtain ⟨recs, hf, hb, htot, hok, herr⟩ := read_some_spec n t s0 hg0.wf hg0.chunk
  have hreads : (Chan.read (some n) t s0).2.reads = recs := by rw [hf.reads, hrd0]; rfl
  cases hr : Chan.read (some n) t s0 with
  | mk res s1 =>
    rw [hr] at hreads hok herr
    simp only at hreads
    cases res with
    | ok b =>
      obtain ⟨hb1, hb2⟩ := hok b rfl
      simp only [Spec.c03, Spec.delivered, hreads, Cfg.ofRun, filterMap_data]
      simp [hb1 ▸ hb2, ← hb1, ← hch0, hb]
    | error e =>
      obtain ⟨hkind, hto⟩ := herr e rfl
      simp only [Spec.c03, Spec.delivered, hreads, Cfg.ofRun, filterMap_data, ← hch0, hb, Bool.and_true]
      rcases hkind with rfl | rfl | ⟨x, m, rfl⟩
      · have := hto (Or.inl rfl); unfold total at this
        simp only [Bool.or_eq_true, decide_eq_true_eq, beq_iff_eq]; exact this
      · have := hto (Or.inr rfl); unfold total at this
        simp only [Bool.or_eq_true, decide_eq_true_eq, beq_iff_eq]; exact this
      · unfold total at htot; simpa using htot

theorem readIter_spec (r : RunSt) (m : Option Nat) (t : Option Nat) (k : Option Nat) (hg : Good r.st) :
    Spec.c03 (Cfg.ofRun r) (.readIter m t k) (obsOp (.readIter m t k) r).1 = true := by
  unfold obsOp runOp
  simp only
  change Spec.c03 (Cfg.ofRun r) (.readIter m t k) _ = true
  generalize hs0 : ({ r.st with reads := [], writes := [], fwd := [] } : St) = s0
  have hrd0 : s0.reads = [] := by subst hs0; rfl
  have hch0 : s0.chunk = r.st.chunk := by subst hs0; rfl
  have hg0 : Good s0 := by subst hs0; exact hg.cut
  obtain ⟨recs, hf, hb, hm, hok, herr⟩ := riTake_spec (fuelFor s0) k (riStart m t s0) s0 []
    (by unfold fuelFor riStart; simp) hg0.wf hg0.chunk (by intro m' _; simp [riStart]) (fun _ => rfl)
  have hlen := riTake_len (fuelFor s0) k (riStart m t s0) s0 []
  have hreads : (riTake (fuelFor s0) k (riStart m t s0) s0 []).2.reads = recs := by rw [hf.reads, hrd0]; rfl
  have hmax : (riStart m t s0).max = m := rfl
  have hgot : (riStart m t s0).got = 0 := rfl
  rw [hmax, hgot] at hb hm
  cases hr : riTake (fuelFor s0) k (riStart m t s0) s0 [] with
  | mk res s1 =>
    rw [hr] at hreads hok herr hlen
    simp only at hreads hlen
    obtain ⟨cs, e⟩ := res
    simp only [Spec.c03, Spec.delivered, hreads, Cfg.ofRun, filterMap_data, ← hch0, hb, Bool.and_true]
    have hmaxok : (match m with | some m' => decide ((dataOf recs).flatten.length ≤ m') | none => true) = true := by
      cases m with
      | none => rfl
      | some m' => have := hm m' rfl; unfold total at this; simpa using this
    have hkok : (match k with | some k' => decide (cs.length ≤ k') | none => true) = true := by
      cases k with
      | none => rfl
      | some k' => have := hlen k' rfl; simpa using this
    cases e with
    | none =>
      obtain ⟨hcs, _, _⟩ := hok cs rfl
      simp only [List.nil_append] at hcs
      simp [hcs, hmaxok, ← hcs, hkok]
    | some e =>
      obtain ⟨hkind, hto, hde⟩ := herr cs e rfl
      rcases hkind with rfl | rfl | ⟨x, mm, rfl⟩
      · have := (hto (Or.inl rfl)).1; simp only [List.nil_append] at this
        simp [this, hmaxok, ← this, hkok]
      · have := (hto (Or.inr rfl)).1; simp only [List.nil_append] at this
        simp [this, hmaxok, ← this, hkok]
      · have := (hde x mm rfl).1; simp only [List.nil_append] at this
        simp [this, hmaxok, ← this, hkok]

theorem readline_spec (r : RunSt) (e : Bytes) (t : Option Nat) (hg : Good r.st) :
    Spec.c03 (Cfg.ofRun r) (.readline e t) (obsOp (.readline e t) r).1 = true := by
  unfold obsOp runOp
  simp only
  change Spec.c03 (Cfg.ofRun r) (.readline e t) _ = true
  generalize hs0 : ({ r.st with reads := [], writes := [], fwd := [] } : St) = s0
  have hrd0 : s0.reads = [] := by subst hs0; rfl
  have hg0 : Good s0 := by subst hs0; exact hg.cut
  unfold readline
  obtain ⟨recs, hf, hn, hok, herr⟩ := readlineLoop_spec (fuelFor s0) e [] s0.now t s0
    (by unfold fuelFor; omega) hg0.wf hg0.chunk
  have hreads : (readlineLoop (fuelFor s0) e [] s0.now t s0).2.reads = recs := by rw [hf.reads, hrd0]; rfl
  have hall : (recs.all fun r => r.n == 1) = true := by
    simp only [List.all_eq_true, beq_iff_eq]; exact hn
  cases hr : readlineLoop (fuelFor s0) e [] s0.now t s0 with
  | mk res s1 =>
    rw [hr] at hreads hok herr
    simp only at hreads
    cases res with
    | ok l =>
      obtain ⟨h1, h2⟩ := hok l rfl
      simp only [List.nil_append] at h1
      simp only [Spec.c03, Spec.delivered, hreads, filterMap_data, hall, Bool.and_true]
      simp [h1, h2]
    | error x =>
      obtain ⟨hkind, hto⟩ := herr x rfl
      simp only [Spec.c03, Spec.delivered, hreads, filterMap_data, hall, Bool.and_true]
      rcases hkind with rfl | rfl | ⟨y, m, rfl⟩
      · exact hto (Or.inl rfl)
      · exact hto (Or.inr rfl)
      · rfl

end C03
