import TbotVerif.Props.C01Loc
import TbotVerif.Props.C01Exact
import TbotVerif.Spec.Shell
/-! C01 — the two halves of `Bash.exec` / `Ash.exec` (`phase1`: command line out, echo back,
    output up to the prompt; `fetchRetcode`: the `echo $?` round), each EXACT on the answer of a
    POSIX shell behind an echoing tty, and LOCAL (a trailing script is left untouched). -/

namespace C01
open Chan Shell Spec

/-! ### (1) LOCALITY, in closed form -/

theorem eq_app (s : St) (sc1 sc2 : List Piece) (h : s.script = sc1 ++ sc2) :
    s = app { s with script := sc1 } sc2 := by
  cases s
  simp only at h
  subst h
  rfl

/-- **(1) `read(n)` only touches the head of the script**: when the script is `sc1 ++ sc2` and
    `0 < n ≤ |flat sc1|` (no timeout, no death string), `read(n)` returns the first `n` bytes —
    exactly what it returns on `sc1` alone — and leaves `rest1 ++ sc2`, where `rest1` is what it
    leaves of `sc1` alone (`flat rest1` = the other bytes of `sc1`) -/
theorem read_local (s : St) (sc1 sc2 : List Piece) (n : Nat) (hs : s.script = sc1 ++ sc2) (hn : 0 < n)
    (hle : n ≤ (flat sc1).length) (hd : s.deaths = []) (hwf : ∀ q ∈ sc1, q.data ≠ []) (hc : 0 < s.chunk) :
    ∃ s1 : St, Chan.read (some n) none { s with script := sc1 } = (.ok ((flat sc1).take n), s1)
      ∧ Chan.read (some n) none s = (.ok ((flat sc1).take n), app s1 sc2)
      ∧ flat s1.script = (flat sc1).drop n ∧ WF s1 := by
  have hlen : ((flat sc1).take n).length = n := by rw [List.length_take]; omega
  have hne : (flat sc1).take n ≠ [] := by
    intro h; rw [h] at hlen; simp at hlen; omega
  obtain ⟨s1, hrd, hfl, hwf1, _⟩ := read_exact { s with script := sc1 } ((flat sc1).take n) ((flat sc1).drop n)
    hne hd hwf hc (List.take_append_drop _ _).symm
  rw [hlen] at hrd
  refine ⟨s1, hrd, ?_, hfl, hwf1⟩
  have := read_some_app n none _ sc2 _ _ hrd
  rw [← eq_app s sc1 sc2 hs] at this
  exact this

/-- **(1) `read_until_prompt` only touches the head of the script**: when the script is
    `sc1 ++ sc2`, `sc1` holds `w`, and the literal prompt `p` occurs in `w` at the end and only
    there, the call returns `w` minus the prompt — exactly as on `sc1` alone — and leaves `sc2` -/
theorem rup_local (p w : Bytes) (hp : p ≠ []) (hsuf : p <:+ w) (honly : NoEarly p w)
    (s : St) (sc1 sc2 : List Piece) (hs : s.script = sc1 ++ sc2) (hflat : flat sc1 = w)
    (hpr : s.prompt = some (.lit p)) (hd : s.deaths = []) (hwf : ∀ q ∈ sc1, q.data ≠ []) (hc : 0 < s.chunk) :
    ∃ s1 : St, readUntilPrompt none none { s with script := sc1 } = (.ok (w.take (w.length - p.length), w), s1)
      ∧ s1.script = []
      ∧ readUntilPrompt none none s = (.ok (w.take (w.length - p.length), w), app s1 sc2) := by
  obtain ⟨s1, hr, hsc, _⟩ := rup_exact p w hp hsuf honly { s with script := sc1 } hpr hd hwf hc hflat
  refine ⟨s1, hr, hsc, ?_⟩
  have := readUntilPrompt_app none none _ sc2 _ _ hr
  rw [← eq_app s sc1 sc2 hs] at this
  exact this

/-- the channel is idle at the configured prompt: literal prompt `ps1`, no death string, no log
    stream attached, nothing held back, usable chunk/slice/slow-send configuration -/
structure InSync (ps1 : Bytes) (s : St) : Prop where
  prompt : s.prompt = some (.lit ps1)
  deaths : s.deaths = []
  streams : s.streams = []
  streambuf : s.streambuf = []
  chunk : 0 < s.chunk
  slice : 0 < s.slice
  slow : s.slowDelay.isSome → 0 < s.slowChunk

/-- the channel configuration is the same -/
structure Same (s s' : St) : Prop where
  chunk : s'.chunk = s.chunk
  slice : s'.slice = s.slice
  prompt : s'.prompt = s.prompt
  blacklist : s'.blacklist = s.blacklist
  slowDelay : s'.slowDelay = s.slowDelay
  slowChunk : s'.slowChunk = s.slowChunk
  logPrompt : s'.logPrompt = s.logPrompt
  nextDeath : s'.nextDeath = s.nextDeath

theorem Same.refl (s : St) : Same s s := ⟨rfl, rfl, rfl, rfl, rfl, rfl, rfl, rfl⟩

theorem Same.trans {a b c : St} (h1 : Same a b) (h2 : Same b c) : Same a c where
  chunk := by rw [h2.chunk, h1.chunk]
  slice := by rw [h2.slice, h1.slice]
  prompt := by rw [h2.prompt, h1.prompt]
  blacklist := by rw [h2.blacklist, h1.blacklist]
  slowDelay := by rw [h2.slowDelay, h1.slowDelay]
  slowChunk := by rw [h2.slowChunk, h1.slowChunk]
  logPrompt := by rw [h2.logPrompt, h1.logPrompt]
  nextDeath := by rw [h2.nextDeath, h1.nextDeath]

theorem Same.of_fr {s s' : St} (h : Fr s s') : Same s s' :=
  ⟨h.chunk, h.slice, h.prompt, h.blacklist, h.slowDelay, h.slowChunk, h.logPrompt, h.nextDeath⟩

theorem Same.app {s s' : St} (h : Same s s') (tl : List Piece) : Same s (app s' tl) :=
  ⟨h.chunk, h.slice, h.prompt, h.blacklist, h.slowDelay, h.slowChunk, h.logPrompt, h.nextDeath⟩

theorem InSync.of_same {ps1 : Bytes} {s s' : St} (h : InSync ps1 s) (hs : Same s s')
    (hd : s'.deaths = []) (hst : s'.streams = []) (hsb : s'.streambuf = []) : InSync ps1 s' where
  prompt := by rw [hs.prompt]; exact h.prompt
  deaths := hd
  streams := hst
  streambuf := hsb
  chunk := by rw [hs.chunk]; exact h.chunk
  slice := by rw [hs.slice]; exact h.slice
  slow := by rw [hs.slowDelay, hs.slowChunk]; exact h.slow

theorem InSync.app {ps1 : Bytes} {s : St} (h : InSync ps1 s) (tl : List Piece) : InSync ps1 (app s tl) :=
  ⟨h.prompt, h.deaths, h.streams, h.streambuf, h.chunk, h.slice, h.slow⟩

theorem InSync.of_fr {ps1 : Bytes} {s s' : St} (h : InSync ps1 s) (hf : Fr s s') : InSync ps1 s' :=
  h.of_same (Same.of_fr hf) (by rw [hf.deaths]; exact h.deaths) (by rw [hf.streams]; exact h.streams)
    (by rw [(hf.quiet h.streams).2]; exact h.streambuf)

/-! ### the first half of `exec` -/

/-- `exec` up to and including the `with_stream` block (stream id 0 is the log event) -/
def phase1 (line : Bytes) (s : St) : Res (Bytes × Bytes) :=
  match sendline line true none s with
  | (.error e, s) => (.error e, s)
  | (.ok _, s) =>
    ((readUntilPrompt none none (streamEnter 0 false s).2).1,
     streamExit 0 (streamEnter 0 false s).1 (readUntilPrompt none none (streamEnter 0 false s).2).2)

theorem exec_eq (line : Bytes) (s : St) :
    exec line s = match phase1 line s with
      | (.error e, s) => (.error (.chan e), s)
      | (.ok (b, _), s) =>
        match fetchRetcode s with
        | (.error e, s) => (.error e, s)
        | (.ok rc, s) => (.ok (rc, text b), s) := by
  unfold exec phase1
  cases sendline line true none s with
  | mk r s1 =>
    cases r with
    | error e => rfl
    | ok u =>
      simp only
      cases readUntilPrompt none none (streamEnter 0 false s1).2 with
      | mk r2 s2 =>
        cases r2 with
        | error e => rfl
        | ok x => rfl

/-- **LOCALITY of the first half** -/
theorem phase1_app (line : Bytes) (s : St) (tl : List Piece) (r : Bytes × Bytes) (s' : St)
    (h : phase1 line s = (.ok r, s')) : phase1 line (app s tl) = (.ok r, app s' tl) := by
  unfold phase1 at h ⊢
  cases hs : sendline line true none s with
  | mk x s1 =>
    rw [hs] at h
    cases x with
    | error e => simp at h
    | ok u =>
      rw [sendline_app _ _ _ _ _ tl hs]
      simp only at h ⊢
      have h1 : (streamEnter 0 false (app s1 tl)).2 = app (streamEnter 0 false s1).2 tl := rfl
      have h2 : (streamEnter 0 false (app s1 tl)).1 = (streamEnter 0 false s1).1 := rfl
      rw [h1, h2]
      cases hr : readUntilPrompt none none (streamEnter 0 false s1).2 with
      | mk y s2 =>
        rw [hr] at h
        cases y with
        | error e => simp at h
        | ok v =>
          rw [readUntilPrompt_app _ _ _ tl _ _ hr]
          simp only [Prod.mk.injEq, Except.ok.injEq] at h ⊢
          exact ⟨h.1, by rw [← h.2]; rfl⟩

/-- **LOCALITY of `posix_fetch_return_code`** -/
theorem fetchRetcode_app (s : St) (tl : List Piece) (n : Nat) (s' : St)
    (h : fetchRetcode s = (.ok n, s')) : fetchRetcode (app s tl) = (.ok n, app s' tl) := by
  unfold fetchRetcode at h ⊢
  cases hs : sendline echoStatusLine true none s with
  | mk x s1 =>
    rw [hs] at h
    cases x with
    | error e => simp at h
    | ok u =>
      rw [sendline_app _ _ _ _ _ tl hs]
      simp only at h ⊢
      cases hr : readUntilPrompt none none s1 with
      | mk y s2 =>
        rw [hr] at h
        cases y with
        | error e => simp at h
        | ok v =>
          rw [readUntilPrompt_app _ _ _ tl _ _ hr]
          simp only at h ⊢
          cases hp : parseInt (text v.1) with
          | none => rw [hp] at h; simp at h
          | some m =>
            rw [hp] at h
            simp only [Prod.mk.injEq, Except.ok.injEq] at h ⊢
            exact ⟨h.1, by rw [h.2]⟩

/-- **LOCALITY of `exec`**: a successful command leaves everything that arrives after its own
    answer in the transport, untouched -/
theorem exec_app (line : Bytes) (s : St) (tl : List Piece) (r : Nat × List Char) (s' : St)
    (h : exec line s = (.ok r, s')) : exec line (app s tl) = (.ok r, app s' tl) := by
  rw [exec_eq] at h ⊢
  cases hp : phase1 line s with
  | mk x s1 =>
    rw [hp] at h
    cases x with
    | error e => simp at h
    | ok v =>
      rw [phase1_app _ _ tl _ _ hp]
      simp only at h ⊢
      cases hf : fetchRetcode s1 with
      | mk y s2 =>
        rw [hf] at h
        cases y with
        | error e => simp at h
        | ok n =>
          rw [fetchRetcode_app _ tl _ _ hf]
          simp only [Prod.mk.injEq, Except.ok.injEq] at h ⊢
          exact ⟨h.1, by rw [h.2]⟩

/-! ### EXACT: the first half -/

theorem take_prompt (a p : Bytes) : (a ++ p).take ((a ++ p).length - p.length) = a := by
  rw [List.length_append, Nat.add_sub_cancel, List.take_left']
  rfl

/-- on the answer `echo(line ⏎) ++ cook(out) ++ ps1` (cut in any way): the line is written, its
    echo consumed, `cook out` returned, the script exhausted, and the channel is idle again -/
theorem phase1_exact (ps1 line out : Bytes) (s : St) (hps : ps1 ≠ []) (hsync : InSync ps1 s) (hwf : WF s)
    (hbl : forbidden s.blacklist (line ++ [Tty.CR]) = false)
    (hflat : flat s.script = respCmd false ps1 line out)
    (hearly : NoEarly ps1 (Tty.cook out ++ ps1)) :
    ∃ s', phase1 line s = (.ok (Tty.cook out, Tty.cook out ++ ps1), s') ∧ s'.script = []
      ∧ accepted s'.writes = accepted s.writes ++ (line ++ [Tty.CR])
      ∧ InSync ps1 s' ∧ Same s s' := by
  have hflat' : flat s.script = Tty.echo false (line ++ [Tty.CR]) ++ (Tty.cook out ++ ps1) := by
    rw [hflat, respCmd, List.append_assoc]
  obtain ⟨s1, hsend, hfl1, hwf1, hfr1, hacc1⟩ := sendline_exact line s _ hsync.slice hsync.chunk hsync.slow
    hsync.deaths hwf hbl hflat'
  have hsync1 : InSync ps1 s1 := hsync.of_fr hfr1
  -- inside the `with_stream` block
  generalize hse : (streamEnter 0 false s1).2 = se
  have hse_prompt : se.prompt = some (.lit ps1) := by subst hse; exact hsync1.prompt
  have hse_deaths : se.deaths = [] := by subst hse; exact hsync1.deaths
  have hse_wf : WF se := by subst hse; exact hwf1
  have hse_chunk : 0 < se.chunk := by subst hse; exact hsync1.chunk
  have hse_flat : flat se.script = Tty.cook out ++ ps1 := by subst hse; exact hfl1
  have hse_streams : se.streams = [0] := by
    subst hse
    show s1.streams ++ [0] = [0]
    rw [hsync1.streams]; rfl
  have hse_lp : se.logPrompt = false := by subst hse; rfl
  have hse_sb : se.streambuf = [] := by subst hse; exact hsync1.streambuf
  have hse_same : Same s1 { se with logPrompt := s1.logPrompt } := by
    subst hse; exact ⟨rfl, rfl, rfl, rfl, rfl, rfl, rfl, rfl⟩
  have hse_writes : se.writes = s1.writes := by subst hse; rfl
  obtain ⟨s2, hrup, hsc2, hfr2, hw2, _⟩ := rup_exact ps1 (Tty.cook out ++ ps1) hps ⟨Tty.cook out, rfl⟩ hearly se
    hse_prompt hse_deaths hse_wf hse_chunk hse_flat
  rw [take_prompt] at hrup
  have hheld : s2.streambuf.length ≤ ps1.length :=
    hfr2.held ps1 hse_prompt (by rw [hse_sb]; exact Nat.zero_le _)
  have hkeep : exitKeep s2 = [] := by
    unfold exitKeep
    rw [hfr2.logPrompt, hse_lp, hfr2.prompt, hse_prompt]
    simp only
    exact List.drop_eq_nil_of_le hheld
  refine ⟨streamExit 0 s1.logPrompt s2, ?_, hsc2, ?_, ?_, ?_⟩
  · unfold phase1
    rw [hsend]
    simp only
    rw [hse, hrup]
    rfl
  · show accepted s2.writes = _
    rw [hw2, hse_writes, hacc1]
  · refine hsync1.of_same ?_ ?_ ?_ hkeep
    · exact ⟨by show s2.chunk = _; rw [hfr2.chunk]; subst hse; rfl,
             by show s2.slice = _; rw [hfr2.slice]; subst hse; rfl,
             by show s2.prompt = _; rw [hfr2.prompt]; subst hse; rfl,
             by show s2.blacklist = _; rw [hfr2.blacklist]; subst hse; rfl,
             by show s2.slowDelay = _; rw [hfr2.slowDelay]; subst hse; rfl,
             by show s2.slowChunk = _; rw [hfr2.slowChunk]; subst hse; rfl,
             rfl,
             by show s2.nextDeath = _; rw [hfr2.nextDeath]; subst hse; rfl⟩
    · show s2.deaths = []
      rw [hfr2.deaths]; exact hse_deaths
    · show s2.streams.erase 0 = []
      rw [hfr2.streams, hse_streams]; rfl
  · refine (Same.of_fr hfr1).trans ?_
    exact ⟨by show s2.chunk = _; rw [hfr2.chunk]; subst hse; rfl,
           by show s2.slice = _; rw [hfr2.slice]; subst hse; rfl,
           by show s2.prompt = _; rw [hfr2.prompt]; subst hse; rfl,
           by show s2.blacklist = _; rw [hfr2.blacklist]; subst hse; rfl,
           by show s2.slowDelay = _; rw [hfr2.slowDelay]; subst hse; rfl,
           by show s2.slowChunk = _; rw [hfr2.slowChunk]; subst hse; rfl,
           rfl,
           by show s2.nextDeath = _; rw [hfr2.nextDeath]; subst hse; rfl⟩

/-! ### EXACT: the `echo $?` round -/

/-- what makes the status answer parse: the prompt does not occur early in it, and `int()` of
    the text before the prompt is the status -/
structure StatusOk (ps1 : Bytes) (st : Nat) : Prop where
  early : NoEarly ps1 (Tty.cook (statusBytes st ++ [Tty.LF]) ++ ps1)
  parse : parseInt (text (Tty.cook (statusBytes st ++ [Tty.LF]))) = some st

theorem fetchRetcode_exact (ps1 : Bytes) (st : Nat) (s : St) (hps : ps1 ≠ []) (hsync : InSync ps1 s) (hwf : WF s)
    (hbl : forbidden s.blacklist (echoStatusLine ++ [Tty.CR]) = false)
    (hflat : flat s.script = respStatus false ps1 st) (hst : StatusOk ps1 st) :
    ∃ s', fetchRetcode s = (.ok st, s') ∧ s'.script = []
      ∧ accepted s'.writes = accepted s.writes ++ (echoStatusLine ++ [Tty.CR])
      ∧ InSync ps1 s' ∧ Same s s' := by
  have hflat' : flat s.script = Tty.echo false (echoStatusLine ++ [Tty.CR])
      ++ (Tty.cook (statusBytes st ++ [Tty.LF]) ++ ps1) := by
    rw [hflat, respStatus, respCmd, List.append_assoc]
  obtain ⟨s1, hsend, hfl1, hwf1, hfr1, hacc1⟩ := sendline_exact echoStatusLine s _ hsync.slice hsync.chunk
    hsync.slow hsync.deaths hwf hbl hflat'
  have hsync1 : InSync ps1 s1 := hsync.of_fr hfr1
  obtain ⟨s2, hrup, hsc2, hfr2, hw2, _⟩ := rup_exact ps1 _ hps ⟨Tty.cook (statusBytes st ++ [Tty.LF]), rfl⟩
    hst.early s1 hsync1.prompt hsync1.deaths hwf1 hsync1.chunk hfl1
  rw [take_prompt] at hrup
  refine ⟨s2, ?_, hsc2, by rw [hw2, hacc1], hsync1.of_fr hfr2, (Same.of_fr hfr1).trans (Same.of_fr hfr2)⟩
  unfold fetchRetcode
  rw [hsend]
  simp only
  rw [hrup]
  simp only
  rw [hst.parse]

end C01
