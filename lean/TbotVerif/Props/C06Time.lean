import TbotVerif.Props.ChanLemmas
/-! C06 — the time algebra: ONE predicate (`Timed`) about the log segment a piece of channel
    code produces under an overall deadline `(t0, T)`, closed under composition (`trans`),
    under nesting a fresh deadline computed by `remaining` (`nest`) and under everything that
    does not touch clock / read log (`of_eq`, `side`). -/

namespace C06
open Chan Spec

/-! ### which results are a `TimeoutError` -/

def excTmo : Exc → Bool
  | .timeout => true
  | _ => false

def isTmo {α : Type} : Except Exc α → Bool
  | .error e => excTmo e
  | .ok _ => false

def stepTmo : Step → Bool
  | .err e => excTmo e
  | _ => false

def optTmo : Option Exc → Bool
  | some e => excTmo e
  | none => false

theorem excTmo_eq {e : Exc} (h : excTmo e = true) : e = .timeout := by
  cases e <;> first | rfl | simp [excTmo] at h

/-! ### one transport request under a deadline -/

/-- the request `r` was issued under the overall deadline `(t0, T)`: not before `t0`, strictly
    inside the deadline (or at it when `T = 0` is passed straight through), and it carries
    exactly the time that is left -/
structure RecOk (t0 : Nat) (T : Option Nat) (r : ReadRec) : Prop where
  ge : t0 ≤ r.t0
  none : T = none → r.timeout = none
  some : ∀ T', T = some T' → r.t0 - t0 ≤ T' ∧ r.timeout = some (T' - (r.t0 - t0))

/-- virtual time of the return of the last request (`base` when there was none) -/
def lastT1 (base : Nat) (recs : List ReadRec) : Nat :=
  match recs.getLast? with
  | none => base
  | some r => r.t1

@[simp] theorem lastT1_nil (base : Nat) : lastT1 base [] = base := rfl

@[simp] theorem lastT1_single (base : Nat) (r : ReadRec) : lastT1 base [r] = r.t1 := rfl

theorem lastT1_append (base : Nat) (r1 r2 : List ReadRec) :
    lastT1 base (r1 ++ r2) = lastT1 (lastT1 base r1) r2 := by
  unfold lastT1
  rw [List.getLast?_append]
  cases r2.getLast? with
  | none => simp
  | some r => simp

/-! ### `remaining` -/

theorem remaining_none {T : Option Nat} {t0 now : Nat} (h : remaining T t0 now = none) (hle : t0 ≤ now) :
    ∃ T', T = some T' ∧ t0 + T' ≤ now := by
  unfold remaining at h
  cases T with
  | none => simp at h
  | some t =>
    simp only at h
    split at h
    · rename_i hc; exact ⟨t, rfl, by omega⟩
    · simp at h

theorem remaining_some {T : Option Nat} {t0 now : Nat} {rem : Option Nat} (h : remaining T t0 now = some rem) :
    (T = none → rem = none) ∧ (∀ T', T = some T' → now - t0 < T' ∧ rem = some (T' - (now - t0))) := by
  unfold remaining at h
  cases T with
  | none =>
    simp only [Option.some.injEq] at h
    exact ⟨fun _ => h.symm, fun T' hT => by simp at hT⟩
  | some t =>
    simp only at h
    split at h
    · simp at h
    · rename_i hc
      simp only [Option.some.injEq] at h
      refine ⟨fun hT => by simp at hT, fun T' hT => ?_⟩
      simp only [Option.some.injEq] at hT
      subst hT
      exact ⟨by omega, h.symm⟩

/-! ### the predicate -/

/-- Between `s` and `s'` the transport requests `recs` were issued, all under the overall
    deadline `(t0, T)`.  `b` says whether this piece of code ended in a `TimeoutError`.
    The guard `q` is the proposition under which no *other* source of delay (the sleeps of
    slow sending) was active: only then is the clock tied to the transport log. -/
structure Timed (q : Prop) (t0 : Nat) (T : Option Nat) (s s' : St) (recs : List ReadRec) (b : Bool) : Prop where
  reads : s'.reads = s.reads ++ recs
  slow : s'.slowDelay = s.slowDelay
  recOk : ∀ r ∈ recs, RecOk t0 T r
  mono : s.now ≤ s'.now
  /-- never past the deadline -/
  dead : q → ∀ T', T = some T' → s.now ≤ t0 + T' → s'.now ≤ t0 + T'
  /-- the clock stands where the last request returned -/
  last : q → lastT1 s.now recs = s'.now
  /-- a `TimeoutError` needs a timeout and is never early -/
  tmo : b = true → ∃ T', T = some T' ∧ t0 + T' ≤ s'.now

theorem Timed.refl (q : Prop) (t0 : Nat) (T : Option Nat) (s : St) : Timed q t0 T s s [] false :=
  { reads := by simp, slow := rfl, recOk := by simp, mono := Nat.le_refl _,
    dead := fun _ _ _ h => h, last := fun _ => rfl, tmo := by simp }

/-- nothing happened, and the deadline had passed -/
theorem Timed.expired (q : Prop) {t0 : Nat} {T : Option Nat} (s : St)
    (h : remaining T t0 s.now = none) (hle : t0 ≤ s.now) : Timed q t0 T s s [] true :=
  { reads := by simp, slow := rfl, recOk := by simp, mono := Nat.le_refl _,
    dead := fun _ _ _ h => h, last := fun _ => rfl, tmo := fun _ => remaining_none h hle }

theorem Timed.trans {q : Prop} {t0 : Nat} {T : Option Nat} {a b c : St} {r1 r2 : List ReadRec} {b1 b2 : Bool}
    (h1 : Timed q t0 T a b r1 b1) (h2 : Timed q t0 T b c r2 b2) : Timed q t0 T a c (r1 ++ r2) b2 :=
  { reads := by rw [h2.reads, h1.reads, List.append_assoc]
    slow := by rw [h2.slow, h1.slow]
    recOk := by
      intro r hr
      rcases List.mem_append.mp hr with h | h
      · exact h1.recOk r h
      · exact h2.recOk r h
    mono := Nat.le_trans h1.mono h2.mono
    dead := fun hq T' hT ha => h2.dead hq T' hT (h1.dead hq T' hT ha)
    last := fun hq => by rw [lastT1_append, h1.last hq, h2.last hq]
    tmo := h2.tmo }

/-- only clock, read log and slow-send setting of the two end states matter -/
theorem Timed.of_eq {q : Prop} {t0 : Nat} {T : Option Nat} {a a' b b' : St} {recs : List ReadRec} {x : Bool}
    (h : Timed q t0 T a b recs x)
    (ha1 : a'.now = a.now) (ha2 : a'.reads = a.reads) (ha3 : a'.slowDelay = a.slowDelay)
    (hb1 : b'.now = b.now) (hb2 : b'.reads = b.reads) (hb3 : b'.slowDelay = b.slowDelay) :
    Timed q t0 T a' b' recs x :=
  { reads := by rw [hb2, ha2]; exact h.reads
    slow := by rw [hb3, ha3]; exact h.slow
    recOk := h.recOk
    mono := by rw [ha1, hb1]; exact h.mono
    dead := by rw [ha1, hb1]; exact h.dead
    last := by rw [ha1, hb1]; exact h.last
    tmo := by rw [hb1]; exact h.tmo }

theorem Timed.side {q : Prop} {t0 : Nat} {T : Option Nat} {a b c : St} {recs : List ReadRec} {x : Bool}
    (h : Timed q t0 T a b recs x) (hs : SideFrame b c) : Timed q t0 T a c recs x :=
  h.of_eq rfl rfl rfl hs.now hs.reads hs.slowDelay

/-- the flag may be changed to anything that is not a `TimeoutError` -/
theorem Timed.noTmo {q : Prop} {t0 : Nat} {T : Option Nat} {a b : St} {recs : List ReadRec} {x : Bool}
    (h : Timed q t0 T a b recs x) : Timed q t0 T a b recs false :=
  { reads := h.reads, slow := h.slow, recOk := h.recOk, mono := h.mono, dead := h.dead, last := h.last,
    tmo := by simp }

theorem Timed.flag {q : Prop} {t0 : Nat} {T : Option Nat} {a b : St} {recs : List ReadRec} {x y : Bool}
    (h : Timed q t0 T a b recs x) (hxy : y = true → x = true) : Timed q t0 T a b recs y :=
  { reads := h.reads, slow := h.slow, recOk := h.recOk, mono := h.mono, dead := h.dead, last := h.last,
    tmo := fun hy => h.tmo (hxy hy) }

theorem Timed.guard {q q' : Prop} {t0 : Nat} {T : Option Nat} {a b : St} {recs : List ReadRec} {x : Bool}
    (h : Timed q t0 T a b recs x) (hq : q' → q) : Timed q' t0 T a b recs x :=
  { reads := h.reads, slow := h.slow, recOk := h.recOk, mono := h.mono,
    dead := fun h' => h.dead (hq h'), last := fun h' => h.last (hq h'), tmo := h.tmo }

/-- **nesting**: code that runs under the fresh deadline `(s.now, rem)` where `rem` is what
    `remaining` left of `(t0, T)` runs under `(t0, T)` -/
theorem Timed.nest {q : Prop} {t0 : Nat} {T : Option Nat} {s s' : St} {recs : List ReadRec} {x : Bool}
    {rem : Option Nat} (hle : t0 ≤ s.now) (hrem : remaining T t0 s.now = some rem)
    (h : Timed q s.now rem s s' recs x) : Timed q t0 T s s' recs x := by
  obtain ⟨hn, hs⟩ := remaining_some hrem
  exact {
    reads := h.reads, slow := h.slow, mono := h.mono, last := h.last
    recOk := by
      intro r hr
      have hr := h.recOk r hr
      refine ⟨Nat.le_trans hle hr.ge, fun hT => hr.none (hn hT), fun T' hT => ?_⟩
      obtain ⟨h1, h2⟩ := hs T' hT
      obtain ⟨h3, h4⟩ := hr.some _ h2
      have := hr.ge
      refine ⟨by omega, ?_⟩
      rw [h4]; congr 1; omega
    dead := by
      intro hq T' hT _
      obtain ⟨h1, h2⟩ := hs T' hT
      have := h.dead hq _ h2 (Nat.le_add_right _ _)
      omega
    tmo := by
      intro hx
      obtain ⟨R, hR, hle'⟩ := h.tmo hx
      cases T with
      | none => have := hn rfl; rw [this] at hR; simp at hR
      | some T' =>
        obtain ⟨h1, h2⟩ := hs T' rfl
        rw [h2] at hR
        simp only [Option.some.injEq] at hR
        exact ⟨T', rfl, by omega⟩ }

/-! ### one transport read -/

/-- the transport honours the timeout it is given (the contract of `ChannelIO.read`) -/
theorem ioRead_le (n : Nat) (s : St) (T : Nat) : (ioRead n (some T) s).2.now ≤ s.now + T := by
  unfold ioRead
  split
  · simp [ioFail]
  · split
    · simp [ioDeliver]
    · simp only
      split
      · rename_i h; simpa [ioDeliver] using h
      · simp [ioFail]

theorem ioRead_timed (q : Prop) (n : Nat) (t : Option Nat) (s : St) :
    ∃ rec, Timed q s.now t s (ioRead n t s).2 [rec] (isTmo (ioRead n t s).1) := by
  obtain ⟨rec, hio⟩ := ioRead_spec n t s
  refine ⟨rec, ?_⟩
  exact {
    reads := hio.frame.reads
    slow := hio.frame.slowDelay
    recOk := by
      intro r hr
      simp only [List.mem_singleton] at hr
      subst hr
      refine ⟨by rw [hio.ht0]; exact Nat.le_refl _, fun h => by rw [hio.htimeout, h], fun T' hT => ?_⟩
      rw [hio.htimeout, hio.ht0, hT]
      simp
    mono := hio.frame.now
    dead := by
      intro _ T' hT _
      subst hT
      exact ioRead_le n s T'
    last := fun _ => by rw [lastT1_single, hio.ht1]
    tmo := by
      intro hb
      cases hr : (ioRead n t s).1 with
      | ok d => rw [hr] at hb; simp [isTmo] at hb
      | error e =>
        rw [hr] at hb
        have he := excTmo_eq hb
        obtain ⟨T', hT, hnow⟩ := (hio.err e hr).2.2.1 he
        exact ⟨T', hT, by omega⟩ }

end C06
