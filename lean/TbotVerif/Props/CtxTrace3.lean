import TbotVerif.Props.CtxTrace2
set_option linter.unusedSimpArgs false
set_option linter.unusedVariables false
/-! Third invariant: `init`, entering a request, all levels, loops. -/
namespace Ctx

def ReG (re : Bool → Nat → Bool → Bool → Option Bool → St → St × (Frame ⊕ Exc)) : Prop :=
  ∀ (P : Nat → Nat) (B : List Nat) (dep : Bool) (c : Nat) (reset excl : Bool) (roe : Option Bool) (s : St),
    Inv B s → (∀ b ∈ B, c < b) → Inv3 P s →
    Inv3 P (re dep c reset excl roe s).1 ∧ (G4 s → G4 (re dep c reset excl roe s).1) ∧
    (re dep c reset excl roe s).1.keepAlive = s.keepAlive ∧
    (∀ f, (re dep c reset excl roe s).2 = .inl f → f.dep = dep ∧
      ∃ t1, TGrow s.trace t1 ∧ (re dep c reset excl roe s).1.trace = .yielded dep c f.obj :: t1) ∧
    (∀ e, (re dep c reset excl roe s).2 = .inr e → TGrow s.trace (re dep c reset excl roe s).1.trace)

def DepG (re : Nat → Bool → St → St × (Frame ⊕ Exc)) : Prop :=
  ∀ (P : Nat → Nat) (B : List Nat) (d : Nat) (x : Bool) (s : St),
    Inv B s → (∀ b ∈ B, d < b) → Inv3 P s →
    Inv3 P (re d x s).1 ∧ (G4 s → G4 (re d x s).1) ∧ (re d x s).1.keepAlive = s.keepAlive ∧
    TGrow s.trace (re d x s).1.trace ∧ (∀ f, (re d x s).2 = .inl f → f.dep = true)

def IniG (ini : Nat → St → R) : Prop :=
  ∀ (P : Nat → Nat) (B : List Nat) (c : Nat) (s : St), Inv B s → (∀ b ∈ B, c < b) → Inv3 P s →
    Inv3 P (ini c s).1 ∧ TGrow s.trace (ini c s).1.trace ∧ (G4 s → G4 (ini c s).1) ∧
    (ini c s).1.keepAlive = s.keepAlive

theorem DepG.of_ReG {re : Bool → Nat → Bool → Bool → Option Bool → St → St × (Frame ⊕ Exc)}
    (h : ReG re) : DepG (fun d x s => re true d false x none s) := by
  intro P B d x s hI hb h3
  have := h P B true d false x none s hI hb h3
  refine ⟨this.1, this.2.1, this.2.2.1, ?_, fun f hf => (this.2.2.2.1 f hf).1⟩
  cases hr : (re true d false x none s).2 with
  | inl f =>
    obtain ⟨_, t1, ht1, htr⟩ := this.2.2.2.1 f hr
    rw [htr]
    exact ht1.cons rfl
  | inr e => exact this.2.2.2.2 e hr

theorem enterDeps_G {re : Nat → Bool → St → St × (Frame ⊕ Exc)} (hS : DepSpec re) (hG : DepG re)
    (c n0 : Nat) :
    ∀ (ds : List (Nat × Bool)) (P : Nat → Nat) (B : List Nat) (s : St) (L : List Frame), Inv B s →
      (∀ d ∈ ds, d.1 < c) → (∀ d ∈ ds, ∀ b ∈ B, d.1 < b) → n0 ≤ s.nFrame → DepsOk c n0 L s →
      (∀ f ∈ L, f.dep = true) → Inv3 P s →
      Inv3 P (enterDepsWith re ds s L).1 ∧ TGrow s.trace (enterDepsWith re ds s L).1.trace ∧
      (G4 s → G4 (enterDepsWith re ds s L).1) ∧ (enterDepsWith re ds s L).1.keepAlive = s.keepAlive ∧
      (∀ f ∈ (enterDepsWith re ds s L).2.1, f.dep = true) := by
  intro ds
  induction ds with
  | nil =>
    intro P B s L _ _ _ _ _ hL h3
    exact ⟨h3, TGrow.refl _, fun g => g, rfl, hL⟩
  | cons d ds ih =>
    intro P B s L h hc hb hn hd hL h3
    unfold enterDepsWith
    have h1 := hS B d.1 d.2 s h (hb d (by simp))
    have g1 := hG P B d.1 d.2 s h (hb d (by simp)) h3
    generalize re d.1 d.2 s = r at h1 g1 ⊢
    obtain ⟨s1, res⟩ := r
    cases res with
    | inr e =>
      simp only
      exact ⟨g1.1, g1.2.2.2.1, g1.2.1, g1.2.2.1, hL⟩
    | inl f =>
      simp only
      obtain ⟨hfo, hfh, hfc, hfid⟩ := h1.2.2 f rfl
      simp only at hfo hfh hfid h1 g1
      have hp1 : Pend L s1 := hd.pend.tr h1.2.1.tr h.idLt (by simp)
      have hnotin : f ∉ L := by
        intro hm
        have := h.idLt f (hd.pend.isOpen f hm)
        omega
      have hd1 : DepsOk c n0 (L ++ [f]) s1 := by
        refine ⟨⟨?_, ?_, ?_⟩, ?_, ?_⟩
        · rw [List.nodup_append]
          refine ⟨hp1.nodup, by simp, ?_⟩
          intro a ha b hb
          simp at hb
          subst hb
          intro hab
          exact hnotin (hab ▸ ha)
        · intro g hg
          rcases List.mem_append.mp hg with hg | hg
          · exact hp1.isOpen g hg
          · simp at hg; subst hg; exact hfo
        · intro g hg
          rcases List.mem_append.mp hg with hg | hg
          · exact hp1.notHeld g hg
          · simp at hg; subst hg; exact hfh
        · intro g hg
          rcases List.mem_append.mp hg with hg | hg
          · exact hd.small g hg
          · simp at hg; subst hg; rw [hfc]; exact hc d (by simp)
        · intro g hg
          rcases List.mem_append.mp hg with hg | hg
          · exact hd.fresh g hg
          · simp at hg; subst hg; omega
      have hL1 : ∀ g ∈ L ++ [f], g.dep = true := by
        intro g hg
        rcases List.mem_append.mp hg with hg | hg
        · exact hL g hg
        · simp at hg; subst hg; exact g1.2.2.2.2 g rfl
      have := ih P B s1 (L ++ [f]) h1.1 (fun d' hd' => hc d' (List.mem_cons_of_mem _ hd'))
        (fun d' hd' => hb d' (List.mem_cons_of_mem _ hd')) (Nat.le_trans hn h1.2.1.tr.nFrame_le) hd1 hL1 g1.1
      exact ⟨this.1, g1.2.2.2.1.trans this.2.1, fun g => this.2.2.1 (g1.2.1 g),
        this.2.2.2.1.trans g1.2.2.1, this.2.2.2.2⟩

section
variable (cfg : Cfg)

theorem teardownF_clears (rx : Frame → St → Option Exc → R) (c : Nat) (s : St) :
    ((teardownF cfg rx c s).1.mgrs c).inst = none := by
  unfold teardownF
  cases hi : (s.mgr c).inst with
  | none => simpa [St.ctxError, St.newExc, St.mgr] using hi
  | some o => simp [St.setMgr]

theorem initClsF_G {re : Nat → Bool → St → St × (Frame ⊕ Exc)}
    {rx : Frame → St → Option Exc → R} (hwf : cfg.depsBelow) (hS : DepSpec re) (hG : DepG re)
    (hSx : RxSpec rx) (hGx : RxG rx) : IniG (initClsF cfg re rx) := by
  intro P B c s h hb h3
  have hcB : c ∉ B := fun hm => Nat.lt_irrefl _ (hb _ hm)
  unfold initClsF
  split
  · have hs := same3_newExc s .ctx
    exact ⟨h3.same hs, hs.tgrow, fun g => g.same hs, rfl⟩
  · rename_i hal
    have hi : (s.mgrs c).inst = none := by
      simpa [St.alive, St.mgr] using hal
    simp only
    have hsa : s.setMgr c { s.mgr c with avail := true } = s.setAvail c true := rfl
    rw [hsa]
    have ha : Inv (c :: B) (s.setAvail c true) :=
      (h.setAvail c true).busy (by simp [St.setAvail, hi])
    have hlt : ∀ d ∈ cfg.depsOf c, ∀ b ∈ c :: B, d.1 < b := by
      intro d hd b hbm
      rcases List.mem_cons.mp hbm with rfl | hbm
      · exact hwf _ d hd
      · exact Nat.lt_trans (hwf c d hd) (hb b hbm)
    have hE := enterDeps_spec hS c s.nFrame (cfg.depsOf c) (c :: B) (s.setAvail c true) [] ha
      (hwf c) hlt (Nat.le_refl _) ⟨Pend.nil _, by simp, by simp⟩
    have gE := enterDeps_G hS hG c s.nFrame (cfg.depsOf c) P (c :: B) (s.setAvail c true) [] ha
      (hwf c) hlt (Nat.le_refl _) ⟨Pend.nil _, by simp, by simp⟩ (by simp) (h3.setAvail c true)
    generalize enterDepsWith re (cfg.depsOf c) (s.setAvail c true) [] = r at hE gE ⊢
    obtain ⟨s1, L, eo⟩ := r
    simp only at hE gE ⊢
    obtain ⟨hI1, hS1, hD1⟩ := hE
    have hg01 : TGrow s.trace s1.trace := gE.2.1
    have g401 : G4 s → G4 s1 := fun g => gE.2.2.1 ⟨g.ka, g.good⟩
    have hk01 : s1.keepAlive = s.keepAlive := gE.2.2.2.1
    have hltL : ∀ f ∈ L.reverse, f.dep = true ∧ ∀ b ∈ c :: B, f.cls < b := by
      intro f hf
      have hfm := List.mem_reverse.mp hf
      have hfc := hD1.small f hfm
      refine ⟨gE.2.2.2.2 f hfm, ?_⟩
      intro b hbm
      rcases List.mem_cons.mp hbm with rfl | hbm
      · exact hfc
      · exact Nat.lt_trans hfc (hb b hbm)
    cases eo with
    | some ex =>
      simp only
      have g := exitFrames_G hSx hGx L.reverse P (c :: B) s1 (some ex) hI1 hD1.pend.reverse hltL gE.1
      exact ⟨g.1, hg01.trans g.2.1, fun g4 => g.2.2.1 (g401 g4), g.2.2.2.trans hk01⟩
    | none =>
      simp only
      have hmu := machineUp_new cfg (s := s1) (c := c)
      have hms := machineUp_same3 cfg (({ s1 with nObj := s1.nObj + 1 } : St).setObj s1.nObj
        { cls := c, rc := 0, up := false }) s1.nObj
      simp only at hmu
      generalize machineUp cfg (({ s1 with nObj := s1.nObj + 1 } : St).setObj s1.nObj
        { cls := c, rc := 0, up := false }) s1.nObj = r1 at hmu hms ⊢
      have hs1 : Same3 s1 r1.1 := ⟨hms.mgrs, hms.keepAlive, hms.trace⟩
      cases hr1 : r1.2 with
      | some ex =>
        simp only
        have hx := hmu.2 ex hr1
        have hI2' : Inv (c :: B) r1.1 := (hI1.failedInit ex).ext hx
        have hp2 : Pend L.reverse r1.1 := by
          refine Pend.reverse ⟨hD1.pend.nodup, ?_, ?_⟩
          · intro f hf; rw [hx.open_]; exact hD1.pend.isOpen f hf
          · intro f hf k; rw [hx.mgrs]; exact hD1.pend.notHeld f hf k
        have g := exitFrames_G hSx hGx L.reverse P (c :: B) r1.1 (some ex) hI2' hp2 hltL (gE.1.same hs1)
        exact ⟨g.1, (hg01.trans hs1.tgrow).trans g.2.1, fun g4 => g.2.2.1 ((g401 g4).same hs1),
          (g.2.2.2.trans hs1.keepAlive).trans hk01⟩
      | none =>
        simp only
        have h3r1 : Inv3 P r1.1 := gE.1.same hs1
        refine ⟨?_, hg01.trans hs1.tgrow, fun g4 => ?_, hs1.keepAlive.trans hk01⟩
        · constructor
          · intro k f hf
            simp only [St.setMgr, St.mgr] at hf
            by_cases hk : k = c
            · subst hk; simp at hf; exact gE.2.2.2.2 f hf
            · simp [hk] at hf; exact h3r1.heldDep k f hf
          · intro k
            have := h3r1.opens k
            simp only [St.setMgr, St.mgr]
            by_cases hk : k = c
            · subst hk; simpa using this
            · simpa [hk] using this
        · have := (g401 g4).same hs1
          exact ⟨this.ka, this.good⟩

theorem admitStep_G {td : Nat → St → R} {P : Nat → Nat} {B : List Nat} (dep : Bool) {c : Nat}
    (excl roe : Bool) {s : St} (h : Inv B s) (hcB : c ∉ B) (h3 : Inv3 P s) :
    Inv3 P (admitStep cfg td dep c excl roe s).1 ∧ (G4 s → G4 (admitStep cfg td dep c excl roe s).1) ∧
    (admitStep cfg td dep c excl roe s).1.keepAlive = s.keepAlive ∧
    (∀ f, (admitStep cfg td dep c excl roe s).2 = .inl f → f.dep = dep ∧
      (admitStep cfg td dep c excl roe s).1.trace = .yielded dep c f.obj :: s.trace) ∧
    (∀ e, (admitStep cfg td dep c excl roe s).2 = .inr e →
      TGrow s.trace (admitStep cfg td dep c excl roe s).1.trace) := by
  have herr : ∀ (heq : admitStep cfg td dep c excl roe s = ((s.newExc .ctx).1, .inr (s.newExc .ctx).2)),
      Inv3 P (admitStep cfg td dep c excl roe s).1 ∧ (G4 s → G4 (admitStep cfg td dep c excl roe s).1) ∧
      (admitStep cfg td dep c excl roe s).1.keepAlive = s.keepAlive ∧
      (∀ f, (admitStep cfg td dep c excl roe s).2 = .inl f → f.dep = dep ∧
        (admitStep cfg td dep c excl roe s).1.trace = .yielded dep c f.obj :: s.trace) ∧
      (∀ e, (admitStep cfg td dep c excl roe s).2 = .inr e →
        TGrow s.trace (admitStep cfg td dep c excl roe s).1.trace) := by
    intro heq
    rw [heq]
    have hs := same3_newExc s .ctx
    exact ⟨h3.same hs, fun g => g.same hs, rfl, by simp, fun _ _ => hs.tgrow⟩
  cases hi : (s.mgrs c).inst with
  | none => exact herr (by unfold admitStep; simp [St.mgr, hi])
  | some o =>
    cases hav : (s.mgrs c).avail with
    | false => exact herr (by unfold admitStep; simp [St.mgr, hi, hav])
    | true =>
      obtain ⟨_, hrc⟩ := h.instLive c o hi hcB
      have hpos : 1 ≤ (s.objs o).rc := by omega
      rw [admitStep_ok cfg hi hav hpos]
      simp only
      have htr : ∀ (x : St), ((if x.order.contains c then x else { x with order := x.order ++ [c] }).log
          (.yielded dep c o)).trace = .yielded dep c o :: x.trace := by
        intro x; simp only [St.log]; split <;> rfl
      have hmg : ∀ (x : St), ((if x.order.contains c then x else { x with order := x.order ++ [c] }).log
          (.yielded dep c o)).mgrs = x.mgrs := by
        intro x; simp only [St.log]; split <;> rfl
      have hka : ∀ (x : St), ((if x.order.contains c then x else { x with order := x.order ++ [c] }).log
          (.yielded dep c o)).keepAlive = x.keepAlive := by
        intro x; simp only [St.log]; split <;> rfl
      refine ⟨?_, ?_, ?_, ?_, by simp⟩
      · constructor
        · intro k f hf
          rw [hmg] at hf
          simp only [St.frameIn] at hf
          by_cases hk : k = c
          · subst hk; simp at hf; exact h3.heldDep k f hf
          · simp [hk] at hf; exact h3.heldDep k f hf
        · intro k
          rw [htr, hmg]
          have := h3.opens k
          simp only [St.frameIn, opens_yielded]
          by_cases hk : k = c
          · subst hk; simp; omega
          · have hk' : c ≠ k := fun h' => hk h'.symm
            simpa [hk, hk'] using this
      · intro g4
        refine ⟨by rw [hka]; exact g4.ka, ?_⟩
        rw [htr]
        simp [always_cons, condRelease, St.frameIn, g4.good]
      · rw [hka]; rfl
      · intro f hf
        simp at hf
        subst hf
        exact ⟨rfl, by rw [htr]; rfl⟩

theorem reqEnterF_G {td ini : Nat → St → R} (hS : TdSpec td) (hG : TdG td) (hSi : IniSpec ini)
    (hGi : IniG ini) : ReG (reqEnterF cfg td ini) := by
  intro P B dep c reset excl roe s h hb h3
  have hcB : c ∉ B := fun hm => Nat.lt_irrefl _ (hb _ hm)
  unfold reqEnterF
  simp only
  split
  · have hs := same3_newExc s .ctx
    exact ⟨h3.same hs, fun g => g.same hs, rfl, by simp, fun _ _ => hs.tgrow⟩
  · have h0 := resetStep_spec hS reset h hb
    have g0 : Inv3 P (resetStep td c reset s).1 ∧ TGrow s.trace (resetStep td c reset s).1.trace ∧
        (G4 s → G4 (resetStep td c reset s).1) ∧ (resetStep td c reset s).1.keepAlive = s.keepAlive := by
      unfold resetStep
      split
      · exact hG P B c s h hb h3
      · exact ⟨h3, TGrow.refl _, fun g => g, rfl⟩
    generalize resetStep td c reset s = r0 at h0 g0 ⊢
    cases he0 : r0.2 with
    | some ex =>
      simp only
      exact ⟨g0.1, g0.2.2.1, g0.2.2.2, by simp, fun _ _ => g0.2.1⟩
    | none =>
      simp only
      have h1 := ensureStep_spec hSi h0.1 hb
      have g1 : Inv3 P (ensureStep ini c r0.1).1 ∧ TGrow r0.1.trace (ensureStep ini c r0.1).1.trace ∧
          (G4 r0.1 → G4 (ensureStep ini c r0.1).1) ∧ (ensureStep ini c r0.1).1.keepAlive = r0.1.keepAlive := by
        unfold ensureStep
        split
        · exact hGi P B c r0.1 h0.1 hb g0.1
        · exact ⟨g0.1, TGrow.refl _, fun g => g, rfl⟩
      generalize ensureStep ini c r0.1 = r1 at h1 g1 ⊢
      have t01 : TGrow s.trace r1.1.trace := g0.2.1.trans g1.2.1
      cases he1 : r1.2 with
      | some ex =>
        simp only
        exact ⟨g1.1, fun g => g1.2.2.1 (g0.2.2.1 g), g1.2.2.2.trans g0.2.2.2, by simp, fun _ _ => t01⟩
      | none =>
        simp only
        have g2 := admitStep_G cfg (td := td) dep excl (roe.getD s.roeDefault) h1.1 hcB g1.1
        generalize admitStep cfg td dep c excl (roe.getD s.roeDefault) r1.1 = r2 at g2 ⊢
        refine ⟨g2.1, fun g => g2.2.1 (g1.2.2.1 (g0.2.2.1 g)),
          (g2.2.2.1.trans g1.2.2.2).trans g0.2.2.2, ?_, ?_⟩
        · intro f hf
          obtain ⟨hd, htr⟩ := g2.2.2.2.1 f hf
          exact ⟨hd, r1.1.trace, t01, htr⟩
        · intro e he
          exact t01.trans (g2.2.2.2.2 e he)

theorem ops_G (hwf : cfg.depsBelow) :
    ∀ k, TdG (ops cfg k).teardown ∧ RxG (ops cfg k).reqExit ∧ ReG (ops cfg k).reqEnter := by
  intro k
  induction k with
  | zero =>
    refine ⟨?_, ?_, ?_⟩
    · intro P B c s _ _ h3; exact ⟨h3, TGrow.refl _, fun g => g, rfl⟩
    · intro P B f s e _ _ _ _ h3
      exact ⟨h3, ⟨s.trace, TGrow.refl _, Or.inr rfl⟩, fun g => g, rfl⟩
    · intro P B dep c reset excl roe s _ _ h3
      exact ⟨h3, fun g => g, rfl, by simp [ops], fun _ _ => TGrow.refl _⟩
  | succ k ih =>
    obtain ⟨_, hGx, hGe⟩ := ih
    obtain ⟨_, hSx, hSe⟩ := ops_spec cfg hwf k
    have hStd : TdSpec (teardownF cfg (ops cfg k).reqExit) := teardownF_spec cfg hSx
    have hGtd : TdG (teardownF cfg (ops cfg k).reqExit) := teardownF_G cfg hSx hGx
    have hSdep : DepSpec (fun d x s => (ops cfg k).reqEnter true d false x none s) :=
      fun B d x s h hb => hSe B true d false x none s h hb
    have hSini := initClsF_spec cfg hwf hSdep hSx
    have hGini := initClsF_G cfg hwf hSdep (DepG.of_ReG hGe) hSx hGx
    exact ⟨hGtd, reqExitF_G cfg hStd hGtd (fun c s => teardownF_clears cfg _ c s),
      reqEnterF_G cfg hStd hGtd hSini hGini⟩

theorem tdLoop_G {td : Nat → St → R} (hS : TdSpec td) (hG : TdG td) (cond : St → Nat → Bool)
    (P : Nat → Nat) :
    ∀ (cs : List Nat) (s : St) (e : Option Exc), Inv [] s → Inv3 P s →
      Inv3 P (tdLoop td cond cs s e).1 ∧ TGrow s.trace (tdLoop td cond cs s e).1.trace ∧
      (G4 s → G4 (tdLoop td cond cs s e).1) := by
  intro cs
  induction cs with
  | nil => intro s e _ h3; exact ⟨h3, TGrow.refl _, fun g => g⟩
  | cons c cs ih =>
    intro s e h h3
    unfold tdLoop
    split
    · have h1 := hS [] c s h (by simp)
      have g1 := hG P [] c s h (by simp) h3
      have := ih (td c s).1 (first e (td c s).2) h1.1 g1.1
      exact ⟨this.1, g1.2.1.trans this.2.1, fun g => this.2.2 (g1.2.2.1 g)⟩
    · exact ih s e h h3

end

end Ctx
