import TbotVerif.Base.Re
/-! Bounds of search results (`bytes.find`, `re.search`). -/

theorem isPrefixOf_length {α} [BEq α] : ∀ (p s : List α), p.isPrefixOf s = true → p.length ≤ s.length
  | [], _, _ => Nat.zero_le _
  | _ :: _, [], h => by simp [List.isPrefixOf] at h
  | a :: p, b :: s, h => by
    simp only [List.isPrefixOf, Bool.and_eq_true] at h
    have := isPrefixOf_length p s h.2
    simp only [List.length_cons]; omega

theorem findSub_bound (pat : Bytes) : ∀ (s : Bytes) (i : Nat), findSub pat s = some i →
    i + pat.length ≤ s.length := by
  intro s
  induction s with
  | nil =>
    intro i h
    unfold findSub at h
    split at h
    · rename_i he
      have : pat = [] := by simpa using he
      subst this
      simp only [Option.some.injEq] at h; subst h; simp
    · simp at h
  | cons c t ih =>
    intro i h
    unfold findSub at h
    split at h
    · rename_i hp
      simp only [Option.some.injEq] at h; subst h
      have := isPrefixOf_length _ _ hp
      simpa using this
    · cases hf : findSub pat t with
      | none => rw [hf] at h; simp at h
      | some j =>
        rw [hf] at h
        simp only [Option.map_some, Option.some.injEq] at h
        subst h
        have := ih j hf
        simp only [List.length_cons]; omega

namespace Re

theorem matchAt_bound (r : Re) (s : Bytes) (n : Nat) (h : matchAt r s = some n) : n ≤ s.length := by
  unfold matchAt at h
  -- the continuation only ever returns `s.length - rest.length`
  have key : ∀ {β} (r : Re) (s : Bytes) (k : Bytes → Option β) (P : β → Prop),
      (∀ t x, k t = some x → P x) → ∀ x, M r s k = some x → P x := by
    intro β r
    induction r with
    | eps => intro s k P hk x hx; exact hk _ _ hx
    | cls neg rs =>
      intro s k P hk x hx
      unfold M at hx
      split at hx
      · split at hx
        · exact hk _ _ hx
        · simp at hx
      · simp at hx
    | seq a b iha ihb =>
      intro s k P hk x hx
      unfold M at hx
      exact iha s _ P (fun t y hy => ihb t k P hk y hy) x hx
    | alt a b iha ihb =>
      intro s k P hk x hx
      unfold M at hx
      split at hx
      · rename_i y hy
        simp only [Option.some.injEq] at hx; subst hx
        exact iha s k P hk _ hy
      · exact ihb s k P hk x hx
    | rep r lo hi ih =>
      intro s k P hk x hx
      unfold M at hx
      have hrep : ∀ hi lo s x, mrep (M r) lo hi s k = some x → P x := by
        intro hi
        induction hi with
        | zero =>
          intro lo s x hx
          unfold mrep at hx
          split at hx
          · exact hk _ _ hx
          · simp at hx
        | succ hi ihh =>
          intro lo s x hx
          unfold mrep at hx
          split at hx
          · rename_i y hy
            simp only [Option.some.injEq] at hx; subst hx
            exact ih s _ P (fun t z hz => ihh _ t z hz) _ hy
          · split at hx
            · exact hk _ _ hx
            · simp at hx
      exact hrep hi lo s x hx
    | eos =>
      intro s k P hk x hx
      unfold M at hx
      split at hx
      · exact hk _ _ hx
      · simp at hx
    | la r _ =>
      intro s k P hk x hx
      unfold M at hx
      split at hx
      · exact hk _ _ hx
      · simp at hx
  exact key r s _ (fun n => n ≤ s.length)
    (fun t x hx => by simp only [Option.some.injEq] at hx; subst hx; exact Nat.sub_le _ _) n h

theorem searchFrom_bound (r : Re) : ∀ (s : Bytes) (i a e : Nat), searchFrom r i s = some (a, e) →
    i ≤ a ∧ a ≤ e ∧ e ≤ i + s.length := by
  intro s
  induction s with
  | nil =>
    intro i a e h
    unfold searchFrom at h
    cases hm : matchAt r [] with
    | none => rw [hm] at h; simp at h
    | some n =>
      rw [hm] at h
      simp only [Option.map_some, Option.some.injEq, Prod.mk.injEq] at h
      have := matchAt_bound r [] n hm
      simp only [List.length_nil] at this ⊢
      omega
  | cons c t ih =>
    intro i a e h
    unfold searchFrom at h
    cases hm : matchAt r (c :: t) with
    | some n =>
      rw [hm] at h
      simp only [Option.some.injEq, Prod.mk.injEq] at h
      have := matchAt_bound r (c :: t) n hm
      omega
    | none =>
      rw [hm] at h
      have := ih (i + 1) a e h
      simp only [List.length_cons]; omega

end Re

theorem Pat.search_bound (p : Pat) (s : Bytes) (a e : Nat) (h : p.search s = some (a, e)) :
    a ≤ e ∧ e ≤ s.length := by
  cases p with
  | lit b =>
    simp only [Pat.search] at h
    cases hf : findSub b s with
    | none => rw [hf] at h; simp at h
    | some i =>
      rw [hf] at h
      simp only [Option.map_some, Option.some.injEq, Prod.mk.injEq] at h
      have := findSub_bound b s i hf
      omega
  | re r =>
    simp only [Pat.search, Re.search] at h
    have := Re.searchFrom_bound r s 0 a e h
    omega
