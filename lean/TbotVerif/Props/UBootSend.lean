import TbotVerif.Props.UBootChan
import TbotVerif.Props.UBootCon
/-! `ch.sendline(line, read_back=True)` against the console: the line reaches the console in
    512-byte slices, every echo is read back exactly, and what is left pending afterwards is the
    command's output followed by the prompt — for every fragmentation schedule. -/

namespace UBootSend
open Chan UBoot UBootChan UBootCon

/-! ### the fragmenting transport -/

theorem cutCarry_spec : ∀ (cs : List Nat) (b : Bytes),
    (cutCarry cs b).1.flatten = b ∧ ∀ p ∈ (cutCarry cs b).1, p ≠ [] := by
  intro cs
  induction cs with
  | nil =>
    intro b
    cases b with
    | nil => simp [cutCarry]
    | cons x t => simp [cutCarry]
  | cons n ns ih =>
    intro b
    cases b with
    | nil => simp [cutCarry]
    | cons x t =>
      unfold cutCarry
      split
      · exact ih _
      · split
        · simp
        · rename_i hn0 hlt
          have hlen : n ≤ (x :: t).length := Nat.le_of_not_lt hlt
          obtain ⟨h1, h2⟩ := ih ((x :: t).drop n)
          constructor
          · simp only [List.flatten_cons, h1, List.take_append_drop]
          · intro p hp
            rcases List.mem_cons.mp hp with rfl | hp
            · intro hc
              have := congrArg List.length hc
              simp only [List.length_take, List.length_nil] at this
              omega
            · exact h2 p hp

theorem flat_append (a b : List Piece) : flat (a ++ b) = flat a ++ flat b := by
  simp [flat]

theorem flat_toScript (ps : List Bytes) : flat (Shell.toScript ps) = ps.flatten := by
  simp [flat, Shell.toScript, List.map_map, Function.comp_def]

theorem toScript_wf (ps : List Bytes) (h : ∀ p ∈ ps, p ≠ []) : ∀ q ∈ Shell.toScript ps, q.data ≠ [] := by
  intro q hq
  simp only [Shell.toScript, List.mem_map] at hq
  obtain ⟨p, hp, rfl⟩ := hq
  exact h p hp

/-! ### small facts -/

theorem forbidden_subset (bl : List Byte) (big small : Bytes) (h : forbidden bl big = false)
    (hs : ∀ c ∈ small, c ∈ big) : forbidden bl small = false := by
  unfold forbidden at h ⊢
  rw [List.any_eq_false] at h ⊢
  intro x hx hc
  apply h x hx
  simp only [List.contains_eq_mem, decide_eq_true_eq] at hc ⊢
  exact hs x hc

theorem countNl_ordinary : ∀ (l : Bytes), (∀ c ∈ l, ordinary c = true) → countNl l = 0 := by
  intro l h
  unfold countNl
  have h13 : l.count 13 = 0 := List.count_eq_zero.mpr (fun hm => (ordinary_ne (h 13 hm)).1 rfl)
  have h10 : l.count 10 = 0 := List.count_eq_zero.mpr (fun hm => (ordinary_ne (h 10 hm)).2 rfl)
  omega

theorem countNl_line (l : Bytes) (h : ∀ c ∈ l, ordinary c = true) : countNl (l ++ [CR]) = 1 := by
  have := countNl_ordinary l h
  unfold countNl at this ⊢
  simp only [List.count_append]
  have e1 : [CR].count 13 = 1 := by decide
  have e2 : [CR].count 10 = 0 := by decide
  omega

theorem sendLoopRB_nil (f : Nat) (ss : Sess) : sendLoopRB (f + 1) [] ss = (.ok (), ss) := rfl

/-! ### one slice: write, the console answers, read back -/

theorem sendLoopRB_step (f : Nat) (payload : Bytes) (hne : payload ≠ []) (ss : Sess) (hq : Quiet ss.st)
    (hsc : ss.st.script = []) (hforb : forbidden ss.st.blacklist payload = false)
    (resp : Bytes) (con' : Con) (hfeed : feed (payload.take ss.st.slice) ss.con = (resp, con'))
    (hlen : (payload.take ss.st.slice).length + countNl (payload.take ss.st.slice) ≤ resp.length) :
    ∃ st', sendLoopRB (f + 1) payload ss =
        sendLoopRB f (payload.drop ss.st.slice) { st := st', con := con', cuts := (cutCarry ss.cuts resp).2 }
      ∧ flat st'.script = resp.drop ((payload.take ss.st.slice).length + countNl (payload.take ss.st.slice))
      ∧ WF st' ∧ Keeps ss.st st' := by
  obtain ⟨b, t, rfl⟩ : ∃ b t, payload = b :: t := by
    cases payload with
    | nil => exact absurd rfl hne
    | cons b t => exact ⟨b, t, rfl⟩
  have hchunk_ne : (b :: t).take ss.st.slice ≠ [] := by
    intro h
    have := congrArg List.length h
    simp only [List.length_take, List.length_cons, List.length_nil] at this
    have := hq.slice
    omega
  have hfc : forbidden ss.st.blacklist ((b :: t).take ss.st.slice) = false :=
    forbidden_subset _ _ _ hforb (fun c hc => List.mem_of_mem_take hc)
  obtain ⟨s1, hw, hs1, hk1⟩ := write_quiet ((b :: t).take ss.st.slice) ss.st hq hfc
  have hpieces := cutCarry_spec ss.cuts resp
  -- the state after the console's answer was queued
  generalize hst2 : ({ s1 with script := s1.script ++ Shell.toScript (cutCarry ss.cuts resp).1 } : St) = st2
  have hk2 : Keeps ss.st st2 := by
    subst hst2
    exact ⟨hk1.prompt, hk1.deaths, hk1.accept, hk1.slowDelay, hk1.chunk, hk1.slice, hk1.blacklist⟩
  have hsc2 : st2.script = Shell.toScript (cutCarry ss.cuts resp).1 := by
    subst hst2
    simp only [hs1, hsc, List.nil_append]
  have hwf2 : WF st2 := by
    intro q hq'
    rw [hsc2] at hq'
    exact toScript_wf _ hpieces.2 q hq'
  have hq2 : Quiet st2 := hq.keeps hk2 hwf2
  have hflat2 : flat st2.script = resp := by rw [hsc2, flat_toScript, hpieces.1]
  have hnpos : 0 < ((b :: t).take ss.st.slice).length + countNl ((b :: t).take ss.st.slice) := by
    have := List.length_pos_iff.mpr hchunk_ne
    omega
  obtain ⟨s3, hr, hfl3, hwf3, hk3⟩ := read_exact _ st2 hq2 hnpos (by rw [hflat2]; exact hlen)
  refine ⟨s3, ?_, by rw [hfl3, hflat2], hwf3, hk2.trans hk3⟩
  have hsl : st2.slice = ss.st.slice := hk2.slice
  conv => lhs; unfold sendLoopRB
  simp only [hw, push, hfeed, hst2, hr, hsl]

/-! ### the whole line -/

theorem take_line_le (l : Bytes) (n : Nat) (h : n ≤ l.length) : (l ++ [CR]).take n = l.take n := by
  rw [List.take_append_of_le_length h]

theorem drop_line_le (l : Bytes) (n : Nat) (h : n ≤ l.length) : (l ++ [CR]).drop n = l.drop n ++ [CR] := by
  rw [List.drop_append_of_le_length h]

/-- **the command line reaches the console, its echo is consumed exactly**: afterwards the console
    has run the line and what is pending on the transport is the cooked output and the prompt -/
theorem sendLoopRB_line : ∀ (f : Nat) (l : Bytes) (ss : Sess), l.length + 1 < f → Quiet ss.st →
    ss.st.script = [] → (∀ c ∈ l, ordinary c = true) → forbidden ss.st.blacklist (l ++ [CR]) = false →
    ∃ ss', sendLoopRB f (l ++ [CR]) ss = (.ok (), ss')
      ∧ ss'.con = (runLine (ss.con.line ++ l) { ss.con with line := [] }).2
      ∧ flat ss'.st.script
          = Tty.cook (runLine (ss.con.line ++ l) { ss.con with line := [] }).1 ++ ss.con.prompt
      ∧ WF ss'.st ∧ Keeps ss.st ss'.st := by
  intro f
  induction f with
  | zero => intro l ss hf; omega
  | succ f ih =>
    intro l ss hf hq hsc hord hforb
    have hne : l ++ [CR] ≠ [] := by simp
    rcases Nat.lt_or_ge l.length ss.st.slice with hlt | hge
    · -- last slice: the rest of the line and Enter
      have htake : (l ++ [CR]).take ss.st.slice = l ++ [CR] :=
        List.take_of_length_le (by simp only [List.length_append, List.length_singleton]; omega)
      have hdrop : (l ++ [CR]).drop ss.st.slice = [] :=
        List.drop_of_length_le (by simp only [List.length_append, List.length_singleton]; omega)
      have hfeed := feed_line l ss.con hord
      generalize hrl : runLine (ss.con.line ++ l) { ss.con with line := [] } = r at hfeed ⊢
      obtain ⟨st', hstep, hfl, hwf, hk⟩ := sendLoopRB_step f (l ++ [CR]) hne ss hq hsc hforb
        (l ++ CR :: LF :: (Tty.cook r.1 ++ ss.con.prompt)) r.2
        (by rw [htake]; exact hfeed)
        (by rw [htake, countNl_line l hord]
            simp only [List.length_append, List.length_cons, List.length_nil]
            omega)
      rw [hstep, hdrop]
      obtain ⟨f', rfl⟩ : ∃ f', f = f' + 1 := ⟨f - 1, by omega⟩
      refine ⟨_, sendLoopRB_nil f' _, rfl, ?_, hwf, hk⟩
      show flat st'.script = _
      rw [hfl, htake, countNl_line l hord]
      have hl2 : (l ++ [CR]).length + 1 = l.length + 2 := by simp
      rw [hl2]
      have e : l ++ CR :: LF :: (Tty.cook r.1 ++ ss.con.prompt)
          = (l ++ [CR, LF]) ++ (Tty.cook r.1 ++ ss.con.prompt) := by simp
      rw [e, List.drop_append_of_le_length (by simp), List.drop_of_length_le (by simp)]
      rfl
    · -- a full slice of ordinary bytes
      have hspos := hq.slice
      have htake : (l ++ [CR]).take ss.st.slice = l.take ss.st.slice := take_line_le l _ hge
      have hdrop : (l ++ [CR]).drop ss.st.slice = l.drop ss.st.slice ++ [CR] := drop_line_le l _ hge
      have hord1 : ∀ c ∈ l.take ss.st.slice, ordinary c = true := fun c hc => hord c (List.mem_of_mem_take hc)
      have hord2 : ∀ c ∈ l.drop ss.st.slice, ordinary c = true := fun c hc => hord c (List.mem_of_mem_drop hc)
      have hfeed := feed_ordinary (l.take ss.st.slice) ss.con hord1
      have htl : (l.take ss.st.slice).length = ss.st.slice := by rw [List.length_take]; omega
      obtain ⟨st', hstep, hfl, hwf, hk⟩ := sendLoopRB_step f (l ++ [CR]) hne ss hq hsc hforb
        (l.take ss.st.slice) { ss.con with line := ss.con.line ++ l.take ss.st.slice }
        (by rw [htake]; exact hfeed)
        (by rw [htake, countNl_ordinary _ hord1]; omega)
      rw [hstep, hdrop]
      rw [htake, countNl_ordinary _ hord1, Nat.add_zero, List.drop_of_length_le (Nat.le_refl _)] at hfl
      have hq' : Quiet st' := hq.keeps hk hwf
      have hsc' : st'.script = [] := C02.script_nil_of_flat hwf hfl
      obtain ⟨ss', hres, hcon, hflat, hwf', hk'⟩ := ih (l.drop ss.st.slice)
        { st := st', con := { ss.con with line := ss.con.line ++ l.take ss.st.slice },
          cuts := (cutCarry ss.cuts (l.take ss.st.slice)).2 }
        (by simp only [List.length_drop]; omega) hq' hsc' hord2
        (by
          show forbidden st'.blacklist (l.drop ss.st.slice ++ [CR]) = false
          rw [hk.blacklist]
          apply forbidden_subset _ _ _ hforb
          intro c hc
          rcases List.mem_append.mp hc with hc | hc
          · exact List.mem_append_left _ (List.mem_of_mem_drop hc)
          · exact List.mem_append_right _ hc)
      have hline : (ss.con.line ++ l.take ss.st.slice) ++ l.drop ss.st.slice = ss.con.line ++ l := by
        rw [List.append_assoc, List.take_append_drop]
      simp only [hline] at hcon hflat
      exact ⟨ss', hres, hcon, hflat, hwf', hk.trans hk'⟩

end UBootSend
