import TbotVerif.Props.Quote
/-! The char-level `shlex.quote` (what Python computes on `str`) commutes with UTF-8 encoding:
    encoding the quoted string gives the byte-level `Quote.shlexQuote` of the encoded string.
    So the byte-level theorems speak about the bytes tbot really sends. -/

namespace Quote

/-- `str.encode("utf-8")` -/
def enc (s : List Char) : Bytes := s.flatMap String.utf8EncodeChar

/-- char-level safe test of `shlex.quote` (`_find_unsafe`, a negated character class compiled
    with `re.ASCII`): the ASCII characters of `Params.shlexSafe`; with `re.ASCII` no non-ASCII
    character is safe (`Params.shlexNonAsciiQuoted`) -/
def safeChar (c : Char) : Bool := decide (c.toNat < 128) && Params.shlexSafe.contains c.toNat

def quoteBodyC : List Char → List Char
  | [] => []
  | c :: cs => if c == '\'' then '\'' :: '"' :: '\'' :: '"' :: '\'' :: quoteBodyC cs else c :: quoteBodyC cs

/-- `shlex.quote(s)` on characters -/
def shlexQuoteC (s : List Char) : List Char :=
  if s.isEmpty then ['\'', '\'']
  else if s.all safeChar then s
  else '\'' :: (quoteBodyC s ++ ['\''])

theorem enc_ascii (c : Char) (h : c.toNat < 128) : String.utf8EncodeChar c = [UInt8.ofNat c.toNat] := by
  have : c.val.toNat ≤ 127 := by have : c.toNat = c.val.toNat := rfl; omega
  simp only [String.utf8EncodeChar, this, if_true]
  rfl

theorem enc_high (c : Char) (h : 128 ≤ c.toNat) : ∀ b ∈ String.utf8EncodeChar c, 128 ≤ b.toNat := by
  have hv : c.toNat = c.val.toNat := rfl
  have h1 : ¬ c.val.toNat ≤ 127 := by omega
  intro b hb
  simp only [String.utf8EncodeChar, h1, if_false] at hb
  split at hb
  · simp only [List.mem_cons, List.not_mem_nil, or_false] at hb
    rcases hb with rfl | rfl <;> simp only [UInt8.toNat_ofNat'] <;> omega
  · split at hb
    · simp only [List.mem_cons, List.not_mem_nil, or_false] at hb
      rcases hb with rfl | rfl | rfl <;> simp only [UInt8.toNat_ofNat'] <;> omega
    · simp only [List.mem_cons, List.not_mem_nil, or_false] at hb
      rcases hb with rfl | rfl | rfl | rfl <;> simp only [UInt8.toNat_ofNat'] <;> omega

theorem enc_ne_nil (c : Char) : String.utf8EncodeChar c ≠ [] := String.utf8EncodeChar_ne_nil

theorem all_safe_char (c : Char) : (String.utf8EncodeChar c).all safeByte = safeChar c := by
  by_cases h : c.toNat < 128
  · rw [enc_ascii c h]
    have : (UInt8.ofNat c.toNat).toNat = c.toNat := by simp only [UInt8.toNat_ofNat']; omega
    simp [safeByte, safeChar, h, this]
  · have hs : safeChar c = false := by simp [safeChar, h]
    rw [hs]
    cases he : String.utf8EncodeChar c with
    | nil => exact absurd he (enc_ne_nil c)
    | cons b bs =>
      have hb := enc_high c (by omega) b (by simp [he])
      simp [nonascii_not_safe (Or.inl hb)]

theorem all_safe_enc (s : List Char) : (enc s).all safeByte = s.all safeChar := by
  induction s with
  | nil => rfl
  | cons c cs ih =>
    simp only [enc, List.flatMap_cons, List.all_append, List.all_cons] at ih ⊢
    rw [all_safe_char, ih]

theorem quoteBody_append_noSQ (e rest : Bytes) (h : ∀ b ∈ e, (b == SQ) = false) :
    quoteBody (e ++ rest) = e ++ quoteBody rest := by
  induction e with
  | nil => rfl
  | cons b bs ih =>
    have hb := h b (by simp)
    simp only [List.cons_append, quoteBody, hb, Bool.false_eq_true, if_false]
    rw [ih (fun x hx => h x (by simp [hx]))]

theorem enc_quoteBodyC (s : List Char) : enc (quoteBodyC s) = quoteBody (enc s) := by
  induction s with
  | nil => rfl
  | cons c cs ih =>
    unfold quoteBodyC
    by_cases hc : c == '\''
    · have : c = '\'' := eq_of_beq hc
      subst this
      have e1 : enc ('\'' :: '"' :: '\'' :: '"' :: '\'' :: quoteBodyC cs) = SQ :: DQ :: SQ :: DQ :: SQ :: enc (quoteBodyC cs) := by
        simp only [enc, List.flatMap_cons]
        rfl
      have e2 : enc ('\'' :: cs) = SQ :: enc cs := by
        simp only [enc, List.flatMap_cons]
        rfl
      simp only [beq_self_eq_true, if_true, e1, e2, quoteBody, ih]
    · simp only [hc, Bool.false_eq_true, if_false]
      have e : enc (c :: cs) = String.utf8EncodeChar c ++ enc cs := by simp [enc]
      have e' : enc (c :: quoteBodyC cs) = String.utf8EncodeChar c ++ enc (quoteBodyC cs) := by simp [enc]
      rw [e, e', quoteBody_append_noSQ, ih]
      intro b hb
      by_cases h : c.toNat < 128
      · rw [enc_ascii c h] at hb
        simp only [List.mem_cons, List.not_mem_nil, or_false] at hb
        subst hb
        apply byte_ne_of_toNat_ne
        have hne : c.toNat ≠ 39 := by
          intro h39
          apply hc
          have : c = Char.ofNat 39 := by
            rw [← h39]; exact (Char.ofNat_toNat c).symm
          rw [this]; rfl
        simp only [UInt8.toNat_ofNat']
        have : SQ.toNat = 39 := rfl
        omega
      · have := enc_high c (by omega) b hb
        apply byte_ne_of_toNat_ne
        have : SQ.toNat = 39 := rfl
        omega

theorem enc_isEmpty (s : List Char) : (enc s).isEmpty = s.isEmpty := by
  cases s with
  | nil => rfl
  | cons c cs =>
    cases he : String.utf8EncodeChar c with
    | nil => exact absurd he (enc_ne_nil c)
    | cons b bs => simp [enc, he]

/-- COMMUTATION: `shlex.quote(s).encode() = shlexQuote(s.encode())` for every Python string of
    Unicode scalar values -/
theorem enc_shlexQuoteC (s : List Char) : enc (shlexQuoteC s) = shlexQuote (enc s) := by
  unfold shlexQuoteC shlexQuote
  rw [enc_isEmpty, all_safe_enc]
  by_cases he : s.isEmpty
  · simp only [he, if_true]; rfl
  · by_cases hs : s.all safeChar
    · simp only [he, hs, Bool.false_eq_true, if_false, if_true]
    · simp only [he, hs, Bool.false_eq_true, if_false]
      have : enc ('\'' :: (quoteBodyC s ++ ['\''])) = SQ :: (enc (quoteBodyC s) ++ [SQ]) := by
        simp only [enc, List.flatMap_cons, List.flatMap_append, List.flatMap_nil, List.append_nil]
        rfl
      rw [this, enc_quoteBodyC]

example : enc (shlexQuoteC "é $x'".toList) = shlexQuote (enc "é $x'".toList) := enc_shlexQuoteC _
example : shlexQuoteC "a'b".toList = "'a'\"'\"'b'".toList := by decide

end Quote
