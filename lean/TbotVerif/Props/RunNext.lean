import TbotVerif.Props.RunBody
/-! C10 — after termination the machine is in sync: the next command's result is exact (C01 for
    one command, for every fragmentation), and a command line that `run()` refuses leaves the
    machine untouched. -/

namespace Run
open Chan Spec

/-- a successful `send` has written something -/
theorem send_writes (r : RunSt) (payload : Bytes) (rb : Bool) (hg : C03.Good r.st) (hne : payload ≠ [])
    (hres : (obsOp (.send payload rb none false) r).1.res = .unit) :
    (obsOp (.send payload rb none false) r).1.writes.isEmpty = false := by
  have h := (C03.send_op_spec r payload rb none false hg).1
  unfold Spec.c03 at h
  simp only [hres] at h
  simp only [Bool.and_eq_true, beq_iff_eq] at h
  have hacc := h.2
  cases hw : (obsOp (.send payload rb none false) r).1.writes with
  | nil => rw [hw] at hacc; simp [accepted] at hacc; exact absurd hacc hne
  | cons x xs => rfl

theorem respCmd_eq (ps1 line out : Bytes) :
    Shell.respCmd false ps1 line out = Tty.echo false (line ++ [Tty.CR]) ++ (Tty.cook out ++ ps1) := by
  simp [Shell.respCmd]

theorem line_ne (line : Bytes) : line ++ [13] ≠ [] := by simp

/-- **the next command** on a machine whose transport is drained -/
theorem next_exact (c : Case) (hc : 0 < c.chunk) (sizes : List Nat) (script : List Piece) (now : Nat)
    (hs : flat script = []) : nextOk c (nextExec c sizes script now) = true := by
  unfold nextOk nextExec
  simp only
  have hmach : ({ st := { machineSt c with script := script, now := now } } : RunSt) = mach c script now := rfl
  rw [hmach]
  cases hforb : forbidden (blacklist c) (Shell.lineOf c.next ++ [Tty.CR]) with
  | true =>
    simp only [if_true]
    rw [sendline_eq_send]
    have hbl : (load sizes [] (mach c script now)).st.blacklist = blacklist c := rfl
    rw [send_illegal_op (load sizes [] (mach c script now)) (Shell.lineOf c.next ++ [13]) true (by simp)
      (by rw [hbl]; exact hforb)]
    simp [tagOf, Tag.name]
  | false =>
    simp only [Bool.false_eq_true, if_false]
    cases hdom : (!promptOk (prompt c) (Tty.cook c.next.out ++ prompt c) (some 0) || decide (256 ≤ c.next.status)) with
    | true => simp
    | false =>
      simp only [Bool.false_eq_true, if_false]
      simp only [Bool.or_eq_false_iff, Bool.not_eq_false', decide_eq_false_iff_not, Nat.not_le] at hdom
      obtain ⟨hpok, h256⟩ := hdom
      generalize hline : Shell.lineOf c.next = line at hforb ⊢
      have hecho : (Tty.echo false (line ++ [Tty.CR])).length = Tty.readBackLen (line ++ [13]) :=
        Tty.echo_length_noctl _
      generalize hr1 : load sizes (Shell.respCmd false (prompt c) line c.next.out) (mach c script now) = r1
      have hg1 : C03.Good r1.st := by rw [← hr1]; exact mach_load_good c hc _ _ _ _
      have hz1 : Z r1.st := by rw [← hr1]; exact load_z _ _ _
      have h01 : Rel0 r1 := by rw [← hr1]; exact rel0_load _ _ (mach_rel0 c script now)
      have hp1 : pending r1.st = Tty.echo false (line ++ [Tty.CR]) ++ (Tty.cook c.next.out ++ prompt c) := by
        rw [← hr1, load_pending, respCmd_eq]
        have : pending (mach c script now).st = [] := hs
        rw [this, List.nil_append]
      have hprm1 : r1.st.prompt = some (.lit (prompt c)) := by rw [← hr1]; rfl
      have hbl1 : r1.st.blacklist = blacklist c := by rw [← hr1]; rfl
      have hstep := rel0_step r1 (.send (line ++ [13]) true none false) h01 rfl
      have hsend := send_rb_op r1 (line ++ [13]) hg1 hz1 (by rw [hbl1]; exact hforb)
        (by rw [hp1, List.length_append, hecho]; omega) hstep.2
      have hwr := send_writes r1 (line ++ [13]) true hg1 (line_ne line) hsend.1
      have hk := ChanCase.keeps r1 (.send (line ++ [13]) true none false) hg1 rfl
      have hcons := consumed r1 (.send (line ++ [13]) true none false) hg1 rfl
      obtain ⟨hprm2, hbl2⟩ := keeps_cfg hk rfl
      rw [sendline_eq_send]
      generalize obsOp (.send (line ++ [13]) true none false) r1 = o2 at hstep hsend hwr hk hcons hprm2 hbl2
      obtain ⟨o1, r2⟩ := o2
      simp only at hstep hsend hwr hk hcons hprm2 hbl2 ⊢
      rw [hsend.1]
      simp only [hwr, Bool.false_eq_true, if_false]
      have hp2 : pending r2.st = Tty.cook c.next.out ++ prompt c := by
        rw [hcons.2.2, hsend.2.1, hp1, ← hecho, List.drop_left']
        rfl
      -- with_stream, read_until_prompt
      obtain ⟨hg3, hp3, hprm3, hbl3⟩ := struct_keep r2 (.streamEnter 0 false) rfl hk.good
      have h03 := (rel0_step r2 (.streamEnter 0 false) hstep.1 rfl).1
      generalize (obsOp (.streamEnter 0 false) r2).2 = r3 at hg3 hp3 hprm3 hbl3 h03
      have hne := noEarly_of _ _ _ hpok
      have hrup := rup_exact r3 (prompt c) _ hg3 h03 (by rw [hprm3, hprm2, hprm1]) (prompt_ne c) (by rw [hp3, hp2]) hne
      have h04 := (rel0_step r3 (.rup none none) h03 rfl).1
      have hk4 := ChanCase.keeps r3 (.rup none none) hg3 rfl
      obtain ⟨hprm4, hbl4⟩ := keeps_cfg hk4 rfl
      generalize obsOp (.rup none none) r3 = o4 at hrup h04 hk4 hprm4 hbl4
      obtain ⟨o2, r4⟩ := o4
      simp only at hrup h04 hk4 hprm4 hbl4 ⊢
      obtain ⟨hg5, hp5, hprm5, hbl5⟩ := struct_keep r4 .streamExit rfl hk4.good
      have h05 := (rel0_step r4 .streamExit h04 rfl).1
      generalize (obsOp .streamExit r4).2 = r5 at hg5 hp5 hprm5 hbl5 h05
      rw [hrup.1]
      simp only
      have hp4 : pending r4.st = [] := by simp [pending, hrup.2.2]
      obtain ⟨hf1, _⟩ := fetchRc_exact c (sizes.drop (sizesOf o1 ++ sizesOf o2).length) c.next.status h256 r5 hg5 h05
        (by rw [hprm5, hprm4, hprm3, hprm2, hprm1]) (by rw [hbl5, hbl4, hbl3, hbl2, hbl1]) (by rw [hp5, hp4])
      generalize fetchRc (sizes.drop (sizesOf o1 ++ sizesOf o2).length) (Shell.respStatus false (prompt c) c.next.status) r5 = fr at hf1
      obtain ⟨rc, used2, rf⟩ := fr
      simp only at hf1 ⊢
      rw [hf1]
      simp [List.take_left']

/-- a command line with a forbidden byte: `run()` raises before anything is sent -/
theorem enter_refused (c : Case) (sizes : List Nat)
    (hf : forbidden (blacklist c) (lineOf c ++ [Tty.CR]) = true) :
    enter c sizes = (⟨.err .illegal, []⟩, none) := by
  unfold enter
  simp only [hf, if_true]
  rw [sendline_eq_send]
  have hbl : (load sizes [] ({ st := machineSt c } : RunSt)).st.blacklist = blacklist c := rfl
  rw [send_illegal_op (load sizes [] ({ st := machineSt c } : RunSt)) (lineOf c ++ [13]) true (by simp)
    (by rw [hbl]; exact hf)]
  rfl

end Run
