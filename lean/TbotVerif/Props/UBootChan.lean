import TbotVerif.Props.C02Extra
import TbotVerif.Props.C03
import TbotVerif.Spec.UBoot
/-! Liveness of the channel operations the U-Boot driver uses, on a channel without death
    strings, timeouts, partial writes or slow sending: `write` succeeds, `read(n)` returns exactly
    the next `n` bytes whenever they are there, `read_until_prompt` consumes a stream that ends
    with the prompt and nowhere earlier — and none of them touches the configuration. -/

namespace UBootChan
open Chan C02

/-- the part of the configuration the U-Boot flows never change -/
structure Keeps (s s' : St) : Prop where
  prompt : s'.prompt = s.prompt
  deaths : s'.deaths = s.deaths
  accept : s'.accept = s.accept
  slowDelay : s'.slowDelay = s.slowDelay
  chunk : s'.chunk = s.chunk
  slice : s'.slice = s.slice
  blacklist : s'.blacklist = s.blacklist

theorem Keeps.refl (s : St) : Keeps s s := ⟨rfl, rfl, rfl, rfl, rfl, rfl, rfl⟩

theorem Keeps.trans {a b c : St} (h1 : Keeps a b) (h2 : Keeps b c) : Keeps a c :=
  ⟨h2.prompt.trans h1.prompt, h2.deaths.trans h1.deaths, h2.accept.trans h1.accept,
   h2.slowDelay.trans h1.slowDelay, h2.chunk.trans h1.chunk, h2.slice.trans h1.slice,
   h2.blacklist.trans h1.blacklist⟩

/-- no death strings, full writes, no slow sending, positive sizes, non-empty pieces -/
structure Quiet (s : St) : Prop where
  deaths : s.deaths = []
  accept : s.accept = []
  slow : s.slowDelay = none
  chunk : 0 < s.chunk
  slice : 0 < s.slice
  wf : WF s

theorem Quiet.keeps {s s' : St} (hq : Quiet s) (hk : Keeps s s') (hwf : WF s') : Quiet s' :=
  ⟨hk.deaths.trans hq.deaths, hk.accept.trans hq.accept, hk.slowDelay.trans hq.slow,
   by rw [hk.chunk]; exact hq.chunk, by rw [hk.slice]; exact hq.slice, hwf⟩

theorem flat_ne_nil_script {s : St} (h : flat s.script ≠ []) : s.script ≠ [] := by
  intro hs; rw [hs] at h; exact h rfl

/-! ### `read(n)` -/

/-- one resumption of `read_iter(max=m)` with bytes still wanted and data there: it yields the
    next piece, cut to what is wanted and to the chunk size -/
theorem riNext_some (ri : RI) (s : St) (m : Nat) (hq : Quiet s) (ht : ri.timeout = none)
    (hmax : ri.max = some m) (hgot : ri.got < m) (hne : s.script ≠ []) :
    ∃ b s2, riNext ri s = (.chunk b, { ri with got := ri.got + b.length, started := true }, s2)
      ∧ b ≠ [] ∧ b.length ≤ m - ri.got ∧ b ++ flat s2.script = flat s.script ∧ WF s2 ∧ Keeps s s2 := by
  obtain ⟨pc, ps, hs⟩ : ∃ pc ps, s.script = pc :: ps := by
    cases h : s.script with
    | nil => exact absurd h hne
    | cons pc ps => exact ⟨pc, ps, rfl⟩
  have hrem : remaining ri.timeout ri.t0 s.now = some none := by rw [ht]; rfl
  have hmr : ri.maxRead s.chunk = min s.chunk (m - ri.got) := by unfold RI.maxRead; rw [hmax]
  have hmrpos : 0 < ri.maxRead s.chunk := by
    rw [hmr]; have := hq.chunk; omega
  obtain ⟨b, s1, hio, _⟩ := ioRead_ok (ri.maxRead s.chunk) none s pc ps hs (Or.inl rfl)
  obtain ⟨rec, hspec⟩ := ioRead_spec (ri.maxRead s.chunk) none s
  rw [hio] at hspec
  have hok := hspec.ok b rfl
  have hbne : b ≠ [] := hok.2.2 hq.wf hmrpos
  have hside := writeStream_side b s1
  have hd2 : (writeStream b s1).deaths = [] := by
    rw [writeStream_deaths', hspec.deaths, hq.deaths]
  have hflat : b ++ flat s1.script = flat s.script := by
    have := hspec.frame.flat
    rw [dataOf_cons_some _ _ _ hok.1] at this
    simpa using this
  refine ⟨b, writeStream b s1, ?_, hbne, ?_, ?_, ?_, ?_⟩
  · unfold riNext
    have h1 : (ri.started && ri.max == some ri.got) = false := by
      rw [hmax]
      cases ri.started with
      | false => rfl
      | true =>
        simp only [Bool.true_and, beq_eq_false_iff_ne, ne_eq, Option.some.injEq]
        omega
    rw [h1]
    simp only [Bool.false_eq_true, if_false, hrem, hio, check_nil b _ hd2]
  · have := hok.2.1
    rw [hmr] at this
    omega
  · rw [hside.script]; exact hflat
  · have := hspec.frame.wf hq.wf
    unfold WF at *
    rw [hside.script]; exact this
  · exact {
      prompt := by rw [hside.prompt, hspec.frame.prompt]
      deaths := by rw [hd2, hq.deaths]
      accept := by rw [hside.accept, hspec.frame.accept]
      slowDelay := by rw [hside.slowDelay, hspec.frame.slowDelay]
      chunk := by rw [hside.chunk, hspec.frame.chunk]
      slice := by rw [hside.slice, hspec.frame.slice]
      blacklist := by rw [hside.blacklist, hspec.frame.blacklist] }

theorem take_add_append (b r : Bytes) (k : Nat) : (b ++ r).take (b.length + k) = b ++ r.take k := by
  rw [List.take_append, List.take_of_length_le (by omega), Nat.add_sub_cancel_left]

theorem drop_add_append (b r : Bytes) (k : Nat) : (b ++ r).drop (b.length + k) = r.drop k := by
  rw [List.drop_append]
  simp

/-- `read_iter(max=m)` drained: exactly the next `m - got` bytes, in however many chunks -/
theorem riTake_exact (m : Nat) : ∀ (f : Nat) (ri : RI) (s : St) (acc : List Bytes),
    Quiet s → ri.timeout = none → ri.max = some m →
    (ri.got < m ∨ (ri.started = true ∧ ri.got = m)) →
    m - ri.got ≤ (flat s.script).length → m - ri.got < f →
    ∃ cs s', riTake f none ri s acc = ((acc ++ cs, none), s')
      ∧ cs.flatten = (flat s.script).take (m - ri.got)
      ∧ flat s'.script = (flat s.script).drop (m - ri.got) ∧ WF s' ∧ Keeps s s' := by
  intro f
  induction f with
  | zero => intro ri s acc _ _ _ _ _ hf; omega
  | succ f ih =>
    intro ri s acc hq ht hmax hgot hlen hf
    unfold riTake
    simp only [reduceCtorEq, if_false]
    rcases hgot with hlt | ⟨hst, heq⟩
    · have hflne : flat s.script ≠ [] := by
        intro h; rw [h] at hlen; simp only [List.length_nil] at hlen; omega
      obtain ⟨b, s2, hnext, hbne, hble, hflat, hwf2, hk2⟩ :=
        riNext_some ri s m hq ht hmax hlt (flat_ne_nil_script hflne)
      rw [hnext]
      simp only [Option.map_none]
      have hblen : 0 < b.length := List.length_pos_iff.mpr hbne
      have hq2 : Quiet s2 := hq.keeps hk2 hwf2
      have hlen2 : (flat s2.script).length + b.length = (flat s.script).length := by
        rw [← hflat]; simp only [List.length_append]; omega
      obtain ⟨cs, s', hres, hcs, hfl, hwf', hk'⟩ :=
        ih { ri with got := ri.got + b.length, started := true } s2 (acc ++ [b]) hq2 ht hmax
          (by
            rcases Nat.lt_or_ge (ri.got + b.length) m with h | h
            · exact Or.inl h
            · exact Or.inr ⟨rfl, show ri.got + b.length = m by omega⟩)
          (show m - (ri.got + b.length) ≤ (flat s2.script).length by omega)
          (show m - (ri.got + b.length) < f by omega)
      refine ⟨b :: cs, s', ?_, ?_, ?_, hwf', hk2.trans hk'⟩
      · rw [hres]; simp
      · simp only [List.flatten_cons, hcs]
        have : m - ri.got = b.length + (m - (ri.got + b.length)) := by omega
        rw [this, ← hflat, take_add_append]
      · rw [hfl]
        have : m - ri.got = b.length + (m - (ri.got + b.length)) := by omega
        rw [this, ← hflat, drop_add_append]
    · have hdone : riNext ri s = (.done, ri, s) := by
        unfold riNext
        have : (ri.started && ri.max == some ri.got) = true := by rw [hst, hmax, heq]; simp
        rw [this]; simp
      rw [hdone]
      refine ⟨[], s, by simp, ?_, ?_, hq.wf, Keeps.refl s⟩
      · rw [heq]; simp
      · rw [heq]; simp

/-- **`read(n)` is live and exact**: with at least `n ≥ 1` bytes pending it returns exactly the
    first `n` of them and leaves the rest, whatever the pieces and the chunk size -/
theorem read_exact (n : Nat) (s : St) (hq : Quiet s) (hn : 0 < n) (hlen : n ≤ (flat s.script).length) :
    ∃ s', Chan.read (some n) none s = (.ok ((flat s.script).take n), s')
      ∧ flat s'.script = (flat s.script).drop n ∧ WF s' ∧ Keeps s s' := by
  obtain ⟨cs, s', hres, hcs, hfl, hwf', hk'⟩ :=
    riTake_exact n (fuelFor s) (riStart (some n) none s) s [] hq rfl rfl (Or.inl hn)
      (by simpa [riStart] using hlen)
      (by unfold fuelFor riStart; rw [bytesLeft_eq]; simp only; omega)
  unfold Chan.read
  simp only [hres, List.nil_append]
  have h0 : (riStart (some n) none s).got = 0 := rfl
  rw [h0, Nat.sub_zero] at hcs hfl
  have hl : cs.flatten.length = n := by rw [hcs, List.length_take]; omega
  simp only [hl, beq_self_eq_true, if_true]
  exact ⟨s', by rw [hcs], hfl, hwf', hk'⟩

/-! ### `write` -/

theorem writeLoop_nil (f : Nat) (s : St) : writeLoop f [] s = s := by
  cases f <;> rfl

/-- `Channel.write` of an allowed buffer: one transport write, nothing else changes -/
theorem write_quiet (buf : Bytes) (s : St) (hq : Quiet s) (hf : forbidden s.blacklist buf = false) :
    ∃ s', write buf false s = (.ok (), s') ∧ s'.script = s.script ∧ Keeps s s' := by
  unfold write
  simp only [hf, Bool.not_false, Bool.and_false, Bool.false_eq_true, if_false]
  cases buf with
  | nil => exact ⟨s, by rw [writeLoop_nil], rfl, Keeps.refl s⟩
  | cons b t =>
    refine ⟨_, rfl, ?_, ?_⟩
    · simp only [List.length_cons, writeLoop, hq.slow, ioWrite, hq.accept, List.drop_succ_cons, List.drop_length, writeLoop_nil]
    · simp only [List.length_cons, writeLoop, hq.slow, ioWrite, hq.accept, List.drop_succ_cons, List.drop_length, writeLoop_nil]
      exact ⟨rfl, rfl, hq.accept.symm, hq.slow.symm, rfl, rfl, rfl⟩

/-! ### death strings stay away -/

theorem riNext_deaths (ri : RI) (s : St) (h : s.deaths = []) : (riNext ri s).2.2.deaths = [] := by
  have hout := riNext_out ri s
  generalize riNext ri s = out at hout
  obtain ⟨st, ri', s'⟩ := out
  simp only at hout ⊢
  cases hout with
  | done _ _ => exact h
  | expired _ _ => exact h
  | ioErr rem rec s' e _ _ hio => rw [hio.deaths]; exact h
  | chunk rem rec s1 b _ _ hio _ =>
    have hd : (writeStream b s1).deaths = [] := by rw [writeStream_deaths', hio.deaths]; exact h
    rw [check_nil b _ hd]; exact hd
  | death rem rec s1 b x m _ _ hio _ =>
    have hd : (writeStream b s1).deaths = [] := by rw [writeStream_deaths', hio.deaths]; exact h
    rw [check_nil b _ hd]; exact hd

theorem rupLoop_deaths : ∀ (f : Nat) (buf : Bytes) (ri : RI) (s : St), s.deaths = [] →
    (rupLoop f buf ri s).2.deaths = [] := by
  intro f
  induction f with
  | zero => intro buf ri s h; exact h
  | succ f ih =>
    intro buf ri s h
    have hd := riNext_deaths ri s h
    unfold rupLoop
    generalize riNext ri s = out at hd
    obtain ⟨st, ri', s'⟩ := out
    simp only at hd
    cases st with
    | done => exact hd
    | err e => exact hd
    | chunk b =>
      simp only
      split
      · exact ih _ _ _ hd
      · split
        · exact hd
        · exact ih _ _ _ hd

theorem readUntilPrompt_deaths (p : Option Pat) (t : Option Nat) (s : St) (h : s.deaths = []) :
    (readUntilPrompt p t s).2.deaths = [] := by
  unfold readUntilPrompt
  cases p with
  | none => exact rupLoop_deaths _ _ _ _ h
  | some q => exact rupLoop_deaths _ _ _ _ h

/-! ### `read_until_prompt` -/

theorem onlyEnd_honly (p w : Bytes) (h : UBoot.onlyEnd p w = true) :
    ∀ k, 0 < k → k ≤ w.length → p <:+ w.take k → k = w.length := by
  intro k hk hle hs
  rcases Nat.lt_or_ge k w.length with hlt | hge
  · exfalso
    have := List.all_eq_true.mp h k (List.mem_range.mpr hlt)
    have hk0 : (k == 0) = false := by simp; omega
    simp only [hk0, Bool.false_or, Bool.not_eq_true'] at this
    rw [List.isSuffixOf_iff_suffix.mpr hs] at this
    exact absurd this (by decide)
  · omega

/-- **the prompt-delimited read**: the pending stream `w` ends with the prompt in force and no
    shorter prefix does — for EVERY cutting of `w` into pieces and every chunk size the call
    returns everything before the prompt and leaves nothing pending -/
theorem rup_good (p w : Bytes) (s : St) (hq : Quiet s) (hpr : s.prompt = some (.lit p)) (hp : p ≠ [])
    (hflat : flat s.script = w) (hsuf : p.isSuffixOf w = true) (honly : UBoot.onlyEnd p w = true) :
    ∃ s', readUntilPrompt none none s = (.ok (w.take (w.length - p.length), w), s')
      ∧ s'.script = [] ∧ Keeps s s' := by
  have hmain := rup_fragmentation_gen p w hp (List.isSuffixOf_iff_suffix.mp hsuf) (onlyEnd_honly p w honly)
    s hpr hq.deaths hq.wf hq.chunk hflat none (Or.inl rfl)
  obtain ⟨recs, hfr, _, _, _⟩ := readUntilPrompt_spec none none s hq.wf hq.chunk
  have hd := readUntilPrompt_deaths none none s hq.deaths
  refine ⟨(readUntilPrompt none none s).2, ?_, hmain.2, ?_⟩
  · rw [← hmain.1]
  · exact ⟨hfr.prompt, by rw [hd, hq.deaths], hfr.accept, hfr.slowDelay, hfr.chunk, hfr.slice, hfr.blacklist⟩

/-- a per-call literal prompt: installed for the call, the previous one restored afterwards -/
theorem rup_some_eq (q : Bytes) (t : Option Nat) (s : St) :
    readUntilPrompt (some (.lit q)) t s =
      ((readUntilPrompt none t { s with prompt := some (.lit q) }).1,
       { (readUntilPrompt none t { s with prompt := some (.lit q) }).2 with prompt := s.prompt }) := by
  unfold readUntilPrompt
  simp only [anchor]

end UBootChan
