import TbotVerif.Props.C08Stream
import TbotVerif.Props.ChanCase
/-! C08 — what every channel operation does to the stream-relevant part of the state: the
    delivered chunks pass through `writeStream` one by one, in order, and nothing else touches
    the forwarded log or the hold-back buffer.  Holds for every state and every fuel. -/

namespace C08
open Chan

/-- `s'` is `s` after the transport requests `recs`: the read log grew by `recs` and the stream
    part of the state saw exactly the delivered chunks -/
structure Tr (s s' : St) (recs : List ReadRec) : Prop where
  reads : s'.reads = s.reads ++ recs
  ss : ssOf s' = (ssOf s).writes (dataOf recs)

theorem Tr.refl (s : St) : Tr s s [] := ⟨by simp, rfl⟩

theorem dataOf_append (a b : List ReadRec) : dataOf (a ++ b) = dataOf a ++ dataOf b := by
  simp [dataOf, List.filterMap_append]

theorem Tr.trans {a b c : St} {r1 r2 : List ReadRec} (h1 : Tr a b r1) (h2 : Tr b c r2) :
    Tr a c (r1 ++ r2) :=
  ⟨by rw [h2.reads, h1.reads, List.append_assoc],
   by rw [h2.ss, h1.ss, dataOf_append, SS.writes_append]⟩

/-- a step that leaves the read log and the stream part alone -/
theorem Tr.of_same {s s' : St} (hr : s'.reads = s.reads) (hs : ssOf s' = ssOf s) : Tr s s' [] :=
  ⟨by rw [hr, List.append_nil], by rw [hs]; rfl⟩

theorem ssOf_check (b : Bytes) (s : St) : ssOf (check b s).2 = ssOf s := by
  unfold check
  split
  · rfl
  · simp only
    split <;> rfl

theorem ssOf_of_io {n : Nat} {t : Option Nat} {s : St} {r : Res Bytes} {rec : ReadRec}
    (h : IoSpec n t s r rec) : ssOf r.2 = ssOf s := by
  simp only [ssOf, h.frame.streams, h.frame.logPrompt, h.frame.prompt, h.streambuf, h.fwd]

theorem Tr.of_ioErr {n : Nat} {t : Option Nat} {s s' : St} {e : Exc} {rec : ReadRec}
    (h : IoSpec n t s (.error e, s') rec) : Tr s s' [rec] :=
  ⟨h.frame.reads, by rw [dataOf_cons_none _ _ (h.err e rfl).1]; exact ssOf_of_io h⟩

theorem Tr.of_chunk {n : Nat} {t : Option Nat} {s s1 : St} {b : Bytes} {rec : ReadRec}
    (h : IoSpec n t s (.ok b, s1) rec) : Tr s (check b (writeStream b s1)).2 [rec] := by
  refine ⟨?_, ?_⟩
  · rw [(check_side b _).reads, (writeStream_side b s1).reads]; exact h.frame.reads
  · rw [dataOf_cons_some _ _ _ (h.ok b rfl).1, ssOf_check, ssOf_writeStream]
    have : ssOf s1 = ssOf s := ssOf_of_io h
    rw [this]; rfl

/-- one resumption of `read_iter` -/
theorem riNext_tr (ri : RI) (s : St) : ∃ recs, Tr s (riNext ri s).2.2 recs := by
  have hout := riNext_out ri s
  generalize riNext ri s = out at hout
  obtain ⟨st, ri', s'⟩ := out
  simp only at hout ⊢
  cases hout with
  | done _ _ => exact ⟨[], Tr.refl s⟩
  | expired _ _ => exact ⟨[], Tr.refl s⟩
  | ioErr rem rec s' e _ _ hio => exact ⟨[rec], Tr.of_ioErr hio⟩
  | death rem rec s1 b x m _ _ hio _ => exact ⟨[rec], Tr.of_chunk hio⟩
  | chunk rem rec s1 b _ _ hio _ => exact ⟨[rec], Tr.of_chunk hio⟩

theorem riTake_tr : ∀ (f : Nat) (k : Option Nat) (ri : RI) (s : St) (acc : List Bytes),
    ∃ recs, Tr s (riTake f k ri s acc).2 recs := by
  intro f
  induction f with
  | zero => intro k ri s acc; exact ⟨[], Tr.refl s⟩
  | succ f ih =>
    intro k ri s acc
    unfold riTake
    split
    · exact ⟨[], Tr.refl s⟩
    · obtain ⟨recs, h1⟩ := riNext_tr ri s
      generalize riNext ri s = out at h1
      obtain ⟨st, ri', s'⟩ := out
      simp only at h1
      cases st with
      | done => exact ⟨recs, h1⟩
      | err e => exact ⟨recs, h1⟩
      | chunk b =>
        simp only
        obtain ⟨recs2, h2⟩ := ih (k.map (· - 1)) ri' s' (acc ++ [b])
        exact ⟨recs ++ recs2, h1.trans h2⟩

theorem read_tr (n : Option Nat) (t : Option Nat) (s : St) : ∃ recs, Tr s (Chan.read n t s).2 recs := by
  unfold Chan.read
  cases n with
  | none =>
    simp only
    obtain ⟨rec, hio⟩ := ioRead_spec s.chunk t s
    cases hr : ioRead s.chunk t s with
    | mk res s1 =>
      rw [hr] at hio
      cases res with
      | error e => exact ⟨[rec], Tr.of_ioErr hio⟩
      | ok buf =>
        simp only
        have h := Tr.of_chunk hio
        cases hc : check buf (writeStream buf s1) with
        | mk cr s2 =>
          rw [hc] at h
          cases cr <;> exact ⟨[rec], h⟩
  | some n =>
    simp only
    obtain ⟨recs, h⟩ := riTake_tr (fuelFor s) none (riStart (some n) t s) s []
    cases hr : riTake (fuelFor s) none (riStart (some n) t s) s [] with
    | mk res s1 =>
      rw [hr] at h
      obtain ⟨cs, e⟩ := res
      cases e with
      | none =>
        simp only
        split <;> exact ⟨recs, h⟩
      | some e => exact ⟨recs, h⟩

theorem readlineLoop_tr : ∀ (f : Nat) (end_ line : Bytes) (t0 : Nat) (timeout : Option Nat) (s : St),
    ∃ recs, Tr s (readlineLoop f end_ line t0 timeout s).2 recs := by
  intro f
  induction f with
  | zero => intro _ _ _ _ s; exact ⟨[], Tr.refl s⟩
  | succ f ih =>
    intro end_ line t0 timeout s
    unfold readlineLoop
    cases remaining timeout t0 s.now with
    | none => exact ⟨[], Tr.refl s⟩
    | some rem =>
      simp only
      obtain ⟨recs, h1⟩ := read_tr (some 1) rem s
      generalize Chan.read (some 1) rem s = out at h1
      obtain ⟨res, s1⟩ := out
      simp only at h1
      cases res with
      | error e => exact ⟨recs, h1⟩
      | ok c =>
        simp only
        split
        · exact ⟨recs, h1⟩
        · obtain ⟨recs2, h2⟩ := ih end_ (line ++ c) t0 timeout s1
          exact ⟨recs ++ recs2, h1.trans h2⟩

theorem expectLoop_tr : ∀ (f : Nat) (pats : List Pat) (buf : Bytes) (ri : RI) (s : St),
    ∃ recs, Tr s (expectLoop f pats buf ri s).2 recs := by
  intro f
  induction f with
  | zero => intro _ _ _ s; exact ⟨[], Tr.refl s⟩
  | succ f ih =>
    intro pats buf ri s
    unfold expectLoop
    obtain ⟨recs, h1⟩ := riNext_tr ri s
    generalize riNext ri s = out at h1
    obtain ⟨st, ri', s'⟩ := out
    simp only at h1
    cases st with
    | done => exact ⟨recs, h1⟩
    | err e => exact ⟨recs, h1⟩
    | chunk b =>
      simp only
      split
      · exact ⟨recs, h1⟩
      · obtain ⟨recs2, h2⟩ := ih pats (buf ++ b) ri' s'
        exact ⟨recs ++ recs2, h1.trans h2⟩

theorem rupLoop_tr : ∀ (f : Nat) (buf : Bytes) (ri : RI) (s : St),
    ∃ recs, Tr s (rupLoop f buf ri s).2 recs := by
  intro f
  induction f with
  | zero => intro _ _ s; exact ⟨[], Tr.refl s⟩
  | succ f ih =>
    intro buf ri s
    unfold rupLoop
    obtain ⟨recs, h1⟩ := riNext_tr ri s
    generalize riNext ri s = out at h1
    obtain ⟨st, ri', s'⟩ := out
    simp only at h1
    cases st with
    | done => exact ⟨recs, h1⟩
    | err e => exact ⟨recs, h1⟩
    | chunk b =>
      simp only
      obtain ⟨recs2, h2⟩ := ih (buf ++ b) ri' s'
      split
      · exact ⟨recs ++ recs2, h1.trans h2⟩
      · split
        · exact ⟨recs, h1⟩
        · exact ⟨recs ++ recs2, h1.trans h2⟩

theorem readUntilTimeout_tr (t : Option Nat) (s : St) : ∃ recs, Tr s (readUntilTimeout t s).2 recs := by
  unfold readUntilTimeout
  obtain ⟨recs, h⟩ := riTake_tr (fuelFor s) none (riStart none t s) s []
  cases hr : riTake (fuelFor s) none (riStart none t s) s [] with
  | mk res s1 =>
    rw [hr] at h
    obtain ⟨cs, e⟩ := res
    cases e with
    | none => exact ⟨recs, h⟩
    | some e => cases e <;> exact ⟨recs, h⟩

/-- `read_until_prompt` without a per-call prompt -/
theorem readUntilPrompt_none_tr (t : Option Nat) (s : St) :
    ∃ recs, Tr s (readUntilPrompt none t s).2 recs := by
  unfold readUntilPrompt
  simp only
  exact rupLoop_tr (fuelFor s) [] (riStart none t s) s

/-- `read_until_prompt(prompt=p)`: the chunks pass through `writeStream` while the per-call
    prompt is installed; afterwards the previous prompt is back -/
theorem readUntilPrompt_some_tr (p : Pat) (t : Option Nat) (s : St) :
    ∃ recs, (readUntilPrompt (some p) t s).2.reads = s.reads ++ recs
      ∧ ssOf (readUntilPrompt (some p) t s).2
          = { ({ ssOf s with prompt := some (anchor p) } : SS).writes (dataOf recs) with prompt := s.prompt } := by
  unfold readUntilPrompt
  simp only
  generalize hs1 : ({ s with prompt := some (anchor p) } : St) = s1
  obtain ⟨recs, h⟩ := rupLoop_tr (fuelFor s1) [] (riStart none t s1) s1
  have hr1 : s1.reads = s.reads := by subst hs1; rfl
  have hss1 : ssOf s1 = { ssOf s with prompt := some (anchor p) } := by subst hs1; rfl
  refine ⟨recs, ?_, ?_⟩
  · show (rupLoop (fuelFor s1) [] (riStart none t s1) s1).2.reads = _
    rw [h.reads, hr1]
  · rw [← hss1, ← h.ss]
    rfl

/-! ### the write side does not touch the streams -/

theorem writeLoop_same : ∀ (f : Nat) (buf : Bytes) (s : St),
    (writeLoop f buf s).reads = s.reads ∧ ssOf (writeLoop f buf s) = ssOf s := by
  intro f
  induction f with
  | zero => intro _ s; exact ⟨rfl, rfl⟩
  | succ f ih =>
    intro buf s
    cases buf with
    | nil => exact ⟨rfl, rfl⟩
    | cons b t =>
      unfold writeLoop
      cases hd : s.slowDelay with
      | none =>
        simp only
        obtain ⟨h1, h2⟩ := ih ((b :: t).drop (ioWrite (b :: t) s).1) (ioWrite (b :: t) s).2
        exact ⟨by rw [h1]; rfl, by rw [h2]; rfl⟩
      | some d =>
        simp only
        obtain ⟨h1, h2⟩ := ih ((b :: t).drop (ioWrite ((b :: t).take s.slowChunk) s).1)
          { (ioWrite ((b :: t).take s.slowChunk) s).2 with now := (ioWrite ((b :: t).take s.slowChunk) s).2.now + d }
        exact ⟨by rw [h1]; rfl, by rw [h2]; rfl⟩

theorem write_tr (buf : Bytes) (ign : Bool) (s : St) : Tr s (Chan.write buf ign s).2 [] := by
  unfold Chan.write
  split
  · exact Tr.refl s
  · exact Tr.of_same (writeLoop_same _ _ _).1 (writeLoop_same _ _ _).2

theorem sendLoop_tr : ∀ (f : Nat) (buf : Bytes) (rb : Bool) (timeout : Option Nat) (ign : Bool) (t0 : Nat) (s : St),
    ∃ recs, Tr s (sendLoop f buf rb timeout ign t0 s).2 recs := by
  intro f
  induction f with
  | zero => intro _ _ _ _ _ s; exact ⟨[], Tr.refl s⟩
  | succ f ih =>
    intro buf rb timeout ign t0 s
    cases buf with
    | nil => exact ⟨[], Tr.refl s⟩
    | cons b t =>
      unfold sendLoop
      simp only
      have h1 := write_tr ((b :: t).take s.slice) ign s
      generalize Chan.write ((b :: t).take s.slice) ign s = out at h1
      obtain ⟨res, s1⟩ := out
      simp only at h1
      cases res with
      | error e => exact ⟨[], h1⟩
      | ok u =>
        simp only
        cases rb with
        | false =>
          simp only [Bool.false_eq_true, if_false]
          obtain ⟨recs2, h2⟩ := ih ((b :: t).drop s1.slice) false timeout ign t0 s1
          exact ⟨[] ++ recs2, h1.trans h2⟩
        | true =>
          simp only [if_true]
          cases remaining timeout t0 s1.now with
          | none => exact ⟨[], h1⟩
          | some rem =>
            simp only
            obtain ⟨recs2, h2⟩ := read_tr (some (((b :: t).take s.slice).length + countNl ((b :: t).take s.slice))) rem s1
            generalize Chan.read (some (((b :: t).take s.slice).length + countNl ((b :: t).take s.slice))) rem s1 = out2 at h2
            obtain ⟨res2, s2⟩ := out2
            simp only at h2
            cases res2 with
            | error e => exact ⟨[] ++ recs2, h1.trans h2⟩
            | ok v =>
              simp only
              obtain ⟨recs3, h3⟩ := ih ((b :: t).drop s2.slice) true timeout ign t0 s2
              exact ⟨([] ++ recs2) ++ recs3, (h1.trans h2).trans h3⟩

theorem send_tr (buf : Bytes) (rb : Bool) (t : Option Nat) (ign : Bool) (s : St) :
    ∃ recs, Tr s (Chan.send buf rb t ign s).2 recs := by
  unfold Chan.send
  split
  · exact ⟨[], Tr.refl s⟩
  · split
    · exact ⟨[], Tr.refl s⟩
    · exact sendLoop_tr _ _ _ _ _ _ _

theorem sendcontrol_tr (n : Nat) (s : St) : Tr s (Chan.sendcontrol n s).2 [] := by
  unfold Chan.sendcontrol
  split
  · exact write_tr _ _ _
  · exact Tr.refl s

end C08
