import TbotVerif.Props.LifeLemmas
/-! C13 — machine contexts init once, unwind fully on any failure, and always power off.

    The operational model of `Machine.__enter__/__exit__`, `ExitStack` and `PowerControl`
    (`Model/Life.lean`) satisfies the declarative life-cycle specification `Spec.C13`
    (`Spec/Life.lean`) for EVERY composition — with any number of steps whose context manager
    HANDLES the exception passing through it —, fault assignment and balanced nesting history
    (induction on the step list / the body / the session list; nothing is bounded).

    Theorems that existed before handling steps were modelled keep their statement; where the
    statement is about the exception that reaches the caller they carry the hypothesis "no step
    handles" (`hno`) and have a handling-aware sibling (`…_handling`). -/

namespace C13
open Life


/-- the callback a registered frame stands for -/
def Frame.ev : Frame → Ev
  | .cm id => .exit id
  | .power id => .off id

theorem nested_enter_silent (f : Faults) (H : Handles) (delay : Nat) (steps : List Step) (m : Mach) (h : 1 ≤ m.rc) :
    machEnter f H delay steps m = ([], none, { m with rc := m.rc + 1 }) := by
  unfold machEnter
  have : m.rc + 1 > 1 := by omega
  simp [this]

theorem nested_exit_silent (f : Faults) (H : Handles) (exc : Option Tag) (m : Mach) (h : 2 ≤ m.rc) :
    machExit f H exc m = ([], exc, { m with rc := m.rc - 1 }) := by
  unfold machExit
  have : (m.rc - 1 == 0) = false := by
    simp; omega
  simp [this]

theorem frame_run (f : Faults) (fr : Frame) (env : Env) :
    (fr.run f env).1 = [Frame.ev fr] ∧ (fr.run f env).2.1 = faultTag f (Frame.ev fr) := by
  cases fr with
  | cm id => simp [Frame.run, Frame.ev, faultTag]
  | power id =>
    simp only [Frame.run, Frame.ev, faultTag, powerOff]
    split <;> simp [*]

theorem frame_handles (H : Handles) (fr : Frame) : fr.handles H = handlesEv H (Frame.ev fr) := by
  cases fr <;> rfl

theorem flight_after_raised (fl : Flight) (r : Option Tag) (h : Bool) :
    (fl.after r h).raised = match r with
      | some t => some t
      | none => if h then none else fl.raised := by
  cases r with
  | some t => rfl
  | none => cases h <;> rfl

/-- **The exit stack, with handling steps.**  Every registered callback runs, in stack order,
    whatever is handled; what the stack raises at the end is the last tear-down fault after which
    no handling step exited cleanly. -/
theorem unwind_spec_handling (f : Faults) (H : Handles) : ∀ (cx : List Frame) (fl : Flight) (env : Env),
    (unwind f H cx fl env).1 = cx.map Frame.ev
    ∧ (unwind f H cx fl env).2.1.raised = pendingFault f H (cx.map Frame.ev) fl.raised
  | [], fl, env => by simp [unwind, pendingFault]
  | fr :: rest, fl, env => by
    obtain ⟨h1, h2⟩ := frame_run f fr env
    unfold unwind
    generalize hr : fr.run f env = R at h1 h2
    obtain ⟨ev, r, env1⟩ := R
    simp only at h1 h2
    subst h1 h2
    have ih := unwind_spec_handling f H rest (fl.after (faultTag f (Frame.ev fr)) (fr.handles H)) env1
    simp only [List.map_cons, pendingFault_cons]
    refine ⟨by simp [ih.1], ?_⟩
    rw [ih.2, flight_after_raised, frame_handles]
    cases faultTag f (Frame.ev fr) <;> rfl

/-- the exit stack of a composition without handling steps: the last exception raised wins, an
    exception that nobody replaced stays in flight -/
theorem unwind_spec (f : Faults) (H : Handles) (hno : ∀ i, H i = false) (cx : List Frame) (exc : Option Tag) (env : Env) :
    (unwind f H cx { exc := exc } env).1 = cx.map Frame.ev
    ∧ (unwind f H cx { exc := exc } env).2.1.raised.or exc = lastRaised f (cx.map Frame.ev) exc := by
  obtain ⟨h1, h2⟩ := unwind_spec_handling f H cx { exc := exc } env
  refine ⟨h1, ?_⟩
  have hH : H = fun _ => false := funext hno
  rw [h2, hH, pendingFault_nohandle f _ _ _ (fun e _ => handlesEv_none e)]
  exact lastRaised_or f _ none exc

theorem noSleep_power_evs (id slp : Nat) (tail : List Ev) :
    noSleep (Ev.check id :: ((if slp > 0 then [Ev.sleep slp] else []) ++ (Ev.on id :: tail)))
      = Ev.check id :: Ev.on id :: noSleep tail := by
  by_cases h : slp > 0 <;> simp [noSleep, isSleep, h]

theorem enterStep_ok (f : Faults) (delay : Nat) (s : Step) (env env1 : Env) (ev : List Ev) (fr : Option Frame)
    (h : enterStep f delay s env = (ev, .ok fr, env1)) :
    noSleep ev = beginEvs s ∧ (∀ e ∈ beginEvs s, raises f e = false)
      ∧ fr.toList.map Frame.ev = teardown f (beginEvs s) := by
  obtain ⟨id, k, hd⟩ := s
  cases k
  case power =>
    simp only [enterStep, powerOn] at h
    by_cases hc : f (.check id) = true
    · simp [hc] at h
    by_cases hn : f (.refused id) = true
    · simp [hc, hn] at h
    by_cases ho : f (.on id) = true
    · simp [hc, hn, ho] at h
    simp only [hc, hn, ho, Bool.false_eq_true, if_false, Prod.mk.injEq, Except.ok.injEq] at h
    obtain ⟨rfl, rfl, rfl⟩ := h
    have := noSleep_power_evs id (sleepFor delay env) []
    simp only [noSleep, List.filter_nil] at this
    refine ⟨by simpa [noSleep, beginEvs] using this, ?_, ?_⟩
    · intro e he
      simp only [beginEvs, List.mem_cons, List.not_mem_nil, or_false] at he
      rcases he with rfl | rfl <;> simp [raises, faultTag, hc, hn, ho]
    · simp [beginEvs, teardown, teardownOf, Frame.ev]
  case hook =>
    simp only [enterStep] at h
    by_cases hh : f (.hook id) = true
    · simp [hh] at h
    simp only [hh, Bool.false_eq_true, if_false, Prod.mk.injEq, Except.ok.injEq] at h
    obtain ⟨rfl, rfl, rfl⟩ := h
    simp [beginEvs, noSleep, isSleep, raises, faultTag, hh, teardown, teardownOf]
  all_goals
    simp only [enterStep] at h
    by_cases hh : f (.enter id) = true
    · simp [hh] at h
    simp only [hh, Bool.false_eq_true, if_false, Prod.mk.injEq, Except.ok.injEq] at h
    obtain ⟨rfl, rfl, rfl⟩ := h
    simp [beginEvs, noSleep, isSleep, raises, faultTag, hh, teardown, teardownOf, Frame.ev]

theorem enterStep_err (f : Faults) (delay : Nat) (s : Step) (env env1 : Env) (ev : List Ev) (t : Tag)
    (h : enterStep f delay s env = (ev, .error t, env1)) :
    noSleep ev = uptoFirst (raises f) (beginEvs s) ++ teardown f (uptoFirst (raises f) (beginEvs s))
      ∧ (beginEvs s).any (raises f) = true
      ∧ some t = lastRaised f (noSleep ev) none := by
  obtain ⟨id, k, hd⟩ := s
  cases k
  case power =>
    simp only [enterStep, powerOn] at h
    by_cases hc : f (.check id) = true
    · simp only [hc, if_true, Prod.mk.injEq, Except.error.injEq] at h
      obtain ⟨rfl, rfl, rfl⟩ := h
      simp [beginEvs, uptoFirst, raises, faultTag, hc, teardown, teardownOf, noSleep, isSleep, lastRaised]
    by_cases hn : f (.refused id) = true
    · simp only [hc, hn, Bool.false_eq_true, if_false, if_true, Prod.mk.injEq, Except.error.injEq] at h
      obtain ⟨rfl, rfl, rfl⟩ := h
      simp [beginEvs, uptoFirst, raises, faultTag, hc, hn, teardown, teardownOf, noSleep, isSleep, lastRaised]
    by_cases ho : f (.on id) = true
    · simp only [hc, hn, ho, Bool.false_eq_true, if_false, if_true, Prod.mk.injEq, Except.error.injEq, powerOff] at h
      by_cases hf : f (.off id) = true
      · simp only [hf, if_true] at h
        obtain ⟨rfl, rfl, rfl⟩ := h
        have := noSleep_power_evs id (sleepFor delay env) [.off id]
        simp only [List.cons_append, List.append_assoc, List.nil_append] at this ⊢
        rw [this]
        simp [beginEvs, uptoFirst, raises, faultTag, hc, hn, ho, hf, teardown, teardownOf, noSleep, isSleep, lastRaised]
      · simp only [hf, Bool.false_eq_true, if_false] at h
        obtain ⟨rfl, rfl, rfl⟩ := h
        have := noSleep_power_evs id (sleepFor delay env) [.off id]
        simp only [List.cons_append, List.append_assoc, List.nil_append] at this ⊢
        rw [this]
        simp [beginEvs, uptoFirst, raises, faultTag, hc, hn, ho, hf, teardown, teardownOf, noSleep, isSleep, lastRaised]
    · simp [hc, hn, ho] at h
  case hook =>
    simp only [enterStep] at h
    by_cases hh : f (.hook id) = true
    · simp only [hh, if_true, Prod.mk.injEq, Except.error.injEq] at h
      obtain ⟨rfl, rfl, rfl⟩ := h
      simp [beginEvs, uptoFirst, noSleep, isSleep, raises, faultTag, hh, teardown, teardownOf, lastRaised]
    · simp [hh] at h
  all_goals
    simp only [enterStep] at h
    by_cases hh : f (.enter id) = true
    · simp only [hh, if_true, Prod.mk.injEq, Except.error.injEq] at h
      obtain ⟨rfl, rfl, rfl⟩ := h
      simp [beginEvs, uptoFirst, noSleep, isSleep, raises, faultTag, hh, teardown, teardownOf, lastRaised]
    · simp [hh] at h

theorem noSleep_frames (cx : List Frame) : noSleep (cx.map Frame.ev) = cx.map Frame.ev := by
  induction cx with
  | nil => rfl
  | cons fr cx ih => cases fr <;> simpa [noSleep, Frame.ev, isSleep] using ih

/-- **One unit.**  The context managers of a unit are entered in order; when all come up they are
    handed (on top of `held`) to the caller; when one raises, the ones entered before it are exited
    at once, innermost first, and the last exception raised leaves the unit. -/
theorem enterUnit_spec (f : Faults) (delay : Nat) : ∀ (u : List Step) (held : List Frame) (env : Env),
    (∀ ev frs env1, enterUnit f delay u held env = (ev, .ok frs, env1) →
        noSleep ev = u.flatMap beginEvs ∧ (∀ e ∈ u.flatMap beginEvs, raises f e = false)
        ∧ frs.map Frame.ev = teardown f (u.flatMap beginEvs) ++ held.map Frame.ev)
    ∧ (∀ ev t env1, enterUnit f delay u held env = (ev, .error t, env1) →
        noSleep ev = uptoFirst (raises f) (u.flatMap beginEvs)
            ++ (teardown f (uptoFirst (raises f) (u.flatMap beginEvs)) ++ held.map Frame.ev)
        ∧ (u.flatMap beginEvs).any (raises f) = true
        ∧ some t = lastRaised f (noSleep ev) none)
  | [], held, env => by
    refine ⟨?_, ?_⟩
    · intro ev frs env1 h
      simp only [enterUnit, Prod.mk.injEq, Except.ok.injEq] at h
      obtain ⟨rfl, rfl, rfl⟩ := h
      simp [noSleep, teardown]
    · intro ev t env1 h
      simp [enterUnit] at h
  | s :: rest, held, env => by
    unfold enterUnit
    cases hs : enterStep f delay s env with
    | mk ev0 R =>
    obtain ⟨res, env0⟩ := R
    cases res with
    | error t0 =>
      obtain ⟨h1, h2, h3⟩ := enterStep_err f delay s env env0 ev0 t0 hs
      have hexp : uptoFirst (raises f) ((s :: rest).flatMap beginEvs) = uptoFirst (raises f) (beginEvs s) := by
        simp only [List.flatMap_cons]
        exact uptoFirst_append_of_any h2
      obtain ⟨u1, u2⟩ := unwind_spec f (fun _ => false) (fun _ => rfl) held (some t0) env0
      simp only
      generalize unwind f (fun _ => false) held { exc := some t0 } env0 = U at u1 u2 ⊢
      obtain ⟨evx, fl, env2⟩ := U
      simp only at u1 u2
      refine ⟨?_, ?_⟩
      · intro ev frs env1 h
        simp at h
      · intro ev t env1 h
        simp only [Prod.mk.injEq, Except.error.injEq] at h
        obtain ⟨rfl, rfl, rfl⟩ := h
        have hns : noSleep (ev0 ++ evx) = noSleep ev0 ++ held.map Frame.ev := by
          rw [noSleep_append, u1, noSleep_frames]
        refine ⟨?_, ?_, ?_⟩
        · rw [hns, h1, hexp, List.append_assoc]
        · simp only [List.flatMap_cons, List.any_append, h2, Bool.true_or]
        · rw [hns, lastRaised_append, ← h3, ← u2]
          cases fl.raised <;> rfl
    | ok fr =>
      obtain ⟨h1, h2, h3⟩ := enterStep_ok f delay s env env0 ev0 fr hs
      obtain ⟨iok, ierr⟩ := enterUnit_spec f delay rest (fr.toList ++ held) env0
      simp only
      generalize enterUnit f delay rest (fr.toList ++ held) env0 = R at iok ierr ⊢
      obtain ⟨evs, r, env2⟩ := R
      simp only
      refine ⟨?_, ?_⟩
      · intro ev frs env1 h
        simp only [Prod.mk.injEq] at h
        obtain ⟨rfl, rfl, rfl⟩ := h
        obtain ⟨a1, a2, a3⟩ := iok evs frs env2 rfl
        refine ⟨?_, ?_, ?_⟩
        · rw [noSleep_append, h1, a1, List.flatMap_cons]
        · intro e he
          rw [List.flatMap_cons] at he
          rcases List.mem_append.mp he with he | he
          · exact h2 e he
          · exact a2 e he
        · rw [a3, List.flatMap_cons, teardown_append, List.map_append, h3, List.append_assoc]
      · intro ev t env1 h
        simp only [Prod.mk.injEq] at h
        obtain ⟨rfl, rfl, rfl⟩ := h
        obtain ⟨a1, a2, a3⟩ := ierr evs t env2 rfl
        have hexp : uptoFirst (raises f) ((s :: rest).flatMap beginEvs)
            = beginEvs s ++ uptoFirst (raises f) (rest.flatMap beginEvs) := by
          simp only [List.flatMap_cons]
          exact uptoFirst_append_of_none h2
        refine ⟨?_, ?_, ?_⟩
        · rw [noSleep_append, h1, a1, hexp, teardown_append, List.map_append, h3]
          simp only [List.append_assoc]
        · simp only [List.flatMap_cons, List.any_append, a2, Bool.or_true]
        · rw [noSleep_append, h1, lastRaised_append, lastRaised_of_none f _ _ h2]
          exact a3

/-- **Initialisation, by units.**  The units are entered in order up to the first that fails; the
    begin callbacks that run are those of the started units, then those of the failing unit up to
    the callback that raised, followed by the clean-up the failing unit does itself; what is
    registered on the exit stack is exactly the tear-down of the started units; the exception is the
    last one raised. -/
theorem enterUnits_split (f : Faults) (delay : Nat) : ∀ (us : List (List Step)) (cx : List Frame) (env : Env),
    noSleep (enterUnits f delay us cx env).1
        = (splitInit f us).1 ++ ((splitInit f us).2 ++ teardown f (splitInit f us).2)
      ∧ (enterUnits f delay us cx env).2.2.1.map Frame.ev
          = teardown f (splitInit f us).1 ++ cx.map Frame.ev
      ∧ (enterUnits f delay us cx env).2.1
          = lastRaised f ((splitInit f us).2 ++ teardown f (splitInit f us).2) none
      ∧ ((enterUnits f delay us cx env).2.1 = none → (splitInit f us).2 = [])
      ∧ ((enterUnits f delay us cx env).2.1 ≠ none → (splitInit f us).2.any (raises f) = true)
  | [], cx, env => by
    simp [enterUnits, splitInit, noSleep, teardown, lastRaised]
  | u :: rest, cx, env => by
    unfold enterUnits
    obtain ⟨uok, uerr⟩ := enterUnit_spec f delay u [] env
    cases hs : enterUnit f delay u [] env with
    | mk ev R =>
    obtain ⟨res, env1⟩ := R
    cases res with
    | error t =>
      obtain ⟨h1, h2, h3⟩ := uerr ev t env1 hs
      simp only [List.map_nil, List.append_nil] at h1
      have hsp : splitInit f (u :: rest) = ([], uptoFirst (raises f) (u.flatMap beginEvs)) := by
        simp [splitInit, h2]
      simp only [hsp, List.nil_append]
      refine ⟨h1, by simp [teardown], ?_, ?_, ?_⟩
      · rw [← h1]; exact h3
      · intro h; simp at h
      · intro _
        have := uptoFirst_all_not_of_any h2
        rw [List.all_eq_false] at this
        obtain ⟨x, hx, hp⟩ := this
        rw [List.any_eq_true]
        exact ⟨x, hx, by simpa using hp⟩
    | ok frs =>
      obtain ⟨h1, h2, h3⟩ := uok ev frs env1 hs
      simp only [List.map_nil, List.append_nil] at h3
      obtain ⟨i1, i2, i3, i4, i5⟩ := enterUnits_split f delay rest (frs ++ cx) env1
      have hany : (u.flatMap beginEvs).any (raises f) = false := by
        rw [List.any_eq_false]
        intro x hx
        simp [h2 x hx]
      have hsp : splitInit f (u :: rest)
          = (u.flatMap beginEvs ++ (splitInit f rest).1, (splitInit f rest).2) := by
        simp [splitInit, hany]
      simp only [hsp]
      refine ⟨?_, ?_, i3, i4, i5⟩
      · rw [noSleep_append, h1, i1, List.append_assoc]
      · rw [i2, teardown_append, List.map_append, h3, List.append_assoc]

/-- **Initialisation.**  For every step list, fault assignment, stack and environment: the begin
    callbacks that run are those of the steps in list order up to and including the first one that
    raises, followed by the clean-up the failing unit does itself (the power-off of a failing
    `poweron`, the exit of the lab-host clone of a failing `connect`); what is registered on the
    exit stack is exactly the tear-down of the units that were started; the exception is the last
    one raised. -/
theorem enterSteps_split (f : Faults) (delay : Nat) (steps : List Step) (cx : List Frame) (env : Env) :
    noSleep (enterSteps f delay steps cx env).1
        = expectedInit steps f ++ ownCleanup f steps
      ∧ (enterSteps f delay steps cx env).2.2.1.map Frame.ev
          = stackTeardown f steps ++ cx.map Frame.ev
      ∧ (enterSteps f delay steps cx env).2.1
          = lastRaised f (expectedInit steps f ++ ownCleanup f steps) none
      ∧ ((enterSteps f delay steps cx env).2.1 = none →
          (∀ e ∈ expectedInit steps f, raises f e = false))
      ∧ ((enterSteps f delay steps cx env).2.1 ≠ none →
          (expectedInit steps f).all (fun e => !raises f e) = false) := by
  obtain ⟨i1, i2, i3, i4, i5⟩ := enterUnits_split f delay (units steps) cx env
  unfold enterSteps
  rw [expectedInit_split]
  unfold ownCleanup stackTeardown startedInit failedInit
  refine ⟨by rw [i1, List.append_assoc], i2, ?_, ?_, ?_⟩
  · rw [i3, List.append_assoc, lastRaised_append _ (splitInit f (units steps)).1,
      lastRaised_of_none f _ _ (splitInit_started_none f _)]
  · intro h e he
    rw [i4 h, List.append_nil] at he
    exact splitInit_started_none f _ e he
  · intro h
    have := i5 h
    rw [List.any_eq_true] at this
    obtain ⟨x, hx, hp⟩ := this
    rw [List.all_eq_false]
    exact ⟨x, List.mem_append_right _ hx, by simp [hp]⟩

/-- the same in the form it had before handling steps were modelled: some part `extra` of the
    tear-down owed has already run, the rest is registered -/
theorem enterSteps_spec (f : Faults) (delay : Nat) (steps : List Step) (cx : List Frame) (env : Env) :
    ∃ extra, noSleep (enterSteps f delay steps cx env).1 = expectedInit steps f ++ extra
      ∧ extra ++ (enterSteps f delay steps cx env).2.2.1.map Frame.ev
          = teardown f (expectedInit steps f) ++ cx.map Frame.ev
      ∧ (enterSteps f delay steps cx env).2.1 = lastRaised f (expectedInit steps f ++ extra) none
      ∧ ((enterSteps f delay steps cx env).2.1 = none →
          (∀ e ∈ expectedInit steps f, raises f e = false) ∧ extra = [])
      ∧ ((enterSteps f delay steps cx env).2.1 ≠ none →
          (expectedInit steps f).all (fun e => !raises f e) = false) := by
  obtain ⟨i1, i2, i3, i4, i5⟩ := enterSteps_split f delay steps cx env
  refine ⟨ownCleanup f steps, i1, ?_, i3, ?_, i5⟩
  · rw [i2, teardown_split, List.append_assoc]
  · intro h
    exact ⟨i4 h, (ownCleanup_of_none steps f (i4 h)).1⟩

theorem propagate_silent (f : Faults) (H : Handles) : ∀ (d : Nat) (t : Tag) (m : Mach), m.rc = d + 1 →
    propagate f H d t m = ([], t, { m with rc := 1 })
  | 0, t, m, h => by
    simp only [propagate]
    cases m; simp_all
  | d + 1, t, m, h => by
    unfold propagate
    rw [nested_exit_silent f H (some t) m (by omega)]
    simp only [Option.getD_some, List.nil_append]
    rw [propagate_silent f H d t _ (by simp; omega)]

/-- **Nested entries and exits do nothing.**  While the outermost `with m:` is open, a balanced
    body produces only its own events, touches neither the exit stack nor the environment, and
    leaves the counter at 1 — whether it completes or raises at any depth. -/
theorem runBody_spec (f : Faults) (H : Handles) (delay : Nat) (steps : List Step) : ∀ (ops : List Op) (d : Nat) (m : Mach),
    m.rc = d + 1 → balanced ops d = true →
    runBody f H delay steps ops d m
      = (expectedBody ops, lastRaised f (expectedBody ops) none, { m with rc := 1 })
  | [], d, m, h, hb => by
    simp only [balanced, beq_iff_eq] at hb
    subst hb
    cases m
    simp_all [runBody, expectedBody, uptoFirst, lastRaised]
  | .opened :: ops, d, m, h, hb => by
    simp only [balanced] at hb
    unfold runBody
    rw [nested_enter_silent f H delay steps m (by omega)]
    simp only [List.nil_append]
    rw [runBody_spec f H delay steps ops (d + 1) _ (by simp; omega) hb, expectedBody_cons_opened]
    simp [lastRaised_cons, faultTag]
  | .closed :: ops, d, m, h, hb => by
    simp only [balanced, Bool.and_eq_true, decide_eq_true_eq] at hb
    unfold runBody
    rw [nested_exit_silent f H none m (by omega)]
    simp only [List.nil_append]
    rw [runBody_spec f H delay steps ops (d - 1) _ (by simp; omega) hb.2, expectedBody_cons_closed]
    simp [lastRaised_cons, faultTag]
  | .mark k :: ops, d, m, h, hb => by
    simp only [balanced] at hb
    unfold runBody
    rw [runBody_spec f H delay steps ops d m h hb, expectedBody_cons_mark]
    simp [lastRaised_cons, faultTag]
  | .raise k :: ops, d, m, h, hb => by
    unfold runBody
    rw [propagate_silent f H d _ m h, expectedBody_cons_raise]
    simp [lastRaised, faultTag]

/-- the last exit: every registered callback runs; what propagates is the tear-down fault the
    stack raised, else — `Machine.__exit__` returns `None` — the incoming exception -/
theorem machExit_last_handling (f : Faults) (H : Handles) (exc : Option Tag) (m : Mach) (h : m.rc = 1) :
    (machExit f H exc m).1 = m.cx.map Frame.ev
    ∧ (machExit f H exc m).2.1 = (pendingFault f H (m.cx.map Frame.ev) none).or exc
    ∧ (machExit f H exc m).2.2.rc = 0 ∧ (machExit f H exc m).2.2.cx = [] := by
  unfold machExit
  have : (m.rc - 1 == 0) = true := by simp [h]
  simp only [this, if_true]
  obtain ⟨u1, u2⟩ := unwind_spec_handling f H m.cx { exc := exc } m.env
  refine ⟨u1, ?_, trivial, trivial⟩
  simp only [u2]
  rfl

theorem machExit_last (f : Faults) (H : Handles) (hno : ∀ i, H i = false) (exc : Option Tag) (m : Mach) (h : m.rc = 1) :
    (machExit f H exc m).1 = m.cx.map Frame.ev
    ∧ (machExit f H exc m).2.1 = lastRaised f (m.cx.map Frame.ev) exc
    ∧ (machExit f H exc m).2.2.rc = 0 ∧ (machExit f H exc m).2.2.cx = [] := by
  obtain ⟨x1, x2, x3, x4⟩ := machExit_last_handling f H exc m h
  refine ⟨x1, ?_, x3, x4⟩
  have hH : H = fun _ => false := funext hno
  rw [x2, hH, pendingFault_nohandle f _ _ _ (fun e _ => handlesEv_none e)]
  exact lastRaised_or f _ none exc

/-- without handling steps "tear-down fault not handled further out, else the own exception" is
    "the last exception raised" -/
theorem or_plain (f : Faults) (H : Handles) (hno : ∀ i, H i = false) (pre st : List Ev) :
    (pendingFault f H st none).or (lastRaised f pre none) = lastRaised f (pre ++ st) none := by
  have hH : H = fun _ => false := funext hno
  rw [hH, pendingFault_nohandle f _ _ _ (fun e _ => handlesEv_none e), lastRaised_or, lastRaised_append]
  rfl

/-- **First entry, with handling steps.**  From counter 0 `__enter__` either brings every step up
    (counter 1, the exit stack holds exactly the tear-down owed) or, at the first step that raises,
    tears down what had been begun — in reverse, each once, continuing past faults and past
    handling steps — and leaves counter 0 and an empty stack; the exception is a tear-down fault
    that no step further out handled, else the set-up's own exception (whatever was handled). -/
theorem machEnter_fresh_handling (f : Faults) (H : Handles) (delay : Nat) (steps : List Step) (m : Mach) (h : m.rc = 0) :
    ((machEnter f H delay steps m).2.1 = none →
        noSleep (machEnter f H delay steps m).1 = expectedInit steps f
        ∧ (∀ e ∈ expectedInit steps f, raises f e = false)
        ∧ (machEnter f H delay steps m).2.2.rc = 1
        ∧ (machEnter f H delay steps m).2.2.cx.map Frame.ev = teardown f (expectedInit steps f))
    ∧ ((machEnter f H delay steps m).2.1 ≠ none →
        noSleep (machEnter f H delay steps m).1 = expectedInit steps f ++ teardown f (expectedInit steps f)
        ∧ (expectedInit steps f).all (fun e => !raises f e) = false
        ∧ (machEnter f H delay steps m).2.1
            = (pendingFault f H (stackTeardown f steps) none).or
                (lastRaised f (expectedInit steps f ++ ownCleanup f steps) none)
        ∧ (machEnter f H delay steps m).2.2.rc = 0 ∧ (machEnter f H delay steps m).2.2.cx = []) := by
  obtain ⟨i1, i2, i3, i4, i5⟩ := enterSteps_split f delay steps [] m.env
  unfold machEnter
  have hrc : ¬ (m.rc + 1 > 1) := by omega
  simp only [hrc, if_false]
  generalize enterSteps f delay steps [] m.env = R at i1 i2 i3 i4 i5
  obtain ⟨evs, r, cx, env⟩ := R
  simp only [List.map_nil, List.append_nil] at i1 i2 i3 i4 i5
  cases r with
  | none =>
    have a := i4 rfl
    obtain ⟨b1, b2⟩ := ownCleanup_of_none steps f a
    rw [b1, List.append_nil] at i1
    rw [b2] at i2
    refine ⟨fun _ => ⟨i1, a, by simp [h], i2⟩, fun hne => absurd rfl hne⟩
  | some t =>
    simp only
    obtain ⟨x1, x2, x3, x4⟩ := machExit_last_handling f H (some t) { rc := m.rc + 1, cx := cx, env := env } (by simp [h])
    refine ⟨fun hn => ?_, fun _ => ⟨?_, i5 (by simp), ?_, x3, x4⟩⟩
    · rw [x2] at hn
      cases hp : pendingFault f H (List.map Frame.ev cx) none <;> simp [hp] at hn
    · rw [noSleep_append, i1, x1, noSleep_frames, List.append_assoc, i2, ← teardown_split]
    · rw [x2, i3, i2]

/-- **First entry** of a composition without handling steps: the exception is the last one raised. -/
theorem machEnter_fresh (f : Faults) (H : Handles) (hno : ∀ i, H i = false) (delay : Nat) (steps : List Step) (m : Mach)
    (h : m.rc = 0) :
    ((machEnter f H delay steps m).2.1 = none →
        noSleep (machEnter f H delay steps m).1 = expectedInit steps f
        ∧ (∀ e ∈ expectedInit steps f, raises f e = false)
        ∧ (machEnter f H delay steps m).2.2.rc = 1
        ∧ (machEnter f H delay steps m).2.2.cx.map Frame.ev = teardown f (expectedInit steps f))
    ∧ ((machEnter f H delay steps m).2.1 ≠ none →
        noSleep (machEnter f H delay steps m).1 = expectedInit steps f ++ teardown f (expectedInit steps f)
        ∧ (expectedInit steps f).all (fun e => !raises f e) = false
        ∧ (machEnter f H delay steps m).2.1
            = lastRaised f (expectedInit steps f ++ teardown f (expectedInit steps f)) none
        ∧ (machEnter f H delay steps m).2.2.rc = 0 ∧ (machEnter f H delay steps m).2.2.cx = []) := by
  obtain ⟨hok, herr⟩ := machEnter_fresh_handling f H delay steps m h
  refine ⟨hok, fun hne => ?_⟩
  obtain ⟨e1, e2, e3, e4, e5⟩ := herr hne
  refine ⟨e1, e2, ?_, e4, e5⟩
  rw [e3, or_plain f H hno, List.append_assoc, ← teardown_split]

/-- **One session, with handling steps.**  For every step list — any of the steps may handle the
    exception passing through it —, fault assignment, balanced body, environment and exit stack
    left behind, a `with m: body` started at counter 0 produces the specified log (every started
    step torn down once, in reverse), hands to the caller the tear-down fault that no step further
    out handled, else the set-up's / body's own exception, and ends at counter 0 with an empty exit
    stack. -/
theorem session_spec_handling (delay : Nat) (steps : List Step) (s : Session) (m : Mach)
    (hrc : m.rc = 0) (hb : balanced s.body 0 = true) :
    noSleep (runSession delay steps s m).1.trace = expectedTrace steps s.f s.body
    ∧ (runSession delay steps s m).1.exc = expectedExc steps s.f s.body
    ∧ (runSession delay steps s m).1.rc = 0
    ∧ (runSession delay steps s m).2.rc = 0 ∧ (runSession delay steps s m).2.cx = [] := by
  unfold runSession
  have hrc0 : (advance s.gap m).rc = 0 := hrc
  generalize advance s.gap m = m0 at hrc0 ⊢
  obtain ⟨hok, herr⟩ := machEnter_fresh_handling s.f (handlesOf steps) delay steps m0 hrc0
  generalize machEnter s.f (handlesOf steps) delay steps m0 = R at hok herr ⊢
  obtain ⟨ev1, r1, m1⟩ := R
  simp only at hok herr
  cases r1 with
  | some t =>
    obtain ⟨e1, e2, e3, e4, e5⟩ := herr (by simp)
    simp only [expectedTrace, expectedExc, survivingFault, ownExc, ownTrace, e2]
    refine ⟨?_, ?_, ?_, e4, e5⟩
    · simpa using e1
    · simpa using e3
    · simp [e4]
  | none =>
    obtain ⟨o1, o2, o3, o4⟩ := hok rfl
    have hall : (expectedInit steps s.f).all (fun e => !raises s.f e) = true :=
      (all_not_raises_iff _ _).mpr o2
    obtain ⟨b1, b2⟩ := ownCleanup_of_none steps s.f o2
    simp only
    rw [runBody_spec s.f (handlesOf steps) delay steps s.body 0 m1 (by simp [o3]) hb]
    simp only
    obtain ⟨x1, x2, x3, x4⟩ := machExit_last_handling s.f (handlesOf steps)
      (lastRaised s.f (expectedBody s.body) none) { m1 with rc := 1 } rfl
    simp only [expectedTrace, expectedExc, survivingFault, ownExc, ownTrace, hall, if_true, b1, b2, List.append_nil]
    refine ⟨?_, ?_, ?_, x3, x4⟩
    · rw [noSleep_append, noSleep_append, o1, x1, noSleep_frames, o4]
      rw [noSleep_expectedBody]
    · rw [x2, o4, lastRaised_append, lastRaised_of_none s.f _ _ o2]
    · simp [x3]

/-- without handling steps the caller gets the last exception raised along the log -/
theorem expectedExc_plain (steps : List Step) (hno : ∀ s ∈ steps, s.handles = false) (f : Faults) (body : List Op) :
    expectedExc steps f body = lastRaised f (expectedTrace steps f body) none := by
  unfold expectedExc survivingFault ownExc
  rw [or_plain f (handlesOf steps) (fun i => by rw [handlesOf_none hno])]
  unfold ownTrace expectedTrace
  simp only [List.append_assoc]
  rw [← teardown_split]

/-- **One session** of a composition without handling steps: the specified log, the last exception
    raised reaches the caller, counter 0 and an empty exit stack afterwards. -/
theorem session_spec (delay : Nat) (steps : List Step) (hno : ∀ s ∈ steps, s.handles = false) (s : Session) (m : Mach)
    (hrc : m.rc = 0) (hb : balanced s.body 0 = true) :
    noSleep (runSession delay steps s m).1.trace = expectedTrace steps s.f s.body
    ∧ (runSession delay steps s m).1.exc = lastRaised s.f (expectedTrace steps s.f s.body) none
    ∧ (runSession delay steps s m).1.rc = 0
    ∧ (runSession delay steps s m).2.rc = 0 ∧ (runSession delay steps s m).2.cx = [] := by
  obtain ⟨a, b, c⟩ := session_spec_handling delay steps s m hrc hb
  exact ⟨a, by rw [b, expectedExc_plain steps hno], c⟩

/-- **Step order.**  The order in which `Machine.__enter__` visits the classes (three filters over
    the MRO, with `_connect`, `_init_shell` and `init` resolved in between) is the documented one
    whenever the class has at most one connector, shell and `init` override. -/
theorem machSteps_eq_specOrder (mro : List Step)
    (hl : (mro.filter (fun s => s.kind == .host)).length ≤ 1)
    (hc : (mro.filter (fun s => s.kind == .conn)).length ≤ 1)
    (hs : (mro.filter (fun s => s.kind == .shell)).length ≤ 1)
    (hh : (mro.filter (fun s => s.kind == .hook)).length ≤ 1) :
    machSteps mro = specOrder mro := by
  have hr : List.range 7 = [0, 1, 2, 3, 4, 5, 6] := by decide
  unfold machSteps specOrder
  rw [hr, find?_toList_eq_filter _ mro hl, find?_toList_eq_filter _ mro hc, find?_toList_eq_filter _ mro hs,
    find?_toList_eq_filter _ mro hh]
  simp only [List.flatMap_cons, List.flatMap_nil, List.append_nil, List.append_assoc]
  rw [filter_rank mro .pre 0 (by intro k; cases k <;> rfl),
      filter_rank mro .host 1 (by intro k; cases k <;> rfl),
      filter_rank mro .conn 2 (by intro k; cases k <;> rfl),
      filter_rank mro .shell 4 (by intro k; cases k <;> rfl),
      filter_rank mro .post 5 (by intro k; cases k <;> rfl),
      filter_rank mro .hook 6 (by intro k; cases k <;> rfl)]
  have h2 : mro.filter (fun s => s.kind.rank == 3) = mro.filter (fun s => s.kind == .init || s.kind == .power) := by
    congr 1; funext s; cases s.kind <;> rfl
  rw [h2]

theorem mroFrom_filter_length (hs : List Nat) (k : Kind) : ∀ (ks : List Kind) (i : Nat),
    ((mroFrom hs i ks).filter (fun s => s.kind == k)).length = ks.count k
  | [], _ => rfl
  | k' :: ks, i => by
    simp only [mroFrom, List.filter_cons, List.count_cons]
    by_cases h : k' = k
    · subst h; simp [mroFrom_filter_length hs k' ks (i + 1)]
    · have : (k' == k) = false := by simpa using h
      simp [this, mroFrom_filter_length hs k ks (i + 1)]

theorem runSessions_spec (delay : Nat) (steps : List Step) : ∀ (ss : List Session) (m : Mach), m.rc = 0 →
    (∀ s ∈ ss, balanced s.body 0 = true) →
    specSessions steps ss (runSessions delay steps ss m) = true
  | [], _, _, _ => rfl
  | s :: ss, m, h, hb => by
    obtain ⟨a, b, c, d, _⟩ := session_spec_handling delay steps s m h (hb s (by simp))
    unfold runSessions
    simp only [specSessions, specSession, Bool.and_eq_true, beq_iff_eq]
    refine ⟨⟨⟨a, b⟩, c⟩, runSessions_spec delay steps ss _ d (fun s' hs' => hb s' (by simp [hs']))⟩

/-- **C13.**  For every well-formed case — every composition with any of its steps handling the
    exception passing through it, every fault assignment of every session, every balanced nesting
    history — the model's observation satisfies the specification, including the fresh fault-free
    entry after the last session. -/
theorem run_spec (c : Case) (h : c.wf = true) : Spec.C13 c (run c) = true := by
  unfold Spec.C13
  rw [h, Bool.true_and]
  simp only [Case.wf, Bool.and_eq_true, beq_iff_eq, decide_eq_true_eq, List.all_eq_true] at h
  obtain ⟨⟨⟨⟨⟨⟨hc, hs⟩, _⟩, hh⟩, hl⟩, hb⟩, _⟩ := h
  unfold run
  rw [machSteps_eq_specOrder c.mro
    (by unfold Case.mro; rw [mroFrom_filter_length]; omega)
    (by unfold Case.mro; rw [mroFrom_filter_length]; omega)
    (by unfold Case.mro; rw [mroFrom_filter_length]; omega)
    (by unfold Case.mro; rw [mroFrom_filter_length]; omega)]
  apply runSessions_spec _ _ _ _ rfl
  intro s hs'
  rcases List.mem_append.mp hs' with hs' | hs'
  · exact hb s hs'
  · simp only [List.mem_singleton] at hs'
    subst hs'
    rfl

/-- **An exception reaches the caller iff something raised**: the caller of a session sees no
    exception exactly when no callback in the log (and no body `raise`) raised. -/
theorem exc_iff_raised (delay : Nat) (steps : List Step) (hno : ∀ s ∈ steps, s.handles = false) (s : Session) (m : Mach)
    (hrc : m.rc = 0) (hb : balanced s.body 0 = true) :
    (runSession delay steps s m).1.exc = none
      ↔ ∀ e ∈ (runSession delay steps s m).1.trace, raises s.f e = false := by
  obtain ⟨a, b, _⟩ := session_spec delay steps hno s m hrc hb
  rw [b, ← a, lastRaised_noSleep, lastRaised_none_iff]

/-- … with handling steps: no exception reaches the caller exactly when neither the set-up nor the
    body raised and no tear-down fault survived the steps further out (a tear-down fault that a
    step further out handled is in the log but does not reach the caller) -/
theorem exc_iff_raised_handling (delay : Nat) (steps : List Step) (s : Session) (m : Mach)
    (hrc : m.rc = 0) (hb : balanced s.body 0 = true) :
    (runSession delay steps s m).1.exc = none
      ↔ (∀ e ∈ ownTrace steps s.f s.body, raises s.f e = false) ∧ survivingFault steps s.f = none := by
  obtain ⟨_, b, _⟩ := session_spec_handling delay steps s m hrc hb
  rw [b, expectedExc, Option.or_eq_none_iff, ownExc, lastRaised_none_iff]
  exact And.comm

theorem mem_stackTeardown {steps : List Step} {f : Faults} {e : Ev}
    (h : e ∈ stackTeardown f steps) : e ∈ teardown f (expectedInit steps f) := by
  rw [teardown_split]; exact List.mem_append_right _ h

theorem mem_ownTrace {steps : List Step} {f : Faults} {body : List Op} {e : Ev}
    (h : e ∈ ownTrace steps f body) : e ∈ expectedTrace steps f body := by
  simp only [ownTrace, List.mem_append] at h
  simp only [expectedTrace, List.mem_append]
  rcases h with (h | h) | h
  · exact Or.inl (Or.inl h)
  · exact Or.inl (Or.inr h)
  · right
    rw [teardown_split]
    exact List.mem_append_left _ h

/-- whatever the steps handle: when nothing in the log raised, no exception reaches the caller -/
theorem no_raise_no_exc (delay : Nat) (steps : List Step) (s : Session) (m : Mach)
    (hrc : m.rc = 0) (hb : balanced s.body 0 = true)
    (h : ∀ e ∈ (runSession delay steps s m).1.trace, raises s.f e = false) :
    (runSession delay steps s m).1.exc = none := by
  obtain ⟨a, _⟩ := session_spec_handling delay steps s m hrc hb
  have h' : ∀ e ∈ expectedTrace steps s.f s.body, raises s.f e = false := by
    intro e he
    rw [← a] at he
    exact h e (List.mem_filter.mp he).1
  rw [exc_iff_raised_handling delay steps s m hrc hb]
  exact ⟨fun e he => h' e (mem_ownTrace he),
    pendingFault_of_none _ _ _ (fun e he => h' e (List.mem_append_right _ (mem_stackTeardown he)))⟩

theorem probe_f : probe.f = fun _ => false := by
  funext t; simp [Session.f, probe]

/-- **Afterwards a fresh entry initialises again**: whatever a session did (any faults, any body),
    the next fault-free entry on the same object begins every step, in order, and tears every
    one of them down in reverse; no exception. -/
theorem fresh_entry_reinit (delay : Nat) (steps : List Step) (s : Session) (m : Mach)
    (hrc : m.rc = 0) (hb : balanced s.body 0 = true) :
    noSleep (runSession delay steps probe (runSession delay steps s m).2).1.trace
        = steps.flatMap beginEvs ++ teardown (fun _ => false) (steps.flatMap beginEvs)
    ∧ (runSession delay steps probe (runSession delay steps s m).2).1.exc = none
    ∧ (runSession delay steps probe (runSession delay steps s m).2).1.rc = 0 := by
  obtain ⟨_, _, _, d, _⟩ := session_spec_handling delay steps s m hrc hb
  obtain ⟨a, b, c, _⟩ := session_spec_handling delay steps probe (runSession delay steps s m).2 d rfl
  have hnone : ∀ e ∈ steps.flatMap beginEvs, raises (fun _ => false) e = false := by
    intro e he
    obtain ⟨s', _, hs'⟩ := List.mem_flatMap.mp he
    exact begin_not_raises s' e hs'
  have hini : expectedInit steps (fun _ => false) = steps.flatMap beginEvs := uptoFirst_of_none hnone
  have hT : expectedTrace steps probe.f probe.body
      = steps.flatMap beginEvs ++ teardown (fun _ => false) (steps.flatMap beginEvs) := by
    rw [probe_f]
    simp only [expectedTrace, hini, (all_not_raises_iff _ _).mpr hnone, if_true]
    simp [probe, expectedBody, uptoFirst]
  refine ⟨by rw [a, hT], ?_, c⟩
  apply no_raise_no_exc delay steps probe _ d rfl
  intro e he
  by_cases hsl : isSleep e = true
  · cases e <;> simp [isSleep] at hsl
    rfl
  have he : e ∈ noSleep (runSession delay steps probe (runSession delay steps s m).2).1.trace :=
    List.mem_filter.mpr ⟨he, by simpa using hsl⟩
  rw [a, hT] at he
  rw [probe_f]
  rcases List.mem_append.mp he with he | he
  · exact hnone e he
  · simp only [teardown, List.mem_reverse, List.mem_flatMap] at he
    obtain ⟨x, _, hx⟩ := he
    cases x <;> simp [teardownOf] at hx <;> subst hx <;> simp [raises, faultTag]

/-- **Power, exactly once.**  In every session the number of `poweroff` calls of a power step
    equals the number of its `poweron` attempts (with distinct ids: 0 or 1). -/
theorem power_off_count (delay : Nat) (steps : List Step) (s : Session) (m : Mach)
    (hrc : m.rc = 0) (hb : balanced s.body 0 = true) (id : Nat) :
    List.count (.off id) (runSession delay steps s m).1.trace
      = List.count (.on id) (runSession delay steps s m).1.trace := by
  obtain ⟨a, _⟩ := session_spec_handling delay steps s m hrc hb
  rw [← count_noSleep _ rfl, ← count_noSleep (.on id) rfl, a]
  exact count_expectedTrace steps s.f s.body id

/-- **Power, position.**  If `poweron` of step `id` was attempted after the begin callbacks `A`
    and before `B`, then the log ends with the tear-down of everything begun later (`B`), then
    `poweroff`, then the tear-down of everything begun earlier (`A`). -/
theorem power_off_position (delay : Nat) (steps : List Step) (s : Session) (m : Mach)
    (hrc : m.rc = 0) (hb : balanced s.body 0 = true) (id : Nat) (A B : List Ev)
    (h : expectedInit steps s.f = A ++ .on id :: B) :
    ∃ bod, noSleep (runSession delay steps s m).1.trace
      = (A ++ .on id :: B) ++ bod ++ (teardown s.f B ++ .off id :: teardown s.f A) := by
  obtain ⟨a, _⟩ := session_spec_handling delay steps s m hrc hb
  refine ⟨if (A ++ Ev.on id :: B).all (fun e => !raises s.f e) then expectedBody s.body else [], ?_⟩
  rw [a]
  unfold expectedTrace
  simp only [h]
  have : teardown s.f (A ++ .on id :: B) = teardown s.f B ++ .off id :: teardown s.f A := by
    have h2 : A ++ Ev.on id :: B = A ++ ([Ev.on id] ++ B) := by simp
    rw [h2, teardown_append, teardown_append]
    simp [teardown, teardownOf]
  rw [this]

theorem on_mem_trace_iff (delay : Nat) (steps : List Step) (s : Session) (m : Mach)
    (hrc : m.rc = 0) (hb : balanced s.body 0 = true) (id : Nat) :
    Ev.on id ∈ (runSession delay steps s m).1.trace ↔ Ev.on id ∈ expectedInit steps s.f := by
  obtain ⟨a, _⟩ := session_spec_handling delay steps s m hrc hb
  have h1 : Ev.on id ∈ (runSession delay steps s m).1.trace ↔ Ev.on id ∈ noSleep (runSession delay steps s m).1.trace := by
    simp [noSleep, isSleep]
  rw [h1, a]
  unfold expectedTrace
  simp only [List.mem_append]
  constructor
  · rintro ((h | h) | h)
    · exact h
    · split at h
      · exact absurd h (not_power_mem_body id s.body).1
      · simp at h
    · exact absurd h (not_on_mem_teardown s.f id _)
  · intro h; exact Or.inl (Or.inl h)

/-- **Power check failing ⇒ neither on nor off.**  If `power_check` raises or returns `False`
    for a power step, its `poweron` and `poweroff` are never called in that session. -/
theorem refused_no_power (delay : Nat) (steps : List Step) (s : Session) (m : Mach)
    (hrc : m.rc = 0) (hb : balanced s.body 0 = true) (id : Nat)
    (h : s.f (.check id) = true ∨ s.f (.refused id) = true) :
    Ev.on id ∉ (runSession delay steps s m).1.trace ∧ Ev.off id ∉ (runSession delay steps s m).1.trace := by
  have hr : raises s.f (.check id) = true := by
    rcases h with h | h
    · simp [raises, faultTag, h]
    · by_cases h' : s.f (.check id) = true <;> simp [raises, faultTag, h, h']
  have hon : Ev.on id ∉ (runSession delay steps s m).1.trace := by
    rw [on_mem_trace_iff delay steps s m hrc hb]
    exact on_not_mem_expectedInit s.f id hr steps
  refine ⟨hon, ?_⟩
  have := power_off_count delay steps s m hrc hb id
  rw [List.count_eq_zero.mpr hon] at this
  exact List.count_eq_zero.mp this

/-- **Power off before the connection is closed.**  For a well-formed composition with connector
    `k`: whenever `poweron` of power step `w` was attempted in a session, the log has the form
    `X ++ poweroff w :: Y` with the connector's `__exit__` in `Y` — the board is switched off while
    the console connection is still open. -/
theorem conn_exit_after_power_off (c : Case) (hwf : c.wf = true) (s : Session) (m : Mach)
    (hrc : m.rc = 0) (hb : balanced s.body 0 = true) (k w : Nat) (hd : Bool) (hk : (⟨k, .conn, hd⟩ : Step) ∈ c.mro)
    (hon : Ev.on w ∈ (runSession c.delay (machSteps c.mro) s m).1.trace) :
    ∃ X Y, noSleep (runSession c.delay (machSteps c.mro) s m).1.trace = X ++ .off w :: Y
      ∧ Ev.exit k ∈ Y := by
  have hsteps : machSteps c.mro = specOrder c.mro := by
    simp only [Case.wf, Bool.and_eq_true, beq_iff_eq, decide_eq_true_eq] at hwf
    obtain ⟨⟨⟨⟨⟨⟨hc, hs⟩, _⟩, hh⟩, hl⟩, _⟩, _⟩ := hwf
    exact machSteps_eq_specOrder c.mro
      (by unfold Case.mro; rw [mroFrom_filter_length]; omega)
      (by unfold Case.mro; rw [mroFrom_filter_length]; omega)
      (by unfold Case.mro; rw [mroFrom_filter_length]; omega)
      (by unfold Case.mro; rw [mroFrom_filter_length]; omega)
  rw [hsteps] at hon ⊢
  rw [on_mem_trace_iff _ _ s m hrc hb] at hon
  obtain ⟨A, B, hAB⟩ := List.append_of_mem hon
  obtain ⟨bod, htr⟩ := power_off_position c.delay (specOrder c.mro) s m hrc hb w A B hAB
  refine ⟨A ++ Ev.on w :: B ++ bod ++ teardown s.f B, teardown s.f A, by rw [htr]; simp, ?_⟩
  -- the connector's enter is in `A` and did not raise
  obtain ⟨P, Q, hPQ, hkP, hnoP⟩ := begin_split c.mro k hd hk
  obtain ⟨r, hr⟩ := uptoFirst_prefix (raises s.f) ((specOrder c.mro).flatMap beginEvs)
  have hA : ∀ a ∈ A, raises s.f a = false := uptoFirst_before (by unfold expectedInit at hAB; exact hAB)
  have hkA : Ev.enter k ∈ A := by
    unfold expectedInit at hAB
    rw [hAB, hPQ, List.append_assoc] at hr
    rcases List.append_eq_append_iff.mp hr with ⟨a', ha, _⟩ | ⟨c', hc, hd⟩
    · rw [ha]; exact List.mem_append_left _ hkP
    · cases c' with
      | nil => simp at hc; rw [← hc]; exact hkP
      | cons x c'' =>
        simp only [List.cons_append, List.cons.injEq] at hd
        exact absurd (by rw [hc, hd.1]; simp) (hnoP w)
  have hf : s.f (.enter k) = false := by
    have := hA _ hkA
    by_cases h : s.f (.enter k) = true
    · simp [raises, faultTag, h] at this
    · simpa using h
  simp only [teardown, List.mem_reverse, List.mem_flatMap]
  exact ⟨.enter k, hkA, by simp [teardownOf, hf]⟩

/-- **Power off exactly once.**  For a well-formed composition: in every session in which
    `poweron` of the power step `w` was attempted, `poweroff` is called exactly once (and `poweron`
    was attempted exactly once). -/
theorem power_off_exactly_once (c : Case) (hwf : c.wf = true) (s : Session) (m : Mach)
    (hrc : m.rc = 0) (hb : balanced s.body 0 = true) (w : Nat)
    (hon : Ev.on w ∈ (runSession c.delay (machSteps c.mro) s m).1.trace) :
    List.count (.off w) (runSession c.delay (machSteps c.mro) s m).1.trace = 1
    ∧ List.count (.on w) (runSession c.delay (machSteps c.mro) s m).1.trace = 1 := by
  have hcnt := power_off_count c.delay (machSteps c.mro) s m hrc hb w
  have hpos : 0 < List.count (.on w) (runSession c.delay (machSteps c.mro) s m).1.trace :=
    List.count_pos_iff.mpr hon
  simp only [Case.wf, Bool.and_eq_true, beq_iff_eq, decide_eq_true_eq] at hwf
  obtain ⟨⟨⟨⟨⟨⟨hc, hs⟩, hp⟩, hh⟩, hl⟩, _⟩, _⟩ := hwf
  have hsteps : machSteps c.mro = specOrder c.mro :=
    machSteps_eq_specOrder c.mro
      (by unfold Case.mro; rw [mroFrom_filter_length]; omega)
      (by unfold Case.mro; rw [mroFrom_filter_length]; omega)
      (by unfold Case.mro; rw [mroFrom_filter_length]; omega)
      (by unfold Case.mro; rw [mroFrom_filter_length]; omega)
  obtain ⟨a, _⟩ := session_spec_handling c.delay (machSteps c.mro) s m hrc hb
  have hle : List.count (.on w) (runSession c.delay (machSteps c.mro) s m).1.trace ≤ 1 := by
    rw [← count_noSleep (.on w) rfl, a, count_on_expectedTrace, hsteps]
    obtain ⟨r, hr⟩ := uptoFirst_prefix (raises s.f) ((specOrder c.mro).flatMap beginEvs)
    have h1 := count_on_specOrder_le w c.mro
    rw [hr, List.count_append] at h1
    have h2 : (c.mro.filter (fun s => s.kind == .power)).length = c.bases.count .power := by
      unfold Case.mro; exact mroFrom_filter_length c.handlers .power c.bases 0
    unfold expectedInit
    omega
  omega


/-! ## Handling steps: what reaches the caller, and that everything is still torn down -/

theorem lastRaised_expectedBody (f : Faults) (k : Nat) : ∀ (ops : List Op), Ev.raise k ∈ expectedBody ops →
    lastRaised f (expectedBody ops) none = some (.body k)
  | [], h => by simp [expectedBody, uptoFirst] at h
  | .raise j :: ops, h => by
    rw [expectedBody_cons_raise] at h ⊢
    simp only [List.mem_singleton, Ev.raise.injEq] at h
    subst h
    rfl
  | .mark j :: ops, h => by
    rw [expectedBody_cons_mark] at h ⊢
    simp only [List.mem_cons, reduceCtorEq, false_or] at h
    rw [lastRaised_cons]
    exact lastRaised_expectedBody f k ops h
  | .opened :: ops, h => by
    rw [expectedBody_cons_opened] at h ⊢
    simp only [List.mem_cons, reduceCtorEq, false_or] at h
    rw [lastRaised_cons]
    exact lastRaised_expectedBody f k ops h
  | .closed :: ops, h => by
    rw [expectedBody_cons_closed] at h ⊢
    simp only [List.mem_cons, reduceCtorEq, false_or] at h
    rw [lastRaised_cons]
    exact lastRaised_expectedBody f k ops h

/-- **The body's exception always propagates.**  Whatever the steps of the composition handle:
    when the set-up completed and the body raised exception `k`, an exception reaches the caller
    of `with m:` — `k` itself unless a tear-down fault that no step further out handled replaces
    it; in particular `k` itself when no tear-down callback raises.  (`Machine.__exit__` discards
    the verdict of its exit stack: a handling step never swallows the body's exception.) -/
theorem body_exception_always_propagates (delay : Nat) (steps : List Step) (s : Session) (m : Mach)
    (hrc : m.rc = 0) (hb : balanced s.body 0 = true) (k : Nat)
    (hini : ∀ e ∈ expectedInit steps s.f, raises s.f e = false)
    (hk : Ev.raise k ∈ expectedBody s.body) :
    (runSession delay steps s m).1.exc = (survivingFault steps s.f).or (some (.body k))
    ∧ (runSession delay steps s m).1.exc ≠ none
    ∧ ((∀ e ∈ teardown s.f (expectedInit steps s.f), raises s.f e = false) →
        (runSession delay steps s m).1.exc = some (.body k)) := by
  obtain ⟨_, b, _⟩ := session_spec_handling delay steps s m hrc hb
  have hown : ownExc steps s.f s.body = some (.body k) := by
    unfold ownExc ownTrace
    simp only [(all_not_raises_iff _ _).mpr hini, if_true, (ownCleanup_of_none steps s.f hini).1, List.append_nil]
    rw [lastRaised_append, lastRaised_of_none s.f _ _ hini]
    exact lastRaised_expectedBody s.f k s.body hk
  have hexc : (runSession delay steps s m).1.exc = (survivingFault steps s.f).or (some (.body k)) := by
    rw [b, expectedExc, hown]
  refine ⟨hexc, ?_, ?_⟩
  · rw [hexc]
    cases survivingFault steps s.f <;> simp
  · intro hq
    rw [hexc, survivingFault, (ownCleanup_of_none steps s.f hini).2, pendingFault_of_none _ _ _ hq]
    rfl

/-- … and so does the set-up's own exception: when a step fails to come up, an exception reaches
    the caller whatever the steps that are torn down handle -/
theorem setup_exception_always_propagates (delay : Nat) (steps : List Step) (s : Session) (m : Mach)
    (hrc : m.rc = 0) (hb : balanced s.body 0 = true)
    (hini : (expectedInit steps s.f).any (raises s.f) = true) :
    (runSession delay steps s m).1.exc ≠ none := by
  rw [Ne, exc_iff_raised_handling delay steps s m hrc hb]
  rintro ⟨h, _⟩
  rw [List.any_eq_true] at hini
  obtain ⟨e, he, hr⟩ := hini
  have : e ∈ ownTrace steps s.f s.body := by
    simp only [ownTrace, List.mem_append]
    exact Or.inl (Or.inl he)
  rw [h e this] at hr
  cases hr

/-- **A tear-down fault propagates unless a step further out handles it.**  Let `e` be a tear-down
    callback of a started step that raises `x`, and let no callback after it (`B`: the steps
    further out) raise.  Then `x` reaches the caller iff none of the steps further out handles;
    otherwise the caller gets exactly what it would have got without that fault: the set-up's /
    body's own exception (none if there is none). -/
theorem teardown_fault_propagates_unless_handled (delay : Nat) (steps : List Step) (s : Session) (m : Mach)
    (hrc : m.rc = 0) (hb : balanced s.body 0 = true) (A B : List Ev) (e : Ev) (x : Tag)
    (htd : stackTeardown s.f steps = A ++ e :: B) (hx : faultTag s.f e = some x)
    (hB : ∀ b ∈ B, raises s.f b = false) :
    (runSession delay steps s m).1.exc
      = if B.any (handlesEv (handlesOf steps)) then ownExc steps s.f s.body else some x := by
  obtain ⟨_, b, _⟩ := session_spec_handling delay steps s m hrc hb
  rw [b, expectedExc, survivingFault, htd, pendingFault_append, pendingFault_cons, hx]
  simp only
  rw [pendingFault_quiet _ _ _ _ hB]
  cases B.any (handlesEv (handlesOf steps)) <;> simp

/-- **Handled or not, every started step is torn down.**  Whatever the steps handle: the context
    manager of every step that was entered is exited exactly as often as it was entered, and the
    log (without the `powercycle_delay` waits) is the log of the same composition with no handling
    step at all — the same callbacks in the same order. -/
theorem handled_steps_still_torn_down (delay : Nat) (steps : List Step) (s : Session) (m : Mach)
    (hrc : m.rc = 0) (hb : balanced s.body 0 = true) :
    (∀ i, s.f (.enter i) = false →
      List.count (.exit i) (runSession delay steps s m).1.trace
        = List.count (.enter i) (runSession delay steps s m).1.trace)
    ∧ noSleep (runSession delay steps s m).1.trace
        = noSleep (runSession delay (steps.map fun st => { st with handles := false }) s m).1.trace := by
  obtain ⟨a, _⟩ := session_spec_handling delay steps s m hrc hb
  obtain ⟨a', _⟩ := session_spec_handling delay (steps.map fun st => { st with handles := false }) s m hrc hb
  refine ⟨?_, by rw [a, a', expectedTrace_clear]⟩
  intro i hf
  rw [← count_noSleep _ rfl, ← count_noSleep (.enter i) rfl, a]
  exact count_exit_expectedTrace steps s.f s.body i hf

theorem specOrder_mem {mro : List Step} {s : Step} (h : s ∈ specOrder mro) : s ∈ mro := by
  unfold specOrder at h
  rw [List.mem_flatMap] at h
  obtain ⟨_, _, h⟩ := h
  exact (List.mem_filter.mp h).1

theorem specSessions_eq_plain (steps : List Step) (hno : ∀ s ∈ steps, s.handles = false) :
    ∀ (ss : List Session) (os : List SObs), specSessions steps ss os = specSessionsPlain steps ss os
  | [], [] => rfl
  | [], _ :: _ => rfl
  | _ :: _, [] => rfl
  | s :: ss, o :: os => by
    simp only [specSessions, specSessionsPlain, specSession, specSessionPlain, expectedExc_plain steps hno,
      specSessions_eq_plain steps hno ss os]

/-- **Without handling steps the Spec is what it was**: on every composition none of whose steps
    handles — and for EVERY observation, not only the model's — `Spec.C13` coincides with the
    formulation "the last exception raised reaches the caller". -/
theorem spec_eq_plain (c : Case) (o : List SObs) (hno : ∀ s ∈ c.mro, s.handles = false) :
    Spec.C13 c o = Spec.C13plain c o := by
  unfold Spec.C13 Spec.C13plain
  rw [specSessions_eq_plain _ (fun s hs => hno s (specOrder_mem hs))]

theorem mroFrom_no_handlers : ∀ (ks : List Kind) (i : Nat), ∀ s ∈ mroFrom [] i ks, s.handles = false
  | [], _, s, h => by simp [mroFrom] at h
  | k :: ks, i, s, h => by
    simp only [mroFrom, List.mem_cons] at h
    rcases h with rfl | h
    · rfl
    · exact mroFrom_no_handlers ks (i + 1) s h

/-- in particular for every case written without `handlers` (all cases of the former domain) -/
theorem spec_eq_plain_of_no_handlers (c : Case) (o : List SObs) (h : c.handlers = []) :
    Spec.C13 c o = Spec.C13plain c o := by
  apply spec_eq_plain
  unfold Case.mro
  rw [h]
  exact mroFrom_no_handlers c.bases 0

/-- the step table of a case says of every step what the step itself says -/
theorem handlesOf_mro (c : Case) : ∀ s ∈ c.mro, handlesOf c.mro s.id = s.handles := by
  have key : ∀ (ks : List Kind) (i : Nat), ∀ s ∈ mroFrom c.handlers i ks, s.handles = c.handlers.contains s.id := by
    intro ks
    induction ks with
    | nil => intro i s h; simp [mroFrom] at h
    | cons k ks ih =>
      intro i s h
      simp only [mroFrom, List.mem_cons] at h
      rcases h with rfl | h
      · rfl
      · exact ih (i + 1) s h
  intro s hs
  have hs' := key c.bases 0 s hs
  unfold handlesOf
  cases hh : s.handles with
  | true =>
    rw [List.any_eq_true]
    exact ⟨s, hs, by simp [hh]⟩
  | false =>
    rw [List.any_eq_false]
    intro s' hs''
    have := key c.bases 0 s' hs''
    by_cases hid : s'.id = s.id
    · rw [hid, ← hs', hh] at this
      simp [this]
    · simp [hid]


/-- **powercycle_delay.**  When the class has switched power off at tick `t`, the next `poweron`
    happens at `max now (t + delay)`: never earlier than `delay` ticks after the last completed
    `poweroff`, and without waiting longer than necessary. -/
theorem powercycle_delay_exact (delay : Nat) (env : Env) (t : Nat) (h : env.lastOff = some t)
    (hmono : t ≤ env.now) : env.now + sleepFor delay env = max env.now (t + delay) := by
  unfold sleepFor
  rw [h]
  simp only
  split <;> omega

/-! ## Non-vacuity: concrete, non-trivial inputs satisfy the hypotheses; the Spec is not trivially true -/

/-- pre, connector, initialiser, PowerControl, initialiser, shell, post-shell, `init` override;
    session 1: `poweron` raises and the exit of step 2 raises during the unwinding;
    session 2 (2 ticks later): nested once, body raises, two exits raise. -/
def ex1 : Case :=
  { bases := [.pre, .conn, .init, .power, .init, .shell, .post, .hook], delay := 5,
    sessions := [{ gap := 0, faults := [.on 3, .exit 2], body := [] },
                 { gap := 2, faults := [.exit 4, .exit 1], body := [.opened, .raise 1, .closed] }] }

example : ex1.wf = true := by decide
example : (run ex1).map (·.exc) = [some (.exit 2), some (.exit 1), none] := by decide
example : ((run ex1).map (·.trace))[0]? = some [.enter 0, .enter 1, .enter 2, .check 3, .on 3, .off 3,
    .exit 2, .exit 1, .exit 0] := by decide
example : Spec.C13 ex1 (run ex1) = true := run_spec ex1 (by decide)

/-- the hypotheses of `conn_exit_after_power_off` are satisfiable (connector 1, power step 3) -/
example : (⟨1, .conn, false⟩ : Step) ∈ ex1.mro
    ∧ Ev.on 3 ∈ (runSession ex1.delay (machSteps ex1.mro) { faults := [.exit 4] } {}).1.trace := by decide

/-- `power_off_exactly_once` on the witness: a failing `poweron` is still followed by exactly one `poweroff` -/
example : List.count (Ev.off 3) ((run ex1).map (·.trace))[0]! = 1 := by decide

/-- the hypothesis of `refused_no_power` is satisfiable and its conclusion is not vacuous:
    with the check passing the same composition does switch the power on -/
example : Ev.on 3 ∈ (runSession 0 (machSteps ex1.mro) {} {}).1.trace
    ∧ Ev.on 3 ∉ (runSession 0 (machSteps ex1.mro) { faults := [.refused 3] } {}).1.trace := by decide

/-- the Spec rejects: a log without the power-off, a log torn down in entry order, a swallowed
    exception, a counter that stays up, a machine that does not come up again -/
example : Spec.C13 ex1 ((run ex1).map fun o => { o with trace := o.trace.filter (· != .off 3) }) = false := by decide
example : Spec.C13 { ex1 with sessions := [] }
    [⟨[.enter 0, .enter 1, .enter 2, .check 3, .on 3, .enter 4, .enter 5, .enter 6, .hook 7,
       .exit 0, .exit 1, .exit 2, .off 3, .exit 4, .exit 5, .exit 6], none, 0⟩] = false := by decide
example : Spec.C13 ex1 ((run ex1).map fun o => { o with exc := none }) = false := by decide
example : Spec.C13 ex1 ((run ex1).map fun o => { o with rc := 1 }) = false := by decide
example : Spec.C13 ex1 ((run ex1).dropLast ++ [⟨[], none, 0⟩]) = false := by decide

/-! ### with handling steps -/

/-- `ex1` with the first pre-connect step (0) and the second initialiser (4) handling:
    session 1: the body raises and the exit of the shell (5) raises — handled by step 4, further
    out: the BODY's exception reaches the caller;
    session 2: the exit of the handling step 0 itself raises — nothing further out: it propagates;
    session 3: `poweron` and the `poweroff` in its `finally` raise, then the exit of step 2 raises —
    handled by step 0: the set-up's own exception (`off 3`) reaches the caller;
    session 4: only the exit of step 2 raises — handled by step 0: nothing reaches the caller. -/
def ex2 : Case :=
  { ex1 with
    handlers := [0, 4],
    sessions := [{ faults := [.exit 5], body := [.mark 1, .raise 1] },
                 { faults := [.exit 0], body := [.opened, .closed] },
                 { faults := [.on 3, .off 3, .exit 2], body := [.raise 2] },
                 { faults := [.exit 2], body := [] }] }

example : ex2.wf = true := by decide
example : (run ex2).map (·.exc) = [some (.body 1), some (.exit 0), some (.off 3), none, none] := by decide
example : ((run ex2).map (·.trace))[0]? = some [.enter 0, .enter 1, .enter 2, .check 3, .on 3, .enter 4, .enter 5,
    .enter 6, .hook 7, .mark 1, .raise 1, .exit 6, .exit 5, .exit 4, .off 3, .exit 2, .exit 1, .exit 0] := by decide
example : Spec.C13 ex2 (run ex2) = true := run_spec ex2 (by decide)
/-- the Spec has changed where steps handle (the former formulation rejects the model's — and the
    implementation's — behaviour), and only there -/
example : Spec.C13plain ex2 (run ex2) = false := by decide
example : Spec.C13plain ex1 (run ex1) = true := by rw [← spec_eq_plain_of_no_handlers ex1 _ rfl]; exact run_spec ex1 (by decide)
/-- the Spec rejects a body exception swallowed by a handling step (what `Machine.__exit__` would do
    if it returned the verdict of its exit stack), a handled tear-down fault that reaches the caller
    all the same, and a handling step that is not torn down -/
example : Spec.C13 ex2 ((run ex2).set 0 { (run ex2)[0]! with exc := none }) = false := by decide
example : Spec.C13 ex2 ((run ex2).set 3 { (run ex2)[3]! with exc := some (.exit 2) }) = false := by decide
example : Spec.C13 ex2 ((run ex2).map fun o => { o with trace := o.trace.filter (· != .exit 4) }) = false := by decide
/-- a lab-host clone that handles is outside the domain -/
example : ({ bases := [.host, .conn, .shell], delay := 0, sessions := [], handlers := [0] } : Case).wf = false := by decide

/-- hypotheses of `body_exception_always_propagates` (session 1 of `ex2`): satisfiable, and the
    tear-down does raise there — the conclusion is about a handled fault -/
example : (∀ e ∈ expectedInit (machSteps ex2.mro) (ex2.sessions[0]!).f, raises (ex2.sessions[0]!).f e = false)
    ∧ Ev.raise 1 ∈ expectedBody (ex2.sessions[0]!).body
    ∧ survivingFault (machSteps ex2.mro) (ex2.sessions[0]!).f = none
    ∧ (teardown (ex2.sessions[0]!).f (expectedInit (machSteps ex2.mro) (ex2.sessions[0]!).f)).any
        (raises (ex2.sessions[0]!).f) = true := by decide

/-- hypotheses of `teardown_fault_propagates_unless_handled`: satisfiable in both branches
    (session 1: the fault of `exit 5` with the handling step 4 further out; session 2: the fault of
    `exit 0` with nothing further out) -/
example : stackTeardown (ex2.sessions[0]!).f (machSteps ex2.mro)
      = [.exit 6] ++ .exit 5 :: [.exit 4, .off 3, .exit 2, .exit 1, .exit 0]
    ∧ faultTag (ex2.sessions[0]!).f (.exit 5) = some (.exit 5)
    ∧ ([Ev.exit 4, .off 3, .exit 2, .exit 1, .exit 0].any (handlesEv (handlesOf (machSteps ex2.mro)))) = true := by decide
example : stackTeardown (ex2.sessions[1]!).f (machSteps ex2.mro)
      = [.exit 6, .exit 5, .exit 4, .off 3, .exit 2, .exit 1] ++ .exit 0 :: []
    ∧ faultTag (ex2.sessions[1]!).f (.exit 0) = some (.exit 0) := by decide

/-- the console connector: `connect()` (2) fails, the exit of the lab-host clone (1) raises inside
    `ConsoleConnector._connect` — the set-up's own exception, which the handling step 0 further out
    cannot take away from the caller -/
def ex3 : Case :=
  { bases := [.pre, .host, .conn, .shell], delay := 0, handlers := [0],
    sessions := [{ faults := [.enter 2, .exit 1] }] }

example : ex3.wf = true := by decide
example : (run ex3).map (·.exc) = [some (.exit 1), none] := by decide
example : ownCleanup (ex3.sessions[0]!).f (machSteps ex3.mro) = [.exit 1]
    ∧ stackTeardown (ex3.sessions[0]!).f (machSteps ex3.mro) = [.exit 0] := by decide

end C13
