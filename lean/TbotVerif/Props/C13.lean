import TbotVerif.Props.LifeLemmas
/-! C13 — machine contexts init once, unwind fully on any failure, and always power off.

    The operational model of `Machine.__enter__/__exit__`, `ExitStack` and `PowerControl`
    (`Model/Life.lean`) satisfies the declarative life-cycle specification `Spec.C13`
    (`Spec/Life.lean`) for EVERY composition, fault assignment and balanced nesting history
    (induction on the step list / the body / the session list; nothing is bounded). -/

namespace C13
open Life

/-- the callback a registered frame stands for -/
def Frame.ev : Frame → Ev
  | .cm id => .exit id
  | .power id => .off id

theorem nested_enter_silent (f : Faults) (delay : Nat) (steps : List Step) (m : Mach) (h : 1 ≤ m.rc) :
    machEnter f delay steps m = ([], none, { m with rc := m.rc + 1 }) := by
  unfold machEnter
  have : m.rc + 1 > 1 := by omega
  simp [this]

theorem nested_exit_silent (f : Faults) (exc : Option Tag) (m : Mach) (h : 2 ≤ m.rc) :
    machExit f exc m = ([], exc, { m with rc := m.rc - 1 }) := by
  unfold machExit
  have : (m.rc - 1 == 0) = false := by
    simp; omega
  simp [this]

theorem frame_run (f : Faults) (fr : Frame) (env : Env) :
    (fr.run f env).1 = [Frame.ev fr] ∧ (fr.run f env).2.1 = faultTag f (Frame.ev fr) := by
  cases fr with
  | cm id => simp [Frame.run, Frame.ev, faultTag]
  | power id =>
    simp only [Frame.run, Frame.ev, faultTag, powerOff]
    split <;> simp [*]

theorem unwind_spec (f : Faults) : ∀ (cx : List Frame) (exc : Option Tag) (env : Env),
    (unwind f cx exc env).1 = cx.map Frame.ev
    ∧ (unwind f cx exc env).2.1 = lastRaised f (cx.map Frame.ev) exc
  | [], exc, env => by simp [unwind, lastRaised]
  | fr :: rest, exc, env => by
    obtain ⟨h1, h2⟩ := frame_run f fr env
    unfold unwind
    generalize hr : fr.run f env = R at h1 h2
    obtain ⟨ev, r, env1⟩ := R
    simp only at h1 h2
    subst h1 h2
    have ih := unwind_spec f rest ((faultTag f (Frame.ev fr)).or exc) env1
    simp only [List.map_cons, lastRaised_cons]
    exact ⟨by simp [ih.1], ih.2⟩

theorem noSleep_power_evs (id slp : Nat) (tail : List Ev) :
    noSleep (Ev.check id :: ((if slp > 0 then [Ev.sleep slp] else []) ++ (Ev.on id :: tail)))
      = Ev.check id :: Ev.on id :: noSleep tail := by
  by_cases h : slp > 0 <;> simp [noSleep, isSleep, h]

theorem enterStep_ok (f : Faults) (delay : Nat) (s : Step) (env env1 : Env) (ev : List Ev) (fr : Option Frame)
    (h : enterStep f delay s env = (ev, .ok fr, env1)) :
    noSleep ev = beginEvs s ∧ (∀ e ∈ beginEvs s, raises f e = false)
      ∧ fr.toList.map Frame.ev = teardown f (beginEvs s) := by
  obtain ⟨id, k⟩ := s
  cases k
  case power =>
    simp only [enterStep, powerOn] at h
    by_cases hc : f (.check id) = true
    · simp [hc] at h
    by_cases hn : f (.refused id) = true
    · simp [hc, hn] at h
    by_cases ho : f (.on id) = true
    · simp [hc, hn, ho] at h
    simp only [hc, hn, ho, Bool.false_eq_true, if_false, Prod.mk.injEq, Except.ok.injEq] at h
    obtain ⟨rfl, rfl, rfl⟩ := h
    have := noSleep_power_evs id (sleepFor delay env) []
    simp only [noSleep, List.filter_nil] at this
    refine ⟨by simpa [noSleep, beginEvs] using this, ?_, ?_⟩
    · intro e he
      simp only [beginEvs, List.mem_cons, List.not_mem_nil, or_false] at he
      rcases he with rfl | rfl <;> simp [raises, faultTag, hc, hn, ho]
    · simp [beginEvs, teardown, teardownOf, Frame.ev]
  case hook =>
    simp only [enterStep] at h
    by_cases hh : f (.hook id) = true
    · simp [hh] at h
    simp only [hh, Bool.false_eq_true, if_false, Prod.mk.injEq, Except.ok.injEq] at h
    obtain ⟨rfl, rfl, rfl⟩ := h
    simp [beginEvs, noSleep, isSleep, raises, faultTag, hh, teardown, teardownOf]
  all_goals
    simp only [enterStep] at h
    by_cases hh : f (.enter id) = true
    · simp [hh] at h
    simp only [hh, Bool.false_eq_true, if_false, Prod.mk.injEq, Except.ok.injEq] at h
    obtain ⟨rfl, rfl, rfl⟩ := h
    simp [beginEvs, noSleep, isSleep, raises, faultTag, hh, teardown, teardownOf, Frame.ev]

theorem enterStep_err (f : Faults) (delay : Nat) (s : Step) (env env1 : Env) (ev : List Ev) (t : Tag)
    (h : enterStep f delay s env = (ev, .error t, env1)) :
    noSleep ev = uptoFirst (raises f) (beginEvs s) ++ teardown f (uptoFirst (raises f) (beginEvs s))
      ∧ (beginEvs s).any (raises f) = true
      ∧ some t = lastRaised f (noSleep ev) none := by
  obtain ⟨id, k⟩ := s
  cases k
  case power =>
    simp only [enterStep, powerOn] at h
    by_cases hc : f (.check id) = true
    · simp only [hc, if_true, Prod.mk.injEq, Except.error.injEq] at h
      obtain ⟨rfl, rfl, rfl⟩ := h
      simp [beginEvs, uptoFirst, raises, faultTag, hc, teardown, teardownOf, noSleep, isSleep, lastRaised]
    by_cases hn : f (.refused id) = true
    · simp only [hc, hn, Bool.false_eq_true, if_false, if_true, Prod.mk.injEq, Except.error.injEq] at h
      obtain ⟨rfl, rfl, rfl⟩ := h
      simp [beginEvs, uptoFirst, raises, faultTag, hc, hn, teardown, teardownOf, noSleep, isSleep, lastRaised]
    by_cases ho : f (.on id) = true
    · simp only [hc, hn, ho, Bool.false_eq_true, if_false, if_true, Prod.mk.injEq, Except.error.injEq, powerOff] at h
      by_cases hf : f (.off id) = true
      · simp only [hf, if_true] at h
        obtain ⟨rfl, rfl, rfl⟩ := h
        have := noSleep_power_evs id (sleepFor delay env) [.off id]
        simp only [List.cons_append, List.append_assoc, List.nil_append] at this ⊢
        rw [this]
        simp [beginEvs, uptoFirst, raises, faultTag, hc, hn, ho, hf, teardown, teardownOf, noSleep, isSleep, lastRaised]
      · simp only [hf, Bool.false_eq_true, if_false] at h
        obtain ⟨rfl, rfl, rfl⟩ := h
        have := noSleep_power_evs id (sleepFor delay env) [.off id]
        simp only [List.cons_append, List.append_assoc, List.nil_append] at this ⊢
        rw [this]
        simp [beginEvs, uptoFirst, raises, faultTag, hc, hn, ho, hf, teardown, teardownOf, noSleep, isSleep, lastRaised]
    · simp [hc, hn, ho] at h
  case hook =>
    simp only [enterStep] at h
    by_cases hh : f (.hook id) = true
    · simp only [hh, if_true, Prod.mk.injEq, Except.error.injEq] at h
      obtain ⟨rfl, rfl, rfl⟩ := h
      simp [beginEvs, uptoFirst, noSleep, isSleep, raises, faultTag, hh, teardown, teardownOf, lastRaised]
    · simp [hh] at h
  all_goals
    simp only [enterStep] at h
    by_cases hh : f (.enter id) = true
    · simp only [hh, if_true, Prod.mk.injEq, Except.error.injEq] at h
      obtain ⟨rfl, rfl, rfl⟩ := h
      simp [beginEvs, uptoFirst, noSleep, isSleep, raises, faultTag, hh, teardown, teardownOf, lastRaised]
    · simp [hh] at h


theorem noSleep_frames (cx : List Frame) : noSleep (cx.map Frame.ev) = cx.map Frame.ev := by
  induction cx with
  | nil => rfl
  | cons fr cx ih => cases fr <;> simpa [noSleep, Frame.ev, isSleep] using ih

theorem all_not_raises_iff (f : Faults) (l : List Ev) :
    l.all (fun e => !raises f e) = true ↔ ∀ e ∈ l, raises f e = false := by
  simp [List.all_eq_true]

theorem lastRaised_of_none (f : Faults) : ∀ (l : List Ev) (e0 : Option Tag), (∀ e ∈ l, raises f e = false) →
    lastRaised f l e0 = e0
  | [], _, _ => rfl
  | x :: l, e0, h => by
    have hx : faultTag f x = none := by
      have := h x (by simp)
      simpa [raises] using this
    rw [lastRaised_cons, hx]
    exact lastRaised_of_none f l _ (fun e he => h e (by simp [he]))

theorem uptoFirst_all_not_of_any {α} {p : α → Bool} : ∀ {a : List α}, a.any p = true →
    (uptoFirst p a).all (fun x => !p x) = false
  | [], h => by simp at h
  | x :: a, h => by
    cases hx : p x with
    | true => simp [uptoFirst, hx]
    | false =>
      have h' : a.any p = true := by simpa [hx] using h
      simp [uptoFirst, hx, uptoFirst_all_not_of_any h']

/-- **Initialisation.**  For every step list, fault assignment, stack and environment: the begin
    callbacks that run are those of the steps in list order up to and including the first one that
    raises; what is registered on the exit stack (plus the power-off already done by a failing
    `poweron`) is exactly the tear-down owed for them; the exception is the last one raised. -/
theorem enterSteps_spec (f : Faults) (delay : Nat) : ∀ (steps : List Step) (cx : List Frame) (env : Env),
    ∃ extra, noSleep (enterSteps f delay steps cx env).1 = expectedInit steps f ++ extra
      ∧ extra ++ (enterSteps f delay steps cx env).2.2.1.map Frame.ev
          = teardown f (expectedInit steps f) ++ cx.map Frame.ev
      ∧ (enterSteps f delay steps cx env).2.1 = lastRaised f (expectedInit steps f ++ extra) none
      ∧ ((enterSteps f delay steps cx env).2.1 = none →
          (∀ e ∈ expectedInit steps f, raises f e = false) ∧ extra = [])
      ∧ ((enterSteps f delay steps cx env).2.1 ≠ none →
          (expectedInit steps f).all (fun e => !raises f e) = false)
  | [], cx, env => ⟨[], by simp [enterSteps, expectedInit, uptoFirst, noSleep, teardown, lastRaised]⟩
  | s :: rest, cx, env => by
    unfold enterSteps
    cases hs : enterStep f delay s env with
    | mk ev R =>
    obtain ⟨res, env1⟩ := R
    cases res with
    | error t =>
      obtain ⟨h1, h2, h3⟩ := enterStep_err f delay s env env1 ev t hs
      have hexp : expectedInit (s :: rest) f = uptoFirst (raises f) (beginEvs s) := by
        simp only [expectedInit, List.flatMap_cons]
        exact uptoFirst_append_of_any h2
      refine ⟨teardown f (uptoFirst (raises f) (beginEvs s)), ?_, ?_, ?_, ?_, ?_⟩
      · simpa [hexp] using h1
      · simp [hexp]
      · simp only [hexp]; rw [← h1]; exact h3
      · intro h; simp at h
      · intro _
        rw [hexp]
        exact uptoFirst_all_not_of_any h2
    | ok fr =>
      obtain ⟨h1, h2, h3⟩ := enterStep_ok f delay s env env1 ev fr hs
      obtain ⟨extra, i1, i2, i3, i4, i5⟩ := enterSteps_spec f delay rest (fr.toList ++ cx) env1
      have hexp : expectedInit (s :: rest) f = beginEvs s ++ expectedInit rest f := by
        simp only [expectedInit, List.flatMap_cons]
        exact uptoFirst_append_of_none h2
      simp only
      refine ⟨extra, ?_, ?_, ?_, ?_, ?_⟩
      · rw [noSleep_append, h1, i1, hexp, List.append_assoc]
      · rw [i2, hexp, teardown_append, List.map_append, h3, List.append_assoc]
      · rw [i3, hexp, List.append_assoc, lastRaised_append _ (beginEvs s), lastRaised_of_none f _ _ h2]
      · intro h
        obtain ⟨a, b⟩ := i4 h
        refine ⟨?_, b⟩
        intro e he
        rw [hexp] at he
        rcases List.mem_append.mp he with he | he
        · exact h2 e he
        · exact a e he
      · intro h
        have := i5 h
        rw [hexp, List.all_append, this, Bool.and_false]


theorem propagate_silent (f : Faults) : ∀ (d : Nat) (t : Tag) (m : Mach), m.rc = d + 1 →
    propagate f d t m = ([], t, { m with rc := 1 })
  | 0, t, m, h => by
    simp only [propagate]
    cases m; simp_all
  | d + 1, t, m, h => by
    unfold propagate
    rw [nested_exit_silent f (some t) m (by omega)]
    simp only [Option.getD_some, List.nil_append]
    rw [propagate_silent f d t _ (by simp; omega)]

theorem expectedBody_cons_raise (k : Nat) (ops : List Op) : expectedBody (.raise k :: ops) = [.raise k] := by
  simp [expectedBody, Op.ev, uptoFirst, isRaise]

theorem expectedBody_cons_mark (k : Nat) (ops : List Op) : expectedBody (.mark k :: ops) = .mark k :: expectedBody ops := by
  simp [expectedBody, Op.ev, uptoFirst, isRaise]

theorem expectedBody_cons_opened (ops : List Op) : expectedBody (.opened :: ops) = .opened :: expectedBody ops := by
  simp [expectedBody, Op.ev, uptoFirst, isRaise]

theorem expectedBody_cons_closed (ops : List Op) : expectedBody (.closed :: ops) = .closed :: expectedBody ops := by
  simp [expectedBody, Op.ev, uptoFirst, isRaise]

/-- **Nested entries and exits do nothing.**  While the outermost `with m:` is open, a balanced
    body produces only its own events, touches neither the exit stack nor the environment, and
    leaves the counter at 1 — whether it completes or raises at any depth. -/
theorem runBody_spec (f : Faults) (delay : Nat) (steps : List Step) : ∀ (ops : List Op) (d : Nat) (m : Mach),
    m.rc = d + 1 → balanced ops d = true →
    runBody f delay steps ops d m
      = (expectedBody ops, lastRaised f (expectedBody ops) none, { m with rc := 1 })
  | [], d, m, h, hb => by
    simp only [balanced, beq_iff_eq] at hb
    subst hb
    cases m
    simp_all [runBody, expectedBody, uptoFirst, lastRaised]
  | .opened :: ops, d, m, h, hb => by
    simp only [balanced] at hb
    unfold runBody
    rw [nested_enter_silent f delay steps m (by omega)]
    simp only [List.nil_append]
    rw [runBody_spec f delay steps ops (d + 1) _ (by simp; omega) hb, expectedBody_cons_opened]
    simp [lastRaised_cons, faultTag]
  | .closed :: ops, d, m, h, hb => by
    simp only [balanced, Bool.and_eq_true, decide_eq_true_eq] at hb
    unfold runBody
    rw [nested_exit_silent f none m (by omega)]
    simp only [List.nil_append]
    rw [runBody_spec f delay steps ops (d - 1) _ (by simp; omega) hb.2, expectedBody_cons_closed]
    simp [lastRaised_cons, faultTag]
  | .mark k :: ops, d, m, h, hb => by
    simp only [balanced] at hb
    unfold runBody
    rw [runBody_spec f delay steps ops d m h hb, expectedBody_cons_mark]
    simp [lastRaised_cons, faultTag]
  | .raise k :: ops, d, m, h, hb => by
    unfold runBody
    rw [propagate_silent f d _ m h, expectedBody_cons_raise]
    simp [lastRaised, faultTag]


theorem lastRaised_isSome (f : Faults) : ∀ (l : List Ev) (t : Tag), (lastRaised f l (some t)).isSome = true
  | [], t => rfl
  | x :: l, t => by
    rw [lastRaised_cons]
    cases hx : faultTag f x with
    | none => simpa using lastRaised_isSome f l t
    | some u => simpa using lastRaised_isSome f l u

theorem machExit_last (f : Faults) (exc : Option Tag) (m : Mach) (h : m.rc = 1) :
    (machExit f exc m).1 = m.cx.map Frame.ev
    ∧ (machExit f exc m).2.1 = lastRaised f (m.cx.map Frame.ev) exc
    ∧ (machExit f exc m).2.2.rc = 0 ∧ (machExit f exc m).2.2.cx = [] := by
  unfold machExit
  have : (m.rc - 1 == 0) = true := by simp [h]
  simp only [this, if_true]
  obtain ⟨u1, u2⟩ := unwind_spec f m.cx exc m.env
  exact ⟨u1, u2, trivial, trivial⟩

/-- **First entry.**  From counter 0 `__enter__` either brings every step up (counter 1, the exit
    stack holds exactly the tear-down owed) or, at the first step that raises, tears down what had
    been begun — in reverse, each once, continuing past faults — and leaves counter 0 and an empty
    stack; the exception is the last one raised. -/
theorem machEnter_fresh (f : Faults) (delay : Nat) (steps : List Step) (m : Mach) (h : m.rc = 0) :
    ((machEnter f delay steps m).2.1 = none →
        noSleep (machEnter f delay steps m).1 = expectedInit steps f
        ∧ (∀ e ∈ expectedInit steps f, raises f e = false)
        ∧ (machEnter f delay steps m).2.2.rc = 1
        ∧ (machEnter f delay steps m).2.2.cx.map Frame.ev = teardown f (expectedInit steps f))
    ∧ ((machEnter f delay steps m).2.1 ≠ none →
        noSleep (machEnter f delay steps m).1 = expectedInit steps f ++ teardown f (expectedInit steps f)
        ∧ (expectedInit steps f).all (fun e => !raises f e) = false
        ∧ (machEnter f delay steps m).2.1
            = lastRaised f (expectedInit steps f ++ teardown f (expectedInit steps f)) none
        ∧ (machEnter f delay steps m).2.2.rc = 0 ∧ (machEnter f delay steps m).2.2.cx = []) := by
  obtain ⟨extra, i1, i2, i3, i4, i5⟩ := enterSteps_spec f delay steps [] m.env
  unfold machEnter
  have hrc : ¬ (m.rc + 1 > 1) := by omega
  simp only [hrc, if_false]
  generalize enterSteps f delay steps [] m.env = R at i1 i2 i3 i4 i5
  obtain ⟨evs, r, cx, env⟩ := R
  simp only [List.map_nil, List.append_nil] at i1 i2 i3 i4 i5
  cases r with
  | none =>
    obtain ⟨a, b⟩ := i4 rfl
    subst b
    simp only [List.append_nil, List.nil_append] at i1 i2
    refine ⟨fun _ => ⟨i1, a, by simp [h], i2⟩, fun hne => absurd rfl hne⟩
  | some t =>
    simp only
    obtain ⟨x1, x2, x3, x4⟩ := machExit_last f (some t) { rc := m.rc + 1, cx := cx, env := env } (by simp [h])
    refine ⟨fun hn => ?_, fun _ => ⟨?_, i5 (by simp), ?_, x3, x4⟩⟩
    · rw [x2] at hn
      have := lastRaised_isSome f (cx.map Frame.ev) t
      simp [hn] at this
    · rw [noSleep_append, i1, x1, noSleep_frames, List.append_assoc, i2]
    · rw [x2, i3, ← lastRaised_append, List.append_assoc, i2]


theorem noSleep_expectedBody : ∀ (ops : List Op), noSleep (expectedBody ops) = expectedBody ops
  | [] => rfl
  | .opened :: ops => by
    rw [expectedBody_cons_opened]
    simpa [noSleep, isSleep] using noSleep_expectedBody ops
  | .closed :: ops => by
    rw [expectedBody_cons_closed]
    simpa [noSleep, isSleep] using noSleep_expectedBody ops
  | .mark k :: ops => by
    rw [expectedBody_cons_mark]
    simpa [noSleep, isSleep] using noSleep_expectedBody ops
  | .raise k :: ops => by
    rw [expectedBody_cons_raise]
    simp [noSleep, isSleep]

/-- **One session.**  For every step list, fault assignment, balanced body, environment and exit
    stack left behind, a `with m: body` started at counter 0 produces the specified log, hands the
    last exception raised to the caller and ends at counter 0 with an empty exit stack. -/
theorem session_spec (delay : Nat) (steps : List Step) (s : Session) (m : Mach)
    (hrc : m.rc = 0) (hb : balanced s.body 0 = true) :
    noSleep (runSession delay steps s m).1.trace = expectedTrace steps s.f s.body
    ∧ (runSession delay steps s m).1.exc = lastRaised s.f (expectedTrace steps s.f s.body) none
    ∧ (runSession delay steps s m).1.rc = 0
    ∧ (runSession delay steps s m).2.rc = 0 ∧ (runSession delay steps s m).2.cx = [] := by
  unfold runSession
  have hrc0 : (advance s.gap m).rc = 0 := hrc
  generalize advance s.gap m = m0 at hrc0 ⊢
  obtain ⟨hok, herr⟩ := machEnter_fresh s.f delay steps m0 hrc0
  generalize machEnter s.f delay steps m0 = R at hok herr ⊢
  obtain ⟨ev1, r1, m1⟩ := R
  simp only at hok herr
  cases r1 with
  | some t =>
    obtain ⟨e1, e2, e3, e4, e5⟩ := herr (by simp)
    simp only [expectedTrace, e2]
    refine ⟨?_, ?_, ?_, e4, e5⟩
    · simpa using e1
    · simpa using e3
    · simp [e4]
  | none =>
    obtain ⟨o1, o2, o3, o4⟩ := hok rfl
    have hall : (expectedInit steps s.f).all (fun e => !raises s.f e) = true :=
      (all_not_raises_iff _ _).mpr o2
    simp only
    rw [runBody_spec s.f delay steps s.body 0 m1 (by simp [o3]) hb]
    simp only
    obtain ⟨x1, x2, x3, x4⟩ := machExit_last s.f (lastRaised s.f (expectedBody s.body) none) { m1 with rc := 1 } rfl
    simp only [expectedTrace, hall, if_true]
    refine ⟨?_, ?_, ?_, x3, x4⟩
    · rw [noSleep_append, noSleep_append, o1, x1, noSleep_frames, o4]
      rw [noSleep_expectedBody]
    · rw [x2, o4, lastRaised_append, lastRaised_append, lastRaised_of_none s.f _ _ o2]
    · simp [x3]


theorem find?_toList_eq_filter {α} (p : α → Bool) : ∀ (l : List α), (l.filter p).length ≤ 1 →
    (l.find? p).toList = l.filter p
  | [], _ => rfl
  | x :: l, h => by
    cases hx : p x with
    | false =>
      have h' : (l.filter p).length ≤ 1 := by simpa [List.filter_cons, hx] using h
      simp [hx, find?_toList_eq_filter p l h']
    | true =>
      have h' : (l.filter p).length = 0 := by
        simp [hx] at h; simpa using h
      have : l.filter p = [] := List.length_eq_zero_iff.mp h'
      simp [hx, this]

theorem filter_rank (mro : List Step) (k : Kind) (r : Nat) (h : ∀ k', (k'.rank == r) = (k' == k)) :
    mro.filter (fun s => s.kind.rank == r) = mro.filter (fun s => s.kind == k) := by
  congr 1; funext s; exact h s.kind

/-- **Step order.**  The order in which `Machine.__enter__` visits the classes (three filters over
    the MRO, with `_connect`, `_init_shell` and `init` resolved in between) is the documented one
    whenever the class has at most one connector, shell and `init` override. -/
theorem machSteps_eq_specOrder (mro : List Step)
    (hc : (mro.filter (fun s => s.kind == .conn)).length ≤ 1)
    (hs : (mro.filter (fun s => s.kind == .shell)).length ≤ 1)
    (hh : (mro.filter (fun s => s.kind == .hook)).length ≤ 1) :
    machSteps mro = specOrder mro := by
  have hr : List.range 6 = [0, 1, 2, 3, 4, 5] := by decide
  unfold machSteps specOrder
  rw [hr, find?_toList_eq_filter _ mro hc, find?_toList_eq_filter _ mro hs, find?_toList_eq_filter _ mro hh]
  simp only [List.flatMap_cons, List.flatMap_nil, List.append_nil, List.append_assoc]
  rw [filter_rank mro .pre 0 (by intro k; cases k <;> rfl),
      filter_rank mro .conn 1 (by intro k; cases k <;> rfl),
      filter_rank mro .shell 3 (by intro k; cases k <;> rfl),
      filter_rank mro .post 4 (by intro k; cases k <;> rfl),
      filter_rank mro .hook 5 (by intro k; cases k <;> rfl)]
  have h2 : mro.filter (fun s => s.kind.rank == 2) = mro.filter (fun s => s.kind == .init || s.kind == .power) := by
    congr 1; funext s; cases s.kind <;> rfl
  rw [h2]

theorem mroFrom_filter_length (k : Kind) : ∀ (ks : List Kind) (i : Nat),
    ((mroFrom i ks).filter (fun s => s.kind == k)).length = ks.count k
  | [], _ => rfl
  | k' :: ks, i => by
    simp only [mroFrom, List.filter_cons, List.count_cons]
    by_cases h : k' = k
    · subst h; simp [mroFrom_filter_length k' ks (i + 1)]
    · have : (k' == k) = false := by simpa using h
      simp [this, mroFrom_filter_length k ks (i + 1)]

theorem runSessions_spec (delay : Nat) (steps : List Step) : ∀ (ss : List Session) (m : Mach), m.rc = 0 →
    (∀ s ∈ ss, balanced s.body 0 = true) →
    specSessions steps ss (runSessions delay steps ss m) = true
  | [], _, _, _ => rfl
  | s :: ss, m, h, hb => by
    obtain ⟨a, b, c, d, _⟩ := session_spec delay steps s m h (hb s (by simp))
    unfold runSessions
    simp only [specSessions, specSession, Bool.and_eq_true, beq_iff_eq]
    refine ⟨⟨⟨a, b⟩, c⟩, runSessions_spec delay steps ss _ d (fun s' hs' => hb s' (by simp [hs']))⟩

/-- **C13.**  For every well-formed case — every composition, every fault assignment of every
    session, every balanced nesting history — the model's observation satisfies the specification,
    including the fresh fault-free entry after the last session. -/
theorem run_spec (c : Case) (h : c.wf = true) : Spec.C13 c (run c) = true := by
  unfold Spec.C13
  rw [h, Bool.true_and]
  simp only [Case.wf, Bool.and_eq_true, beq_iff_eq, decide_eq_true_eq, List.all_eq_true] at h
  obtain ⟨⟨⟨⟨hc, hs⟩, _⟩, hh⟩, hb⟩ := h
  unfold run
  rw [machSteps_eq_specOrder c.mro
    (by unfold Case.mro; rw [mroFrom_filter_length]; omega)
    (by unfold Case.mro; rw [mroFrom_filter_length]; omega)
    (by unfold Case.mro; rw [mroFrom_filter_length]; omega)]
  apply runSessions_spec _ _ _ _ rfl
  intro s hs'
  rcases List.mem_append.mp hs' with hs' | hs'
  · exact hb s hs'
  · simp only [List.mem_singleton] at hs'
    subst hs'
    rfl

end C13
