import TbotVerif.Props.CtxExec
set_option linter.unusedSimpArgs false
set_option linter.unusedVariables false
/-! Lock-step simulation between the implementation model (`Ctx`) and the documentation-level
    reference model (`Ctx.Ref`): atomic steps. -/
namespace Ctx
open Ref (RSt RR Handle RMgr)

/-- the reference model's view of a frame: class and flags -/
def eraseF (f : Frame) : Handle := { cls := f.cls, excl := f.excl, roe := f.roe, dep := f.dep }

/-- the reference state is the implementation state without machine objects, re-entrancy
    counters and frame identities; `latch` is the complement of `_available` while an instance
    exists -/
structure Rel (s : St) (r : RSt) : Prop where
  inst : ∀ k, (r.mgrs k).inst = (s.mgrs k).inst
  holders : ∀ k, (r.mgrs k).holders = (s.mgrs k).users
  latch : ∀ k o, (s.mgrs k).inst = some o → (r.mgrs k).latch = !(s.mgrs k).avail
  built : ∀ k, (r.mgrs k).built = (s.mgrs k).held.map eraseF
  nObj : r.nObj = s.nObj
  order : r.order = s.order
  openCtx : r.openCtx = s.openCtx
  keepAlive : r.keepAlive = s.keepAlive
  roeDefault : r.roeDefault = s.roeDefault
  trace : r.trace = s.trace
  nInit : r.nInit = s.nInit
  nDown : r.nDown = s.nDown
  nExc : r.nExc = s.nExc

/-- close the scalar fields of a `Rel` goal from an existing `Rel` -/
macro "rel_scalars" h:ident : tactic =>
  `(tactic| first
    | exact ($h).nObj | exact ($h).order | exact ($h).openCtx | exact ($h).keepAlive
    | exact ($h).roeDefault | exact ($h).trace | exact ($h).nInit | exact ($h).nDown
    | exact ($h).nExc | skip)

/-- related results: related states, the same exception -/
def RelR (a : R) (b : RR) : Prop := Rel a.1 b.1 ∧ a.2 = b.2

theorem Rel.alive {s : St} {r : RSt} (h : Rel s r) (c : Nat) : r.alive c = s.alive c := by
  simp [RSt.alive, St.alive, RSt.mgr, St.mgr, h.inst c]

theorem Rel.newExc {s : St} {r : RSt} (h : Rel s r) (k : Kind) :
    Rel (s.newExc k).1 (r.newExc k).1 ∧ (s.newExc k).2 = (r.newExc k).2 := by
  refine ⟨?_, by simp [St.newExc, RSt.newExc, h.nExc]⟩
  constructor <;> simp [St.newExc, RSt.newExc]
  · exact h.inst
  · exact h.holders
  · exact h.latch
  · exact h.built
  · exact h.nObj
  · exact h.order
  · exact h.openCtx
  · exact h.keepAlive
  · exact h.roeDefault
  · exact h.trace
  · exact h.nInit
  · exact h.nDown
  · exact h.nExc

theorem Rel.log {s : St} {r : RSt} (h : Rel s r) (ev : Ev) : Rel (s.log ev) (r.log ev) := by
  constructor <;> simp [St.log, RSt.log]
  · exact h.inst
  · exact h.holders
  · exact h.latch
  · exact h.built
  · exact h.nObj
  · exact h.order
  · exact h.openCtx
  · exact h.keepAlive
  · exact h.roeDefault
  · exact h.trace
  · exact h.nInit
  · exact h.nDown
  · exact h.nExc

theorem Rel.ctxError {s : St} {r : RSt} (h : Rel s r) : RelR s.ctxError r.ctxError := by
  have := h.newExc .ctx
  exact ⟨this.1, by simp [St.ctxError, RSt.ctxError, this.2]⟩

/-- the implementation state changed only in fields the reference model does not have -/
theorem Rel.of_same {s s' : St} {r : RSt} (h : Rel s r) (hm : s'.mgrs = s.mgrs)
    (h1 : s'.nObj = s.nObj) (h2 : s'.order = s.order) (h3 : s'.openCtx = s.openCtx)
    (h4 : s'.keepAlive = s.keepAlive) (h5 : s'.roeDefault = s.roeDefault) (h6 : s'.trace = s.trace)
    (h7 : s'.nInit = s.nInit) (h8 : s'.nDown = s.nDown) (h9 : s'.nExc = s.nExc) : Rel s' r := by
  constructor
  · rw [hm]; exact h.inst
  · rw [hm]; exact h.holders
  · rw [hm]; exact h.latch
  · rw [hm]; exact h.built
  · rw [h1]; exact h.nObj
  · rw [h2]; exact h.order
  · rw [h3]; exact h.openCtx
  · rw [h4]; exact h.keepAlive
  · rw [h5]; exact h.roeDefault
  · rw [h6]; exact h.trace
  · rw [h7]; exact h.nInit
  · rw [h8]; exact h.nDown
  · rw [h9]; exact h.nExc

section
variable (cfg : Cfg)

/-- `teardown` up to the machine going down ↔ `bringDown` -/
theorem Rel.tdStart {s : St} {r : RSt} (h : Rel s r) {c o : Nat} (hcls : (s.objs o).cls = c) :
    RelR (objExit cfg (((s.setObj o { s.obj o with rc := 1 })).setMgr c
            { (s.setObj o { s.obj o with rc := 1 }).mgr c with held := [] }) o)
         (Ref.bringDown cfg (r.setMgr c { r.mgr c with built := [] }) c o) := by
  unfold objExit machineDown Ref.bringDown RelR
  simp only [St.obj, St.setObj, St.setMgr, St.mgr, St.log, St.newExc, RSt.setMgr, RSt.mgr, RSt.log,
    RSt.newExc, Int.sub_self, beq_self_eq_true, if_true, ite_true, h.nDown, h.nExc, hcls]
  split
  all_goals
    refine ⟨?_, rfl⟩
    constructor <;> simp <;> rel_scalars h
    · intro k; have := h.inst k; have := h.inst c; grind
    · intro k; have := h.holders k; have := h.holders c; grind
    · intro k o1; have := h.latch k o1; have := h.latch c o1; grind
    · intro k; have := h.built k; grind

/-- a fresh machine object is initialised ↔ `bringUp` -/
theorem Rel.machineUp_new {s : St} {r : RSt} (h : Rel s r) (c : Nat) :
    RelR (machineUp cfg (({ s with nObj := s.nObj + 1 } : St).setObj s.nObj { cls := c, rc := 0, up := false }) s.nObj)
         (Ref.bringUp cfg { r with nObj := r.nObj + 1 } c r.nObj) := by
  unfold machineUp Ref.bringUp RelR
  simp only [St.obj, St.setObj, St.log, St.newExc, RSt.log, RSt.newExc, h.nInit, h.nExc, h.nObj,
    if_true, ite_true]
  split
  all_goals
    refine ⟨?_, rfl⟩
    constructor <;> simp <;> rel_scalars h
    · exact h.inst
    · exact h.holders
    · exact h.latch
    · exact h.built

end

theorem Rel.cleared {s : St} {r : RSt} (h : Rel s r) (c : Nat) :
    Rel (s.cleared c) (r.setMgr c { r.mgr c with inst := none }) := by
  constructor <;> simp [St.cleared, RSt.setMgr, RSt.mgr] <;> rel_scalars h
  · intro k; have := h.inst k; grind
  · intro k; have := h.holders k; have := h.holders c; grind
  · intro k o1; have := h.latch k o1; grind
  · intro k; have := h.built k; have := h.built c; grind

theorem Rel.frameOut {s : St} {r : RSt} (h : Rel s r) (f : Frame) :
    Rel (s.frameOut f)
      (r.setMgr f.cls { r.mgr f.cls with holders := (r.mgr f.cls).holders - 1 }) := by
  constructor <;> simp [St.frameOut, RSt.setMgr, RSt.mgr] <;> rel_scalars h
  · intro k; have := h.inst k; have := h.inst f.cls; grind
  · intro k; have := h.holders k; have := h.holders f.cls; grind
  · intro k o1; have := h.latch k o1; have := h.latch f.cls o1; grind
  · intro k; have := h.built k; have := h.built f.cls; grind

theorem Rel.setAvail {s : St} {r : RSt} (h : Rel s r) {c : Nat} (b : Bool)
    (hi : (s.mgrs c).inst = none) : Rel (s.setAvail c b) r := by
  constructor <;> simp [St.setAvail] <;> rel_scalars h
  · intro k; have := h.inst k; grind
  · intro k; have := h.holders k; grind
  · intro k o1; have := h.latch k o1; grind
  · intro k; have := h.built k; grind

theorem Rel.frameIn {s : St} {r : RSt} (h : Rel s r) (fr : Frame) (excl : Bool) :
    Rel (s.frameIn fr (!excl))
      (r.setMgr fr.cls { r.mgr fr.cls with holders := (r.mgr fr.cls).holders + 1, latch := excl }) := by
  constructor <;> simp [St.frameIn, RSt.setMgr, RSt.mgr] <;> rel_scalars h
  · intro k; have := h.inst k; have := h.inst fr.cls; grind
  · intro k; have := h.holders k; have := h.holders fr.cls; grind
  · intro k o1; have := h.latch k o1; grind
  · intro k; have := h.built k; have := h.built fr.cls; grind

/-- `from_context` succeeded ↔ the reference model caches the new instance -/
theorem Rel.created {s : St} {r : RSt} (h : Rel s r) {c : Nat} (o : Nat) (L : List Frame)
    (hav : (s.mgrs c).avail = true) :
    Rel (s.setMgr c { s.mgr c with inst := some o, held := L })
      (r.setMgr c { r.mgr c with inst := some o, latch := false, built := L.map eraseF }) := by
  constructor <;> simp [St.setMgr, St.mgr, RSt.setMgr, RSt.mgr] <;> rel_scalars h
  · intro k; have := h.inst k; grind
  · intro k; have := h.holders k; have := h.holders c; grind
  · intro k o1; have := h.latch k o1; grind
  · intro k; have := h.built k; grind

theorem Rel.orderStep {s : St} {r : RSt} (h : Rel s r) (c : Nat) :
    Rel (if s.order.contains c then s else { s with order := s.order ++ [c] })
      (if r.order.contains c then r else { r with order := r.order ++ [c] }) := by
  rw [h.order]
  split
  · exact h
  · constructor <;> simp <;> rel_scalars h
    · exact h.inst
    · exact h.holders
    · exact h.latch
    · exact h.built

end Ctx
