import TbotVerif.Props.CtxRefine2
set_option linter.unusedSimpArgs false
set_option linter.unusedVariables false
/-! Lock-step simulation: `init`, entering a request, all levels, loops, programs. -/
namespace Ctx
open Ref (RSt RR Handle RMgr)

section
variable (cfg : Cfg)

theorem initClsF_sim {re : Nat → Bool → St → St × (Frame ⊕ Exc)}
    {reR : Nat → Bool → RSt → RSt × (Handle ⊕ Exc)}
    {rx : Frame → St → Option Exc → R} {rxR : Handle → RSt → Option Exc → RR}
    (hwf : cfg.depsBelow) (hS : DepSpec re) (hre : DepSim re reR) (hSx : RxSpec rx)
    (hrx : RxSim rx rxR) : IniSim (initClsF cfg re rx) (Ref.createF cfg reR rxR) := by
  intro B c s r h hr hb
  have hcB : c ∉ B := fun hm => Nat.lt_irrefl _ (hb _ hm)
  unfold initClsF Ref.createF
  rw [hr.alive]
  split
  · exact hr.ctxError
  · rename_i hal
    have hi : (s.mgrs c).inst = none := by
      simpa [St.alive, St.mgr] using hal
    simp only
    have hsa : s.setMgr c { s.mgr c with avail := true } = s.setAvail c true := rfl
    rw [hsa]
    have ha : Inv (c :: B) (s.setAvail c true) :=
      (h.setAvail c true).busy (by simp [St.setAvail, hi])
    have ra : Rel (s.setAvail c true) r := hr.setAvail true hi
    have hlt : ∀ d ∈ cfg.depsOf c, ∀ b ∈ c :: B, d.1 < b := by
      intro d hd b hbm
      rcases List.mem_cons.mp hbm with rfl | hbm
      · exact hwf _ d hd
      · exact Nat.lt_trans (hwf c d hd) (hb b hbm)
    have hE := enterDeps_spec hS c s.nFrame (cfg.depsOf c) (c :: B) (s.setAvail c true) [] ha
      (hwf c) hlt (Nat.le_refl _) ⟨Pend.nil _, by simp, by simp⟩
    have sE := enterDeps_sim hS hre c s.nFrame (cfg.depsOf c) (c :: B) (s.setAvail c true) r [] ha ra
      (hwf c) hlt (Nat.le_refl _) ⟨Pend.nil _, by simp, by simp⟩
    simp only [List.map_nil] at sE
    generalize enterDepsWith re (cfg.depsOf c) (s.setAvail c true) [] = a at hE sE ⊢
    generalize Ref.acquireAllWith reR (cfg.depsOf c) r [] = q at sE ⊢
    obtain ⟨s1, L, eo⟩ := a
    obtain ⟨q1, LR, eoR⟩ := q
    simp only at hE sE ⊢
    obtain ⟨hI1, hS1, hD1⟩ := hE
    obtain ⟨rel1, hLR, heo⟩ := sE
    subst hLR heo
    have hm1 : s1.mgrs c = (s.setAvail c true).mgrs c := hS1.keep c (by simp)
    have hinst1 : (s1.mgrs c).inst = none := by
      rw [hm1]; simp [St.setAvail, hi]
    have hav1 : (s1.mgrs c).avail = true := by
      rw [hm1]; simp [St.setAvail]
    have hltL : ∀ f ∈ L.reverse, ∀ b ∈ c :: B, f.cls < b := by
      intro f hf b hbm
      have hfc := hD1.small f (List.mem_reverse.mp hf)
      rcases List.mem_cons.mp hbm with rfl | hbm
      · exact hfc
      · exact Nat.lt_trans hfc (hb b hbm)
    cases eoR with
    | some ex =>
      simp only
      rw [← List.map_reverse]
      exact exitFrames_sim hSx hrx L.reverse (c :: B) s1 q1 (some ex) hI1 rel1 hD1.pend.reverse hltL
    | none =>
      simp only
      have hmu := machineUp_new cfg (s := s1) (c := c)
      have smu := rel1.machineUp_new cfg c
      simp only at hmu
      generalize machineUp cfg (({ s1 with nObj := s1.nObj + 1 } : St).setObj s1.nObj
        { cls := c, rc := 0, up := false }) s1.nObj = r1 at hmu smu ⊢
      generalize Ref.bringUp cfg { q1 with nObj := q1.nObj + 1 } c q1.nObj = p1 at smu ⊢
      have hp12 : p1.2 = r1.2 := smu.2.symm
      rw [hp12]
      cases hr1 : r1.2 with
      | some ex =>
        simp only
        have hx := hmu.2 ex hr1
        have hI2 : Inv (c :: B) r1.1 := (hI1.failedInit ex).ext hx
        have hp2 : Pend L.reverse r1.1 := by
          refine Pend.reverse ⟨hD1.pend.nodup, ?_, ?_⟩
          · intro f hf; rw [hx.open_]; exact hD1.pend.isOpen f hf
          · intro f hf k; rw [hx.mgrs]; exact hD1.pend.notHeld f hf k
        rw [← List.map_reverse]
        exact exitFrames_sim hSx hrx L.reverse (c :: B) r1.1 p1.1 (some ex) hI2 smu.1 hp2 hltL
      | none =>
        simp only
        have hx := hmu.1 hr1
        have hav2 : (r1.1.mgrs c).avail = true := by
          rw [hx.mgrs]; exact hav1
        have hno : q1.nObj = s1.nObj := rel1.nObj
        rw [hno]
        exact ⟨smu.1.created s1.nObj L hav2, rfl⟩

theorem resetStep_sim {td : Nat → St → R} {tdR : Nat → RSt → RR} (htd : TdSim td tdR)
    {B : List Nat} {c : Nat} {s : St} {r : RSt} (reset : Bool) (h : Inv B s) (hr : Rel s r)
    (hb : ∀ b ∈ B, c < b) : RelR (resetStep td c reset s) (Ref.resetStep tdR c reset r) := by
  unfold resetStep Ref.resetStep
  rw [hr.alive]
  split
  · exact htd B c s r h hr hb
  · exact ⟨hr, rfl⟩

theorem ensureStep_sim {ini : Nat → St → R} {iniR : Nat → RSt → RR} (hini : IniSim ini iniR)
    {B : List Nat} {c : Nat} {s : St} {r : RSt} (h : Inv B s) (hr : Rel s r)
    (hb : ∀ b ∈ B, c < b) : RelR (ensureStep ini c s) (Ref.ensureStep iniR c r) := by
  unfold ensureStep Ref.ensureStep
  rw [hr.alive]
  split
  · exact hini B c s r h hr hb
  · exact ⟨hr, rfl⟩

theorem admitStep_sim {td : Nat → St → R} {B : List Nat} (dep : Bool) {c : Nat} (excl roe : Bool)
    {s : St} {r : RSt} (h : Inv B s) (hr : Rel s r) (hb : ∀ b ∈ B, c < b) :
    Rel (admitStep cfg td dep c excl roe s).1 (Ref.admitStep dep c excl roe r).1 ∧
    ResRel (admitStep cfg td dep c excl roe s).2 (Ref.admitStep dep c excl roe r).2 := by
  have hcB : c ∉ B := fun hm => Nat.lt_irrefl _ (hb _ hm)
  have hne := hr.newExc .ctx
  cases hi : (s.mgrs c).inst with
  | none =>
    have e1 : admitStep cfg td dep c excl roe s = ((s.newExc .ctx).1, .inr (s.newExc .ctx).2) := by
      unfold admitStep; simp [St.mgr, hi]
    have e2 : Ref.admitStep dep c excl roe r = ((r.newExc .ctx).1, .inr (r.newExc .ctx).2) := by
      unfold Ref.admitStep; simp [RSt.mgr, hr.inst c, hi]
    rw [e1, e2]
    exact ⟨hne.1, hne.2⟩
  | some o =>
    have hl := hr.latch c o hi
    cases hav : (s.mgrs c).avail with
    | false =>
      have e1 : admitStep cfg td dep c excl roe s = ((s.newExc .ctx).1, .inr (s.newExc .ctx).2) := by
        unfold admitStep; simp [St.mgr, hi, hav]
      have e2 : Ref.admitStep dep c excl roe r = ((r.newExc .ctx).1, .inr (r.newExc .ctx).2) := by
        unfold Ref.admitStep; simp [RSt.mgr, hr.inst c, hi, hl, hav]
      rw [e1, e2]
      exact ⟨hne.1, hne.2⟩
    | true =>
      obtain ⟨hup, hrc⟩ := h.instLive c o hi hcB
      have hpos : 1 ≤ (s.objs o).rc := by omega
      rw [admitStep_ok cfg hi hav hpos]
      have e2 : Ref.admitStep dep c excl roe r =
          (let r1 := r.setMgr c { r.mgr c with holders := (r.mgr c).holders + 1, latch := excl }
           let r2 := if r1.order.contains c then r1 else { r1 with order := r1.order ++ [c] }
           (r2.log (.yielded dep c o), .inl { cls := c, excl := excl, roe := roe, dep := dep })) := by
        unfold Ref.admitStep; simp [RSt.mgr, hr.inst c, hi, hl, hav]
      rw [e2]
      simp only
      have rel1 := hr.frameIn { id := s.nFrame, cls := c, obj := o, excl := excl, roe := roe, dep := dep } excl
      have rel2 := rel1.orderStep c
      exact ⟨rel2.log _, rfl⟩

theorem reqEnterF_sim {td ini : Nat → St → R} {tdR iniR : Nat → RSt → RR} (hS : TdSpec td)
    (htd : TdSim td tdR) (hSi : IniSpec ini) (hini : IniSim ini iniR) :
    ReSim (reqEnterF cfg td ini) (Ref.requestF tdR iniR) := by
  intro B dep c reset excl roe s r h hr hb
  unfold reqEnterF Ref.requestF
  simp only [hr.keepAlive, hr.openCtx, hr.roeDefault]
  split
  · have := hr.newExc .ctx
    exact ⟨this.1, this.2⟩
  · have h0 := resetStep_spec hS reset h hb
    have s0 := resetStep_sim htd reset h hr hb
    generalize resetStep td c reset s = r0 at h0 s0 ⊢
    generalize Ref.resetStep tdR c reset r = q0 at s0 ⊢
    rw [← s0.2]
    cases he0 : r0.2 with
    | some ex => exact ⟨s0.1, rfl⟩
    | none =>
      simp only
      have h1 := ensureStep_spec hSi h0.1 hb
      have s1 := ensureStep_sim hini h0.1 s0.1 hb
      generalize ensureStep ini c r0.1 = r1 at h1 s1 ⊢
      generalize Ref.ensureStep iniR c q0.1 = q1 at s1 ⊢
      rw [← s1.2]
      cases he1 : r1.2 with
      | some ex => exact ⟨s1.1, rfl⟩
      | none =>
        simp only
        exact admitStep_sim cfg dep excl (roe.getD s.roeDefault) h1.1 s1.1 hb

/-- every dependency level of the two models corresponds -/
theorem ops_sim (hwf : cfg.depsBelow) :
    ∀ k, TdSim (ops cfg k).teardown (Ref.ops cfg k).teardown ∧
         RxSim (ops cfg k).reqExit (Ref.ops cfg k).release ∧
         ReSim (ops cfg k).reqEnter (Ref.ops cfg k).request := by
  intro k
  induction k with
  | zero =>
    refine ⟨?_, ?_, ?_⟩
    · intro B c s r _ hr _; exact ⟨hr, rfl⟩
    · intro B f s r e _ hr _ _ _; exact ⟨hr, rfl⟩
    · intro B dep c reset excl roe s r _ hr _; exact ⟨hr, rfl⟩
  | succ k ih =>
    obtain ⟨_, hrx, hre⟩ := ih
    obtain ⟨_, hSx, hSe⟩ := ops_spec cfg hwf k
    have hStd : TdSpec (teardownF cfg (ops cfg k).reqExit) := teardownF_spec cfg hSx
    have htd : TdSim (teardownF cfg (ops cfg k).reqExit) (Ref.teardownF cfg (Ref.ops cfg k).release) :=
      teardownF_sim cfg hSx hrx
    have hSdep : DepSpec (fun d x s => (ops cfg k).reqEnter true d false x none s) :=
      fun B d x s h hb => hSe B true d false x none s h hb
    have hdep : DepSim (fun d x s => (ops cfg k).reqEnter true d false x none s)
        (fun d x s => (Ref.ops cfg k).request true d false x none s) :=
      fun B d x s r h hr hb => hre B true d false x none s r h hr hb
    have hSini := initClsF_spec cfg hwf hSdep hSx
    have hini := initClsF_sim cfg hwf hSdep hdep hSx hrx
    exact ⟨htd, reqExitF_sim cfg hStd htd, reqEnterF_sim cfg hStd htd hSini hini⟩

theorem tdLoop_sim {td : Nat → St → R} {tdR : Nat → RSt → RR} (hS : TdSpec td) (htd : TdSim td tdR)
    (cond : St → Nat → Bool) (condR : RSt → Nat → Bool)
    (hc : ∀ s r c, Rel s r → condR r c = cond s c) :
    ∀ (cs : List Nat) (s : St) (r : RSt) (e : Option Exc), Inv [] s → Rel s r →
      RelR (tdLoop td cond cs s e) (Ref.tdLoop tdR condR cs r e) := by
  intro cs
  induction cs with
  | nil => intro s r e _ hr; exact ⟨hr, rfl⟩
  | cons c cs ih =>
    intro s r e h hr
    unfold tdLoop Ref.tdLoop
    rw [hc s r c hr]
    split
    · have h1 := hS [] c s h (by simp)
      have s1 := htd [] c s r h hr (by simp)
      simp only
      rw [← s1.2]
      exact ih (td c s).1 (tdR c r).1 (first e (td c s).2) h1.1 s1.1
    · exact ih s r e h hr

theorem Rel.openCtxDec {s : St} {r : RSt} (h : Rel s r) :
    Rel { s with openCtx := s.openCtx - 1 } { r with openCtx := r.openCtx - 1 } := by
  constructor <;> simp <;> rel_scalars h
  · exact h.inst
  · exact h.holders
  · exact h.latch
  · exact h.built
  · rw [h.openCtx]

theorem ctxExit_sim (hwf : cfg.depsBelow) {s : St} {r : RSt} (h : Inv [] s) (hr : Rel s r) :
    RelR (ctxExit cfg s) (Ref.ctxExit cfg r) := by
  unfold ctxExit Ref.ctxExit
  simp only [hr.openCtx, hr.order]
  split
  · have := tdLoop_sim (ops_spec cfg hwf cfg.n).1 (ops_sim cfg hwf cfg.n).1
      (fun s c => s.alive c && s.keepAlive) (fun s c => s.alive c && s.keepAlive)
      (fun s r c hr => by simp [hr.alive, hr.keepAlive]) s.order.reverse s r none h hr
    generalize tdLoop (ops cfg cfg.n).teardown (fun s c => s.alive c && s.keepAlive)
      s.order.reverse s none = a at this ⊢
    generalize Ref.tdLoop (Ref.ops cfg cfg.n).teardown (fun s c => s.alive c && s.keepAlive)
      s.order.reverse r none = q at this ⊢
    exact ⟨this.1.openCtxDec, this.2⟩
  · exact ⟨hr.openCtxDec, rfl⟩

end

end Ctx
