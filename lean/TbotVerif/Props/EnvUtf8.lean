import TbotVerif.Base.Text
/-! Round trip: the hand-written model of `bytes.decode("utf-8", "replace")` inverts Lean's
    `String.utf8EncodeChar` (`str.encode("utf-8")`).  Core Lean only. -/
namespace EnvUtf8

/-- `str.encode("utf-8")` -/
def enc (s : List Char) : Bytes := s.flatMap String.utf8EncodeChar

theorem enc_nil : enc [] = [] := rfl

theorem enc_cons (c : Char) (s : List Char) : enc (c :: s) = String.utf8EncodeChar c ++ enc s := by
  simp only [enc, List.flatMap_cons]

theorem enc_append (a b : List Char) : enc (a ++ b) = enc a ++ enc b := by
  simp only [enc, List.flatMap_append]

/-! ## the shape of an encoding, in terms of `Nat` arithmetic -/

theorem val_valid (c : Char) :
    c.val.toNat < 0xD800 ∨ (0xDFFF < c.val.toNat ∧ c.val.toNat < 0x110000) := c.valid

theorem ofNat_val (c : Char) : Char.ofNat c.val.toNat = c := Char.ofNat_toNat c

theorem enc1 (c : Char) (h : c.val.toNat ≤ 127) :
    String.utf8EncodeChar c = [UInt8.ofNat c.val.toNat] := by
  simp only [String.utf8EncodeChar, h, if_true]

theorem enc2 (c : Char) (h1 : ¬ c.val.toNat ≤ 127) (h2 : c.val.toNat ≤ 2047) :
    String.utf8EncodeChar c =
      [UInt8.ofNat (c.val.toNat / 64 % 32 + 192), UInt8.ofNat (c.val.toNat % 64 + 128)] := by
  simp only [String.utf8EncodeChar, h1, h2, if_true, if_false]

theorem enc3 (c : Char) (h1 : ¬ c.val.toNat ≤ 127) (h2 : ¬ c.val.toNat ≤ 2047)
    (h3 : c.val.toNat ≤ 65535) :
    String.utf8EncodeChar c =
      [UInt8.ofNat (c.val.toNat / 4096 % 16 + 224), UInt8.ofNat (c.val.toNat / 64 % 64 + 128),
        UInt8.ofNat (c.val.toNat % 64 + 128)] := by
  simp only [String.utf8EncodeChar, h1, h2, h3, if_true, if_false]

theorem enc4 (c : Char) (h1 : ¬ c.val.toNat ≤ 127) (h2 : ¬ c.val.toNat ≤ 2047)
    (h3 : ¬ c.val.toNat ≤ 65535) :
    String.utf8EncodeChar c =
      [UInt8.ofNat (c.val.toNat / 262144 % 8 + 240), UInt8.ofNat (c.val.toNat / 4096 % 64 + 128),
        UInt8.ofNat (c.val.toNat / 64 % 64 + 128), UInt8.ofNat (c.val.toNat % 64 + 128)] := by
  simp only [String.utf8EncodeChar, h1, h2, h3, if_false]

theorem toNat_ofNat_lt (n : Nat) (h : n < 256) : (UInt8.ofNat n).toNat = n := by
  simp only [UInt8.toNat_ofNat']; omega

/-! ## `decodeStep` on well-formed sequences, hypotheses on `.toNat` -/

theorem lt_of_toNat {a : Byte} {k : Nat} (hk : k < 256) (h : a.toNat < k) : a < UInt8.ofNat k := by
  rw [UInt8.lt_iff_toNat_lt, toNat_ofNat_lt k hk]; exact h

theorem not_lt_of_toNat {a : Byte} {k : Nat} (hk : k < 256) (h : k ≤ a.toNat) :
    ¬ a < UInt8.ofNat k := by
  rw [UInt8.lt_iff_toNat_lt, toNat_ofNat_lt k hk]; omega

theorem isCont_of {b : Byte} (h1 : 128 ≤ b.toNat) (h2 : b.toNat ≤ 191) : isCont b = true := by
  simp only [isCont, Bool.and_eq_true, decide_eq_true_eq, UInt8.le_iff_toNat_le]
  exact ⟨h1, h2⟩

theorem inR_of {lo hi b : Byte} (h1 : lo.toNat ≤ b.toNat) (h2 : b.toNat ≤ hi.toNat) :
    inR lo hi b = true := by
  simp only [inR, Bool.and_eq_true, decide_eq_true_eq, UInt8.le_iff_toNat_le]
  exact ⟨h1, h2⟩

theorem snd3_of {b0 b1 : Byte} (h1 : 128 ≤ b1.toNat) (h2 : b1.toNat ≤ 191)
    (hE0 : b0.toNat = 224 → 160 ≤ b1.toNat) (hED : b0.toNat = 237 → b1.toNat ≤ 159) :
    snd3 b0 b1 = true := by
  unfold snd3
  by_cases e0 : b0 = 0xE0
  · subst e0
    simp only [beq_self_eq_true, if_true]
    exact inR_of (hE0 rfl) h2
  · have hb : (b0 == 0xE0) = false := beq_false_of_ne e0
    simp only [hb, Bool.false_eq_true, if_false]
    by_cases e1 : b0 = 0xED
    · subst e1
      simp only [beq_self_eq_true, if_true]
      exact inR_of h1 (hED rfl)
    · have hb1 : (b0 == 0xED) = false := beq_false_of_ne e1
      simp only [hb1, Bool.false_eq_true, if_false]
      exact isCont_of h1 h2

theorem snd4_of {b0 b1 : Byte} (h1 : 128 ≤ b1.toNat) (h2 : b1.toNat ≤ 191)
    (hF0 : b0.toNat = 240 → 144 ≤ b1.toNat) (hF4 : b0.toNat = 244 → b1.toNat ≤ 143) :
    snd4 b0 b1 = true := by
  unfold snd4
  by_cases e0 : b0 = 0xF0
  · subst e0
    simp only [beq_self_eq_true, if_true]
    exact inR_of (hF0 rfl) h2
  · have hb : (b0 == 0xF0) = false := beq_false_of_ne e0
    simp only [hb, Bool.false_eq_true, if_false]
    by_cases e1 : b0 = 0xF4
    · subst e1
      simp only [beq_self_eq_true, if_true]
      exact inR_of h1 (hF4 rfl)
    · have hb1 : (b0 == 0xF4) = false := beq_false_of_ne e1
      simp only [hb1, Bool.false_eq_true, if_false]
      exact isCont_of h1 h2

theorem step1 (b0 : Byte) (t : Bytes) (h : b0.toNat < 128) :
    decodeStep (b0 :: t) = (Char.ofNat b0.toNat, 1) := by
  have a1 : b0 < 0x80 := lt_of_toNat (k := 0x80) (by decide) h
  simp only [decodeStep, a1, if_true]

theorem step2 (b0 b1 : Byte) (t : Bytes) (h0 : 194 ≤ b0.toNat) (h0' : b0.toNat < 224)
    (h1 : 128 ≤ b1.toNat) (h1' : b1.toNat ≤ 191) :
    decodeStep (b0 :: b1 :: t) = (cp2 b0 b1, 2) := by
  have a1 : ¬ b0 < 0x80 := not_lt_of_toNat (k := 0x80) (by decide) (by omega)
  have a2 : ¬ b0 < 0xC2 := not_lt_of_toNat (k := 0xC2) (by decide) (by omega)
  have a3 : b0 < 0xE0 := lt_of_toNat (k := 0xE0) (by decide) h0'
  simp only [decodeStep, a1, a2, a3, isCont_of h1 h1', if_true, if_false]

theorem step3 (b0 b1 b2 : Byte) (t : Bytes) (h0 : 224 ≤ b0.toNat) (h0' : b0.toNat < 240)
    (h1 : snd3 b0 b1 = true) (h2 : 128 ≤ b2.toNat) (h2' : b2.toNat ≤ 191) :
    decodeStep (b0 :: b1 :: b2 :: t) = (cp3 b0 b1 b2, 3) := by
  have a1 : ¬ b0 < 0x80 := not_lt_of_toNat (k := 0x80) (by decide) (by omega)
  have a2 : ¬ b0 < 0xC2 := not_lt_of_toNat (k := 0xC2) (by decide) (by omega)
  have a3 : ¬ b0 < 0xE0 := not_lt_of_toNat (k := 0xE0) (by decide) (by omega)
  have a4 : b0 < 0xF0 := lt_of_toNat (k := 0xF0) (by decide) h0'
  simp only [decodeStep, a1, a2, a3, a4, h1, isCont_of h2 h2', if_true, if_false]

theorem step4 (b0 b1 b2 b3 : Byte) (t : Bytes) (h0 : 240 ≤ b0.toNat) (h0' : b0.toNat < 245)
    (h1 : snd4 b0 b1 = true) (h2 : 128 ≤ b2.toNat) (h2' : b2.toNat ≤ 191)
    (h3 : 128 ≤ b3.toNat) (h3' : b3.toNat ≤ 191) :
    decodeStep (b0 :: b1 :: b2 :: b3 :: t) = (cp4 b0 b1 b2 b3, 4) := by
  have a1 : ¬ b0 < 0x80 := not_lt_of_toNat (k := 0x80) (by decide) (by omega)
  have a2 : ¬ b0 < 0xC2 := not_lt_of_toNat (k := 0xC2) (by decide) (by omega)
  have a3 : ¬ b0 < 0xE0 := not_lt_of_toNat (k := 0xE0) (by decide) (by omega)
  have a4 : ¬ b0 < 0xF0 := not_lt_of_toNat (k := 0xF0) (by decide) (by omega)
  have a5 : b0 < 0xF5 := lt_of_toNat (k := 0xF5) (by decide) h0'
  simp only [decodeStep, a1, a2, a3, a4, a5, h1, isCont_of h2 h2', isCont_of h3 h3', if_true,
    if_false]

/-! ## one character -/

theorem decodeStep_enc (c : Char) (t : Bytes) :
    decodeStep (String.utf8EncodeChar c ++ t) = (c, (String.utf8EncodeChar c).length) := by
  have hv := val_valid c
  have hc := ofNat_val c
  by_cases h1 : c.val.toNat ≤ 127
  · rw [enc1 c h1]
    have e0 := toNat_ofNat_lt c.val.toNat (by omega)
    simp only [List.cons_append, List.nil_append, List.length_cons, List.length_nil]
    rw [step1 _ _ (by omega), e0, hc]
  · by_cases h2 : c.val.toNat ≤ 2047
    · rw [enc2 c h1 h2]
      have e0 := toNat_ofNat_lt (c.val.toNat / 64 % 32 + 192) (by omega)
      have e1 := toNat_ofNat_lt (c.val.toNat % 64 + 128) (by omega)
      simp only [List.cons_append, List.nil_append, List.length_cons, List.length_nil]
      rw [step2 _ _ _ (by omega) (by omega) (by omega) (by omega)]
      have : cp2 (UInt8.ofNat (c.val.toNat / 64 % 32 + 192)) (UInt8.ofNat (c.val.toNat % 64 + 128))
          = c := by
        unfold cp2
        rw [e0, e1]
        have : (c.val.toNat / 64 % 32 + 192) % 32 * 64 + (c.val.toNat % 64 + 128) % 64
            = c.val.toNat := by omega
        rw [this, hc]
      rw [this]
    · by_cases h3 : c.val.toNat ≤ 65535
      · rw [enc3 c h1 h2 h3]
        have e0 := toNat_ofNat_lt (c.val.toNat / 4096 % 16 + 224) (by omega)
        have e1 := toNat_ofNat_lt (c.val.toNat / 64 % 64 + 128) (by omega)
        have e2 := toNat_ofNat_lt (c.val.toNat % 64 + 128) (by omega)
        simp only [List.cons_append, List.nil_append, List.length_cons, List.length_nil]
        rw [step3 _ _ _ _ (by omega) (by omega)
          (snd3_of (by omega) (by omega) (by omega) (by omega)) (by omega) (by omega)]
        have : cp3 (UInt8.ofNat (c.val.toNat / 4096 % 16 + 224))
            (UInt8.ofNat (c.val.toNat / 64 % 64 + 128)) (UInt8.ofNat (c.val.toNat % 64 + 128))
            = c := by
          unfold cp3
          rw [e0, e1, e2]
          have : (c.val.toNat / 4096 % 16 + 224) % 16 * 4096
              + (c.val.toNat / 64 % 64 + 128) % 64 * 64 + (c.val.toNat % 64 + 128) % 64
              = c.val.toNat := by omega
          rw [this, hc]
        rw [this]
      · rw [enc4 c h1 h2 h3]
        have e0 := toNat_ofNat_lt (c.val.toNat / 262144 % 8 + 240) (by omega)
        have e1 := toNat_ofNat_lt (c.val.toNat / 4096 % 64 + 128) (by omega)
        have e2 := toNat_ofNat_lt (c.val.toNat / 64 % 64 + 128) (by omega)
        have e3 := toNat_ofNat_lt (c.val.toNat % 64 + 128) (by omega)
        simp only [List.cons_append, List.nil_append, List.length_cons, List.length_nil]
        rw [step4 _ _ _ _ _ (by omega) (by omega)
          (snd4_of (by omega) (by omega) (by omega) (by omega)) (by omega) (by omega) (by omega)
          (by omega)]
        have : cp4 (UInt8.ofNat (c.val.toNat / 262144 % 8 + 240))
            (UInt8.ofNat (c.val.toNat / 4096 % 64 + 128))
            (UInt8.ofNat (c.val.toNat / 64 % 64 + 128)) (UInt8.ofNat (c.val.toNat % 64 + 128))
            = c := by
          unfold cp4
          rw [e0, e1, e2, e3]
          have : (c.val.toNat / 262144 % 8 + 240) % 8 * 262144
              + (c.val.toNat / 4096 % 64 + 128) % 64 * 4096
              + (c.val.toNat / 64 % 64 + 128) % 64 * 64 + (c.val.toNat % 64 + 128) % 64
              = c.val.toNat := by omega
          rw [this, hc]
        rw [this]

/-! ## whole strings -/

theorem decodeFuel_enc (s : List Char) : ∀ n, (enc s).length ≤ n → decodeFuel n (enc s) = s := by
  induction s with
  | nil => intro n _; cases n <;> rfl
  | cons c cs ih =>
    intro n hn
    rw [enc_cons] at hn ⊢
    have hne : String.utf8EncodeChar c ≠ [] := String.utf8EncodeChar_ne_nil
    have hstep := decodeStep_enc c (enc cs)
    cases he : String.utf8EncodeChar c with
    | nil => exact absurd he hne
    | cons b bs =>
      rw [he] at hn hstep
      simp only [List.cons_append, List.length_cons, List.length_append] at hn hstep
      cases n with
      | zero => omega
      | succ m =>
        simp only [List.cons_append, decodeFuel, hstep]
        have hd : List.drop (bs.length + 1) (b :: (bs ++ enc cs)) = enc cs := by
          simp only [List.drop_succ_cons, List.drop_left]
        rw [hd, ih m (by omega)]

theorem decodeReplace_enc (s : List Char) : decodeReplace (enc s) = s :=
  decodeFuel_enc s _ (Nat.le_refl _)

/-- byte 10 (LF) and byte 13 (CR) occur in an encoding only as the characters '\n' / '\r' -/
theorem utf8EncodeChar_lt_128 (c : Char) (b : UInt8) (hb : b ∈ String.utf8EncodeChar c)
    (h : b < 128) : String.utf8EncodeChar c = [b] ∧ c = Char.ofNat b.toNat := by
  have hc := ofNat_val c
  have hlt : b.toNat < 128 := by
    have := UInt8.lt_iff_toNat_lt.mp h
    exact this
  by_cases h1 : c.val.toNat ≤ 127
  · rw [enc1 c h1] at hb ⊢
    have e0 := toNat_ofNat_lt c.val.toNat (by omega)
    simp only [List.mem_cons, List.not_mem_nil, or_false] at hb
    subst hb
    rw [e0, hc]
    exact ⟨rfl, rfl⟩
  · exfalso
    by_cases h2 : c.val.toNat ≤ 2047
    · rw [enc2 c h1 h2] at hb
      have e0 := toNat_ofNat_lt (c.val.toNat / 64 % 32 + 192) (by omega)
      have e1 := toNat_ofNat_lt (c.val.toNat % 64 + 128) (by omega)
      simp only [List.mem_cons, List.not_mem_nil, or_false] at hb
      rcases hb with rfl | rfl <;> omega
    · by_cases h3 : c.val.toNat ≤ 65535
      · rw [enc3 c h1 h2 h3] at hb
        have e0 := toNat_ofNat_lt (c.val.toNat / 4096 % 16 + 224) (by omega)
        have e1 := toNat_ofNat_lt (c.val.toNat / 64 % 64 + 128) (by omega)
        have e2 := toNat_ofNat_lt (c.val.toNat % 64 + 128) (by omega)
        simp only [List.mem_cons, List.not_mem_nil, or_false] at hb
        rcases hb with rfl | rfl | rfl <;> omega
      · rw [enc4 c h1 h2 h3] at hb
        have e0 := toNat_ofNat_lt (c.val.toNat / 262144 % 8 + 240) (by omega)
        have e1 := toNat_ofNat_lt (c.val.toNat / 4096 % 64 + 128) (by omega)
        have e2 := toNat_ofNat_lt (c.val.toNat / 64 % 64 + 128) (by omega)
        have e3 := toNat_ofNat_lt (c.val.toNat % 64 + 128) (by omega)
        simp only [List.mem_cons, List.not_mem_nil, or_false] at hb
        rcases hb with rfl | rfl | rfl | rfl <;> omega

end EnvUtf8
