import TbotVerif.Props.PathMach
/-! C12 — simulation between the wrapper model (`TPath.run`) and the reference (`Ref.run`). -/

namespace PathM

/-- the wrapper state `p` and the reference state `st` describe the same path -/
structure Sim (specs : List MSpec) (p : TP) (st : Ref.St) : Prop where
  host : p.host = machOf (buildMachines specs []) st.host
  lt : st.host < specs.length
  path : p.path = st.path
  cons : st.path.Consistent

/-- relation between the optional "current path" of both sides -/
def CurRel (specs : List MSpec) (host : Nat) : Option TP → Option Ref.St → Prop
  | none, none => True
  | some p, some st => Sim specs p st ∧ st.host = host
  | _, _ => False

theorem guarded_ok {α : Type} (heq : Nat → Nat → Bool) (host : Nat) (cur : Option Ref.St)
    (args : List AArg) (f : List PArg → Except Exc α) :
    Ref.guarded heq host cur args f = (Ref.guarded heq host cur args Except.ok).bind f := by
  unfold Ref.guarded
  split <;> rfl

theorem any_congr_mem {α : Type} (l : List α) (f g : α → Bool) (h : ∀ a ∈ l, f a = g a) :
    l.any f = l.any g := by
  induction l with
  | nil => rfl
  | cons a t ih =>
    simp only [List.any_cons, h a (by simp), ih (fun x hx => h x (by simp [hx]))]

theorem except_map_bind {ε α β γ : Type} (x : Except ε α) (f : α → Except ε β) (g : β → γ) :
    (x.bind f).map g = x.bind (fun a => (f a).map g) := by
  cases x <;> rfl

/-- a step that only replaces the path -/
theorem upd_sim (p : TP) (st : Ref.St) (f : Except Exc PP) (g : Except Exc TP)
    (hg : g = f.map (lift p.host)) (hc : ∀ r, f = .ok r → r.Consistent) :
    g = ((do let r ← f; pure ({ st with path := r } : Ref.St)) : Except Exc Ref.St).map
          (fun st' => lift p.host st'.path) ∧
      ∀ st', ((do let r ← f; pure ({ st with path := r } : Ref.St)) : Except Exc Ref.St) = .ok st' →
        st'.host = st.host ∧ st'.path.Consistent := by
  subst hg
  cases f with
  | error e => exact ⟨rfl, fun st' h => by simp [bind, Except.bind] at h⟩
  | ok r =>
    refine ⟨rfl, fun st' h => ?_⟩
    simp only [bind, Except.bind, pure, Except.pure, Except.ok.injEq] at h
    subst h
    exact ⟨rfl, hc r rfl⟩

theorem guarded_consistent {heq : Nat → Nat → Bool} {host : Nat} {cur : Option Ref.St}
    {args : List AArg} {F : List PArg → Except Exc PP} (hF : ∀ a r, F a = .ok r → r.Consistent)
    (r : PP) (h : Ref.guarded heq host cur args F = .ok r) : r.Consistent := by
  unfold Ref.guarded at h
  split at h
  · simp at h
  · exact hF _ r h

section
variable (specs : List MSpec) (hwf : specsWf specs 0 = true)
include hwf

theorem arg_sim (host : Nat) (hh : host < specs.length) (curT : Option TP) (curS : Option Ref.St)
    (hcur : CurRel specs host curT curS) (a : AArg) (ha : argWf specs.length curS.isSome a = true) :
    TArg.foreign (machOf (buildMachines specs []) host) (TPath.evalArg (buildMachines specs []) curT a)
        = (match Ref.argHost curS a with
          | some h => !cloneEq specs h host
          | none => false) ∧
      (TPath.evalArg (buildMachines specs []) curT a).toPArg = Ref.argPure curS a := by
  cases a with
  | s x => exact ⟨rfl, rfl⟩
  | q segs => exact ⟨rfl, rfl⟩
  | bad => exact ⟨rfl, rfl⟩
  | t h segs =>
    simp only [argWf, decide_eq_true_eq] at ha
    refine ⟨?_, rfl⟩
    simp only [TPath.evalArg, TArg.foreign, Ref.argHost]
    rw [machEq_iff_cloneEq specs hwf h host ha hh]
  | self =>
    cases curT with
    | none =>
      cases curS with
      | none => simp [argWf] at ha
      | some st => exact absurd hcur (by simp [CurRel])
    | some p =>
      cases curS with
      | none => exact absurd hcur (by simp [CurRel])
      | some st =>
        obtain ⟨hs, rfl⟩ := hcur
        refine ⟨?_, ?_⟩
        · simp only [TPath.evalArg, TArg.foreign, Ref.argHost, Option.map_some]
          rw [hs.host, Mach.eq_refl, (cloneEq_equivalence specs).1]
        · simp [TPath.evalArg, TArg.toPArg, Ref.argPure, hs.path]

theorem args_sim (host : Nat) (hh : host < specs.length) (curT : Option TP) (curS : Option Ref.St)
    (hcur : CurRel specs host curT curS) (args : List AArg)
    (hargs : args.all (argWf specs.length curS.isSome) = true) :
    TP.prepareArgs (machOf (buildMachines specs []) host)
        (args.map (TPath.evalArg (buildMachines specs []) curT))
      = Ref.guarded (cloneEq specs) host curS args Except.ok := by
  have hany : (args.map (TPath.evalArg (buildMachines specs []) curT)).any
        (TArg.foreign (machOf (buildMachines specs []) host))
      = Ref.foreign (cloneEq specs) host curS args := by
    unfold Ref.foreign
    rw [List.any_map]
    apply any_congr_mem
    intro a ha
    exact (arg_sim specs hwf host hh curT curS hcur a (List.all_eq_true.mp hargs a ha)).1
  have hmap : (args.map (TPath.evalArg (buildMachines specs []) curT)).map TArg.toPArg
      = args.map (Ref.argPure curS) := by
    rw [List.map_map]
    apply List.map_congr_left
    intro a ha
    exact (arg_sim specs hwf host hh curT curS hcur a (List.all_eq_true.mp hargs a ha)).2
  rw [prepareArgs_eq, hany, hmap]
  rfl


/-- an operation with arguments: host check through `_prepare_args_list` = the host rule -/
theorem guarded_sim (p : TP) (st : Ref.St) (hs : Sim specs p st) (args : List AArg)
    (hargs : args.all (argWf specs.length true) = true) (F : List PArg → Except Exc PP) :
    (TP.prepareArgs p.host (args.map (TPath.evalArg (buildMachines specs []) (some p)))).bind
        (fun a => (F a).map (lift p.host))
      = (Ref.guarded (cloneEq specs) st.host (some st) args F).map (lift p.host) := by
  rw [hs.host, args_sim specs hwf st.host hs.lt (some p) (some st) ⟨hs, rfl⟩ args hargs,
    guarded_ok (cloneEq specs) st.host (some st) args F, except_map_bind]

theorem op_sim (p : TP) (st : Ref.St) (hs : Sim specs p st) (o : POp)
    (ho : opWf specs.length o = true) (hq : opQuirk st.path o = false) :
    TPath.applyOp (buildMachines specs []) p o
        = (Ref.applyOp (cloneEq specs) st o).map (fun st' => lift p.host st'.path) ∧
      ∀ st', Ref.applyOp (cloneEq specs) st o = .ok st' →
        st'.host = st.host ∧ st'.path.Consistent := by
  have hpc : p.path.Consistent := by rw [hs.path]; exact hs.cons
  cases o with
  | parent =>
    exact upd_sim p st (.ok st.path.parent) _ (by rw [← hs.path]; exact tp_parent p hpc)
      (fun r hr => by cases hr; exact parent_consistent hs.cons)
  | par i =>
    exact upd_sim p st (st.path.parentsGet i) _ (by rw [← hs.path]; exact tp_parentsGet p hpc i)
      (fun r hr => parentsGet_consistent hs.cons hr)
  | withName s =>
    exact upd_sim p st (st.path.withName s) _ (by rw [← hs.path]; exact tp_withName p hpc s)
      (fun r hr => withName_consistent hs.cons hr)
  | withStem s =>
    exact upd_sim p st (st.path.withStem s) _ (by rw [← hs.path]; exact tp_withStem p hpc s)
      (fun r hr => withName_consistent hs.cons hr)
  | withSuffix s =>
    have hq' : ¬ (s = [] ∧ PP.stemOf st.path.name = ['.']) := by
      simp only [opQuirk, Bool.and_eq_false_iff, List.isEmpty_eq_false_iff, beq_eq_false_iff_ne,
        ne_eq] at hq
      rintro ⟨h1, h2⟩
      rcases hq with h | h
      · exact h h1
      · exact h h2
    exact upd_sim p st (st.path.withSuffix s) _
      (by rw [← hs.path]; exact tp_withSuffix p hpc s (by rw [hs.path]; exact hq'))
      (fun r hr => withSuffix_consistent hs.cons hq' hr)
  | joinpath args =>
    simp only [opWf] at ho
    exact upd_sim p st (Ref.guarded (cloneEq specs) st.host (some st) args st.path.joinpath) _
      (by
        show p.joinpath _ = _
        rw [tp_joinpath, hs.path]
        exact guarded_sim specs hwf p st hs args ho st.path.joinpath)
      (guarded_consistent fun a r h => new_consistent h)
  | div a =>
    simp only [opWf] at ho
    exact upd_sim p st (Ref.guarded (cloneEq specs) st.host (some st) [a] st.path.joinpath) _
      (by
        show p.joinpath [_] = _
        rw [tp_joinpath, hs.path]
        exact guarded_sim specs hwf p st hs [a] (by simp [ho]) st.path.joinpath)
      (guarded_consistent fun a r h => new_consistent h)
  | rdiv a =>
    simp only [opWf] at ho
    have key := guarded_sim specs hwf p st hs [a] (by simp [ho])
      (fun l => PP.new (l ++ [.p st.path]))
    refine upd_sim p st (Ref.guarded (cloneEq specs) st.host (some st) [a]
        (fun l => PP.new (l ++ [.p st.path]))) _ ?_
      (guarded_consistent fun a r h => new_consistent h)
    rw [← key]
    show TP.new p.host [TPath.evalArg (buildMachines specs []) (some p) a, .q p.path] = _
    rw [tp_new, prepareArgs_eq, prepareArgs_eq]
    have h2 : TArg.foreign p.host (.q p.path) = false := rfl
    simp only [List.map_cons, List.map_nil, List.any_cons, List.any_nil, h2, Bool.or_false]
    split
    · rfl
    · simp [Except.bind, TArg.toPArg, hs.path]
  | relativeTo args =>
    simp only [opWf] at ho
    exact upd_sim p st (Ref.guarded (cloneEq specs) st.host (some st) args st.path.relativeTo) _
      (by
        show p.relativeTo _ = _
        rw [tp_relativeTo, hs.path]
        exact guarded_sim specs hwf p st hs args ho st.path.relativeTo)
      (guarded_consistent fun a r h => relativeTo_consistent h)


omit hwf in
theorem sim_step (p : TP) (st st' : Ref.St) (hs : Sim specs p st) (hh : st'.host = st.host)
    (hc : st'.path.Consistent) : Sim specs (lift p.host st'.path) st' :=
  ⟨by rw [hh]; exact hs.host, by rw [hh]; exact hs.lt, rfl, hc⟩

theorem chain_sim : ∀ (ops : List POp) (p : TP) (st : Ref.St) (_ : Sim specs p st) (k : Nat),
    ops.all (opWf specs.length) = true → chainQuirkFree (cloneEq specs) st ops = true →
    (∃ e, TPath.runChain (buildMachines specs []) p ops k = .error e ∧
        Ref.runChain (cloneEq specs) st ops k = .error e) ∨
    (∃ p' st', TPath.runChain (buildMachines specs []) p ops k = .ok p' ∧
        Ref.runChain (cloneEq specs) st ops k = .ok st' ∧ Sim specs p' st')
  | [], p, st, hs, k, _, _ => Or.inr ⟨p, st, rfl, rfl, hs⟩
  | o :: t, p, st, hs, k, hw, hq => by
    simp only [List.all_cons, Bool.and_eq_true] at hw
    simp only [chainQuirkFree, Bool.and_eq_true, Bool.not_eq_eq_eq_not, Bool.not_true] at hq
    obtain ⟨h1, h2⟩ := op_sim specs hwf p st hs o hw.1 hq.1
    unfold TPath.runChain Ref.runChain
    rw [h1]
    cases hr : Ref.applyOp (cloneEq specs) st o with
    | error e => exact Or.inl ⟨(k, e), rfl, rfl⟩
    | ok st' =>
      obtain ⟨hh, hc⟩ := h2 st' hr
      have hq2 := hq.2
      rw [hr] at hq2
      exact chain_sim t _ st' (sim_step specs p st st' hs hh hc) (k + 1) hw.2 hq2

/-- related optional paths (comparison operand, `Background` files) -/
def ORel (specs : List MSpec) : Option TP → Option Ref.St → Prop
  | none, none => True
  | some q, some o => q.host = machOf (buildMachines specs []) o.host ∧ o.host < specs.length ∧
      q.path = o.path
  | _, _ => False

omit hwf in
theorem argPath_sim (p : TP) (st : Ref.St) (hs : Sim specs p st) (a : AArg)
    (ha : argWf specs.length true a = true) :
    ORel specs (TPath.argPath (buildMachines specs []) p a) (Ref.argSt st a) := by
  cases a with
  | s x => trivial
  | q segs => trivial
  | bad => trivial
  | t h segs =>
    simp only [argWf, decide_eq_true_eq] at ha
    exact ⟨rfl, ha, rfl⟩
  | self => exact ⟨hs.host, hs.lt, hs.path⟩

theorem strAt_sim (q : TP) (o : Ref.St) (hr : ORel specs (some q) (some o)) (h : Nat)
    (hh : h < specs.length) :
    q.atHost (machOf (buildMachines specs []) h) = Ref.strAt (cloneEq specs) o h := by
  obtain ⟨h1, h2, h3⟩ := hr
  rw [atHost_eq, h1, machEq_iff_cloneEq specs hwf o.host h h2 hh, h3]
  rfl

theorem background_sim (ot et : Option TP) (os es : Option Ref.St) (ho : ORel specs ot os)
    (he : ORel specs et es) (h : Nat) (hh : h < specs.length) :
    TP.background ot et (machOf (buildMachines specs []) h)
      = Ref.background (cloneEq specs) os es h := by
  cases ot with
  | none =>
    cases os with
    | some o => exact absurd ho (by simp [ORel])
    | none =>
      cases et with
      | none =>
        cases es with
        | some e => exact absurd he (by simp [ORel])
        | none => rfl
      | some e' =>
        cases es with
        | none => exact absurd he (by simp [ORel])
        | some e =>
          simp only [TP.background, Ref.background, strAt_sim specs hwf e' e he h hh]
  | some o' =>
    cases os with
    | none => exact absurd ho (by simp [ORel])
    | some o =>
      cases et with
      | none =>
        cases es with
        | some e => exact absurd he (by simp [ORel])
        | none => simp only [TP.background, Ref.background, strAt_sim specs hwf o' o ho h hh]
      | some e' =>
        cases es with
        | none => exact absurd he (by simp [ORel])
        | some e =>
          have so := strAt_sim specs hwf o' o ho h hh
          have se := strAt_sim specs hwf e' e he h hh
          obtain ⟨ho1, ho2, ho3⟩ := ho
          obtain ⟨he1, he2, he3⟩ := he
          have heq_oe : o'.eq e' = (cloneEq specs o.host e.host && o.path.str == e.path.str) := by
            simp only [TP.eq, PP.eq]
            rw [ho1, he1, machEq_iff_cloneEq specs hwf o.host e.host ho2 he2, ho3, he3]
          simp only [TP.background, Ref.background, so, se, heq_oe]
          obtain ⟨_, hsymm, htrans⟩ := cloneEq_equivalence specs
          cases hco : cloneEq specs o.host h with
          | false => simp [Ref.strAt, hco, bind, Except.bind]
          | true =>
            cases hce : cloneEq specs e.host h with
            | false =>
              have : cloneEq specs o.host e.host = false := by
                cases hoe : cloneEq specs o.host e.host with
                | false => rfl
                | true =>
                  have := htrans e.host o.host h (by rw [hsymm]; exact hoe) hco
                  rw [hce] at this
                  exact absurd this (by simp)
              simp [Ref.strAt, hco, hce, this, bind, Except.bind]
            | true =>
              have : cloneEq specs o.host e.host = true :=
                htrans o.host h e.host hco (by rw [hsymm]; exact hce)
              simp only [Ref.strAt, hco, hce, this, Bool.true_and, ↓reduceIte, bind, Except.bind,
                pure, Except.pure]

theorem query_sim (p : TP) (st : Ref.St) (hs : Sim specs p st) (q : Query)
    (hq : queryWf specs.length q = true) (hquirk : queryQuirkFree st q = true) :
    TPath.query (buildMachines specs []) p q = Ref.query (cloneEq specs) st q := by
  have hpc : p.path.Consistent := by rw [hs.path]; exact hs.cons
  have hid : p.host.id = st.host := by rw [hs.host]; exact machOf_id specs hwf st.host hs.lt
  have hself : ORel specs (some p) (some st) := ⟨hs.host, hs.lt, hs.path⟩
  cases q with
  | str =>
    simp [TPath.query, Ref.query, atHost_eq, Mach.eq_refl, hs.path, bind, Except.bind, pure,
      Except.pure]
  | parts => simp [TPath.query, Ref.query, TP.parts, hs.path]
  | name => simp [TPath.query, Ref.query, TP.name, hs.path]
  | suffix => simp [TPath.query, Ref.query, TP.suffix, hs.path]
  | suffixes => simp [TPath.query, Ref.query, TP.suffixes, hs.path]
  | stem => simp [TPath.query, Ref.query, TP.stem, hs.path]
  | isAbs => simp [TPath.query, Ref.query, TP.isAbsolute, hs.path]
  | plen => simp [TPath.query, Ref.query, TP.parentsLen, hs.path]
  | plist =>
    simp only [TPath.query, Ref.query, tp_parentsList p hpc, hs.path]
    cases st.path.parentsList with
    | error e => rfl
    | ok l =>
      simp [Except.map, bind, Except.bind, pure, Except.pure, TPath.valsOf, Ref.valsOf, hid,
        Function.comp_def]
  | pslice a b =>
    simp only [TPath.query, Ref.query, tp_parentsSlice p hpc, hs.path]
    cases st.path.parentsSlice a b with
    | error e => rfl
    | ok l =>
      simp [Except.map, bind, Except.bind, pure, Except.pure, TPath.valsOf, Ref.valsOf, hid,
        Function.comp_def]
  | op o =>
    simp only [queryWf] at hq
    simp only [queryQuirkFree, Bool.not_eq_eq_eq_not, Bool.not_true] at hquirk
    obtain ⟨h1, h2⟩ := op_sim specs hwf p st hs o hq hquirk
    simp only [TPath.query, Ref.query, h1]
    cases hr : Ref.applyOp (cloneEq specs) st o with
    | error e => rfl
    | ok st' =>
      simp [Except.map, bind, Except.bind, pure, Except.pure, TPath.valOf, Ref.valOf, hid,
        (h2 st' hr).1]
  | isRel args =>
    simp only [queryWf] at hq
    simp only [TPath.query, Ref.query, tp_isRelativeTo]
    rw [hs.host, args_sim specs hwf st.host hs.lt (some p) (some st) ⟨hs, rfl⟩ args hq,
      guarded_ok (cloneEq specs) st.host (some st) args st.path.isRelativeTo, hs.path]
  | «match» pat => simp [TPath.query, Ref.query, TP.match, hs.path]
  | cmp a =>
    simp only [queryWf] at hq
    have hrel := argPath_sim specs p st hs a hq
    simp only [TPath.query, Ref.query]
    cases hq' : TPath.argPath (buildMachines specs []) p a with
    | none =>
      cases ho : Ref.argSt st a with
      | none => rfl
      | some o => rw [hq', ho] at hrel; exact absurd hrel (by simp [ORel])
    | some q' =>
      cases ho : Ref.argSt st a with
      | none => rw [hq', ho] at hrel; exact absurd hrel (by simp [ORel])
      | some o =>
        rw [hq', ho] at hrel
        obtain ⟨r1, r2, r3⟩ := hrel
        have heq' : p.eq q' = (cloneEq specs st.host o.host && st.path.eq o.path) := by
          simp only [TP.eq]
          rw [hs.host, r1, machEq_iff_cloneEq specs hwf st.host o.host hs.lt r2, hs.path, r3]
        have hhash : (!(p.eq q') || TPath.hashKey p == TPath.hashKey q') = true := by
          cases he : p.eq q' with
          | false => rfl
          | true => simp [tp_eq_hash p q' he]
        simp only [hhash]
        simp only [heq', TP.cmp, hs.path, r3, pure, Except.pure]
  | atHost h =>
    simp only [queryWf, decide_eq_true_eq] at hq
    simp only [TPath.query, Ref.query, strAt_sim specs hwf p st hself h hq]
  | escape h =>
    simp only [queryWf, decide_eq_true_eq] at hq
    simp only [TPath.query, Ref.query, TP.escape, strAt_sim specs hwf p st hself h hq]
    cases Ref.strAt (cloneEq specs) st h <;> rfl
  | redir k h =>
    simp only [queryWf, decide_eq_true_eq] at hq
    simp only [TPath.query, Ref.query]
    cases redirToken k with
    | none => rfl
    | some tb =>
      obtain ⟨tok, both⟩ := tb
      simp only [TP.redir, strAt_sim specs hwf p st hself h hq]
      cases Ref.strAt (cloneEq specs) st h <;> rfl
  | bg h out err =>
    simp only [queryWf, Bool.and_eq_true, decide_eq_true_eq] at hq
    obtain ⟨⟨hh, hout⟩, herr⟩ := hq
    have ho : ORel specs (out.bind (TPath.argPath (buildMachines specs []) p))
        (out.bind (Ref.argSt st)) := by
      cases out with
      | none => trivial
      | some a =>
        simp only [Option.all_some, Bool.and_eq_true] at hout
        exact argPath_sim specs p st hs a hout.1
    have he : ORel specs (err.bind (TPath.argPath (buildMachines specs []) p))
        (err.bind (Ref.argSt st)) := by
      cases err with
      | none => trivial
      | some a =>
        simp only [Option.all_some, Bool.and_eq_true] at herr
        exact argPath_sim specs p st hs a herr.1
    simp only [TPath.query, Ref.query, background_sim specs hwf _ _ _ _ ho he h hh]
  | auth h =>
    simp only [TPath.query, Ref.query, TP.authKey]
    cases h with
    | none =>
      simp [atHost_eq, Mach.eq_refl, Ref.strAt, (cloneEq_equivalence specs).1, hs.path, bind,
        Except.bind, pure, Except.pure]
    | some h =>
      simp only [queryWf, Option.all_some, decide_eq_true_eq] at hq
      simp only [Option.map_some, Option.getD_some, strAt_sim specs hwf p st hself h hq]

end

end PathM
