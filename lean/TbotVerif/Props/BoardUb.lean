import TbotVerif.Props.BoardLnx
/-! C18 — the U-Boot stage (`UBootAutobootIntercept`, `UBootShell`, `UBootShell.boot`) against the
    monitor. -/

namespace Board
open Chan Spec C06

/-- one poll of the U-Boot prompt loop: the read time-out plus the sleep -/
def poll : Nat := Params.ubootPollRead + Params.ubootPollSleep

theorem poll_pos : 1 ≤ poll := by decide

/-- the U-Boot stage; `sts` are the attached streams -/
structure UCtx (c : Board.Case) (u : UbCfg) (start : Nat) (sts : List Nat) (b : BS) (m : Mon) : Prop where
  inv : Inv c b m
  cfg : c.ub = some u
  streams : b.st.streams = sts
  mstart : m.start = start
  lastT : m.lastT = b.st.now
  lnxSet : m.lnxSet = false
  lnxLog : b.lnxLog = none
  ge : start ≤ b.st.now

theorem ubT_eq {c : Board.Case} {u : UbCfg} (h : c.ub = some u) : ubT c = u.timeout := by
  simp [ubT, h]

/-- failure in the U-Boot stage, stream attached; `set` tells whether `bootlog` will be set -/
structure UFail (c : Board.Case) (b : BS) (m : Mon) (e : Exc) : Prop where
  inv : Inv c b m
  streams : b.st.streams = [1]
  lnxSet : m.lnxSet = false
  lnxLog : b.lnxLog = none
  acc : accept c m b.st.now (some e) = true

theorem UCtx.fail {c : Board.Case} {u : UbCfg} {start : Nat} {b : BS} {m : Mon} (h : UCtx c u start [1] b m) {e : Exc}
    (ha : accept c m b.st.now (some e) = true) : UFail c b m e :=
  ⟨h.inv, h.streams, h.lnxSet, h.lnxLog, ha⟩

theorem streamOff_inv' (c : Board.Case) (id : Nat) (b : BS) (m : Mon) (h : Inv c b m) :
    Inv c (streamOff id b) m := streamOff_inv c id b m h

/-- the autoboot intercept fails: the startup event is never closed, `bootlog` stays unset -/
theorem UFail.finalAuto {c : Board.Case} {b : BS} {m : Mon} {e : Exc} (h : UFail c b m e)
    (hset : m.ubSet = false) (hlog : b.ubLog = none) : Final c (streamOff 1 b) m (some e) :=
  { mon := h.inv.mon, acc := h.acc
    ublog := by rw [hset]; exact hlog
    lnxlog := by rw [h.lnxSet]; exact h.lnxLog }

/-- the prompt loop fails: the startup event is closed, `bootlog` is what was read -/
theorem UFail.finalShell {c : Board.Case} {b : BS} {m : Mon} {e : Exc} (h : UFail c b m e)
    (hset : m.ubSet = true) : Final c (closeUb (streamOff 1 b)) m (some e) :=
  { mon := h.inv.mon, acc := h.acc
    ublog := by
      rw [hset]
      show some (logOf 1 (streamOff 1 b).st.fwd) = some m.ulog
      rw [(streamOff_inv c 1 b m h.inv).ulog]
    lnxlog := by rw [h.lnxSet]; exact h.lnxLog }

/-- a `read_until_prompt` in a waiting phase of the U-Boot stage -/
theorem ub_rup (c : Board.Case) (u : UbCfg) (start : Nat) (b : BS) (m : Mon) (h : UCtx c u start [1] b m)
    (hf : Fresh b m) (p : Option Pat) (t : Option Nat) (P : Pat) (hP : effPrompt p b.st.prompt = some P)
    (hread : reading m.ph = true) (hlog : logId m.ph = 1)
    (haw : awaited c m.ph = fun buf => (promptEnd P buf).isSome) :
    ∃ m', UCtx c u start [1] (rd (readUntilPrompt p t) b).2 m'
      ∧ WaitSim b m t (errOf (rd (readUntilPrompt p t) b).1) (rd (readUntilPrompt p t) b).2 m' := by
  have hst : b.st.streams = streamsOf m.ph := by rw [h.streams]; simp [streamsOf, hlog]
  obtain ⟨m', hinv', hw⟩ := sim_rup c b m h.inv p t P hP hread haw h.lastT hst hf.acc hf.hit
  refine ⟨m', ⟨hinv', h.cfg, ?_, ?_, hw.sim.lastT, ?_, ?_, Nat.le_trans h.ge hw.sim.mono⟩, hw⟩
  · rw [hw.sim.streams]; exact h.streams
  · rw [hw.sim.start]; exact h.mstart
  · rw [hw.sim.lnxSet]; exact h.lnxSet
  · rw [hw.sim.lnxLog]; exact h.lnxLog

/-! ### the autoboot intercept -/

/-- the keys fit one send slice (well-formedness of the configuration) -/
structure UbOk (u : UbCfg) : Prop where
  keysNe : u.keys ≠ []
  keysLen : u.keys.length ≤ Params.sendSliceSize

theorem step_keys (c : Board.Case) (u : UbCfg) (m : Mon) (t : Nat) (hcfg : c.ub = some u) (hph : m.ph = .ubAuto)
    (hh : m.hit = some t) (hw : within u.timeout m.start t = true) :
    step c m (.wr t u.keys) = some { wait .ubLoop t t m with ubSet := true } := by
  simp [step, hph, hcfg, hh, hw]

/-- `UBootAutobootIntercept._init_machine`, at the very beginning of the U-Boot stage -/
theorem ubAutoboot_sim (c : Board.Case) (u : UbCfg) (b : BS) (m : Mon) (h : UCtx c u b.st.now [] b m)
    (hok : UbOk u) (hf : Fresh b m) (hph : m.ph = .ubAuto) (p : Pat) (hauto : u.autoboot = some p)
    (hset : m.ubSet = false) (hlog : b.ubLog = none) :
    match ubAutoboot u p b.st.now b with
    | (.ok _, b') => ∃ m', UCtx c u b.st.now [] b' m' ∧ Fresh b' m' ∧ m'.ph = .ubLoop ∧ m'.ubSet = true
        ∧ b'.ubLog = none ∧ within u.timeout b.st.now b'.st.now = true ∧ b'.st.prompt = b.st.prompt
    | (.error e, b') => ∃ m', Final c b' m' (some e) := by
  unfold ubAutoboot
  simp only
  have hc : UCtx c u b.st.now [1] (streamOn 1 b) m :=
    { inv := streamOn_inv c 1 b m h.inv, cfg := h.cfg
      streams := by show b.st.streams ++ [1] = [1]; rw [h.streams]; rfl
      mstart := h.mstart, lastT := h.lastT, lnxSet := h.lnxSet, lnxLog := h.lnxLog, ge := h.ge }
  have hf0 : Fresh (streamOn 1 b) m := ⟨hf.acc, hf.hit, hf.t0⟩
  have hnow0 : (streamOn 1 b).st.now = b.st.now := rfl
  have htmo : (u.timeout.map fun T => T - ((streamOn 1 b).st.now - b.st.now)) = u.timeout := by
    rw [hnow0, Nat.sub_self]
    cases u.timeout <;> simp
  rw [htmo]
  have haw : awaited c m.ph = fun buf => (promptEnd (anchor p) buf).isSome := by
    rw [hph]; funext buf; simp [awaited, h.cfg, hauto]
  obtain ⟨m1, hc1, hw⟩ := ub_rup c u b.st.now (streamOn 1 b) m hc hf0 (some p) u.timeout (anchor p) rfl
    (by rw [hph]; rfl) (by rw [hph]; rfl) haw
  have hdl1 : within u.timeout b.st.now (rd (readUntilPrompt (some p) u.timeout) (streamOn 1 b)).2.st.now = true := by
    refine within_of_dead fun T' hT => ?_
    have := hw.dead T' hT
    rw [hnow0] at this
    exact this
  have hul1 : (rd (readUntilPrompt (some p) u.timeout) (streamOn 1 b)).2.ubLog = none := by
    rw [hw.sim.ubLog]; exact hlog
  have hpr1 : (rd (readUntilPrompt (some p) u.timeout) (streamOn 1 b)).2.st.prompt = b.st.prompt := hw.sim.prompt
  generalize rd (readUntilPrompt (some p) u.timeout) (streamOn 1 b) = out at hc1 hw hdl1 hul1 hpr1
  obtain ⟨r, b1⟩ := out
  have hph1 : m1.ph = .ubAuto := by rw [hw.sim.ph]; exact hph
  have hset1 : m1.ubSet = false := by rw [hw.sim.ubSet]; exact hset
  cases r with
  | error e =>
    dsimp only
    refine ⟨m1, (hc1.fail ?_).finalAuto hset1 hul1⟩
    obtain ⟨hhit, hk⟩ := hw.bad e rfl
    rcases hk with ⟨rfl, T, hT, _⟩ | ⟨rfl, hT⟩
    · simp only [accept, hph1, ubT_eq h.cfg, hT, hhit, hc1.mstart]
      rw [hT] at hdl1
      simp [hdl1]
    · simp [accept, hph1, ubT_eq h.cfg, hT, hhit, hc1.lastT]
  | ok v =>
    dsimp only
    have hhit := hw.ok rfl
    have hc1 : UCtx c u b.st.now [1] b1 m1 := hc1
    have hdl1 : within u.timeout b.st.now b1.st.now = true := hdl1
    have hul1 : b1.ubLog = none := hul1
    have hpr1 : b1.st.prompt = b.st.prompt := hpr1
    have hop : send u.keys false none true { b1.st with writes := [] }
        = (.ok (), { b1.st with writes := [(u.keys, u.keys.length)] }) :=
      send_one u.keys true { b1.st with writes := [] } hok.keysNe
        (by rw [show ({ b1.st with writes := [] } : St).slice = b1.st.slice from rfl, hc1.inv.slice]; exact hok.keysLen)
        hc1.inv.accept hc1.inv.slow (Or.inl rfl)
    obtain ⟨hok2, hinv2, hsim2⟩ := sim_wr c b1 m1 hc1.inv _ _ hop _
      (step_keys c u m1 _ h.cfg hph1 hhit (by rw [hc1.mstart]; exact hdl1)) rfl rfl
    generalize wr (send u.keys false none true) b1 = out at hok2 hinv2 hsim2
    obtain ⟨r2, b2⟩ := out
    simp only at hok2 hinv2 hsim2
    subst hok2
    dsimp only
    refine ⟨_, ⟨streamOff_inv c 1 b2 _ hinv2, h.cfg, ?_, hc1.mstart, ?_, hc1.lnxSet, ?_, ?_⟩, ⟨rfl, rfl, ?_⟩, rfl, rfl, ?_, ?_, ?_⟩
    · rw [streamOff_streams 1 b2 hinv2.calm.lp, hsim2.streams, hc1.streams]; rfl
    · show b1.st.now = (streamOff 1 b2).st.now
      rw [streamOff_now, hsim2.now]
    · show (streamOff 1 b2).lnxLog = none
      show b2.lnxLog = none
      rw [hsim2.lnxLog]; exact hc1.lnxLog
    · rw [streamOff_now, hsim2.now]; exact hc1.ge
    · show b1.st.now = (streamOff 1 b2).st.now
      rw [streamOff_now, hsim2.now]
    · show b2.ubLog = none
      rw [hsim2.ubLog]; exact hul1
    · rw [streamOff_now, hsim2.now]; exact hdl1
    · rw [streamOff_prompt, hsim2.prompt]; exact hpr1


/-! ### the prompt loop -/

theorem exceeds_true {x : Nat} {T : Option Nat} (h : exceeds x T = true) : ∃ T', T = some T' ∧ T' < x := by
  cases T with
  | none => simp [exceeds] at h
  | some T' => exact ⟨T', rfl, by simpa [exceeds] using h⟩

theorem exceeds_false {x : Nat} {T : Option Nat} (h : exceeds x T = false) : ∀ T', T = some T' → x ≤ T' := by
  intro T' hT
  subst hT
  simpa [exceeds] using h

theorem sleep_inv (c : Board.Case) (n : Nat) (b : BS) (m : Mon) (h : Inv c b m) : Inv c (sleep n b) m :=
  { mon := h.mon, calm := ⟨h.calm.wf, h.calm.chunk, h.calm.deaths, h.calm.lp⟩, accept := h.accept, slow := h.slow,
    slice := h.slice, con := h.con, ulog := h.ulog, llog := h.llog }

theorem step_intr (c : Board.Case) (u : UbCfg) (m : Mon) (t : Nat) (hcfg : c.ub = some u) (hph : m.ph = .ubLoop)
    (hh : m.hit = none) (ht : t = m.t0 + Params.ubootPollRead)
    (hw : within u.timeout m.start m.t0 = true) :
    step c m (.wr t [3]) = some (wait .ubLoop (t + Params.ubootPollSleep) (t + Params.ubootPollSleep) m) := by
  subst ht
  simp [step, hph, hcfg, hh, hw]

/-- the `while True` loop of `UBootShell._init_shell` -/
theorem ubLoop_sim (c : Board.Case) (u : UbCfg) (start : Nat) (hcap : ∀ T', u.timeout = some T' → start + T' + poll ≤ c.cap) :
    ∀ (f : Nat) (b : BS) (m : Mon),
    UCtx c u start [1] b m → Fresh b m → m.ph = .ubLoop → m.ubSet = true →
    b.st.prompt = some (.lit u.prompt) →
    (∀ T', u.timeout = some T' → b.st.now ≤ start + T' + poll) →
    1 ≤ f → c.cap + 2 ≤ f + b.st.now →
    match ubLoop u.timeout start c.cap f b with
    | (.ok _, b') => ∃ m', UCtx c u start [1] b' m' ∧ m'.ph = .ubLoop ∧ m'.ubSet = true ∧ m'.hit = some b'.st.now
        ∧ within u.timeout start (b'.st.now - Params.ubootPollRead) = true ∧ b'.st.blacklist = b.st.blacklist
    | (.error e, b') => ∃ m', UFail c b' m' e ∧ m'.ubSet = true := by
  intro f
  induction f with
  | zero => intro b m _ _ _ _ _ _ h1; omega
  | succ f ih =>
    intro b m h hf hph hset hpr hd _ hfuel
    unfold ubLoop
    cases hex : exceeds (b.st.now - start) u.timeout with
    | true =>
      simp only [if_true]
      obtain ⟨T', hT, hlt⟩ := exceeds_true hex
      refine ⟨m, h.fail ?_, hset⟩
      have := hd T' hT
      simp only [accept, hph, ubT_eq h.cfg, hT, hf.hit, hf.t0, h.mstart, within, poll] at this ⊢
      simp
      omega
    | false =>
      simp only [Bool.false_eq_true, if_false]
      have hle := exceeds_false hex
      have haw : awaited c m.ph = fun buf => (promptEnd (.lit u.prompt) buf).isSome := by
        rw [hph]; funext buf; simp [awaited, h.cfg]
      obtain ⟨m1, hc1, hw⟩ := ub_rup c u start b m h hf none (some Params.ubootPollRead) (.lit u.prompt) hpr
        (by rw [hph]; rfl) (by rw [hph]; rfl) haw
      have hpr1 : (rd (readUntilPrompt none (some Params.ubootPollRead)) b).2.st.prompt = b.st.prompt := hw.sim.prompt
      have hbl1 : (rd (readUntilPrompt none (some Params.ubootPollRead)) b).2.st.blacklist = b.st.blacklist := hw.sim.blacklist
      generalize rd (readUntilPrompt none (some Params.ubootPollRead)) b = out at hc1 hw hpr1 hbl1
      obtain ⟨r, b1⟩ := out
      have hbl1 : b1.st.blacklist = b.st.blacklist := hbl1
      have hph1 : m1.ph = .ubLoop := by rw [hw.sim.ph]; exact hph
      have hset1 : m1.ubSet = true := by rw [hw.sim.ubSet]; exact hset
      have hc1 : UCtx c u start [1] b1 m1 := hc1
      have hpr1 : b1.st.prompt = b.st.prompt := hpr1
      have hdead : b1.st.now ≤ b.st.now + Params.ubootPollRead := hw.dead _ rfl
      have hge := h.ge
      cases r with
      | ok v =>
        dsimp only
        refine ⟨m1, hc1, hph1, hset1, hw.ok rfl, within_of_dead fun T' hT => ?_, hbl1⟩
        have := hle T' hT
        omega
      | error e =>
        obtain ⟨hhit, hk⟩ := hw.bad e rfl
        rcases hk with ⟨rfl, T, hT, hnow⟩ | ⟨rfl, hT⟩
        · simp only [Option.some.injEq] at hT
          subst hT
          have hnow : b1.st.now = b.st.now + Params.ubootPollRead := hnow
          dsimp only
          have hop : sendcontrol 3 { b1.st with writes := [] } = (.ok (), { b1.st with writes := [([3], [3].length)] }) :=
            sendcontrol_one { b1.st with writes := [] } hc1.inv.accept hc1.inv.slow
          have ht0 : m1.t0 = b.st.now := by rw [hw.sim.t0]; exact hf.t0
          obtain ⟨hok2, hinv2, hsim2⟩ := sim_wr c b1 m1 hc1.inv _ _ hop _
            (step_intr c u m1 _ h.cfg hph1 hhit (by rw [ht0]; exact hnow)
              (by rw [ht0, hc1.mstart]; exact within_of_dead fun T' hT => by have := hle T' hT; omega)) rfl rfl
          generalize wr (sendcontrol 3) b1 = out at hok2 hinv2 hsim2
          obtain ⟨r2, b2⟩ := out
          simp only at hok2 hinv2 hsim2
          subst hok2
          dsimp only
          have hnow3 : (sleep Params.ubootPollSleep b2).st.now = b.st.now + poll := by
            show b2.st.now + Params.ubootPollSleep = _
            rw [hsim2.now, hnow]; unfold poll; omega
          have hc3 : UCtx c u start [1] (sleep Params.ubootPollSleep b2)
              (wait .ubLoop (b1.st.now + Params.ubootPollSleep) (b1.st.now + Params.ubootPollSleep) m1) :=
            { inv := sleep_inv c _ b2 _ hinv2, cfg := h.cfg
              streams := by show b2.st.streams = [1]; rw [hsim2.streams]; exact hc1.streams
              mstart := hc1.mstart
              lastT := by show b1.st.now + Params.ubootPollSleep = b2.st.now + Params.ubootPollSleep; rw [hsim2.now]
              lnxSet := hc1.lnxSet
              lnxLog := by show b2.lnxLog = none; rw [hsim2.lnxLog]; exact hc1.lnxLog
              ge := by rw [hnow3]; omega }
          have hf3 : Fresh (sleep Params.ubootPollSleep b2)
              (wait .ubLoop (b1.st.now + Params.ubootPollSleep) (b1.st.now + Params.ubootPollSleep) m1) :=
            ⟨rfl, rfl, by show b1.st.now + Params.ubootPollSleep = b2.st.now + Params.ubootPollSleep; rw [hsim2.now]⟩
          by_cases hcapd : c.cap < (sleep Params.ubootPollSleep b2).st.now
          · rw [if_pos hcapd]
            refine ⟨_, hc3.fail ?_, hset1⟩
            have hnone : u.timeout = none := by
              cases hT : u.timeout with
              | none => rfl
              | some T' =>
                have := hcap T' hT
                have := hle T' hT
                rw [hnow3] at hcapd
                omega
            have ht0' : (sleep Params.ubootPollSleep b2).st.now = b1.st.now + Params.ubootPollSleep := by
              show b2.st.now + _ = _; rw [hsim2.now]
            simp only [accept, wait, ubT_eq h.cfg, hnone, ht0']
            rw [ht0'] at hcapd
            simp [hcapd]
          · rw [if_neg hcapd]
            rw [hnow3] at hcapd
            have hp := poll_pos
            have := ih _ _ hc3 hf3 rfl hset1
              (by show b2.st.prompt = _; rw [hsim2.prompt, hpr1]; exact hpr)
              (by intro T' hT; rw [hnow3]; have := hle T' hT; omega)
              (by omega) (by rw [hnow3]; omega)
            have hbl3 : (sleep Params.ubootPollSleep b2).st.blacklist = b.st.blacklist := by
              show b2.st.blacklist = _; rw [hsim2.blacklist, hbl1]
            generalize ubLoop u.timeout start c.cap f (sleep Params.ubootPollSleep b2) = out at this
            obtain ⟨r3, b3⟩ := out
            cases r3 with
            | error e => exact this
            | ok v =>
              obtain ⟨m', h1, h2, h3, h4, h5, h6⟩ := this
              exact ⟨m', h1, h2, h3, h4, h5, by rw [h6, hbl3]⟩
        · simp at hT


/-! ### `_init_shell`, the machine, `boot` -/

/-- the U-Boot machine is up (before `init()` is reported): what the next steps rely on -/
structure UUp (c : Board.Case) (b : BS) (m : Mon) : Prop where
  inv : Inv c b m
  streams : b.st.streams = []
  lastT : m.lastT = b.st.now
  ubLog : b.ubLog = some m.ulog
  ubSet : m.ubSet = true
  lnxSet : m.lnxSet = false
  lnxLog : b.lnxLog = none
  blacklist : b.st.blacklist = Params.ubootBlacklist

theorem setShell_inv (c : Board.Case) (b : BS) (m : Mon) (p : Option Pat) (bl : List Byte) (h : Inv c b m) :
    Inv c { b with st := { b.st with prompt := p, blacklist := bl } } m :=
  { mon := h.mon, calm := ⟨h.calm.wf, h.calm.chunk, h.calm.deaths, h.calm.lp⟩, accept := h.accept, slow := h.slow,
    slice := h.slice, con := h.con, ulog := h.ulog, llog := h.llog }

theorem closeUb_inv (c : Board.Case) (b : BS) (m : Mon) (h : Inv c b m) : Inv c (closeUb b) m :=
  ⟨h.mon, h.calm, h.accept, h.slow, h.slice, h.con, h.ulog, h.llog⟩

/-- `UBootShell._init_shell` -/
theorem ubShell_sim (c : Board.Case) (u : UbCfg) (start : Nat) (b : BS) (m : Mon) (h : UCtx c u start [] b m)
    (hcap : ∀ T', u.timeout = some T' → start + T' + poll ≤ c.cap)
    (hf : Fresh b m) (hph : m.ph = .ubLoop) (hset : m.ubSet = true)
    (hd : ∀ T', u.timeout = some T' → b.st.now ≤ start + T' + poll) :
    match ubShell u start c.cap b with
    | (.ok _, b') => ∃ m', UUp c b' m'
        ∧ step c m' (.ubReady b'.st.now) = some { m' with ph := .ubUp, lastT := b'.st.now }
    | (.error e, b') => ∃ m', Final c b' m' (some e) := by
  unfold ubShell
  simp only
  have hc0 : UCtx c u start [1] (ubSetShell u (streamOn 1 b)) m :=
    { inv := setShell_inv c _ m _ _ (streamOn_inv c 1 b m h.inv), cfg := h.cfg
      streams := by show b.st.streams ++ [1] = [1]; rw [h.streams]; rfl
      mstart := h.mstart, lastT := h.lastT, lnxSet := h.lnxSet, lnxLog := h.lnxLog, ge := h.ge }
  have hf0 : Fresh (ubSetShell u (streamOn 1 b)) m := ⟨hf.acc, hf.hit, hf.t0⟩
  have := ubLoop_sim c u start hcap (c.cap + 2) (ubSetShell u (streamOn 1 b)) m hc0 hf0 hph hset rfl hd
    (by omega) (by omega)
  generalize ubLoop u.timeout start c.cap (c.cap + 2) (ubSetShell u (streamOn 1 b)) = out at this
  obtain ⟨r, b1⟩ := out
  cases r with
  | error e =>
    obtain ⟨m1, hfail, hset1⟩ := this
    exact ⟨m1, hfail.finalShell hset1⟩
  | ok v =>
    obtain ⟨m1, hc1, hph1, hset1, hhit1, hw1, hbl⟩ := this
    dsimp only
    refine ⟨m1, ⟨closeUb_inv c _ m1 (streamOff_inv c 1 b1 m1 hc1.inv), ?_, hc1.lastT, ?_, hset1, hc1.lnxSet, hc1.lnxLog, hbl⟩, ?_⟩
    · show (streamOff 1 b1).st.streams = []
      rw [streamOff_streams 1 b1 hc1.inv.calm.lp, hc1.streams]; rfl
    · show some (logOf 1 (streamOff 1 b1).st.fwd) = some m1.ulog
      rw [(streamOff_inv c 1 b1 m1 hc1.inv).ulog]
    · show step c m1 (.ubReady b1.st.now) = some { m1 with ph := .ubUp, lastT := b1.st.now }
      simp [step, hph1, h.cfg, hhit1, hc1.mstart, hw1]


/-- entering the U-Boot machine, from power-on -/
theorem ubUp_sim (c : Board.Case) (u : UbCfg) (b : BS) (m : Mon) (h : UCtx c u b.st.now [] b m) (hok : UbOk u)
    (hcap : ∀ T', u.timeout = some T' → b.st.now + T' + poll ≤ c.cap)
    (hf : Fresh b m) (hph : m.ph = if u.autoboot.isSome then .ubAuto else .ubLoop)
    (hset : m.ubSet = u.autoboot.isNone) (hlog : b.ubLog = none) :
    match ubUp u c.cap b with
    | (.ok _, b') => ∃ m', UUp c b' m' ∧ m'.ph = .ubUp
    | (.error e, b') => ∃ m', Final c b' m' (some e) := by
  unfold ubUp
  have h1 : match ubAutoStage u b.st.now b with
      | (.ok _, b') => ∃ m', UCtx c u b.st.now [] b' m' ∧ Fresh b' m' ∧ m'.ph = .ubLoop ∧ m'.ubSet = true
          ∧ within u.timeout b.st.now b'.st.now = true
      | (.error e, b') => ∃ m', Final c b' m' (some e) := by
    unfold ubAutoStage
    cases hauto : u.autoboot with
    | none =>
      rw [hauto] at hph hset
      exact ⟨m, h, hf, hph, hset, within_of_dead fun T' _ => Nat.le_add_right _ _⟩
    | some p =>
      rw [hauto] at hph hset
      have := ubAutoboot_sim c u b m h hok hf hph p hauto hset hlog
      dsimp only
      generalize ubAutoboot u p b.st.now b = out at this
      obtain ⟨r, b'⟩ := out
      cases r with
      | error e => exact this
      | ok v =>
        obtain ⟨m', h1, h2, h3, h4, _, h6, _⟩ := this
        exact ⟨m', h1, h2, h3, h4, h6⟩
  generalize ubAutoStage u b.st.now b = out at h1
  obtain ⟨r1, b1⟩ := out
  cases r1 with
  | error e => exact h1
  | ok v1 =>
    obtain ⟨m1, hc1, hf1, hph1, hset1, hdl1⟩ := h1
    dsimp only
    have := ubShell_sim c u b.st.now b1 m1 hc1 hcap hf1 hph1 hset1 (by
      intro T' hT
      have := le_of_within hT hdl1
      omega)
    generalize ubShell u b.st.now c.cap b1 = out at this
    obtain ⟨r2, b2⟩ := out
    cases r2 with
    | error e => exact this
    | ok v2 =>
      obtain ⟨m2, hup, hstep⟩ := this
      dsimp only
      refine ⟨{ m2 with ph := .ubUp, lastT := b2.st.now }, ⟨⟨?_, hup.inv.calm, hup.inv.accept, hup.inv.slow, hup.inv.slice,
        hup.inv.con, hup.inv.ulog, hup.inv.llog⟩, hup.streams, rfl, hup.ubLog, hup.ubSet, hup.lnxSet, hup.lnxLog, hup.blacklist⟩, rfl⟩
      show steps c {} (b2.evs ++ [.ubReady b2.st.now]) = _
      rw [steps_append, hup.inv.mon]
      simp only [Option.bind, steps, hstep]

theorem bootLine_ok : forbidden Params.ubootBlacklist bootLine = false ∧ bootLine.length ≤ Params.sendSliceSize
    ∧ bootLine ≠ [] := by decide

/-- `LinuxUbootConnector._connect` once the U-Boot machine is up: `boot`, and the Linux stage begins -/
theorem sendRb_sim (c : Board.Case) (l : LnxCfg) (b : BS) (m : Mon) (h : UUp c b m) (hph : m.ph = .ubUp)
    (hcfg : c.lnx = some l) (hok : LnxOk l Params.ubootBlacklist) (buf : Bytes) (hbuf : buf = bootLine)
    (hbl : forbidden Params.ubootBlacklist buf = false) (hlen : buf.length ≤ Params.sendSliceSize) (hne : buf ≠ []) :
    match (match sendRb buf b with
           | (.error e, b) => ((.error e, b) : R Unit)
           | (.ok _, b) => (.ok (), mark .booted b)) with
    | (.ok _, b') => ∃ m', LOut c l b'.st.now b' m' ∧ Fresh b' m' ∧ m'.ph = (if l.askfirst.isSome then .ask else .login1)
    | (.error e, b') => ∃ m', Final c b' m' (some e) := by
  unfold sendRb
  have hbl' : forbidden b.st.blacklist buf = false := by rw [h.blacklist]; exact hbl
  have hlen' : buf.length ≤ b.st.slice := by rw [h.inv.slice]; exact hlen
  have hop : send buf false none false { b.st with writes := [] }
      = (.ok (), { b.st with writes := [(buf, buf.length)] }) :=
    send_one buf false { b.st with writes := [] } hne hlen' h.inv.accept h.inv.slow (Or.inr hbl')
  have hstep : step c m (.wr b.st.now buf) = some (wait .bootSent b.st.now b.st.now m) := by
    simp [step, hph, hcfg, hbuf, h.lastT]
  obtain ⟨hok1, hinv1, hsim1⟩ := sim_wr c b m h.inv _ _ hop _ hstep rfl rfl
  generalize wr (send buf false none false) b = out at hok1 hinv1 hsim1
  obtain ⟨r1, b1⟩ := out
  simp only at hok1 hinv1 hsim1
  subst hok1
  dsimp only
  -- the read-back
  obtain ⟨recs, hrd, hokn, herrn⟩ := readn_out (buf.length + countNl buf)
    { b1.st with reads := [] } hinv1.calm.cutReads
  obtain ⟨hinv2, hsim2, hst2⟩ := sim_rd (read (some (buf.length + countNl buf)) none)
    c b1 (wait .bootSent b.st.now b.st.now m) hinv1 rfl (by show b.st.now = b1.st.now; rw [hsim1.now])
    (by rw [hsim1.streams, h.streams]; rfl) none b1.st.now recs hrd
  have hres : (rd (read (some (buf.length + countNl buf)) none) b1).1
      = (read (some (buf.length + countNl buf)) none { b1.st with reads := [] }).1 := rfl
  generalize hm2 : rdAll (awaited c (wait .bootSent b.st.now b.st.now m).ph) (logId (wait .bootSent b.st.now b.st.now m).ph)
    (wait .bootSent b.st.now b.st.now m) recs = m2 at hinv2 hsim2
  have hacc2 : m2.acc = (dataOf recs).flatten := by rw [← hm2, rdAll_eq]; rfl
  have hul2 : m2.ulog = m.ulog := by rw [hsim2.ulog (by show logId Ph.bootSent ≠ 1; decide)]; rfl
  have hubLog2 : (rd (read (some (buf.length + countNl buf)) none) b1).2.ubLog
      = some m2.ulog := by rw [hsim2.ubLog, hsim1.ubLog, hul2]; exact h.ubLog
  have hlnxLog2 : (rd (read (some (buf.length + countNl buf)) none) b1).2.lnxLog
      = none := by rw [hsim2.lnxLog, hsim1.lnxLog]; exact h.lnxLog
  have hbl2 : (rd (read (some (buf.length + countNl buf)) none) b1).2.st.blacklist
      = Params.ubootBlacklist := by rw [hsim2.blacklist, hsim1.blacklist]; exact h.blacklist
  have hstr2 : (rd (read (some (buf.length + countNl buf)) none) b1).2.st.streams
      = [] := by rw [hsim2.streams, hsim1.streams]; exact h.streams
  generalize rd (read (some (buf.length + countNl buf)) none) b1 = out
    at hinv2 hsim2 hst2 hres hubLog2 hlnxLog2 hbl2 hstr2
  obtain ⟨r2, b2⟩ := out
  simp only at hinv2 hsim2 hst2 hres hubLog2 hlnxLog2 hbl2 hstr2
  have hph2 : m2.ph = .bootSent := by rw [hsim2.ph]; rfl
  have hset2 : m2.ubSet = true := by rw [hsim2.ubSet]; exact h.ubSet
  have hlset2 : m2.lnxSet = false := by rw [hsim2.lnxSet]; exact h.lnxSet
  cases r2 with
  | error e =>
    dsimp only
    have he := herrn e hres.symm
    subst he
    refine ⟨m2, hinv2.mon, ?_, by rw [hset2]; exact hubLog2, by rw [hlset2]; exact hlnxLog2⟩
    simp [accept, hph2, hsim2.lastT]
  | ok v =>
    dsimp only
    have hn := hokn v hres.symm
    have hstep2 : step c m2 (.booted b2.st.now) = some (enterLnx l b2.st.now m2) := by
      simp [step, hph2, hcfg, hacc2, hn, hbuf, hsim2.lastT]
    refine ⟨enterLnx l b2.st.now m2, ⟨⟨?_, hinv2.calm, hinv2.accept, hinv2.slow, hinv2.slice, hinv2.con, hinv2.ulog, hinv2.llog⟩,
      hcfg, by show LnxOk l b2.st.blacklist; rw [hbl2]; exact hok, hstr2, rfl, rfl, within_of_dead fun T' _ => Nat.le_add_right _ _, ?_, rfl, Nat.le_refl _⟩,
      ⟨rfl, rfl, rfl⟩, rfl⟩
    · show steps c {} (b2.evs ++ [.booted b2.st.now]) = _
      rw [steps_append, hinv2.mon]
      simp only [Option.bind, steps, hstep2]
    · show b2.ubLog = if (enterLnx l b2.st.now m2).ubSet then some (enterLnx l b2.st.now m2).ulog else none
      show b2.ubLog = if m2.ubSet then some m2.ulog else none
      rw [hset2]; exact hubLog2

theorem ubBoot_sim (c : Board.Case) (l : LnxCfg) (b : BS) (m : Mon) (h : UUp c b m) (hph : m.ph = .ubUp)
    (hcfg : c.lnx = some l) (hok : LnxOk l Params.ubootBlacklist) :
    match ubBoot b with
    | (.ok _, b') => ∃ m', LOut c l b'.st.now b' m' ∧ Fresh b' m' ∧ m'.ph = (if l.askfirst.isSome then .ask else .login1)
    | (.error e, b') => ∃ m', Final c b' m' (some e) := by
  obtain ⟨hbl, hlen, hne⟩ := bootLine_ok
  exact sendRb_sim c l b m h hph hcfg hok bootLine rfl hbl hlen hne

end Board
