import TbotVerif.Props.Hush
/-! C19, quoting part (first theorem of DESIGN §4 C19): `_hush_quote` / `UBootShell.escape`
    against the hazard-rejecting hush tokenizer.

    DOMAIN.  The real `_hush_quote` accepts every Python `str`.  The theorems range over byte
    strings all of whose bytes are `printable`: 0x20–0x7E and 0x80–0xFF, i.e. the UTF-8 encodings
    of strings of printable ASCII and non-ASCII characters — the quantifier of C19.  Control bytes
    are outside: the tokenizer model rejects them in every state (0x03 is hush's variable marker,
    the others are eaten by U-Boot's line editor), see `control_is_hazard`. -/

namespace C19Q
open Hush
open Quote (SQ DQ SP joinSp forbidden CR LF)

/-- T (one word).  `hushWords (hushQuote s) = [s]` for every string over the domain. -/
theorem hushWords_hushQuote (s : Bytes) (hp : s.all printable = true) : hushWords (hushQuote s) = some [s] := by
  have := split_escape [s] (by simpa using hp) []
  simpa [hushWords, escape, joinSp] using this

/-- T (argument list).  `escape` joins with one blank and `hushWords` of the join is the
    argument list. -/
theorem hushWords_escape (args : List Bytes) (hp : ∀ a ∈ args, a.all printable = true) :
    hushWords (escape args) = some args := by
  simpa [hushWords] using split_escape args hp []

/-- `escape` IS the join with single blanks of the quoted arguments (definitional) -/
theorem escape_eq_join (args : List Bytes) : escape args = joinSp (args.map hushQuote) := rfl

theorem escape_cons_cons (a b : Bytes) (rest : List Bytes) :
    escape (a :: b :: rest) = hushQuote a ++ SP :: escape (b :: rest) := by
  simp [escape, joinSp]

/-- Corollary: no hazard branch (variable expansion `$`, separators `;` `&` `|`, comment `#`,
    double-quote state, a backslash reaching the end of a word, an unterminated quote) is reachable. -/
theorem no_hazard (args : List Bytes) (hp : ∀ a ∈ args, a.all printable = true) : hushWords (escape args) ≠ none := by
  rw [hushWords_escape args hp]; simp

/-- Corollary: every argument is one word wherever its quoted form stands on the line. -/
theorem one_word (a : Bytes) (hp : a.all printable = true) (acc : List Bytes) (rest : Bytes) :
    split .U none acc (hushQuote a ++ SP :: rest) = split .U none (a :: acc) rest := by
  rw [split_of_firstWord acc (firstWord_quote_sp a rest hp)]; rfl

/-- the domain restriction is needed in the model: a control byte is a hazard even inside quotes -/
theorem control_is_hazard : hushWords (hushQuote [97, 3, 98]) = none ∧ hushWords (hushQuote [9]) = none := by decide

/-- the hush quirk the quoting has to respect: inside single quotes a backslash is NOT literal
    (the removal pass runs afterwards), so POSIX-style quoting would lose it -/
example : hushWords [SQ, 97, BS, 98, SQ] = some [[97, 98]] := by decide
example : hushWords (hushQuote [97, BS, 98]) = some [[97, BS, 98]] := by decide
/-- … and a single-quoted word ending in a backslash is a hazard -/
example : hushWords [SQ, 97, BS, SQ] = none := by decide

/-- black-lists without the quoting bytes: a black-listed byte is in the line iff in an argument -/
theorem forbidden_escape (bl : Bytes) (h0 : SP ∉ bl) (h1 : SQ ∉ bl) (h2 : DQ ∉ bl) (h3 : BS ∉ bl) (args : List Bytes) :
    forbidden bl (escape args) = true ↔ ∃ a ∈ args, ∃ c ∈ a, c ∈ bl := by
  have hbl : blOk bl = true := (blOk_iff bl).mpr ⟨h0, h1, h2, h3⟩
  rw [forbidden_escapeArgs bl hbl _ _ (escapeArgs_str args)]
  simp only [List.mem_map, Quote.forbidden_iff]
  constructor
  · rintro ⟨_, ⟨a, ha, rfl⟩, c, hc, hca⟩; exact ⟨a, ha, c, hca, hc⟩
  · rintro ⟨a, ha, c, hca, hc⟩; exact ⟨_, ⟨a, ha, rfl⟩, c, hc, hca⟩

/-! ### the Spec holds of the model -/

theorem escapeArgs_some_noOther : ∀ (args : List Arg) (l : Bytes), escapeArgs args = some l → args.any Arg.isOther = false := by
  intro args l h
  unfold escapeArgs at h
  cases hm : args.mapM Arg.render with
  | none => simp [hm] at h
  | some ts =>
    clear h
    induction args generalizing ts with
    | nil => rfl
    | cons a as ih =>
      obtain ⟨y, ys', hy, hys, rfl⟩ := Quote.mapM_some_cons _ _ _ _ hm
      have : a.isOther = false := by cases a <;> simp_all [Arg.render, Arg.isOther]
      simp [this, ih ys' hys]

theorem escapeArgs_none_other : ∀ (args : List Arg), escapeArgs args = none → args.any Arg.isOther = true := by
  intro args
  induction args with
  | nil => intro h; simp [escapeArgs] at h
  | cons a as ih =>
    intro h
    cases a with
    | other => simp [Arg.isOther]
    | str s =>
      have : escapeArgs as = none := by
        cases has : as.mapM Arg.render with
        | none => simp [escapeArgs, has]
        | some ts => simp [escapeArgs, List.mapM_cons, Arg.render, has] at h
      simp [Arg.isOther, ih this]
    | raw s =>
      have : escapeArgs as = none := by
        cases has : as.mapM Arg.render with
        | none => simp [escapeArgs, has]
        | some ts => simp [escapeArgs, List.mapM_cons, Arg.render, has] at h
      simp [Arg.isOther, ih this]

theorem allStr_eq (args : List Arg) (h : args.all Arg.isStr = true) : args = (args.map Arg.strOf).map .str := by
  induction args with
  | nil => rfl
  | cons a as ih =>
    simp only [List.all_cons, Bool.and_eq_true] at h
    cases a with
    | str s => simp only [List.map_cons, Arg.strOf]; rw [← ih h.2]
    | raw s => simp [Arg.isStr] at h
    | other => simp [Arg.isStr] at h

theorem wf_strs (args : List Arg) (hw : args.all Arg.wf = true) : ∀ a ∈ args.map Arg.strOf, a.all printable = true := by
  intro a ha
  obtain ⟨x, hx, rfl⟩ := List.mem_map.mp ha
  have := List.all_eq_true.mp hw x hx
  cases x <;> simp_all [Arg.wf, Arg.strOf]

/-- MAIN: the model satisfies `Spec.C19Q` for EVERY case (for ill-formed cases — control bytes in
    an argument — the Spec only demands the exception clause and the black-list/CR/LF clauses,
    which hold for all byte strings). -/
theorem spec_holds (c : Case) : Spec.C19Q c (run c) = true := by
  obtain ⟨bl, args⟩ := c
  cases h : escapeArgs args with
  | none => simp [run, Spec.C19Q, h, escapeArgs_none_other args h]
  | some l =>
    have h1 := escapeArgs_some_noOther args l h
    have h2 : (!Case.wf ⟨bl, args⟩ ||
        (Quote.segCheck firstWord (args.flatMap Arg.atoms) l
         && (!args.all Arg.isStr || hushWords l == some (args.map Arg.strOf)))) = true := by
      cases hw : Case.wf ⟨bl, args⟩ with
      | false => rfl
      | true =>
        simp only [Case.wf] at hw
        have a1 := segCheck_escapeArgs args l hw h
        have a2 : (!args.all Arg.isStr || hushWords l == some (args.map Arg.strOf)) = true := by
          cases hs : args.all Arg.isStr with
          | false => rfl
          | true =>
            have e := allStr_eq args hs
            have h' := h
            rw [e, escapeArgs_str] at h'
            simp only [Option.some.injEq] at h'
            simp [← h', hushWords_escape _ (wf_strs args hw)]
        simp [a1, a2]
    have h4 := count_escapeArgs CR (by decide) (by decide) (by decide) (by decide) args l h
    have h5 := count_escapeArgs LF (by decide) (by decide) (by decide) (by decide) args l h
    have h6 : (!blOk bl || forbidden bl l == args.any (fun a => forbidden bl a.payload)) = true := by
      cases hb : blOk bl with
      | false => rfl
      | true => simpa using forbidden_escapeArgs_bool bl hb args l h
    simp only [run, h, Spec.C19Q, h1, h2, h4, h5, h6, Bool.not_false, Bool.and_self, beq_self_eq_true]

/-- the structural clause of the Spec implies the word-level statement -/
theorem segCheck_sound : ∀ (strs : List Bytes) (l : Bytes) (acc : List Bytes),
    Quote.segCheck firstWord (strs.map .word) l = true → split .U none acc l = some (acc.reverse ++ strs) := by
  intro strs
  induction strs with
  | nil => intro l acc h; simp [Quote.segCheck] at h; subst h; simp [split, done]
  | cons s rest ih =>
    intro l acc h
    simp only [List.map_cons, Quote.segCheck] at h
    cases hf : firstWord l with
    | none => simp [hf] at h
    | some v =>
      obtain ⟨w, r⟩ := v
      simp only [hf, Bool.and_eq_true, beq_iff_eq] at h
      obtain ⟨rfl, h⟩ := h
      rw [split_of_firstWord acc hf]
      cases rest with
      | nil =>
        cases r with
        | none => simp [after]
        | some r' => simp at h
      | cons b bs =>
        cases r with
        | none => simp at h
        | some r' =>
          simp only [List.map_cons] at h
          simp only [after]
          rw [ih r' (w :: acc) (by simpa using h)]
          simp

/-! ### non-vacuity -/

/-- `a\b c`, `$x;'#`, empty, `é`: quoted, joined, tokenized back -/
example : hushWords (escape [[97, 92, 98, 32, 99], [36, 120, 59, 39, 35], [], [0xc3, 0xa9]])
    = some [[97, 92, 98, 32, 99], [36, 120, 59, 39, 35], [], [0xc3, 0xa9]] := by decide

example :
    let c : Case := ⟨[3], [.str [97, 92, 39, 36], .raw [59], .str []]⟩
    c.wf = true ∧ Spec.C19Q c (run c) = true ∧ run c ≠ .typeError := by decide

/-- the Spec is not trivially true: POSIX-style quoting of a backslash, an unquoted `$`, a
    dropped empty argument all falsify it -/
example : Spec.C19Q ⟨[], [.str [97, 92, 98]]⟩ (.line [39, 97, 92, 98, 39]) = false := by decide
example : Spec.C19Q ⟨[], [.str [36]]⟩ (.line [36]) = false := by decide
example : Spec.C19Q ⟨[], [.str []]⟩ (.line []) = false := by decide

/-- the tokenizer rejects hazards: `$x`, `a;b`, `#`, `a|b`, `a&b`, a trailing backslash, `"$x"`, `"a'b"` -/
example : [[36, 120], [97, 59, 98], [35], [97, 124, 98], [97, 38, 98], [97, 92], [34, 36, 120, 34], [34, 97, 39, 98, 34]].all
    (fun l => hushWords l == none) = true := by decide

end C19Q
