import TbotVerif.Props.EnvUtf8
import TbotVerif.Model.Env
/-! What tbot returns as text for the cooked output of a program that printed a UTF-8 string:
    `text (cook (encode s)) = s` for every CR-free string `s` — ONLCR turns LF into CR LF, the
    decoder gives back the characters, the normalisation turns CR LF back into LF.  Corollary (the
    lemma of DESIGN §4 C09): the read-back of `posix_environment`, minus its first and last
    character, is the value. -/

namespace Env

theorem enc_eq (s : List Char) : enc s = EnvUtf8.enc s := rfl

/-- ONLCR on characters -/
def cookC (s : List Char) : List Char := s.flatMap fun c => if c == '\n' then ['\r', '\n'] else [c]

theorem replace2_cons_ne (a b r x : Char) (l : List Char) (h : (x == a) = false) :
    replace2 a b r (x :: l) = x :: replace2 a b r l := by
  cases l with
  | nil => simp [replace2]
  | cons y t => simp [replace2, h]

theorem replace2_cookC (s : List Char) (h : '\r' ∉ s) : replace2 '\r' '\n' '\n' (cookC s) = s := by
  induction s with
  | nil => rfl
  | cons c t ih =>
    have ht : '\r' ∉ t := fun hm => h (List.mem_cons_of_mem _ hm)
    have hc : c ≠ '\r' := fun hc => h (by rw [hc]; exact List.mem_cons_self ..)
    by_cases hn : c = '\n'
    · subst hn
      have : cookC ('\n' :: t) = '\r' :: '\n' :: cookC t := by simp [cookC]
      rw [this]
      simp [replace2, ih ht]
    · have : cookC (c :: t) = c :: cookC t := by simp [cookC, hn]
      rw [this, replace2_cons_ne _ _ _ _ _ (by simpa using hc), ih ht]

theorem replace2_absent (a b r : Char) (s : List Char) (h : b ∉ s) : replace2 a b r s = s := by
  fun_induction replace2 a b r s with
  | case1 => rfl
  | case2 x => rfl
  | case3 x y t hxy ih =>
    exfalso
    simp only [Bool.and_eq_true, beq_iff_eq] at hxy
    exact h (by rw [← hxy.2]; simp)
  | case4 x y t hxy ih =>
    rw [ih (fun hm => h (List.mem_cons_of_mem _ hm))]

theorem normNl_cookC (s : List Char) (h : '\r' ∉ s) : normNl (cookC s) = s := by
  unfold normNl
  rw [replace2_cookC s h, replace2_absent _ _ _ s h]

theorem cook_id (l : Bytes) (h : ∀ b ∈ l, b ≠ 10) : Tty.cook l = l := by
  induction l with
  | nil => rfl
  | cons c t ih =>
    have hc : (c == Tty.LF) = false := by
      have := h c (by simp)
      simpa [Tty.LF] using this
    have : Tty.cook (c :: t) = (if c == Tty.LF then [Tty.CR, Tty.LF] else [c]) ++ Tty.cook t := by simp [Tty.cook]
    rw [this, hc, ih (fun b hb => h b (by simp [hb]))]
    rfl

theorem cook_append (a b : Bytes) : Tty.cook (a ++ b) = Tty.cook a ++ Tty.cook b := by
  simp [Tty.cook, List.flatMap_append]

theorem cook_char (c : Char) : Tty.cook (String.utf8EncodeChar c) = enc (cookC [c]) := by
  by_cases hn : c = '\n'
  · subst hn; decide
  · have : cookC [c] = [c] := by simp [cookC, hn]
    rw [this]
    have : enc [c] = String.utf8EncodeChar c := by simp [enc]
    rw [this]
    apply cook_id
    intro b hb h10
    subst h10
    obtain ⟨_, hc⟩ := EnvUtf8.utf8EncodeChar_lt_128 c 10 hb (by decide)
    exact hn (by rw [hc]; decide)

/-- ONLCR commutes with the encoding -/
theorem cook_enc (s : List Char) : Tty.cook (enc s) = enc (cookC s) := by
  induction s with
  | nil => rfl
  | cons c t ih =>
    have h1 : enc (c :: t) = String.utf8EncodeChar c ++ enc t := by simp [enc]
    have h2 : cookC (c :: t) = cookC [c] ++ cookC t := by simp [cookC]
    rw [h1, cook_append, ih, cook_char, h2]
    simp [enc, List.flatMap_append]

/-- **text of cooked UTF-8**: for every CR-free string -/
theorem text_cook_enc (s : List Char) (h : '\r' ∉ s) : text (Tty.cook (enc s)) = s := by
  unfold text
  rw [cook_enc, enc_eq, EnvUtf8.decodeReplace_enc, normNl_cookC s h]

/-- a string whose encoding has no byte 13 has no CR -/
theorem no_cr_of_enc (s : List Char) (h : (13 : Byte) ∉ enc s) : '\r' ∉ s := by
  intro hm
  apply h
  simp only [enc, List.mem_flatMap]
  exact ⟨'\r', hm, by decide⟩

/-- **the read-back lemma** (DESIGN §4 C09): what `printf '%s\n' " ${V}"` prints for the value `x`,
    as text, minus its first and last character, is `x` — for every CR-free `x` -/
theorem readback_text (x : List Char) (h : '\r' ∉ x) :
    ((text (Tty.cook (Quote.SP :: enc x ++ [LF]))).drop 1).dropLast = x := by
  have he : Quote.SP :: enc x ++ [LF] = enc (' ' :: x ++ ['\n']) := by
    have h1 : enc (' ' :: x ++ ['\n']) = String.utf8EncodeChar ' ' ++ (enc x ++ String.utf8EncodeChar '\n') := by
      simp [enc, List.flatMap_append]
    rw [h1]; rfl
  rw [he, text_cook_enc _ (by
    intro hm
    simp only [List.mem_cons, List.mem_append, List.mem_singleton] at hm
    rcases hm with (hm | hm) | hm
    · exact absurd hm (by decide)
    · exact h hm
    · exact absurd hm (by decide))]
  simp

end Env
