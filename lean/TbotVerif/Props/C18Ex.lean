import TbotVerif.Props.C18Coop
import TbotVerif.Props.C18Cor
/-! C18 — the hypotheses of the theorems are satisfiable (non-vacuity), and the defect F10 as a
    concrete witness: the observation of the unrepaired code is rejected by `Spec.C18`. -/

namespace C18
open Board Chan Spec C06

instance (d : Nat) (t : Option Nat) : Decidable (fits d t) := by
  cases t with
  | none => exact isTrue trivial
  | some r => exact inferInstanceAs (Decidable (d < r))

instance (con : List Stage) : Decidable (ConOk con) :=
  inferInstanceAs (Decidable (∀ st ∈ con, ∀ p ∈ st.out, p.2 ≠ []))

theorem ends_of (test : Bytes → Bool) (o : Out) (h1 : test (outText o) = true)
    (h2 : ∀ k ∈ List.range (outText o).length, 0 < k → test ((outText o).take k) = false) : Ends test o :=
  ⟨h1, fun k hk hlt => h2 k (List.mem_range.mpr hlt) hk⟩

/-! ### a Linux machine: login prompt `l:`, password prompt `p:`, garbage before both, chunk size 2 -/

def exL : LnxCfg :=
  { askfirst := none, login := [108, 58], delay := 0, user := [117], password := some [115],
    pwPrompt := .lit [112, 58], noPw := some 50, timeout := some 100 }

def exLnx : Board.Case :=
  { chunk := 2, cap := 100, ub := none, lnx := some exL,
    init := [(5, [120]), (3, [108, 58])], stages := [⟨.cr, [(2, [117, 112, 58])]⟩] }

theorem exLnx_wf : WfCase exLnx :=
  { chunk := by decide, init := by decide, stages := by decide
    ub := by intro u hu; cases hu
    lnx := by
      intro l hl
      cases hl
      exact ⟨by decide, by decide, by intro pw h; cases h; decide, by intro pw h; cases h; decide, by decide⟩
    some := by decide }

theorem exLnx_coop : Coop exLnx := by
  show CoopLogin exL exLnx.init exLnx.stages exL.timeout
  refine ⟨⟨by decide, ends_of _ _ (by decide) (by decide)⟩, by decide, ?_⟩
  show CoopPw exL exLnx.stages _
  exact ⟨_, _, rfl, by decide, ⟨by decide, ends_of _ _ (by decide) (by decide)⟩, by decide, by decide⟩

example : Spec.C18 exLnx (Board.run exLnx) = true ∧ (Board.run exLnx).res = none := coop_spec exLnx exLnx_wf exLnx_coop

/-- what happens, event by event: the pieces are cut to the chunk size 2, the user name goes
    out at tick 8 — the moment `l:` is complete —, the password at tick 10 -/
example : ((Board.run exLnx).evs ==
    [.pon 0, .rd ⟨2, some 100, 0, 5, some [120]⟩, .rd ⟨2, some 95, 5, 8, some [108, 58]⟩, .wr 8 [117, 13],
     .rd ⟨2, some 50, 8, 10, some [117, 112]⟩, .rd ⟨2, some 48, 10, 10, some [58]⟩, .wr 10 [115, 13],
     .lnxReady 10, .poff 10]) = true := by decide +kernel

/-! ### the same machine, the password prompt never comes: `no_password_timeout` (50) runs out and
    bring-up goes on without a password; with the console silent from the start, `TimeoutError`
    at `boot_timeout` (100) -/

def exNoPw : Board.Case := { exLnx with stages := [⟨.cr, [(2, [117])]⟩] }

example : WfCase exNoPw :=
  { chunk := by decide, init := by decide, stages := by decide
    ub := by intro u hu; cases hu
    lnx := by
      intro l hl
      cases hl
      exact ⟨by decide, by decide, by intro pw h; cases h; decide, by intro pw h; cases h; decide, by decide⟩
    some := by decide }

example : (((Board.run exNoPw).res, (Board.run exNoPw).evs.drop 3) ==
    (none, [.wr 8 [117, 13], .rd ⟨2, some 50, 8, 10, some [117]⟩, .rd ⟨2, some 48, 10, 58, none⟩,
            .lnxReady 58, .poff 58])) = true := by decide +kernel

def exSilent : Board.Case := { exLnx with init := [], stages := [] }

example : (((Board.run exSilent).res, (Board.run exSilent).evs, (Board.run exSilent).lnxLog) ==
    (some .timeout, [.pon 0, .rd ⟨2, some 100, 0, 100, none⟩, .poff 100], some [])) = true := by decide +kernel

/-! ### a U-Boot machine with a silent console and `boot_timeout` = 5 s: `TimeoutError` one poll
    period after the last poll that began inside the time-out -/

def exUb : Board.Case :=
  { chunk := 4096, cap := 7000, lnx := none, init := [], stages := [],
    ub := some { autoboot := none, keys := [13], prompt := [61, 62, 32], timeout := some 5120 } }

theorem exUb_wf : WfCase exUb :=
  { chunk := by decide, init := by decide, stages := by decide
    ub := by intro u hu; cases hu; exact ⟨⟨by decide, by decide⟩, fun T' hT => by cases hT; decide⟩
    lnx := by intro l hl; cases hl
    some := by decide }

example : Spec.C18 exUb (Board.run exUb) = true := run_spec exUb exUb_wf

example : coopB exLnx = true := by decide +kernel

/-- the failure is a `TimeoutError` within `boot_timeout` + one poll period (with the extracted
    period of 0.5 s + 0.5 s: at 6.0 s, after six `^C`) -/
example : (match (Board.run exUb).res, (Board.run exUb).evs.getLast? with
    | some .timeout, some (.poff t) => decide (5120 < t ∧ t ≤ 5120 + (Params.ubootPollRead + Params.ubootPollSleep))
    | _, _ => false) = true := by decide +kernel

/-! ### F10 (fixed in the tree): askfirst banner `E` at 9.5 s, `boot_timeout` = 10 s, then silence -/

def f10L : LnxCfg :=
  { askfirst := some [69], login := [108, 58], delay := 0, user := [117], password := none,
    pwPrompt := .lit [112, 58], noPw := some 5120, timeout := some 10240 }

def f10 : Board.Case :=
  { chunk := 4096, cap := 61440, ub := none, lnx := some f10L, init := [(9728, [69])], stages := [⟨.cr, []⟩] }

/-- the repaired code (the model): the login wait gets the 0.5 s that remain; failure at 10.0 s -/
example : (((Board.run f10).res, (Board.run f10).evs) ==
    (some .timeout, [.pon 0, .rd ⟨4096, some 10240, 0, 9728, some [69]⟩, .wr 9728 [13],
                     .rd ⟨4096, some 512, 9728, 10240, none⟩, .poff 10240])) = true := by decide +kernel

/-- what the unrepaired code did (observed on the implementation, `corpus/C18/f10-…case`): the
    login wait got the full `boot_timeout` again; failure at 19.5 s -/
def f10AsIs : Obs :=
  { res := some .timeout, ubLog := none, lnxLog := some ['E'],
    evs := [.pon 0, .rd ⟨4096, some 10240, 0, 9728, some [69]⟩, .wr 9728 [13],
            .rd ⟨4096, some 10240, 9728, 19968, none⟩, .poff 19968] }

/-- **`Spec.C18` rejects it** (and accepts the model's) -/
theorem f10_asIs_rejected : Spec.C18 f10 f10AsIs = false := by decide +kernel

example : Spec.C18 f10 (Board.run f10) = true := by decide +kernel

end C18
