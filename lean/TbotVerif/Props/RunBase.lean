import TbotVerif.Spec.Run
import TbotVerif.Props.C05
import TbotVerif.Props.C04
import TbotVerif.Props.C02Extra
import TbotVerif.Props.Tty
/-! C10 — base lemmas: the replayed fragmentation (`cutBy`, `load`), and *progress* of the read
    loops of the channel model when everything pending has already arrived (all ticks 0): a
    time-out or an endless wait happens only after the script has been read to its end. -/

namespace Run
open Chan

/-! ### cutting the pending stream -/

theorem cutBy_flatten : ∀ (sizes : List Nat) (b : Bytes), (Shell.cutBy sizes b).flatten = b := by
  intro sizes
  induction sizes with
  | nil => intro b; cases b <;> simp [Shell.cutBy]
  | cons n ns ih =>
    intro b
    cases b with
    | nil => simp [Shell.cutBy]
    | cons c t =>
      unfold Shell.cutBy
      split
      · exact ih _
      · simp only [List.flatten_cons, ih, List.take_append_drop]

theorem cutBy_ne : ∀ (sizes : List Nat) (b x : Bytes), x ∈ Shell.cutBy sizes b → x ≠ [] := by
  intro sizes
  induction sizes with
  | nil =>
    intro b x hx
    cases b with
    | nil => simp [Shell.cutBy] at hx
    | cons c t => simp [Shell.cutBy] at hx; subst hx; simp
  | cons n ns ih =>
    intro b x hx
    cases b with
    | nil => simp [Shell.cutBy] at hx
    | cons c t =>
      unfold Shell.cutBy at hx
      split at hx
      · exact ih _ _ hx
      · rename_i hn
        rcases List.mem_cons.mp hx with rfl | hx
        · intro h
          have := congrArg List.length h
          simp only [List.length_take, List.length_cons, List.length_nil] at this
          omega
        · exact ih _ _ hx

theorem flat_toScript (ps : List Bytes) : flat (Shell.toScript ps) = ps.flatten := by
  simp [flat, Shell.toScript, List.map_map, Function.comp_def]

theorem pending_eq (s : St) : pending s = flat s.script := rfl

/-- everything that is pending has arrived -/
def Z (s : St) : Prop := ∀ p ∈ s.script, p.tick = 0

theorem load_pending (sizes : List Nat) (extra : Bytes) (r : RunSt) :
    pending (load sizes extra r).st = pending r.st ++ extra := by
  simp only [load, pending_eq, flat_toScript, cutBy_flatten]

theorem load_wf (sizes : List Nat) (extra : Bytes) (r : RunSt) : WF (load sizes extra r).st := by
  intro p hp
  simp only [load, Shell.toScript, List.mem_map] at hp
  obtain ⟨d, hd, rfl⟩ := hp
  exact cutBy_ne _ _ _ hd

theorem load_z (sizes : List Nat) (extra : Bytes) (r : RunSt) : Z (load sizes extra r).st := by
  intro p hp
  simp only [load, Shell.toScript, List.mem_map] at hp
  obtain ⟨d, _, rfl⟩ := hp
  rfl

theorem load_good (sizes : List Nat) (extra : Bytes) (r : RunSt) (hg : C03.Good r.st) :
    C03.Good (load sizes extra r).st :=
  ⟨load_wf sizes extra r, hg.chunk, hg.slice, hg.slow⟩

/-! ### progress -/

def quietErr : Exc → Bool
  | .timeout => true
  | .hang => true
  | _ => false

theorem takeHead_z (n : Nat) (p : Piece) (ps : List Piece) (h : ∀ q ∈ p :: ps, q.tick = 0) :
    ∀ q ∈ (takeHead n p ps).2, q.tick = 0 := by
  unfold takeHead
  split
  · intro q hq; exact h q (List.mem_cons_of_mem _ hq)
  · intro q hq
    rcases List.mem_cons.mp hq with rfl | hq
    · exact h p (List.mem_cons_self ..)
    · exact h q (List.mem_cons_of_mem _ hq)

/-- one transport read when everything has arrived: it fails only on an empty script, and a
    delivery takes no time -/
theorem ioRead_z (n : Nat) (t : Option Nat) (s : St) (hz : Z s) :
    Z (ioRead n t s).2
    ∧ (∀ e, (ioRead n t s).1 = .error e → (ioRead n t s).2.script = [] ∧ s.script = [])
    ∧ (∀ b, (ioRead n t s).1 = .ok b → (ioRead n t s).2.now = s.now)
    ∧ (t = none → (ioRead n t s).1 ≠ .error .timeout)
    ∧ (t.isSome = true → (ioRead n t s).1 ≠ .error .hang) := by
  unfold ioRead
  cases hs : s.script with
  | nil =>
    simp only
    cases t with
    | none =>
      refine ⟨?_, ?_, ?_, ?_, ?_⟩
      · intro p hp; simp [ioFail, hs] at hp
      · intro e _; simp [ioFail, hs]
      · intro b hb; simp [ioFail] at hb
      · intro _ h; simp [ioFail] at h
      · intro h; simp at h
    | some T =>
      refine ⟨?_, ?_, ?_, ?_, ?_⟩
      · intro p hp; simp [ioFail, hs] at hp
      · intro e _; simp [ioFail, hs]
      · intro b hb; simp [ioFail] at hb
      · intro h; simp at h
      · intro _ h; simp [ioFail] at h
  | cons p ps =>
    have hp0 : p.tick = 0 := hz p (by rw [hs]; exact List.mem_cons_self ..)
    have hle : p.tick ≤ s.now := by omega
    simp only [hle, if_true]
    refine ⟨?_, ?_, ?_, ?_, ?_⟩
    · intro q hq
      simp only [ioDeliver] at hq
      exact takeHead_z n p ps (by rw [← hs]; exact hz) q hq
    · intro e he; simp [ioDeliver] at he
    · intro b _; simp [ioDeliver]
    · intro _ h; simp [ioDeliver] at h
    · intro _ h; simp [ioDeliver] at h

/-- the overall timeout of a `read_iter` cannot have expired: there is none, or it is positive
    and no time has passed -/
def NoExp (ri : RI) (s : St) : Prop :=
  ri.timeout = none ∨ ∃ T, ri.timeout = some T ∧ 0 < T ∧ s.now = ri.t0

theorem noExp_start (max : Option Nat) (t : Option Nat) (s : St) (ht : t ≠ some 0) :
    NoExp (riStart max t s) s := by
  cases t with
  | none => exact Or.inl rfl
  | some T =>
    right
    refine ⟨T, rfl, ?_, rfl⟩
    cases T with
    | zero => exact absurd rfl ht
    | succ k => omega

theorem remaining_noExp (ri : RI) (s : St) (h : NoExp ri s) : ∃ rem, remaining ri.timeout ri.t0 s.now = some rem
    ∧ (ri.timeout = none → rem = none) ∧ (ri.timeout.isSome = true → rem.isSome = true) := by
  rcases h with h | ⟨T, hT, hpos, hnow⟩
  · exact ⟨none, by rw [h]; rfl, fun _ => rfl, fun h' => by rw [h] at h'; simp at h'⟩
  · refine ⟨some (T - (s.now - ri.t0)), ?_, fun h => by rw [hT] at h; simp at h, fun _ => rfl⟩
    rw [hT]
    unfold remaining
    simp only
    rw [if_neg (by omega)]

/-- one resumption of `read_iter` -/
theorem riNext_z (ri : RI) (s : St) (hz : Z s) (ht : NoExp ri s) :
    Z (riNext ri s).2.2
    ∧ (∀ e, (riNext ri s).1 = .err e → quietErr e = true → (riNext ri s).2.2.script = [])
    ∧ (∀ b, (riNext ri s).1 = .chunk b →
        NoExp (riNext ri s).2.1 (riNext ri s).2.2 ∧ (riNext ri s).2.1.timeout = ri.timeout)
    ∧ (ri.timeout = none → (riNext ri s).1 ≠ .err .timeout)
    ∧ (ri.timeout.isSome = true → (riNext ri s).1 ≠ .err .hang) := by
  unfold riNext
  split
  · exact ⟨hz, by intro e he; simp at he, by intro b hb; simp at hb, by intro _ h; simp at h, by intro _ h; simp at h⟩
  · obtain ⟨rem, hrem, hremn, hrems⟩ := remaining_noExp ri s ht
    rw [hrem]
    simp only
    obtain ⟨hz1, herr1, hok1, hnt1, hnh1⟩ := ioRead_z (ri.maxRead s.chunk) rem s hz
    cases hr : ioRead (ri.maxRead s.chunk) rem s with
    | mk res s1 =>
      rw [hr] at hz1 herr1 hok1 hnt1 hnh1
      cases res with
      | error e =>
        simp only
        refine ⟨hz1, ?_, by intro b hb; simp at hb, ?_, ?_⟩
        · intro e' he' _
          simp only [Step.err.injEq] at he'
          exact (herr1 e rfl).1
        · intro hn h
          simp only [Step.err.injEq] at h
          subst h
          exact hnt1 (hremn hn) rfl
        · intro hn h
          simp only [Step.err.injEq] at h
          subst h
          exact hnh1 (hrems hn) rfl
      | ok b =>
        simp only
        have hws := writeStream_side b s1
        have hck := check_side b (writeStream b s1)
        have hscr : (check b (writeStream b s1)).2.script = s1.script := by rw [hck.script, hws.script]
        have hnow : (check b (writeStream b s1)).2.now = s.now := by
          rw [hck.now, hws.now]; exact hok1 b rfl
        have hz2 : Z (check b (writeStream b s1)).2 := by
          intro p hp; rw [hscr] at hp; exact hz1 p hp
        cases hc : check b (writeStream b s1) with
        | mk cr s2 =>
          rw [hc] at hscr hnow hz2
          cases cr with
          | error e =>
            simp only
            refine ⟨hz2, ?_, by intro b hb; simp at hb, ?_, ?_⟩
            · intro e' he' hq
              simp only [Step.err.injEq] at he'
              subst he'
              obtain ⟨x, m, rfl⟩ := check_err b (writeStream b s1) e (by rw [hc])
              simp [quietErr] at hq
            · intro _ h
              simp only [Step.err.injEq] at h
              subst h
              obtain ⟨x, m, hh⟩ := check_err b (writeStream b s1) .timeout (by rw [hc])
              simp at hh
            · intro _ h
              simp only [Step.err.injEq] at h
              subst h
              obtain ⟨x, m, hh⟩ := check_err b (writeStream b s1) .hang (by rw [hc])
              simp at hh
          | ok u =>
            simp only
            refine ⟨hz2, by intro e he; simp at he, ?_, by intro _ h; simp at h, by intro _ h; simp at h⟩
            intro b' _
            refine ⟨?_, trivial⟩
            rcases ht with h | ⟨T, hT, hpos, hnow0⟩
            · exact Or.inl h
            · exact Or.inr ⟨T, hT, hpos, by simp only at hnow ⊢; rw [hnow]; exact hnow0⟩

/-- `read_iter` pulled to exhaustion -/
theorem riTake_z : ∀ (f : Nat) (k : Option Nat) (ri : RI) (s : St) (acc : List Bytes), Z s → NoExp ri s →
    Z (riTake f k ri s acc).2
    ∧ (∀ e, (riTake f k ri s acc).1.2 = some e → quietErr e = true → (riTake f k ri s acc).2.script = [])
    ∧ (ri.timeout = none → (riTake f k ri s acc).1.2 ≠ some .timeout)
    ∧ (ri.timeout.isSome = true → (riTake f k ri s acc).1.2 ≠ some .hang) := by
  intro f
  induction f with
  | zero =>
    intro k ri s acc hz _
    refine ⟨hz, ?_, ?_, ?_⟩
    · intro e he hq; simp [riTake] at he; subst he; simp [quietErr] at hq
    · intro _ h; simp [riTake] at h
    · intro _ h; simp [riTake] at h
  | succ f ih =>
    intro k ri s acc hz ht
    unfold riTake
    split
    · exact ⟨hz, by intro e he; simp at he, by intro _ h; simp at h, by intro _ h; simp at h⟩
    · obtain ⟨hz1, herr1, hch1, hnt1, hnh1⟩ := riNext_z ri s hz ht
      cases hr : riNext ri s with
      | mk st rest =>
        obtain ⟨ri', s'⟩ := rest
        rw [hr] at hz1 herr1 hch1 hnt1 hnh1
        cases st with
        | done => exact ⟨hz1, by intro e he; simp at he, by intro _ h; simp at h, by intro _ h; simp at h⟩
        | err e =>
          refine ⟨hz1, ?_, ?_, ?_⟩
          · intro e' he' hq
            simp only [Option.some.injEq] at he'
            subst he'
            exact herr1 e rfl hq
          · intro hn h
            simp only [Option.some.injEq] at h
            subst h
            exact hnt1 hn rfl
          · intro hn h
            simp only [Option.some.injEq] at h
            subst h
            exact hnh1 hn rfl
        | chunk b =>
          simp only
          have hri' : ri'.timeout = ri.timeout := (hch1 b rfl).2
          have := ih (k.map (· - 1)) ri' s' (acc ++ [b]) hz1 (hch1 b rfl).1
          refine ⟨this.1, this.2.1, ?_, ?_⟩
          · intro hn
            exact this.2.2.1 (by rw [hri']; exact hn)
          · intro hn
            exact this.2.2.2 (by rw [hri']; exact hn)

theorem expectLoop_z : ∀ (f : Nat) (pats : List Pat) (buf : Bytes) (ri : RI) (s : St), Z s → NoExp ri s →
    Z (expectLoop f pats buf ri s).2
    ∧ (∀ e, (expectLoop f pats buf ri s).1 = .error e → quietErr e = true → (expectLoop f pats buf ri s).2.script = [])
    ∧ (ri.timeout = none → (expectLoop f pats buf ri s).1 ≠ .error .timeout)
    ∧ (ri.timeout.isSome = true → (expectLoop f pats buf ri s).1 ≠ .error .hang) := by
  intro f
  induction f with
  | zero =>
    intro pats buf ri s hz _
    exact ⟨hz, by intro e he hq; simp [expectLoop] at he; subst he; simp [quietErr] at hq,
      by intro _ h; simp [expectLoop] at h, by intro _ h; simp [expectLoop] at h⟩
  | succ f ih =>
    intro pats buf ri s hz ht
    unfold expectLoop
    obtain ⟨hz1, herr1, hch1, hnt1, hnh1⟩ := riNext_z ri s hz ht
    cases hr : riNext ri s with
    | mk st rest =>
      obtain ⟨ri', s'⟩ := rest
      rw [hr] at hz1 herr1 hch1 hnt1 hnh1
      cases st with
      | done => exact ⟨hz1, by intro e he hq; simp at he; subst he; simp [quietErr] at hq,
          by intro _ h; simp at h, by intro _ h; simp at h⟩
      | err e =>
        refine ⟨hz1, ?_, ?_, ?_⟩
        · intro e' he' hq
          simp only [Except.error.injEq] at he'
          subst he'
          exact herr1 e rfl hq
        · intro hn h
          simp only [Except.error.injEq] at h
          subst h
          exact hnt1 hn rfl
        · intro hn h
          simp only [Except.error.injEq] at h
          subst h
          exact hnh1 hn rfl
      | chunk b =>
        simp only
        cases firstMatch (buf ++ b) 0 pats with
        | some x => obtain ⟨i, a, e⟩ := x; exact ⟨hz1, by intro e he; simp at he, by intro _ h; simp at h, by intro _ h; simp at h⟩
        | none =>
          have := ih pats (buf ++ b) ri' s' hz1 (hch1 b rfl).1
          rw [(hch1 b rfl).2] at this
          exact this

theorem rupLoop_z : ∀ (f : Nat) (buf : Bytes) (ri : RI) (s : St), Z s → NoExp ri s →
    Z (rupLoop f buf ri s).2
    ∧ (∀ e, (rupLoop f buf ri s).1 = .error e → quietErr e = true → (rupLoop f buf ri s).2.script = [])
    ∧ (ri.timeout = none → (rupLoop f buf ri s).1 ≠ .error .timeout)
    ∧ (ri.timeout.isSome = true → (rupLoop f buf ri s).1 ≠ .error .hang) := by
  intro f
  induction f with
  | zero =>
    intro buf ri s hz _
    exact ⟨hz, by intro e he hq; simp [rupLoop] at he; subst he; simp [quietErr] at hq,
      by intro _ h; simp [rupLoop] at h, by intro _ h; simp [rupLoop] at h⟩
  | succ f ih =>
    intro buf ri s hz ht
    unfold rupLoop
    obtain ⟨hz1, herr1, hch1, hnt1, hnh1⟩ := riNext_z ri s hz ht
    cases hr : riNext ri s with
    | mk st rest =>
      obtain ⟨ri', s'⟩ := rest
      rw [hr] at hz1 herr1 hch1 hnt1 hnh1
      cases st with
      | done => exact ⟨hz1, by intro e he hq; simp at he; subst he; simp [quietErr] at hq,
          by intro _ h; simp at h, by intro _ h; simp at h⟩
      | err e =>
        refine ⟨hz1, ?_, ?_, ?_⟩
        · intro e' he' hq
          simp only [Except.error.injEq] at he'
          subst he'
          exact herr1 e rfl hq
        · intro hn h
          simp only [Except.error.injEq] at h
          subst h
          exact hnt1 hn rfl
        · intro hn h
          simp only [Except.error.injEq] at h
          subst h
          exact hnh1 hn rfl
      | chunk b =>
        simp only
        have hrec := ih (buf ++ b) ri' s' hz1 (hch1 b rfl).1
        rw [(hch1 b rfl).2] at hrec
        cases s'.prompt with
        | none => exact hrec
        | some p =>
          simp only
          cases promptEnd p (buf ++ b) with
          | some n => exact ⟨hz1, by intro e he; simp at he, by intro _ h; simp at h, by intro _ h; simp at h⟩
          | none => exact hrec

theorem readUntilPrompt_z (p : Option Pat) (t : Option Nat) (s : St) (hz : Z s) (ht : t ≠ some 0) :
    Z (readUntilPrompt p t s).2
    ∧ (∀ e, (readUntilPrompt p t s).1 = .error e → quietErr e = true → (readUntilPrompt p t s).2.script = [])
    ∧ (t = none → (readUntilPrompt p t s).1 ≠ .error .timeout)
    ∧ (t.isSome = true → (readUntilPrompt p t s).1 ≠ .error .hang) := by
  unfold readUntilPrompt
  cases p with
  | none => exact rupLoop_z _ _ _ _ hz (noExp_start none t s ht)
  | some p =>
    simp only
    have h := rupLoop_z (fuelFor { s with prompt := some (anchor p) }) []
      (riStart none t { s with prompt := some (anchor p) }) { s with prompt := some (anchor p) } hz
      (noExp_start none t _ ht)
    exact ⟨h.1, h.2.1, h.2.2.1, h.2.2.2⟩

theorem readUntilTimeout_z (t : Option Nat) (s : St) (hz : Z s) (ht : t ≠ some 0) :
    Z (readUntilTimeout t s).2
    ∧ (∀ e, (readUntilTimeout t s).1 = .error e → quietErr e = true → (readUntilTimeout t s).2.script = [])
    ∧ (readUntilTimeout t s).1 ≠ .error .timeout
    ∧ (t.isSome = true → (readUntilTimeout t s).1 ≠ .error .hang) := by
  unfold readUntilTimeout
  have h := riTake_z (fuelFor s) none (riStart none t s) s [] hz (noExp_start none t s ht)
  cases hr : riTake (fuelFor s) none (riStart none t s) s [] with
  | mk res s' =>
    rw [hr] at h
    obtain ⟨cs, e⟩ := res
    cases e with
    | none => exact ⟨h.1, by intro e he; simp at he, by simp, by intro _ h; simp at h⟩
    | some e =>
      cases e with
      | timeout => exact ⟨h.1, by intro e he; simp at he, by simp, by intro _ h; simp at h⟩
      | hang => exact ⟨h.1, fun e' he' hq => h.2.1 .hang rfl rfl, by simp, fun hs _ => h.2.2.2 hs rfl⟩
      | death x m => exact ⟨h.1, by intro e' he' hq; simp at he'; subst he'; simp [quietErr] at hq, by simp, by intro _ h; simp at h⟩
      | illegal => exact ⟨h.1, by intro e' he' hq; simp at he'; subst he'; simp [quietErr] at hq, by simp, by intro _ h; simp at h⟩
      | assertion => exact ⟨h.1, by intro e' he' hq; simp at he'; subst he'; simp [quietErr] at hq, by simp, by intro _ h; simp at h⟩
      | fuel => exact ⟨h.1, by intro e' he' hq; simp at he'; subst he'; simp [quietErr] at hq, by simp, by intro _ h; simp at h⟩

/-- `read(n)` without timeout when everything has arrived: it takes exactly `n` bytes, or the
    script did not hold that many -/
theorem read_some_z (n : Nat) (s : St) (hz : Z s) (hwf : WF s) (hc : 0 < s.chunk) :
    Z (read (some n) none s).2
    ∧ (∀ b, (read (some n) none s).1 = .ok b → (pending (read (some n) none s).2).length + n = (pending s).length)
    ∧ ((read (some n) none s).1 = .error .hang → (pending s).length < n ∨ n = 0)
    ∧ (read (some n) none s).1 ≠ .error .timeout
    ∧ (pending s).length ≤ (pending (read (some n) none s).2).length + n := by
  obtain ⟨recs, hf, _, htot, hok, herr⟩ := C03.read_some_spec n none s hwf hc
  have hzz := riTake_z (fuelFor s) none (riStart (some n) none s) s [] hz (Or.inl rfl)
  have hflat := hf.flat
  have hlen : (dataOf recs).flatten.length + (pending (read (some n) none s).2).length = (pending s).length := by
    have := congrArg List.length hflat
    simpa [pending_eq] using this
  have hstate : (read (some n) none s).2 = (riTake (fuelFor s) none (riStart (some n) none s) s []).2 := by
    unfold Chan.read
    simp only
    cases riTake (fuelFor s) none (riStart (some n) none s) s [] with
    | mk res s' =>
      obtain ⟨cs, e⟩ := res
      cases e with
      | some e => rfl
      | none => simp only; split <;> rfl
  refine ⟨by rw [hstate]; exact hzz.1, ?_, ?_, ?_, by unfold C03.total at htot; omega⟩
  · intro b hb
    obtain ⟨h1, h2⟩ := hok b hb
    rw [h1] at h2
    omega
  · intro hh
    obtain ⟨_, hq⟩ := herr .hang hh
    have hlt := hq (Or.inr rfl)
    have hscr : (read (some n) none s).2.script = [] := by
      rw [hstate]
      have hres : (riTake (fuelFor s) none (riStart (some n) none s) s []).1.2 = some .hang := by
        unfold Chan.read at hh
        simp only at hh
        cases hr : riTake (fuelFor s) none (riStart (some n) none s) s [] with
        | mk res s' =>
          rw [hr] at hh
          obtain ⟨cs, e⟩ := res
          cases e with
          | some e => simp only at hh; simp only [Except.error.injEq] at hh; subst hh; rfl
          | none => simp only at hh; split at hh <;> simp at hh
      exact hzz.2.1 .hang hres rfl
    have hp0 : (pending (read (some n) none s).2).length = 0 := by
      simp [pending, hscr]
    rcases hlt with h | h
    · left
      unfold C03.total at h
      omega
    · exact Or.inr h
  · intro hh
    have hres : (riTake (fuelFor s) none (riStart (some n) none s) s []).1.2 = some .timeout := by
      unfold Chan.read at hh
      simp only at hh
      cases hr : riTake (fuelFor s) none (riStart (some n) none s) s [] with
      | mk res s' =>
        rw [hr] at hh
        obtain ⟨cs, e⟩ := res
        cases e with
        | some e => simp only at hh; simp only [Except.error.injEq] at hh; subst hh; rfl
        | none => simp only at hh; split at hh <;> simp at hh
    exact hzz.2.2.1 rfl hres

theorem writeLoop_script : ∀ (f : Nat) (buf : Bytes) (s : St), (writeLoop f buf s).script = s.script := by
  intro f
  induction f with
  | zero => intro buf s; rfl
  | succ f ih =>
    intro buf s
    cases buf with
    | nil => rfl
    | cons b t =>
      unfold writeLoop
      cases s.slowDelay with
      | none => simp only [ioWrite]; split <;> (rw [ih])
      | some d => simp only [ioWrite]; split <;> (rw [ih])

theorem write_script (buf : Bytes) (ign : Bool) (s : St) : (write buf ign s).2.script = s.script := by
  unfold write
  split
  · rfl
  · exact writeLoop_script _ _ _

theorem readBackLen_split (b : Bytes) (k : Nat) :
    Tty.readBackLen (b.take k) + Tty.readBackLen (b.drop k) = Tty.readBackLen b := by
  have h := List.take_append_drop k b
  unfold Tty.readBackLen
  conv => rhs; rw [← h]
  simp only [List.length_append, List.count_append]
  omega

theorem readBackLen_eq (b : Bytes) : b.length + countNl b = Tty.readBackLen b := by
  unfold countNl Tty.readBackLen Tty.CR Tty.LF
  omega

/-- the slice loop of `send(read_back=True)` without timeout, everything pending has arrived -/
theorem sendLoop_rb : ∀ (f : Nat) (buf : Bytes) (ign : Bool) (t0 : Nat) (s : St),
    buf.length < f → Z s → WF s → 0 < s.chunk → 0 < s.slice → (s.slowDelay.isSome → 0 < s.slowChunk) →
    Z (sendLoop f buf true none ign t0 s).2
    ∧ ((sendLoop f buf true none ign t0 s).1 = .ok () →
        (pending (sendLoop f buf true none ign t0 s).2).length + Tty.readBackLen buf = (pending s).length)
    ∧ ((sendLoop f buf true none ign t0 s).1 = .error .hang → (pending s).length < Tty.readBackLen buf)
    ∧ (sendLoop f buf true none ign t0 s).1 ≠ .error .timeout
    ∧ (sendLoop f buf true none ign t0 s).1 ≠ .error .fuel
    ∧ (pending s).length ≤ (pending (sendLoop f buf true none ign t0 s).2).length + Tty.readBackLen buf := by
  intro f
  induction f with
  | zero => intro buf _ _ s hf; omega
  | succ f ih =>
    intro buf ign t0 s hf hz hwf hc hsl hsc
    cases buf with
    | nil =>
      simp only [sendLoop]
      exact ⟨hz, by intro _; simp [Tty.readBackLen], by intro h; simp at h, by simp, by simp, by omega⟩
    | cons b t =>
      unfold sendLoop
      simp only
      obtain ⟨ws1, hf1, _, _, _, herr1⟩ := C03.write_spec ((b :: t).take s.slice) ign s hsc
      have hscr1 := write_script ((b :: t).take s.slice) ign s
      cases hw : write ((b :: t).take s.slice) ign s with
      | mk wr s1 =>
        rw [hw] at hf1 herr1 hscr1
        simp only at hscr1
        cases wr with
        | error e =>
          simp only
          obtain ⟨he, _⟩ := herr1 e rfl
          subst he
          refine ⟨?_, by intro h; simp at h, by intro h; simp at h, by simp, by simp, ?_⟩
          · intro p hp; rw [hscr1] at hp; exact hz p hp
          · simp only [pending, hscr1]; omega
        | ok u =>
          simp only
          have hz1 : Z s1 := by intro p hp; rw [hscr1] at hp; exact hz p hp
          have hwf1 : WF s1 := hf1.wf hwf
          have hc1 : 0 < s1.chunk := by rw [hf1.chunk]; exact hc
          have hp1 : pending s1 = pending s := by simp only [pending, hscr1]
          simp only [remaining]
          have hn := readBackLen_eq ((b :: t).take s.slice)
          obtain ⟨hz2, hok2, hhang2, hnt2, hle2⟩ := read_some_z (((b :: t).take s.slice).length + countNl ((b :: t).take s.slice)) s1 hz1 hwf1 hc1
          obtain ⟨recs, hfr2, _, _, _, herr2⟩ := C03.read_some_spec (((b :: t).take s.slice).length + countNl ((b :: t).take s.slice)) none s1 hwf1 hc1
          cases hrd : read (some (((b :: t).take s.slice).length + countNl ((b :: t).take s.slice))) none s1 with
          | mk rr s2 =>
            rw [hrd] at hz2 hok2 hhang2 hnt2 hfr2 herr2 hle2
            simp only at hz2 hok2 hhang2 hnt2 hfr2 herr2 hle2
            have hsplit0 := readBackLen_split (b :: t) s.slice
            cases rr with
            | error e =>
              simp only [if_true]
              refine ⟨hz2, by intro h; simp at h, ?_, ?_, ?_, by rw [hp1] at hle2; omega⟩
              · intro h
                have he : e = .hang := by simpa using h
                subst he
                have hsplit := readBackLen_split (b :: t) s.slice
                rcases hhang2 rfl with h | h
                · rw [hp1] at h; omega
                · exfalso
                  have : 0 < ((b :: t).take s.slice).length := by
                    simp only [List.length_take, List.length_cons]; omega
                  omega
              · intro h
                have he : e = .timeout := by simpa using h
                subst he
                exact hnt2 rfl
              · intro h
                have he : e = .fuel := by simpa using h
                subst he
                obtain ⟨hk, _⟩ := herr2 .fuel rfl
                rcases hk with h | h | ⟨x, m, h⟩ <;> simp at h
            | ok bb =>
              simp only [if_true]
              have hdrop : ((b :: t).drop s.slice).length < f := by
                simp only [List.length_drop, List.length_cons] at hf ⊢; omega
              have hsl2 : s2.slice = s.slice := by rw [hfr2.slice, hf1.slice]
              have hih := ih ((b :: t).drop s.slice) ign t0 s2 hdrop hz2 (hfr2.wf hwf1)
                (by rw [hfr2.chunk]; exact hc1) (by rw [hsl2]; exact hsl)
                (by rw [hfr2.slowDelay, hfr2.slowChunk, hf1.slowDelay, hf1.slowChunk]; exact hsc)
              rw [hsl2]
              obtain ⟨h1, h2, h3, h4, h5, h6⟩ := hih
              have hsplit := readBackLen_split (b :: t) s.slice
              have hcons := hok2 bb rfl
              refine ⟨h1, ?_, ?_, h4, h5, by rw [hp1] at hle2; omega⟩
              · intro h
                have := h2 h
                rw [hp1] at hcons
                omega
              · intro h
                have := h3 h
                rw [hp1] at hcons
                omega

end Run
