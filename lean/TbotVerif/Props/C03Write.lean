import TbotVerif.Props.C03
/-! C03 — raw channel I/O: write side. -/

namespace C03
open Chan Spec

/-- what a step that may read and write can change -/
structure IOFrame (s s' : St) (recs : List ReadRec) (ws : List (Bytes × Nat)) : Prop where
  reads : s'.reads = s.reads ++ recs
  writes : s'.writes = s.writes ++ ws
  chunk : s'.chunk = s.chunk
  slice : s'.slice = s.slice
  prompt : s'.prompt = s.prompt
  blacklist : s'.blacklist = s.blacklist
  slowDelay : s'.slowDelay = s.slowDelay
  slowChunk : s'.slowChunk = s.slowChunk
  streams : s'.streams = s.streams
  logPrompt : s'.logPrompt = s.logPrompt
  flat : (dataOf recs).flatten ++ flat s'.script = flat s.script
  now : s.now ≤ s'.now
  wf : WF s → WF s'

theorem IOFrame.refl (s : St) : IOFrame s s [] [] := by
  constructor <;> simp [dataOf]

theorem IOFrame.trans {a b c : St} {r1 r2 : List ReadRec} {w1 w2 : List (Bytes × Nat)}
    (h1 : IOFrame a b r1 w1) (h2 : IOFrame b c r2 w2) : IOFrame a c (r1 ++ r2) (w1 ++ w2) := by
  constructor
  · rw [h2.reads, h1.reads, List.append_assoc]
  · rw [h2.writes, h1.writes, List.append_assoc]
  · rw [h2.chunk, h1.chunk]
  · rw [h2.slice, h1.slice]
  · rw [h2.prompt, h1.prompt]
  · rw [h2.blacklist, h1.blacklist]
  · rw [h2.slowDelay, h1.slowDelay]
  · rw [h2.slowChunk, h1.slowChunk]
  · rw [h2.streams, h1.streams]
  · rw [h2.logPrompt, h1.logPrompt]
  · rw [← h1.flat, ← h2.flat]; simp [dataOf, List.filterMap_append]
  · exact Nat.le_trans h1.now h2.now
  · exact fun h => h2.wf (h1.wf h)

theorem IOFrame.ofRead {s s' : St} {recs : List ReadRec} (h : ReadFrame s s' recs) : IOFrame s s' recs [] := by
  constructor
  · exact h.reads
  · rw [h.writes]; simp
  · exact h.chunk
  · exact h.slice
  · exact h.prompt
  · exact h.blacklist
  · exact h.slowDelay
  · exact h.slowChunk
  · exact h.streams
  · exact h.logPrompt
  · exact h.flat
  · exact h.now
  · exact h.wf

theorem clamp_bounds (len a : Nat) (h : 1 ≤ len) : 1 ≤ clamp 1 len a ∧ clamp 1 len a ≤ len := by
  unfold clamp
  constructor
  · exact Nat.le_max_left _ _
  · exact Nat.max_le.mpr ⟨h, Nat.min_le_left _ _⟩

/-- one transport write -/
theorem ioWrite_spec (buf : Bytes) (s : St) (h : buf ≠ []) :
    IOFrame s (ioWrite buf s).2 [] [(buf, (ioWrite buf s).1)]
      ∧ 1 ≤ (ioWrite buf s).1 ∧ (ioWrite buf s).1 ≤ buf.length := by
  have hlen : 1 ≤ buf.length := List.length_pos_iff.mpr h
  unfold ioWrite
  cases hacc : s.accept with
  | nil =>
    simp only
    refine ⟨?_, hlen, Nat.le_refl _⟩
    exact { reads := by simp, writes := rfl, chunk := rfl, slice := rfl, prompt := rfl, blacklist := rfl,
            slowDelay := rfl, slowChunk := rfl, streams := rfl, logPrompt := rfl, flat := by simp [dataOf],
            now := Nat.le_refl _, wf := fun h => h }
  | cons a as =>
    simp only
    have hb := clamp_bounds buf.length a hlen
    refine ⟨?_, hb.1, hb.2⟩
    exact { reads := by simp, writes := rfl, chunk := rfl, slice := rfl, prompt := rfl, blacklist := rfl,
            slowDelay := rfl, slowChunk := rfl, streams := rfl, logPrompt := rfl, flat := by simp [dataOf],
            now := Nat.le_refl _, wf := fun h => h }

/-- The cursor loop of `Channel.write`. -/
theorem writeLoop_spec : ∀ (f : Nat) (buf : Bytes) (s : St), buf.length ≤ f →
    (s.slowDelay.isSome → 0 < s.slowChunk) →
    ∃ ws, IOFrame s (writeLoop f buf s) [] ws
      ∧ writeTrace s.slowDelay s.slowChunk buf ws = true
      ∧ accepted ws = buf
      ∧ (∀ w ∈ ws, w.1.length ≤ buf.length)
      ∧ (s.slowDelay.isSome → ∀ w ∈ ws, w.1.length ≤ s.slowChunk) := by
  intro f
  induction f with
  | zero =>
    intro buf s hf _
    have : buf = [] := List.length_eq_zero_iff.mp (by omega)
    subst this
    exact ⟨[], by simpa [writeLoop] using IOFrame.refl s, rfl, rfl, by simp, by simp⟩
  | succ f ih =>
    intro buf s hf hsc
    cases buf with
    | nil => exact ⟨[], by simpa [writeLoop] using IOFrame.refl s, rfl, rfl, by simp, by simp⟩
    | cons b t =>
      unfold writeLoop
      cases hsd : s.slowDelay with
      | none =>
        simp only
        obtain ⟨hfr, hk1, hk2⟩ := ioWrite_spec (b :: t) s (by simp)
        generalize hio : ioWrite (b :: t) s = io at hfr hk1 hk2
        obtain ⟨k, s1⟩ := io
        simp only at hfr hk1 hk2 ⊢
        have hsd1 : s1.slowDelay = none := by rw [hfr.slowDelay, hsd]
        obtain ⟨ws, hf2, ht2, ha2, hl2, _⟩ := ih ((b :: t).drop k) s1
          (by simp only [List.length_drop]; omega) (by rw [hsd1]; simp)
        refine ⟨(b :: t, k) :: ws, hfr.trans hf2, ?_, ?_, ?_, by simp⟩
        · unfold writeTrace
          simp only [List.isEmpty_cons, Bool.not_false, beq_self_eq_true, Bool.true_and, Bool.and_eq_true,
            decide_eq_true_eq]
          refine ⟨⟨hk1, hk2⟩, ?_⟩
          rw [hsd1, hfr.slowChunk] at ht2; exact ht2
        · simp only [accepted, List.map_cons, List.flatten_cons]
          have : (ws.map fun w => w.1.take w.2).flatten = (b :: t).drop k := ha2
          rw [this, List.take_append_drop]
        · intro w hw
          rcases List.mem_cons.mp hw with rfl | hw
          · exact Nat.le_refl _
          · have := hl2 w hw
            simp only [List.length_drop] at this
            omega
      | some d =>
        simp only
        have hc : 0 < s.slowChunk := hsc (by rw [hsd]; rfl)
        have hne : (b :: t).take s.slowChunk ≠ [] := by
          intro h
          have := congrArg List.length h
          simp only [List.length_take, List.length_cons, List.length_nil] at this
          omega
        obtain ⟨hfr, hk1, hk2⟩ := ioWrite_spec ((b :: t).take s.slowChunk) s hne
        generalize hio : ioWrite ((b :: t).take s.slowChunk) s = io at hfr hk1 hk2
        obtain ⟨k, s1⟩ := io
        simp only at hfr hk1 hk2 ⊢
        have hoff : ((b :: t).take s.slowChunk).length ≤ s.slowChunk := by
          simp only [List.length_take]; exact Nat.min_le_left _ _
        have hoff2 : ((b :: t).take s.slowChunk).length ≤ (b :: t).length := by
          simp only [List.length_take]; exact Nat.min_le_right _ _
        generalize hs2 : ({ s1 with now := s1.now + d } : St) = s2
        have hfr2 : IOFrame s s2 [] [((b :: t).take s.slowChunk, k)] := by
          subst hs2
          exact { reads := hfr.reads, writes := hfr.writes, chunk := hfr.chunk, slice := hfr.slice,
                  prompt := hfr.prompt, blacklist := hfr.blacklist, slowDelay := hfr.slowDelay,
                  slowChunk := hfr.slowChunk, streams := hfr.streams, logPrompt := hfr.logPrompt,
                  flat := hfr.flat, now := Nat.le_trans hfr.now (Nat.le_add_right _ _), wf := hfr.wf }
        have hsd2 : s2.slowDelay = some d := by rw [hfr2.slowDelay, hsd]
        obtain ⟨ws, hf2, ht2, ha2, hl2, hs2'⟩ := ih ((b :: t).drop k) s2
          (by simp only [List.length_drop]; omega) (by intro _; rw [hfr2.slowChunk]; exact hc)
        refine ⟨((b :: t).take s.slowChunk, k) :: ws, hfr2.trans hf2, ?_, ?_, ?_, ?_⟩
        · unfold writeTrace
          simp only [List.isEmpty_cons, Bool.not_false, beq_self_eq_true, Bool.true_and, Bool.and_eq_true,
            decide_eq_true_eq]
          refine ⟨⟨hk1, hk2⟩, ?_⟩
          rw [hsd2, hfr2.slowChunk] at ht2; exact ht2
        · simp only [accepted, List.map_cons, List.flatten_cons]
          have : (ws.map fun w => w.1.take w.2).flatten = (b :: t).drop k := ha2
          rw [this, List.take_take, Nat.min_eq_left (Nat.le_trans hk2 hoff), List.take_append_drop]
        · intro w hw
          rcases List.mem_cons.mp hw with rfl | hw
          · exact hoff2
          · have := hl2 w hw
            simp only [List.length_drop] at this
            omega
        · intro _ w hw
          rcases List.mem_cons.mp hw with rfl | hw
          · exact hoff
          · have := hs2' (by rw [hsd2]; rfl) w hw
            rw [hfr2.slowChunk] at this; exact this

theorem forbidden_iff (bl : List Byte) (buf : Bytes) : forbidden bl buf = true ↔ ∃ x ∈ bl, x ∈ buf := by
  unfold forbidden
  simp [List.any_eq_true]

theorem forbidden_take (bl : List Byte) (buf : Bytes) (n : Nat) (h : forbidden bl (buf.take n) = true) :
    forbidden bl buf = true := by
  rw [forbidden_iff] at *
  obtain ⟨x, hx, hm⟩ := h
  exact ⟨x, hx, List.mem_of_mem_take hm⟩

theorem forbidden_drop (bl : List Byte) (buf : Bytes) (n : Nat) (h : forbidden bl (buf.drop n) = true) :
    forbidden bl buf = true := by
  rw [forbidden_iff] at *
  obtain ⟨x, hx, hm⟩ := h
  exact ⟨x, hx, List.mem_of_mem_drop hm⟩

theorem forbidden_append (bl : List Byte) (a b : Bytes) :
    forbidden bl (a ++ b) = (forbidden bl a || forbidden bl b) := by
  rw [Bool.eq_iff_iff]
  simp only [Bool.or_eq_true, forbidden_iff, List.mem_append]
  constructor
  · rintro ⟨x, hx, h | h⟩
    · exact Or.inl ⟨x, hx, h⟩
    · exact Or.inr ⟨x, hx, h⟩
  · rintro (⟨x, hx, h⟩ | ⟨x, hx, h⟩)
    · exact ⟨x, hx, Or.inl h⟩
    · exact ⟨x, hx, Or.inr h⟩

/-- `Channel.write` on any state. -/
theorem write_spec (buf : Bytes) (ign : Bool) (s : St) (hsc : s.slowDelay.isSome → 0 < s.slowChunk) :
    ∃ ws, IOFrame s (write buf ign s).2 [] ws
      ∧ (∀ w ∈ ws, w.1.length ≤ buf.length)
      ∧ (s.slowDelay.isSome → ∀ w ∈ ws, w.1.length ≤ s.slowChunk)
      ∧ ((write buf ign s).1 = .ok () →
          (ign = true ∨ forbidden s.blacklist buf = false)
          ∧ writeTrace s.slowDelay s.slowChunk buf ws = true ∧ accepted ws = buf)
      ∧ (∀ e, (write buf ign s).1 = .error e →
          e = .illegal ∧ ign = false ∧ forbidden s.blacklist buf = true ∧ ws = []) := by
  unfold write
  split
  · rename_i h
    simp only [Bool.and_eq_true, Bool.not_eq_true'] at h
    refine ⟨[], IOFrame.refl s, by simp, by simp, by simp, ?_⟩
    intro e he
    simp only [Except.error.injEq] at he
    exact ⟨he.symm, h.1, h.2, rfl⟩
  · rename_i h
    obtain ⟨ws, hf, ht, ha, hl, hs⟩ := writeLoop_spec buf.length buf s (Nat.le_refl _) hsc
    refine ⟨ws, hf, hl, hs, ?_, by simp⟩
    intro _
    refine ⟨?_, ht, ha⟩
    cases ign with
    | true => exact Or.inl rfl
    | false =>
      right
      simpa using h

/-! ### the read-back of `send` -/

theorem total_append (a b : List ReadRec) : total (a ++ b) = total a + total b := by
  simp [total, dataOf, List.filterMap_append]

/-- `Spec.readBack` is the expression the model (`sendLoop`) passes to `read` after a slice -/
theorem readBack_model (c : Bytes) : c.length + countNl c = readBack c := rfl

/-- … and it is `len(b) + b.count(b"\r") + b.count(b"\n")` -/
theorem readBack_eq (b : Bytes) : readBack b = b.length + b.count 13 + b.count 10 := by
  unfold readBack countNl; omega

@[simp] theorem readBack_nil : readBack [] = 0 := rfl

theorem readBack_append (a b : Bytes) : readBack (a ++ b) = readBack a + readBack b := by
  unfold readBack countNl
  simp only [List.length_append, List.count_append]
  omega

theorem readBack_pos {b : Bytes} (h : b ≠ []) : 0 < readBack b := by
  have := List.length_pos_iff.mpr h
  unfold readBack; omega

theorem accepted_append (a b : List (Bytes × Nat)) : accepted (a ++ b) = accepted a ++ accepted b := by
  simp [accepted]

@[simp] theorem accepted_nil : accepted [] = [] := rfl

/-- The slice loop of `Channel.send`. -/
theorem sendLoop_spec : ∀ (f : Nat) (buf : Bytes) (rb : Bool) (timeout : Option Nat) (ign : Bool) (t0 : Nat) (s : St),
    buf.length < f → 0 < s.slice → WF s → 0 < s.chunk → (s.slowDelay.isSome → 0 < s.slowChunk) →
    ∃ recs ws, IOFrame s (sendLoop f buf rb timeout ign t0 s).2 recs ws
      ∧ (∃ rest, buf = accepted ws ++ rest ∧ ((sendLoop f buf rb timeout ign t0 s).1 = .ok () → rest = []))
      ∧ (∀ w ∈ ws, w.1.length ≤ s.slice)
      ∧ (s.slowDelay.isSome → ∀ w ∈ ws, w.1.length ≤ s.slowChunk)
      ∧ (ign = false → forbidden s.blacklist (accepted ws) = false)
      ∧ (∀ e, (sendLoop f buf rb timeout ign t0 s).1 = .error e →
          (e = .illegal ∧ ign = false ∧ forbidden s.blacklist buf = true)
          ∨ e = .timeout ∨ e = .hang ∨ ∃ x m, e = .death x m)
      -- the bytes delivered to the read-backs of the slices written so far
      ∧ (rb = false → recs = [])
      ∧ total recs ≤ readBack (accepted ws)
      ∧ ((sendLoop f buf rb timeout ign t0 s).1 = .ok () → rb = true → total recs = readBack (accepted ws))
      ∧ (∀ e, (sendLoop f buf rb timeout ign t0 s).1 = .error e → e = .timeout ∨ e = .hang →
          rb = true ∧ total recs < readBack (accepted ws)) := by
  intro f
  induction f with
  | zero => intro buf _ _ _ _ s hf; omega
  | succ f ih =>
    intro buf rb timeout ign t0 s hf hsl hwf hc hsc
    cases buf with
    | nil =>
      refine ⟨[], [], by simpa [sendLoop] using IOFrame.refl s, ⟨[], rfl, fun _ => rfl⟩, by simp, by simp, ?_, ?_,
        fun _ => rfl, by simp, fun _ _ => by simp, ?_⟩
      · intro _; simp [accepted, forbidden]
      · intro e he; simp [sendLoop] at he
      · intro e he; simp [sendLoop] at he
    | cons b t =>
      unfold sendLoop
      simp only
      obtain ⟨ws1, hf1, hl1, hs1, hok1, herr1⟩ := write_spec ((b :: t).take s.slice) ign s hsc
      have htl : ((b :: t).take s.slice).length ≤ s.slice := by
        simp only [List.length_take]; exact Nat.min_le_left _ _
      cases hw : write ((b :: t).take s.slice) ign s with
      | mk wr s1 =>
        rw [hw] at hf1 hok1 herr1
        cases wr with
        | error e =>
          simp only
          obtain ⟨he, hi, hfb, hws⟩ := herr1 e rfl
          subst hws
          refine ⟨[], [], hf1, ⟨b :: t, rfl, fun h => by simp at h⟩, by simp, by simp, ?_, ?_,
            fun _ => rfl, by simp, fun h => by simp at h, ?_⟩
          · intro _; simp [accepted, forbidden]
          · intro e' he'
            simp only [Except.error.injEq] at he'
            subst he'
            exact Or.inl ⟨he, hi, forbidden_take _ _ _ hfb⟩
          · intro e' he' hk
            simp only [Except.error.injEq] at he'
            subst he'
            rw [he] at hk
            simp at hk
        | ok u =>
          simp only
          obtain ⟨hfine, _, hacc1⟩ := hok1 rfl
          have hw1 : ∀ w ∈ ws1, w.1.length ≤ s.slice := fun w hw => Nat.le_trans (hl1 w hw) htl
          have hdrop : ((b :: t).drop s.slice).length < f := by
            simp only [List.length_drop, List.length_cons] at hf ⊢; omega
          have hnf1 : ign = false → forbidden s.blacklist (accepted ws1) = false := by
            intro hi
            rcases hfine with h | h
            · rw [hi] at h; simp at h
            · rw [hacc1]; exact h
          have hpos : 0 < readBack ((b :: t).take s.slice) := by
            unfold readBack
            simp only [List.length_take, List.length_cons]
            omega
          -- common continuation after the (optional) read-back
          have cont : ∀ (s2 : St) (recs1 : List ReadRec), IOFrame s s2 recs1 ws1 →
              (rb = false → recs1 = []) → (rb = true → total recs1 = readBack (accepted ws1)) →
              ∃ recs ws, IOFrame s (sendLoop f ((b :: t).drop s2.slice) rb timeout ign t0 s2).2 recs ws
                ∧ (∃ rest, b :: t = accepted ws ++ rest ∧
                    ((sendLoop f ((b :: t).drop s2.slice) rb timeout ign t0 s2).1 = .ok () → rest = []))
                ∧ (∀ w ∈ ws, w.1.length ≤ s.slice)
                ∧ (s.slowDelay.isSome → ∀ w ∈ ws, w.1.length ≤ s.slowChunk)
                ∧ (ign = false → forbidden s.blacklist (accepted ws) = false)
                ∧ (∀ e, (sendLoop f ((b :: t).drop s2.slice) rb timeout ign t0 s2).1 = .error e →
                    (e = .illegal ∧ ign = false ∧ forbidden s.blacklist (b :: t) = true)
                    ∨ e = .timeout ∨ e = .hang ∨ ∃ x m, e = .death x m)
                ∧ (rb = false → recs = [])
                ∧ total recs ≤ readBack (accepted ws)
                ∧ ((sendLoop f ((b :: t).drop s2.slice) rb timeout ign t0 s2).1 = .ok () → rb = true →
                    total recs = readBack (accepted ws))
                ∧ (∀ e, (sendLoop f ((b :: t).drop s2.slice) rb timeout ign t0 s2).1 = .error e →
                    e = .timeout ∨ e = .hang → rb = true ∧ total recs < readBack (accepted ws)) := by
            intro s2 recs1 hfr hr1 hr2
            have hsl2 : s2.slice = s.slice := hfr.slice
            rw [hsl2]
            obtain ⟨recs, ws, hf2, ⟨rest, hrest, hrok⟩, hwl, hws, hnf, herr, hnr, hle, hokr, hto⟩ :=
              ih ((b :: t).drop s.slice) rb timeout ign t0 s2 hdrop (by rw [hsl2]; exact hsl) (hfr.wf hwf)
                (by rw [hfr.chunk]; exact hc) (by rw [hfr.slowDelay, hfr.slowChunk]; exact hsc)
            have hrbapp : readBack (accepted (ws1 ++ ws)) = readBack (accepted ws1) + readBack (accepted ws) := by
              rw [accepted_append, readBack_append]
            have htot : total (recs1 ++ recs) = total recs1 + total recs := total_append _ _
            have h1le : total recs1 ≤ readBack (accepted ws1) := by
              cases hb : rb with
              | false => rw [hr1 hb]; exact Nat.zero_le _
              | true => exact Nat.le_of_eq (hr2 hb)
            refine ⟨recs1 ++ recs, ws1 ++ ws, hfr.trans hf2, ⟨rest, ?_, hrok⟩, ?_, ?_, ?_, ?_, ?_, ?_, ?_, ?_⟩
            · have : accepted (ws1 ++ ws) = accepted ws1 ++ accepted ws := by simp [accepted]
              rw [this, hacc1, List.append_assoc, ← hrest, List.take_append_drop]
            · intro w hw
              rcases List.mem_append.mp hw with h | h
              · exact hw1 w h
              · have := hwl w h; rw [hsl2] at this; exact this
            · intro hsd w hw
              rcases List.mem_append.mp hw with h | h
              · exact hs1 hsd w h
              · have := hws (by rw [hfr.slowDelay]; exact hsd) w h
                rw [hfr.slowChunk] at this; exact this
            · intro hi
              have : accepted (ws1 ++ ws) = accepted ws1 ++ accepted ws := by simp [accepted]
              rw [this, forbidden_append, hnf1 hi]
              have := hnf hi
              rw [hfr.blacklist] at this
              simp [this]
            · intro e he
              rcases herr e he with ⟨h1, h2, h3⟩ | h
              · left
                rw [hfr.blacklist] at h3
                exact ⟨h1, h2, forbidden_drop _ _ _ h3⟩
              · exact Or.inr h
            · intro h; rw [hr1 h, hnr h]; rfl
            · rw [htot, hrbapp]; omega
            · intro hok hrb
              rw [htot, hrbapp, hr2 hrb, hokr hok hrb]
            · intro e he hk
              obtain ⟨hrb, hlt⟩ := hto e he hk
              refine ⟨hrb, ?_⟩
              rw [htot, hrbapp, hr2 hrb]; omega
          cases rb with
          | false =>
            rw [if_neg Bool.false_ne_true]
            exact cont s1 [] hf1 (fun _ => rfl) (fun h => by cases h)
          | true =>
            rw [if_pos rfl]
            cases hrem : remaining timeout t0 s1.now with
            | none =>
              simp only
              refine ⟨[], ws1, hf1, ⟨(b :: t).drop s.slice, ?_, fun h => by simp at h⟩, hw1, hs1, hnf1, ?_,
                fun _ => rfl, Nat.zero_le _, fun h => by simp at h, ?_⟩
              · rw [hacc1, List.take_append_drop]
              · intro e he
                simp only [Except.error.injEq] at he
                exact Or.inr (Or.inl he.symm)
              · -- the time was used up by (slow) writing: the echo of this slice is still owed
                intro e _ _
                exact ⟨trivial, by rw [hacc1]; exact hpos⟩
            | some rem =>
              simp only
              obtain ⟨recs1, hfr, _, htotR, hokR, herrR⟩ :=
                read_some_spec (((b :: t).take s.slice).length + countNl ((b :: t).take s.slice)) rem s1
                  (hf1.wf hwf) (by rw [hf1.chunk]; exact hc)
              cases hrd : Chan.read (some (((b :: t).take s.slice).length + countNl ((b :: t).take s.slice))) rem s1 with
              | mk rr s2 =>
                rw [hrd] at hfr hokR herrR
                have hfr2 : IOFrame s s2 ([] ++ recs1) (ws1 ++ []) := hf1.trans (IOFrame.ofRead hfr)
                simp only [List.nil_append, List.append_nil] at hfr2
                cases rr with
                | error e =>
                  simp only
                  refine ⟨recs1, ws1, hfr2, ⟨(b :: t).drop s.slice, ?_, fun h => by simp at h⟩, hw1, hs1, hnf1, ?_,
                    (fun h => by cases h), by rw [hacc1]; exact htotR, fun h => by simp at h, ?_⟩
                  · rw [hacc1, List.take_append_drop]
                  · intro e' he
                    simp only [Except.error.injEq] at he
                    subst he
                    exact Or.inr (herrR e rfl).1
                  · -- the read-back of this slice timed out: fewer bytes than its echo arrived
                    intro e' he hk
                    simp only [Except.error.injEq] at he
                    subst he
                    refine ⟨trivial, ?_⟩
                    rw [hacc1]
                    rcases (herrR e rfl).2 hk with h | h
                    · exact h
                    · exfalso
                      have := hpos
                      unfold readBack at this
                      omega
                | ok bb =>
                  simp only
                  have htot1 : total recs1 = readBack (accepted ws1) := by
                    obtain ⟨h1, h2⟩ := hokR bb rfl
                    rw [hacc1]
                    unfold total
                    rw [← h1]
                    exact h2
                  have hcont := cont s2 recs1 hfr2 (fun h => by cases h) (fun _ => htot1)
                  simp only at hcont
                  exact hcont

end C03
