import TbotVerif.Props.PatLemmas
/-! Semantics of the regex subset: the backtracking matcher `Re.M` is sound and complete for
    the denotational language `Re.L` on `eos`-free expressions (port of DESIGN.md Appendix C.1
    to byte classes), matches are no longer than `maxWidth`, and `re.search` (`searchFrom`)
    returns the leftmost offset at which the matcher succeeds. -/

namespace Re

/-! ### soundness -/

theorem mrep_sound {β} (mr : Bytes → (Bytes → Option β) → Option β) (Lr : Bytes → Prop)
    (hmr : ∀ s k x, mr s k = some x → ∃ u v, s = u ++ v ∧ Lr u ∧ k v = some x) :
    ∀ hi lo s k x, mrep mr lo hi s k = some x →
      ∃ u v, s = u ++ v ∧ Lrep Lr lo hi u ∧ k v = some x := by
  intro hi
  induction hi with
  | zero =>
    intro lo s k x h
    unfold mrep at h
    split at h
    · rename_i h0
      exact ⟨[], s, rfl, ⟨h0, rfl⟩, h⟩
    · simp at h
  | succ hi ih =>
    intro lo s k x h
    unfold mrep at h
    split at h
    · rename_i y hy
      simp only [Option.some.injEq] at h; subst h
      obtain ⟨u, v, rfl, hu, hk⟩ := hmr _ _ _ hy
      obtain ⟨u', v', rfl, hu', hk'⟩ := ih _ _ _ _ hk
      exact ⟨u ++ u', v', by simp, Or.inr ⟨u, u', rfl, hu, hu'⟩, hk'⟩
    · split at h
      · rename_i h0
        exact ⟨[], s, rfl, Or.inl ⟨h0, rfl⟩, h⟩
      · simp at h

/-- **soundness of the matcher**: whatever `M r s k` returns was returned by the continuation
    on a rest `v` of the input after a prefix in the language of `r` -/
theorem M_sound {β} : ∀ (r : Re), r.noEos = true → ∀ (s : Bytes) (k : Bytes → Option β) x,
    M r s k = some x → ∃ u v, s = u ++ v ∧ L r u ∧ k v = some x := by
  intro r
  induction r with
  | eps => intro _ s k x h; exact ⟨[], s, rfl, rfl, h⟩
  | cls neg rs =>
    intro _ s k x h
    unfold M at h
    split at h
    · rename_i c t
      split at h
      · rename_i hp; exact ⟨[c], t, rfl, ⟨c, rfl, hp⟩, h⟩
      · simp at h
    · simp at h
  | seq a b iha ihb =>
    intro hne s k x h
    simp only [noEos, Bool.and_eq_true] at hne
    unfold M at h
    obtain ⟨u, v, rfl, hu, hk⟩ := iha hne.1 _ _ _ h
    obtain ⟨u', v', rfl, hu', hk'⟩ := ihb hne.2 _ _ _ hk
    exact ⟨u ++ u', v', by simp, ⟨u, u', rfl, hu, hu'⟩, hk'⟩
  | alt a b iha ihb =>
    intro hne s k x h
    simp only [noEos, Bool.and_eq_true] at hne
    unfold M at h
    split at h
    · rename_i y hy
      simp only [Option.some.injEq] at h; subst h
      obtain ⟨u, v, rfl, hu, hk⟩ := iha hne.1 _ _ _ hy
      exact ⟨u, v, rfl, Or.inl hu, hk⟩
    · obtain ⟨u, v, rfl, hu, hk⟩ := ihb hne.2 _ _ _ h
      exact ⟨u, v, rfl, Or.inr hu, hk⟩
  | rep r lo hi ih =>
    intro hne s k x h
    simp only [noEos] at hne
    unfold M at h
    exact mrep_sound (M r) (L r) (fun s k x hx => ih hne s k x hx) hi lo s k x h
  | eos => intro hne; simp [noEos] at hne
  | la r _ => intro hne; simp [noEos] at hne

/-! ### completeness -/

theorem mrep_complete {β} (mr : Bytes → (Bytes → Option β) → Option β) (Lr : Bytes → Prop)
    (hmr : ∀ u v (k : Bytes → Option β), Lr u → (k v).isSome → (mr (u ++ v) k).isSome) :
    ∀ hi lo u v (k : Bytes → Option β), Lrep Lr lo hi u → (k v).isSome →
      (mrep mr lo hi (u ++ v) k).isSome := by
  intro hi
  induction hi with
  | zero =>
    intro lo u v k hu hk
    obtain ⟨h0, rfl⟩ := hu
    simp [mrep, h0, hk]
  | succ hi ih =>
    intro lo u v k hu hk
    unfold mrep
    rcases hu with ⟨h0, rfl⟩ | ⟨a, b, rfl, ha, hb⟩
    · split
      · simp
      · simp [h0, hk]
    · have : (mr (a ++ (b ++ v)) (fun t => mrep mr (lo - 1) hi t k)).isSome :=
        hmr a (b ++ v) _ ha (ih _ _ _ _ hb hk)
      rw [List.append_assoc]
      split
      · simp
      · rename_i hn; rw [hn] at this; simp at this

/-- **completeness of the matcher**: if a prefix of the input is in the language and the
    continuation accepts the rest, the matcher finds *a* result -/
theorem M_complete {β} : ∀ (r : Re), r.noEos = true → ∀ (u v : Bytes) (k : Bytes → Option β),
    L r u → (k v).isSome → (M r (u ++ v) k).isSome := by
  intro r
  induction r with
  | eps => intro _ u v k hu hk; subst hu; simpa [M] using hk
  | cls neg rs =>
    intro _ u v k hu hk
    obtain ⟨c, rfl, hp⟩ := hu
    simp [M, hp, hk]
  | seq a b iha ihb =>
    intro hne u v k hu hk
    simp only [noEos, Bool.and_eq_true] at hne
    obtain ⟨x, y, rfl, hx, hy⟩ := hu
    unfold M
    rw [List.append_assoc]
    exact iha hne.1 x (y ++ v) _ hx (ihb hne.2 y v k hy hk)
  | alt a b iha ihb =>
    intro hne u v k hu hk
    simp only [noEos, Bool.and_eq_true] at hne
    unfold M
    rcases hu with hu | hu
    · have := iha hne.1 u v k hu hk
      split
      · simp
      · rename_i hn; rw [hn] at this; simp at this
    · split
      · simp
      · exact ihb hne.2 u v k hu hk
  | rep r lo hi ih =>
    intro hne u v k hu hk
    simp only [noEos] at hne
    unfold M
    exact mrep_complete (M r) (L r) (fun a b k ha hk => ih hne a b k ha hk) hi lo u v k hu hk
  | eos => intro hne; simp [noEos] at hne
  | la r _ => intro hne; simp [noEos] at hne

/-! ### width -/

theorem Lrep_width (Lr : Bytes → Prop) (w : Nat) (hw : ∀ u, Lr u → u.length ≤ w) :
    ∀ hi lo u, Lrep Lr lo hi u → u.length ≤ w * hi := by
  intro hi
  induction hi with
  | zero => intro lo u h; obtain ⟨_, rfl⟩ := h; simp
  | succ hi ih =>
    intro lo u h
    rcases h with ⟨_, rfl⟩ | ⟨a, b, rfl, ha, hb⟩
    · simp
    · have h1 := hw a ha
      have h2 := ih _ _ hb
      simp only [List.length_append, Nat.mul_succ]
      omega

/-- **a word of the language is no longer than `maxWidth`** (what the channel code uses as
    `len(pattern)`) -/
theorem L_maxWidth : ∀ (r : Re) (w : Bytes), L r w → w.length ≤ r.maxWidth := by
  intro r
  induction r with
  | eps => intro w h; simp only [L] at h; subst h; simp
  | cls neg rs => intro w h; obtain ⟨c, rfl, _⟩ := h; simp [maxWidth]
  | seq a b iha ihb =>
    intro w h
    obtain ⟨u, v, rfl, hu, hv⟩ := h
    have := iha u hu
    have := ihb v hv
    simp only [List.length_append, maxWidth]; omega
  | alt a b iha ihb =>
    intro w h
    simp only [maxWidth]
    rcases h with h | h
    · exact Nat.le_trans (iha w h) (Nat.le_max_left _ _)
    · exact Nat.le_trans (ihb w h) (Nat.le_max_right _ _)
  | rep r lo hi ih =>
    intro w h
    exact Lrep_width (L r) r.maxWidth ih hi lo w h
  | eos => intro w h; simp only [L] at h; subst h; simp
  | la r _ => intro w h; simp only [L] at h; subst h; simp

/-! ### `matchAt` and `search` -/

theorem matchAt_sound (r : Re) (hr : r.noEos = true) (s : Bytes) (n : Nat) (h : matchAt r s = some n) :
    ∃ u v, s = u ++ v ∧ L r u ∧ n = u.length := by
  unfold matchAt at h
  obtain ⟨u, v, rfl, hu, hk⟩ := M_sound r hr s _ n h
  refine ⟨u, v, rfl, hu, ?_⟩
  simp only [Option.some.injEq, List.length_append] at hk
  omega

theorem matchAt_complete (r : Re) (hr : r.noEos = true) (u v : Bytes) (h : L r u) :
    (matchAt r (u ++ v)).isSome = true := by
  unfold matchAt
  exact M_complete r hr u v _ h rfl

/-- `searchFrom` returns the least offset at which the matcher succeeds, with the preferred
    match there -/
theorem searchFrom_some (r : Re) : ∀ (s : Bytes) (i a e : Nat), searchFrom r i s = some (a, e) →
    ∃ j, a = i + j ∧ j ≤ s.length ∧ a ≤ e ∧ matchAt r (s.drop j) = some (e - a)
      ∧ ∀ j', j' < j → matchAt r (s.drop j') = none := by
  intro s
  induction s with
  | nil =>
    intro i a e h
    unfold searchFrom at h
    cases hm : matchAt r [] with
    | none => rw [hm] at h; simp at h
    | some n =>
      rw [hm] at h
      simp only [Option.map_some, Option.some.injEq, Prod.mk.injEq] at h
      obtain ⟨rfl, rfl⟩ := h
      refine ⟨0, rfl, Nat.le_refl _, Nat.le_add_right _ _, ?_, fun j' hj => by omega⟩
      simp only [List.drop_nil, hm, Nat.add_sub_cancel_left]
  | cons c t ih =>
    intro i a e h
    unfold searchFrom at h
    cases hm : matchAt r (c :: t) with
    | some n =>
      rw [hm] at h
      simp only [Option.some.injEq, Prod.mk.injEq] at h
      obtain ⟨rfl, rfl⟩ := h
      refine ⟨0, rfl, Nat.zero_le _, Nat.le_add_right _ _, ?_, fun j' hj => by omega⟩
      simp only [List.drop_zero, hm, Nat.add_sub_cancel_left]
    | none =>
      rw [hm] at h
      obtain ⟨j, rfl, hj, hae, hmj, hleast⟩ := ih (i + 1) a e h
      refine ⟨j + 1, by omega, by simp only [List.length_cons]; omega, hae, ?_, ?_⟩
      · simpa using hmj
      · intro j' hj'
        cases j' with
        | zero => simpa using hm
        | succ j'' => simpa using hleast j'' (by omega)

theorem searchFrom_none (r : Re) : ∀ (s : Bytes) (i : Nat), searchFrom r i s = none →
    ∀ j, j ≤ s.length → matchAt r (s.drop j) = none := by
  intro s
  induction s with
  | nil =>
    intro i h j _
    unfold searchFrom at h
    cases hm : matchAt r [] with
    | none => simp [hm]
    | some n => rw [hm] at h; simp at h
  | cons c t ih =>
    intro i h j hj
    unfold searchFrom at h
    cases hm : matchAt r (c :: t) with
    | some n => rw [hm] at h; simp at h
    | none =>
      rw [hm] at h
      cases j with
      | zero => simpa using hm
      | succ j' =>
        simp only [List.length_cons] at hj
        simpa using ih (i + 1) h j' (by omega)

/-- soundness of `re.search`: the reported span is a word of the language -/
theorem search_sound (r : Re) (hr : r.noEos = true) (s : Bytes) (a e : Nat) (h : search r s = some (a, e)) :
    a ≤ e ∧ e ≤ s.length ∧ L r ((s.drop a).take (e - a)) := by
  have hb := searchFrom_bound r s 0 a e h
  obtain ⟨j, hj, _, hae, hm, _⟩ := searchFrom_some r s 0 a e h
  have : j = a := by omega
  subst this
  obtain ⟨u, v, huv, hu, hn⟩ := matchAt_sound r hr _ _ hm
  refine ⟨hae, by omega, ?_⟩
  rw [huv, hn, List.take_left']
  · exact hu
  · rfl

/-- completeness of `re.search`: if any infix of the data is in the language, a match is found -/
theorem search_complete (r : Re) (hr : r.noEos = true) (x u y : Bytes) (hu : L r u) :
    (search r (x ++ u ++ y)).isSome = true := by
  cases h : search r (x ++ u ++ y) with
  | some _ => rfl
  | none =>
    have := searchFrom_none r _ 0 h x.length (by simp only [List.length_append]; omega)
    rw [List.append_assoc, List.drop_left'] at this
    · have hc := matchAt_complete r hr u y hu
      rw [this] at hc; simp at hc
    · rfl

/-! ### the end-anchored expression `r\Z` that `with_prompt` installs -/

theorem matchAt_anchored (r : Re) (hr : r.noEos = true) (t : Bytes) :
    (matchAt (.seq r .eos) t).isSome = true ↔ L r t := by
  unfold matchAt
  constructor
  · intro h
    cases hm : M (.seq r .eos) t (fun rest => some (t.length - rest.length)) with
    | none => rw [hm] at h; simp at h
    | some x =>
      unfold M at hm
      obtain ⟨u, v, rfl, hu, hk⟩ := M_sound r hr t _ x hm
      unfold M at hk
      split at hk
      · rename_i hv
        have : v = [] := by simpa using hv
        subst this
        simpa using hu
      · simp at hk
  · intro h
    unfold M
    have := M_complete r hr t [] (fun t' => M .eos t' (fun rest => some (t.length - rest.length))) h
      (by simp [M])
    simpa using this

end Re

namespace Re

/-- **positive look-ahead** `(?=q)`: succeeds, consuming nothing, exactly when some prefix of the
    rest of the input is in the language of `q` — the bytes it inspects are NOT part of the match,
    which is why the width of an expression (`maxWidth`) says nothing about how far ahead of a
    match the decision reaches. -/
theorem M_la_iff {β} (q : Re) (hq : q.noEos = true) (s : Bytes) (k : Bytes → Option β) (x : β) :
    M (.la q) s k = some x ↔ (∃ u v, s = u ++ v ∧ L q u) ∧ k s = some x := by
  unfold M
  constructor
  · intro h
    split at h
    · rename_i y hy
      obtain ⟨u, v, hs, hu, _⟩ := M_sound q hq s _ y hy
      exact ⟨⟨u, v, hs, hu⟩, h⟩
    · simp at h
  · rintro ⟨⟨u, v, rfl, hu⟩, hk⟩
    have := M_complete (β := PUnit) q hq u v (fun _ => some ⟨⟩) hu rfl
    split
    · exact hk
    · rename_i hn
      rw [hn] at this; simp at this

/-- a look-ahead adds nothing to the reported width of a match -/
theorem maxWidth_la (r q : Re) : (Re.seq r (.la q)).maxWidth = r.maxWidth := by
  simp [maxWidth]

end Re
