import TbotVerif.Props.CtxLeak6
set_option linter.unusedSimpArgs false
set_option linter.unusedVariables false
/-! I6 (internal form): `_teardown_order` lists every class after the classes it requests. -/
namespace Ctx

/-- an alive class has all its prerequisite classes in `_teardown_order`, and in the order every
    class comes after the classes its `from_context` requests -/
structure InvOrd (cfg : Cfg) (s : St) : Prop where
  aliveDeps : ∀ c, (s.mgrs c).inst ≠ none → ∀ d ∈ cfg.depsOf c, d.1 ∈ s.order
  before : ∀ l1 c l2, s.order = l1 ++ c :: l2 → ∀ d ∈ cfg.depsOf c, d.1 ∈ l1

theorem InvOrd.same {cfg : Cfg} {s s' : St} (h : InvOrd cfg s) (hm : s'.mgrs = s.mgrs)
    (ho : s'.order = s.order) : InvOrd cfg s' := by
  constructor
  · rw [hm, ho]; exact h.aliveDeps
  · rw [ho]; exact h.before

/-- the instance of some classes goes away -/
theorem InvOrd.down {cfg : Cfg} {s s' : St} (h : InvOrd cfg s)
    (hm : ∀ k, (s'.mgrs k).inst ≠ none → (s.mgrs k).inst ≠ none) (ho : s'.order = s.order) :
    InvOrd cfg s' := by
  constructor
  · intro c hi d hd; rw [ho]; exact h.aliveDeps c (hm c hi) d hd
  · rw [ho]; exact h.before

theorem append_singleton_decomp {α : Type} {l1 l2 o : List α} {c c' : α}
    (h : o ++ [c'] = l1 ++ c :: l2) :
    (l2 = [] ∧ c = c' ∧ l1 = o) ∨ ∃ l2', l2 = l2' ++ [c'] ∧ o = l1 ++ c :: l2' := by
  rcases List.eq_nil_or_concat l2 with rfl | ⟨l2', x, rfl⟩
  · left
    have := List.append_inj' (s₁ := o) (t₁ := [c']) (s₂ := l1) (t₂ := [c]) h (by simp)
    exact ⟨rfl, by simpa using this.2.symm, this.1.symm⟩
  · right
    have h' : o ++ [c'] = (l1 ++ c :: l2') ++ [x] := by simpa [List.concat_eq_append] using h
    have := List.append_inj' (s₁ := o) (t₁ := [c']) (s₂ := l1 ++ c :: l2') (t₂ := [x]) h' (by simp)
    refine ⟨l2', ?_, this.1⟩
    have hx : c' = x := by simpa using this.2
    rw [hx, List.concat_eq_append]

/-- `c` is alive and gets appended to the order (if it is not in it yet) -/
theorem InvOrd.append {cfg : Cfg} {s : St} (h : InvOrd cfg s) {c : Nat}
    (hc : (s.mgrs c).inst ≠ none) :
    InvOrd cfg (if s.order.contains c then s else { s with order := s.order ++ [c] }) := by
  split
  · exact h
  · constructor
    · intro k hi d hd
      simp only [List.mem_append]
      exact Or.inl (h.aliveDeps k hi d hd)
    · intro l1 k l2 heq d hd
      simp only at heq
      rcases append_singleton_decomp heq with ⟨_, hk, hl1⟩ | ⟨l2', _, ho⟩
      · subst hk
        rw [hl1]
        exact h.aliveDeps k hc d hd
      · exact h.before l1 k l2' ho d hd

def TdO (cfg : Cfg) (td : Nat → St → R) : Prop :=
  ∀ (B : List Nat) (c : Nat) (s : St), Inv B s → (∀ b ∈ B, c < b) → InvOrd cfg s →
    InvOrd cfg (td c s).1 ∧ (td c s).1.order = s.order

def RxO (cfg : Cfg) (rx : Frame → St → Option Exc → R) : Prop :=
  ∀ (B : List Nat) (f : Frame) (s : St) (e : Option Exc), Inv B s → (∀ b ∈ B, f.cls < b) →
    f ∈ s.open_ → (∀ k, f ∉ (s.mgrs k).held) → InvOrd cfg s →
    InvOrd cfg (rx f s e).1 ∧ (rx f s e).1.order = s.order

def ReO (cfg : Cfg) (re : Bool → Nat → Bool → Bool → Option Bool → St → St × (Frame ⊕ Exc)) : Prop :=
  ∀ (B : List Nat) (dep : Bool) (c : Nat) (reset excl : Bool) (roe : Option Bool) (s : St),
    Inv B s → (∀ b ∈ B, c < b) → InvOrd cfg s →
    InvOrd cfg (re dep c reset excl roe s).1 ∧ (∀ x ∈ s.order, x ∈ (re dep c reset excl roe s).1.order) ∧
    (∀ f, (re dep c reset excl roe s).2 = .inl f → c ∈ (re dep c reset excl roe s).1.order)

def DepO (cfg : Cfg) (re : Nat → Bool → St → St × (Frame ⊕ Exc)) : Prop :=
  ∀ (B : List Nat) (d : Nat) (x : Bool) (s : St), Inv B s → (∀ b ∈ B, d < b) → InvOrd cfg s →
    InvOrd cfg (re d x s).1 ∧ (∀ y ∈ s.order, y ∈ (re d x s).1.order) ∧
    (∀ f, (re d x s).2 = .inl f → d ∈ (re d x s).1.order)

def IniO (cfg : Cfg) (ini : Nat → St → R) : Prop :=
  ∀ (B : List Nat) (c : Nat) (s : St), Inv B s → (∀ b ∈ B, c < b) → InvOrd cfg s →
    InvOrd cfg (ini c s).1 ∧ (∀ x ∈ s.order, x ∈ (ini c s).1.order)

theorem exitFrames_O {cfg : Cfg} {rx : Frame → St → Option Exc → R} (hS : RxSpec rx) (hO : RxO cfg rx) :
    ∀ (L : List Frame) (B : List Nat) (s : St) (e : Option Exc), Inv B s → Pend L s →
      (∀ f ∈ L, ∀ b ∈ B, f.cls < b) → InvOrd cfg s →
      InvOrd cfg (exitFramesWith rx L s e).1 ∧ (exitFramesWith rx L s e).1.order = s.order := by
  intro L
  induction L with
  | nil => intro B s e _ _ _ ho; exact ⟨ho, rfl⟩
  | cons f fs ih =>
    intro B s e h hp hb ho
    unfold exitFramesWith
    have hf := hp.isOpen f (by simp)
    have hh := hp.notHeld f (by simp)
    have h1 := hS B f s e h (hb f (by simp)) hf hh
    have o1 := hO B f s e h (hb f (by simp)) hf hh ho
    have hnd := List.nodup_cons.mp hp.nodup
    have hp' : Pend fs (rx f s e).1 :=
      hp.tail.tr h1.2.tr h.idLt (fun g hg hx => by
        simp at hx
        subst hx
        exact hnd.1 hg)
    have := ih B (rx f s e).1 (rx f s e).2 h1.1 hp' (fun g hg => hb g (List.mem_cons_of_mem _ hg)) o1.1
    exact ⟨this.1, this.2.trans o1.2⟩

section
variable (cfg : Cfg)

theorem teardownF_O {rx : Frame → St → Option Exc → R} (hS : RxSpec rx) (hO : RxO cfg rx) :
    TdO cfg (teardownF cfg rx) := by
  intro B c s h hb ho
  have hcB : c ∉ B := fun hm => Nat.lt_irrefl _ (hb c hm)
  unfold teardownF
  cases hi : (s.mgr c).inst with
  | none =>
    simp only
    exact ⟨ho.same rfl rfl, rfl⟩
  | some o =>
    simp only
    have hi' : (s.mgrs c).inst = some o := hi
    obtain ⟨_, hcls⟩ := h.instWf c o hi'
    have hx := tdStart_ext cfg (s := s) (c := c) (o := o) hcls
    have hsm := tdStart_same2 cfg (s := s) (c := c) (o := o)
    have hd : Inv (c :: B) (s.downed c o) := h.downed hi' hcB
    generalize objExit cfg (((s.setObj o { s.obj o with rc := 1 })).setMgr c
        { (s.setObj o { s.obj o with rc := 1 }).mgr c with held := [] }) o = r1 at hx hsm ⊢
    have h1 : Inv (c :: B) r1.1 := hd.ext hx
    have hheld : ((s.setObj o { s.obj o with rc := 1 }).mgr c).held = (s.mgrs c).held := rfl
    rw [hheld]
    have hp : Pend (s.mgrs c).held.reverse r1.1 := by
      refine Pend.reverse ⟨h.heldNodup c, ?_, ?_⟩
      · intro f hf
        rw [hx.open_]
        exact (h.heldOpen c f hf).1
      · intro f hf k hk
        rw [hx.mgrs] at hk
        simp only [St.downed] at hk
        by_cases hkc : k = c
        · subst hkc; simp at hk
        · simp [hkc] at hk
          exact hkc (h.heldDisj k c f hk hf)
    have hlt : ∀ f ∈ (s.mgrs c).held.reverse, ∀ b ∈ c :: B, f.cls < b := by
      intro f hf b hbm
      have hfc := (h.heldOpen c f (List.mem_reverse.mp hf)).2
      rcases List.mem_cons.mp hbm with rfl | hbm
      · exact hfc
      · exact Nat.lt_trans hfc (hb b hbm)
    have ho1 : InvOrd cfg r1.1 := by
      apply ho.down
      · intro k hk
        rw [hsm.1.mgrs] at hk
        simp only [St.downed] at hk
        by_cases hkc : k = c
        · subst hkc; rw [hi']; simp
        · simpa [hkc] using hk
      · exact hsm.2.order
    have q := exitFrames_O hS hO (s.mgrs c).held.reverse (c :: B) r1.1 r1.2 h1 hp hlt ho1
    generalize exitFramesWith rx (s.mgrs c).held.reverse r1.1 r1.2 = r2 at q ⊢
    refine ⟨?_, ?_⟩
    · apply q.1.down
      · intro k hk
        by_cases hkc : k = c
        · subst hkc; simp [St.setMgr] at hk
        · simpa [St.setMgr, hkc] using hk
      · rfl
    · show r2.1.order = s.order
      rw [q.2, hsm.2.order]

theorem reqExitF_O {td : Nat → St → R} (hS : TdSpec td) (hO : TdO cfg td) : RxO cfg (reqExitF cfg td) := by
  intro B f s e h hb hf hh ho
  have hcB : f.cls ∉ B := fun hm => Nat.lt_irrefl _ (hb _ hm)
  unfold reqExitF
  simp only
  have h0 := roeStep_spec hS e h hb
  have o0 : InvOrd cfg (roeStep td f s e).1 ∧ (roeStep td f s e).1.order = s.order := by
    unfold roeStep
    cases e with
    | none => exact ⟨ho, rfl⟩
    | some ex =>
      simp only
      split
      · exact hO B f.cls s h hb ho
      · exact ⟨ho, rfl⟩
  generalize roeStep td f s e = r0 at h0 o0 ⊢
  have hp0 : Pend [f] r0.1 := (Pend.single hf hh).tr h0.2.tr h.idLt (by simp)
  have hf0 := hp0.isOpen f (by simp)
  have hh0 := hp0.notHeld f (by simp)
  have hrc := h0.1.frame_rc hf0 hcB
  rw [objExit_ne cfg hrc]
  have hfo := h0.1.frameOut hf0 hh0 hcB
  have ofo : InvOrd cfg (r0.1.frameOut f) := by
    apply o0.1.down
    · intro k hk
      simp only [St.frameOut] at hk
      by_cases hkc : k = f.cls
      · subst hkc; simpa using hk
      · simpa [hkc] using hk
    · rfl
  change InvOrd cfg ((finallyStep td f.cls f.excl (r0.1.frameOut f) (later r0.2 none)).1.log _) ∧
    ((finallyStep td f.cls f.excl (r0.1.frameOut f) (later r0.2 none)).1.log _).order = s.order
  have key : InvOrd cfg (finallyStep td f.cls f.excl (r0.1.frameOut f) (later r0.2 none)).1 ∧
      (finallyStep td f.cls f.excl (r0.1.frameOut f) (later r0.2 none)).1.order = (r0.1.frameOut f).order := by
    unfold finallyStep
    split
    · split
      · exact hO B f.cls (r0.1.frameOut f) hfo hb ofo
      · exact ⟨ofo, rfl⟩
    · exact ⟨ofo, rfl⟩
  generalize finallyStep td f.cls f.excl (r0.1.frameOut f) (later r0.2 none) = r2 at key ⊢
  exact ⟨key.1.same rfl rfl, by show r2.1.order = s.order; rw [key.2]; exact o0.2⟩

theorem enterDeps_O {re : Nat → Bool → St → St × (Frame ⊕ Exc)} (hS : DepSpec re) (hO : DepO cfg re)
    (c n0 : Nat) :
    ∀ (ds : List (Nat × Bool)) (B : List Nat) (s : St) (L : List Frame), Inv B s →
      (∀ d ∈ ds, d.1 < c) → (∀ d ∈ ds, ∀ b ∈ B, d.1 < b) → n0 ≤ s.nFrame → DepsOk c n0 L s →
      InvOrd cfg s →
      InvOrd cfg (enterDepsWith re ds s L).1 ∧ (∀ x ∈ s.order, x ∈ (enterDepsWith re ds s L).1.order) ∧
      ((enterDepsWith re ds s L).2.2 = none → ∀ d ∈ ds, d.1 ∈ (enterDepsWith re ds s L).1.order) := by
  intro ds
  induction ds with
  | nil =>
    intro B s L _ _ _ _ _ ho
    exact ⟨ho, fun _ hx => hx, fun _ d hd => by simp at hd⟩
  | cons d ds ih =>
    intro B s L h hc hb hn hd ho
    unfold enterDepsWith
    have h1 := hS B d.1 d.2 s h (hb d (by simp))
    have o1 := hO B d.1 d.2 s h (hb d (by simp)) ho
    generalize re d.1 d.2 s = r at h1 o1 ⊢
    obtain ⟨s1, res⟩ := r
    cases res with
    | inr e =>
      simp only
      exact ⟨o1.1, o1.2.1, fun hne => by simp at hne⟩
    | inl f =>
      simp only
      obtain ⟨hfo, hfh, hfc, hfid⟩ := h1.2.2 f rfl
      simp only at hfo hfh hfid h1 o1
      have hp1 : Pend L s1 := hd.pend.tr h1.2.1.tr h.idLt (by simp)
      have hnotin : f ∉ L := by
        intro hm
        have := h.idLt f (hd.pend.isOpen f hm)
        omega
      have hd1 : DepsOk c n0 (L ++ [f]) s1 := by
        refine ⟨⟨?_, ?_, ?_⟩, ?_, ?_⟩
        · rw [List.nodup_append]
          refine ⟨hp1.nodup, by simp, ?_⟩
          intro a ha b hb
          simp at hb
          subst hb
          intro hab
          exact hnotin (hab ▸ ha)
        · intro g hg
          rcases List.mem_append.mp hg with hg | hg
          · exact hp1.isOpen g hg
          · simp at hg; subst hg; exact hfo
        · intro g hg
          rcases List.mem_append.mp hg with hg | hg
          · exact hp1.notHeld g hg
          · simp at hg; subst hg; exact hfh
        · intro g hg
          rcases List.mem_append.mp hg with hg | hg
          · exact hd.small g hg
          · simp at hg; subst hg; rw [hfc]; exact hc d (by simp)
        · intro g hg
          rcases List.mem_append.mp hg with hg | hg
          · exact hd.fresh g hg
          · simp at hg; subst hg; omega
      have := ih B s1 (L ++ [f]) h1.1 (fun d' hd' => hc d' (List.mem_cons_of_mem _ hd'))
        (fun d' hd' => hb d' (List.mem_cons_of_mem _ hd')) (Nat.le_trans hn h1.2.1.tr.nFrame_le) hd1 o1.1
      refine ⟨this.1, fun x hx => this.2.1 x (o1.2.1 x hx), ?_⟩
      intro hnone d' hd'
      rcases List.mem_cons.mp hd' with rfl | hd'
      · exact this.2.1 _ (o1.2.2 f rfl)
      · exact this.2.2 hnone d' hd'

theorem initClsF_O {re : Nat → Bool → St → St × (Frame ⊕ Exc)}
    {rx : Frame → St → Option Exc → R} (hwf : cfg.depsBelow) (hS : DepSpec re) (hO : DepO cfg re)
    (hSx : RxSpec rx) (hOx : RxO cfg rx) : IniO cfg (initClsF cfg re rx) := by
  intro B c s h hb ho
  have hcB : c ∉ B := fun hm => Nat.lt_irrefl _ (hb _ hm)
  unfold initClsF
  split
  · exact ⟨ho.same rfl rfl, fun _ hx => hx⟩
  · rename_i hal
    have hi : (s.mgrs c).inst = none := by
      simpa [St.alive, St.mgr] using hal
    simp only
    have hsa : s.setMgr c { s.mgr c with avail := true } = s.setAvail c true := rfl
    rw [hsa]
    have ha : Inv (c :: B) (s.setAvail c true) :=
      (h.setAvail c true).busy (by simp [St.setAvail, hi])
    have oa : InvOrd cfg (s.setAvail c true) := by
      apply ho.down
      · intro k hk
        simp only [St.setAvail] at hk
        by_cases hkc : k = c
        · subst hkc; simpa using hk
        · simpa [hkc] using hk
      · rfl
    have hlt : ∀ d ∈ cfg.depsOf c, ∀ b ∈ c :: B, d.1 < b := by
      intro d hd b hbm
      rcases List.mem_cons.mp hbm with rfl | hbm
      · exact hwf _ d hd
      · exact Nat.lt_trans (hwf c d hd) (hb b hbm)
    have hE := enterDeps_spec hS c s.nFrame (cfg.depsOf c) (c :: B) (s.setAvail c true) [] ha
      (hwf c) hlt (Nat.le_refl _) ⟨Pend.nil _, by simp, by simp⟩
    have oE := enterDeps_O cfg hS hO c s.nFrame (cfg.depsOf c) (c :: B) (s.setAvail c true) [] ha
      (hwf c) hlt (Nat.le_refl _) ⟨Pend.nil _, by simp, by simp⟩ oa
    generalize enterDepsWith re (cfg.depsOf c) (s.setAvail c true) [] = r at hE oE ⊢
    obtain ⟨s1, L, eo⟩ := r
    simp only at hE oE ⊢
    obtain ⟨hI1, hS1, hD1⟩ := hE
    have hltL : ∀ f ∈ L.reverse, ∀ b ∈ c :: B, f.cls < b := by
      intro f hf b hbm
      have hfc := hD1.small f (List.mem_reverse.mp hf)
      rcases List.mem_cons.mp hbm with rfl | hbm
      · exact hfc
      · exact Nat.lt_trans hfc (hb b hbm)
    have hord0 : ∀ x ∈ s.order, x ∈ s1.order := fun x hx => oE.2.1 x hx
    cases eo with
    | some ex =>
      simp only
      have q := exitFrames_O hSx hOx L.reverse (c :: B) s1 (some ex) hI1 hD1.pend.reverse hltL oE.1
      exact ⟨q.1, fun x hx => by rw [q.2]; exact hord0 x hx⟩
    | none =>
      simp only
      have hmu := machineUp_new cfg (s := s1) (c := c)
      have hms := machineUp_same cfg (({ s1 with nObj := s1.nObj + 1 } : St).setObj s1.nObj
        { cls := c, rc := 0, up := false }) s1.nObj
      simp only at hmu
      generalize machineUp cfg (({ s1 with nObj := s1.nObj + 1 } : St).setObj s1.nObj
        { cls := c, rc := 0, up := false }) s1.nObj = r1 at hmu hms ⊢
      have o1 : InvOrd cfg r1.1 := oE.1.same hms.2.1 hms.2.2.order
      have hord1 : r1.1.order = s1.order := hms.2.2.order
      cases hr1 : r1.2 with
      | some ex =>
        simp only
        have hx := hmu.2 ex hr1
        have hI2' : Inv (c :: B) r1.1 := (hI1.failedInit ex).ext hx
        have hp2 : Pend L.reverse r1.1 := by
          refine Pend.reverse ⟨hD1.pend.nodup, ?_, ?_⟩
          · intro f hf; rw [hx.open_]; exact hD1.pend.isOpen f hf
          · intro f hf k; rw [hx.mgrs]; exact hD1.pend.notHeld f hf k
        have q := exitFrames_O hSx hOx L.reverse (c :: B) r1.1 (some ex) hI2' hp2 hltL o1
        exact ⟨q.1, fun x hx => by rw [q.2, hord1]; exact hord0 x hx⟩
      | none =>
        simp only
        refine ⟨?_, fun x hx => by show x ∈ r1.1.order; rw [hord1]; exact hord0 x hx⟩
        constructor
        · intro k hk d hd
          show d.1 ∈ r1.1.order
          by_cases hkc : k = c
          · subst hkc
            rw [hord1]
            exact oE.2.2 rfl d hd
          · have : (r1.1.mgrs k).inst ≠ none := by simpa [St.setMgr, hkc] using hk
            exact o1.aliveDeps k this d hd
        · exact o1.before

theorem admitStep_O {td : Nat → St → R} {B : List Nat} (dep : Bool) {c : Nat} (excl roe : Bool)
    {s : St} (h : Inv B s) (hcB : c ∉ B) (ho : InvOrd cfg s) :
    InvOrd cfg (admitStep cfg td dep c excl roe s).1 ∧
    (∀ x ∈ s.order, x ∈ (admitStep cfg td dep c excl roe s).1.order) ∧
    (∀ f, (admitStep cfg td dep c excl roe s).2 = .inl f → c ∈ (admitStep cfg td dep c excl roe s).1.order) := by
  have herr : admitStep cfg td dep c excl roe s = ((s.newExc .ctx).1, .inr (s.newExc .ctx).2) →
      InvOrd cfg (admitStep cfg td dep c excl roe s).1 ∧
      (∀ x ∈ s.order, x ∈ (admitStep cfg td dep c excl roe s).1.order) ∧
      (∀ f, (admitStep cfg td dep c excl roe s).2 = .inl f → c ∈ (admitStep cfg td dep c excl roe s).1.order) := by
    intro heq
    rw [heq]
    exact ⟨ho.same rfl rfl, fun _ hx => hx, by simp⟩
  cases hi : (s.mgrs c).inst with
  | none => exact herr (by unfold admitStep; simp [St.mgr, hi])
  | some o =>
    cases hav : (s.mgrs c).avail with
    | false => exact herr (by unfold admitStep; simp [St.mgr, hi, hav])
    | true =>
      obtain ⟨_, hrc⟩ := h.instLive c o hi hcB
      have hpos : 1 ≤ (s.objs o).rc := by omega
      rw [admitStep_ok cfg hi hav hpos]
      simp only
      have o1 : InvOrd cfg (s.frameIn { id := s.nFrame, cls := c, obj := o, excl := excl, roe := roe, dep := dep } (!excl)) := by
        apply ho.down
        · intro k hk
          simp only [St.frameIn] at hk
          by_cases hkc : k = c
          · subst hkc; rw [hi]; simp
          · simpa [hkc] using hk
        · rfl
      have hal : ((s.frameIn { id := s.nFrame, cls := c, obj := o, excl := excl, roe := roe, dep := dep } (!excl)).mgrs c).inst ≠ none := by
        simp [St.frameIn, hi]
      have o2 := o1.append hal
      generalize hs1 : s.frameIn { id := s.nFrame, cls := c, obj := o, excl := excl, roe := roe, dep := dep } (!excl) = s1 at o2
      have hord1 : s1.order = s.order := by subst hs1; rfl
      refine ⟨o2.same rfl rfl, ?_, ?_⟩
      · intro x hx
        simp only [St.log]
        split
        · rw [hord1]; exact hx
        · simp [hord1, hx]
      · intro f _
        simp only [St.log]
        split
        · rename_i hc; simpa using hc
        · simp

theorem reqEnterF_O {td ini : Nat → St → R} (hS : TdSpec td) (hO : TdO cfg td) (hSi : IniSpec ini)
    (hOi : IniO cfg ini) : ReO cfg (reqEnterF cfg td ini) := by
  intro B dep c reset excl roe s h hb ho
  have hcB : c ∉ B := fun hm => Nat.lt_irrefl _ (hb _ hm)
  unfold reqEnterF
  simp only
  split
  · exact ⟨ho.same rfl rfl, fun _ hx => hx, by simp⟩
  · have h0 := resetStep_spec hS reset h hb
    have o0 : InvOrd cfg (resetStep td c reset s).1 ∧ (resetStep td c reset s).1.order = s.order := by
      unfold resetStep
      split
      · exact hO B c s h hb ho
      · exact ⟨ho, rfl⟩
    generalize resetStep td c reset s = r0 at h0 o0 ⊢
    cases he0 : r0.2 with
    | some ex =>
      simp only
      exact ⟨o0.1, fun x hx => by rw [o0.2]; exact hx, by simp⟩
    | none =>
      simp only
      have h1 := ensureStep_spec hSi h0.1 hb
      have o1 : InvOrd cfg (ensureStep ini c r0.1).1 ∧ (∀ x ∈ r0.1.order, x ∈ (ensureStep ini c r0.1).1.order) := by
        unfold ensureStep
        split
        · exact hOi B c r0.1 h0.1 hb o0.1
        · exact ⟨o0.1, fun _ hx => hx⟩
      generalize ensureStep ini c r0.1 = r1 at h1 o1 ⊢
      have hord01 : ∀ x ∈ s.order, x ∈ r1.1.order := fun x hx => o1.2 x (by rw [o0.2]; exact hx)
      cases he1 : r1.2 with
      | some ex =>
        simp only
        exact ⟨o1.1, hord01, by simp⟩
      | none =>
        simp only
        have o2 := admitStep_O cfg (td := td) dep excl (roe.getD s.roeDefault) h1.1 hcB o1.1
        exact ⟨o2.1, fun x hx => o2.2.1 x (hord01 x hx), o2.2.2⟩

theorem ops_O (hwf : cfg.depsBelow) :
    ∀ k, TdO cfg (ops cfg k).teardown ∧ RxO cfg (ops cfg k).reqExit ∧ ReO cfg (ops cfg k).reqEnter := by
  intro k
  induction k with
  | zero =>
    refine ⟨?_, ?_, ?_⟩
    · intro B c s _ _ ho; exact ⟨ho, rfl⟩
    · intro B f s e _ _ _ _ ho; exact ⟨ho, rfl⟩
    · intro B dep c reset excl roe s _ _ ho; exact ⟨ho, fun _ hx => hx, by simp [ops]⟩
  | succ k ih =>
    obtain ⟨_, hOx, hOe⟩ := ih
    obtain ⟨_, hSx, hSe⟩ := ops_spec cfg hwf k
    have hStd : TdSpec (teardownF cfg (ops cfg k).reqExit) := teardownF_spec cfg hSx
    have hOtd : TdO cfg (teardownF cfg (ops cfg k).reqExit) := teardownF_O cfg hSx hOx
    have hSdep : DepSpec (fun d x s => (ops cfg k).reqEnter true d false x none s) :=
      fun B d x s h hb => hSe B true d false x none s h hb
    have hOdep : DepO cfg (fun d x s => (ops cfg k).reqEnter true d false x none s) :=
      fun B d x s h hb ho => hOe B true d false x none s h hb ho
    have hSini := initClsF_spec cfg hwf hSdep hSx
    have hOini := initClsF_O cfg hwf hSdep hOdep hSx hOx
    exact ⟨hOtd, reqExitF_O cfg hStd hOtd, reqEnterF_O cfg hStd hOtd hSini hOini⟩

theorem tdLoop_O {td : Nat → St → R} (hS : TdSpec td) (hO : TdO cfg td) (cond : St → Nat → Bool) :
    ∀ (cs : List Nat) (s : St) (e : Option Exc), Inv [] s → InvOrd cfg s →
      InvOrd cfg (tdLoop td cond cs s e).1 := by
  intro cs
  induction cs with
  | nil => intro s e _ ho; exact ho
  | cons c cs ih =>
    intro s e h ho
    unfold tdLoop
    split
    · have h1 := hS [] c s h (by simp)
      have o1 := hO [] c s h (by simp) ho
      exact ih (td c s).1 (first e (td c s).2) h1.1 o1.1
    · exact ih s e h ho

mutual
theorem exec_O (hwf : cfg.depsBelow) : ∀ (p : Stmt) (s : St), Inv [] s → InvOrd cfg s →
    InvOrd cfg (exec cfg p s).1
  | .req c reset excl roe body, s, h, ho => by
    rw [exec]
    have hre := (ops_spec cfg hwf cfg.n).2.2 [] false c reset excl roe s h (by simp)
    have ore := (ops_O cfg hwf cfg.n).2.2 [] false c reset excl roe s h (by simp) ho
    generalize (ops cfg cfg.n).reqEnter false c reset excl roe s = r at hre ore ⊢
    obtain ⟨s1, res⟩ := r
    cases res with
    | inr e => exact ore.1.same rfl rfl
    | inl f =>
      simp only
      obtain ⟨hfo, hfh, hfc, _⟩ := hre.2.2 f rfl
      simp only at hfo hfh hre ore
      have hb := execBlock_inv cfg hwf body s1 hre.1
      have ob := execBlock_O hwf body s1 hre.1 ore.1
      generalize execBlock cfg body s1 = rb at hb ob ⊢
      have hp : Pend [f] rb.1 := (Pend.single hfo hfh).tr hb.2.tr hre.1.idLt (by simp)
      have orx := (ops_O cfg hwf cfg.n).2.1 [] f rb.1 rb.2 hb.1 (by simp)
        (hp.isOpen f (by simp)) (hp.notHeld f (by simp)) ob
      generalize (ops cfg cfg.n).reqExit f rb.1 rb.2 = r2 at orx ⊢
      have hs := logLeave_same r2
      exact orx.1.same hs.1.mgrs hs.1.order
  | .ctx body, s, h, ho => by
    rw [exec]
    have hx1 : Ext s ({ (s.log .ctxEnter) with openCtx := (s.log .ctxEnter).openCtx + 1 } : St) :=
      ⟨rfl, rfl, rfl, rfl, rfl, [.ctxEnter], by simp [Ev.quiet], by simp [St.log]⟩
    have hb := execBlock_inv cfg hwf body _ (h.ext hx1)
    have ob := execBlock_O hwf body _ (h.ext hx1) (ho.same rfl rfl)
    generalize execBlock cfg body ({ (s.log .ctxEnter) with openCtx := (s.log .ctxEnter).openCtx + 1 } : St) = rb at hb ob ⊢
    have hx2 : Ext rb.1 (rb.1.log .ctxBody) := ext_log (by simp [Ev.quiet])
    have oc : InvOrd cfg (ctxExit cfg (rb.1.log .ctxBody)).1 := by
      unfold ctxExit
      simp only
      split
      · have := tdLoop_O cfg (ops_spec cfg hwf cfg.n).1 (ops_O cfg hwf cfg.n).1
          (fun s c => s.alive c && s.keepAlive) (rb.1.log .ctxBody).order.reverse (rb.1.log .ctxBody) none
          (hb.1.ext hx2) (ob.same rfl rfl)
        exact this.same rfl rfl
      · exact ob.same rfl rfl
    generalize ctxExit cfg (rb.1.log .ctxBody) = r2 at oc ⊢
    have hs := logLeave_same (r2.1.log .ctxLeave, later rb.2 r2.2)
    exact (oc.same rfl rfl).same hs.1.mgrs hs.1.order
  | .reconf ka roe body, s, h, ho => by
    rw [exec]
    have hx1 : Ext s ({ s with keepAlive := ka.getD s.keepAlive, roeDefault := roe.getD s.roeDefault } : St) :=
      ⟨rfl, rfl, rfl, rfl, rfl, [], by simp, by simp⟩
    have hb := execBlock_inv cfg hwf body _ (h.ext hx1)
    have ob := execBlock_O hwf body _ (h.ext hx1) (ho.same rfl rfl)
    generalize execBlock cfg body ({ s with keepAlive := ka.getD s.keepAlive, roeDefault := roe.getD s.roeDefault } : St) = rb at hb ob ⊢
    have oc : InvOrd cfg (reconfExit cfg s.keepAlive s.roeDefault ka rb.1).1 := by
      unfold reconfExit
      simp only
      have hx : Ext rb.1 { rb.1 with keepAlive := s.keepAlive, roeDefault := s.roeDefault } :=
        ⟨rfl, rfl, rfl, rfl, rfl, [], by simp, by simp⟩
      split
      · exact tdLoop_O cfg (ops_spec cfg hwf cfg.n).1 (ops_O cfg hwf cfg.n).1
          (fun s c => s.alive c && (s.mgr c).users == 0) _ _ none (hb.1.ext hx) (ob.same rfl rfl)
      · exact ob.same rfl rfl
    generalize reconfExit cfg s.keepAlive s.roeDefault ka rb.1 = r2 at oc ⊢
    have hs := logLeave_same (r2.1, later rb.2 r2.2)
    exact oc.same hs.1.mgrs hs.1.order
  | .try_ body, s, h, ho => by
    rw [exec]
    have ob := execBlock_O hwf body s h ho
    generalize execBlock cfg body s = rb at ob ⊢
    cases he : rb.2 with
    | some e => exact ob.same rfl rfl
    | none => exact ob
  | .raise, s, h, ho => by rw [exec]; exact ho.same rfl rfl
  | .skip, s, h, ho => by rw [exec]; exact ho.same rfl rfl
  | .td c, s, h, ho => by
    rw [exec]
    split
    · have otd := (ops_O cfg hwf cfg.n).1 [] c s h (by simp) ho
      generalize (ops cfg cfg.n).teardown c s = r at otd ⊢
      simp only
      cases he : r.2 with
      | some e => exact otd.1.same rfl rfl
      | none => exact otd.1.same rfl rfl
    · exact ho.same rfl rfl

theorem execBlock_O (hwf : cfg.depsBelow) : ∀ (b : Block) (s : St), Inv [] s → InvOrd cfg s →
    InvOrd cfg (execBlock cfg b s).1
  | .nil, s, _, ho => by rw [execBlock]; exact ho
  | .cons p rest, s, h, ho => by
    rw [execBlock]
    have h1 := exec_inv cfg hwf p s h
    have o1 := exec_O hwf p s h ho
    generalize exec cfg p s = r at h1 o1 ⊢
    cases he : r.2 with
    | some e => exact o1
    | none => exact execBlock_O hwf rest r.1 h1.1 o1
end

end

end Ctx
