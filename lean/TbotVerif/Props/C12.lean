import TbotVerif.Spec.Path
/-! C12 — placeholder, proofs follow. -/
namespace C12
end C12
