import TbotVerif.Props.PathSim
/-! C12 — Path behaves like PurePosixPath and refuses to be used on a foreign host.

    Main results (all unbounded: any segments, any arguments, any chain length, any machine table):

    * `tpath_run_eq_ref` / `spec_holds_partial`: for every well-formed case that does not contain
      the pathlib 3.12 `with_suffix` quirk, the observation of the tbot `Path` model is the
      reference observation (pathlib's value or exception type for every operation; `WrongHostError`
      exactly when a path of a machine that is not clone-equivalent is involved, before anything
      else; the string / shell token of the path otherwise).
    * the per-operation statements `TPath.op = PurePath.op` are in `Props/PathOps.lean`
      (`PathM.tp_*`), the host entry points in `PathM.*_wrongHost_iff`, clone-equivalence in
      `Props/PathMach.lean`.

    FULL STATEMENT (not provable, and false for the implementation as well):

        theorem spec_holds (c : Case) (hwf : c.wf = true) : Spec.C12 c (run c) = true

    What is missing: the case class `¬ c.quirkFree` — `with_suffix('')` applied to a path whose
    final component has the stem `'.'` (`'..x'`).  pathlib 3.12 then returns an object whose cached
    parts contain the component `'.'` (`parts == ('.',)`, `name == '.'`), which no parsed path has;
    tbot builds a new `PurePosixPath` from the result, which re-parses it and drops the component.
    `withSuffix_quirk_witness` proves the negation on the concrete witness `Path(h, '..a')`,
    `PathM.withSuffix_inconsistent_iff` proves that this is the only way an operation leaves the
    set of consistent path objects. -/

namespace C12
open PathM

/-- tbot model = reference, for tbot cases -/
theorem tpath_run_eq_ref (c : Case) (hwf : c.wf = true) (hq : c.quirkFree = true)
    (hp : c.pure = false) : TPath.run c = Ref.run c := by
  simp only [Case.wf, Bool.and_eq_true, decide_eq_true_eq] at hwf
  obtain ⟨⟨⟨⟨hspecs, hhost⟩, hargs⟩, hchain⟩, hqueries⟩ := hwf
  simp only [Case.quirkFree, hp, Bool.false_eq_true, ↓reduceIte] at hq
  simp only [TPath.run, Ref.run, hp, Bool.false_eq_true, ↓reduceIte]
  have hnew : TP.new (machOf (buildMachines c.machines []) c.host)
        (c.args.map (TPath.evalArg (buildMachines c.machines []) none))
      = (Ref.guarded (cloneEq c.machines) c.host none c.args PP.new).map
          (lift (machOf (buildMachines c.machines []) c.host)) := by
    rw [tp_new, args_sim c.machines hspecs c.host hhost none none trivial c.args hargs,
      guarded_ok (cloneEq c.machines) c.host none c.args PP.new, except_map_bind]
  rw [hnew]
  cases hg : Ref.guarded (cloneEq c.machines) c.host none c.args PP.new with
  | error e => rfl
  | ok p0 =>
    rw [hg] at hq
    simp only [Bool.and_eq_true] at hq
    have hsim : Sim c.machines (lift (machOf (buildMachines c.machines []) c.host) p0)
        { host := c.host, path := p0 } :=
      ⟨rfl, hhost, rfl, guarded_consistent (fun a r h => new_consistent h) p0 hg⟩
    simp only [Except.map]
    rcases chain_sim c.machines hspecs c.chain _ _ hsim 1 hchain hq.1 with
      ⟨e, h1, h2⟩ | ⟨p', st', h1, h2, hs'⟩
    · rw [h1, h2]
    · rw [h1, h2]
      have hq2 := hq.2
      rw [h2] at hq2
      simp only
      congr 1
      apply List.map_congr_left
      intro q hqm
      rw [query_sim c.machines hspecs p' st' hs' q (List.all_eq_true.mp hqueries q hqm)
        (List.all_eq_true.mp hq2 q hqm)]

/-- pathlib cases: the model *is* the reference -/
theorem pure_spec (c : Case) (hp : c.pure = true) : Spec.C12 c (run c) = true := by
  simp [Spec.C12, run, hp]

/-- C12 for every well-formed case outside the `with_suffix` quirk -/
theorem spec_holds_partial (c : Case) (hwf : c.wf = true) (hq : c.quirkFree = true) :
    Spec.C12 c (run c) = true := by
  cases hp : c.pure with
  | true => exact pure_spec c hp
  | false =>
    simp only [Spec.C12, run, hp, Bool.false_eq_true, ↓reduceIte]
    rw [tpath_run_eq_ref c hwf hq hp]
    simp

/-- the excluded class is not empty, and the property fails on it:
    `Path(h, "..a").with_suffix("")` -/
def quirkCase : Case :=
  { pure := false, machines := [.fresh 0], host := 0, args := [.s "..a".toList], chain := [],
    queries := [.op (.withSuffix [])] }

theorem withSuffix_quirk_witness :
    quirkCase.wf = true ∧ quirkCase.quirkFree = false ∧ Spec.C12 quirkCase (run quirkCase) = false := by
  decide

/-- what tbot and pathlib answer on the witness -/
example : run quirkCase = .results [.ok (.p 0 ".".toList [])]
    ∧ Ref.run quirkCase = .results [.ok (.p 0 ".".toList [".".toList])] := by decide

/-! ### corollaries -/

/-- `parents` is `parent` iterated: the i-th element is `parent` applied `i + 1` times, there are
    exactly `len(tail)` of them, and the iteration has reached its fixed point (the anchor) there -/
theorem parents_eq_iterate_parent (p : PP) :
    p.parentsList = .ok ((List.range p.tail.length).map fun i => iterParent (i + 1) p)
      ∧ (iterParent p.tail.length p).parent = iterParent p.tail.length p
      ∧ ∀ i, i < p.tail.length → (iterParent i p).parent ≠ iterParent i p := by
  have hlen : ∀ k, k ≤ p.tail.length → (iterParent k p).tail.length = p.tail.length - k := by
    intro k hk
    cases k with
    | zero => simp [iterParent]
    | succ k =>
      have hne : p.tail ≠ [] := by intro e; rw [e] at hk; simp at hk
      have hp : p.parent = PP.fromParsed p.root p.tail.dropLast := by simp [PP.parent, hne]
      rw [iterParent, hp, iterParent_fromParsed p.root k p.tail.dropLast (by simp; omega)]
      simp [PP.fromParsed]
      omega
  refine ⟨?_, ?_, ?_⟩
  · rw [parentsList_eq]
    congr 1
    apply List.map_congr_left
    intro i hi
    have hi' : i < p.tail.length := List.mem_range.mp hi
    have := parentsGet_eq_iterParent p i hi'
    rw [parentsGet_nat p i hi'] at this
    exact Except.ok.inj this
  · have := hlen p.tail.length (Nat.le_refl _)
    unfold PP.parent
    simp [List.length_eq_zero_iff.mp (by omega : (iterParent p.tail.length p).tail.length = 0)]
  · intro i hi heq
    have h1 := hlen i (by omega)
    have h2 := hlen (i + 1) (by omega)
    have : iterParent (i + 1) p = (iterParent i p).parent := by
      clear h1 h2 heq hi hlen
      induction i generalizing p with
      | zero => rfl
      | succ n ih => exact ih p.parent
    rw [this, heq] at h2
    omega

theorem parentsList_length (p : PP) (l : List PP) (h : p.parentsList = .ok l) :
    l.length = p.parentsLen := by
  rw [parentsList_eq] at h
  cases h
  simp [PP.parentsLen]

/-- 3.12: `parents[-k]` is `parents[len - k]`; out of range on either side is `IndexError` -/
theorem parentsGet_neg (p : PP) (i : Int) :
    (i < 0 → -(p.tail.length : Int) ≤ i → p.parentsGet i = p.parentsGet (i + p.tail.length)) ∧
    (i < -(p.tail.length : Int) → p.parentsGet i = .error .indexError) ∧
    ((p.tail.length : Int) ≤ i → p.parentsGet i = .error .indexError) := by
  refine ⟨parentsGet_neg' p i, ?_, ?_⟩
  · intro h
    unfold PP.parentsGet
    have : (i ≥ (p.tail.length : Int) ∨ i < -(p.tail.length : Int)) := Or.inr h
    simp [this]
  · intro h
    unfold PP.parentsGet
    have : (i ≥ (p.tail.length : Int) ∨ i < -(p.tail.length : Int)) := Or.inl h
    simp [this]

/-- `is_absolute()` (which looks at the raw segments) agrees with "has a root" -/
theorem isAbsolute_iff_root (p : PP) (h : p.Consistent) : p.isAbsolute = !p.root.isEmpty := by
  rw [h]
  simp only [PP.isAbsolute, PP.ofRaw, parsePath]
  rw [← startsSlash_iff_root, joinRaw, startsSlash_foldl]
  simp [startsSlash]

/-- the wrapper's `__eq__`/`__hash__` contract -/
theorem tp_eq_hash (p q : TP) (h : p.eq q = true) : TPath.hashKey p = TPath.hashKey q :=
  PathM.tp_eq_hash p q h

/-! ### the host-taking entry points of `path.py`: `WrongHostError` iff some argument is a path
    whose machine is not `==` the path's machine (`Machine.__eq__`, i.e. clone-equivalence by
    `PathM.machEq_iff_cloneEq`), whatever else the arguments are -/

theorem bind_wrongHost_iff {α β : Type} (x : Except Exc (List PArg)) (F : List PArg → Except Exc α)
    (g : α → β) (hF : ∀ a, F a ≠ .error .wrongHost) :
    (x.bind fun a => (F a).map g) = .error .wrongHost ↔ x = .error .wrongHost := by
  cases x with
  | error e => simp [Except.bind]
  | ok a =>
    simp only [Except.bind, reduceCtorEq, iff_false]
    intro h
    cases hr : F a with
    | error e => rw [hr] at h; simp [Except.map] at h; exact hF a (by rw [hr, h])
    | ok v => rw [hr] at h; simp [Except.map] at h

theorem new_ne_wrongHost (a : List PArg) : PP.new a ≠ .error .wrongHost := by
  intro h
  have := new_exc a _ h
  cases this

theorem relativeTo_ne_wrongHost (p : PP) (a : List PArg) : p.relativeTo a ≠ .error .wrongHost := by
  intro h
  have := relativeTo_isRelativeTo p a
  rw [h] at this
  simp only [Exc.isValueError, ↓reduceIte] at this
  unfold PP.isRelativeTo at this
  cases a with
  | nil => simp at this
  | cons x t =>
    simp only at this
    cases hn : PP.new (x :: t) with
    | error e =>
      unfold PP.relativeTo at h
      simp only [hn, bind, Except.bind] at h
      exact new_ne_wrongHost _ (by rw [hn, Except.error.inj h])
    | ok o =>
      unfold PP.relativeTo at h
      obtain ⟨b, hb⟩ := isRelativeTo1_ok p o
      simp only [hn, hb, bind, Except.bind, pure, Except.pure] at h
      cases b <;> simp at h

theorem isRelativeTo_ne_wrongHost (p : PP) (a : List PArg) :
    p.isRelativeTo a ≠ .error .wrongHost := by
  rw [← relativeTo_isRelativeTo]
  intro h
  cases hr : p.relativeTo a with
  | ok r => rw [hr] at h; simp at h
  | error e =>
    rw [hr] at h
    cases e <;> simp [Exc.isValueError] at h

/-- `Path(host, *args)` -/
theorem new_wrongHost_iff (host : Mach) (args : List TArg) :
    TP.new host args = .error .wrongHost ↔ ∃ x, TArg.t x ∈ args ∧ x.host.eq host = false := by
  rw [tp_new, bind_wrongHost_iff _ _ _ new_ne_wrongHost, prepareArgs_wrongHost_iff]

/-- `p.joinpath(*args)` -/
theorem joinpath_wrongHost_iff (p : TP) (args : List TArg) :
    p.joinpath args = .error .wrongHost ↔ ∃ x, TArg.t x ∈ args ∧ x.host.eq p.host = false := by
  rw [tp_joinpath, bind_wrongHost_iff _ p.path.joinpath _ (fun a => new_ne_wrongHost _),
    prepareArgs_wrongHost_iff]

/-- `p / key` -/
theorem truediv_wrongHost_iff (p : TP) (key : TArg) :
    p.truediv key = .error .wrongHost ↔ ∃ x, key = .t x ∧ x.host.eq p.host = false := by
  unfold TP.truediv
  rw [joinpath_wrongHost_iff]
  simp only [List.mem_singleton]
  constructor <;> rintro ⟨x, h, hf⟩ <;> exact ⟨x, h.symm, hf⟩

/-- `key / p` -/
theorem rtruediv_wrongHost_iff (p : TP) (key : TArg) :
    p.rtruediv key = .error .wrongHost ↔ ∃ x, key = .t x ∧ x.host.eq p.host = false := by
  unfold TP.rtruediv
  rw [new_wrongHost_iff]
  simp only [List.mem_cons, List.mem_nil_iff, or_false, reduceCtorEq]
  constructor <;> rintro ⟨x, h, hf⟩ <;> exact ⟨x, h.symm, hf⟩

/-- `p.relative_to(*args)` -/
theorem relativeTo_wrongHost_iff (p : TP) (args : List TArg) :
    p.relativeTo args = .error .wrongHost ↔ ∃ x, TArg.t x ∈ args ∧ x.host.eq p.host = false := by
  rw [tp_relativeTo, bind_wrongHost_iff _ _ _ (relativeTo_ne_wrongHost p.path),
    prepareArgs_wrongHost_iff]

/-- `p.is_relative_to(*args)` (after the repair: it used to answer `False`) -/
theorem isRelativeTo_wrongHost_iff (p : TP) (args : List TArg) :
    p.isRelativeTo args = .error .wrongHost ↔ ∃ x, TArg.t x ∈ args ∧ x.host.eq p.host = false := by
  rw [tp_isRelativeTo, ← prepareArgs_wrongHost_iff]
  cases hx : TP.prepareArgs p.host args with
  | error e => simp [Except.bind]
  | ok a =>
    simp only [Except.bind, reduceCtorEq, iff_false]
    exact isRelativeTo_ne_wrongHost p.path a

/-! ### non-vacuity: the hypotheses of the main theorem are satisfiable by non-trivial cases -/

/-- a foreign-host case: base path on machine 0, clone 1, foreign 2 -/
def demoCase : Case :=
  { pure := false, machines := [.fresh 0, .clone 0, .fresh 0], host := 0,
    args := [.s "/a".toList, .t 1 ["b.tar.gz".toList]], chain := [.parent, .div (.s "c d".toList)],
    queries := [.str, .plist, .escape 1, .escape 2, .op (.joinpath [.t 2 ["x".toList]]),
      .isRel [.t 2 ["/a".toList]], .op (.rdiv (.s "x".toList)), .op (.par (-1))] }

example : demoCase.wf = true ∧ demoCase.quirkFree = true ∧ demoCase.pure = false := by decide

example : run demoCase = .results
    [.ok (.s "/a/c d".toList),
     .ok (.ps [(0, "/a".toList, ["/".toList, "a".toList]), (0, "/".toList, ["/".toList])]),
     .ok (.s "'/a/c d'".toList), .err .wrongHost, .err .wrongHost, .err .wrongHost,
     .ok (.p 0 "/a/c d".toList ["/".toList, "a".toList, "c d".toList]),
     .ok (.p 0 "/".toList ["/".toList])] := by decide

example : ∃ p : PP, p.Consistent ∧ p.tail.length = 2 := ⟨PP.ofRaw ["/a/b".toList], rfl, by decide⟩

end C12
