import TbotVerif.Props.CtxTrace3
set_option linter.unusedSimpArgs false
set_option linter.unusedVariables false
/-! I4 for programs that never switch keep-alive on. -/
namespace Ctx

theorem Inv3.plainExt {P : Nat → Nat} {s s' : St} (h : Inv3 P s) (hm : s'.mgrs = s.mgrs)
    (evs : List Ev) (ht : s'.trace = evs ++ s.trace) (hp : ∀ e ∈ evs, e.plain = true) : Inv3 P s' := by
  constructor
  · rw [hm]; exact h.heldDep
  · intro k
    rw [ht, opens_plain_append hp, hm]
    exact h.opens k

theorem G4.plainExt {s s' : St} (h : G4 s) (hk : s'.keepAlive = false)
    (evs : List Ev) (ht : s'.trace = evs ++ s.trace) (hp : ∀ e ∈ evs, e.plain = true) : G4 s' := by
  constructor
  · exact hk
  · rw [ht, always_release_plain_append hp]; exact h.good

section
variable (cfg : Cfg)

theorem logLeave_plain (r : R) : (logLeave r).1.mgrs = r.1.mgrs ∧ (logLeave r).1.keepAlive = r.1.keepAlive ∧
    ∃ evs, (logLeave r).1.trace = evs ++ r.1.trace ∧ ∀ e ∈ evs, e.plain = true := by
  unfold logLeave
  cases r.2 with
  | some e => exact ⟨rfl, rfl, [.leaves e], rfl, by simp [Ev.plain]⟩
  | none => exact ⟨rfl, rfl, [], rfl, by simp⟩

mutual
theorem exec_G4 (hwf : cfg.depsBelow) : ∀ (p : Stmt) (s : St), p.noKaOn = true → Inv [] s →
    Inv3 (fun _ => 0) s → G4 s → Inv3 (fun _ => 0) (exec cfg p s).1 ∧ G4 (exec cfg p s).1
  | .req c reset excl roe body, s, hno, h, h3, g4 => by
    simp only [Stmt.noKaOn] at hno
    rw [exec]
    have hre := (ops_spec cfg hwf cfg.n).2.2 [] false c reset excl roe s h (by simp)
    have gre := (ops_G cfg hwf cfg.n).2.2 (fun _ => 0) [] false c reset excl roe s h (by simp) h3
    generalize (ops cfg cfg.n).reqEnter false c reset excl roe s = r at hre gre ⊢
    obtain ⟨s1, res⟩ := r
    cases res with
    | inr e =>
      simp only
      have g1 := gre.2.1 g4
      exact ⟨gre.1.plainExt rfl [.leaves e] rfl (by simp [Ev.plain]),
        g1.plainExt g1.ka [.leaves e] rfl (by simp [Ev.plain])⟩
    | inl f =>
      simp only
      obtain ⟨hfo, hfh, hfc, _⟩ := hre.2.2 f rfl
      simp only at hfo hfh hre gre
      have hb := execBlock_inv cfg hwf body s1 hre.1
      have gb := execBlock_G4 hwf body s1 hno hre.1 gre.1 (gre.2.1 g4)
      generalize execBlock cfg body s1 = rb at hb gb ⊢
      have hp : Pend [f] rb.1 := (Pend.single hfo hfh).tr hb.2.tr hre.1.idLt (by simp)
      have grx := (ops_G cfg hwf cfg.n).2.1 (fun _ => 0) [] f rb.1 rb.2 hb.1 (by simp)
        (hp.isOpen f (by simp)) (hp.notHeld f (by simp)) gb.1
      generalize (ops cfg cfg.n).reqExit f rb.1 rb.2 = r2 at grx ⊢
      obtain ⟨hm, hk, evs, ht, hpl⟩ := logLeave_plain r2
      have g2 := grx.2.2.1 gb.2
      exact ⟨grx.1.plainExt hm evs ht hpl, g2.plainExt (by rw [hk]; exact g2.ka) evs ht hpl⟩
  | .ctx body, s, hno, h, h3, g4 => by
    simp only [Stmt.noKaOn] at hno
    rw [exec]
    have hx1 : Ext s ({ (s.log .ctxEnter) with openCtx := (s.log .ctxEnter).openCtx + 1 } : St) :=
      ⟨rfl, rfl, rfl, rfl, rfl, [.ctxEnter], by simp [Ev.quiet], by simp [St.log]⟩
    have h31 : Inv3 (fun _ => 0) ({ (s.log .ctxEnter) with openCtx := (s.log .ctxEnter).openCtx + 1 } : St) :=
      h3.plainExt rfl [.ctxEnter] rfl (by simp [Ev.plain])
    have g41 : G4 ({ (s.log .ctxEnter) with openCtx := (s.log .ctxEnter).openCtx + 1 } : St) :=
      g4.plainExt g4.ka [.ctxEnter] rfl (by simp [Ev.plain])
    have hb := execBlock_inv cfg hwf body _ (h.ext hx1)
    have gb := execBlock_G4 hwf body _ hno (h.ext hx1) h31 g41
    generalize execBlock cfg body ({ (s.log .ctxEnter) with openCtx := (s.log .ctxEnter).openCtx + 1 } : St) = rb at hb gb ⊢
    have hx2 : Ext rb.1 (rb.1.log .ctxBody) := ext_log (by simp [Ev.quiet])
    have h32 : Inv3 (fun _ => 0) (rb.1.log .ctxBody) := gb.1.plainExt rfl [.ctxBody] rfl (by simp [Ev.plain])
    have g42 : G4 (rb.1.log .ctxBody) := gb.2.plainExt gb.2.ka [.ctxBody] rfl (by simp [Ev.plain])
    -- the exit
    have gc : Inv3 (fun _ => 0) (ctxExit cfg (rb.1.log .ctxBody)).1 ∧ G4 (ctxExit cfg (rb.1.log .ctxBody)).1 := by
      unfold ctxExit
      simp only
      split
      · have hl := tdLoop_G (ops_spec cfg hwf cfg.n).1 (ops_G cfg hwf cfg.n).1
          (fun s c => s.alive c && s.keepAlive) (fun _ => 0) (rb.1.log .ctxBody).order.reverse
          (rb.1.log .ctxBody) none (hb.1.ext hx2) h32
        have g := hl.2.2 g42
        exact ⟨hl.1.plainExt rfl [] rfl (by simp), g.plainExt g.ka [] rfl (by simp)⟩
      · exact ⟨h32.plainExt rfl [] rfl (by simp), g42.plainExt g42.ka [] rfl (by simp)⟩
    generalize ctxExit cfg (rb.1.log .ctxBody) = r2 at gc ⊢
    obtain ⟨hm, hk, evs, ht, hpl⟩ := logLeave_plain (r2.1.log .ctxLeave, later rb.2 r2.2)
    have h33 : Inv3 (fun _ => 0) (r2.1.log .ctxLeave) := gc.1.plainExt rfl [.ctxLeave] rfl (by simp [Ev.plain])
    have g43 : G4 (r2.1.log .ctxLeave) := gc.2.plainExt gc.2.ka [.ctxLeave] rfl (by simp [Ev.plain])
    exact ⟨h33.plainExt hm evs ht hpl, g43.plainExt (by rw [hk]; exact g43.ka) evs ht hpl⟩
  | .reconf ka roe body, s, hno, h, h3, g4 => by
    simp only [Stmt.noKaOn, Bool.and_eq_true, bne_iff_ne, ne_eq] at hno
    rw [exec]
    have hkk : ka.getD s.keepAlive = false := by
      rw [g4.ka]
      cases ka with
      | none => rfl
      | some b =>
        cases b with
        | false => rfl
        | true => exact absurd rfl hno.1
    have hx1 : Ext s ({ s with keepAlive := ka.getD s.keepAlive, roeDefault := roe.getD s.roeDefault } : St) :=
      ⟨rfl, rfl, rfl, rfl, rfl, [], by simp, by simp⟩
    have h31 : Inv3 (fun _ => 0) ({ s with keepAlive := ka.getD s.keepAlive, roeDefault := roe.getD s.roeDefault } : St) :=
      h3.plainExt rfl [] rfl (by simp)
    have g41 : G4 ({ s with keepAlive := ka.getD s.keepAlive, roeDefault := roe.getD s.roeDefault } : St) :=
      g4.plainExt hkk [] rfl (by simp)
    have hb := execBlock_inv cfg hwf body _ (h.ext hx1)
    have gb := execBlock_G4 hwf body _ hno.2 (h.ext hx1) h31 g41
    generalize execBlock cfg body ({ s with keepAlive := ka.getD s.keepAlive, roeDefault := roe.getD s.roeDefault } : St) = rb at hb gb ⊢
    have hre : reconfExit cfg s.keepAlive s.roeDefault ka rb.1 =
        ({ rb.1 with keepAlive := s.keepAlive, roeDefault := s.roeDefault }, none) := by
      unfold reconfExit
      have : ¬ (ka = some true) := hno.1
      simp [this]
    rw [hre]
    have h32 : Inv3 (fun _ => 0) ({ rb.1 with keepAlive := s.keepAlive, roeDefault := s.roeDefault } : St) :=
      gb.1.plainExt rfl [] rfl (by simp)
    have g42 : G4 ({ rb.1 with keepAlive := s.keepAlive, roeDefault := s.roeDefault } : St) :=
      gb.2.plainExt g4.ka [] rfl (by simp)
    obtain ⟨hm, hk, evs, ht, hpl⟩ := logLeave_plain
      (({ rb.1 with keepAlive := s.keepAlive, roeDefault := s.roeDefault } : St), later rb.2 none)
    exact ⟨h32.plainExt hm evs ht hpl, g42.plainExt (by rw [hk]; exact g42.ka) evs ht hpl⟩
  | .try_ body, s, hno, h, h3, g4 => by
    simp only [Stmt.noKaOn] at hno
    rw [exec]
    have gb := execBlock_G4 hwf body s hno h h3 g4
    generalize execBlock cfg body s = rb at gb ⊢
    cases he : rb.2 with
    | some e =>
      exact ⟨gb.1.plainExt rfl [.caught e] rfl (by simp [Ev.plain]),
        gb.2.plainExt gb.2.ka [.caught e] rfl (by simp [Ev.plain])⟩
    | none => exact gb
  | .raise, s, _, h, h3, g4 => by
    rw [exec]
    exact ⟨h3.plainExt rfl [.created (s.newExc .body).2] rfl (by simp [Ev.plain]),
      g4.plainExt g4.ka [.created (s.newExc .body).2] rfl (by simp [Ev.plain])⟩
  | .skip, s, _, h, h3, g4 => by
    rw [exec]
    exact ⟨h3.plainExt rfl [.created (s.newExc .skip).2] rfl (by simp [Ev.plain]),
      g4.plainExt g4.ka [.created (s.newExc .skip).2] rfl (by simp [Ev.plain])⟩
  | .td c, s, _, h, h3, g4 => by
    rw [exec]
    split
    · have gtd := (ops_G cfg hwf cfg.n).1 (fun _ => 0) [] c s h (by simp) h3
      generalize (ops cfg cfg.n).teardown c s = r at gtd ⊢
      have g1 := gtd.2.2.1 g4
      simp only
      cases he : r.2 with
      | some e =>
        exact ⟨gtd.1.plainExt rfl [.leaves e] rfl (by simp [Ev.plain]),
          g1.plainExt g1.ka [.leaves e] rfl (by simp [Ev.plain])⟩
      | none =>
        exact ⟨gtd.1.plainExt rfl [.tdRes c true] rfl (by simp [Ev.plain]),
          g1.plainExt g1.ka [.tdRes c true] rfl (by simp [Ev.plain])⟩
    · exact ⟨h3.plainExt rfl [.tdRes c false] rfl (by simp [Ev.plain]),
        g4.plainExt g4.ka [.tdRes c false] rfl (by simp [Ev.plain])⟩

theorem execBlock_G4 (hwf : cfg.depsBelow) : ∀ (b : Block) (s : St), b.noKaOn = true → Inv [] s →
    Inv3 (fun _ => 0) s → G4 s → Inv3 (fun _ => 0) (execBlock cfg b s).1 ∧ G4 (execBlock cfg b s).1
  | .nil, s, _, _, h3, g4 => by rw [execBlock]; exact ⟨h3, g4⟩
  | .cons p rest, s, hno, h, h3, g4 => by
    simp only [Block.noKaOn, Bool.and_eq_true] at hno
    rw [execBlock]
    have h1 := exec_inv cfg hwf p s h
    have g1 := exec_G4 hwf p s hno.1 h h3 g4
    generalize exec cfg p s = r at h1 g1 ⊢
    cases he : r.2 with
    | some e => exact g1
    | none => exact execBlock_G4 hwf rest r.1 hno.2 h1.1 g1.1 g1.2
end

end

end Ctx
