import TbotVerif.Props.FilesLines
/-! C11 — `Path.write_text`, `Path.write_bytes`, `Path.read_text`, `Path.read_bytes` on the channel
    model: each call succeeds on an idle session for EVERY fragmentation of the remote's answers,
    and types exactly the bytes the remote model is then evaluated on. -/

namespace Files
open Chan Shell C05 C02 C03 Spec

theorem noEarly_nil (p : Bytes) : NoEarly p [] := by
  intro k hk hle hsuf
  simp only [List.nil_append] at hle hsuf ⊢
  have := hsuf.length_le
  simp only [List.length_take] at this
  omega

theorem not_infix_of_class (S : Byte → Bool) (p w : Bytes) (hw : ∀ c ∈ w, S c = true) (hp : ∃ c ∈ p, S c = false) :
    ¬ p <:+: w := by
  intro h
  obtain ⟨c, hc, hS⟩ := hp
  have := hw c (h.subset hc)
  rw [hS] at this
  cases this

theorem promptReg_ext (nd : Nat) (ps1 since b : Bytes) : ext b (promptReg nd ps1 since) = promptReg nd ps1 (since ++ b) := rfl

/-! ### `write_text` -/

/-- **`write_text`, `tee` path** (multi-line text, or text with NUL).  On an idle session, for
    every fragmentation of the remote's two answers, the call returns the number of bytes and
    what reached the transport is: the `tee` command line, the data, one or two `^D`, `echo $?`. -/
theorem writeText_slow_ok {s : St} {ps1 bl : Bytes} {nd : Nat} {tx : Bytes} (path : Bytes) (t : List Char)
    (a1 a2 : List Bytes) (hss : SS s ps1 bl [] nd [] tx) (hbl : BlTable bl) (hp : PromptOk ps1)
    (hfast : fastPath (enc t) = false) (hpath : forbidden bl path = false) (hdata : forbidden bl (enc t) = false)
    (hq : ¬ ps1 <:+: Tty.echo false (enc t))
    (ha1 : a1.flatten = Tty.echo false (teeLine path ++ [13]) ++ Tty.echo false (enc t) ++ ps1)
    (hn1 : ∀ p ∈ a1, p ≠ []) (ha2 : a2.flatten = respStatus false ps1 0) (hn2 : ∀ p ∈ a2, p ≠ []) :
    ∃ s', writeText ps1 path t a1 a2 s = (.ok (enc t).length, s')
      ∧ written s' = tx ++ (teeLine path ++ [13]) ++ enc t ++ Remote.fin (enc t) ++ (echoStatusLine ++ [13]) := by
  have hf := ss_feed a1 hss hn1
  rw [ha1] at hf
  simp only [List.nil_append, List.append_assoc] at hf
  obtain ⟨px, s1, h1, hdid, hss1⟩ := runEnter_ok (teeLine path) (Tty.echo false (enc t) ++ ps1) hf hp (forb_teeLine hbl path hpath)
  have hquiet : Files.Quiet [promptReg nd ps1 []] (Tty.echo false (enc t)) := by
    intro r hr p hpat
    simp only [List.mem_singleton] at hr
    subst hr
    simp only [promptReg, Pat.lit.injEq] at hpat
    subst hpat
    simpa [promptReg] using hq
  obtain ⟨s2, h2, hss2⟩ := ss_send (enc t) hss1 hdata hquiet
  simp only [List.map_cons, List.map_nil, promptReg_ext, List.nil_append] at hss2
  -- the `^D`s
  have hss3 : SS (sendcontrol 4 (if !((enc t).isEmpty || endsInNl (enc t)) then (sendcontrol 4 s2).2 else s2)).2 ps1 bl
      [promptReg nd ps1 (Tty.echo false (enc t))] (nd + 1) ps1
      (tx ++ (teeLine path ++ [13]) ++ enc t ++ Remote.fin (enc t)) := by
    unfold Remote.fin
    cases hc : !((enc t).isEmpty || endsInNl (enc t)) with
    | true =>
      simp only [if_true]
      have := ss_sendEOT (ss_sendEOT hss2)
      simpa [List.append_assoc] using this
    | false =>
      simp only [Bool.false_eq_true, if_false]
      have := ss_sendEOT hss2
      simpa [List.append_assoc] using this
  obtain ⟨s4, h4, hss4⟩ := terminate0_ok px a2 hss3 hdid hbl.status hp ha2 hn2
  refine ⟨s4, ?_, hss4.tx⟩
  unfold writeText
  simp only [hfast, Bool.false_eq_true, if_false, h1, h2, h4]

/-- **`write_text`, `printf` fast path** (single-line text without NUL) -/
theorem writeText_fast_ok {s : St} {ps1 bl : Bytes} {nd : Nat} {tx : Bytes} (path : Bytes) (t : List Char)
    (a1 a2 : List Bytes) (hss : SS s ps1 bl [] nd [] tx) (hbl : BlTable bl) (hp : PromptOk ps1)
    (hfast : fastPath (enc t) = true) (hpath : forbidden bl path = false) (hdata : forbidden bl (enc t) = false)
    (ha1 : a1.flatten = Tty.echo false (printfLine path (enc t) ++ [13]) ++ ps1)
    (hn1 : ∀ p ∈ a1, p ≠ []) (ha2 : a2.flatten = respStatus false ps1 0) (hn2 : ∀ p ∈ a2, p ≠ []) :
    ∃ s', writeText ps1 path t a1 a2 s = (.ok t.length, s')
      ∧ written s' = tx ++ (printfLine path (enc t) ++ [13]) ++ (echoStatusLine ++ [13]) := by
  have ha1' : a1.flatten = respCmd false ps1 (printfLine path (enc t)) [] := by
    rw [ha1]; simp [respCmd, Tty.cook, Tty.CR]
  obtain ⟨s', h, hss'⟩ := exec0Fed_ok (printfLine path (enc t)) [] a1 a2 hss hbl.status hp
    (forb_printfLine hbl path (enc t) hpath hdata) (noEarly_nil ps1) ha1' hn1 ha2 hn2
  refine ⟨s', ?_, hss'.tx⟩
  unfold writeText
  simp only [hfast, if_true, h]

/-! ### `write_bytes` -/

theorem mem_echo (x : Bytes) (c : Byte) (h : c ∈ Tty.echo false x) : c ∈ x ∨ c = 13 ∨ c = 10 := by
  induction x with
  | nil => simp [Tty.echo] at h
  | cons y x ih =>
    have : Tty.echo false (y :: x) = Tty.echo1 false y ++ Tty.echo false x := by simp [Tty.echo]
    rw [this, List.mem_append] at h
    rcases h with h | h
    · unfold Tty.echo1 at h
      split at h
      · simp only [List.mem_cons, List.not_mem_nil, or_false, Tty.CR, Tty.LF] at h
        exact Or.inr h
      · simp only [Bool.false_and, Bool.false_eq_true, if_false, List.mem_singleton] at h
        exact Or.inl (by rw [h]; simp)
    · rcases ih h with h | h
      · exact Or.inl (List.mem_cons_of_mem _ h)
      · exact Or.inr h

/-- the class of bytes the echo of base64 lines consists of -/
def b64Echo (c : Byte) : Bool := isB64 c || c == 13 || c == 10

theorem echo_lines_class (ls : List Bytes) (hls : ∀ l ∈ ls, ∀ c ∈ l, isB64 c = true) :
    ∀ c ∈ Tty.echo false (ls.flatMap (· ++ [13])), b64Echo c = true := by
  intro c hc
  unfold b64Echo
  rcases mem_echo _ c hc with h | h | h
  · simp only [List.mem_flatMap, List.mem_append, List.mem_singleton] at h
    obtain ⟨l, hl, h | h⟩ := h
    · simp [hls l hl c h]
    · simp [h]
  · simp [h]
  · simp [h]

/-- the `sendline(chunk, read_back=True)` loop succeeds line by line -/
theorem sendLines_ok (ps1 bl : Bytes) (nd : Nat) (W : Bytes) :
    ∀ (ls : List Bytes) (s : St) (regs : List Reg) (tx : Bytes),
      SS s ps1 bl regs nd (Tty.echo false (ls.flatMap (· ++ [13])) ++ W) tx →
      (∀ l ∈ ls, forbidden bl (l ++ [13]) = false) → Files.Quiet regs (Tty.echo false (ls.flatMap (· ++ [13]))) →
      ∃ s', sendLines ls s = (.ok (), s')
        ∧ SS s' ps1 bl (regs.map (ext (Tty.echo false (ls.flatMap (· ++ [13]))))) nd W (tx ++ ls.flatMap (· ++ [13])) := by
  intro ls
  induction ls with
  | nil =>
    intro s regs tx hss _ _
    refine ⟨s, rfl, ?_⟩
    have : Tty.echo false ([] : Bytes) = [] := rfl
    simp only [List.flatMap_nil, this, List.nil_append, List.append_nil, map_ext_nil] at hss ⊢
    exact hss
  | cons l ls ih =>
    intro s regs tx hss hnf hq
    have hsplit : Tty.echo false ((l :: ls).flatMap (· ++ [13]))
        = Tty.echo false (l ++ [13]) ++ Tty.echo false (ls.flatMap (· ++ [13])) := by
      simp only [List.flatMap_cons]
      rw [Tty.echo_append]
    rw [hsplit, List.append_assoc] at hss
    rw [hsplit] at hq
    obtain ⟨s1, h1, hss1⟩ := ss_send (l ++ [13]) hss (hnf l (by simp)) hq.mono
    obtain ⟨s2, h2, hss2⟩ := ih s1 _ _ hss1 (fun l' hl' => hnf l' (by simp [hl'])) hq.ext
    refine ⟨s2, ?_, ?_⟩
    · simp only [sendLines, sendline, h1, h2]
    · rw [map_ext_ext, ← hsplit] at hss2
      simpa [List.flatMap_cons, List.append_assoc] using hss2

/-- what the theorems assume about the base64 codec -/
structure CodecOk (cd : Codec) : Prop where
  /-- decoding inverts encoding -/
  roundtrip : ∀ d, cd.dec (cd.enc d) = d
  /-- the decoder skips CR and LF -/
  skipNl : ∀ x, cd.dec (x.filter fun c => c != 13 && c != 10) = cd.dec x
  /-- the encoder's output is over the 65 symbols -/
  alphabet : ∀ d, ∀ c ∈ cd.enc d, isB64 c = true

/-- the registration `write_bytes` makes for `tee`'s error messages -/
def teeReg (nd : Nat) (since : Bytes) : Reg := { id := nd, pat := .lit teeMsg, exc := excTee, since := since }

theorem teeMsg_class : ∃ c ∈ teeMsg, b64Echo c = false := by
  rw [teeMsg_eq]; exact ⟨58, by decide, by decide +kernel⟩

/-- **`write_bytes`**.  On an idle session, for every fragmentation of the remote's two answers, for
    every codec whose output is base64 text: the call returns the number of bytes and what reached
    the transport is the pipeline's command line, the encoded data in lines, `^D`, `echo $?`. -/
theorem writeBytes_ok {s : St} {ps1 bl : Bytes} {nd : Nat} {tx : Bytes} (cd : Codec) (hcd : CodecOk cd)
    (path d : Bytes) (a1 a2 : List Bytes) (hss : SS s ps1 bl [] nd [] tx) (hbl : BlTable bl) (hp : PromptOk ps1)
    (hpc : ∃ c ∈ ps1, b64Echo c = false) (hpath : forbidden bl path = false)
    (ha1 : a1.flatten = Tty.echo false (b64TeeLine path ++ [13])
      ++ Tty.echo false ((chunksOf Params.b64LineLen (cd.enc d)).flatMap (· ++ [13])) ++ ps1)
    (hn1 : ∀ p ∈ a1, p ≠ []) (ha2 : a2.flatten = respStatus false ps1 0) (hn2 : ∀ p ∈ a2, p ≠ []) :
    ∃ s', writeBytes cd ps1 path d a1 a2 s = (.ok d.length, s')
      ∧ written s' = tx ++ (b64TeeLine path ++ [13]) ++ (chunksOf Params.b64LineLen (cd.enc d)).flatMap (· ++ [13])
          ++ [EOT] ++ (echoStatusLine ++ [13]) := by
  generalize hls : chunksOf Params.b64LineLen (cd.enc d) = ls at ha1 ⊢
  have hlsB : ∀ l ∈ ls, ∀ c ∈ l, isB64 c = true := by
    intro l hl c hc
    rw [← hls] at hl
    exact hcd.alphabet d c (chunksOf_mem _ _ l hl c hc)
  have hf := ss_feed a1 hss hn1
  rw [ha1] at hf
  simp only [List.nil_append, List.append_assoc] at hf
  obtain ⟨px, s1, h1, hdid, hss1⟩ := runEnter_ok (b64TeeLine path) _ hf hp (forb_b64TeeLine hbl path hpath)
  obtain ⟨htid, hss2⟩ := ss_deathEnter teeMsg excTee hss1 (by rw [teeMsg_eq]; simp)
  have hclass := echo_lines_class ls hlsB
  have hquiet : Files.Quiet [{ id := nd + 1, pat := .lit teeMsg, exc := excTee }, promptReg nd ps1 []]
      (Tty.echo false (ls.flatMap (· ++ [13]))) := by
    intro r hr p hpat
    simp only [List.mem_cons, List.not_mem_nil, or_false] at hr
    rcases hr with rfl | rfl
    · simp only [Pat.lit.injEq] at hpat
      subst hpat
      simpa using not_infix_of_class b64Echo _ _ hclass teeMsg_class
    · simp only [promptReg, Pat.lit.injEq] at hpat
      subst hpat
      simpa [promptReg] using not_infix_of_class b64Echo _ _ hclass hpc
  have hnf : ∀ l ∈ ls, forbidden bl (l ++ [13]) = false := by
    intro l hl
    rw [forbidden_false_iff]
    intro x hx hm
    simp only [List.mem_append, List.mem_singleton] at hm
    rcases hm with hm | hm
    · have := hbl.b64Not x hx
      rw [hlsB l hl x hm] at this
      cases this
    · exact (hbl.sp x hx).2.2.2 hm
  obtain ⟨s3, h3, hss3⟩ := sendLines_ok ps1 bl (nd + 1 + 1) ps1 ls _ _ _ hss2 hnf hquiet
  -- the `tee: ` registration goes away, the `^D` is sent
  have hss4 := ss_sendEOT (ss_deathExit (nd + 1) hss3)
  have hfil : (List.map (ext (Tty.echo false (ls.flatMap (· ++ [13]))))
      [{ id := nd + 1, pat := .lit teeMsg, exc := excTee }, promptReg nd ps1 []]).filter (fun r => r.id != nd + 1)
      = [promptReg nd ps1 (Tty.echo false (ls.flatMap (· ++ [13])))] := by
    simp [ext, promptReg]
  rw [hfil] at hss4
  obtain ⟨s5, h5, hss5⟩ := terminate0_ok px a2 hss4 hdid hbl.status hp ha2 hn2
  subst hls
  refine ⟨s5, ?_, ?_⟩
  · unfold writeBytes
    simp only [h1]
    rw [← htid] at h5
    simp only [h3, h5]
  · rw [hss5.tx]

/-! ### reading -/

/-- **`read_text`** of a file holding `f` -/
theorem readText_ok {s : St} {ps1 bl : Bytes} {nd : Nat} {tx : Bytes} (path f : Bytes) (a1 a2 : List Bytes)
    (hss : SS s ps1 bl [] nd [] tx) (hbl : BlTable bl) (hp : PromptOk ps1) (hpath : forbidden bl path = false)
    (hout : NoEarly ps1 (Tty.cook f))
    (ha1 : a1.flatten = respCmd false ps1 (catLine path) f) (hn1 : ∀ p ∈ a1, p ≠ [])
    (ha2 : a2.flatten = respStatus false ps1 0) (hn2 : ∀ p ∈ a2, p ≠ []) :
    ∃ s', readText path a1 a2 s = (.ok (text (Tty.cook f)), s') := by
  obtain ⟨s', h, _⟩ := exec0Fed_ok (catLine path) f a1 a2 hss hbl.status hp (forb_catLine hbl path hpath) hout ha1 hn1 ha2 hn2
  exact ⟨s', h⟩

/-- **`read_bytes`** of a file holding `f`: the decoded text of what `base64 FILE` prints -/
theorem readBytes_ok {s : St} {ps1 bl : Bytes} {nd : Nat} {tx : Bytes} (cd : Codec) (path f : Bytes) (a1 a2 : List Bytes)
    (hss : SS s ps1 bl [] nd [] tx) (hbl : BlTable bl) (hp : PromptOk ps1) (hpath : forbidden bl path = false)
    (hout : NoEarly ps1 (Tty.cook (Remote.b64Out cd f)))
    (ha1 : a1.flatten = respCmd false ps1 (b64Line path) (Remote.b64Out cd f)) (hn1 : ∀ p ∈ a1, p ≠ [])
    (ha2 : a2.flatten = respStatus false ps1 0) (hn2 : ∀ p ∈ a2, p ≠ []) :
    ∃ s', readBytes cd path a1 a2 s = (.ok (cd.dec (enc (text (Tty.cook (Remote.b64Out cd f))))), s') := by
  obtain ⟨s', h, _⟩ := exec0Fed_ok (b64Line path) (Remote.b64Out cd f) a1 a2 hss hbl.status hp
    (forb_b64Line hbl path hpath) hout ha1 hn1 ha2 hn2
  refine ⟨s', ?_⟩
  unfold readBytes
  simp only [h]

end Files
