import TbotVerif.Props.RunBase
/-! C10 — what one channel operation does to the proxy's channel when everything pending has
    arrived: consumption in terms of the delivery sizes, the death-string monitor for a single
    registration (the shell prompt), and occurrences of the prompt in the stream. -/

namespace Run
open Chan Spec

/-! ### unfolding `obsOp` -/

theorem obsOp_res (op : Op) (r : RunSt) : (obsOp op r).1.res = (runOp op (C05.cutR r)).1 := rfl
theorem obsOp_snd (op : Op) (r : RunSt) : (obsOp op r).2 = (runOp op (C05.cutR r)).2 := rfl
theorem obsOp_reads (op : Op) (r : RunSt) : (obsOp op r).1.reads = (runOp op (C05.cutR r)).2.st.reads := rfl
theorem obsOp_writes (op : Op) (r : RunSt) : (obsOp op r).1.writes = (runOp op (C05.cutR r)).2.st.writes := rfl

theorem cutR_script (r : RunSt) : (C05.cutR r).st.script = r.st.script := rfl

theorem z_cut {r : RunSt} (h : Z r.st) : Z (C05.cutR r).st := h

/-! ### sizes and consumption -/

theorem sizesOf_eq (o : _root_.OpObs) : sizesOf o = (delivered o).map List.length := by
  unfold sizesOf delivered
  induction o.reads with
  | nil => rfl
  | cons x xs ih =>
    cases hx : x.data with
    | none => simp [List.filterMap_cons, hx, ih]
    | some d => simp [List.filterMap_cons, hx, ih]

theorem sum_map_length (l : List Bytes) : (l.map List.length).sum = l.flatten.length := by
  induction l with
  | nil => rfl
  | cons x xs ih => simp only [List.map_cons, List.sum_cons, List.flatten_cons, List.length_append, ih]

theorem sizesOf_sum (o : _root_.OpObs) : (sizesOf o).sum = (delivered o).flatten.length := by
  rw [sizesOf_eq, sum_map_length]

/-- what an operation took from the pending stream, in terms of its delivery sizes -/
theorem consumed (r : RunSt) (op : Op) (hg : C03.Good r.st) (hop : ChanCase.opOk op = true) :
    (sizesOf (obsOp op r).1).sum ≤ (pending r.st).length
    ∧ (delivered (obsOp op r).1).flatten = (pending r.st).take (sizesOf (obsOp op r).1).sum
    ∧ pending (obsOp op r).2.st = (pending r.st).drop (sizesOf (obsOp op r).1).sum := by
  have hk := (ChanCase.keeps r op hg hop).flat
  rw [sizesOf_sum]
  simp only [pending_eq]
  generalize (delivered (obsOp op r).1).flatten = d at hk
  rw [← hk]
  refine ⟨by simp, by simp, by simp⟩

/-! ### occurrences of a literal -/

theorem findSub_first (p y : Bytes) : ∀ (x : Bytes) (i : Nat), findSub p (x ++ p ++ y) = some i → i ≤ x.length := by
  intro x
  induction x with
  | nil =>
    intro i h
    simp only [List.nil_append] at h
    cases hpy : p ++ y with
    | nil =>
      rw [hpy] at h
      have : p = [] := (List.append_eq_nil_iff.mp hpy).1
      subst this
      simp [findSub] at h
      omega
    | cons c t =>
      rw [hpy] at h
      unfold findSub at h
      have : p.isPrefixOf (c :: t) = true := by
        rw [← hpy]; exact List.isPrefixOf_iff_prefix.mpr ⟨y, rfl⟩
      simp [this] at h
      omega
  | cons c x ih =>
    intro i h
    simp only [List.cons_append] at h
    unfold findSub at h
    split at h
    · simp at h; omega
    · cases hf : findSub p (x ++ p ++ y) with
      | none => rw [hf] at h; simp at h
      | some j =>
        have hj := ih j hf
        rw [hf] at h
        simp only [Option.map_some, Option.some.injEq] at h
        simp only [List.length_cons]
        omega

/-- `p` occurs in `w` -/
def Occurs (p w : Bytes) : Prop := ∃ x y, w = x ++ p ++ y

theorem occurs_iff (p w : Bytes) : (findSub p w).isSome = true ↔ Occurs p w := by
  constructor
  · intro h
    cases hf : findSub p w with
    | none => rw [hf] at h; simp at h
    | some i =>
      obtain ⟨y, hy⟩ := C05.findSub_prefix p w i hf
      refine ⟨w.take i, y, ?_⟩
      rw [List.append_assoc, ← hy, List.take_append_drop]
  · rintro ⟨x, y, rfl⟩
    exact C05.findSub_complete p y x

theorem occurs_mono {p a : Bytes} (b : Bytes) (h : Occurs p a) : Occurs p (a ++ b) := by
  obtain ⟨x, y, rfl⟩ := h
  exact ⟨x, y ++ b, by simp⟩

/-- the prompt is in the stream only as its very end, and only when the command is gone -/
structure NoEarly (p w : Bytes) (gone : Bool) : Prop where
  only : ∀ x y, w = x ++ p ++ y → gone = true ∧ y = []
  fin : gone = true → p <:+ w

theorem noEarly_of (p w : Bytes) (st : Option Nat) (h : promptOk p w st = true) : NoEarly p w st.isSome := by
  unfold promptOk at h
  cases hf : findSub p w with
  | none =>
    rw [hf] at h
    simp only at h
    have hn : st.isSome = false := by cases st <;> simp_all
    constructor
    · intro x y hw
      have : (findSub p w).isSome = true := (occurs_iff p w).mpr ⟨x, y, hw⟩
      rw [hf] at this; simp at this
    · intro hg; rw [hn] at hg; simp at hg
  | some i =>
    rw [hf] at h
    simp only [Bool.and_eq_true, beq_iff_eq] at h
    obtain ⟨hs, hi⟩ := h
    obtain ⟨y0, hy0⟩ := C05.findSub_prefix p w i hf
    have hy0nil : y0 = [] := by
      have := congrArg List.length hy0
      simp only [List.length_drop, List.length_append] at this
      have : y0.length = 0 := by omega
      exact List.length_eq_zero_iff.mp this
    constructor
    · intro x y hw
      refine ⟨hs, ?_⟩
      have hle := findSub_first p y x i (by rw [← hw]; exact hf)
      have := congrArg List.length hw
      simp only [List.length_append] at this
      have : y.length = 0 := by omega
      exact List.length_eq_zero_iff.mp this
    · intro _
      refine ⟨w.take i, ?_⟩
      have : w.drop i = p := by rw [hy0, hy0nil, List.append_nil]
      rw [← this, List.take_append_drop]

/-- with `NoEarly` for the whole stream `since ++ pend`: the prompt has occurred in what was
    consumed (`since ++ pend.take k`) exactly when the command is gone and all was taken -/
theorem occurs_take_iff (p since pend : Bytes) (gone : Bool) (k : Nat) (hk : k ≤ pend.length)
    (hp : p ≠ []) (h : NoEarly p (since ++ pend) gone) (hs : ¬ Occurs p since) :
    Occurs p (since ++ pend.take k) ↔ (gone = true ∧ k = pend.length ∧ 0 < k) := by
  constructor
  · rintro ⟨x, y, hxy⟩
    have hw : since ++ pend = x ++ p ++ (y ++ pend.drop k) := by
      rw [← List.append_assoc, ← hxy, List.append_assoc, List.take_append_drop]
    obtain ⟨hg, hy⟩ := h.only x _ hw
    have hd : pend.drop k = [] := (List.append_eq_nil_iff.mp hy).2
    have hkl : k = pend.length := by
      have := congrArg List.length hd
      simp only [List.length_drop, List.length_nil] at this
      omega
    refine ⟨hg, hkl, ?_⟩
    cases k with
    | zero =>
      exfalso
      apply hs
      simp only [List.take_zero, List.append_nil] at hxy
      exact ⟨x, y, hxy⟩
    | succ k => omega
  · rintro ⟨hg, hkl, _⟩
    obtain ⟨x, hx⟩ := h.fin hg
    refine ⟨x, [], ?_⟩
    rw [hkl, List.take_length, List.append_nil]
    exact hx.symm

/-! ### the death-string monitor with the prompt as only registration -/

theorem lit_occurs (reg : Reg) (p : Bytes) (hp : reg.pat = .lit p) : reg.occurs = (findSub p reg.since).isSome := by
  unfold Reg.occurs
  rw [hp]
  simp [Pat.search]

/-- the registration after more data was received -/
def upd (reg : Reg) (d : Bytes) (f : Bool) : Reg := { reg with since := reg.since ++ d, fired := f }

/-- one registration (a literal, not fired): the monitor accepts an operation exactly if it
    raises the death exception iff the string has occurred in the data received so far -/
theorem walk_one (res : OpRes) (p : Bytes) (id exc : Nat) : ∀ (ds : List Bytes) (since : Bytes),
    (c05Walk res ds [⟨id, .lit p, exc, since, false⟩]).1 = true →
    (deathOf res).isSome = (!ds.isEmpty && (findSub p (since ++ ds.flatten)).isSome)
    ∧ (c05Walk res ds [⟨id, .lit p, exc, since, false⟩]).2
        = [⟨id, .lit p, exc, since ++ ds.flatten, !ds.isEmpty && (findSub p (since ++ ds.flatten)).isSome⟩] := by
  intro ds
  induction ds with
  | nil =>
    intro since h
    simp only [c05Walk] at h ⊢
    refine ⟨?_, by simp⟩
    cases hd : deathOf res with
    | none => rfl
    | some v => rw [hd] at h; simp at h
  | cons d ds ih =>
    intro since h
    rw [C05.c05Walk_cons] at h ⊢
    have hext : [(⟨id, .lit p, exc, since, false⟩ : Reg)].map (C05.ext d) = [⟨id, .lit p, exc, since ++ d, false⟩] := rfl
    have hocc : (⟨id, .lit p, exc, since ++ d, false⟩ : Reg).occurs = (findSub p (since ++ d)).isSome := by
      simp [Reg.occurs, Pat.search]
    rw [hext] at h ⊢
    simp only [List.any_cons, List.any_nil, Bool.or_false, Bool.not_false, Bool.true_and, hocc,
      List.map_cons, List.map_nil, Bool.false_or] at h ⊢
    cases hfs : (findSub p (since ++ d)).isSome with
    | true =>
      rw [hfs] at h
      simp only [if_true] at h ⊢
      simp only [Bool.and_eq_true, List.isEmpty_iff] at h
      obtain ⟨hnil, hj⟩ := h
      subst hnil
      simp only [List.flatten_cons, List.flatten_nil, List.append_nil, hfs, List.isEmpty_cons, Bool.not_false,
        Bool.and_self, and_true]
      cases hd : deathOf res with
      | none => rw [hd] at hj; simp at hj
      | some v => rfl
    | false =>
      rw [hfs] at h
      simp only [Bool.false_eq_true, if_false] at h ⊢
      cases ds with
      | nil =>
        simp only [List.isEmpty_nil, if_true] at h ⊢
        simp only [List.flatten_cons, List.flatten_nil, List.append_nil, hfs, List.isEmpty_cons, Bool.not_false,
          Bool.and_false, and_true]
        cases hd : deathOf res with
        | none => rfl
        | some v =>
          exfalso
          obtain ⟨e, m⟩ := v
          rw [hd] at h
          simp only [justified, List.any_cons, List.any_nil, Bool.or_false, Bool.and_eq_true, hocc, hfs] at h
          simp at h
      | cons d2 ds2 =>
        simp only [List.isEmpty_cons, Bool.false_eq_true, if_false] at h ⊢
        obtain ⟨h1, h2⟩ := ih (since ++ d) h
        have hsince : since ++ d ++ (d2 :: ds2).flatten = since ++ (d :: d2 :: ds2).flatten := by simp
        rw [hsince] at h1 h2
        simp only [List.isEmpty_cons, Bool.not_false, Bool.true_and] at h1 h2 ⊢
        exact ⟨h1, h2⟩

end Run
