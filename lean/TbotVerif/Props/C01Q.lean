import TbotVerif.Props.Quote
import TbotVerif.Props.QuoteUtf8
/-! C01, quoting part (T1, T2 of DESIGN §4 C01): `escape` of tbot's Linux shells against a
    hazard-rejecting POSIX word splitter.  All statements are for ALL byte strings (NUL included:
    single quotes make every byte literal in the model; real shells cannot carry NUL in argv, which
    is why the property excludes it). -/

namespace C01Q
open Quote

/-- T1.  The argument vector a POSIX shell derives from `escape args` is exactly `args`. -/
theorem posixWords_escape (args : List Bytes) : posixWords (escape args) = some args := by
  simpa [posixWords] using split_escape args []

/-- Corollary: no hazard branch of the splitter is reachable on quoted text (no expansion,
    substitution, globbing, history, operator or comment character is ever met unquoted). -/
theorem no_hazard (args : List Bytes) : posixWords (escape args) ≠ none := by
  rw [posixWords_escape]; simp

/-- Corollary: as many words as arguments. -/
theorem word_count (args : List Bytes) : (posixWords (escape args)).map List.length = some args.length := by
  rw [posixWords_escape]; rfl

/-- Corollary: every argument is exactly one word — wherever its quoted form stands on a line, the
    shell reads exactly that argument and continues right after the separating blank. -/
theorem one_word (a : Bytes) (acc : List Bytes) (rest : Bytes) :
    split .U none acc (shlexQuote a ++ SP :: rest) = split .U none (a :: acc) rest := by
  rw [split_of_firstWord acc (firstWord_quote_sp a rest)]; rfl

theorem one_word_alone (a : Bytes) : posixWords (shlexQuote a) = some [a] := by
  simpa [escape, joinSp] using posixWords_escape [a]

/-- T2.  For every black-list that contains none of the quoting bytes (blank, `'`, `"`): the
    command line contains a black-listed byte iff some argument does. -/
theorem forbidden_escape (bl : Bytes) (h0 : SP ∉ bl) (h1 : SQ ∉ bl) (h2 : DQ ∉ bl) (args : List Bytes) :
    forbidden bl (escape args) = true ↔ ∃ a ∈ args, ∃ c ∈ a, c ∈ bl := by
  have hbl : blOk bl = true := (blOk_iff bl).mpr ⟨h0, h1, h2⟩
  rw [forbidden_escapeArgs bl hbl _ _ (escapeArgs_str args)]
  simp only [List.mem_map, forbidden_iff]
  constructor
  · rintro ⟨_, ⟨a, ha, rfl⟩, c, hc, hca⟩; exact ⟨a, ha, c, hca, hc⟩
  · rintro ⟨a, ha, c, hca, hc⟩; exact ⟨_, ⟨a, ha, rfl⟩, c, hc, hca⟩

/-- the hypothesis of `forbidden_escape` is needed: a black-list containing `'` -/
example : forbidden [SQ] (escape [[SP]]) = true ∧ ¬ ∃ a ∈ [[SP]], ∃ c ∈ a, c ∈ [SQ] := by decide

/-- `escape` never introduces CR or LF (nor any byte other than blank, `'`, `"`). -/
theorem escape_count (c : Byte) (h0 : c ≠ SP) (h1 : c ≠ SQ) (h2 : c ≠ DQ) (args : List Bytes) :
    (escape args).count c = (args.map (·.count c)).sum := count_escape c h0 h1 h2 args

theorem escape_CR (args : List Bytes) : (escape args).count CR = (args.map (·.count CR)).sum :=
  count_escape CR (by decide) (by decide) (by decide) args

theorem escape_LF (args : List Bytes) : (escape args).count LF = (args.map (·.count LF)).sum :=
  count_escape LF (by decide) (by decide) (by decide) args

theorem escape_no_CR_LF (args : List Bytes) (h : ∀ a ∈ args, CR ∉ a ∧ LF ∉ a) :
    CR ∉ escape args ∧ LF ∉ escape args := by
  have z : ∀ c : Byte, (∀ a ∈ args, c ∉ a) → (args.map (·.count c)).sum = 0 := by
    intro c hc
    apply Nat.eq_zero_of_not_pos
    rw [sum_pos_iff]
    rintro ⟨x, hx, hpos⟩
    obtain ⟨a, ha, rfl⟩ := List.mem_map.mp hx
    exact hc a ha (List.count_pos_iff.mp hpos)
  constructor
  · intro hm
    have := List.count_pos_iff.mpr hm
    rw [escape_CR, z CR (fun a ha => (h a ha).1)] at this
    omega
  · intro hm
    have := List.count_pos_iff.mpr hm
    rw [escape_LF, z LF (fun a ha => (h a ha).2)] at this
    omega

/-- what Python computes (`" ".join(shlex.quote(a) for a in args).encode()`, characters first,
    UTF-8 afterwards) is the byte-level `escape` of the encoded arguments … -/
theorem escape_utf8 (args : List (List Char)) :
    joinSp (args.map fun a => enc (shlexQuoteC a)) = escape (args.map enc) := by
  simp [escape, List.map_map, Function.comp_def, enc_shlexQuoteC]

/-- … hence the shell's argument vector is the list of encoded arguments. -/
theorem posixWords_escape_utf8 (args : List (List Char)) :
    posixWords (joinSp (args.map fun a => enc (shlexQuoteC a))) = some (args.map enc) := by
  rw [escape_utf8, posixWords_escape]

/-! ### the Spec holds of the model, for all cases -/

theorem escapeArgs_some_noOther : ∀ (args : List Arg) (l : Bytes), escapeArgs args = some l → args.any Arg.isOther = false := by
  intro args l h
  unfold escapeArgs at h
  cases hm : args.mapM Arg.render with
  | none => simp [hm] at h
  | some ts =>
    clear h
    induction args generalizing ts with
    | nil => rfl
    | cons a as ih =>
      obtain ⟨y, ys', hy, hys, rfl⟩ := mapM_some_cons _ _ _ _ hm
      have : a.isOther = false := by cases a <;> simp_all [Arg.render, Arg.isOther]
      simp [this, ih ys' hys]

theorem escapeArgs_none_other : ∀ (args : List Arg), escapeArgs args = none → args.any Arg.isOther = true := by
  intro args
  induction args with
  | nil => intro h; simp [escapeArgs] at h
  | cons a as ih =>
    intro h
    cases a with
    | other => simp [Arg.isOther]
    | str s =>
      have : escapeArgs as = none := by
        cases has : as.mapM Arg.render with
        | none => simp [escapeArgs, has]
        | some ts => simp [escapeArgs, List.mapM_cons, Arg.render, has] at h
      simp [Arg.isOther, ih this]
    | raw s =>
      have : escapeArgs as = none := by
        cases has : as.mapM Arg.render with
        | none => simp [escapeArgs, has]
        | some ts => simp [escapeArgs, List.mapM_cons, Arg.render, has] at h
      simp [Arg.isOther, ih this]
    | redir pre p post =>
      have : escapeArgs as = none := by
        cases has : as.mapM Arg.render with
        | none => simp [escapeArgs, has]
        | some ts => simp [escapeArgs, List.mapM_cons, Arg.render, has] at h
      simp [Arg.isOther, ih this]

theorem allStr_eq (args : List Arg) (h : args.all Arg.isStr = true) : args = (args.map Arg.strOf).map .str := by
  induction args with
  | nil => rfl
  | cons a as ih =>
    simp only [List.all_cons, Bool.and_eq_true] at h
    cases a with
    | str s => simp only [List.map_cons, Arg.strOf]; rw [← ih h.2]
    | raw s => simp [Arg.isStr] at h
    | redir _ _ _ => simp [Arg.isStr] at h
    | other => simp [Arg.isStr] at h

/-- MAIN: the model satisfies `Spec.C01Q` for every well-formed case (all argument lists over all
    byte strings, all special tokens, all black-lists, all command lines). -/
theorem spec_holds (c : Case) (hw : c.wf = true) : Spec.C01Q c (run c) = true := by
  cases c with
  | split line =>
    cases h : posixWords line <;> simp [run, Spec.C01Q, h]
  | esc bl args =>
    simp only [Case.wf] at hw
    cases h : escapeArgs args with
    | none => simp [run, Spec.C01Q, h, escapeArgs_none_other args h]
    | some l =>
      have h1 := escapeArgs_some_noOther args l h
      have h2 := segCheck_escapeArgs args l hw h
      have h3 : (!args.all Arg.isStr || posixWords l == some (args.map Arg.strOf)) = true := by
        cases hs : args.all Arg.isStr with
        | false => rfl
        | true =>
          have e := allStr_eq args hs
          rw [e, escapeArgs_str] at h
          simp only [Option.some.injEq] at h
          simp [← h, posixWords_escape]
      have h4 := count_escapeArgs CR (by decide) (by decide) (by decide) args l h
      have h5 := count_escapeArgs LF (by decide) (by decide) (by decide) args l h
      have h6 : (!blOk bl || forbidden bl l == args.any (fun a => forbidden bl a.payload)) = true := by
        cases hb : blOk bl with
        | false => rfl
        | true => simpa using forbidden_escapeArgs_bool bl hb args l h
      simp only [run, h, Spec.C01Q, h1, h2, h3, h4, h5, h6, Bool.not_false, Bool.and_self, beq_self_eq_true]

/-- the structural clause of the Spec is at least as strong as the word-level statement: a line
    that passes the segment check for string arguments is split by the shell into exactly them -/
theorem segCheck_sound : ∀ (strs : List Bytes) (l : Bytes) (acc : List Bytes),
    segCheck firstWord (strs.map .word) l = true → split .U none acc l = some (acc.reverse ++ strs) := by
  intro strs
  induction strs with
  | nil => intro l acc h; simp [segCheck] at h; subst h; simp [split]
  | cons s rest ih =>
    intro l acc h
    simp only [List.map_cons, segCheck] at h
    cases hf : firstWord l with
    | none => simp [hf] at h
    | some v =>
      obtain ⟨w, r⟩ := v
      simp only [hf, Bool.and_eq_true, beq_iff_eq] at h
      obtain ⟨rfl, h⟩ := h
      rw [split_of_firstWord acc hf]
      cases rest with
      | nil =>
        cases r with
        | none => simp [after]
        | some r' => simp at h
      | cons b bs =>
        cases r with
        | none => simp at h
        | some r' =>
          simp only [List.map_cons] at h
          simp only [after]
          rw [ih r' (w :: acc) (by simpa using h)]
          simp

/-! ### non-vacuity: concrete, non-trivial inputs -/

/-- `a b`, `$x'`, empty, `é` (UTF-8) — quoted, joined, and split back -/
example : posixWords (escape [[97, 32, 98], [36, 120, 39], [], [0xc3, 0xa9]]) = some [[97, 32, 98], [36, 120, 39], [], [0xc3, 0xa9]] := by
  decide

/-- a well-formed mixed case (string, Raw, redirection with suffix) and its observation -/
example :
    let c := Case.esc [3, 13] [.str [97, 39, 10], .raw [124], .redir [62] [47, 97, 32] [32, 50, 62, 38, 49]]
    c.wf = true ∧ Spec.C01Q c (run c) = true ∧ run c ≠ .typeError := by decide

/-- the Spec is not trivially true: dropping the quotes, or adding a blank, falsifies it -/
example : Spec.C01Q (.esc [] [.str [97, 32, 98]]) (.line [97, 32, 98]) = false := by decide
example : Spec.C01Q (.esc [] [.str [97], .str [98]]) (.line [97, 32, 32, 98]) = false := by decide
example : Spec.C01Q (.esc [] [.str [36]]) (.line [36]) = false := by decide
example : Spec.C01Q (.esc [] [.str []]) (.line []) = false := by decide

/-- the splitter rejects hazards: `$x`, a glob, a backquote, an unterminated quote, `!` in double quotes -/
example : [[36, 120], [42], [96], [39, 97], [34, 33, 34]].all (fun l => posixWords l == none) = true := by decide

end C01Q
