import TbotVerif.Props.C06SCor
import TbotVerif.Props.C06Time
/-! C06S — `SubprocessChannelIO.read` honours the `ChannelIO.read` contract that C06 assumes.

    * `spec_holds` (Props/C06SSpec.lean): `∀ c, c.wf → Spec.C06S c (SubIO.run c)`.
    * single-call corollaries (Props/C06SCor.lean): `never_late`, `never_early`, `timeout_exact`,
      `no_timeout_without_deadline`, `slice_bound`, `data_asap`, `closed_within_slice`,
      `zero_timeout_poll`, `hang_iff`, `write_guard`.
    * here: the connection to the channel model.  `chanRead_eq_ioRead`: with a subprocess that
      stays alive the modelled `read` coincides with the scripted transport `Chan.ioRead` the channel
      model and all of Props/C02…C08 are built on, hence `chanRead_spec` (`Chan.IoSpec`),
      `chanRead_le` (`C06.ioRead_le`), `chanRead_timed` (`C06.ioRead_timed`).

    All by (functional) induction over the well-founded select loop: no bound on the number of
    slices, the script, the timeouts or the sequence of calls. -/
namespace C06S
open SubIO

/-- how the select loop ends while the subprocess stays alive: outcome and time, in closed form -/
theorem loop_alive (mrw : Nat) (dl : Option Nat) (pend : List Piece) (now : Nat) (hm : 0 < mrw)
    (hd : ∀ d, dl = some d → now ≤ d) :
    ((loop mrw dl none pend now []).1, (loop mrw dl none pend now []).2.1) =
      (match pend, dl with
       | [], none => (Loop.hang, now)
       | [], some d => (Loop.timeout, d)
       | p :: _, none => (Loop.ready, max now p.tick)
       | p :: _, some d => if p.tick ≤ d then (Loop.ready, max now p.tick) else (Loop.timeout, d)) := by
  obtain ⟨ext, _, _, _, _, _, hr, ht, hcl, hh⟩ := loop_post mrw dl none pend now [] hm (by simp [closedAt]) hd
  generalize loop mrw dl none pend now [] = L at *
  obtain ⟨o, t1, sel⟩ := L
  simp only at hr ht hcl hh ⊢
  cases o with
  | closed => simp [closedAt] at hcl
  | hang =>
    obtain ⟨h1, h2, _, h4⟩ := hh rfl
    subst h1 h2 h4; rfl
  | timeout =>
    obtain ⟨d, h1, h2, h3⟩ := ht rfl
    subst h1 h2
    cases pend with
    | nil => rfl
    | cons p ps =>
      simp only [ready, decide_eq_false_iff_not] at h3
      simp [h3]
  | ready =>
    obtain ⟨h1, h2, h3⟩ := hr rfl
    cases pend with
    | nil => simp [ready] at h1
    | cons p ps =>
      simp only [ready, decide_eq_true_eq] at h1
      simp only [headTick, List.head?_cons, Option.map_some, Option.some.injEq] at h2
      subst h2
      cases dl with
      | none => rfl
      | some d =>
        have := h3 d rfl
        have hp : p.tick ≤ d := by omega
        simp [hp]

/-- **the point of the exercise**: with a subprocess that stays alive, `SubprocessChannelIO.read`
    IS the scripted transport the channel model is built on — same result, same virtual time of
    return, same remaining script, same transport record — for every request, every script and every
    slice length > 0.  Every theorem proved about the channel model over `Chan.ioRead` (C02–C06, C08)
    therefore holds verbatim for a channel on the subprocess transport. -/
theorem chanRead_eq_ioRead (mrw n : Nat) (t : Option Nat) (s : _root_.St) (hm : 0 < mrw) :
    chanRead mrw n t s = Chan.ioRead n t s := by
  have hc : closedAt none s.now = false := by simp [closedAt]
  have hla := loop_alive mrw (t.map (s.now + ·)) s.script s.now hm (dlOf_le _ _)
  unfold chanRead SubIO.read Chan.ioRead
  simp only [hc, Bool.false_eq_true, if_false]
  generalize loop mrw (t.map (s.now + ·)) none s.script s.now [] = L at *
  obtain ⟨o, t1, sel⟩ := L
  simp only at hla
  cases hs : s.script with
  | nil =>
    rw [hs] at hla
    cases t with
    | none =>
      simp only [Option.map_none, Prod.mk.injEq] at hla
      obtain ⟨rfl, rfl⟩ := hla
      simp [Chan.ioFail, hs]
    | some T =>
      simp only [Option.map_some, Prod.mk.injEq] at hla
      obtain ⟨rfl, rfl⟩ := hla
      simp [Chan.ioFail, hs]
  | cons p ps =>
    rw [hs] at hla
    cases t with
    | none =>
      simp only [Option.map_none, Prod.mk.injEq] at hla
      obtain ⟨rfl, rfl⟩ := hla
      by_cases hp : p.tick ≤ s.now
      · have : max s.now p.tick = s.now := by omega
        simp [osRead, hp, this, Chan.ioDeliver]
      · have : max s.now p.tick = p.tick := by omega
        simp [osRead, hp, this, Chan.ioDeliver]
    | some T =>
      simp only [Option.map_some] at hla
      by_cases hp : p.tick ≤ s.now
      · have hp2 : p.tick ≤ s.now + T := by omega
        have : max s.now p.tick = s.now := by omega
        simp only [hp2, if_true, Prod.mk.injEq] at hla
        obtain ⟨rfl, rfl⟩ := hla
        simp [osRead, hp, this, Chan.ioDeliver]
      · by_cases hp2 : p.tick ≤ s.now + T
        · have : max s.now p.tick = p.tick := by omega
          simp only [hp2, if_true, Prod.mk.injEq] at hla
          obtain ⟨rfl, rfl⟩ := hla
          simp [osRead, hp, hp2, this, Chan.ioDeliver]
        · simp only [hp2, if_false, Prod.mk.injEq] at hla
          obtain ⟨rfl, rfl⟩ := hla
          simp [hp, hp2, Chan.ioFail, hs]


/-- the subprocess transport satisfies the contract `IoSpec` that the channel lemmas
    (`Props/ChanLemmas.lean`) state for a transport read -/
theorem chanRead_spec (mrw n : Nat) (t : Option Nat) (s : _root_.St) (hm : 0 < mrw) :
    ∃ rec, Chan.IoSpec n t s (chanRead mrw n t s) rec := by
  rw [chanRead_eq_ioRead mrw n t s hm]
  exact Chan.ioRead_spec n t s

/-- "the transport honours the timeout it is given" (`C06.ioRead_le`) for the subprocess transport -/
theorem chanRead_le (mrw n : Nat) (s : _root_.St) (T : Nat) (hm : 0 < mrw) :
    (chanRead mrw n (some T) s).2.now ≤ s.now + T := by
  rw [chanRead_eq_ioRead mrw n (some T) s hm]
  exact C06.ioRead_le n s T

/-- the hypothesis of the C06 loop theorems (`C06.ioRead_timed`) for the subprocess transport -/
theorem chanRead_timed (q : Prop) (mrw n : Nat) (t : Option Nat) (s : _root_.St) (hm : 0 < mrw) :
    ∃ rec, C06.Timed q s.now t s (chanRead mrw n t s).2 [rec] (C06.isTmo (chanRead mrw n t s).1) := by
  rw [chanRead_eq_ioRead mrw n t s hm]
  exact C06.ioRead_timed q n t s

/-- the slice length extracted from the tree (`MIN_READ_WAIT`, in ticks) is positive: with a zero
    slice every timed read would raise `TimeoutError` at once and an untimed one would spin -/
theorem minReadWait_pos : 0 < Params.subioMinReadWait := by decide

/-- `read()` takes its slice from the module attribute `MIN_READ_WAIT` — the correspondence harness
    sets that attribute per case (to values on the tick grid) and relies on it being honoured -/
theorem slice_is_module_attr : Params.subioSliceIsModuleAttr = true := by decide

/-- the refinement at the slice length of the tree -/
theorem subprocess_refines_scripted (n : Nat) (t : Option Nat) (s : _root_.St) :
    chanRead Params.subioMinReadWait n t s = Chan.ioRead n t s :=
  chanRead_eq_ioRead _ n t s minReadWait_pos

/-! ### non-vacuity -/

/-- a well-formed case: slice 307, a read with T = 358 (not a multiple of the slice) while the only
    piece arrives at 400, then a read that gets it -/
example : (⟨307, 10240, none, some 0, [⟨400, [1, 2]⟩], [], [.read 4 (some 358) 0, .read 1 none 0]⟩ : SubIO.Case).wf
    = true := by decide

/-- the hypotheses of `timeout_exact` are satisfiable, and its conclusion is not trivial: two slices
    (307 + 51) and `TimeoutError` at exactly 358 -/
example : (SubIO.read 307 none 4 (some 358) ⟨0, [⟨400, [1, 2]⟩], []⟩).1 = .timeout :=
  (timeout_exact 307 none 4 358 ⟨0, [⟨400, [1, 2]⟩], []⟩ (by decide) (by decide)).mpr (by decide)

example : (SubIO.read 307 none 4 (some 358) ⟨0, [⟨400, [1, 2]⟩], []⟩).2.2 = [307, 51, 0] := by
  simp [SubIO.read, closedAt, loop, slice, wake, ready]

/-- a piece arriving exactly at the deadline is delivered (right-closed) -/
example : (SubIO.read 307 none 4 (some 358) ⟨0, [⟨358, [1, 2]⟩], []⟩).1 ≠ .timeout := by
  rw [Ne, timeout_exact 307 none 4 358 _ (by decide) (by decide)]; decide

/-- the subprocess goes at 400 during an untimed read: `ChannelClosedError` at the next slice end -/
example : (SubIO.read 307 (some 400) 4 none ⟨0, [], []⟩).1 = .closed
    ∧ (SubIO.read 307 (some 400) 4 none ⟨0, [], []⟩).2.1.now = 614 := by
  simp [SubIO.read, closedAt, loop, slice, wake, ready]

/-- `hang_iff` both ways -/
example : (SubIO.read 307 none 4 none ⟨5, [], []⟩).1 = .hang := (hang_iff 307 none 4 none _ (by decide)).mpr ⟨rfl, rfl, rfl⟩

end C06S
