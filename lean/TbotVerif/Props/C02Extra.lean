import TbotVerif.Props.C02
import TbotVerif.Props.ReProps
/-! C02 — two corollaries.
    (B1) *Fragmentation independence*: for a literal prompt the result of `read_until_prompt`
    depends only on the byte stream, not on how the transport cuts it into pieces nor on the
    chunk size.
    (B2) *Regex prompts*: the end-anchored test that `with_prompt` installs finds the least
    offset from which the rest of the buffer is in the language of the expression. -/

namespace C02
open Chan Spec

/-! ### (B2) the anchored prompt test -/

/-- **soundness**: the suffix that `promptEnd` reports is in the language -/
theorem promptEnd_anchored_sound (r : Re) (hr : r.noEos = true) (buf : Bytes) (i : Nat)
    (h : promptEnd (.re (.seq r .eos)) buf = some i) :
    i ≤ buf.length ∧ Re.L r (buf.drop i) ∧ ∀ j, j < i → ¬ Re.L r (buf.drop j) := by
  simp only [promptEnd, Re.search] at h
  cases hs : Re.searchFrom (.seq r .eos) 0 buf with
  | none => rw [hs] at h; simp at h
  | some v =>
    obtain ⟨a, e⟩ := v
    rw [hs] at h
    simp only [Option.map_some, Option.some.injEq] at h
    subst h
    obtain ⟨j, hj, hjl, _, hm, hleast⟩ := Re.searchFrom_some _ buf 0 a e hs
    have : j = a := by omega
    subst this
    refine ⟨hjl, (Re.matchAt_anchored r hr _).mp (by rw [hm]; rfl), fun j' hj' hl => ?_⟩
    have := (Re.matchAt_anchored r hr _).mpr hl
    rw [hleast j' hj'] at this
    simp at this

/-- **completeness**: if some suffix of the buffer is in the language, a match is found (at an
    offset that is at most that suffix's) -/
theorem promptEnd_anchored_complete (r : Re) (hr : r.noEos = true) (buf : Bytes) (j : Nat)
    (hj : j ≤ buf.length) (hl : Re.L r (buf.drop j)) :
    ∃ i, promptEnd (.re (.seq r .eos)) buf = some i ∧ i ≤ j := by
  simp only [promptEnd, Re.search]
  cases hs : Re.searchFrom (.seq r .eos) 0 buf with
  | none =>
    have := Re.searchFrom_none _ buf 0 hs j hj
    have h2 := (Re.matchAt_anchored r hr _).mpr hl
    rw [this] at h2; simp at h2
  | some v =>
    obtain ⟨a, e⟩ := v
    refine ⟨a, rfl, ?_⟩
    obtain ⟨j', hj', _, _, _, hleast⟩ := Re.searchFrom_some _ buf 0 a e hs
    have : j' = a := by omega
    subst this
    rcases Nat.lt_or_ge j j' with hlt | hge
    · have h2 := (Re.matchAt_anchored r hr _).mpr hl
      rw [hleast j hlt] at h2; simp at h2
    · exact hge

/-- **the anchored prompt test**: for an `eos`-free `r`, `promptEnd (r\Z) buf = some i` iff `i`
    is the LEAST offset such that `buf.drop i ∈ L r` -/
theorem promptEnd_anchored_iff (r : Re) (hr : r.noEos = true) (buf : Bytes) (i : Nat) :
    promptEnd (.re (.seq r .eos)) buf = some i ↔
      i ≤ buf.length ∧ Re.L r (buf.drop i) ∧ ∀ j, j < i → ¬ Re.L r (buf.drop j) := by
  constructor
  · exact promptEnd_anchored_sound r hr buf i
  · rintro ⟨hi, hl, hleast⟩
    obtain ⟨i', h', hle⟩ := promptEnd_anchored_complete r hr buf i hi hl
    have hs := promptEnd_anchored_sound r hr buf i' h'
    rcases Nat.lt_or_ge i' i with hlt | hge
    · exact absurd hs.2.1 (hleast i' hlt)
    · have : i' = i := by omega
      rw [← this]; exact h'

/-- no prompt is reported iff no suffix of the buffer is in the language -/
theorem promptEnd_anchored_none (r : Re) (hr : r.noEos = true) (buf : Bytes) :
    promptEnd (.re (.seq r .eos)) buf = none ↔ ∀ j, j ≤ buf.length → ¬ Re.L r (buf.drop j) := by
  constructor
  · intro h j hj hl
    obtain ⟨i, hi, _⟩ := promptEnd_anchored_complete r hr buf j hj hl
    rw [h] at hi; simp at hi
  · intro h
    cases hp : promptEnd (.re (.seq r .eos)) buf with
    | none => rfl
    | some i =>
      have := promptEnd_anchored_sound r hr buf i hp
      exact absurd this.2.1 (h i this.1)

/-! ### small facts about the transport and the checks -/

/-- with no timeout the remaining time never expires -/
theorem remaining_none (t0 now : Nat) : remaining none t0 now = some none := rfl

/-- a transport read with no timeout never raises `TimeoutError` -/
theorem ioRead_none_no_timeout (n : Nat) (s : St) : (ioRead n none s).1 ≠ .error .timeout := by
  unfold ioRead
  split
  · simp [ioFail]
  · split
    · simp [ioDeliver]
    · simp [ioDeliver]

/-- blocking for ever happens only on an exhausted script (and without a timeout) -/
theorem ioRead_hang (n : Nat) (t : Option Nat) (s : St) (h : (ioRead n t s).1 = .error .hang) :
    s.script = [] ∧ t = none := by
  unfold ioRead at h
  split at h
  · rename_i hs
    cases t with
    | none => exact ⟨hs, rfl⟩
    | some T => simp [ioFail] at h
  · split at h
    · simp [ioDeliver] at h
    · cases t with
      | none => simp [ioDeliver] at h
      | some T =>
        simp only at h
        split at h
        · simp [ioDeliver] at h
        · simp [ioFail] at h

/-- with no death string registered `_check` never fails and registers nothing -/
theorem check_nil (b : Bytes) (s : St) (h : s.deaths = []) : check b s = (.ok (), s) := by
  unfold check; simp [h]

theorem writeStream_deaths' (buf : Bytes) (s : St) : (writeStream buf s).deaths = s.deaths := by
  unfold writeStream
  split
  · rfl
  · split <;> rfl

/-- a piece that has arrived, or any piece when there is no timeout, is delivered -/
theorem ioRead_ok (n : Nat) (t : Option Nat) (s : St) (pc : Piece) (ps : List Piece)
    (hs : s.script = pc :: ps) (ht : t = none ∨ pc.tick ≤ s.now) :
    ∃ b s1, ioRead n t s = (.ok b, s1)
      ∧ ((∀ q ∈ s.script, q.tick ≤ s.now) → s1.now = s.now ∧ ∀ q ∈ s1.script, q.tick ≤ s1.now) := by
  have hth : ∀ q ∈ (takeHead n pc ps).2, q.tick = pc.tick ∨ q ∈ ps := by
    intro q hq
    unfold takeHead at hq
    split at hq
    · exact Or.inr hq
    · rcases List.mem_cons.mp hq with rfl | hq
      · exact Or.inl rfl
      · exact Or.inr hq
  have hticks : (∀ q ∈ s.script, q.tick ≤ s.now) → ∀ q ∈ (takeHead n pc ps).2, q.tick ≤ s.now := by
    intro hall q hq
    rcases hth q hq with h | h
    · rw [h]; exact hall pc (by rw [hs]; exact List.mem_cons_self ..)
    · exact hall q (by rw [hs]; exact List.mem_cons_of_mem _ h)
  unfold ioRead
  rw [hs]
  simp only
  split
  · exact ⟨_, _, rfl, fun hall => ⟨rfl, hticks (by rw [hs]; exact hall)⟩⟩
  · rename_i hgt
    rcases ht with rfl | h
    · refine ⟨_, _, rfl, fun hall => ?_⟩
      exact absurd (hall pc (List.mem_cons_self ..)) hgt
    · exact absurd h hgt

theorem script_nil_of_flat {s : St} (hwf : WF s) (h : flat s.script = []) : s.script = [] := by
  cases hs : s.script with
  | nil => rfl
  | cons pc ps =>
    exfalso
    have hne := hwf pc (by rw [hs]; exact List.mem_cons_self ..)
    rw [hs] at h
    simp only [flat, List.map_cons, List.flatten_cons, List.append_eq_nil_iff] at h
    exact hne h.1

/-! ### (B1) fragmentation independence -/

/-- the overall timeout cannot expire: there is none, or every piece has arrived already and
    no time has passed since the call started -/
def TimeOk (ri : RI) (s : St) : Prop :=
  ri.timeout = none ∨ ∃ T, ri.timeout = some T ∧ 0 < T ∧ s.now = ri.t0 ∧ ∀ q ∈ s.script, q.tick ≤ s.now

/-- one resumption of `read_iter` on a non-empty script, without death strings and with time
    left: it yields the next piece (cut to the chunk size) -/
theorem riNext_deliver (ri : RI) (s : St) (hmax : ri.max = none) (hne : s.script ≠ []) (hd : s.deaths = [])
    (hwf : WF s) (hc : 0 < s.chunk) (htime : TimeOk ri s) :
    ∃ b s2, riNext ri s = (.chunk b, { ri with got := ri.got + b.length, started := true }, s2)
      ∧ b ≠ [] ∧ b ++ flat s2.script = flat s.script ∧ WF s2 ∧ s2.chunk = s.chunk
      ∧ s2.prompt = s.prompt ∧ s2.deaths = []
      ∧ TimeOk { ri with got := ri.got + b.length, started := true } s2 := by
  obtain ⟨pc, ps, hs⟩ : ∃ pc ps, s.script = pc :: ps := by
    cases h : s.script with
    | nil => exact absurd h hne
    | cons pc ps => exact ⟨pc, ps, rfl⟩
  obtain ⟨rem, hrem, hremok⟩ : ∃ rem, remaining ri.timeout ri.t0 s.now = some rem ∧ (rem = none ∨ pc.tick ≤ s.now) := by
    rcases htime with h | ⟨T, hT, hpos, hnow, hall⟩
    · exact ⟨none, by rw [h]; rfl, Or.inl rfl⟩
    · refine ⟨some (T - (s.now - ri.t0)), ?_, Or.inr (hall pc (by rw [hs]; exact List.mem_cons_self ..))⟩
      rw [hT]
      unfold remaining
      simp only
      rw [if_neg (by omega)]
  have hmr : ri.maxRead s.chunk = s.chunk := maxRead_none ri s.chunk hmax
  obtain ⟨b, s1, hio, hnow⟩ := ioRead_ok (ri.maxRead s.chunk) rem s pc ps hs hremok
  obtain ⟨rec, hspec⟩ := ioRead_spec (ri.maxRead s.chunk) rem s
  rw [hio] at hspec
  have hok := hspec.ok b rfl
  have hbne : b ≠ [] := hok.2.2 hwf (by rw [hmr]; exact hc)
  have hside := writeStream_side b s1
  have hd2 : (writeStream b s1).deaths = [] := by
    rw [writeStream_deaths', hspec.deaths, hd]
  have hflat : b ++ flat s1.script = flat s.script := by
    have := hspec.frame.flat
    rw [dataOf_cons_some _ _ _ hok.1] at this
    simpa using this
  refine ⟨b, writeStream b s1, ?_, hbne, ?_, ?_, ?_, ?_, hd2, ?_⟩
  · unfold riNext
    have h1 : (ri.started && ri.max == some ri.got) = false := by rw [hmax]; simp
    rw [h1]
    simp only [Bool.false_eq_true, if_false, hrem, hio, check_nil b _ hd2]
  · rw [hside.script]; exact hflat
  · have := hspec.frame.wf hwf
    unfold WF at *
    rw [hside.script]; exact this
  · rw [hside.chunk, hspec.frame.chunk]
  · rw [hside.prompt, hspec.frame.prompt]
  · rcases htime with h | ⟨T, hT, hpos, hnow0, hall⟩
    · exact Or.inl h
    · right
      obtain ⟨h1, h2⟩ := hnow hall
      refine ⟨T, hT, hpos, ?_, ?_⟩
      · rw [hside.now, h1]; exact hnow0
      · rw [hside.script, hside.now]; exact h2

/-- the loop of `read_until_prompt` on a stream that ends with the prompt and has no earlier
    prompt: it consumes the whole stream -/
theorem rupLoop_frag (p w : Bytes) (hsuf : p <:+ w)
    (honly : ∀ k, 0 < k → k ≤ w.length → p <:+ w.take k → k = w.length) :
    ∀ (f : Nat) (buf : Bytes) (ri : RI) (s : St), ri.max = none → bytesLeft s < f → WF s → 0 < s.chunk →
      s.prompt = some (.lit p) → s.deaths = [] → s.script ≠ [] → buf ++ flat s.script = w → TimeOk ri s →
      (rupLoop f buf ri s).1 = .ok (w.take (w.length - p.length), w) ∧ (rupLoop f buf ri s).2.script = [] := by
  intro f
  induction f with
  | zero => intro buf ri s _ hf; omega
  | succ f ih =>
    intro buf ri s hmax hf hwf hc hpr hd hne hw htime
    obtain ⟨b, s2, hnext, hbne, hflat, hwf2, hc2, hpr2, hd2, htime2⟩ := riNext_deliver ri s hmax hne hd hwf hc htime
    unfold rupLoop
    rw [hnext]
    simp only
    rw [hpr2, hpr]
    simp only [promptEnd]
    have hblen : 0 < b.length := List.length_pos_iff.mpr hbne
    have hw2 : (buf ++ b) ++ flat s2.script = w := by rw [List.append_assoc, hflat]; exact hw
    by_cases hrest : s2.script = []
    · -- the stream is exhausted: the buffer is the whole stream
      have hall : buf ++ b = w := by rw [← hw2, hrest]; simp [flat]
      rw [hall, if_pos (List.isSuffixOf_iff_suffix.mpr hsuf)]
      exact ⟨rfl, hrest⟩
    · have hfl : flat s2.script ≠ [] := fun h => hrest (script_nil_of_flat hwf2 h)
      have hfl' : 0 < (flat s2.script).length := List.length_pos_iff.mpr hfl
      have hlen : (buf ++ b).length + (flat s2.script).length = w.length := by
        rw [← hw2]; simp only [List.length_append]
      have hpre : buf ++ b = w.take (buf ++ b).length := by
        rw [← hw2, List.take_left']
        rfl
      have hnot : p.isSuffixOf (buf ++ b) = false := by
        cases hsx : p.isSuffixOf (buf ++ b) with
        | false => rfl
        | true =>
          exfalso
          have h1 : p <:+ w.take (buf ++ b).length := by
            rw [← hpre]; exact List.isSuffixOf_iff_suffix.mp hsx
          have := honly (buf ++ b).length (by simp only [List.length_append]; omega) (by omega) h1
          omega
      rw [hnot]
      simp only [Bool.false_eq_true, if_false]
      have hbytes : bytesLeft s2 < f := by
        rw [bytesLeft_eq] at hf ⊢
        have := congrArg List.length hflat
        simp only [List.length_append] at this
        omega
      exact ih (buf ++ b) _ s2 hmax hbytes hwf2 (by rw [hc2]; exact hc) (by rw [hpr2]; exact hpr) hd2 hrest hw2 htime2

/-- **(B1) FRAGMENTATION INDEPENDENCE.**  Let `p` be a non-empty literal prompt and `w` a stream
    that ends with `p` and whose only non-empty prefix ending with `p` is `w` itself.  Then for
    EVERY state whose script flattens to `w` — every composition of `w` into (non-empty) pieces,
    every arrival schedule — and every chunk size ≥ 1, with no death strings registered, and with
    either no timeout or a positive timeout and all pieces arrived: `read_until_prompt` returns
    the bytes before the prompt (and all of `w` as consumed) and leaves the script exhausted. -/
theorem rup_fragmentation_gen (p w : Bytes) (hp : p ≠ []) (hsuf : p <:+ w)
    (honly : ∀ k, 0 < k → k ≤ w.length → p <:+ w.take k → k = w.length)
    (s : St) (hpr : s.prompt = some (.lit p)) (hd : s.deaths = []) (hwf : WF s) (hc : 0 < s.chunk)
    (hflat : flat s.script = w) (t : Option Nat)
    (ht : t = none ∨ ∃ T, t = some T ∧ 0 < T ∧ ∀ q ∈ s.script, q.tick ≤ s.now) :
    (readUntilPrompt none t s).1 = .ok (w.take (w.length - p.length), w)
      ∧ (readUntilPrompt none t s).2.script = [] := by
  have hwne : w ≠ [] := by
    intro h
    subst h
    exact hp (List.suffix_nil.mp hsuf)
  have hne : s.script ≠ [] := by
    intro h
    rw [h] at hflat
    exact hwne hflat.symm
  have htime : TimeOk (riStart none t s) s := by
    rcases ht with h | ⟨T, hT, hpos, hall⟩
    · exact Or.inl h
    · exact Or.inr ⟨T, hT, hpos, rfl, hall⟩
  have := rupLoop_frag p w hsuf honly (fuelFor s) [] (riStart none t s) s rfl (by unfold fuelFor; omega)
    hwf hc hpr hd hne (by simpa using hflat) htime
  unfold readUntilPrompt
  exact this

/-- (B1) as stated in DESIGN.md: no per-call prompt, no timeout -/
theorem rup_fragmentation (p w : Bytes) (hp : p ≠ []) (hsuf : p <:+ w)
    (honly : ∀ k, 0 < k → k ≤ w.length → p <:+ w.take k → k = w.length)
    (s : St) (hpr : s.prompt = some (.lit p)) (hd : s.deaths = []) (hwf : WF s) (hc : 0 < s.chunk)
    (hflat : flat s.script = w) :
    (readUntilPrompt none none s).1 = .ok (w.take (w.length - p.length), w)
      ∧ (readUntilPrompt none none s).2.script = [] :=
  rup_fragmentation_gen p w hp hsuf honly s hpr hd hwf hc hflat none (Or.inl rfl)

/-- two states with the same stream, cut differently and read with different chunk sizes, give
    the same result -/
theorem rup_fragmentation_eq (p w : Bytes) (hp : p ≠ []) (hsuf : p <:+ w)
    (honly : ∀ k, 0 < k → k ≤ w.length → p <:+ w.take k → k = w.length)
    (s s' : St) (hpr : s.prompt = some (.lit p)) (hpr' : s'.prompt = some (.lit p))
    (hd : s.deaths = []) (hd' : s'.deaths = []) (hwf : WF s) (hwf' : WF s')
    (hc : 0 < s.chunk) (hc' : 0 < s'.chunk) (hflat : flat s.script = w) (hflat' : flat s'.script = w) :
    (readUntilPrompt none none s).1 = (readUntilPrompt none none s').1 := by
  rw [(rup_fragmentation p w hp hsuf honly s hpr hd hwf hc hflat).1,
    (rup_fragmentation p w hp hsuf honly s' hpr' hd' hwf' hc' hflat').1]

/-! ### non-vacuity -/

/-- prompt "$ ", stream "out$ " cut as "ou" · "t$" · " " (the prompt straddles two pieces),
    chunk size 1 -/
example :
    let s : St := { chunk := 1, prompt := some (.lit [36, 32]),
                    script := [⟨0, [111, 117]⟩, ⟨5, [116, 36]⟩, ⟨9, [32]⟩] }
    (readUntilPrompt none none s).1 = .ok ([111, 117, 116], [111, 117, 116, 36, 32])
      ∧ (readUntilPrompt none none s).2.script = [] := by
  intro s
  have h := rup_fragmentation [36, 32] [111, 117, 116, 36, 32] (by simp) ⟨[111, 117, 116], rfl⟩
    (by
      intro k hk hle hs
      simp only [List.length_cons, List.length_nil] at hle ⊢
      have hk' : k = 1 ∨ k = 2 ∨ k = 3 ∨ k = 4 ∨ k = 5 := by omega
      rcases hk' with rfl | rfl | rfl | rfl | rfl
      · exact absurd (List.isSuffixOf_iff_suffix.mpr hs) (by decide)
      · exact absurd (List.isSuffixOf_iff_suffix.mpr hs) (by decide)
      · exact absurd (List.isSuffixOf_iff_suffix.mpr hs) (by decide)
      · exact absurd (List.isSuffixOf_iff_suffix.mpr hs) (by decide)
      · rfl)
    s rfl rfl (by intro q hq; simp [s] at hq; rcases hq with rfl | rfl | rfl <;> simp) (by decide) rfl
  exact h

/-- an `eos`-free regex prompt `[$#] ` against "x# $ ": the least offset whose suffix is in the
    language is 3 -/
example : promptEnd (.re (.seq (.seq (.cls false [(36, 36), (35, 35)]) (Re.lit1 32)) .eos))
    [120, 35, 32, 36, 32] = some 3 := by decide

end C02
