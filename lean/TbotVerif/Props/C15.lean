import TbotVerif.Props.CtxRefine4
import TbotVerif.Props.C14
import TbotVerif.Props.C15Laws
set_option linter.unusedSimpArgs false
set_option linter.unusedVariables false
/-! # C15 — context requests: sharing, exclusive, reset and reset_on_error act as documented

    `refinement`: for every program, configuration and fault oracle the event log of the
    implementation model equals the event log of the documentation-level reference model `RefCtx`
    (Model/CtxRef.lean).  Proof: lock-step simulation (Props/CtxRefine*.lean) under the state
    invariant of C14, which shows that the re-entrancy counters, the `with instance` re-entry and the
    generators of the code never initialise or tear down a machine on their own. -/
namespace C15
open Ctx

theorem rel_init (ka roe : Bool) : Rel (initSt ka roe) (Ref.initSt ka roe) := by
  constructor <;> simp [initSt, Ref.initSt]

/-- **Refinement** — `trace (impl model p) = trace (RefCtx p)` for every program, every
    configuration and every init/teardown fault oracle (not only fault-free ones). -/
theorem refinement (cs : Case) (hwf : cs.cfg.wf = true) : run cs = Ref.run cs := by
  unfold run Ref.run runSt Ref.runSt
  have hd := C14.depsBelow_of_wf hwf
  have h := execBlock_sim cs.cfg hd cs.prog _ _ (C14.inv_init cs.ka cs.roe) (rel_init cs.ka cs.roe)
  simp only
  rw [← h.2]
  have := (h.1.log (.fin (execBlock cs.cfg cs.prog (initSt cs.ka cs.roe)).2)).trace
  rw [this]

/-- the model satisfies `Spec.C15` -/
theorem spec (cs : Case) (hwf : cs.wf = true) : Spec.C15 cs (run cs) = true := by
  have hc : cs.cfg.wf = true := by
    unfold Case.wf at hwf
    simp only [Bool.and_eq_true] at hwf
    exact hwf.1
  unfold Spec.C15
  rw [refinement cs hc]
  simp

/-! ### non-vacuity: the hypotheses are satisfiable by non-trivial cases -/

/-- chain lab <- board (shared) <- u-boot (exclusive) <- linux (exclusive), no faults -/
def chain4 : Cfg := { n := 4, deps := [[], [(0, false)], [(1, true)], [(2, true)]], fi := [], fd := [] }

/-- `with ctx: with request(linux): with request(board) -> ContextError (held exclusively by u-boot);
    request(linux, reset=True)` under keep-alive with reset_on_error by default -/
def ex1 : Case := ⟨chain4, true, true,
  .cons (.ctx (.cons (.req 3 false false none (.cons (.try_ (.cons (.req 1 false false none .nil) .nil))
    (.cons (.req 3 true false none .nil) .nil))) .nil)) .nil⟩

example : ex1.wf = true := by decide
example : (run ex1).length = 36 := by decide
example : Spec.C15 ex1 (run ex1) = true := by decide
/-- the inner request on the board fails with a `ContextError`: the exclusive latch is exercised -/
example : Ev.caught ⟨0, .ctx⟩ ∈ run ex1 := by decide

end C15
