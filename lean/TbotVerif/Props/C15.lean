import TbotVerif.Spec.Ctx
/-! C15 — theorems (in progress) -/
