import TbotVerif.Props.C05Ring
import TbotVerif.Props.C02
/-! C05 — every read-type operation funnels every delivered piece through `_check` exactly once,
    in order, and stops at the first one that reports a match (`DTrace`).  No hypothesis about
    the state is needed (not even enough fuel): this is a statement about the trace. -/

namespace C05
open Chan

/-- the registrations along a sequence of deliveries: each delivery goes through `chk` once;
    the sequence ends with the first delivery for which a match is reported -/
inductive DTrace : List Death → List Bytes → List Death → Option (Nat × Bytes) → Prop
  | nil (ds : List Death) : DTrace ds [] ds none
  | ok (ds : List Death) (b : Bytes) (bs : List Bytes) (ds' : List Death) (f : Option (Nat × Bytes)) :
      (chk ds b).1 = none → DTrace (chk ds b).2 bs ds' f → DTrace ds (b :: bs) ds' f
  | fire (ds : List Death) (b : Bytes) (x : Nat × Bytes) :
      (chk ds b).1 = some x → DTrace ds [b] (chk ds b).2 (some x)

theorem DTrace.append {ds ds1 ds2 : List Death} {bs1 bs2 : List Bytes} {f0 f : Option (Nat × Bytes)}
    (h1 : DTrace ds bs1 ds1 f0) (h0 : f0 = none) (h2 : DTrace ds1 bs2 ds2 f) :
    DTrace ds (bs1 ++ bs2) ds2 f := by
  induction h1 with
  | nil ds => exact h2
  | ok ds b bs ds' f' hc _ ih => exact .ok ds b _ _ _ hc (ih h0 h2)
  | fire ds b x hc => simp at h0

/-- the step from `s` to `s'` logged some transport reads whose deliveries went through the
    death-string check as `DTrace` says; `f` is the match that ended it -/
def DT (s s' : St) (f : Option (Nat × Bytes)) : Prop :=
  ∃ recs, s'.reads = s.reads ++ recs ∧ s'.nextDeath = s.nextDeath
    ∧ DTrace s.deaths (dataOf recs) s'.deaths f

theorem DT.refl (s : St) : DT s s none := ⟨[], by simp, rfl, .nil _⟩

theorem DT.of_eq {s s' : St} (h1 : s'.reads = s.reads) (h2 : s'.deaths = s.deaths)
    (h3 : s'.nextDeath = s.nextDeath) : DT s s' none :=
  ⟨[], by simp [h1], h3, by rw [h2]; exact .nil _⟩

theorem dataOf_append (r1 r2 : List ReadRec) : dataOf (r1 ++ r2) = dataOf r1 ++ dataOf r2 := by
  simp [dataOf, List.filterMap_append]

theorem DT.trans {a b c : St} {f : Option (Nat × Bytes)} (h1 : DT a b none) (h2 : DT b c f) : DT a c f := by
  obtain ⟨r1, hr1, hn1, ht1⟩ := h1
  obtain ⟨r2, hr2, hn2, ht2⟩ := h2
  refine ⟨r1 ++ r2, by rw [hr2, hr1, List.append_assoc], by rw [hn2, hn1], ?_⟩
  rw [dataOf_append]
  exact ht1.append rfl ht2

/-- `DT` only looks at the read log, the registrations and the id counter -/
theorem DT.congr {s s' a b : St} {f : Option (Nat × Bytes)} (h : DT s s' f)
    (h1 : a.reads = s.reads) (h2 : a.deaths = s.deaths) (h3 : a.nextDeath = s.nextDeath)
    (h4 : b.reads = s'.reads) (h5 : b.deaths = s'.deaths) (h6 : b.nextDeath = s'.nextDeath) : DT a b f := by
  obtain ⟨recs, hr, hn, ht⟩ := h
  exact ⟨recs, by rw [h4, h1, hr], by rw [h6, h3, hn], by rw [h2, h5]; exact ht⟩

/-! ### which exception is a death-string exception -/

def excDeath : Exc → Option (Nat × Bytes)
  | .death e m => some (e, m)
  | _ => none

def resDeath {α} : Except Exc α → Option (Nat × Bytes)
  | .error e => excDeath e
  | .ok _ => none

def stepDeath : Step → Option (Nat × Bytes)
  | .err e => excDeath e
  | _ => none

/-! ### `_write_stream` and `_check` -/

theorem writeStream_deaths (buf : Bytes) (s : St) :
    (writeStream buf s).deaths = s.deaths ∧ (writeStream buf s).nextDeath = s.nextDeath := by
  unfold writeStream
  split
  · exact ⟨rfl, rfl⟩
  · split <;> exact ⟨rfl, rfl⟩

theorem check_deaths (b : Bytes) (s : St) :
    (check b s).2.deaths = (chk s.deaths b).2 ∧ (check b s).2.nextDeath = s.nextDeath := by
  rw [check_eq]; exact ⟨rfl, rfl⟩

theorem check_res (b : Bytes) (s : St) : resDeath (check b s).1 = (chk s.deaths b).1 := by
  rw [check_eq]
  simp only
  cases h : (chk s.deaths b).1 with
  | none => rfl
  | some x => rfl

theorem ioRead_nextDeath (n : Nat) (t : Option Nat) (s : St) : (ioRead n t s).2.nextDeath = s.nextDeath := by
  unfold ioRead
  split
  · cases t <;> rfl
  · split
    · rfl
    · cases t with
      | none => rfl
      | some T =>
        simp only
        split <;> rfl

/-- one delivery: the transport handed out `b` (logged in `rec`), then `_write_stream` and
    `_check` ran -/
theorem deliver_dt {n : Nat} {rem : Option Nat} {s s1 : St} {b : Bytes} {rec : ReadRec}
    (hio : IoSpec n rem s (.ok b, s1) rec) (hnext : s1.nextDeath = s.nextDeath) :
    DT s (check b (writeStream b s1)).2 (resDeath (check b (writeStream b s1)).1) := by
  have hdata := (hio.ok b rfl).1
  have hside := (writeStream_side b s1).trans (check_side b (writeStream b s1))
  have hd := check_deaths b (writeStream b s1)
  have hw := writeStream_deaths b s1
  refine ⟨[rec], by rw [hside.reads]; exact hio.frame.reads, by rw [hd.2, hw.2, hnext], ?_⟩
  have hds : s1.deaths = s.deaths := hio.deaths
  rw [dataOf_cons_some _ _ _ hdata, dataOf_nil, hd.1, check_res, hw.1, hds]
  cases h : (chk s.deaths b).1 with
  | none => exact .ok _ _ _ _ _ h (.nil _)
  | some x => exact .fire _ _ _ h

/-- a failed transport read: logged, nothing delivered -/
theorem fail_dt {n : Nat} {rem : Option Nat} {s s1 : St} {e : Exc} {rec : ReadRec}
    (hio : IoSpec n rem s (.error e, s1) rec) (hnext : s1.nextDeath = s.nextDeath) :
    DT s s1 none ∧ excDeath e = none := by
  have herr := hio.err e rfl
  refine ⟨⟨[rec], hio.frame.reads, hnext, ?_⟩, ?_⟩
  · rw [dataOf_cons_none _ _ herr.1, dataOf_nil]
    have hds : s1.deaths = s.deaths := hio.deaths
    rw [hds]; exact .nil _
  · rcases herr.2.1 with h | h <;> rw [h] <;> rfl

/-- one transport read followed by `_write_stream` and `_check`, as `riNext` and `read()` do it -/
theorem ioStep_dt (n : Nat) (t : Option Nat) (s : St) :
    match ioRead n t s with
    | (.error e, s1) => DT s s1 none ∧ excDeath e = none
    | (.ok b, s1) => DT s (check b (writeStream b s1)).2 (resDeath (check b (writeStream b s1)).1) := by
  obtain ⟨rec, hio⟩ := ioRead_spec n t s
  have hn := ioRead_nextDeath n t s
  cases hr : ioRead n t s with
  | mk res s1 =>
    rw [hr] at hio hn
    cases res with
    | error e => exact fail_dt hio hn
    | ok b => exact deliver_dt hio hn

/-! ### `read_iter` -/

theorem riNext_dt (ri : RI) (s : St) : DT s (riNext ri s).2.2 (stepDeath (riNext ri s).1) := by
  unfold riNext
  split
  · exact DT.refl s
  · cases hrem : remaining ri.timeout ri.t0 s.now with
    | none => exact DT.refl s
    | some rem =>
      simp only
      have h := ioStep_dt (ri.maxRead s.chunk) rem s
      cases hr : ioRead (ri.maxRead s.chunk) rem s with
      | mk res s1 =>
        rw [hr] at h
        cases res with
        | error e =>
          simp only at h ⊢
          simp only [stepDeath, h.2]; exact h.1
        | ok b =>
          simp only at h ⊢
          cases hc : check b (writeStream b s1) with
          | mk cr s2 =>
            rw [hc] at h
            cases cr with
            | error e => exact h
            | ok u => exact h

theorem riTake_dt : ∀ (f : Nat) (k : Option Nat) (ri : RI) (s : St) (acc : List Bytes),
    DT s (riTake f k ri s acc).2 ((riTake f k ri s acc).1.2.bind excDeath) := by
  intro f
  induction f with
  | zero => intro k ri s acc; exact DT.refl s
  | succ f ih =>
    intro k ri s acc
    unfold riTake
    split
    · exact DT.refl s
    · have h := riNext_dt ri s
      generalize riNext ri s = out at h
      obtain ⟨st, ri', s'⟩ := out
      cases st with
      | done => exact h
      | err e => exact h
      | chunk b => exact DT.trans h (ih _ _ _ _)

/-- `Channel.read` -/
theorem read_dt (n : Option Nat) (t : Option Nat) (s : St) : DT s (Chan.read n t s).2 (resDeath (Chan.read n t s).1) := by
  unfold Chan.read
  cases n with
  | none =>
    simp only
    have h := ioStep_dt s.chunk t s
    cases hr : ioRead s.chunk t s with
    | mk res s1 =>
      rw [hr] at h
      cases res with
      | error e =>
        simp only at h ⊢
        simp only [resDeath, h.2]; exact h.1
      | ok b =>
        simp only at h ⊢
        cases hc : check b (writeStream b s1) with
        | mk cr s2 =>
          rw [hc] at h
          cases cr with
          | error e => exact h
          | ok u => exact h
  | some n =>
    simp only
    have h := riTake_dt (fuelFor s) none (riStart (some n) t s) s []
    generalize riTake (fuelFor s) none (riStart (some n) t s) s [] = out at h
    obtain ⟨⟨cs, e⟩, s'⟩ := out
    cases e with
    | some e => exact h
    | none =>
      simp only
      split <;> exact h

theorem readlineLoop_dt : ∀ (f : Nat) (end_ line : Bytes) (t0 : Nat) (timeout : Option Nat) (s : St),
    DT s (readlineLoop f end_ line t0 timeout s).2 (resDeath (readlineLoop f end_ line t0 timeout s).1) := by
  intro f
  induction f with
  | zero => intro _ _ _ _ s; exact DT.refl s
  | succ f ih =>
    intro end_ line t0 timeout s
    unfold readlineLoop
    cases hrem : remaining timeout t0 s.now with
    | none => exact DT.refl s
    | some rem =>
      simp only
      have h := read_dt (some 1) rem s
      generalize Chan.read (some 1) rem s = out at h
      obtain ⟨res, s'⟩ := out
      cases res with
      | error e => exact h
      | ok c =>
        simp only
        split
        · exact h
        · exact DT.trans h (ih _ _ _ _ _)

theorem expectLoop_dt : ∀ (f : Nat) (pats : List Pat) (buf : Bytes) (ri : RI) (s : St),
    DT s (expectLoop f pats buf ri s).2 (resDeath (expectLoop f pats buf ri s).1) := by
  intro f
  induction f with
  | zero => intro _ _ _ s; exact DT.refl s
  | succ f ih =>
    intro pats buf ri s
    unfold expectLoop
    have h := riNext_dt ri s
    generalize riNext ri s = out at h
    obtain ⟨st, ri', s'⟩ := out
    cases st with
    | done => exact h
    | err e => exact h
    | chunk b =>
      simp only
      cases firstMatch (buf ++ b) 0 pats with
      | some x => exact h
      | none => exact DT.trans h (ih _ _ _ _)

theorem rupLoop_dt : ∀ (f : Nat) (buf : Bytes) (ri : RI) (s : St),
    DT s (rupLoop f buf ri s).2 (resDeath (rupLoop f buf ri s).1) := by
  intro f
  induction f with
  | zero => intro _ _ s; exact DT.refl s
  | succ f ih =>
    intro buf ri s
    unfold rupLoop
    have h := riNext_dt ri s
    generalize riNext ri s = out at h
    obtain ⟨st, ri', s'⟩ := out
    cases st with
    | done => exact h
    | err e => exact h
    | chunk b =>
      simp only
      cases s'.prompt with
      | none => exact DT.trans h (ih _ _ _)
      | some p =>
        simp only
        cases promptEnd p (buf ++ b) with
        | some n => exact h
        | none => exact DT.trans h (ih _ _ _)

theorem readUntilPrompt_dt (p : Option Pat) (t : Option Nat) (s : St) :
    DT s (readUntilPrompt p t s).2 (resDeath (readUntilPrompt p t s).1) := by
  unfold readUntilPrompt
  cases p with
  | none => exact rupLoop_dt _ _ _ _
  | some p =>
    simp only
    exact (rupLoop_dt (fuelFor { s with prompt := some (anchor p) }) []
      (riStart none t { s with prompt := some (anchor p) }) { s with prompt := some (anchor p) }).congr
      rfl rfl rfl rfl rfl rfl

theorem readUntilTimeout_dt (t : Option Nat) (s : St) :
    DT s (readUntilTimeout t s).2 (resDeath (readUntilTimeout t s).1) := by
  unfold readUntilTimeout
  have h := riTake_dt (fuelFor s) none (riStart none t s) s []
  generalize riTake (fuelFor s) none (riStart none t s) s [] = out at h
  obtain ⟨⟨cs, e⟩, s'⟩ := out
  cases e with
  | none => exact h
  | some e => cases e <;> exact h

/-! ### writing never touches the registrations -/

/-- nothing was read and the registrations are as before -/
def Quiet (s s' : St) : Prop :=
  s'.reads = s.reads ∧ s'.deaths = s.deaths ∧ s'.nextDeath = s.nextDeath

theorem Quiet.dt {s s' : St} (h : Quiet s s') : DT s s' none := DT.of_eq h.1 h.2.1 h.2.2

theorem Quiet.trans {a b c : St} (h1 : Quiet a b) (h2 : Quiet b c) : Quiet a c :=
  ⟨by rw [h2.1, h1.1], by rw [h2.2.1, h1.2.1], by rw [h2.2.2, h1.2.2]⟩

theorem ioWrite_quiet (buf : Bytes) (s : St) : Quiet s (ioWrite buf s).2 := by
  unfold ioWrite
  cases s.accept <;> exact ⟨rfl, rfl, rfl⟩

theorem writeLoop_quiet : ∀ (f : Nat) (buf : Bytes) (s : St), Quiet s (writeLoop f buf s) := by
  intro f
  induction f with
  | zero => intro _ s; exact ⟨rfl, rfl, rfl⟩
  | succ f ih =>
    intro buf s
    cases buf with
    | nil => exact ⟨rfl, rfl, rfl⟩
    | cons b t =>
      unfold writeLoop
      cases s.slowDelay with
      | none =>
        simp only
        exact (ioWrite_quiet _ s).trans (ih _ _)
      | some d =>
        simp only
        have h1 := ioWrite_quiet ((b :: t).take s.slowChunk) s
        have h2 : Quiet s { (ioWrite ((b :: t).take s.slowChunk) s).2 with
            now := (ioWrite ((b :: t).take s.slowChunk) s).2.now + d } := h1
        exact h2.trans (ih _ _)

theorem write_quiet (buf : Bytes) (ign : Bool) (s : St) :
    Quiet s (write buf ign s).2 ∧ resDeath (write buf ign s).1 = none := by
  unfold write
  split
  · exact ⟨⟨rfl, rfl, rfl⟩, rfl⟩
  · exact ⟨writeLoop_quiet _ _ _, rfl⟩

theorem sendLoop_dt : ∀ (f : Nat) (buf : Bytes) (rb : Bool) (timeout : Option Nat) (ign : Bool) (t0 : Nat) (s : St),
    DT s (sendLoop f buf rb timeout ign t0 s).2 (resDeath (sendLoop f buf rb timeout ign t0 s).1) := by
  intro f
  induction f with
  | zero => intro _ _ _ _ _ s; exact DT.refl s
  | succ f ih =>
    intro buf rb timeout ign t0 s
    cases buf with
    | nil => exact DT.refl s
    | cons b t =>
      unfold sendLoop
      simp only
      have hw := write_quiet ((b :: t).take s.slice) ign s
      generalize write ((b :: t).take s.slice) ign s = out at hw
      obtain ⟨wr, s1⟩ := out
      cases wr with
      | error e =>
        simp only at hw ⊢
        rw [hw.2]; exact hw.1.dt
      | ok u =>
        simp only at hw ⊢
        cases rb with
        | false =>
          simp only [Bool.false_eq_true, if_false]
          exact DT.trans hw.1.dt (ih _ _ _ _ _ _)
        | true =>
          simp only [if_true]
          cases remaining timeout t0 s1.now with
          | none => exact hw.1.dt
          | some rem =>
            simp only
            have hr := read_dt (some (((b :: t).take s.slice).length + countNl ((b :: t).take s.slice))) rem s1
            generalize Chan.read (some (((b :: t).take s.slice).length + countNl ((b :: t).take s.slice))) rem s1 = out at hr
            obtain ⟨rr, s2⟩ := out
            cases rr with
            | error e => exact DT.trans hw.1.dt hr
            | ok bb => exact DT.trans hw.1.dt (DT.trans hr (ih _ _ _ _ _ _))

/-- without read-back `send` reads nothing -/
theorem sendLoop_quiet : ∀ (f : Nat) (buf : Bytes) (timeout : Option Nat) (ign : Bool) (t0 : Nat) (s : St),
    Quiet s (sendLoop f buf false timeout ign t0 s).2 ∧ resDeath (sendLoop f buf false timeout ign t0 s).1 = none := by
  intro f
  induction f with
  | zero => intro _ _ _ _ s; exact ⟨⟨rfl, rfl, rfl⟩, rfl⟩
  | succ f ih =>
    intro buf timeout ign t0 s
    cases buf with
    | nil => exact ⟨⟨rfl, rfl, rfl⟩, rfl⟩
    | cons b t =>
      unfold sendLoop
      simp only
      have hw := write_quiet ((b :: t).take s.slice) ign s
      generalize write ((b :: t).take s.slice) ign s = out at hw
      obtain ⟨wr, s1⟩ := out
      cases wr with
      | error e => exact hw
      | ok u =>
        simp only [Bool.false_eq_true, if_false] at hw ⊢
        have h2 := ih ((b :: t).drop s1.slice) timeout ign t0 s1
        exact ⟨hw.1.trans h2.1, h2.2⟩

theorem send_dt (buf : Bytes) (rb : Bool) (t : Option Nat) (ign : Bool) (s : St) :
    DT s (send buf rb t ign s).2 (resDeath (send buf rb t ign s).1) := by
  unfold send
  split
  · exact DT.refl s
  · split
    · exact DT.refl s
    · exact sendLoop_dt _ _ _ _ _ _ _

theorem send_quiet (buf : Bytes) (t : Option Nat) (ign : Bool) (s : St) :
    Quiet s (send buf false t ign s).2 ∧ resDeath (send buf false t ign s).1 = none := by
  unfold send
  split
  · exact ⟨⟨rfl, rfl, rfl⟩, rfl⟩
  · split
    · exact ⟨⟨rfl, rfl, rfl⟩, rfl⟩
    · exact sendLoop_quiet _ _ _ _ _ _

theorem sendcontrol_quiet (n : Nat) (s : St) :
    Quiet s (sendcontrol n s).2 ∧ resDeath (sendcontrol n s).1 = none := by
  unfold sendcontrol
  split
  · exact write_quiet _ _ _
  · exact ⟨⟨rfl, rfl, rfl⟩, rfl⟩

end C05
