import TbotVerif.Props.C08Trace
/-! C08 — the effect of one operation (as run by `obsOp`) on the stream part of the state. -/

namespace C08
open Chan Spec C03 ChanCase

theorem obsOp_snd (op : Op) (r : RunSt) : (obsOp op r).2 = (runOp op { r with st := cut r.st }).2 := rfl
theorem obsOp_fwd (op : Op) (r : RunSt) : (obsOp op r).1.fwd = fwdText (obsOp op r).2.st.fwd := rfl
theorem obsOp_reads (op : Op) (r : RunSt) : (obsOp op r).1.reads = (obsOp op r).2.st.reads := rfl

theorem obsOp_delivered (op : Op) (r : RunSt) : delivered (obsOp op r).1 = dataOf (obsOp op r).2.st.reads := rfl

/-- operations that change the prompt in force (for the duration of the call, in the case of a
    per-call prompt) -/
def changesPrompt : Op → Bool
  | .setPrompt _ | .promptEnter _ | .promptExit | .rup (some _) _ => true
  | _ => false

/-- everything but the three prompt-configuration and the three attach/detach operations -/
def isReading : Op → Bool
  | .setPrompt _ | .promptEnter _ | .promptExit | .streamEnter _ _ | .streamExit | .streamExitAt _ => false
  | _ => true

theorem SS.writes_prompt (ds : List Bytes) (x : SS) : (x.writes ds).prompt = x.prompt := by
  induction ds generalizing x with
  | nil => rfl
  | cons d ds ih => rw [SS.writes_cons, ih, SS.write_prompt]

/-- the same stream state under another prompt -/
def SS.withPrompt (q : Option Pat) (x : SS) : SS := { x with prompt := q }

theorem SS.withPrompt_self (y : SS) (p : Option Pat) (h : y.prompt = p) : y.withPrompt p = y := by
  cases y; simp only at h; subst h; rfl

/-- what an operation other than prompt configuration and attach/detach does: the frames stay,
    the delivered chunks pass through `writeStream` under the prompt `q` in force during the call -/
structure Eff (r : RunSt) (op : Op) : Prop where
  streams : (obsOp op r).2.streams = r.streams
  prompts : (obsOp op r).2.prompts = r.prompts
  ss : ∃ q : Option Pat, (changesPrompt op = false → q = r.st.prompt) ∧
        ssOf (obsOp op r).2.st
          = (((ssOf (cut r.st)).withPrompt q).writes (delivered (obsOp op r).1)).withPrompt r.st.prompt

theorem eff_of_tr (r : RunSt) (op : Op) (s' : St) (recs : List ReadRec)
    (hst : (runOp op { r with st := cut r.st }).2.st = s')
    (hstreams : (runOp op { r with st := cut r.st }).2.streams = r.streams)
    (hprompts : (runOp op { r with st := cut r.st }).2.prompts = r.prompts)
    (htr : Tr (cut r.st) s' recs) : Eff r op := by
  refine ⟨hstreams, hprompts, r.st.prompt, fun _ => rfl, ?_⟩
  rw [obsOp_delivered, obsOp_snd, hst]
  have hreads : s'.reads = recs := by rw [htr.reads]; rfl
  rw [hreads, htr.ss]
  have : (ssOf (cut r.st)).withPrompt r.st.prompt = ssOf (cut r.st) := rfl
  rw [this]
  exact (SS.withPrompt_self _ _ (by rw [SS.writes_prompt]; rfl)).symm

theorem eff_of_tr' (r : RunSt) (op : Op) (s' : St) (recs : List ReadRec)
    (hsnd : (runOp op { r with st := cut r.st }).2 = { r with st := s' })
    (htr : Tr (cut r.st) s' recs) : Eff r op :=
  eff_of_tr r op s' recs (by rw [hsnd]) (by rw [hsnd]) (by rw [hsnd]) htr

theorem eff (r : RunSt) (op : Op) (h : isReading op = true) : Eff r op := by
  cases op with
  | setPrompt p => simp [isReading] at h
  | promptEnter p => simp [isReading] at h
  | promptExit => simp [isReading] at h
  | streamEnter id sp => simp [isReading] at h
  | streamExit => simp [isReading] at h
  | streamExitAt k => simp [isReading] at h
  | setBlacklist b => exact eff_of_tr r _ _ [] rfl rfl rfl (Tr.of_same rfl rfl)
  | setSlow d c => exact eff_of_tr r _ _ [] rfl rfl rfl (Tr.of_same rfl rfl)
  | sleep n => exact eff_of_tr r _ _ [] rfl rfl rfl (Tr.of_same rfl rfl)
  | deathEnter p e => exact eff_of_tr r _ _ [] rfl rfl rfl (Tr.of_same rfl rfl)
  | deathAdd p e => exact eff_of_tr r _ _ [] rfl rfl rfl (Tr.of_same rfl rfl)
  | deathExit =>
    cases hd : r.deaths with
    | nil =>
      refine eff_of_tr r _ (cut r.st) [] ?_ ?_ ?_ (Tr.refl _) <;> simp [runOp, hd]
    | cons id ids =>
      refine eff_of_tr r _ (Chan.deathExit id (cut r.st)) [] ?_ ?_ ?_ (Tr.of_same rfl rfl) <;> simp [runOp, hd]
  | read n t =>
    obtain ⟨recs, htr⟩ := read_tr n t (cut r.st)
    refine eff_of_tr' r _ _ recs ?_ htr
    simp only [runOp]
    cases Chan.read n t (cut r.st) with
    | mk a b => cases a <;> rfl
  | readIter m t k =>
    obtain ⟨recs, htr⟩ := riTake_tr (fuelFor (cut r.st)) k (riStart m t (cut r.st)) (cut r.st) []
    refine eff_of_tr' r _ _ recs ?_ htr
    simp only [runOp]
  | readline e t =>
    obtain ⟨recs, htr⟩ := readlineLoop_tr (fuelFor (cut r.st)) e [] (cut r.st).now t (cut r.st)
    refine eff_of_tr' r _ _ recs ?_ htr
    simp only [runOp, readline]
    cases readlineLoop (fuelFor (cut r.st)) e [] (cut r.st).now t (cut r.st) with
    | mk a b => cases a <;> rfl
  | expect ps t =>
    obtain ⟨recs, htr⟩ := expectLoop_tr (fuelFor (cut r.st)) ps [] (riStart none t (cut r.st)) (cut r.st)
    refine eff_of_tr' r _ _ recs ?_ htr
    simp only [runOp, expect]
    cases expectLoop (fuelFor (cut r.st)) ps [] (riStart none t (cut r.st)) (cut r.st) with
    | mk a b => cases a <;> rfl
  | rut t =>
    obtain ⟨recs, htr⟩ := readUntilTimeout_tr t (cut r.st)
    refine eff_of_tr' r _ _ recs ?_ htr
    simp only [runOp]
    cases readUntilTimeout t (cut r.st) with
    | mk a b => cases a <;> rfl
  | write b ign =>
    refine eff_of_tr' r _ _ [] ?_ (write_tr b ign (cut r.st))
    simp only [runOp, ofUnit]
    cases Chan.write b ign (cut r.st) with
    | mk a b => cases a <;> rfl
  | send b rb t ign =>
    obtain ⟨recs, htr⟩ := send_tr b rb t ign (cut r.st)
    refine eff_of_tr' r _ _ recs ?_ htr
    simp only [runOp, ofUnit]
    cases Chan.send b rb t ign (cut r.st) with
    | mk a b => cases a <;> rfl
  | sendline b rb t =>
    obtain ⟨recs, htr⟩ := send_tr (b ++ [13]) rb t false (cut r.st)
    refine eff_of_tr' r _ _ recs ?_ htr
    simp only [runOp, ofUnit, sendline]
    cases Chan.send (b ++ [13]) rb t false (cut r.st) with
    | mk a b => cases a <;> rfl
  | sendcontrol n =>
    refine eff_of_tr' r _ _ [] ?_ (sendcontrol_tr n (cut r.st))
    simp only [runOp, ofUnit]
    cases Chan.sendcontrol n (cut r.st) with
    | mk a b => cases a <;> rfl
  | rup p t =>
    cases p with
    | none =>
      obtain ⟨recs, htr⟩ := readUntilPrompt_none_tr t (cut r.st)
      refine eff_of_tr' r _ _ recs ?_ htr
      simp only [runOp]
      cases readUntilPrompt none t (cut r.st) with
      | mk a b =>
        cases a with
        | error e => rfl
        | ok v => obtain ⟨v1, v2⟩ := v; rfl
    | some p =>
      obtain ⟨recs, hreads, hss⟩ := readUntilPrompt_some_tr p t (cut r.st)
      have hsnd : (runOp (.rup (some p) t) { r with st := cut r.st }).2
          = { r with st := (readUntilPrompt (some p) t (cut r.st)).2 } := by
        simp only [runOp]
        cases readUntilPrompt (some p) t (cut r.st) with
        | mk a b =>
          cases a with
          | error e => rfl
          | ok v => obtain ⟨v1, v2⟩ := v; rfl
      refine ⟨by rw [obsOp_snd, hsnd], by rw [obsOp_snd, hsnd], some (anchor p), fun h => by simp [changesPrompt] at h, ?_⟩
      rw [obsOp_delivered, obsOp_snd, hsnd]
      have : (readUntilPrompt (some p) t (cut r.st)).2.reads = recs := by rw [hreads]; rfl
      simp only [this]
      exact hss

end C08
