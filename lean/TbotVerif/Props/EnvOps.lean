import TbotVerif.Props.EnvCmd
import TbotVerif.Spec.Env
/-! C09: every operation of a test body, executed through the drivers against the reactive remote,
    returns what the reference semantics of `Spec/Env.lean` demands — and leaves the world in sync,
    with the remote's current frame the image of the reference frame. -/

namespace Env
open Chan Quote EnvChan

/-! ### abstraction: the remote's frame vs the reference frame -/

/-- the remote holds the UTF-8 encoding of every string value -/
structure Abs (f : Frame) (rf : RFrame) : Prop where
  env : f.env = rf.env.map fun p => (p.1, enc p.2)
  cwd : f.cwd = rf.cwd
  opts : f.opts = rf.opts

theorem lookup_abs (e : List (Bytes × List Char)) (n : Bytes) :
    lookup (e.map fun p => (p.1, enc p.2)) n = (rlookup e n).map enc := by
  unfold lookup rlookup
  induction e with
  | nil => rfl
  | cons p t ih =>
    simp only [List.map_cons, List.find?_cons]
    cases h : p.1 == n with
    | true => simp
    | false => simpa using ih

theorem setVar_abs (e : List (Bytes × List Char)) (n : Bytes) (v : List Char) :
    setVar (e.map fun p => (p.1, enc p.2)) n (enc v)
      = ((n, v) :: e.filter (·.1 != n)).map fun p => (p.1, enc p.2) := by
  unfold setVar
  simp only [List.map_cons, List.filter_map, List.cons.injEq, true_and]
  rfl

/-! ### the prompt never ends a proper prefix -/

theorem noEarly_sound {p pre : Bytes} (h : noEarly p pre = true) : OnlyAtEnd p (pre ++ p) := by
  refine ⟨List.suffix_append _ _, ?_⟩
  intro k hk hle hsuf
  apply Decidable.byContradiction
  intro hne
  have hlt : k < pre.length + p.length := by
    simp only [List.length_append] at hle hne; omega
  have := List.all_eq_true.mp h k (List.mem_range.mpr hlt)
  simp only [Bool.or_eq_true, beq_iff_eq, Bool.not_eq_true'] at this
  rcases this with h0 | h1
  · omega
  · rw [List.isSuffixOf_iff_suffix.mpr hsuf] at h1; exact absurd h1 (by simp)

/-! ### reaching the simple-command interpreter -/

theorem answers_of_step {P : Bytes} {bl : Bytes} {r r' : Remote} {ext : Bytes × Nat} {line out : Bytes}
    (hsh : Shows P r) (hcl : clean bl line = true) (hstep : step r ext line = (out, r')) (hsh' : Shows P r') :
    Answers P r ext line out r' :=
  ⟨hsh.alive, by rw [clean_input hcl]; exact hstep, hsh'⟩

/-- a line of quoted words -/
theorem answers_escape {ash : Bool} {r r' : Remote} {f : Frame} {fs : List Frame} {ext : Bytes × Nat}
    {ws : List Bytes} {out : Bytes} (hf : r.frames = f :: fs) (hp : f.ps1 = prompt ash) (hne : ws ≠ [])
    (hcl : ∀ w ∈ ws, clean (blacklist ash) w = true)
    (hb : builtin r f fs ext ws = (out, r')) (hsh' : Shows (prompt ash) r') :
    Answers (prompt ash) r ext (escape ws) out r' :=
  answers_of_step ⟨f, fs, hf, hp⟩ (clean_escape ws hcl) (by rw [step_escape r f fs ext ws hf hne, hb]) hsh'

/-! ### `InSync` bookkeeping -/

theorem beginOp_sync {ash : Bool} {w : World} (h : InSync ash w) :
    InSync ash (beginOp w) ∧ (beginOp w).rem = w.rem :=
  ⟨{ quiet := ⟨h.quiet.deaths, h.quiet.accept, h.quiet.slow, h.quiet.chunk, h.quiet.slice, h.quiet.wf⟩
     script := h.script, chPrompt := h.chPrompt, chBl := h.chBl, remAsh := h.remAsh, alive := h.alive,
     ps1 := h.ps1, last := h.last }, rfl⟩

/-- a command that replaces the current frame by one with the same prompt -/
theorem lands_upd {ash : Bool} {r : Remote} {f f' : Frame} {fs : List Frame} (st : Nat) (seen : Option (List Bytes))
    (ha : r.ash = ash) (hps : ∀ g ∈ r.frames, g.ps1 = prompt ash) (hf : r.frames = f :: fs)
    (hp : f'.ps1 = f.ps1) (hst : st < 256) :
    Lands ash { r with frames := f' :: fs, last := st, seen := seen } := by
  refine ⟨ha, rfl, ?_, hst⟩
  intro g hg
  simp only [List.mem_cons] at hg
  rcases hg with rfl | hg
  · rw [hp]; exact hps f (by rw [hf]; simp)
  · exact hps g (by rw [hf]; simp [hg])

theorem lands_same {ash : Bool} {r : Remote} (st : Nat) (seen : Option (List Bytes))
    (ha : r.ash = ash) (hal : r.frames.isEmpty = false) (hps : ∀ g ∈ r.frames, g.ps1 = prompt ash) (hst : st < 256) :
    Lands ash { r with last := st, seen := seen } := ⟨ha, hal, hps, hst⟩

theorem empty_onlyAtEnd (ash : Bool) : OnlyAtEnd (prompt ash) (Tty.cook [] ++ prompt ash) := by
  have := onlyAtEnd_prompt ash [] (by simp)
  simpa [Tty.cook] using this

/-! ### the builtins -/

theorem builtin_export (r : Remote) (f : Frame) (fs : List Frame) (ext : Bytes × Nat) (n v : Bytes)
    (hn : isName n = true) :
    builtin r f fs ext [b!"export", n ++ EQ :: v]
      = ([], { r with frames := { f with env := setVar f.env n v } :: fs, last := 0 }) := by
  have h1 : (n ++ EQ :: v).takeWhile (· != EQ) = n := takeWhile_ne_EQ n v (isName_all hn).1
  have h2 : decide ((n ++ EQ :: v).length > n.length) = true := by simp
  have h3 : (n ++ EQ :: v).drop (n.length + 1) = v := by
    rw [show n ++ EQ :: v = (n ++ [EQ]) ++ v by simp, show n.length + 1 = (n ++ [EQ]).length by simp, List.drop_left]
  unfold builtin
  simp only [beq_self_eq_true, if_true, h1, hn, h2, Bool.and_self, h3]

theorem builtin_printf (r : Remote) (f : Frame) (fs : List Frame) (ext : Bytes × Nat) (x : Bytes) :
    builtin r f fs ext [b!"printf", b!"%s\\n", x] = (x ++ [LF], r.setLast 0) := by
  unfold builtin
  have h1 : (b!"printf" == b!"export") = false := by decide
  have h2 : (b!"printf" == b!"echo") = false := by decide
  simp [h1, h2]

theorem builtin_echo (r : Remote) (f : Frame) (fs : List Frame) (ext : Bytes × Nat) (args : List Bytes) :
    builtin r f fs ext (b!"echo" :: args) = (echoOut r.ash args, r.setLast 0) := by
  unfold builtin
  have h1 : (b!"echo" == b!"export") = false := by decide
  simp [h1]

theorem builtin_cd (r : Remote) (f : Frame) (fs : List Frame) (ext : Bytes × Nat) (d : Bytes) :
    builtin r f fs ext [b!"cd", d] = ([], { r with frames := { f with cwd := d } :: fs, last := 0 }) := by
  unfold builtin
  have h1 : (b!"cd" == b!"export") = false := by decide
  have h2 : (b!"cd" == b!"echo") = false := by decide
  have h3 : (b!"cd" == b!"printf") = false := by decide
  simp [h1, h2, h3]

theorem builtin_pwd (r : Remote) (f : Frame) (fs : List Frame) (ext : Bytes × Nat) :
    builtin r f fs ext [b!"pwd"] = (f.cwd ++ [LF], r.setLast 0) := by
  unfold builtin
  have h1 : (b!"pwd" == b!"export") = false := by decide
  have h2 : (b!"pwd" == b!"echo") = false := by decide
  have h3 : (b!"pwd" == b!"printf") = false := by decide
  have h4 : (b!"pwd" == b!"cd") = false := by decide
  simp [h1, h2, h3, h4]

theorem builtin_set (r : Remote) (f : Frame) (fs : List Frame) (ext : Bytes × Nat) (c : Byte) (on : Bool) :
    builtin r f fs ext [b!"set", [if on then 45 else 43, c]]
      = ([], { r with frames := { f with opts := setOpt f.opts c on } :: fs, last := 0 }) := by
  unfold builtin
  have h1 : (b!"set" == b!"export") = false := by decide
  have h2 : (b!"set" == b!"echo") = false := by decide
  have h3 : (b!"set" == b!"printf") = false := by decide
  have h4 : (b!"set" == b!"cd") = false := by decide
  have h5 : (b!"set" == b!"pwd") = false := by decide
  cases on <;> simp [h1, h2, h3, h4, h5]

theorem builtin_exit (r : Remote) (f : Frame) (fs : List Frame) (ext : Bytes × Nat) :
    builtin r f fs ext [b!"exit"] = ((if r.ash then [] else b!"exit\n"), { r with frames := fs, last := 0 }) := by
  unfold builtin
  have h1 : (b!"exit" == b!"export") = false := by decide
  have h2 : (b!"exit" == b!"echo") = false := by decide
  have h3 : (b!"exit" == b!"printf") = false := by decide
  have h4 : (b!"exit" == b!"cd") = false := by decide
  have h5 : (b!"exit" == b!"pwd") = false := by decide
  have h6 : (b!"exit" == b!"set") = false := by decide
  simp [h1, h2, h3, h4, h5, h6]

/-- an absolute path is none of the builtins: the program runs -/
theorem builtin_ext (r : Remote) (f : Frame) (fs : List Frame) (ext : Bytes × Nat) (t : Bytes) (args : List Bytes) :
    builtin r f fs ext ((47 :: t) :: args)
      = (ext.1, { r with last := ext.2 % 256, seen := some ((47 :: t) :: args) }) := by
  unfold builtin
  simp

end Env
