import TbotVerif.Props.C08Vis
/-! C08 — the Spec's monitor (`Spec.c08`) run along the model: the invariant `Inv` links the
    monitor's record of the open attachment (`r`, `fw` as text) to the model's forwarded bytes and
    hold-back buffer (`HB`); `step` is one operation, `fold_inv` a whole operation sequence. -/

namespace C08
open Chan Spec C03 ChanCase


/-! ### from byte fragments to the text the monitor sees -/

theorem fwdText_cons (x : Nat × Bytes) (F : List (Nat × Bytes)) :
    fwdText (x :: F) = if (decodeReplace x.2).isEmpty then fwdText F else (x.1, decodeReplace x.2) :: fwdText F := by
  unfold fwdText
  simp only [List.map_cons, List.filter_cons]
  cases (decodeReplace x.2).isEmpty <;> simp

theorem fwdText_ids (id : Nat) (F : List (Nat × Bytes)) (h : ∀ e ∈ F, e.1 = id) : ∀ f ∈ fwdText F, f.1 = id := by
  induction F with
  | nil => intro f hf; simp [fwdText] at hf
  | cons x F ih =>
    intro f hf
    rw [fwdText_cons] at hf
    have ih' := ih (fun e he => h e (List.mem_cons_of_mem _ he))
    split at hf
    · exact ih' f hf
    · rcases List.mem_cons.mp hf with rfl | hf
      · exact h x (List.mem_cons_self)
      · exact ih' f hf

/-- the ASCII projection of the text one stream received is the ASCII projection of the byte
    fragments forwarded to it — for every fragmentation -/
theorem fwdFor_text (id : Nat) (F : List (Nat × Bytes)) (h : ∀ e ∈ F, e.1 = id) :
    asciiT (fwdFor id (fwdText F)).flatten = asciiB (bytesOf F) := by
  induction F with
  | nil => rfl
  | cons x F ih =>
    have ih' := ih (fun e he => h e (List.mem_cons_of_mem _ he))
    have hx : x.1 = id := h x (List.mem_cons_self)
    have hb : bytesOf (x :: F) = x.2 ++ bytesOf F := rfl
    rw [fwdText_cons, hb, asciiB_append, ← asciiT_decodeReplace x.2]
    split
    · rename_i hemp
      have : decodeReplace x.2 = [] := by simpa using hemp
      rw [this, ih']; rfl
    · have : fwdFor id ((x.1, decodeReplace x.2) :: fwdText F) = decodeReplace x.2 :: fwdFor id (fwdText F) := by
        simp [fwdFor, hx]
      rw [this, List.flatten_cons, asciiT_append, ih']

/-! ### the monitor's laws from the byte-level invariant -/

theorem isPrefixOf_of_prefix {α} [BEq α] [LawfulBEq α] {a b : List α} (h : a <+: b) : a.isPrefixOf b = true :=
  List.isPrefixOf_iff_prefix.mpr h

theorem attOk_of (a : Att) (fw : Bytes) (ht : asciiT a.fw = asciiB fw) (hpre : fw <+: a.r)
    (hshow : a.showPrompt = true → fw = a.r)
    (hnone : a.showPrompt = false → a.prompt = none → fw = a.r)
    (hlit : ∀ p, a.showPrompt = false → a.prompt = some (.lit p) → fw.length + ovl p a.r = a.r.length) :
    attOk a = true := by
  unfold attOk
  have h1 : (asciiT a.fw).isPrefixOf (asciiB a.r) = true := by
    obtain ⟨t, ht'⟩ := hpre
    rw [ht, ← ht', asciiB_append]
    exact isPrefixOf_of_prefix (List.prefix_append _ _)
  rw [h1, Bool.true_and]
  cases hst : a.steady with
  | false => rfl
  | true =>
    simp only [Bool.not_true, Bool.false_eq_true, if_false]
    cases hsp : a.showPrompt with
    | true =>
      simp only [if_true]
      rw [ht, hshow hsp]; exact beq_self_eq_true _
    | false =>
      simp only [Bool.false_eq_true, if_false]
      cases hp : a.prompt with
      | none =>
        simp only
        rw [ht, hnone hsp hp]; exact beq_self_eq_true _
      | some pat =>
        cases pat with
        | re r => rfl
        | lit p =>
          simp only
          cases hasc : isAscii a.r with
          | false => rfl
          | true =>
            have hfa : isAscii fw = true := by
              obtain ⟨t, ht'⟩ := hpre
              rw [← ht', isAscii_append] at hasc
              simp only [Bool.and_eq_true] at hasc
              exact hasc.1
            have hl := hlit p hsp hp
            rw [ht, asciiB_length_of_isAscii fw hfa]
            unfold ovl at hl
            exact Bool.or_eq_true_iff.mpr (Or.inr (beq_iff_eq.mpr hl))

theorem attOk_of_HB (a : Att) (fw sb : Bytes) (ht : asciiT a.fw = asciiB fw)
    (h : HB a.showPrompt a.prompt fw sb a.r) : attOk a = true := by
  refine attOk_of a fw ht h.prefix ?_ ?_ ?_
  · intro hs; rw [hs] at h; exact h.all_of_show
  · intro _ hp; rw [hp] at h; exact h.all_of_noprompt.1
  · intro p hs hp
    rw [hs, hp] at h
    rw [← h.lit_len]
    have := congrArg List.length h.1
    simp only [List.length_append] at this
    omega

theorem detachOk_of (a : Att) (fw : Bytes) (ht : asciiT a.fw = asciiB fw)
    (hlit : a.showPrompt = false → ∀ p, a.prompt = some (.lit p) → p <:+ a.r → fw = a.r.take (a.r.length - p.length))
    (hre : a.showPrompt = false → ∀ r n e, a.prompt = some (.re r) → r.search a.r = some (n, e) → fw = a.r.take n) :
    detachOk a = true := by
  unfold detachOk
  split
  · rfl
  · rename_i hc
    have hsp : a.showPrompt = false := by
      cases h : a.showPrompt with
      | false => rfl
      | true => simp [h] at hc
    cases hp : a.prompt with
    | none => rfl
    | some pat =>
      cases pat with
      | lit p =>
        simp only [promptEnd]
        by_cases hsuf : p.isSuffixOf a.r = true
        · simp only [hsuf, if_true]
          rw [ht, hlit hsp p hp (List.isSuffixOf_iff_suffix.mp hsuf)]
          exact beq_self_eq_true _
        · simp only [hsuf, Bool.false_eq_true, if_false]
      | re r =>
        simp only [promptEnd]
        cases hs : r.search a.r with
        | none => rfl
        | some v =>
          obtain ⟨n, e⟩ := v
          simp only [Option.map_some]
          rw [ht, hre hsp r n e hp hs]
          exact beq_self_eq_true _

/-! ### the monitor step, computed for zero and one open attachment -/

/-- the attachment record after an operation (single attachment) -/
def upd (a : Att) (cfg : Cfg) (op : Op) (o : OpObs) : Att :=
  { a with r := a.r ++ (delivered o).flatten, fw := a.fw ++ (fwdFor a.id o.fwd).flatten,
           steady := a.steady && ((delivered o).flatten.isEmpty ||
             (a.showPrompt == a.showPrompt &&
               a.prompt == (match op with | .rup (some p) _ => some (Chan.anchor p) | _ => cfg.prompt))) }

def isStreamOp : Op → Bool
  | .streamEnter _ _ | .streamExit | .streamExitAt _ => true
  | _ => false

theorem visOk_nil (v : Bool) (o : OpObs) : visOk v [] o = true := by
  cases v <;> rfl

theorem c08_closed_other (v : Bool) (cfg : Cfg) (op : Op) (o : OpObs) (h : isStreamOp op = false) (hf : o.fwd = []) :
    c08 { atts := [], vis := v } cfg op o = (true, { atts := [], vis := v }) := by
  cases op <;> first | (simp [isStreamOp] at h; done) | simp [c08, hf, visOk_nil]

theorem c08_closed_exit (v : Bool) (cfg : Cfg) (o : OpObs) (hf : o.fwd = []) :
    c08 { atts := [], vis := v } cfg .streamExit o = (true, { atts := [], vis := v }) := by
  simp [c08, hf, visOk_nil]

theorem c08_closed_enter (v : Bool) (cfg : Cfg) (id : Nat) (sp : Bool) (o : OpObs) (hf : o.fwd = []) :
    c08 { atts := [], vis := v } cfg (.streamEnter id sp) o
      = (true, { atts := [{ id := id, showPrompt := sp, prompt := cfg.prompt }], vis := v && sp }) := by
  simp [c08, hf, visOk_nil]

theorem c08_open_other (v : Bool) (a : Att) (cfg : Cfg) (op : Op) (o : OpObs) (h : isStreamOp op = false) :
    c08 { atts := [a], vis := v } cfg op o
      = ((o.fwd.all fun f => a.id == f.1) && attOk (upd a cfg op o) && visOk v [upd a cfg op o] o,
         { atts := [upd a cfg op o], vis := v }) := by
  cases op <;> first | (simp [isStreamOp] at h; done) | (simp [c08, upd]; done) | (rename_i p t; cases p <;> simp [c08, upd])

theorem c08_open_exit (v : Bool) (a : Att) (cfg : Cfg) (o : OpObs) :
    c08 { atts := [a], vis := v } cfg .streamExit o
      = ((o.fwd.all fun f => a.id == f.1) && attOk (upd a cfg .streamExit o) && visOk v [upd a cfg .streamExit o] o
          && ((upd a cfg .streamExit o).prompt != cfg.prompt || detachOk (upd a cfg .streamExit o)),
         { atts := [], vis := v }) := by
  simp [c08, upd]


/-! ### hypotheses on the operation sequence -/

/-- (a detach that names its stream, `streamExitAt`, belongs to overlapping attachments: those cases are the
    subject of `C08OverlapAttach.lean`, here they are excluded) -/
def nestOk (o : Bool) : Op → Bool
  | .streamEnter _ _ => !o
  | .streamExitAt _ => false
  | _ => true

def nestNext (o : Bool) : Op → Bool
  | .streamEnter _ _ => true
  | .streamExit => false
  | _ => o

/-- no `with_stream` is entered while another one is open (`o`: one is open now) -/
def noNestingFrom : Bool → List Op → Bool
  | _, [] => true
  | o, op :: ops => nestOk o op && noNestingFrom (nestNext o op) ops

/-- **at most one attachment is open at any time** -/
def noNesting (ops : List Op) : Bool := noNestingFrom false ops

def quietOk (sup : Bool) (op : Op) : Bool := !(sup && changesPrompt op)

def supNext (sup : Bool) : Op → Bool
  | .streamEnter _ sp => !sp
  | .streamExit => false
  | _ => sup

/-- the prompt in force is not changed (`ch.prompt = …`, `with_prompt` entry/exit,
    `read_until_prompt(prompt=…)`) while a SUPPRESSING attachment is open (`sup`) -/
def quietFrom : Bool → List Op → Bool
  | _, [] => true
  | sup, op :: ops => quietOk sup op && quietFrom (supNext sup op) ops

def promptQuiet (ops : List Op) : Bool := quietFrom false ops

/-! ### the invariant linking monitor and model -/

/-- regex prompts are always installed end-anchored (`with_prompt`, `read_until_prompt`) -/
def anchoredP (p : Option Pat) : Prop := ∀ r, p = some (.re r) → ∃ r', r = .seq r' .eos

theorem anchoredP_anchor (p : Pat) : anchoredP (some (anchor p)) := by
  intro r h
  cases p with
  | lit b => simp [anchor] at h
  | re r0 =>
    simp only [anchor, Option.some.injEq, Pat.re.injEq] at h
    exact ⟨r0, h.symm⟩

theorem anchoredP_lit (p : Option Bytes) : anchoredP (p.map .lit) := by
  intro r h
  cases p <;> simp at h

structure PromptsOk (r : RunSt) : Prop where
  cur : anchoredP r.st.prompt
  stack : ∀ p ∈ r.prompts, anchoredP p

theorem HB_cast {lp : Bool} {p p' : Option Pat} {fw sb R : Bytes} (h : HB lp p fw sb R)
    (hp : lp = false → p' = p) : HB lp p' fw sb R := by
  cases lp with
  | true => exact h.show_any
  | false => rw [hp rfl]; exact h

/-- monitor state vs. model state between two operations -/
inductive Inv : StreamMon → RunSt → Prop
  | closed (v : Bool) (r : RunSt) (hf : r.streams = []) (hs : r.st.streams = []) (hb : r.st.streambuf = [])
      (hp : PromptsOk r) : Inv { atts := [], vis := v } r
  | opened (v : Bool) (a : Att) (r : RunSt) (prev : Bool) (fw : Bytes)
      (hf : r.streams = [(a.id, prev)]) (hs : r.st.streams = [a.id]) (hlp : r.st.logPrompt = a.showPrompt)
      (hpr : a.showPrompt = false → r.st.prompt = a.prompt)
      (ht : asciiT a.fw = asciiB fw) (hb : HB a.showPrompt a.prompt fw r.st.streambuf a.r)
      (hp : PromptsOk r) (hv : v = true → a.showPrompt = true) : Inv { atts := [a], vis := v } r

def isOpen (m : StreamMon) : Bool := !m.atts.isEmpty
def isSup (m : StreamMon) : Bool := m.atts.any fun a => !a.showPrompt

/-! ### effects, specialised -/

theorem Eff.closed {r : RunSt} {op : Op} (h : Eff r op) (hs : r.st.streams = []) :
    (obsOp op r).2.st.streams = [] ∧ (obsOp op r).2.st.streambuf = r.st.streambuf
    ∧ (obsOp op r).2.st.fwd = [] ∧ (obsOp op r).2.st.prompt = r.st.prompt := by
  obtain ⟨q, _, hss⟩ := h.ss
  have hx : ((ssOf (cut r.st)).withPrompt q).streams = [] := hs
  rw [SS.writes_closed _ _ hx] at hss
  exact ⟨(congrArg SS.streams hss).trans hs, congrArg SS.streambuf hss, congrArg SS.fwd hss,
    congrArg SS.prompt hss⟩

theorem Eff.opened {r : RunSt} {op : Op} (h : Eff r op) (id : Nat) (hs : r.st.streams = [id]) (fw R : Bytes)
    (hq : r.st.logPrompt = false → changesPrompt op = false)
    (hb : HB r.st.logPrompt r.st.prompt fw r.st.streambuf R) :
    (obsOp op r).2.st.streams = [id] ∧ (obsOp op r).2.st.logPrompt = r.st.logPrompt
    ∧ (obsOp op r).2.st.prompt = r.st.prompt ∧ (∀ e ∈ (obsOp op r).2.st.fwd, e.1 = id)
    ∧ HB r.st.logPrompt r.st.prompt (fw ++ bytesOf (obsOp op r).2.st.fwd) (obsOp op r).2.st.streambuf
        (R ++ (delivered (obsOp op r).1).flatten) := by
  obtain ⟨q, hq', hss⟩ := h.ss
  have hqp : r.st.logPrompt = false → q = r.st.prompt := fun hl => hq' (hq hl)
  have hbx : HB r.st.logPrompt q fw r.st.streambuf R := HB_cast hb hqp
  obtain ⟨g, hg1, hg2, hg3, hg4, hg5, _⟩ := HB_writes id (delivered (obsOp op r).1)
    ((ssOf (cut r.st)).withPrompt q) fw R hs hbx
  have hg1' : (((ssOf (cut r.st)).withPrompt q).writes (delivered (obsOp op r).1)).fwd = g := by
    rw [hg1]; rfl
  have hfwd : (obsOp op r).2.st.fwd = g := (congrArg SS.fwd hss).trans hg1'
  have hsb : (obsOp op r).2.st.streambuf
      = (((ssOf (cut r.st)).withPrompt q).writes (delivered (obsOp op r).1)).streambuf :=
    congrArg SS.streambuf hss
  have hg3' : HB r.st.logPrompt q (fw ++ bytesOf g)
      (((ssOf (cut r.st)).withPrompt q).writes (delivered (obsOp op r).1)).streambuf
      (R ++ (delivered (obsOp op r).1).flatten) := hg3
  refine ⟨(congrArg SS.streams hss).trans (hg4.trans hs), (congrArg SS.logPrompt hss).trans hg5,
    congrArg SS.prompt hss, by rw [hfwd]; exact hg2, ?_⟩
  rw [hfwd, hsb]
  exact HB_cast hg3' (fun hl => (hqp hl).symm)

/-- the three prompt-configuration operations -/
theorem cfg_op (r : RunSt) (op : Op) (h : isReading op = false) (hs : isStreamOp op = false) (hp : PromptsOk r) :
    (obsOp op r).2.streams = r.streams ∧ (obsOp op r).2.st.streams = r.st.streams
    ∧ (obsOp op r).2.st.streambuf = r.st.streambuf ∧ (obsOp op r).2.st.logPrompt = r.st.logPrompt
    ∧ (obsOp op r).2.st.fwd = [] ∧ (obsOp op r).2.st.reads = [] ∧ PromptsOk (obsOp op r).2 := by
  cases op with
  | setPrompt p => exact ⟨rfl, rfl, rfl, rfl, rfl, rfl, anchoredP_lit p, hp.stack⟩
  | promptEnter p =>
    refine ⟨rfl, rfl, rfl, rfl, rfl, rfl, anchoredP_anchor p, ?_⟩
    intro p' hp'
    have : p' ∈ r.st.prompt :: r.prompts := hp'
    rcases List.mem_cons.mp this with rfl | h'
    · exact hp.cur
    · exact hp.stack p' h'
  | promptExit =>
    cases hpr : r.prompts with
    | nil =>
      have h2 : (obsOp .promptExit r).2 = { r with st := cut r.st } := by
        rw [obsOp_snd]; simp [runOp, hpr]
      rw [h2]
      exact ⟨rfl, rfl, rfl, rfl, rfl, rfl, hp.cur, hp.stack⟩
    | cons p ps =>
      have h2 : (obsOp .promptExit r).2 = { r with st := { cut r.st with prompt := p }, prompts := ps } := by
        rw [obsOp_snd]; simp [runOp, hpr]
      rw [h2]
      refine ⟨rfl, rfl, rfl, rfl, rfl, rfl, hp.stack p (by rw [hpr]; exact List.mem_cons_self), ?_⟩
      intro p' hp'
      exact hp.stack p' (by rw [hpr]; exact List.mem_cons_of_mem _ hp')
  | _ => first | (simp [isReading] at h; done) | (simp [isStreamOp] at hs; done)


/-! ### one monitor step -/

theorem nestNext_other (o : Bool) (op : Op) (h : isStreamOp op = false) : nestNext o op = o := by
  cases op <;> first | rfl | (simp [isStreamOp] at h; done)

theorem supNext_other (o : Bool) (op : Op) (h : isStreamOp op = false) : supNext o op = o := by
  cases op <;> first | rfl | (simp [isStreamOp] at h; done)

theorem changesPrompt_of_cfg (op : Op) (h : isReading op = false) (hs : isStreamOp op = false) :
    changesPrompt op = true := by
  cases op <;> first | rfl | (simp [isReading] at h; done) | (simp [isStreamOp] at hs; done)

theorem changesPrompt_stream (op : Op) (hs : isStreamOp op = true) : isReading op = false := by
  cases op <;> first | rfl | (simp [isStreamOp] at hs; done)

/-- the text the monitor has accumulated, after an operation that forwarded the segment `F` -/
theorem upd_text (a : Att) (cfg : Cfg) (op : Op) (r : RunSt) (fw : Bytes) (ht : asciiT a.fw = asciiB fw)
    (hids : ∀ e ∈ (obsOp op r).2.st.fwd, e.1 = a.id) :
    asciiT (upd a cfg op (obsOp op r).1).fw = asciiB (fw ++ bytesOf (obsOp op r).2.st.fwd) := by
  show asciiT (a.fw ++ (fwdFor a.id (obsOp op r).1.fwd).flatten) = _
  rw [asciiT_append, ht, obsOp_fwd, fwdFor_text a.id _ hids, asciiB_append]

theorem attached_ok (a : Att) (op : Op) (r : RunSt) (hids : ∀ e ∈ (obsOp op r).2.st.fwd, e.1 = a.id) :
    ((obsOp op r).1.fwd.all fun f => a.id == f.1) = true := by
  rw [List.all_eq_true]
  intro f hf
  rw [obsOp_fwd] at hf
  rw [fwdText_ids a.id _ hids f hf]
  exact beq_self_eq_true _

/-- an operation other than attach/detach while one attachment is open -/
theorem step_open_other (v : Bool) (a : Att) (r : RunSt) (prev : Bool) (fw : Bytes) (op : Op) (hso : isStreamOp op = false)
    (hv : v = true → a.showPrompt = true)
    (hf : r.streams = [(a.id, prev)]) (ht : asciiT a.fw = asciiB fw)
    (F1 : (obsOp op r).2.streams = r.streams) (F2 : (obsOp op r).2.st.streams = [a.id])
    (F3 : (obsOp op r).2.st.logPrompt = a.showPrompt)
    (F4 : a.showPrompt = false → (obsOp op r).2.st.prompt = a.prompt)
    (F5 : ∀ e ∈ (obsOp op r).2.st.fwd, e.1 = a.id)
    (F6 : HB a.showPrompt a.prompt (fw ++ bytesOf (obsOp op r).2.st.fwd) (obsOp op r).2.st.streambuf
            (a.r ++ (delivered (obsOp op r).1).flatten))
    (F7 : PromptsOk (obsOp op r).2)
    (F8 : v = true → fwdFor a.id (obsOp op r).1.fwd = visText (delivered (obsOp op r).1)) :
    (c08 { atts := [a], vis := v } (Cfg.ofRun r) op (obsOp op r).1).1 = true
    ∧ Inv (c08 { atts := [a], vis := v } (Cfg.ofRun r) op (obsOp op r).1).2 (obsOp op r).2
    ∧ isOpen (c08 { atts := [a], vis := v } (Cfg.ofRun r) op (obsOp op r).1).2 = nestNext (isOpen { atts := [a], vis := v }) op
    ∧ isSup (c08 { atts := [a], vis := v } (Cfg.ofRun r) op (obsOp op r).1).2 = supNext (isSup { atts := [a], vis := v }) op := by
  rw [c08_open_other _ _ _ _ _ hso, nestNext_other _ _ hso, supNext_other _ _ hso]
  have hvis : visOk v [upd a (Cfg.ofRun r) op (obsOp op r).1] (obsOp op r).1 = true :=
    visOk_single v _ _ F8
  have ht' := upd_text a (Cfg.ofRun r) op r fw ht F5
  have hatt : attOk (upd a (Cfg.ofRun r) op (obsOp op r).1) = true :=
    attOk_of_HB (upd a (Cfg.ofRun r) op (obsOp op r).1) _ _ ht' F6
  refine ⟨?_, ?_, rfl, rfl⟩
  · simp only [attached_ok a op r F5, hatt, hvis, Bool.and_self]
  · exact Inv.opened v (upd a (Cfg.ofRun r) op (obsOp op r).1) (obsOp op r).2 prev _ (F1.trans hf) F2 F3 F4 ht' F6 F7 hv

theorem bytesOf_nil : bytesOf [] = [] := rfl

/-- **one step of the monitor along the model**: the verdict is `true`, and the invariant and the
    bookkeeping of the two hypotheses move on -/
theorem step (m : StreamMon) (r : RunSt) (op : Op) (hinv : Inv m r)
    (hn : nestOk (isOpen m) op = true) (hq : quietOk (isSup m) op = true) :
    (c08 m (Cfg.ofRun r) op (obsOp op r).1).1 = true
    ∧ Inv (c08 m (Cfg.ofRun r) op (obsOp op r).1).2 (obsOp op r).2
    ∧ isOpen (c08 m (Cfg.ofRun r) op (obsOp op r).1).2 = nestNext (isOpen m) op
    ∧ isSup (c08 m (Cfg.ofRun r) op (obsOp op r).1).2 = supNext (isSup m) op := by
  cases hinv with
  | closed v r hf hs hb hp =>
    cases hso : isStreamOp op with
    | false =>
      -- nothing is attached: nothing is forwarded, the hold-back buffer stays empty
      have facts : (obsOp op r).2.streams = [] ∧ (obsOp op r).2.st.streams = []
          ∧ (obsOp op r).2.st.streambuf = [] ∧ (obsOp op r).2.st.fwd = [] ∧ PromptsOk (obsOp op r).2 := by
        cases hrd : isReading op with
        | true =>
          have he := eff r op hrd
          obtain ⟨h1, h2, h3, h4⟩ := he.closed hs
          refine ⟨he.streams.trans hf, h1, h2.trans hb, h3, ?_, ?_⟩
          · rw [h4]; exact hp.cur
          · rw [he.prompts]; exact hp.stack
        | false =>
          obtain ⟨h1, h2, h3, _, h5, _, h7⟩ := cfg_op r op hrd hso hp
          exact ⟨h1.trans hf, h2.trans hs, h3.trans hb, h5, h7⟩
      obtain ⟨g1, g2, g3, g4, g5⟩ := facts
      have hfwd : (obsOp op r).1.fwd = [] := by rw [obsOp_fwd, g4]; rfl
      rw [c08_closed_other _ _ _ _ hso hfwd, nestNext_other _ _ hso, supNext_other _ _ hso]
      exact ⟨rfl, Inv.closed v _ g1 g2 g3 g5, rfl, rfl⟩
    | true =>
      cases op with
      | streamEnter id sp =>
        have hfwd : (obsOp (.streamEnter id sp) r).1.fwd = [] := rfl
        rw [c08_closed_enter _ _ _ _ _ hfwd]
        refine ⟨rfl, ?_, rfl, by simp [isSup, supNext]⟩
        refine Inv.opened (v && sp) { id := id, showPrompt := sp, prompt := (Cfg.ofRun r).prompt } _ r.st.logPrompt [] ?_ ?_ rfl
          (fun _ => rfl) rfl ?_ ⟨hp.cur, hp.stack⟩ (fun h => (Bool.and_eq_true_iff.mp h).2)
        · show (id, r.st.logPrompt) :: r.streams = _
          rw [hf]
        · show r.st.streams ++ [id] = _
          rw [hs]; rfl
        · show HB sp (Cfg.ofRun r).prompt [] r.st.streambuf []
          rw [hb]; exact HB_init _ _
      | streamExit =>
        have h2 : (obsOp .streamExit r).2 = { r with st := cut r.st } := by
          rw [obsOp_snd]; simp [runOp, hf]
        have hfwd : (obsOp .streamExit r).1.fwd = [] := by rw [obsOp_fwd, h2]; rfl
        rw [c08_closed_exit _ _ _ hfwd, h2]
        exact ⟨rfl, Inv.closed v _ hf hs hb ⟨hp.cur, hp.stack⟩, rfl, rfl⟩
      | streamExitAt k => simp [nestOk] at hn
      | _ => simp [isStreamOp] at hso
  | opened v a r prev fw hf hs hlp hpr ht hb hp hv =>
    have hlpv : v = true → r.st.logPrompt = true := fun h => hlp.trans (hv h)
    -- the invariant in terms of the state's own mode and prompt
    have hbs : HB r.st.logPrompt r.st.prompt fw r.st.streambuf a.r := by
      rw [hlp]; exact HB_cast hb hpr
    have hsup : a.showPrompt = false → changesPrompt op = false := by
      intro h
      have : isSup { atts := [a], vis := v } = true := by simp [isSup, h]
      rw [this] at hq
      simpa [quietOk] using hq
    cases hso : isStreamOp op with
    | false =>
      cases hrd : isReading op with
      | true =>
        have he := eff r op hrd
        obtain ⟨h1, h2, h3, h4, h5⟩ := he.opened a.id hs fw a.r (fun h => hsup (by rw [← hlp]; exact h)) hbs
        refine step_open_other v a r prev fw op hso hv hf ht he.streams h1 (h2.trans hlp)
          (fun h => h3.trans (hpr h)) h4 ?_ ⟨by rw [h3]; exact hp.cur, by rw [he.prompts]; exact hp.stack⟩ ?_
        · rw [hlp] at h5
          exact HB_cast h5 (fun h => (hpr h).symm)
        · intro hvt
          have hvis := (he.vis (hlpv hvt)).1
          rw [obsOp_fwd, hvis, hs, fwdFor_visFwd a.id [a.id] _ (by simp)]
          simp
      | false =>
        -- the prompt changes: only allowed while nothing is suppressed
        have hshow : a.showPrompt = true := by
          cases h : a.showPrompt with
          | true => rfl
          | false => have := hsup h; rw [changesPrompt_of_cfg op hrd hso] at this; simp at this
        obtain ⟨h1, h2, h3, h4, h5, h6, h7⟩ := cfg_op r op hrd hso hp
        have hdel : delivered (obsOp op r).1 = [] := by rw [obsOp_delivered, h6]; rfl
        refine step_open_other v a r prev fw op hso hv hf ht h1 (h2.trans hs) (h4.trans hlp)
          (fun h => by rw [hshow] at h; simp at h) (by rw [h5]; simp) ?_ h7 ?_
        · rw [h5, h3, hdel, bytesOf_nil, List.append_nil, List.flatten_nil, List.append_nil]
          exact hb
        · intro _
          rw [obsOp_fwd, h5, hdel]
          rfl
    | true =>
      cases op with
      | streamEnter id sp => simp [nestOk, isOpen] at hn
      | streamExitAt k => simp [nestOk] at hn
      | streamExit =>
        have h2 : (obsOp .streamExit r).2 = { r with st := Chan.streamExit a.id prev (cut r.st), streams := [] } := by
          rw [obsOp_snd]; simp [runOp, hf]
        have hs' : (cut r.st).streams = [a.id] := hs
        have hfwd2 : (obsOp .streamExit r).2.st.fwd = exitFlush (cut r.st) := by rw [h2]; rfl
        have hids : ∀ e ∈ (obsOp .streamExit r).2.st.fwd, e.1 = a.id := by
          rw [hfwd2]; exact exitFlush_ids (cut r.st) a.id hs'
        have hdel0 : delivered (obsOp .streamExit r).1 = [] := by
          rw [obsOp_delivered, h2]; rfl
        have hdel : (delivered (obsOp .streamExit r).1).flatten = [] := by
          rw [hdel0]; rfl
        have ht' := upd_text a (Cfg.ofRun r) .streamExit r fw ht hids
        rw [hfwd2] at ht'
        have hr' : (upd a (Cfg.ofRun r) .streamExit (obsOp .streamExit r).1).r = a.r := by
          show a.r ++ _ = a.r
          rw [hdel, List.append_nil]
        have hbc : HB (cut r.st).logPrompt (cut r.st).prompt fw (cut r.st).streambuf a.r := hbs
        -- the flush is empty unless a regex prompt is suppressed
        have hnil : (a.showPrompt = true ∨ ∀ r0, a.prompt ≠ some (.re r0)) → exitFlush (cut r.st) = [] := by
          intro h
          apply exitFlush_nil_of_not_re
          cases hsp : a.showPrompt with
          | true => exact Or.inl (hlp.trans hsp)
          | false =>
            right
            intro r0 hr0
            rcases h with h | h
            · rw [hsp] at h; simp at h
            · exact h r0 ((hpr hsp).symm.trans hr0)
        have hpre : fw ++ bytesOf (exitFlush (cut r.st)) <+: a.r := by
          rw [hb.1]
          exact (List.prefix_append_right_inj fw).mpr (exitFlush_prefix (cut r.st) a.id hs')
        have hatt : attOk (upd a (Cfg.ofRun r) .streamExit (obsOp .streamExit r).1) = true := by
          refine attOk_of _ _ ht' (by rw [hr']; exact hpre) ?_ ?_ ?_
          · intro h
            have h' : a.showPrompt = true := h
            rw [hr', hnil (Or.inl h'), bytesOf_nil, List.append_nil]
            rw [h'] at hb; exact hb.all_of_show
          · intro h hpn
            have h' : a.showPrompt = false := h
            have hpn' : a.prompt = none := hpn
            rw [hr', hnil (Or.inr (fun r0 => by rw [hpn']; simp)), bytesOf_nil, List.append_nil]
            rw [hpn'] at hb; exact hb.all_of_noprompt.1
          · intro p h hpl
            have h' : a.showPrompt = false := h
            have hpl' : a.prompt = some (.lit p) := hpl
            rw [hr', hnil (Or.inr (fun r0 => by rw [hpl']; simp)), bytesOf_nil, List.append_nil]
            rw [h', hpl'] at hb
            rw [← hb.lit_len]
            have := congrArg List.length hb.1
            simp only [List.length_append] at this
            omega
        have hdet : detachOk (upd a (Cfg.ofRun r) .streamExit (obsOp .streamExit r).1) = true := by
          refine detachOk_of _ _ ht' ?_ ?_
          · intro h p hpl hend
            have h' : a.showPrompt = false := h
            have hpl' : a.prompt = some (.lit p) := hpl
            rw [hr'] at hend ⊢
            rw [hnil (Or.inr (fun r0 => by rw [hpl']; simp)), bytesOf_nil, List.append_nil]
            rw [h', hpl'] at hb
            exact (hb.lit_at_prompt hend).2.2
          · intro h r0 n e hpre0 hsearch
            have h' : a.showPrompt = false := h
            have hpre' : a.prompt = some (.re r0) := hpre0
            rw [hr'] at hsearch ⊢
            obtain ⟨r1, rfl⟩ := hp.cur r0 ((hpr h').trans hpre')
            rw [h', hpre'] at hb
            exact (exit_regex (cut r.st) a.id r1 fw a.r hs' (hlp.trans h') ((hpr h').trans hpre') hb).2 n e hsearch
        have hvis : visOk v [upd a (Cfg.ofRun r) .streamExit (obsOp .streamExit r).1] (obsOp .streamExit r).1 = true := by
          refine visOk_single v _ _ ?_
          intro hvt
          rw [obsOp_fwd, hfwd2, hnil (Or.inl (hv hvt)), hdel0]
          rfl
        have hatd := attached_ok a .streamExit r hids
        rw [c08_open_exit, h2]
        refine ⟨?_, ?_, rfl, rfl⟩
        · have := hatd
          simp only [this, hatt, hdet, hvis, Bool.or_true, Bool.and_self]
        · refine Inv.closed v _ rfl ?_ ?_ ⟨hp.cur, hp.stack⟩
          · show (cut r.st).streams.erase a.id = []
            rw [hs']; simp
          · exact exitKeep_nil (cut r.st) fw a.r hbc
      | _ => simp [isStreamOp] at hso

/-! ### whole cases -/

theorem fold_inv : ∀ (ops : List Op) (r : RunSt) (m : StreamMon), Good r.st → ops.all opOk = true → Inv m r →
    noNestingFrom (isOpen m) ops = true → quietFrom (isSup m) ops = true →
    foldOpsCM c08 m (Cfg.ofRun r) ops (runOps ops r).1 = true := by
  intro ops
  induction ops with
  | nil => intro r m _ _ _ _ _; rfl
  | cons op ops ih =>
    intro r m hg hops hinv hn hq
    simp only [List.all_cons, Bool.and_eq_true] at hops
    simp only [noNestingFrom, quietFrom, Bool.and_eq_true] at hn hq
    have hk := keeps r op hg hops.1
    obtain ⟨h1, h2, h3, h4⟩ := step m r op hinv hn.1 hq.1
    rw [(runOps_cons op ops r).1]
    unfold foldOpsCM
    generalize c08 m (Cfg.ofRun r) op (obsOp op r).1 = res at h1 h2 h3 h4
    obtain ⟨ok, m'⟩ := res
    simp only at h1 h2 h3 h4 ⊢
    rw [h1, Bool.true_and, ← hk.cfg]
    exact ih _ m' hk.good hops.2 h2 (by rw [h3]; exact hn.2) (by rw [h4]; exact hq.2)

end C08
