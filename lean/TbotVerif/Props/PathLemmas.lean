import TbotVerif.Spec.Path
/-! C12 helper lemmas: `str.split` / `join`, the parse ∘ format round trip, consistency of
    `PurePosixPath` objects (cached parts = parse of the raw paths). -/

namespace PathM

/-! ### split / join -/

theorem splitOn_ne_nil (c : Char) (s : Str) : splitOn c s ≠ [] := by
  induction s with
  | nil => simp [splitOn]
  | cons x t ih =>
    unfold splitOn
    split
    · simp
    · split <;> simp

theorem splitOn_cons_ne (c x : Char) (t : Str) (h : x ≠ c) :
    splitOn c (x :: t) = (match splitOn c t with
      | hd :: r => (x :: hd) :: r
      | [] => [[x]]) := by
  rw [splitOn, if_neg h]
  cases splitOn c t <;> rfl

theorem splitOn_self_free (c : Char) : ∀ (a : Str), c ∉ a → splitOn c a = [a]
  | [], _ => by simp [splitOn]
  | x :: t, h => by
    have hx : x ≠ c := fun e => h (by simp [e])
    have ht : c ∉ t := fun e => h (by simp [e])
    rw [splitOn_cons_ne c x t hx, splitOn_self_free c t ht]

theorem splitOn_append_sep (c : Char) : ∀ (a b : Str), c ∉ a →
    splitOn c (a ++ c :: b) = a :: splitOn c b
  | [], b, _ => by simp [splitOn]
  | x :: t, b, h => by
    have hx : x ≠ c := fun e => h (by simp [e])
    have ht : c ∉ t := fun e => h (by simp [e])
    show splitOn c (x :: (t ++ c :: b)) = _
    rw [splitOn_cons_ne c x _ hx, splitOn_append_sep c t b ht]

theorem splitOn_joinWith (c : Char) : ∀ (l : List Str), l ≠ [] → (∀ x ∈ l, c ∉ x) →
    splitOn c (joinWith c l) = l
  | [], h, _ => absurd rfl h
  | [a], _, hf => by simpa [joinWith] using splitOn_self_free c a (hf a (by simp))
  | a :: b :: t, _, hf => by
    show splitOn c (a ++ c :: joinWith c (b :: t)) = _
    rw [splitOn_append_sep c a _ (hf a (by simp)),
      splitOn_joinWith c (b :: t) (by simp) (fun x hx => hf x (by simp [hx]))]

theorem splitOn_mem_free (c : Char) : ∀ (s : Str) (x : Str), x ∈ splitOn c s → c ∉ x
  | [], x, h => by
    simp [splitOn] at h
    simp [h]
  | y :: t, x, h => by
    unfold splitOn at h
    split at h
    · rcases List.mem_cons.mp h with rfl | h'
      · simp
      · exact splitOn_mem_free c t x h'
    · rename_i hy
      split at h
      · rename_i hd r heq
        rcases List.mem_cons.mp h with rfl | h'
        · have := splitOn_mem_free c t hd (by rw [heq]; simp)
          intro hc
          rcases List.mem_cons.mp hc with e | e
          · exact hy e.symm
          · exact this e
        · exact splitOn_mem_free c t x (by rw [heq]; simp [h'])
      · simp at h
        subst h
        intro hc
        simp at hc
        exact hy hc.symm

/-! ### well-formed parsed parts -/

/-- the three roots `posixpath.splitroot` can produce -/
def GoodRoot (r : Str) : Prop := r = [] ∨ r = ['/'] ∨ r = ['/', '/']

/-- tail components of a parsed path: non-empty, no separator, not `'.'` -/
def GoodTail (t : List Str) : Prop := ∀ x ∈ t, x ≠ [] ∧ '/' ∉ x ∧ x ≠ ['.']

theorem splitroot_good (s : Str) : GoodRoot (splitroot s).1 := by
  unfold splitroot
  split
  · simp [GoodRoot]
  · split <;> simp [GoodRoot]

theorem parsePath_good (s : Str) : GoodRoot (parsePath s).1 ∧ GoodTail (parsePath s).2 := by
  constructor
  · exact splitroot_good s
  · intro x hx
    simp only [parsePath, List.mem_filter] at hx
    obtain ⟨hm, hp⟩ := hx
    have hfree := splitOn_mem_free '/' _ x hm
    simp only [Bool.and_eq_true, Bool.not_eq_eq_eq_not, Bool.not_true, List.isEmpty_eq_false_iff,
      bne_iff_ne, ne_eq] at hp
    exact ⟨hp.1, hfree, hp.2⟩

theorem joinWith_head (c : Char) (a : Str) (t : List Str) (x : Char) (r : Str) (ha : a = x :: r) :
    ∃ r', joinWith c (a :: t) = x :: r' := by
  subst ha
  cases t with
  | nil => exact ⟨r, rfl⟩
  | cons b t => exact ⟨r ++ c :: joinWith c (b :: t), rfl⟩

theorem filter_good (t : List Str) (h : GoodTail t) :
    t.filter (fun x => !x.isEmpty && x != ['.']) = t := by
  apply List.filter_eq_self.mpr
  intro x hx
  obtain ⟨h1, _, h3⟩ := h x hx
  simp [h1, h3]

/-- `_parse_path(_format_parsed_parts(root, tail)) = (root, tail)` for parsed parts -/
theorem parse_format_roundtrip (r : Str) (t : List Str) (hr : GoodRoot r) (ht : GoodTail t) :
    parsePath (formatParts r t) = (r, t) := by
  cases t with
  | nil =>
    rcases hr with rfl | rfl | rfl <;> simp [formatParts, joinWith, parsePath, splitroot, splitOn]
  | cons a rest =>
    obtain ⟨ha1, ha2, _⟩ := ht a (by simp)
    obtain ⟨x, ar, rfl⟩ : ∃ x ar, a = x :: ar := by
      cases a with
      | nil => exact absurd rfl ha1
      | cons x ar => exact ⟨x, ar, rfl⟩
    have hx : x ≠ '/' := fun e => ha2 (by simp [e])
    obtain ⟨J, hJ⟩ := joinWith_head '/' (x :: ar) rest x ar rfl
    have hsplit : splitOn '/' (joinWith '/' ((x :: ar) :: rest)) = (x :: ar) :: rest :=
      splitOn_joinWith '/' _ (by simp) (fun y hy => (ht y hy).2.1)
    have hfil := filter_good _ ht
    have hroot : splitroot (r ++ joinWith '/' ((x :: ar) :: rest))
        = (r, joinWith '/' ((x :: ar) :: rest)) := by
      rw [hJ]
      rcases hr with rfl | rfl | rfl
      · simp [splitroot, hx]
      · simp [splitroot, hx]
      · simp [splitroot, hx]
    simp only [parsePath, formatParts, hroot, hsplit, hfil]

/-! ### posixpath.join -/

theorem joinStep_nil (b : Str) : joinStep [] b = b := by
  unfold joinStep
  split <;> simp

theorem joinRaw_single (x : Str) : joinRaw [x] = x := by
  simp [joinRaw, joinStep_nil]

theorem startsSlash_joinStep (acc b : Str) (hb : startsSlash b = false) :
    startsSlash (joinStep acc b) = startsSlash acc := by
  unfold joinStep
  rw [hb]
  cases acc with
  | nil => simpa [startsSlash] using hb
  | cons a r => simp only [Bool.false_eq_true, ↓reduceIte]; split <;> simp [startsSlash]

/-- the joined path starts with `/` iff some segment does -/
theorem startsSlash_foldl : ∀ (l : List Str) (acc : Str),
    startsSlash (l.foldl joinStep acc) = (startsSlash acc || l.any startsSlash)
  | [], acc => by simp
  | b :: t, acc => by
    rw [List.foldl_cons, startsSlash_foldl t]
    simp only [List.any_cons]
    cases hb : startsSlash b with
    | true => simp [joinStep, hb]
    | false => rw [startsSlash_joinStep acc b hb]; simp

theorem startsSlash_iff_root (s : Str) : startsSlash s = !(splitroot s).1.isEmpty := by
  unfold splitroot startsSlash
  by_cases h : s.head? = some '/'
  · simp only [h, bne_self_eq_false, Bool.false_eq_true, ↓reduceIte, beq_self_eq_true]
    split <;> simp
  · simp [h]


/-! ### consistency of `PurePosixPath` objects -/

/-- the cached `(root, tail)` is what `_load_parts` would compute from `_raw_paths` -/
def PP.Consistent (p : PP) : Prop := p = PP.ofRaw p.raw

theorem ofRaw_consistent (raw : List Str) : (PP.ofRaw raw).Consistent := rfl

theorem consistent_good {p : PP} (h : p.Consistent) : GoodRoot p.root ∧ GoodTail p.tail := by
  rw [h]
  exact parsePath_good _

theorem fromParsed_consistent (r : Str) (t : List Str) (hr : GoodRoot r) (ht : GoodTail t) :
    (PP.fromParsed r t).Consistent := by
  simp only [PP.Consistent, PP.fromParsed, PP.ofRaw, joinRaw_single, parse_format_roundtrip r t hr ht]

theorem new_consistent {args : List PArg} {p : PP} (h : PP.new args = .ok p) : p.Consistent := by
  unfold PP.new at h
  cases hc : PP.collectRaw args with
  | error e => simp [hc, bind, Except.bind] at h
  | ok raw =>
    simp only [hc, bind, Except.bind, pure, Except.pure, Except.ok.injEq] at h
    subst h
    exact ofRaw_consistent raw

theorem GoodTail.sublist {t u : List Str} (h : GoodTail t) (hs : ∀ x ∈ u, x ∈ t) : GoodTail u :=
  fun x hx => h x (hs x hx)

theorem GoodTail.dropLast {t : List Str} (h : GoodTail t) : GoodTail t.dropLast :=
  h.sublist fun _ hx => List.dropLast_subset _ hx

theorem GoodTail.take {t : List Str} (h : GoodTail t) (n : Nat) : GoodTail (t.take n) :=
  h.sublist fun _ hx => List.mem_of_mem_take hx

theorem GoodTail.snoc {t : List Str} (h : GoodTail t) {x : Str} (h1 : x ≠ []) (h2 : '/' ∉ x)
    (h3 : x ≠ ['.']) : GoodTail (t ++ [x]) := by
  intro y hy
  rcases List.mem_append.mp hy with hy | hy
  · exact h y hy
  · simp only [List.mem_singleton] at hy
    subst hy
    exact ⟨h1, h2, h3⟩

theorem name_mem {p : PP} (h : p.name ≠ []) : p.name ∈ p.tail := by
  unfold PP.name at *
  cases hl : p.tail.getLast? with
  | none => simp [hl] at h
  | some x =>
    simp only [Option.getD_some]
    exact List.mem_of_getLast? hl

theorem parent_consistent {p : PP} (h : p.Consistent) : p.parent.Consistent := by
  unfold PP.parent
  split
  · exact h
  · exact fromParsed_consistent _ _ (consistent_good h).1 (consistent_good h).2.dropLast

theorem parentsGet_consistent {p r : PP} {i : Int} (h : p.Consistent)
    (hr : p.parentsGet i = .ok r) : r.Consistent := by
  unfold PP.parentsGet at hr
  simp only at hr
  split at hr
  · simp at hr
  · simp only [Except.ok.injEq] at hr
    subst hr
    exact fromParsed_consistent _ _ (consistent_good h).1 ((consistent_good h).2.take _)

theorem withName_consistent {p r : PP} {n : Str} (h : p.Consistent)
    (hr : p.withName n = .ok r) : r.Consistent := by
  unfold PP.withName at hr
  split at hr
  · simp at hr
  · split at hr
    · simp at hr
    · rename_i hn
      simp only [Except.ok.injEq] at hr
      subst hr
      simp only [Bool.or_eq_true, List.isEmpty_iff, List.contains_eq_mem, decide_eq_true_eq,
        beq_iff_eq, not_or] at hn
      exact fromParsed_consistent _ _ (consistent_good h).1
        ((consistent_good h).2.dropLast.snoc hn.1.1 hn.1.2 hn.2)

/-! ### suffix / stem -/

theorem splitLastDot_eq : ∀ (s pre post : Str), splitLastDot s = some (pre, post) →
    s = pre ++ '.' :: post
  | [], _, _, h => by simp [splitLastDot] at h
  | c :: t, pre, post, h => by
    unfold splitLastDot at h
    split at h
    · rename_i pre' post' heq
      simp only [Option.some.injEq, Prod.mk.injEq] at h
      obtain ⟨rfl, rfl⟩ := h
      have := splitLastDot_eq t pre' post' heq
      simp [this]
    · split at h
      · rename_i hc
        simp only [Option.some.injEq, Prod.mk.injEq] at h
        obtain ⟨rfl, rfl⟩ := h
        simp [hc]
      · simp at h

/-- `name[:-len(suffix)]` is the stem, and it is non-empty when there is a suffix -/
theorem take_suffix (name : Str) (h : PP.suffixOf name ≠ []) :
    name.take (name.length - (PP.suffixOf name).length) = PP.stemOf name ∧ PP.stemOf name ≠ [] := by
  unfold PP.suffixOf PP.stemOf at *
  cases hs : splitLastDot name with
  | none => simp [hs] at h
  | some v =>
    obtain ⟨pre, post⟩ := v
    simp only [hs] at h ⊢
    have he := splitLastDot_eq name pre post hs
    split
    · rename_i hc
      simp only [Bool.and_eq_true, Bool.not_eq_eq_eq_not, Bool.not_true, List.isEmpty_eq_false_iff] at hc
      subst he
      refine ⟨?_, hc.1⟩
      simp
    · rename_i hc
      simp [hc] at h

theorem withSuffix_ok {p r : PP} {s : Str} (hr : p.withSuffix s = .ok r) :
    p.name ≠ [] ∧ '/' ∉ s ∧
      r = PP.fromParsed p.root (p.tail.dropLast ++
        [(if p.suffix = [] then p.name else PP.stemOf p.name) ++ s]) := by
  unfold PP.withSuffix at hr
  split at hr
  · simp at hr
  · rename_i hs
    split at hr
    · simp at hr
    · simp only at hr
      split at hr
      · simp at hr
      · rename_i hn
        simp only [Except.ok.injEq] at hr
        subst hr
        simp only [List.contains_eq_mem, decide_eq_true_eq] at hs
        simp only [List.isEmpty_iff] at hn
        refine ⟨hn, hs, ?_⟩
        by_cases ho : p.suffix = []
        · simp [ho]
        · have := (take_suffix p.name ho).1
          simp only [PP.suffix] at ho ⊢
          simp [ho, this]

/-- `with_suffix` keeps objects consistent, except for the quirk `suffix == ''` on stem `'.'` -/
theorem withSuffix_inconsistent_iff {p r : PP} {s : Str} (h : p.Consistent)
    (hr : p.withSuffix s = .ok r) :
    ¬ r.Consistent ↔ (s = [] ∧ PP.stemOf p.name = ['.']) := by
  obtain ⟨hn, hs, rfl⟩ := withSuffix_ok hr
  obtain ⟨hroot, htail⟩ := consistent_good h
  obtain ⟨n1, n2, n3⟩ := htail _ (name_mem hn)
  constructor
  · intro hnc
    apply Classical.byContradiction
    intro hq
    apply hnc
    apply fromParsed_consistent _ _ hroot
    by_cases ho : p.suffix = []
    · simp only [ho, ↓reduceIte]
      refine htail.dropLast.snoc (by simp [hn]) ?_ ?_
      · simp [n2, hs]
      · intro he
        cases hnm : p.name with
        | nil => exact hn hnm
        | cons a rest =>
          rw [hnm] at he
          simp only [List.cons_append, List.cons.injEq, List.append_eq_nil_iff] at he
          apply n3
          rw [hnm, he.1, he.2.1]
    · obtain ⟨ht1, ht2⟩ := take_suffix p.name ho
      simp only [ho, ↓reduceIte]
      refine htail.dropLast.snoc (by simp [ht2]) ?_ ?_
      · rw [← ht1]
        intro hm
        rcases List.mem_append.mp hm with hm | hm
        · exact n2 (List.mem_of_mem_take hm)
        · exact hs hm
      · intro he
        cases hst : PP.stemOf p.name with
        | nil => exact ht2 hst
        | cons a rest =>
          rw [hst] at he
          simp only [List.cons_append, List.cons.injEq, List.append_eq_nil_iff] at he
          apply hq
          refine ⟨he.2.2, ?_⟩
          rw [hst, he.1, he.2.1]
  · rintro ⟨rfl, hst⟩ hc
    have hgood := (consistent_good hc).2
    have hne : p.suffix ≠ [] := by
      intro ho
      simp only [PP.suffix, PP.suffixOf, PP.stemOf] at ho hst
      cases hs' : splitLastDot p.name with
      | none => simp [hs'] at hst; exact n3 hst
      | some v =>
        obtain ⟨pre, post⟩ := v
        simp only [hs'] at ho hst
        split at hst
        · rename_i hc'; simp [hc'] at ho
        · exact n3 hst
    simp only [PP.fromParsed, hne, ↓reduceIte, hst, List.append_nil] at hgood
    exact (hgood ['.'] (by simp)).2.2 rfl

theorem withSuffix_consistent {p r : PP} {s : Str} (h : p.Consistent)
    (hq : ¬ (s = [] ∧ PP.stemOf p.name = ['.'])) (hr : p.withSuffix s = .ok r) : r.Consistent :=
  Classical.byContradiction fun hn => hq ((withSuffix_inconsistent_iff h hr).mp hn)

end PathM
