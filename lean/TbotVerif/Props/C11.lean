import TbotVerif.Props.FilesWrite
import TbotVerif.Props.FilesText
import TbotVerif.Props.FilesB64
/-! C11 — file contents written through a `Path` are read back identically.

    The model run `Files.run cd c pw pr` composes the channel model with the remote model: the
    remote's answers (`writeAns1`, `respStatus`) are cut into pieces by ARBITRARY size lists
    `pw`, `pr` (every fragmentation that respects causality: no piece spans data the remote sends
    before and after `echo $?` is typed), the file is what `Remote.session` makes of the bytes the
    write REALLY typed.  Theorems: for every codec satisfying `CodecOk`, every well-formed case,
    every `pw`, `pr` the observation satisfies `Spec.C11`; in particular `write_bytes d` leaves
    `d` in the file, returns `|d|`, and `read_bytes` returns `d`; `write_text t` for `t` in the
    domain leaves `encode t` and `read_text` returns `t`.

    Not modelled (hypotheses of the correspondence, see `harness/c11.py`): the tty's 4095-byte
    line limit (the Spec's domain keeps every line below it, the model's tty has no limit). -/

namespace C11
open Files Chan Shell C05 C02 C03 Spec

/-! ### cutting an answer into pieces -/

theorem cutBy_spec : ∀ (ps : List Nat) (b : Bytes), (cutBy ps b).flatten = b ∧ ∀ p ∈ cutBy ps b, p ≠ [] := by
  intro ps
  induction ps with
  | nil =>
    intro b
    cases b with
    | nil => simp [cutBy]
    | cons x t => simp [cutBy]
  | cons n ns ih =>
    intro b
    cases b with
    | nil => simp [cutBy]
    | cons x t =>
      unfold cutBy
      by_cases hn : n = 0
      · simp only [hn, if_true]; exact ih _
      · simp only [hn, if_false, List.flatten_cons, List.mem_cons]
        obtain ⟨h1, h2⟩ := ih ((x :: t).drop n)
        refine ⟨by rw [h1, List.take_append_drop], ?_⟩
        intro p hp
        rcases hp with rfl | hp
        · intro hc
          have := congrArg List.length hc
          simp only [List.length_take, List.length_cons, List.length_nil] at this
          omega
        · exact h2 p hp

/-! ### facts about the regenerated tables -/

theorem blTable_bash : BlTable Params.bashBlacklist :=
  ⟨by decide +kernel, by decide +kernel, by decide +kernel, by decide +kernel⟩

theorem blTable_ash : BlTable Params.ashBlacklist :=
  ⟨by decide +kernel, by decide +kernel, by decide +kernel, by decide +kernel⟩

theorem blTable (c : Files.Case) : BlTable (blacklist c) := by
  unfold blacklist; split
  · exact blTable_ash
  · exact blTable_bash

def statusClass (c : Byte) : Bool := c == 48 || c == 13 || c == 10

theorem promptOk_of (ps1 : Bytes) (h : ∃ c ∈ ps1, statusClass c = false) : PromptOk ps1 :=
  ⟨by obtain ⟨c, hc, _⟩ := h; exact List.ne_nil_of_mem hc,
   noEarly_of_class statusClass ps1 [48, 13, 10] (by decide) h⟩

theorem promptOk (c : Files.Case) : PromptOk (prompt c) := by
  unfold prompt; split
  · exact promptOk_of _ ⟨84, by decide, by decide⟩
  · exact promptOk_of _ ⟨84, by decide, by decide⟩

/-- both prompts contain `-`, which is neither a base64 symbol nor CR / LF -/
theorem promptClass (c : Files.Case) : ∃ x ∈ prompt c, b64Echo x = false := by
  unfold prompt; split
  · exact ⟨45, by decide, by decide +kernel⟩
  · exact ⟨45, by decide, by decide +kernel⟩

theorem ss_init (c : Files.Case) (hc : 0 < c.chunk) : SS (Files.initSt c) (prompt c) (blacklist c) [] 0 [] [] :=
  { chunk := hc, slice := (by decide : 0 < Params.sendSliceSize), prompt := rfl, bl := rfl, slow := rfl
    wf := by intro p hp; simp [Files.initSt] at hp
    flat := rfl, deaths := rfl, lit := by intro r hr; simp at hr, nd := rfl, tx := rfl }

structure WfFacts (c : Files.Case) : Prop where
  chunk : 0 < c.chunk
  cr : Tty.CR ∉ c.path
  forb : forbidden (blacklist c) c.path = false

theorem wf_facts (c : Files.Case) (h : c.wf = true) : WfFacts c := by
  unfold Case.wf at h
  simp only [Bool.and_eq_true, Bool.not_eq_true', decide_eq_true_eq] at h
  obtain ⟨⟨⟨⟨⟨h1, _⟩, h3⟩, _⟩, h5⟩, _⟩ := h
  exact ⟨h5, by simpa using h1, h3⟩

/-! ### bytes -/

theorem lines_end (ls : List Bytes) (h : ls ≠ []) : ∃ pre, ls.flatMap (· ++ [(13 : Byte)]) = pre ++ [13] := by
  induction ls with
  | nil => exact absurd rfl h
  | cons l ls ih =>
    cases ls with
    | nil => exact ⟨l, by simp⟩
    | cons l' ls' =>
      obtain ⟨pre, hpre⟩ := ih (by simp)
      exact ⟨l ++ [13] ++ pre, by rw [List.flatMap_cons, hpre]; simp⟩

theorem fin_lines (ls : List Bytes) : Remote.fin (ls.flatMap (· ++ [(13 : Byte)])) = [EOT] := by
  unfold Remote.fin
  by_cases h : ls = []
  · subst h; rfl
  · obtain ⟨pre, hpre⟩ := lines_end ls h
    rw [hpre]
    have : endsInNl (pre ++ [13]) = true := by
      unfold endsInNl
      rw [List.getLast?_concat]
      rfl
    simp [this]

theorem eot_not_lines (ls : List Bytes) (h : ∀ l ∈ ls, ∀ c ∈ l, isB64 c = true) : EOT ∉ ls.flatMap (· ++ [(13 : Byte)]) := by
  intro hm
  simp only [List.mem_flatMap, List.mem_append, List.mem_singleton] at hm
  obtain ⟨l, hl, hm | hm⟩ := hm
  · have := h l hl EOT hm
    have h4 : isB64 EOT = false := by decide +kernel
    rw [h4] at this; cases this
  · exact absurd hm (by decide)

/-- the lines `write_bytes` sends -/
abbrev linesOf (cd : Codec) (d : Bytes) : List Bytes := chunksOf Params.b64LineLen (cd.enc d)

theorem linesOf_b64 (cd : Codec) (hcd : CodecOk cd) (d : Bytes) : ∀ l ∈ linesOf cd d, ∀ c ∈ l, isB64 c = true :=
  fun l hl c hc => hcd.alphabet d c (chunksOf_mem _ _ l hl c hc)

/-- decoding lines of `enc d` joined by CR or LF gives `d` -/
theorem dec_lines (cd : Codec) (hcd : CodecOk cd) (d : Bytes) (n : Nat) (hn : 0 < n) (nl : Byte) (hnl : nl = 13 ∨ nl = 10) :
    cd.dec ((chunksOf n (cd.enc d)).flatMap (· ++ [nl])) = d := by
  rw [← hcd.skipNl, filter_lines _ nl hnl (fun l hl c hc => hcd.alphabet d c (chunksOf_mem _ _ l hl c hc)),
    chunksOf_flatten n hn, hcd.roundtrip]

/-- **T-bytes/write.**  For every codec with the base64 properties, every well-formed case with
    byte data `d` and EVERY fragmentation `pw`: `write_bytes` returns `|d|`; what it typed is a
    session the remote model accepts, after which the file holds exactly `d`; and the answers the
    channel model consumed are the ones the remote model gives to what was typed. -/
theorem write_bytes_spec (cd : Codec) (hcd : CodecOk cd) (c : Files.Case) (d : Bytes) (hd : c.data = .bytes d)
    (hwf : c.wf = true) (pw : List Nat) :
    ∃ s', runWrite cd c pw = (.ok d.length, s') ∧ written s' = writeTyped cd c
      ∧ Remote.session cd (prompt c) (written s')
          = some ⟨c.path, d, writeAns1 cd c, respStatus false (prompt c) 0⟩ := by
  have hw := wf_facts c hwf
  have hls := linesOf_b64 cd hcd d
  have hbody : writeBody cd c = (linesOf cd d).flatMap (· ++ [13]) ++ Remote.fin ((linesOf cd d).flatMap (· ++ [13])) := by
    unfold writeBody; rw [hd, fin_lines]; rfl
  have hline : writeLine c = b64TeeLine c.path := by unfold writeLine; rw [hd]
  have hecho : Remote.echoTyped (writeBody cd c) = Tty.echo false ((linesOf cd d).flatMap (· ++ [13])) := by
    rw [hbody]
    unfold Remote.echoTyped
    rw [List.filter_append, Remote.filter_eot_self _ (eot_not_lines _ hls), Remote.filter_eot_fin]
    simp
  have hans : writeAns1 cd c = Tty.echo false (b64TeeLine c.path ++ [13])
      ++ Tty.echo false ((linesOf cd d).flatMap (· ++ [13])) ++ prompt c := by
    unfold writeAns1; rw [hline, hecho]; rfl
  obtain ⟨ha1, hn1⟩ := cutBy_spec (splitSizes pw (writeAns1 cd c).length).1 (writeAns1 cd c)
  obtain ⟨ha2, hn2⟩ := cutBy_spec (splitSizes pw (writeAns1 cd c).length).2 (respStatus false (prompt c) 0)
  obtain ⟨s', hrun, htx⟩ := writeBytes_ok cd hcd c.path d _ _ (ss_init c hw.chunk) (blTable c) (promptOk c) (promptClass c)
    hw.forb (ha1.trans hans) hn1 ha2 hn2
  have htyped : written s' = writeTyped cd c := by
    rw [htx]
    unfold writeTyped
    rw [hline, hbody, fin_lines]
    simp [Tty.CR, List.append_assoc]
  refine ⟨s', ?_, htyped, ?_⟩
  · unfold runWrite
    simp only [hd]
    exact hrun
  · rw [htyped]
    unfold writeTyped
    rw [hline, hbody]
    have := Remote.session_tee cd (prompt c) (b64TeeLine c.path) c.path true ((linesOf cd d).flatMap (· ++ [13]))
      (cr_b64TeeLine _ hw.cr) (Remote.printfCmd_b64TeeLine _) (Remote.teeCmd_b64TeeLine _) (eot_not_lines _ hls)
    simp only [List.append_assoc] at this ⊢
    rw [this]
    simp only [if_true, Option.some.injEq, Remote.Outcome.mk.injEq, true_and]
    refine ⟨?_, ?_, trivial⟩
    · rw [input_lines _ hls]
      exact dec_lines cd hcd d _ (by decide) 10 (Or.inr rfl)
    · rw [hans]; simp [Tty.CR, List.append_assoc]

theorem mem_cook (x : Bytes) (c : Byte) (h : c ∈ Tty.cook x) : c ∈ x ∨ c = 13 := by
  unfold Tty.cook at h
  simp only [List.mem_flatMap] at h
  obtain ⟨y, hy, hc⟩ := h
  split at hc
  · rename_i hlf
    simp only [List.mem_cons, List.not_mem_nil, or_false, Tty.CR, Tty.LF] at hc
    rcases hc with rfl | rfl
    · exact Or.inr rfl
    · exact Or.inl (by have : y = 10 := eq_of_beq hlf; rw [← this]; exact hy)
  · simp only [List.mem_singleton] at hc
    exact Or.inl (by rw [hc]; exact hy)

theorem b64Out_class (cd : Codec) (hcd : CodecOk cd) (f : Bytes) : ∀ c ∈ Remote.b64Out cd f, isB64 c = true ∨ c = 10 := by
  intro c hc
  unfold Remote.b64Out at hc
  simp only [List.mem_flatMap, List.mem_append, List.mem_singleton] at hc
  obtain ⟨l, hl, hc | hc⟩ := hc
  · exact Or.inl (hcd.alphabet f c (chunksOf_mem _ _ l hl c hc))
  · exact Or.inr hc

/-- **T-bytes/read.**  For every file content `f` and EVERY fragmentation `pr`: `read_bytes` returns `f`. -/
theorem read_bytes_spec (cd : Codec) (hcd : CodecOk cd) (c : Files.Case) (d f : Bytes) (hd : c.data = .bytes d)
    (hwf : c.wf = true) (pr : List Nat) : (runRead cd c f pr).1 = .bytes f := by
  have hw := wf_facts c hwf
  have hcls := b64Out_class cd hcd f
  have hout : NoEarly (prompt c) (Tty.cook (Remote.b64Out cd f)) := by
    apply noEarly_of_class b64Echo _ _ _ (promptClass c)
    intro x hx
    unfold b64Echo
    rcases mem_cook _ x hx with h | h
    · rcases hcls x h with h | h
      · simp [h]
      · simp [h]
    · simp [h]
  obtain ⟨ha1, hn1⟩ := cutBy_spec (splitSizes pr (respCmd false (prompt c) (b64Line c.path) (Remote.b64Out cd f)).length).1
    (respCmd false (prompt c) (b64Line c.path) (Remote.b64Out cd f))
  obtain ⟨ha2, hn2⟩ := cutBy_spec (splitSizes pr (respCmd false (prompt c) (b64Line c.path) (Remote.b64Out cd f)).length).2
    (respStatus false (prompt c) 0)
  obtain ⟨s', hrun⟩ := readBytes_ok cd c.path f _ _ (ss_init c hw.chunk) (blTable c) (promptOk c) hw.forb hout ha1 hn1 ha2 hn2
  have hascii : ∀ b ∈ Remote.b64Out cd f, b.toNat < 128 := by
    intro b hb
    rcases hcls b hb with h | h
    · exact (isB64_facts b h).1
    · rw [h]; decide
  have hcr : Tty.CR ∉ Remote.b64Out cd f := by
    intro hm
    rcases hcls _ hm with h | h
    · exact (isB64_facts _ h).2.1 rfl
    · exact absurd h (by decide)
  unfold runRead
  simp only [hd, hrun, valOfRes]
  rw [ascii_text _ hascii hcr]
  unfold Remote.b64Out
  rw [dec_lines cd hcd f Remote.toolWrap (by decide) Tty.LF (Or.inr rfl)]

/-- **T-bytes.**  `write_bytes d` followed by `read_bytes`, under every fragmentation of both
    conversations: the write reports `|d|`, the file holds `d`, the read returns `d`, and what was
    typed during the write is exactly the intended byte sequence. -/
theorem bytes_roundtrip (cd : Codec) (hcd : CodecOk cd) (c : Files.Case) (d : Bytes) (hd : c.data = .bytes d)
    (hwf : c.wf = true) (pw pr : List Nat) :
    (Files.run cd c pw pr).ret = .n d.length ∧ (Files.run cd c pw pr).file = some d ∧ (Files.run cd c pw pr).back = .bytes d
      ∧ (Files.run cd c pw pr).txW = writeTyped cd c := by
  obtain ⟨s', hrun, htx, hsess⟩ := write_bytes_spec cd hcd c d hd hwf pw
  have hread := read_bytes_spec cd hcd c d d hd hwf pr
  unfold Files.run
  simp only [hrun, hsess, valOfRes]
  cases hr : runRead cd c d pr with
  | mk rr sr =>
    rw [hr] at hread
    simp only at hread
    exact ⟨trivial, trivial, hread, htx⟩

/-! ### text -/

theorem echo_eq_cook (e : Bytes) (h : Tty.CR ∉ e) : Tty.echo false e = Tty.cook e := by
  induction e with
  | nil => rfl
  | cons c e ih =>
    have hc : (c == Tty.CR) = false := by
      cases hh : c == Tty.CR with
      | false => rfl
      | true => exact absurd (by rw [eq_of_beq hh]; simp) h
    have e1 : Tty.echo false (c :: e) = Tty.echo1 false c ++ Tty.echo false e := by simp [Tty.echo]
    have e2 : Tty.cook (c :: e) = (if c == Tty.LF then [Tty.CR, Tty.LF] else [c]) ++ Tty.cook e := by simp [Tty.cook]
    rw [e1, e2, ih (fun hm => h (List.mem_cons_of_mem _ hm))]
    congr 1
    unfold Tty.echo1
    simp [hc]

/-- what the text domain of the Spec gives the proofs -/
structure TextFacts (c : Files.Case) (t : List Char) : Prop where
  cr : Tty.CR ∉ enc t
  forb : forbidden (blacklist c) (enc t) = false
  quiet : ¬ prompt c <:+: Tty.echo false (enc t)
  early : NoEarly (prompt c) (Tty.cook (enc t))

theorem text_facts (c : Files.Case) (t : List Char) (h : textOk c t = true) : TextFacts c t := by
  unfold textOk at h
  simp only [Bool.and_eq_true, Bool.not_eq_true', decide_eq_true_eq] at h
  obtain ⟨⟨⟨⟨h1, h2⟩, _⟩, _⟩, h5⟩ := h
  have hcr : Tty.CR ∉ enc t := by simpa using h1
  have hp := (promptOk c).ne
  have hns : ¬ prompt c <:+: (Tty.cook (enc t) ++ prompt c).dropLast := by
    intro ⟨x, y, hxy⟩
    have := findSub_complete (prompt c) y x
    rw [hxy] at this
    unfold containsSub at h5
    rw [this] at h5
    cases h5
  refine ⟨hcr, h2, ?_, ?_⟩
  · rw [echo_eq_cook _ hcr]
    intro hin
    apply hns
    rw [List.dropLast_append_of_ne_nil hp]
    exact List.IsInfix.trans hin ⟨[], (prompt c).dropLast, by simp⟩
  · intro k hk hle hsuf
    apply Classical.byContradiction
    intro hne
    apply hns
    have hlt : k ≤ (Tty.cook (enc t) ++ prompt c).length - 1 := by omega
    rw [List.dropLast_eq_take]
    have : (Tty.cook (enc t) ++ prompt c).take k
        = ((Tty.cook (enc t) ++ prompt c).take ((Tty.cook (enc t) ++ prompt c).length - 1)).take k := by
      rw [List.take_take, Nat.min_eq_left hlt]
    rw [this] at hsuf
    exact List.IsInfix.trans hsuf.isInfix (List.take_prefix _ _).isInfix

theorem writeAns1_text_slow (cd : Codec) (c : Files.Case) (t : List Char) (hd : c.data = .text t)
    (hfast : fastPath (enc t) = false) (heot : EOT ∉ enc t) :
    writeAns1 cd c = Tty.echo false (teeLine c.path ++ [13]) ++ Tty.echo false (enc t) ++ prompt c := by
  unfold writeAns1 writeLine writeBody
  simp only [hd, hfast, Bool.false_eq_true, if_false]
  unfold Remote.echoTyped
  rw [List.filter_append, Remote.filter_eot_self _ heot, Remote.filter_eot_fin]
  simp [Tty.CR]

theorem writeAns1_text_fast (cd : Codec) (c : Files.Case) (t : List Char) (hd : c.data = .text t)
    (hfast : fastPath (enc t) = true) :
    writeAns1 cd c = Tty.echo false (printfLine c.path (enc t) ++ [13]) ++ prompt c := by
  unfold writeAns1 writeLine writeBody
  simp only [hd, hfast, if_true]
  simp [Remote.echoTyped, Tty.echo, Tty.CR]

/-- **T-text/write.**  For every well-formed case with a text `t` of the domain and EVERY
    fragmentation `pw`: `write_text` returns the length (bytes on the `tee` path, characters on
    the `printf` path), what it typed is a session the remote model accepts, after which the file
    holds exactly `encode t`. -/
theorem write_text_spec (cd : Codec) (c : Files.Case) (t : List Char) (hd : c.data = .text t) (hwf : c.wf = true)
    (hdom : textOk c t = true) (pw : List Nat) :
    ∃ s', runWrite cd c pw = (.ok (if fastPath (enc t) then t.length else (enc t).length), s')
      ∧ written s' = writeTyped cd c
      ∧ Remote.session cd (prompt c) (written s')
          = some ⟨c.path, enc t, writeAns1 cd c, respStatus false (prompt c) 0⟩ := by
  have hw := wf_facts c hwf
  have ht := text_facts c t hdom
  have heot : EOT ∉ enc t := (blTable c).eotNot _ ht.forb
  obtain ⟨ha1, hn1⟩ := cutBy_spec (splitSizes pw (writeAns1 cd c).length).1 (writeAns1 cd c)
  obtain ⟨ha2, hn2⟩ := cutBy_spec (splitSizes pw (writeAns1 cd c).length).2 (respStatus false (prompt c) 0)
  cases hfast : fastPath (enc t) with
  | false =>
    have hans := writeAns1_text_slow cd c t hd hfast heot
    obtain ⟨s', hrun, htx⟩ := writeText_slow_ok c.path t _ _ (ss_init c hw.chunk) (blTable c) (promptOk c) hfast hw.forb
      ht.forb ht.quiet (ha1.trans hans) hn1 ha2 hn2
    have htyped : written s' = writeTyped cd c := by
      rw [htx]
      unfold writeTyped writeLine writeBody
      simp [hd, hfast, Tty.CR, List.append_assoc]
    refine ⟨s', ?_, htyped, ?_⟩
    · unfold runWrite
      simp only [hd, Bool.false_eq_true, if_false]
      exact hrun
    · rw [htyped]
      unfold writeTyped writeLine writeBody
      simp only [hd, hfast, Bool.false_eq_true, if_false]
      have := Remote.session_tee cd (prompt c) (teeLine c.path) c.path false (enc t)
        (cr_teeLine _ hw.cr) (Remote.printfCmd_teeLine _) (Remote.teeCmd_teeLine _) heot
      simp only [List.append_assoc] at this ⊢
      rw [this]
      simp only [Bool.false_eq_true, if_false, Option.some.injEq, Remote.Outcome.mk.injEq, true_and]
      refine ⟨Remote.input_id _ ht.cr, ?_, trivial⟩
      rw [hans]; simp [Tty.CR, List.append_assoc]
  | true =>
    have hans := writeAns1_text_fast cd c t hd hfast
    obtain ⟨s', hrun, htx⟩ := writeText_fast_ok c.path t _ _ (ss_init c hw.chunk) (blTable c) (promptOk c) hfast hw.forb
      ht.forb (ha1.trans hans) hn1 ha2 hn2
    have htyped : written s' = writeTyped cd c := by
      rw [htx]
      unfold writeTyped writeLine writeBody
      simp [hd, hfast, Tty.CR, List.append_assoc]
    refine ⟨s', ?_, htyped, ?_⟩
    · unfold runWrite
      simp only [hd, if_true]
      exact hrun
    · rw [htyped]
      unfold writeTyped writeLine writeBody
      simp only [hd, hfast, if_true, List.append_nil]
      have := Remote.session_printf cd (prompt c) c.path (enc t) (cr_printfLine _ _ hw.cr ht.cr)
      rw [this, hans]
      simp [Tty.CR]

/-- **T-text/read.**  `read_text` of a file holding `encode t`, `t` in the domain, under EVERY
    fragmentation: returns `t`. -/
theorem read_text_spec (cd : Codec) (c : Files.Case) (t : List Char) (hd : c.data = .text t) (hwf : c.wf = true)
    (hdom : textOk c t = true) (pr : List Nat) : (runRead cd c (enc t) pr).1 = .text t := by
  have hw := wf_facts c hwf
  have ht := text_facts c t hdom
  obtain ⟨ha1, hn1⟩ := cutBy_spec (splitSizes pr (respCmd false (prompt c) (catLine c.path) (enc t)).length).1
    (respCmd false (prompt c) (catLine c.path) (enc t))
  obtain ⟨ha2, hn2⟩ := cutBy_spec (splitSizes pr (respCmd false (prompt c) (catLine c.path) (enc t)).length).2
    (respStatus false (prompt c) 0)
  obtain ⟨s', hrun⟩ := readText_ok c.path (enc t) _ _ (ss_init c hw.chunk) (blTable c) (promptOk c) hw.forb ht.early
    ha1 hn1 ha2 hn2
  unfold runRead
  simp only [hd, hrun, valOfRes]
  rw [text_cook_enc t (cr_char_of_enc t ht.cr)]

/-- **T-text.**  `write_text t` followed by `read_text`, `t` in the domain (incl. `""`, no final
    newline, only newlines, multi-line non-ASCII), under every fragmentation of both
    conversations: the file holds `encode t`, the read returns `t`. -/
theorem text_roundtrip (cd : Codec) (c : Files.Case) (t : List Char) (hd : c.data = .text t) (hwf : c.wf = true)
    (hdom : textOk c t = true) (pw pr : List Nat) :
    (Files.run cd c pw pr).ret = .n (if fastPath (enc t) then t.length else (enc t).length)
      ∧ (Files.run cd c pw pr).file = some (enc t) ∧ (Files.run cd c pw pr).back = .text t
      ∧ (Files.run cd c pw pr).txW = writeTyped cd c := by
  obtain ⟨s', hrun, htx, hsess⟩ := write_text_spec cd c t hd hwf hdom pw
  have hread := read_text_spec cd c t hd hwf hdom pr
  unfold Files.run
  simp only [hrun, hsess, valOfRes]
  cases hr : runRead cd c (enc t) pr with
  | mk rr sr =>
    rw [hr] at hread
    simp only at hread
    exact ⟨trivial, trivial, hread, htx⟩

/-! ### forbidden text, and the Spec for all cases -/

theorem send_illegal (buf : Bytes) (s : St) (h : forbidden s.blacklist buf = true) :
    send buf true none false s = (.error .illegal, s) := by
  unfold send
  have hne : buf.isEmpty = false := by
    cases buf with
    | nil => simp [forbidden] at h
    | cons _ _ => rfl
  simp [hne, h]

/-- **a text with a byte the shell forbids is rejected** with `IllegalDataException`, whatever the
    fragmentation (on the `printf` path before anything is sent; on the `tee` path after `tee` was
    started — the call leaves it running, see the report). -/
theorem text_forbidden (cd : Codec) (c : Files.Case) (t : List Char) (hd : c.data = .text t) (hwf : c.wf = true)
    (hforb : forbidden (blacklist c) (enc t) = true) (pw pr : List Nat) :
    (Files.run cd c pw pr).ret = .err "illegal" := by
  have hw := wf_facts c hwf
  obtain ⟨x, hxbl, hxe⟩ := (C03.forbidden_iff _ _).mp hforb
  obtain ⟨_, hsq, hdq, _⟩ := (blTable c).sp x hxbl
  have hret : (runWrite cd c pw).1 = .error (.chan .illegal) := by
    unfold runWrite
    simp only [hd]
    unfold writeText
    cases hfast : fastPath (enc t) with
    | true =>
      simp only [hfast, if_true]
      have hfl : forbidden (blacklist c) (printfLine c.path (enc t) ++ [13]) = true := by
        rw [C03.forbidden_iff]
        refine ⟨x, hxbl, ?_⟩
        rw [printfLine_eq]
        simp only [List.mem_append, List.mem_cons]
        exact Or.inl (Or.inr (Or.inr (Or.inr (Or.inr (Or.inl ((mem_shlexQuote x hsq hdq _).mpr hxe))))))
      unfold exec0Fed sendline
      rw [send_illegal _ _ (by simpa [feed, Files.initSt] using hfl)]
    | false =>
      simp only [hfast, Bool.false_eq_true, if_false]
      obtain ⟨ha1, hn1⟩ := cutBy_spec (splitSizes pw (writeAns1 cd c).length).1 (writeAns1 cd c)
      have hf := ss_feed _ (ss_init c hw.chunk) hn1
      have hans : writeAns1 cd c = Tty.echo false (teeLine c.path ++ [13])
          ++ (Remote.echoTyped (writeBody cd c) ++ prompt c) := by
        unfold writeAns1 writeLine
        simp [hd, hfast, Tty.CR, List.append_assoc]
      rw [ha1.trans hans] at hf
      simp only [List.nil_append] at hf
      obtain ⟨px, s1, h1, _, hss1⟩ := runEnter_ok (teeLine c.path) _ hf (promptOk c) (forb_teeLine (blTable c) _ hw.forb)
      simp only [h1]
      rw [send_illegal _ _ (by rw [hss1.bl]; exact hforb)]
  unfold Files.run
  cases hr : runWrite cd c pw with
  | mk rw sw =>
    rw [hr] at hret
    simp only at hret
    subst hret
    rfl

/-- **C11.**  For every codec with the base64 properties, every case and EVERY fragmentation of
    the two conversations, the model's observation satisfies the specification. -/
theorem spec_holds (cd : Codec) (hcd : CodecOk cd) (c : Files.Case) (pw pr : List Nat) :
    Spec.C11 c (Files.run cd c pw pr) = true := by
  unfold Spec.C11
  cases hwf : c.wf with
  | false => rfl
  | true =>
    simp only [Bool.not_true, Bool.false_or]
    unfold spec
    cases hd : c.data with
    | bytes d =>
      obtain ⟨h1, h2, h3, _⟩ := bytes_roundtrip cd hcd c d hd hwf pw pr
      simp only [h1, h2, h3, beq_self_eq_true, Bool.and_self]
    | text t =>
      simp only
      cases hforb : forbidden (blacklist c) (enc t) with
      | true =>
        simp only [if_true]
        rw [text_forbidden cd c t hd hwf hforb pw pr]
        simp
      | false =>
        simp only [Bool.false_eq_true, if_false]
        cases hdom : textOk c t with
        | false => simp
        | true =>
          simp only [if_true]
          obtain ⟨h1, h2, h3, _⟩ := text_roundtrip cd c t hd hwf hdom pw pr
          simp only [h1, h2, h3, beq_self_eq_true, Bool.true_and]
          cases fastPath (enc t) <;> simp

/-! ### the concrete codec, non-vacuity, witnesses -/

/-- C11 for the codec the driver runs -/
theorem spec_holds_b64 (c : Files.Case) (pw pr : List Nat) : Spec.C11 c (Files.run b64 c pw pr) = true :=
  spec_holds b64 b64_ok c pw pr

/-- `write_bytes d ; read_bytes` with the concrete codec, for EVERY byte string and fragmentation -/
theorem bytes_roundtrip_b64 (c : Files.Case) (d : Bytes) (hd : c.data = .bytes d) (hwf : c.wf = true) (pw pr : List Nat) :
    (Files.run b64 c pw pr).ret = .n d.length ∧ (Files.run b64 c pw pr).file = some d
      ∧ (Files.run b64 c pw pr).back = .bytes d :=
  let ⟨h1, h2, h3, _⟩ := bytes_roundtrip b64 b64_ok c d hd hwf pw pr
  ⟨h1, h2, h3⟩

/-- a multi-line, non-ASCII text without final newline, into a file whose name needs quoting, on
    dash with 3-byte reads: well-formed and in the domain -/
def exText : Files.Case :=
  { ash := true, chunk := 3, data := .text "hé\nwörld ✓".toList, path := str "/tmp/it's a file" }

example : exText.wf = true ∧ textOk exText "hé\nwörld ✓".toList = true ∧ fastPath (enc "hé\nwörld ✓".toList) = false := by
  decide +kernel

/-- … and the theorem applied to it with a 1-byte / 2-byte / 5-byte fragmentation -/
example : (Files.run b64 exText [1, 2, 5, 1, 1, 700] [2, 2, 2]).back = .text "hé\nwörld ✓".toList :=
  (text_roundtrip b64 exText _ rfl (by decide +kernel) (by decide +kernel) _ _).2.2.1

/-- all 256 byte values, on bash -/
def exBytes : Files.Case :=
  { ash := false, chunk := 4096, data := .bytes ((List.range 256).map UInt8.ofNat), path := str "/tmp/f" }

example : exBytes.wf = true := by decide +kernel

example : (Files.run b64 exBytes [7, 7, 7] []).file = some ((List.range 256).map UInt8.ofNat) :=
  (bytes_roundtrip_b64 exBytes _ rfl (by decide +kernel) _ _).2.1

/-- empty text, only newlines, the empty byte string -/
example : textOk { exText with data := .text [] } [] = true ∧ textOk exText ['\n', '\n'] = true := by decide +kernel

/-- the double-EOF rule is needed: after text without a final newline a single `^D` only flushes the
    line, `tee` goes on reading and swallows `echo $?` — the session never completes -/
example : Remote.ttyRead [] ([97, 98, EOT] ++ (echoStatusLine ++ [Tty.CR])) = none := by decide +kernel
example : Remote.ttyRead [] ([97, 98, EOT, EOT] ++ (echoStatusLine ++ [Tty.CR])) = some ([97, 98], echoStatusLine ++ [Tty.CR]) := by
  decide +kernel

/-- the domain condition "the prompt does not occur in the text" is needed: such a text makes
    `run()`'s death string fire on the echo, `write_text` raises `CommandEndedException` -/
example : (Files.run b64 { exText with ash := false, data := .text ('x' :: '\n' :: (Params.bashPrompt.map toChar) ++ ['\n']) }
    [] []).ret = .err ("death/1/" ++ Bytes.toHex Params.bashPrompt) := by decide +kernel

/-! ### `tee` cannot open the file (state machine only)

    `tee` prints `tee: <path>: Is a directory`, keeps reading, exits with status 1.  `write_bytes`
    sees the message through its death string, stops sending, sends `^D` and `terminate0()` raises
    `CommandFailure`; `write_text` (no death string since the repair) sends everything and
    `terminate0()` raises `CommandFailure` — neither call hangs. -/

def teeErr : Bytes := str "tee: /d: Is a directory\r\n"

example :
    let ps1 := Params.bashPrompt
    let d : Bytes := [1, 2, 3]
    let a1 := Tty.echo false (b64TeeLine (str "/d") ++ [13]) ++ teeErr
      ++ Tty.echo false ((chunksOf Params.b64LineLen (b64enc d)).flatMap (· ++ [13])) ++ ps1
    valOfRes Val.n (writeBytes b64 ps1 (str "/d") d (cutBy [50, 3] a1) (cutBy [] (respStatus false ps1 1))
      (Files.initSt { ash := false, chunk := 4096, data := .bytes d, path := str "/d" })).1 = .err "command-failure" := by
  decide +kernel

example :
    let ps1 := Params.ashPrompt
    let t := "a\nb".toList
    let a1 := Tty.echo false (teeLine (str "/d") ++ [13]) ++ teeErr ++ Tty.echo false (enc t) ++ ps1
    valOfRes Val.n (writeText ps1 (str "/d") t (cutBy [9, 9, 9] a1) (cutBy [] (respStatus false ps1 1))
      (Files.initSt { ash := true, chunk := 4096, data := .text t, path := str "/d" })).1 = .err "command-failure" := by
  decide +kernel

end C11
