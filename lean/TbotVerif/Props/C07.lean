import TbotVerif.Spec.Own
namespace C07
theorem placeholder : True := trivial
end C07
