import TbotVerif.Spec.Own
/-! C07 — the `_c`-slot model refines the ownership reference automaton for every history. -/

namespace C07
open Own Spec.C07

def statusOf : Slot → Status
  | .io => .access | .borrowed => .lent | .taken => .taken

/-- simulation relation between the slot model and the reference automaton -/
structure Rel (s : St) (r : Ref) : Prop where
  status : r.status = s.handles.map fun x => statusOf x.slot
  cfgs : r.cfgs = s.handles.map (·.cfg)
  frames : r.frames = s.frames.map fun f => (f.1, statusOf f.2)
  closed : r.closed = s.ioClosed
  calls : r.closeCalls = s.closeCalls

theorem rel_init : Rel {} {} := by constructor <;> rfl

theorem status_get {s : St} {r : Ref} (h : Rel s r) (i : Nat) :
    r.status[i]? = (s.handles[i]?).map fun x => statusOf x.slot := by
  rw [h.status, List.getElem?_map]

theorem cfg_get {s : St} {r : Ref} (h : Rel s r) (i : Nat) :
    r.cfgs[i]? = (s.handles[i]?).map (·.cfg) := by
  rw [h.cfgs, List.getElem?_map]

theorem len_eq {s : St} {r : Ref} (h : Rel s r) : r.status.length = s.handles.length := by
  rw [h.status, List.length_map]

theorem map_setSlot (hs : List Handle) (i : Nat) (sl : Slot) (x : Handle) (hx : hs[i]? = some x) :
    (setSlot hs i sl).map (fun y => statusOf y.slot) = setAt (hs.map fun y => statusOf y.slot) i (statusOf sl) := by
  unfold setSlot setAt
  rw [hx]
  simp [List.map_set]

theorem map_setSlot_cfg (hs : List Handle) (i : Nat) (sl : Slot) :
    (setSlot hs i sl).map (·.cfg) = hs.map (·.cfg) := by
  unfold setSlot
  cases hx : hs[i]? with
  | none => rfl
  | some x =>
    simp only [List.map_set]
    apply List.ext_getElem?
    intro j
    rw [List.getElem?_set]
    split
    · rename_i hij; subst hij
      split
      · simp [List.getElem?_map, hx]
      · rename_i hlt
        simp only [List.length_map] at hlt
        have : hs[i]? = none := by simp [List.getElem?_eq_none_iff]; omega
        rw [this] at hx; simp at hx
    · rfl

theorem setSlot_length (hs : List Handle) (i : Nat) (sl : Slot) : (setSlot hs i sl).length = hs.length := by
  unfold setSlot; split <;> simp

theorem setSlot_none (hs : List Handle) (i : Nat) (sl : Slot) (hx : hs[i]? = none) : setSlot hs i sl = hs := by
  unfold setSlot; rw [hx]

theorem map_setCfg_status (hs : List Handle) (i : Nat) (f : HCfg → HCfg) :
    (setCfg hs i f).map (fun y => statusOf y.slot) = hs.map fun y => statusOf y.slot := by
  unfold setCfg
  cases hx : hs[i]? with
  | none => rfl
  | some x =>
    simp only [List.map_set]
    apply List.ext_getElem?
    intro j
    rw [List.getElem?_set]
    split
    · rename_i hij; subst hij
      split
      · simp [List.getElem?_map, hx]
      · rename_i hlt
        simp only [List.length_map] at hlt
        have : hs[i]? = none := by simp [List.getElem?_eq_none_iff]; omega
        rw [this] at hx; simp at hx
    · rfl

theorem map_setCfg_cfg (hs : List Handle) (i : Nat) (f : HCfg → HCfg) (x : Handle) (hx : hs[i]? = some x) :
    (setCfg hs i f).map (·.cfg) = setAt (hs.map (·.cfg)) i (f x.cfg) := by
  unfold setCfg setAt
  rw [hx]
  simp [List.map_set]

/-- one step: the reference automaton accepts what the slot model does, and the relation is kept -/
theorem step_ok (s : St) (r : Ref) (op : Op) (h : Rel s r) :
    let o : Obs := { res := (step s op).1, ioClosed := (step s op).2.ioClosed, closeCalls := (step s op).2.closeCalls }
    lenient r op o = none ∧
    ((expect r op = none ∧ (step s op).1 = .badop ∧ (step s op).2 = s) ∨
     ∃ r', expect r op = some ((step s op).1, r') ∧ Rel (step s op).2 r') := by
  intro o
  have hst := status_get h
  have hcf := cfg_get h
  cases op with
  | io i =>
    refine ⟨rfl, ?_⟩
    cases hx : s.handles[i]? with
    | none => left; simp [step, expect, hst, hx]
    | some x =>
      right
      obtain ⟨sl, c⟩ := x
      refine ⟨r, ?_, ?_⟩
      · cases sl <;> simp [step, expect, hst, hx, statusOf]
      · cases sl <;> simpa [step, hx] using h
  | closed i =>
    refine ⟨rfl, ?_⟩
    cases hx : s.handles[i]? with
    | none => left; simp [step, expect, hst, hx]
    | some x =>
      right
      obtain ⟨sl, c⟩ := x
      refine ⟨r, ?_, ?_⟩
      · cases sl <;> simp [step, expect, hst, hx, statusOf, h.closed]
      · cases sl <;> simpa [step, hx] using h
  | close i =>
    refine ⟨rfl, ?_⟩
    cases hx : s.handles[i]? with
    | none => left; simp [step, expect, hst, hx]
    | some x =>
      right
      obtain ⟨sl, c⟩ := x
      cases sl
      · refine ⟨{ r with closed := true, closeCalls := r.closeCalls + 1 }, by simp [step, expect, hst, hx, statusOf], ?_⟩
        simp only [step, hx]
        exact { status := h.status, cfgs := h.cfgs, frames := h.frames, closed := rfl,
                calls := by simp [h.calls] }
      · exact ⟨r, by simp [step, expect, hst, hx, statusOf], by simpa [step, hx] using h⟩
      · exact ⟨r, by simp [step, expect, hst, hx, statusOf], by simpa [step, hx] using h⟩
  | exit i =>
    refine ⟨rfl, ?_⟩
    cases hx : s.handles[i]? with
    | none => left; simp [step, expect, hst, hx]
    | some x =>
      right
      obtain ⟨sl, c⟩ := x
      cases sl
      · cases hcl : s.ioClosed
        · refine ⟨{ r with closed := true, closeCalls := r.closeCalls + 1 },
            by simp [step, expect, hst, hx, statusOf, h.closed, hcl], ?_⟩
          simp only [step, hx, hcl]
          exact { status := h.status, cfgs := h.cfgs, frames := h.frames, closed := rfl,
                  calls := by simp [h.calls] }
        · exact ⟨r, by simp [step, expect, hst, hx, statusOf, h.closed, hcl], by simpa [step, hx, hcl] using h⟩
      · exact ⟨r, by simp [step, expect, hst, hx, statusOf], by simpa [step, hx] using h⟩
      · exact ⟨r, by simp [step, expect, hst, hx, statusOf], by simpa [step, hx] using h⟩
  | borrowEnter i =>
    cases hx : s.handles[i]? with
    | none =>
      refine ⟨?_, Or.inl ?_⟩
      · simp [lenient, o, step, hx]
      · simp [step, expect, hst, hx]
    | some x =>
      obtain ⟨sl, c⟩ := x
      cases sl
      · -- io: a new handle is created
        refine ⟨?_, Or.inr ?_⟩
        · simp [lenient, o, step, hx, hst, statusOf]
        · simp only [step, expect, hst, hcf, hx, Option.map_some]
          refine ⟨{ r with status := setAt r.status i .lent ++ [.access], cfgs := r.cfgs ++ [c],
                           frames := (i, .access) :: r.frames }, ?_, ?_⟩
          · rw [setSlot_length, len_eq h]; rfl
          · exact {
              status := by
                simp only [List.map_append, List.map_cons, List.map_nil]
                rw [map_setSlot _ _ _ _ hx, h.status]; rfl
              cfgs := by
                simp only [List.map_append, List.map_cons, List.map_nil]
                rw [map_setSlot_cfg, h.cfgs]
              frames := by simp [h.frames, statusOf]
              closed := h.closed, calls := h.calls }
      · refine ⟨?_, Or.inr ⟨r, ?_, ?_⟩⟩
        · simp [lenient, o, step, hx]
        · simp [step, expect, hst, hx, statusOf]
        · simpa [step, hx] using h
      · refine ⟨?_, Or.inr ⟨r, ?_, ?_⟩⟩
        · simp [lenient, o, step, hx]
        · simp [step, expect, hst, hx, statusOf]
        · simpa [step, hx] using h
  | borrowExit =>
    refine ⟨rfl, ?_⟩
    cases hf : s.frames with
    | nil =>
      left
      simp [step, expect, h.frames, hf]
    | cons f fs =>
      right
      obtain ⟨i, saved⟩ := f
      simp only [step, expect, h.frames, hf, List.map_cons]
      refine ⟨_, rfl, ?_⟩
      cases hx : s.handles[i]? with
      | none =>
        exact {
          status := by
            rw [setSlot_none _ _ _ hx]
            simp only [setAt]
            rw [h.status]
            rw [List.set_eq_of_length_le]
            simp only [List.length_map]
            exact (List.getElem?_eq_none_iff.mp hx)
          cfgs := by rw [setSlot_none _ _ _ hx]; exact h.cfgs
          frames := rfl, closed := h.closed, calls := h.calls }
      | some x =>
        exact {
          status := by rw [map_setSlot _ _ _ x hx, h.status]
          cfgs := by rw [map_setSlot_cfg]; exact h.cfgs
          frames := rfl, closed := h.closed, calls := h.calls }
  | take i =>
    cases hx : s.handles[i]? with
    | none =>
      refine ⟨?_, Or.inl ?_⟩
      · simp [lenient, o, step, hx]
      · simp [step, expect, hst, hx]
    | some x =>
      obtain ⟨sl, c⟩ := x
      cases sl
      · -- io: a new handle is created
        refine ⟨?_, Or.inr ?_⟩
        · simp [lenient, o, step, hx, hst, statusOf]
        · simp only [step, expect, hst, hcf, hx, Option.map_some]
          refine ⟨{ r with status := setAt r.status i .taken ++ [.access], cfgs := r.cfgs ++ [c] }, ?_, ?_⟩
          · rw [setSlot_length, len_eq h]; rfl
          · exact {
              status := by
                simp only [List.map_append, List.map_cons, List.map_nil]
                rw [map_setSlot _ _ _ _ hx, h.status]; rfl
              cfgs := by
                simp only [List.map_append, List.map_cons, List.map_nil]
                rw [map_setSlot_cfg, h.cfgs]
              frames := h.frames
              closed := h.closed, calls := h.calls }
      · refine ⟨?_, Or.inr ⟨r, ?_, ?_⟩⟩
        · simp [lenient, o, step, hx]
        · simp [step, expect, hst, hx, statusOf]
        · simpa [step, hx] using h
      · refine ⟨?_, Or.inr ⟨r, ?_, ?_⟩⟩
        · simp [lenient, o, step, hx]
        · simp [step, expect, hst, hx, statusOf]
        · simpa [step, hx] using h
  | setPrompt i p => exact cfgStep s r h i _ (.setPrompt i p) rfl rfl (fun _ => rfl)
  | setBlacklist i b => exact cfgStep s r h i _ (.setBlacklist i b) rfl rfl (fun _ => rfl)
  | addDeath i d e => exact cfgStep s r h i _ (.addDeath i d e) rfl rfl (fun _ => rfl)
  | setSlow i d k => exact cfgStep s r h i _ (.setSlow i d k) rfl rfl (fun _ => rfl)
  | getCfg i =>
    refine ⟨rfl, ?_⟩
    simp only [step, expect, hcf]
    cases hx : s.handles[i]? with
    | none => left; simp
    | some x => right; exact ⟨r, by simp, h⟩
where
  cfgStep (s : St) (r : Ref) (h : Rel s r) (i : Nat) (f : HCfg → HCfg) (op : Op)
      (hstep : step s op = if i < s.handles.length then (.ok, { s with handles := setCfg s.handles i f }) else (.badop, s))
      (hexp : expect r op = (r.cfgs[i]?).map fun c => (.ok, { r with cfgs := setAt r.cfgs i (f c) }))
      (hlen : ∀ o, lenient r op o = none) :
      let o : Obs := { res := (step s op).1, ioClosed := (step s op).2.ioClosed, closeCalls := (step s op).2.closeCalls }
      lenient r op o = none ∧
      ((expect r op = none ∧ (step s op).1 = .badop ∧ (step s op).2 = s) ∨
       ∃ r', expect r op = some ((step s op).1, r') ∧ Rel (step s op).2 r') := by
    intro o
    refine ⟨hlen o, ?_⟩
    rw [hstep, hexp, cfg_get h]
    cases hx : s.handles[i]? with
    | none =>
      left
      have : ¬ i < s.handles.length := by
        have := List.getElem?_eq_none_iff.mp hx; omega
      simp [this]
    | some x =>
      right
      have hlt : i < s.handles.length := by
        rcases Nat.lt_or_ge i s.handles.length with hl | hl
        · exact hl
        · have := List.getElem?_eq_none_iff.mpr hl; rw [this] at hx; simp at hx
      simp only [hlt, if_true, Option.map_some]
      refine ⟨_, rfl, ?_⟩
      exact {
        status := by rw [map_setCfg_status]; exact h.status
        cfgs := by rw [map_setCfg_cfg _ _ _ x hx, h.cfgs]
        frames := h.frames, closed := h.closed, calls := h.calls }

/-- **C07.**  For every history of calls on any handles, what the slot-swapping model shows is
    exactly what the ownership property demands. -/
theorem run_refines : ∀ (ops : List Op) (s : St) (r : Ref), Rel s r → check r ops (run s ops) = true := by
  intro ops
  induction ops with
  | nil => intro s r _; rfl
  | cons op ops ih =>
    intro s r h
    obtain ⟨hlen, hstep⟩ := step_ok s r op h
    simp only [run, check]
    rw [hlen]
    rcases hstep with ⟨he, hb, hs⟩ | ⟨r', he, hr⟩
    · simp only [he, hb]
      rw [hs]
      simpa using ih s r h
    · simp only [he]
      have := ih _ r' hr
      simp [this, hr.closed, hr.calls]

theorem c07 (ops : List Op) : Spec.C07 ops (run {} ops) = true :=
  run_refines ops {} {} rel_init

/-- non-vacuity: a history with a nested borrow, a take inside it, calls on stale handles -/
example : Spec.C07 [.borrowEnter 0, .io 0, .take 1, .io 1, .io 2, .borrowExit, .io 0, .closed 1, .close 1, .close 2]
    (run {} [.borrowEnter 0, .io 0, .take 1, .io 1, .io 2, .borrowExit, .io 0, .closed 1, .close 1, .close 2]) = true := by
  decide

end C07
