import TbotVerif.Props.RunSend
/-! C10 — the read-type calls of the proxy (`expect`, `read_until_prompt`, `read_until_timeout`)
    at the level of one channel operation: progress, and what a returned value is. -/

namespace Run
open Chan Spec

/-- the timeout argument of a read-type call -/
def opTimeout : Op → Option (Option Nat)
  | .expect _ t => some t
  | .rup _ t => some t
  | .rut t => some t
  | _ => none

/-- progress of a read-type call when everything pending has arrived -/
theorem reading_z (r : RunSt) (op : Op) (t : Option Nat) (hop : opTimeout op = some t) (ht : t ≠ some 0)
    (hz : Z r.st) :
    Z (obsOp op r).2.st
    ∧ (∀ e, (obsOp op r).1.res = .err e → quietErr e = true → (obsOp op r).2.st.script = [])
    ∧ (t = none → (obsOp op r).1.res ≠ .err .timeout)
    ∧ (t.isSome = true → (obsOp op r).1.res ≠ .err .hang) := by
  have hzc : Z (C03.cut r.st) := hz
  cases op with
  | expect ps t' =>
    simp only [opTimeout, Option.some.injEq] at hop
    subst hop
    have h := expectLoop_z (fuelFor (C03.cut r.st)) ps [] (riStart none t' (C03.cut r.st)) (C03.cut r.st) hzc
      (noExp_start none t' _ ht)
    rw [obsOp_res, obsOp_snd]
    simp only [runOp, C05.cutR, expect]
    cases hr : expectLoop (fuelFor (C03.cut r.st)) ps [] (riStart none t' (C03.cut r.st)) (C03.cut r.st) with
    | mk res s' =>
      rw [hr] at h
      cases res with
      | ok x => exact ⟨h.1, by intro e he; simp at he, by intro _ hh; simp at hh, by intro _ hh; simp at hh⟩
      | error e =>
        refine ⟨h.1, ?_, ?_, ?_⟩
        · intro e' he' hq
          simp only [OpRes.err.injEq] at he'
          subst he'
          exact h.2.1 e rfl hq
        · intro hn hh
          simp only [OpRes.err.injEq] at hh
          subst hh
          exact h.2.2.1 hn rfl
        · intro hn hh
          simp only [OpRes.err.injEq] at hh
          subst hh
          exact h.2.2.2 hn rfl
  | rup q t' =>
    simp only [opTimeout, Option.some.injEq] at hop
    subst hop
    have h := readUntilPrompt_z q t' (C03.cut r.st) hzc ht
    rw [obsOp_res, obsOp_snd]
    simp only [runOp, C05.cutR]
    cases hr : readUntilPrompt q t' (C03.cut r.st) with
    | mk res s' =>
      rw [hr] at h
      cases res with
      | ok x => obtain ⟨b, full⟩ := x; exact ⟨h.1, by intro e he; simp at he, by intro _ hh; simp at hh, by intro _ hh; simp at hh⟩
      | error e =>
        refine ⟨h.1, ?_, ?_, ?_⟩
        · intro e' he' hq
          simp only [OpRes.err.injEq] at he'
          subst he'
          exact h.2.1 e rfl hq
        · intro hn hh
          simp only [OpRes.err.injEq] at hh
          subst hh
          exact h.2.2.1 hn rfl
        · intro hn hh
          simp only [OpRes.err.injEq] at hh
          subst hh
          exact h.2.2.2 hn rfl
  | rut t' =>
    simp only [opTimeout, Option.some.injEq] at hop
    subst hop
    have h := readUntilTimeout_z t' (C03.cut r.st) hzc ht
    rw [obsOp_res, obsOp_snd]
    simp only [runOp, C05.cutR]
    cases hr : readUntilTimeout t' (C03.cut r.st) with
    | mk res s' =>
      rw [hr] at h
      cases res with
      | ok x => exact ⟨h.1, by intro e he; simp at he, by intro _ hh; simp at hh, by intro _ hh; simp at hh⟩
      | error e =>
        refine ⟨h.1, ?_, ?_, ?_⟩
        · intro e' he' hq
          simp only [OpRes.err.injEq] at he'
          subst he'
          exact h.2.1 e rfl hq
        · intro _ hh
          simp only [OpRes.err.injEq] at hh
          subst hh
          exact h.2.2.1 rfl
        · intro hn hh
          simp only [OpRes.err.injEq] at hh
          subst hh
          exact h.2.2.2 hn rfl
  | _ => simp [opTimeout] at hop

/-- the kinds of result a read-type call can have -/
inductive ReadRes (val : TRes → Bytes → Bool) (o : _root_.OpObs) : Prop
  | quiet (e : Exc) : o.res = .err e → quietErr e = true → ReadRes val o
  | death (x : Nat) (m : Bytes) : o.res = .err (.death x m) → ReadRes val o
  | value : (∀ e, o.res ≠ .err e) → val (resOf o.res) (delivered o).flatten = true → ReadRes val o

theorem expect_res (r : RunSt) (ps : List Pat) (t : Option Nat) (hg : C03.Good r.st) :
    ReadRes (Ref.valExpect ps) (obsOp (.expect ps t) r).1 := by
  have h := C04.expect_spec r ps t hg.wf hg.chunk
  unfold Spec.c04 at h
  simp only at h
  cases hres : (obsOp (.expect ps t) r).1.res with
  | expect i before m after =>
    rw [hres] at h
    simp only [Bool.and_eq_true] at h
    obtain ⟨_, h2⟩ := h
    refine .value (by intro e he; rw [hres] at he; simp at he) ?_
    rw [hres]
    simp only [resOf, Ref.valExpect]
    cases hp : ps[i]? with
    | none => rw [hp] at h2; simp at h2
    | some p =>
      rw [hp] at h2
      simp only at h2 ⊢
      cases hs : p.search (delivered (obsOp (.expect ps t) r).1).flatten with
      | none => rw [hs] at h2; simp at h2
      | some v =>
        obtain ⟨a, e⟩ := v
        rw [hs] at h2
        simp only [Bool.and_eq_true, beq_iff_eq, decide_eq_true_eq] at h2 ⊢
        obtain ⟨⟨⟨⟨⟨_, hb⟩, ha⟩, hm⟩, _⟩, _⟩ := h2
        exact ⟨⟨hb, by rw [hm]⟩, ha⟩
  | err e =>
    rw [hres] at h
    cases e with
    | timeout => exact .quiet _ hres rfl
    | hang => exact .quiet _ hres rfl
    | death x m => exact .death x m hres
    | illegal => simp at h
    | assertion => simp at h
    | fuel => simp at h
  | unit => rw [hres] at h; simp at h
  | bytes b => rw [hres] at h; simp at h
  | chunks cs e => rw [hres] at h; simp at h
  | text t' => rw [hres] at h; simp at h
  | badop => rw [hres] at h; simp at h

theorem rup_res (r : RunSt) (q : Option Pat) (t : Option Nat) (hg : C03.Good r.st) :
    ReadRes (Ref.valRup (effPrompt q r.st.prompt)) (obsOp (.rup q t) r).1 := by
  have h := C02.rup_spec r q t hg.wf hg.chunk
  unfold Spec.c02 at h
  simp only [Bool.and_eq_true] at h
  obtain ⟨h, _⟩ := h
  unfold Spec.c02Op at h
  simp only at h
  have hcfg : (Cfg.ofRun r).prompt = r.st.prompt := rfl
  rw [hcfg] at h
  cases hres : (obsOp (.rup q t) r).1.res with
  | text out =>
    rw [hres] at h
    simp only at h
    refine .value (by intro e he; rw [hres] at he; simp at he) ?_
    rw [hres]
    simp only [resOf, Ref.valRup]
    cases hP : effPrompt q r.st.prompt with
    | none => rw [hP] at h; simp at h
    | some P =>
      rw [hP] at h
      simp only at h ⊢
      cases hpe : promptEnd P (delivered (obsOp (.rup q t) r).1).flatten with
      | none => rw [hpe] at h; simp at h
      | some n =>
        rw [hpe] at h
        simp only [Bool.and_eq_true, beq_iff_eq] at h ⊢
        exact h.1
  | err e =>
    rw [hres] at h
    cases e with
    | timeout => exact .quiet _ hres rfl
    | hang => exact .quiet _ hres rfl
    | death x m => exact .death x m hres
    | illegal => simp at h
    | assertion => simp at h
    | fuel => simp at h
  | unit => rw [hres] at h; simp at h
  | bytes b => rw [hres] at h; simp at h
  | chunks cs e => rw [hres] at h; simp at h
  | expect i b m a => rw [hres] at h; simp at h
  | badop => rw [hres] at h; simp at h

theorem rut_res (r : RunSt) (t : Option Nat) (hg : C03.Good r.st) (hz : Z r.st) (ht : t ≠ some 0) :
    ReadRes (Ref.valRut t) (obsOp (.rut t) r).1 := by
  obtain ⟨recs, hf, _, _, hok, herr⟩ := C03.riTake_spec (fuelFor (C03.cut r.st)) none (riStart none t (C03.cut r.st))
    (C03.cut r.st) [] (by unfold fuelFor riStart; simp) hg.cut.wf hg.cut.chunk (by intro m hm; simp [riStart] at hm)
    (fun _ => rfl)
  have hzz := riTake_z (fuelFor (C03.cut r.st)) none (riStart none t (C03.cut r.st)) (C03.cut r.st) [] hz
    (noExp_start none t _ ht)
  have hreads : (obsOp (.rut t) r).1.reads = recs := by
    rw [obsOp_reads]
    simp only [runOp, C05.cutR]
    have : (readUntilTimeout t (C03.cut r.st)).2 = (riTake (fuelFor (C03.cut r.st)) none (riStart none t (C03.cut r.st)) (C03.cut r.st) []).2 := by
      unfold readUntilTimeout
      cases riTake (fuelFor (C03.cut r.st)) none (riStart none t (C03.cut r.st)) (C03.cut r.st) [] with
      | mk res s' =>
        obtain ⟨cs, e⟩ := res
        cases e with
        | none => rfl
        | some e => cases e <;> rfl
    cases hrt : readUntilTimeout t (C03.cut r.st) with
    | mk res s' =>
      have hs' : s' = (riTake (fuelFor (C03.cut r.st)) none (riStart none t (C03.cut r.st)) (C03.cut r.st) []).2 := by
        rw [← this, hrt]
      cases res <;> (simp only; rw [hs', hf.reads]; rfl)
  have hdel : delivered (obsOp (.rut t) r).1 = dataOf recs := by unfold delivered; rw [hreads]; rfl
  have hresv : (obsOp (.rut t) r).1.res = (match readUntilTimeout t (C03.cut r.st) with
        | (.ok b, _) => OpRes.text (text b)
        | (.error e, _) => OpRes.err e) := by
    rw [obsOp_res]
    simp only [runOp, C05.cutR]
    cases readUntilTimeout t (C03.cut r.st) with
    | mk res s' => cases res <;> rfl
  unfold readUntilTimeout at hresv
  cases hr : riTake (fuelFor (C03.cut r.st)) none (riStart none t (C03.cut r.st)) (C03.cut r.st) [] with
  | mk res s' =>
    rw [hr] at hresv hok herr hzz
    obtain ⟨cs, e⟩ := res
    cases e with
    | none =>
      exfalso
      have := (hok cs rfl).2.2 rfl
      simp [riStart] at this
    | some e =>
      obtain ⟨hkind, hq, _⟩ := herr cs e rfl
      cases e with
      | timeout =>
        simp only at hresv
        have hcs := (hq (Or.inl rfl)).1
        simp only [List.nil_append] at hcs
        refine .value (by intro e he; rw [hresv] at he; simp at he) ?_
        rw [hresv, hdel, hcs]
        simp only [resOf, Ref.valRut, beq_self_eq_true, Bool.and_true]
        cases t with
        | some T => rfl
        | none =>
          exfalso
          exact hzz.2.2.1 rfl rfl
      | hang => simp only at hresv; exact .quiet _ hresv rfl
      | death x m => simp only at hresv; exact .death x m hresv
      | illegal => rcases hkind with h | h | ⟨x, m, h⟩ <;> simp at h
      | assertion => rcases hkind with h | h | ⟨x, m, h⟩ <;> simp at h
      | fuel => rcases hkind with h | h | ⟨x, m, h⟩ <;> simp at h

end Run
