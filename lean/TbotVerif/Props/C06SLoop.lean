import TbotVerif.Spec.SubIO
/-! The select loop of `SubprocessChannelIO.read`: what is known when it has ended (`loop_post`),
    by functional induction on the well-founded recursion — no bound on the number of slices. -/
namespace C06S
open SubIO

theorem le_wake (pend : List Piece) (now st : Nat) : now ≤ wake pend now st := by
  unfold wake
  cases pend with
  | nil => simp
  | cons p ps =>
    simp only
    split
    · omega
    · split <;> omega

theorem wake_le (pend : List Piece) (now st : Nat) : wake pend now st ≤ now + st := by
  unfold wake
  cases pend with
  | nil => simp
  | cons p ps =>
    simp only
    split
    · omega
    · split <;> omega

theorem wake_ready (pend : List Piece) (now st : Nat) (h : ready pend (wake pend now st) = true) :
    some (wake pend now st) = (headTick pend).map (max now) := by
  cases pend with
  | nil => simp [ready] at h
  | cons p ps =>
    simp only [ready, wake, headTick, List.head?_cons, Option.map_some] at h ⊢
    split at h
    · rename_i h1; simp only [h1, if_true, Option.some.injEq]; omega
    · split at h
      · rename_i h1 h2; simp only [h1, h2, if_true, if_false, Option.some.injEq]; omega
      · simp only [decide_eq_true_eq] at h; omega

theorem ready_mono (pend : List Piece) {a b : Nat} (hab : a ≤ b) (h : ready pend a = true) : ready pend b = true := by
  cases pend with
  | nil => simp [ready] at h
  | cons p ps => simp only [ready, decide_eq_true_eq] at h ⊢; omega

theorem closedAt_mono (gone : Option Nat) {a b : Nat} (hab : a ≤ b) (h : closedAt gone a = true) : closedAt gone b = true := by
  cases gone with
  | none => simp [closedAt] at h
  | some g => simp only [closedAt, decide_eq_true_eq] at h ⊢; omega

/-- what is known when the select loop started at `now` has ended with `o` at `t1`, having asked
    `select` for the timeouts `ext` -/
def LoopPost (mrw : Nat) (dl gone : Option Nat) (pend : List Piece) (now : Nat) (o : Loop) (t1 : Nat)
    (ext : List Nat) : Prop :=
  selOk mrw dl now ext = true ∧ spanOk now t1 ext = true ∧ ext ≠ [] ∧ now ≤ t1
  ∧ (o = .ready → ready pend t1 = true ∧ some t1 = (headTick pend).map (max now) ∧ ∀ d, dl = some d → t1 ≤ d)
  ∧ (o = .timeout → ∃ d, dl = some d ∧ t1 = d ∧ ready pend d = false)
  ∧ (o = .closed → closedAt gone t1 = true ∧ ready pend t1 = false ∧ (∃ g, gone = some g ∧ t1 < g + mrw)
        ∧ ∀ d, dl = some d → t1 ≤ d)
  ∧ (o = .hang → dl = none ∧ pend = [] ∧ gone = none ∧ t1 = now)

theorem slice_le_mrw (mrw : Nat) (dl : Option Nat) (now : Nat) : slice mrw dl now ≤ mrw := by
  cases dl with
  | none => simp [slice]
  | some d => simp only [slice]; omega

/-- the `select` timeouts of a single round -/
theorem selOk_single (mrw : Nat) (dl : Option Nat) (now x : Nat) (h1 : x ≤ mrw)
    (h2 : ∀ d, dl = some d → now + x ≤ d ∧ (0 < x ∨ now = d)) (h3 : dl = none → 0 < x) :
    selOk mrw dl now [x] = true := by
  cases dl with
  | none => simp [selOk, h1, h3 rfl]
  | some d =>
    obtain ⟨ha, hb⟩ := h2 d rfl
    simp only [selOk, List.isEmpty_nil, Bool.and_true, Bool.and_eq_true, Bool.or_eq_true, decide_eq_true_eq]
    exact ⟨h1, ha, hb⟩

theorem selOk_cons (mrw : Nat) (dl : Option Nat) (now x : Nat) (xs : List Nat) (h1 : x ≤ mrw) (hx : 0 < x)
    (h2 : ∀ d, dl = some d → now + x ≤ d) (h3 : selOk mrw dl (now + x) xs = true) :
    selOk mrw dl now (x :: xs) = true := by
  cases dl with
  | none => simp [selOk, h1, hx, h3]
  | some d =>
    have ha := h2 d rfl
    simp only [selOk, Bool.and_eq_true, Bool.or_eq_true, decide_eq_true_eq]
    exact ⟨⟨h1, ha, Or.inl hx⟩, h3⟩

theorem spanOk_single (now t1 x : Nat) (h1 : now ≤ t1) (h2 : t1 ≤ now + x) : spanOk now t1 [x] = true := by
  simp [spanOk, h1, h2]

theorem spanOk_cons (now t1 x : Nat) (xs : List Nat) (hne : xs ≠ []) (h : spanOk (now + x) t1 xs = true) :
    spanOk now t1 (x :: xs) = true := by
  cases xs with
  | nil => exact absurd rfl hne
  | cons y ys =>
    simp only [spanOk, Bool.and_eq_true, decide_eq_true_eq] at h ⊢
    simp only [List.dropLast_cons_cons, List.sum_cons] at h ⊢
    omega

theorem loop_post (mrw : Nat) (dl gone : Option Nat) (pend : List Piece) (now : Nat) (sel : List Nat)
    (hm : 0 < mrw) (hc : closedAt gone now = false) (hd : ∀ d, dl = some d → now ≤ d) :
    ∃ ext, (loop mrw dl gone pend now sel).2.2 = sel ++ ext
      ∧ LoopPost mrw dl gone pend now (loop mrw dl gone pend now sel).1 (loop mrw dl gone pend now sel).2.1 ext := by
  fun_induction loop mrw dl gone pend now sel with
  | case1 now sel h1 h2 =>
    -- deadline reached, data waiting: the last poll finds it
    dsimp only
    obtain ⟨d, rfl⟩ := Option.isSome_iff_exists.mp h1.1
    have hnd : now = d := by have := hd d rfl; have := h1.2; simp only [slice] at this; omega
    refine ⟨[0], rfl, selOk_single _ _ _ _ (Nat.zero_le _) ?_ (by simp), spanOk_single _ _ _ (Nat.le_refl _) (by simp),
      by simp, Nat.le_refl _, ?_, by simp, by simp, by simp⟩
    · intro d' hd'; cases hd'; exact ⟨by omega, Or.inr hnd⟩
    · intro _
      refine ⟨h2, ?_, fun d' hd' => by cases hd'; omega⟩
      cases pend with
      | nil => simp [ready] at h2
      | cons p ps =>
        simp only [ready, decide_eq_true_eq] at h2
        simp only [headTick, List.head?_cons, Option.map_some, Option.some.injEq]
        omega
  | case2 now sel h1 h2 =>
    dsimp only
    obtain ⟨d, rfl⟩ := Option.isSome_iff_exists.mp h1.1
    have hnd : now = d := by have := hd d rfl; have := h1.2; simp only [slice] at this; omega
    refine ⟨[0], rfl, selOk_single _ _ _ _ (Nat.zero_le _) ?_ (by simp), spanOk_single _ _ _ (Nat.le_refl _) (by simp),
      by simp, Nat.le_refl _, by simp, ?_, by simp, by simp⟩
    · intro d' hd'; cases hd'; exact ⟨by omega, Or.inr hnd⟩
    · intro _
      exact ⟨d, rfl, hnd, by rw [← hnd]; simpa using h2⟩
  | case3 now sel h1 h2 =>
    dsimp only
    obtain ⟨hdl, hp, hg⟩ := h2
    have hdl : dl = none := by simpa using hdl
    have hp : pend = [] := by simpa using hp
    have hg : gone = none := by simpa using hg
    subst hdl
    refine ⟨[slice mrw none now], rfl, selOk_single _ _ _ _ (slice_le_mrw _ _ _) (by simp) (fun _ => by simpa [slice] using hm),
      spanOk_single _ _ _ (Nat.le_refl _) (by omega), by simp, Nat.le_refl _, by simp, by simp, by simp, ?_⟩
    intro _; exact ⟨rfl, hp, hg, rfl⟩
  | case4 now sel h1 h2 h3 =>
    dsimp only
    have hpos : 0 < slice mrw dl now := by
      cases dl with
      | none => simpa [slice] using hm
      | some d => have := h1; simp only [Option.isSome_some, true_and] at this; omega
    have hrem : ∀ d, dl = some d → now + slice mrw dl now ≤ d := by
      intro d hd'; subst hd'; have := hd d rfl; simp only [slice]; omega
    refine ⟨[slice mrw dl now], rfl,
      selOk_single _ _ _ _ (slice_le_mrw _ _ _) (fun d hd' => ⟨hrem d hd', Or.inl hpos⟩) (fun _ => hpos),
      spanOk_single _ _ _ (le_wake _ _ _) (wake_le _ _ _), by simp, le_wake _ _ _, ?_, by simp, by simp, by simp⟩
    intro _
    exact ⟨h3, wake_ready _ _ _ h3, fun d hd' => Nat.le_trans (wake_le _ _ _) (hrem d hd')⟩
  | case5 now sel h1 h2 h3 h4 =>
    dsimp only
    have hpos : 0 < slice mrw dl now := by
      cases dl with
      | none => simpa [slice] using hm
      | some d => have := h1; simp only [Option.isSome_some, true_and] at this; omega
    have hrem : ∀ d, dl = some d → now + slice mrw dl now ≤ d := by
      intro d hd'; subst hd'; have := hd d rfl; simp only [slice]; omega
    have h3' : ready pend (wake pend now (slice mrw dl now)) = false := by simpa using h3
    refine ⟨[slice mrw dl now], rfl,
      selOk_single _ _ _ _ (slice_le_mrw _ _ _) (fun d hd' => ⟨hrem d hd', Or.inl hpos⟩) (fun _ => hpos),
      spanOk_single _ _ _ (le_wake _ _ _) (wake_le _ _ _), by simp, le_wake _ _ _, by simp, by simp, ?_, by simp⟩
    intro _
    refine ⟨h4, h3', ?_, fun d hd' => Nat.le_trans (wake_le _ _ _) (hrem d hd')⟩
    cases gone with
    | none => simp [closedAt] at h4
    | some g =>
      simp only [closedAt, decide_eq_false_iff_not] at hc
      have := wake_le pend now (slice mrw dl now)
      have := slice_le_mrw mrw dl now
      exact ⟨g, rfl, by omega⟩
  | case6 now sel h1 h2 h3 h4 h5 =>
    -- a zero slice without a deadline needs `MIN_READ_WAIT = 0`
    exfalso
    cases dl with
    | none => simp only [slice] at h5; omega
    | some d => exact h1 ⟨rfl, h5⟩
  | case7 now sel h1 h2 h3 h4 h5 ih =>
    have hpos : 0 < slice mrw dl now := Nat.pos_of_ne_zero h5
    have hrem : ∀ d, dl = some d → now + slice mrw dl now ≤ d := by
      intro d hd'; subst hd'; have := hd d rfl; simp only [slice]; omega
    have h3' : ready pend (wake pend now (slice mrw dl now)) = false := by simpa using h3
    have hw := wake_of_not_ready pend now _ h3'
    rw [hw] at ih h4 ⊢
    obtain ⟨ext, hsel, hsl, hsp, hne, hle, hr, ht, hcl, hh⟩ :=
      ih (by simpa using h4) (fun d hd' => hrem d hd')
    refine ⟨slice mrw dl now :: ext, by rw [hsel]; simp, selOk_cons _ _ _ _ _ (slice_le_mrw _ _ _) hpos hrem hsl,
      spanOk_cons _ _ _ _ hne hsp, by simp, by omega, ?_, ht, ?_, ?_⟩
    · intro ho
      obtain ⟨ha, hb, hc'⟩ := hr ho
      refine ⟨ha, ?_, hc'⟩
      cases pend with
      | nil => simp [ready] at ha
      | cons p ps =>
        simp only [ready, decide_eq_false_iff_not] at h3'
        rw [hw] at h3'
        simp only [headTick, List.head?_cons, Option.map_some, Option.some.injEq] at hb ⊢
        omega
    · intro ho
      obtain ⟨ha, hb, ⟨g, hg, hlt⟩, hc'⟩ := hcl ho
      exact ⟨ha, hb, ⟨g, hg, hlt⟩, hc'⟩
    · intro ho
      obtain ⟨ha, hb, hc', _⟩ := hh ho
      exact absurd ⟨by simp [ha], by simp [hb], by simp [hc']⟩ h2

end C06S
