import TbotVerif.Props.FilesWrite
/-! C11 — the concrete base64 codec the driver runs (`Files.b64`) satisfies the three hypotheses the
    theorems make about the codec (`CodecOk`): so they are satisfiable, and the composed statements
    hold for the codec the correspondence check validates against Python's `base64` and the
    installed `base64` tool. -/

namespace Files

theorem b64Val_char : (List.range 64).all (fun k => b64Val (b64Char k) == some k) = true := by decide +kernel

theorem b64Val_b64Char (k : Nat) (h : k < 64) : b64Val (b64Char k) = some k := by
  have := List.all_eq_true.mp b64Val_char k (List.mem_range.mpr h)
  exact eq_of_beq this

theorem b64Val_pad : b64Val PAD = none := by decide

theorem isB64_char (k : Nat) : isB64 (b64Char k) = true := by
  unfold b64Char isB64
  by_cases h : k < b64Alphabet.length
  · have : b64Alphabet.getD k PAD = b64Alphabet[k] := by simp [List.getD, h]
    rw [this]
    simp
  · have : b64Alphabet.getD k PAD = PAD := by
      simp only [List.getD]
      rw [List.getElem?_eq_none (by omega)]
      rfl
    rw [this]; simp

theorem isB64_pad : isB64 PAD = true := by decide +kernel

theorem b64enc_alphabet : ∀ (n : Nat) (d : Bytes), d.length ≤ n → ∀ c ∈ b64enc d, isB64 c = true := by
  intro n
  induction n with
  | zero =>
    intro d hd c hc
    have : d = [] := List.length_eq_zero_iff.mp (by omega)
    subst this; simp [b64enc] at hc
  | succ n ih =>
    intro d hd c hc
    match d, hd, hc with
    | [], _, hc => simp [b64enc] at hc
    | [a], _, hc =>
      simp only [b64enc, List.mem_cons, List.not_mem_nil, or_false] at hc
      rcases hc with rfl | rfl | rfl | rfl <;> first | exact isB64_char _ | exact isB64_pad
    | [a, b], _, hc =>
      simp only [b64enc, List.mem_cons, List.not_mem_nil, or_false] at hc
      rcases hc with rfl | rfl | rfl | rfl <;> first | exact isB64_char _ | exact isB64_pad
    | a :: b :: c' :: t, hd, hc =>
      simp only [b64enc, List.mem_cons] at hc
      rcases hc with rfl | rfl | rfl | rfl | hc
      · exact isB64_char _
      · exact isB64_char _
      · exact isB64_char _
      · exact isB64_char _
      · exact ih t (by simp only [List.length_cons] at hd; omega) c hc

theorem grp (m a b c : Nat) (_ha : a < 256) (hb : b < 256) (hc : c < 256) (hm : m = a * 65536 + b * 256 + c) :
    (m / 262144 * 262144 + m / 4096 % 64 * 4096 + m / 64 % 64 * 64 + m % 64) / 65536 = a
    ∧ (m / 262144 * 262144 + m / 4096 % 64 * 4096 + m / 64 % 64 * 64 + m % 64) / 256 % 256 = b
    ∧ (m / 262144 * 262144 + m / 4096 % 64 * 4096 + m / 64 % 64 * 64 + m % 64) % 256 = c := by
  subst hm
  refine ⟨by omega, by omega, by omega⟩

theorem b64_roundtrip : ∀ (n : Nat) (d : Bytes), d.length ≤ n → b64dec (b64enc d) = d := by
  intro n
  induction n with
  | zero =>
    intro d hd
    have : d = [] := List.length_eq_zero_iff.mp (by omega)
    subst this; rfl
  | succ n ih =>
    intro d hd
    match d, hd with
    | [], _ => rfl
    | [a], _ =>
      have ha : a.toNat < 256 := a.toNat_lt
      simp only [b64dec, b64enc, List.filterMap_cons, List.filterMap_nil, b64Val_pad]
      rw [b64Val_b64Char _ (by omega), b64Val_b64Char _ (by omega)]
      simp only [b64Groups]
      have : (a.toNat * 65536 / 262144 * 262144 + a.toNat * 65536 / 4096 % 64 * 4096) / 65536 = a.toNat := by omega
      rw [this]; simp
    | [a, b], _ =>
      have ha : a.toNat < 256 := a.toNat_lt
      have hb : b.toNat < 256 := b.toNat_lt
      simp only [b64dec, b64enc, List.filterMap_cons, List.filterMap_nil, b64Val_pad]
      rw [b64Val_b64Char _ (by omega), b64Val_b64Char _ (by omega), b64Val_b64Char _ (by omega)]
      simp only [b64Groups]
      have h1 : ((a.toNat * 65536 + b.toNat * 256) / 262144 * 262144 + (a.toNat * 65536 + b.toNat * 256) / 4096 % 64 * 4096
          + (a.toNat * 65536 + b.toNat * 256) / 64 % 64 * 64) / 65536 = a.toNat := by omega
      have h2 : ((a.toNat * 65536 + b.toNat * 256) / 262144 * 262144 + (a.toNat * 65536 + b.toNat * 256) / 4096 % 64 * 4096
          + (a.toNat * 65536 + b.toNat * 256) / 64 % 64 * 64) / 256 % 256 = b.toNat := by omega
      rw [h1, h2]; simp
    | a :: b :: c :: t, hd =>
      have ha : a.toNat < 256 := a.toNat_lt
      have hb : b.toNat < 256 := b.toNat_lt
      have hc : c.toNat < 256 := c.toNat_lt
      have iht := ih t (by simp only [List.length_cons] at hd; omega)
      unfold b64dec at iht ⊢
      simp only [b64enc, List.filterMap_cons]
      rw [b64Val_b64Char _ (by omega), b64Val_b64Char _ (by omega), b64Val_b64Char _ (by omega),
        b64Val_b64Char _ (by omega)]
      simp only [b64Groups]
      rw [iht]
      obtain ⟨h1, h2, h3⟩ := grp _ a.toNat b.toNat c.toNat ha hb hc rfl
      rw [h1, h2, h3]; simp

theorem b64_skipNl (x : Bytes) : b64dec (x.filter fun c => c != 13 && c != 10) = b64dec x := by
  unfold b64dec
  congr 1
  induction x with
  | nil => rfl
  | cons c x ih =>
    simp only [List.filter_cons]
    by_cases h : (c != 13 && c != 10) = true
    · simp only [h, if_true, List.filterMap_cons, ih]
    · have h' : (c != 13 && c != 10) = false := Bool.eq_false_iff.mpr h
      simp only [h', Bool.false_eq_true, if_false, List.filterMap_cons, ih]
      have : b64Val c = none := by
        simp only [Bool.and_eq_false_iff, bne_eq_false_iff_eq] at h'
        rcases h' with rfl | rfl <;> decide
      rw [this]

/-- **the concrete codec has the three properties** the theorems assume -/
theorem b64_ok : CodecOk b64 :=
  ⟨fun d => b64_roundtrip d.length d (Nat.le_refl _), b64_skipNl, fun d c hc => b64enc_alphabet d.length d (Nat.le_refl _) c hc⟩

end Files
