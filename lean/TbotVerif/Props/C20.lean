import TbotVerif.Spec.Ssh
/-! C20 — placeholder, proofs follow. -/
namespace C20
end C20
