import TbotVerif.Props.SshLemmas
/-! # C20 — ssh and scp are invoked with exactly the machine's configured parameters -/

namespace C20
open Ssh

/-! ## `parse ∘ build` on the option blocks -/

theorem parsePairs_scpOpts (port : Nat) (hk : Bool) (opts : List Str) (mux : Option Str) (t : List Arg) :
    parsePairs (lit "-P") (.s (lit "-P") :: .s (natStr port) :: (hkArgs hk ++ (optArgs opts
        ++ (muxPart mux ++ t))))
      = (parsePairs (lit "-P") t).map
          (fun r => (hkO hk ++ (opts ++ (muxO mux ++ r.1)), r.2.1, natStr port :: r.2.2)) := by
  rw [parsePairs_p _ _ _ (by decide) (by decide), parsePairs_hkArgs, parsePairs_optArgs,
    parsePairs_muxArgs]
  cases parsePairs (lit "-P") t with
  | none => rfl
  | some r => simp [addO, addP]

theorem parsePairs_sshOpts (port : Nat) (hk : Bool) (opts : List Str) (mux : Option Str) (t : List Arg) :
    parsePairs (lit "-p") (hkArgs hk ++ (muxPart mux
        ++ (.s (lit "-p") :: .s (natStr port) :: (optArgs opts ++ t))))
      = (parsePairs (lit "-p") t).map
          (fun r => (hkO hk ++ (muxO mux ++ (opts ++ r.1)), r.2.1, natStr port :: r.2.2)) := by
  rw [parsePairs_hkArgs, parsePairs_muxArgs, parsePairs_p _ _ _ (by decide) (by decide),
    parsePairs_optArgs]
  cases parsePairs (lit "-p") t with
  | none => rfl
  | some r => simp [addO, addP]


/-! ## whole command lines -/

theorem parseProg_nopass (prog pf : Str) (n : Nat) (rest ops : List Arg) (hp : prog ≠ lit "sshpass")
    (hops : ops.length = n) :
    parseProg prog pf n (.s prog :: (rest ++ ops))
      = (parsePairs pf rest).map (fun r => ⟨none, prog, r.1, r.2.1, r.2.2, ops⟩) := by
  unfold parseProg
  rw [stripPass_other _ _ hp]
  simp only [if_pos]
  exact parseTail_append _ _ _ _ _ _ hops

theorem parseProg_pass (prog pf pw : Str) (n : Nat) (rest ops : List Arg) (hops : ops.length = n) :
    parseProg prog pf n (.s (lit "sshpass") :: .s (lit "-p") :: .s pw :: .s prog :: (rest ++ ops))
      = (parsePairs pf rest).map (fun r => ⟨some pw, prog, r.1, r.2.1, r.2.2, ops⟩) := by
  unfold parseProg
  rw [stripPass_pass]
  simp only [if_pos]
  exact parseTail_append _ _ _ _ _ _ hops

theorem parsePairs_nil (pf : Str) : parsePairs pf [] = some ([], [], []) := by
  simp [parsePairs]

/-- **`parseScp (scp argv) = canon`.**  Whatever `_scp_copy` builds from the values it was handed —
for every port, every option string, every key or password string — parses back to exactly
those values: the password goes to `sshpass`, the `-o` values are the host-key option (iff
`ignore_hostkey`), the extra options, the multiplexing options (iff enabled) and `BatchMode=yes`
(iff no password is used), the identity is the authenticator's key, the port is the given port,
and the operands are the given operands in the given order. -/
theorem parseScp_scpArgv (hs : List Host) (lh : Nat) (a : Auth) (port : Nat) (hk : Bool)
    (opts : List Str) (mux : Option Str) (cmd ops : List Arg)
    (h : scpAuth hs lh (scpBase port hk opts mux) a = .ok cmd) (hops : ops.length = 2) :
    ∃ ids, wantIdents hs lh a = some ids ∧
      parseScp (cmd ++ ops) = some ⟨wantPw a, lit "scp",
        hkO hk ++ (opts ++ (muxO mux ++ if a.isPassword then [] else [batchMode])),
        ids, [natStr port], ops⟩ := by
  have hbase : scpBase port hk opts mux = .s (lit "scp") :: .s (lit "-P") :: .s (natStr port) ::
      (hkArgs hk ++ (optArgs opts ++ muxPart mux)) := by simp [scpBase]
  have key : ∀ k : Str, cmd = scpBase port hk opts mux ++ [sO, .s batchMode, .s (lit "-i"), .s k] →
      parseScp (cmd ++ ops) = some ⟨none, lit "scp",
        hkO hk ++ (opts ++ (muxO mux ++ [batchMode])), [k], [natStr port], ops⟩ := by
    intro k hc
    subst hc
    have e : scpBase port hk opts mux ++ [sO, .s batchMode, .s (lit "-i"), .s k] ++ ops
        = .s (lit "scp") :: ((.s (lit "-P") :: .s (natStr port) :: (hkArgs hk ++ (optArgs opts
            ++ (muxPart mux ++ [sO, .s batchMode, .s (lit "-i"), .s k])))) ++ ops) := by
      simp [hbase]
    rw [e, parseScp, parseProg_nopass _ _ _ _ _ (by decide) hops, parsePairs_scpOpts, parsePairs_o,
      parsePairs_i, parsePairs_nil]
    simp [addO, addI]
  cases a with
  | none =>
    simp only [scpAuth, Except.ok.injEq] at h
    subst h
    refine ⟨[], rfl, ?_⟩
    have e : scpBase port hk opts mux ++ [sO, .s batchMode] ++ ops
        = .s (lit "scp") :: ((.s (lit "-P") :: .s (natStr port) :: (hkArgs hk ++ (optArgs opts
            ++ (muxPart mux ++ [sO, .s batchMode])))) ++ ops) := by
      simp [hbase]
    rw [e, parseScp, parseProg_nopass _ _ _ _ _ (by decide) hops, parsePairs_scpOpts, parsePairs_o,
      parsePairs_nil]
    simp [addO, wantPw, Auth.isPassword]
  | password pw =>
    simp only [scpAuth, Except.ok.injEq] at h
    subst h
    refine ⟨[], rfl, ?_⟩
    have e : [.s (lit "sshpass"), .s (lit "-p"), .s pw] ++ scpBase port hk opts mux ++ ops
        = .s (lit "sshpass") :: .s (lit "-p") :: .s pw :: .s (lit "scp") ::
          ((.s (lit "-P") :: .s (natStr port) :: (hkArgs hk ++ (optArgs opts
            ++ (muxPart mux ++ [])))) ++ ops) := by
      simp [hbase]
    rw [e, parseScp, parseProg_pass _ _ _ _ _ _ hops, parsePairs_scpOpts, parsePairs_nil]
    simp [wantPw, Auth.isPassword]
  | undefined => simp [scpAuth] at h
  | keyStr k =>
    simp only [scpAuth, keyForHost, Except.ok.injEq] at h
    exact ⟨[k], rfl, by simpa [wantPw, Auth.isPassword] using key k h.symm⟩
  | keyPure k =>
    simp only [scpAuth, keyForHost, Except.ok.injEq] at h
    exact ⟨[k], rfl, by simpa [wantPw, Auth.isPassword] using key k h.symm⟩
  | keyPath kh k =>
    simp only [scpAuth, keyForHost] at h
    cases hsm : sameMachine hs kh lh with
    | false => simp [hsm] at h
    | true =>
      simp only [hsm, if_true, Except.ok.injEq] at h
      exact ⟨[k], by simp [wantIdents, hsm], by simpa [wantPw, Auth.isPassword] using key k h.symm⟩

/-- when `_scp_copy` raises, the authenticator is one that must be refused -/
theorem scpAuth_error (hs : List Host) (lh : Nat) (a : Auth) (base : List Arg) (e : Err)
    (h : scpAuth hs lh base a = .error e) : wantIdents hs lh a = none := by
  cases a with
  | none => simp [scpAuth] at h
  | password pw => simp [scpAuth] at h
  | undefined => rfl
  | keyStr k => simp [scpAuth, keyForHost] at h
  | keyPure k => simp [scpAuth, keyForHost] at h
  | keyPath kh k =>
    simp only [scpAuth, keyForHost] at h
    cases hsm : sameMachine hs kh lh with
    | false => simp [wantIdents, hsm]
    | true => simp [hsm] at h


/-- **`parseSsh (ssh argv) = canon`.**  The argv `SSHConnector._connect` builds from the values it
read parses back to exactly those values, for all strings. -/
theorem parseSsh_sshArgv (hs : List Host) (v : Nat) (a : Auth) (head : List Arg)
    (h : sshHead hs v a = .ok head) (hk : Bool) (mux : Option Str) (port : Nat) (opts : List Str)
    (user host : Str) :
    ∃ ids, wantIdents hs v a = some ids ∧
      parseSsh (sshArgv head hk mux port opts user host) = some ⟨wantPw a, lit "ssh",
        (if a.isPassword then [] else [batchMode]) ++ (hkO hk ++ (muxO mux ++ opts)),
        ids, [natStr port], [.s (user ++ '@' :: host)]⟩ := by
  have key : ∀ k : Str, head = [.s (lit "ssh"), sO, .s batchMode, .s (lit "-i"), .s k] →
      parseSsh (sshArgv head hk mux port opts user host) = some ⟨none, lit "ssh",
        [batchMode] ++ (hkO hk ++ (muxO mux ++ opts)), [k], [natStr port], [.s (user ++ '@' :: host)]⟩ := by
    intro k hc
    subst hc
    have e : sshArgv [.s (lit "ssh"), sO, .s batchMode, .s (lit "-i"), .s k] hk mux port opts user host
        = .s (lit "ssh") :: ((sO :: .s batchMode :: .s (lit "-i") :: .s k :: (hkArgs hk ++ (muxPart mux
            ++ (.s (lit "-p") :: .s (natStr port) :: (optArgs opts ++ []))))) ++ [.s (user ++ '@' :: host)]) := by
      simp [sshArgv]
    rw [e, parseSsh, parseProg_nopass (lit "ssh") (lit "-p") 1 _ [.s (user ++ '@' :: host)] (by decide) rfl, parsePairs_o, parsePairs_i,
      parsePairs_sshOpts, parsePairs_nil]
    simp [addO, addI]
  cases a with
  | none =>
    simp only [sshHead, Except.ok.injEq] at h
    subst h
    refine ⟨[], rfl, ?_⟩
    have e : sshArgv [.s (lit "ssh"), sO, .s batchMode] hk mux port opts user host
        = .s (lit "ssh") :: ((sO :: .s batchMode :: (hkArgs hk ++ (muxPart mux
            ++ (.s (lit "-p") :: .s (natStr port) :: (optArgs opts ++ []))))) ++ [.s (user ++ '@' :: host)]) := by
      simp [sshArgv]
    rw [e, parseSsh, parseProg_nopass (lit "ssh") (lit "-p") 1 _ [.s (user ++ '@' :: host)] (by decide) rfl, parsePairs_o,
      parsePairs_sshOpts, parsePairs_nil]
    simp [addO, wantPw, Auth.isPassword]
  | password pw =>
    simp only [sshHead, Except.ok.injEq] at h
    subst h
    refine ⟨[], rfl, ?_⟩
    have e : sshArgv [.s (lit "sshpass"), .s (lit "-p"), .s pw, .s (lit "ssh")] hk mux port opts user host
        = .s (lit "sshpass") :: .s (lit "-p") :: .s pw :: .s (lit "ssh") :: ((hkArgs hk ++ (muxPart mux
            ++ (.s (lit "-p") :: .s (natStr port) :: (optArgs opts ++ [])))) ++ [.s (user ++ '@' :: host)]) := by
      simp [sshArgv]
    rw [e, parseSsh, parseProg_pass (lit "ssh") (lit "-p") pw 1 _ [.s (user ++ '@' :: host)] rfl, parsePairs_sshOpts, parsePairs_nil]
    simp [wantPw, Auth.isPassword]
  | undefined => simp [sshHead] at h
  | keyStr k =>
    simp only [sshHead, keyForHost, Except.ok.injEq] at h
    exact ⟨[k], rfl, by simpa [wantPw, Auth.isPassword] using key k h.symm⟩
  | keyPure k =>
    simp only [sshHead, keyForHost, Except.ok.injEq] at h
    exact ⟨[k], rfl, by simpa [wantPw, Auth.isPassword] using key k h.symm⟩
  | keyPath kh k =>
    simp only [sshHead, keyForHost] at h
    cases hsm : sameMachine hs kh v with
    | false => simp [hsm] at h
    | true =>
      simp only [hsm, if_true, Except.ok.injEq] at h
      exact ⟨[k], by simp [wantIdents, hsm], by simpa [wantPw, Auth.isPassword] using key k h.symm⟩

/-- when `_connect` raises on the authenticator, it is one that must be refused -/
theorem sshHead_error (hs : List Host) (v : Nat) (a : Auth) (e : Err)
    (h : sshHead hs v a = .error e) : wantIdents hs v a = none := by
  cases a with
  | none => simp [sshHead] at h
  | password pw => simp [sshHead] at h
  | undefined => rfl
  | keyStr k => simp [sshHead, keyForHost] at h
  | keyPure k => simp [sshHead, keyForHost] at h
  | keyPath kh k =>
    simp only [sshHead, keyForHost] at h
    cases hsm : sameMachine hs kh v with
    | false => simp [wantIdents, hsm]
    | true => simp [hsm] at h


/-! ## the Spec holds of the model -/

/-- **Opening an ssh machine.**  For every set of machines and every ssh machine `i`: the model of
`SSHConnector._connect` does what `wantConnect` asks for. -/
theorem connect_spec (hs : List Host) (i : Nat) :
    holds (wantConnect hs i) (observe (connect hs i)) = true := by
  unfold connect wantConnect
  cases hi : hs[i]? with
  | none => simp [holds, observe]
  | some m =>
    simp only []
    cases hv : m.via with
    | none => simp [holds, observe]
    | some v =>
      simp only []
      cases hj : hs[v]? with
      | none => simp [holds, observe]
      | some jh =>
        simp only []
        cases hh : sshHead hs v (authOf m) with
        | error e =>
          have := sshHead_error hs v _ e hh
          simp [eff, this, holds, observe]
        | ok head =>
          obtain ⟨ids, hid, hp⟩ := parseSsh_sshArgv hs v _ head hh (hkOf m)
            (if muxOf m then some jh.wd else none) (portOf m) (optsOf m) (userOf hs hs.length i)
            (hostnameOf m)
          have hsame : Cmd.same (parseCmd (sshArgv head (hkOf m) (if muxOf m then some jh.wd else none)
              (portOf m) (optsOf m) (userOf hs hs.length i) (hostnameOf m)))
              (.parsed ⟨wantPw (authOf m), lit "ssh", wantOpts (eff hs i m) jh.wd, ids,
                [natStr (portOf m)], [.s (target (eff hs i m))]⟩) = true := by
            rw [parseCmd_ssh _ _ hp]
            apply cmdSame_parsed
            · rfl
            · rfl
            · rw [wantOpts_eq]; exact List.Perm.refl _
            · rfl
            · rfl
            · rfl
          have hmk : parseCmd [.s (lit "mkdir"), .s (lit "-p"), .p ⟨v, 0⟩ (muxDir jh.wd)]
              = .raw [.s (lit "mkdir"), .s (lit "-p"), .p ⟨v, 0⟩ (muxDir jh.wd)] :=
            parseCmd_other _ _ (by decide) (by decide) (by decide)
          have hid' : wantIdents hs v (eff hs i m).auth = some ids := hid
          have e1 : (eff hs i m).auth = authOf m := rfl
          have e2 : (eff hs i m).port = portOf m := rfl
          simp only [hid']
          cases hm : muxOf m with
          | false =>
            have hm' : (eff hs i m).mux = false := hm
            simp only [hm, Bool.false_eq_true, if_false] at hsame
            simp [holds, observe, eventsSame, hm', hsame, e1, e2]
          | true =>
            have hm' : (eff hs i m).mux = true := hm
            simp only [hm, if_true] at hsame
            simp [holds, observe, eventsSame, hm', hsame, hmk, cmdSame_raw, e1, e2]


theorem scpOperands_length (lh : Nat) (lp user host rp : Str) (to : Bool) :
    (scpOperands lh lp user host rp to).length = 2 := by
  cases to <;> rfl

/-- **One scp transfer.**  `_scp_copy` called with every parameter read from machine `r`, executed
on machine `lh`, does what `wantScp` asks for — in both directions. -/
theorem scpFrom_spec (hs : List Host) (r lh : Nat) (lp rp : Str) (to : Bool) :
    holds (wantScp hs r lh lp rp to) (observe (scpFrom hs r lh lp rp to)) = true := by
  unfold scpFrom wantScp
  cases hr : hs[r]? with
  | none => simp [holds, observe]
  | some m =>
    simp only []
    unfold scpCopy
    cases hl : hs[lh]? with
    | none => simp [holds, observe]
    | some l =>
      simp only []
      cases hh : scpAuth hs lh (scpBase (portOf m) (hkOf m) (optsOf m) (if muxOf m then some l.wd else none))
          (authOf m) with
      | error e =>
        have := scpAuth_error hs lh _ _ e hh
        simp [eff, this, holds, observe]
      | ok cmd =>
        obtain ⟨ids, hid, hp⟩ := parseScp_scpArgv hs lh _ _ _ _ _ cmd
          (scpOperands lh lp (userOf hs hs.length r) (hostnameOf m) rp to) hh
          (scpOperands_length _ _ _ _ _ _)
        have hid' : wantIdents hs lh (eff hs r m).auth = some ids := hid
        have hsame : Cmd.same (parseCmd (cmd ++ scpOperands lh lp (userOf hs hs.length r) (hostnameOf m) rp to))
            (.parsed ⟨wantPw (eff hs r m).auth, lit "scp", wantOpts (eff hs r m) l.wd, ids,
              [natStr (eff hs r m).port],
              if to then [.p ⟨lh, 0⟩ lp, .s (target (eff hs r m) ++ ':' :: rp)]
              else [.s (target (eff hs r m) ++ ':' :: rp), .p ⟨lh, 0⟩ lp]⟩) = true := by
          rw [parseCmd_scp _ _ hp]
          apply cmdSame_parsed
          · rfl
          · rfl
          · exact scpOpts_perm (eff hs r m) l.wd
          · rfl
          · rfl
          · cases to <;> simp [scpOperands, target, eff]
        simp [hid', holds, observe, eventsSame, hsame]


theorem sameMachine_comm (hs : List Host) (a b : Nat) : sameMachine hs a b = sameMachine hs b a := by
  unfold sameMachine
  cases hs[a]? <;> cases hs[b]? <;> simp [Bool.beq_comm]

/-- in a well-formed machine set, equal machines have related classes -/
theorem related_of_same (hs : List Host) (hwf : hostsWf hs = true) (a b : Nat)
    (h : sameMachine hs a b = true) : classRelated hs a b = true := by
  unfold sameMachine at h
  unfold classRelated
  cases ha : hs[a]? with
  | none => simp [ha] at h
  | some x =>
    cases hb : hs[b]? with
    | none => simp [ha, hb] at h
    | some y =>
      simp only [ha, hb, beq_iff_eq] at h
      simp only [hostsWf, Bool.and_eq_true, List.all_eq_true] at hwf
      have hx := List.mem_of_getElem? ha
      have hy := List.mem_of_getElem? hb
      have h1 := hwf.1 y hy
      have h2 := hwf.2 x hx y hy
      simp only [h, bne_self_eq_false, Bool.false_or, beq_iff_eq] at h2
      simp only [Bool.or_eq_true]
      right
      rw [h2]
      exact h1

theorem viaEquals_none_left (hs : List Host) (a b : Nat) (ha : hs[a]? = none) :
    viaEquals hs a b = false := by
  simp [viaEquals, isKind, kindOf, ha]

theorem viaEquals_none_right (hs : List Host) (a b : Nat) (hb : hs[b]? = none) :
    viaEquals hs a b = false := by
  have : ∀ v, sameMachine hs v b = false := by
    intro v
    unfold sameMachine
    cases hs[v]? <;> simp [hb]
  simp [viaEquals, this]

/-- a transfer that may be refused, refused -/
theorem holds_optional_err (w : Want) (e : Err) : holds w.optional (observe ⟨some e, []⟩) = true := by
  cases w <;> simp [Want.optional, holds, observe]

/-- **copy.**  For every well-formed set of machines, every pair of them and all paths, the model of
`linux.copy` does what `wantCopy` asks for: `cp` on the same machine, one scp with the remote
machine's parameters for each supported pairing and direction, an exception and no command
otherwise. -/
theorem copy_spec (hs : List Host) (hwf : hostsWf hs = true) (a : Nat) (pa : Str) (b : Nat) (pb : Str) :
    holds (wantCopy hs a pa b pb) (observe (copy hs a pa b pb)) = true := by
  unfold copy wantCopy role
  cases ha : hs[a]? with
  | none =>
    cases hb : hs[b]? with
    | none => simp [sameMachine, classRelated, isKind, kindOf, isRemote, viaOf, ha, hb, holds, observe,
        viaEquals_none_left]
    | some y =>
      simp [sameMachine, classRelated, isKind, kindOf, isRemote, viaOf, ha, hb, holds, observe,
        viaEquals_none_left, viaEquals_none_right]
      by_cases h : (y.kind = Kind.ssh ∧ y.via = some a) <;> simp [h, wantScp, ha, hb]
  | some x =>
    cases hb : hs[b]? with
    | none =>
      simp [sameMachine, classRelated, isKind, kindOf, isRemote, viaOf, ha, hb, holds, observe,
        viaEquals_none_left, viaEquals_none_right]
      by_cases h : (x.kind = Kind.ssh ∧ x.via = some b) <;> simp [h, wantScp, ha, hb]
    | some y =>
      simp only [Option.isNone_some, Bool.or_self, Bool.false_eq_true, if_false]
      cases hc : classRelated hs a b with
      | true =>
        simp only [if_true]
        cases hsm : sameMachine hs b a with
        | true =>
          have hsm' : sameMachine hs a b = true := by rw [sameMachine_comm]; exact hsm
          have hcp : parseCmd [.s (lit "cp"), .p ⟨a, 0⟩ pa, .p ⟨a, 0⟩ pb]
              = .raw [.s (lit "cp"), .p ⟨a, 0⟩ pa, .p ⟨a, 0⟩ pb] :=
            parseCmd_other _ _ (by decide) (by decide) (by decide)
          simp [hsm', holds, observe, eventsSame, hcp, cmdSame_raw]
        | false =>
          have hsm' : sameMachine hs a b = false := by rw [sameMachine_comm]; exact hsm
          simp [hsm', holds, observe]
      | false =>
        have hsm' : sameMachine hs a b = false := by
          cases h : sameMachine hs a b with
          | false => rfl
          | true => rw [related_of_same hs hwf a b h] at hc; cases hc
        simp only [hsm', Bool.false_eq_true, if_false]
        simp only [viaEquals, isKind, isRemote, kindOf, ha, hb, Option.map_some]
        generalize (viaOf hs a == some b) = va
        generalize (viaOf hs b == some a) = vb
        generalize ((viaOf hs a).any fun v => sameMachine hs v b) = ca
        generalize ((viaOf hs b).any fun v => sameMachine hs v a) = cb
        cases hkx : x.kind <;> cases hky : y.kind <;> cases va <;> cases vb <;> cases ca <;> cases cb <;>
          first
            | (simp [scpFrom_spec]; done)
            | (simp [holds_optional_err]; done)
            | (simp [holds, observe]; done)

/-- **C20 holds of the model**, for every well-formed case: any number of machines of any kinds, any
class relations, any strings. -/
theorem run_spec (c : Case) (hwf : c.wf = true) : Spec.C20 c (observe (run c)) = true := by
  unfold Spec.C20 want run
  cases c.op with
  | connect i => exact connect_spec c.hosts i
  | copy a pa b pb => exact copy_spec c.hosts hwf a pa b pb


/-! ## the statements of the property, one by one -/

/-- the `mkdir -p <workdir>/.ssh-multi` that precedes a multiplexed connection -/
def mkdirEvent (v : Nat) (wd : Str) : Event :=
  ⟨⟨v, 0⟩, false, [.s (lit "mkdir"), .s (lit "-p"), .p ⟨v, 0⟩ (muxDir wd)]⟩

/-- **ssh.**  Opening ssh machine `m` (created from machine `v`) with an authenticator usable on `v`
runs exactly one `open_channel` on a clone of `v` (preceded by the `mkdir` iff multiplexing is on), and
its argv parses to: the password (iff a password authenticator), program `ssh`, the `-o` values
`wantOpts` (BatchMode unless password, StrictHostKeyChecking=no iff configured, the three
multiplexing options iff enabled, every configured extra option), the key (iff a key
authenticator), the configured port, and `user@host` of `m` — nothing else. -/
theorem connect_canon (hs : List Host) (i v : Nat) (m jh : Host) (ids : List Str)
    (hi : hs[i]? = some m) (hv : m.via = some v) (hj : hs[v]? = some jh)
    (hid : wantIdents hs v (authOf m) = some ids) :
    ∃ argv, connect hs i = ⟨none, (if muxOf m then [mkdirEvent v jh.wd] else []) ++ [⟨⟨v, 1⟩, true, argv⟩]⟩ ∧
      parseSsh argv = some ⟨wantPw (authOf m), lit "ssh", wantOpts (eff hs i m) jh.wd, ids,
        [natStr (portOf m)], [.s (userOf hs hs.length i ++ '@' :: hostnameOf m)]⟩ := by
  unfold connect
  simp only [hi, hv, hj]
  cases hh : sshHead hs v (authOf m) with
  | error e => rw [sshHead_error hs v _ e hh] at hid; cases hid
  | ok head =>
    obtain ⟨ids', hid', hp⟩ := parseSsh_sshArgv hs v _ head hh (hkOf m)
      (if muxOf m then some jh.wd else none) (portOf m) (optsOf m) (userOf hs hs.length i) (hostnameOf m)
    rw [hid] at hid'
    cases hid'
    refine ⟨_, rfl, ?_⟩
    rw [hp, wantOpts_eq]
    rfl

/-- **scp, both directions.**  `_scp_copy` with the parameters of remote machine `r`, run on `lh`
with an authenticator usable there: exactly one `exec0` on `lh`, whose argv parses to the
password / program `scp` / a permutation of `wantOpts` of `r` / the key / the port of `r`, and
the operands `local, user@host:remote` (to the remote) or `user@host:remote, local` (from it). -/
theorem scpFrom_canon (hs : List Host) (r lh : Nat) (lp rp : Str) (to : Bool) (m l : Host)
    (ids : List Str) (hr : hs[r]? = some m) (hl : hs[lh]? = some l)
    (hid : wantIdents hs lh (authOf m) = some ids) :
    ∃ argv p, scpFrom hs r lh lp rp to = ⟨none, [⟨⟨lh, 0⟩, false, argv⟩]⟩ ∧ parseScp argv = some p ∧
      p.pw = wantPw (authOf m) ∧ p.prog = lit "scp" ∧ p.oOpts.Perm (wantOpts (eff hs r m) l.wd) ∧
      p.idents = ids ∧ p.ports = [natStr (portOf m)] ∧
      p.operands =
        (if to then [.p ⟨lh, 0⟩ lp, .s (userOf hs hs.length r ++ '@' :: hostnameOf m ++ ':' :: rp)]
         else [.s (userOf hs hs.length r ++ '@' :: hostnameOf m ++ ':' :: rp), .p ⟨lh, 0⟩ lp]) := by
  unfold scpFrom scpCopy
  simp only [hr, hl]
  cases hh : scpAuth hs lh (scpBase (portOf m) (hkOf m) (optsOf m) (if muxOf m then some l.wd else none))
      (authOf m) with
  | error e => rw [scpAuth_error hs lh _ _ e hh] at hid; cases hid
  | ok cmd =>
    obtain ⟨ids', hid', hp⟩ := parseScp_scpArgv hs lh _ _ _ _ _ cmd
      (scpOperands lh lp (userOf hs hs.length r) (hostnameOf m) rp to) hh (scpOperands_length _ _ _ _ _ _)
    rw [hid] at hid'
    cases hid'
    refine ⟨_, _, rfl, hp, rfl, rfl, scpOpts_perm (eff hs r m) l.wd, rfl, rfl, ?_⟩
    cases to <;> rfl

/-- what `copy` does, by the relation of the two machines -/
theorem copy_by_role (hs : List Host) (hwf : hostsWf hs = true) (a : Nat) (pa : Str) (b : Nat) (pb : Str) :
    match role hs a b with
    | .same => copy hs a pa b pb = ⟨none, [⟨⟨a, 0⟩, false, [.s (lit "cp"), .p ⟨a, 0⟩ pa, .p ⟨a, 0⟩ pb]⟩]⟩
    | .fromRemote => copy hs a pa b pb = scpFrom hs a b pb pa false
    | .toRemote => copy hs a pa b pb = scpFrom hs b a pa pb true
    | .fromRemoteViaClone | .toRemoteViaClone | .unsupported => ∃ e, copy hs a pa b pb = ⟨some e, []⟩ := by
  unfold copy role
  cases ha : hs[a]? with
  | none =>
    cases hb : hs[b]? with
    | none => simp [sameMachine, classRelated, isKind, kindOf, isRemote, viaOf, ha, hb,
        viaEquals_none_left]
    | some y =>
      simp [sameMachine, classRelated, isKind, kindOf, isRemote, viaOf, ha, hb,
        viaEquals_none_left, viaEquals_none_right]
      by_cases h : (y.kind = Kind.ssh ∧ y.via = some a) <;> simp [h, scpFrom, scpCopy, ha, hb]
  | some x =>
    cases hb : hs[b]? with
    | none =>
      simp [sameMachine, classRelated, isKind, kindOf, isRemote, viaOf, ha, hb,
        viaEquals_none_left, viaEquals_none_right]
      by_cases h : (x.kind = Kind.ssh ∧ x.via = some b) <;> simp [h, scpFrom, scpCopy, ha, hb]
    | some y =>
      simp only [Option.isNone_some, Bool.or_self, Bool.false_eq_true, if_false]
      cases hc : classRelated hs a b with
      | true =>
        simp only [if_true]
        cases hsm : sameMachine hs b a with
        | true =>
          have hsm' : sameMachine hs a b = true := by rw [sameMachine_comm]; exact hsm
          simp [hsm']
        | false =>
          have hsm' : sameMachine hs a b = false := by rw [sameMachine_comm]; exact hsm
          simp [hsm']
      | false =>
        have hsm' : sameMachine hs a b = false := by
          cases h : sameMachine hs a b with
          | false => rfl
          | true => rw [related_of_same hs hwf a b h] at hc; cases hc
        simp only [hsm', Bool.false_eq_true, if_false]
        simp only [viaEquals, isKind, isRemote, kindOf, ha, hb, Option.map_some]
        generalize (viaOf hs a == some b) = va
        generalize (viaOf hs b == some a) = vb
        generalize ((viaOf hs a).any fun v => sameMachine hs v b) = ca
        generalize ((viaOf hs b).any fun v => sameMachine hs v a) = cb
        cases hkx : x.kind <;> cases hky : y.kind <;> cases va <;> cases vb <;> cases ca <;> cases cb <;> simp

/-- **copy to the remote end** (lab-host → ssh machine created from it, local host → ssh / paramiko
machine): one scp on `a` with the parameters of `b`, operands `local, user@host:remote`. -/
theorem copy_to_remote_canon (hs : List Host) (hwf : hostsWf hs = true) (a : Nat) (pa : Str) (b : Nat)
    (pb : Str) (m l : Host) (ids : List Str) (hrole : role hs a b = .toRemote)
    (hb : hs[b]? = some m) (ha : hs[a]? = some l) (hid : wantIdents hs a (authOf m) = some ids) :
    ∃ argv p, copy hs a pa b pb = ⟨none, [⟨⟨a, 0⟩, false, argv⟩]⟩ ∧ parseScp argv = some p ∧
      p.pw = wantPw (authOf m) ∧ p.prog = lit "scp" ∧ p.oOpts.Perm (wantOpts (eff hs b m) l.wd) ∧
      p.idents = ids ∧ p.ports = [natStr (portOf m)] ∧
      p.operands = [.p ⟨a, 0⟩ pa, .s (userOf hs hs.length b ++ '@' :: hostnameOf m ++ ':' :: pb)] := by
  have h := copy_by_role hs hwf a pa b pb
  rw [hrole] at h
  simp only at h
  rw [h]
  simpa using scpFrom_canon hs b a pa pb true m l ids hb ha hid

/-- **copy from the remote end** (ssh machine → lab-host it was created from, ssh / paramiko machine
→ local host): one scp on `b` with the parameters of `a`, operands `user@host:remote, local`. -/
theorem copy_from_remote_canon (hs : List Host) (hwf : hostsWf hs = true) (a : Nat) (pa : Str) (b : Nat)
    (pb : Str) (m l : Host) (ids : List Str) (hrole : role hs a b = .fromRemote)
    (ha : hs[a]? = some m) (hb : hs[b]? = some l) (hid : wantIdents hs b (authOf m) = some ids) :
    ∃ argv p, copy hs a pa b pb = ⟨none, [⟨⟨b, 0⟩, false, argv⟩]⟩ ∧ parseScp argv = some p ∧
      p.pw = wantPw (authOf m) ∧ p.prog = lit "scp" ∧ p.oOpts.Perm (wantOpts (eff hs a m) l.wd) ∧
      p.idents = ids ∧ p.ports = [natStr (portOf m)] ∧
      p.operands = [.s (userOf hs hs.length a ++ '@' :: hostnameOf m ++ ':' :: pa), .p ⟨b, 0⟩ pb] := by
  have h := copy_by_role hs hwf a pa b pb
  rw [hrole] at h
  simp only at h
  rw [h]
  simpa using scpFrom_canon hs a b pb pa false m l ids ha hb hid

/-- **same machine**: a plain `cp` there, nothing else -/
theorem copy_same_machine (hs : List Host) (hwf : hostsWf hs = true) (a : Nat) (pa : Str) (b : Nat)
    (pb : Str) (hrole : role hs a b = .same) :
    copy hs a pa b pb = ⟨none, [⟨⟨a, 0⟩, false, [.s (lit "cp"), .p ⟨a, 0⟩ pa, .p ⟨a, 0⟩ pb]⟩]⟩ := by
  have h := copy_by_role hs hwf a pa b pb
  rw [hrole] at h
  exact h

/-- **unsupported pairings raise and run no command** (two remote machines, a remote machine and
a lab-host it was not created from, two different machines of related classes, …) -/
theorem copy_unsupported (hs : List Host) (hwf : hostsWf hs = true) (a : Nat) (pa : Str) (b : Nat)
    (pb : Str) (hrole : role hs a b = .unsupported) :
    ∃ e, copy hs a pa b pb = ⟨some e, []⟩ := by
  have h := copy_by_role hs hwf a pa b pb
  rw [hrole] at h
  exact h

/-- an authenticator that cannot be used on the executing host (a tbot-`Path` key of another
machine, an unknown authenticator) raises and runs no command — for ssh and for scp -/
theorem refused_authenticator (hs : List Host) (r lh : Nat) (lp rp : Str) (to : Bool) (m : Host)
    (hr : hs[r]? = some m) (hid : wantIdents hs lh (authOf m) = none) :
    ∃ e, scpFrom hs r lh lp rp to = ⟨some e, []⟩ := by
  unfold scpFrom scpCopy
  simp only [hr]
  cases hl : hs[lh]? with
  | none => exact ⟨_, rfl⟩
  | some l =>
    simp only []
    cases hh : scpAuth hs lh (scpBase (portOf m) (hkOf m) (optsOf m) (if muxOf m then some l.wd else none))
        (authOf m) with
    | error e => exact ⟨e, rfl⟩
    | ok cmd =>
      obtain ⟨ids, hid', _⟩ := parseScp_scpArgv hs lh _ _ _ _ _ cmd [.s [], .s []] hh rfl
      rw [hid] at hid'
      cases hid'


/-- … and so does opening the ssh machine itself -/
theorem connect_refused (hs : List Host) (i v : Nat) (m : Host) (hi : hs[i]? = some m)
    (hv : m.via = some v) (hid : wantIdents hs v (authOf m) = none) :
    ∃ e, connect hs i = ⟨some e, []⟩ := by
  unfold connect
  simp only [hi, hv]
  cases hj : hs[v]? with
  | none => exact ⟨_, rfl⟩
  | some jh =>
    simp only []
    cases hh : sshHead hs v (authOf m) with
    | error e => exact ⟨e, rfl⟩
    | ok head =>
      obtain ⟨ids, hid', _⟩ := parseSsh_sshArgv hs v _ head hh false none 0 [] [] []
      rw [hid] at hid'
      cases hid'

/-! ## "iff" statements, as multiset counts (the configured extra options may themselves contain
any of these strings; they are passed through, never dropped or doubled) -/

theorem controlPath_head (wd : Str) :
    ∃ rest, controlPath wd = 'C' :: 'o' :: 'n' :: 't' :: 'r' :: 'o' :: 'l' :: 'P' :: 'a' :: rest :=
  ⟨_, rfl⟩

theorem controlPath_ne (wd : Str) :
    (controlPath wd == batchMode) = false ∧ (controlPath wd == noHostKey) = false
      ∧ (controlPath wd == ctlMaster) = false ∧ (controlPath wd == ctlPersist) = false := by
  obtain ⟨rest, h⟩ := controlPath_head wd
  rw [h]
  refine ⟨?_, ?_, ?_, ?_⟩ <;> simp [batchMode, noHostKey, ctlMaster, ctlPersist, lit]

/-- **`BatchMode=yes` iff no password**: it is asked for exactly once more than the configured
extra options contain it, unless a password authenticator is used. -/
theorem count_batchMode (e : Eff) (wd : Str) :
    (wantOpts e wd).count batchMode
      = (if e.auth.isPassword then 0 else 1) + e.opts.count batchMode := by
  have h1 : (noHostKey == batchMode) = false := by decide
  have h2 : (ctlMaster == batchMode) = false := by decide
  have h3 : (ctlPersist == batchMode) = false := by decide
  have h4 := (controlPath_ne wd).1
  unfold wantOpts
  cases e.auth.isPassword <;> cases e.hk <;> cases e.mux <;>
    simp [List.count_cons, h1, h2, h3, h4] <;> omega

/-- **`StrictHostKeyChecking=no` iff `ignore_hostkey`** -/
theorem count_noHostKey (e : Eff) (wd : Str) :
    (wantOpts e wd).count noHostKey = (if e.hk then 1 else 0) + e.opts.count noHostKey := by
  have h1 : (batchMode == noHostKey) = false := by decide
  have h2 : (ctlMaster == noHostKey) = false := by decide
  have h3 : (ctlPersist == noHostKey) = false := by decide
  have h4 := (controlPath_ne wd).2.1
  unfold wantOpts
  cases e.auth.isPassword <;> cases e.hk <;> cases e.mux <;>
    simp [List.count_cons, h1, h2, h3, h4] <;> omega

/-- **multiplexing options iff `use_multiplexing`** (shown for `ControlMaster=auto`; the other two
come and go with it by the definition of `wantOpts`) -/
theorem count_ctlMaster (e : Eff) (wd : Str) :
    (wantOpts e wd).count ctlMaster = (if e.mux then 1 else 0) + e.opts.count ctlMaster := by
  have h1 : (batchMode == ctlMaster) = false := by decide
  have h2 : (noHostKey == ctlMaster) = false := by decide
  have h3 : (ctlPersist == ctlMaster) = false := by decide
  have h4 := (controlPath_ne wd).2.2.1
  unfold wantOpts
  cases e.auth.isPassword <;> cases e.hk <;> cases e.mux <;>
    simp [List.count_cons, h1, h2, h3, h4] <;> omega

/-- the socket path is below the work directory of the *executing* host, and present iff enabled -/
theorem controlPath_mem (e : Eff) (wd : Str) (h : e.mux = true) : controlPath wd ∈ wantOpts e wd := by
  simp [wantOpts, h]

/-- **What acceptance by the Spec means for an observed command line** (this is what is evaluated on
the implementation): same password, same program, the same `-o` values with the same
multiplicities, same identity files, same port, same operands. -/
theorem spec_parsed_params (p q : Parsed) (h : Cmd.same (.parsed p) (.parsed q) = true) :
    p.pw = q.pw ∧ p.prog = q.prog ∧ (∀ x, p.oOpts.count x = q.oOpts.count x) ∧ p.idents = q.idents
      ∧ p.ports = q.ports ∧ argsSame p.operands q.operands = true := by
  simp only [Cmd.same, Bool.and_eq_true, beq_iff_eq, List.isPerm_iff] at h
  obtain ⟨⟨⟨⟨⟨h1, h2⟩, h3⟩, h4⟩, h5⟩, h6⟩ := h
  exact ⟨h1, h2, fun x => h3.count_eq x, h4, h5, h6⟩


/-! ## non-vacuity: a concrete machine set that satisfies the hypotheses of every theorem above -/

/-- 0 = local host, 1 = generic lab-host, 2 = ssh machine created from 1 with every attribute
configured, 3 = an ssh machine created from 0 with defaults only, 4 = a clone of 1 -/
def exHosts : List Host :=
  [ ⟨.loc, 0, [0], 0, none, lit "me", lit "/tmp/wd", {}⟩,
    ⟨.generic, 1, [1], 1, none, lit "lab", lit "/home/lab/wd", {}⟩,
    ⟨.ssh, 2, [2], 2, some 1, [], lit "/r",
      { user := some (lit "root"), host := some (lit "board"), port := some 2222, hk := some true,
        opts := some [lit "ProxyJump=gw"], auth := some (.keyStr (lit "/k/id")), mux := some true }⟩,
    ⟨.ssh, 3, [3], 3, some 0, [], lit "/r", { host := some (lit "other") }⟩,
    ⟨.generic, 1, [1], 1, none, lit "lab", lit "/home/lab/wd", {}⟩ ]

def exCase (op : Op) : Case := ⟨true, exHosts, op⟩

example : (exCase (.connect 2)).wf = true := by decide
example : role exHosts 0 2 = .toRemote := by decide        -- local host → ssh machine
example : role exHosts 2 0 = .fromRemote := by decide      -- ssh machine → unrelated local host (F11's branch)
example : role exHosts 1 2 = .toRemote := by decide        -- lab-host → ssh machine created from it
example : role exHosts 2 1 = .fromRemote := by decide
example : role exHosts 1 4 = .same := by decide            -- a machine and its clone
example : role exHosts 2 3 = .unsupported := by decide     -- two remote machines
example : role exHosts 2 4 = .fromRemoteViaClone := by decide   -- a clone of the host it was created from: may be refused
example : role exHosts 2 0 = .fromRemote ∧ role exHosts 3 1 = .unsupported := by decide  -- ssh machine and a lab-host it was not created from
example : wantIdents exHosts 0 (authOf exHosts[2]) = some [lit "/k/id"] := by decide
example : userOf exHosts exHosts.length 3 = lit "me" := by decide   -- default user: the jump host's
example : ((run (exCase (.copy 2 (lit "/src/f") 0 (lit "/dst/g")))).events.map (·.argv.length)) = [19] := by
  decide

/-- The observation of the tree before the F11 repair (remote → local: the remote's extra option
`ProxyJump=gw` missing from the scp command line) is rejected by the Spec. -/
def f11Obs : Obs :=
  ⟨none, [⟨⟨0, 0⟩, false, .parsed ⟨none, lit "scp",
    [noHostKey, ctlMaster, ctlPersist, controlPath (lit "/tmp/wd"), batchMode], [lit "/k/id"],
    [natStr 2222], [.s (lit "root@board:/src/f"), .p ⟨0, 0⟩ (lit "/dst/g")]⟩⟩]⟩

example : Spec.C20 (exCase (.copy 2 (lit "/src/f") 0 (lit "/dst/g"))) f11Obs = false := by decide
example : Spec.C20 (exCase (.copy 2 (lit "/src/f") 0 (lit "/dst/g")))
    (observe (run (exCase (.copy 2 (lit "/src/f") 0 (lit "/dst/g"))))) = true := by decide

end C20
