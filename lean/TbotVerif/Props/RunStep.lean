import TbotVerif.Props.RunSim
/-! C10 — the simulation step for the calls that type something (`send`, `sendline`,
    `sendcontrol`), for calls on a proxy that has ended, and for uses of the machine's channel. -/

namespace Run
open Chan Spec

theorem sim_slot_false {c : Case} {p : PSt} {r : Ref} (h : Sim c p r) (hph : r.phase ≠ .running) :
    p.slot = false := by
  cases hp : r.phase with
  | running => exact absurd hp hph
  | ended => exact (h.ended hp).1
  | terminated => exact (h.terminated hp).2.1

theorem phase_bne {r : Ref} (hph : r.phase ≠ .running) : (r.phase != .running) = true := by
  cases hp : r.phase with
  | running => exact absurd hp hph
  | ended => rfl
  | terminated => rfl

theorem phase_beq {r : Ref} (hph : r.phase = .running) : (r.phase != .running) = false := by
  rw [hph]; rfl

/-- a rejected `send`: nothing happens to the channel -/
theorem send_illegal_op (r : RunSt) (payload : Bytes) (rb : Bool) (hne : payload.isEmpty = false)
    (hf : forbidden r.st.blacklist payload = true) :
    obsOp (.send payload rb none false) r
      = ({ res := .err .illegal, t0 := r.st.now, t1 := r.st.now, reads := [], writes := [], fwd := [] }, C05.cutR r) := by
  have hs : send payload rb none false (C03.cut r.st) = (.error .illegal, C03.cut r.st) := by
    unfold send
    rw [if_neg (by rw [hne]; simp)]
    have : forbidden (C03.cut r.st).blacklist payload = true := hf
    simp [this]
  simp only [obsOp, runOp]
  have hcut : ({ r.st with reads := [], writes := [], fwd := [] } : St) = C03.cut r.st := rfl
  rw [hcut, hs]
  rfl

theorem rel_cut {m : DeathMon} {r : RunSt} (h : C05.Rel m r) : C05.Rel m (C05.cutR r) :=
  ⟨h.deaths, h.frames, h.next, h.inv⟩

/-- an operation that reads nothing and leaves the pending data alone, on the running proxy:
    the remote may have answered (`extra`) -/
theorem quiet_sim (c : Case) (p : PSt) (r : Ref) (h : Sim c p r) (hph : r.phase = .running) (op : Op)
    (hnr : isReadOp op = false) (hplain : plainOp op = true) (hopok : ChanCase.opOk op = true)
    (sizes : List Nat) (extra : Bytes) (rem' : Rem)
    (hstep : (Cfg.ofRun (load sizes extra p.r)).step op = Cfg.ofRun (load sizes extra p.r))
    (hscript : (obsOp op (load sizes extra p.r)).2.st.script = (load sizes extra p.r).st.script)
    (hpok' : promptOk (prompt c) (r.since ++ (r.pend ++ extra)) rem'.status = true)
    (hlen' : rem'.status.isSome = true → (prompt c).length ≤ (r.pend ++ extra).length) :
    Sim c { p with rem := rem', r := (obsOp op (load sizes extra p.r)).2 }
      { r with rem := rem', pend := r.pend ++ extra } := by
  obtain ⟨hslot, halive, hgen, hearly, hmon, _, _⟩ := h.running hph
  generalize hr1 : load sizes extra p.r = r1 at hstep hscript
  have hg1 : C03.Good r1.st := by rw [← hr1]; exact load_good _ _ _ h.good
  have hp1 : pending r1.st = r.pend ++ extra := by rw [← hr1, load_pending, h.pend]
  have hprm1 : r1.st.prompt = some (.lit (prompt c)) := by rw [← hr1]; exact h.prm
  have hbl1 : r1.st.blacklist = blacklist c := by rw [← hr1]; exact h.bl
  obtain ⟨m, id, hrel, hregs, hfr⟩ := hmon
  have hrel1 : C05.Rel m r1 := by rw [← hr1]; exact rel_load _ _ hrel
  have hok : C05.opDeathOk op := by
    cases op <;> simp [plainOp] at hplain <;> exact trivial
  obtain ⟨_, h2⟩ := C05.c05_step m r1 op hrel1 hok
  rw [c05_quiet_eq m op _ hnr hplain] at h2
  have hk := ChanCase.keeps r1 op hg1 hopok
  obtain ⟨hprm2, hbl2⟩ := keeps_cfg hk hstep
  refine ⟨rfl, h.ps1, hk.good, ?_, by rw [hbl2]; exact hbl1, by rw [hprm2]; exact hprm1, h.own, ?_, ?_, ?_⟩
  · show pending (obsOp op r1).2.st = r.pend ++ extra
    simp only [pending, hscript]
    exact hp1
  · intro _
    exact ⟨hslot, halive, hgen, hearly, ⟨m, id, h2, hregs, hfr⟩, hpok', hlen'⟩
  · intro hc; rw [hph] at hc; simp at hc
  · intro hc; rw [hph] at hc; simp at hc

theorem key_gain (ps1 : Bytes) (c : Byte) (m : Rem) :
    gain ps1 m.status (key ps1 c m).2.status ≤ (key ps1 c m).1.length := by
  by_cases hc : c = 4
  · subst hc
    unfold key
    cases hst : m.status with
    | some st => simp [gain, hst]
    | none =>
      simp only [Option.isSome_none, Bool.false_eq_true, if_false]
      have h43 : ((4 : Byte) == 3) = false := by decide
      simp only [h43, Bool.false_eq_true, if_false, beq_self_eq_true, if_true]
      split
      · simp [gain, hst]
      · split
        · exact complete_len ps1 _ m hst
        · exact complete_len ps1 _ m hst
  · have := key_len ps1 c m hc
    omega

theorem four_forbidden (c : Case) : (4 : Byte) ∈ blacklist c := by
  unfold blacklist
  cases c.ash <;> decide

theorem no_four (c : Case) (payload : Bytes) (h : forbidden (blacklist c) payload = false) :
    ∀ x ∈ payload, x ≠ 4 := by
  intro x hx hx4
  subst hx4
  have : forbidden (blacklist c) payload = true := (C03.forbidden_iff _ _).mpr ⟨4, four_forbidden c, hx⟩
  rw [h] at this; simp at this

theorem typed_eq (ps1 : Bytes) (b : Bytes) (r : Ref) (hst : r.rem.status = none) :
    r.typed ps1 b =
      if promptOk ps1 (r.since ++ (r.pend ++ (type ps1 b r.rem).1)) (type ps1 b r.rem).2.status
      then .ok { r with rem := (type ps1 b r.rem).2, pend := r.pend ++ (type ps1 b r.rem).1 } else .outside := by
  unfold Ref.typed
  simp [hst]

theorem react_alive (ps1 b : Bytes) (m : Rem) (hst : m.status = none) : react ps1 b m = type ps1 b m := by
  unfold react; rw [hst]

/-- `send` / `sendline` -/
theorem send_sim (c : Case) (p : PSt) (r : Ref) (h : Sim c p r) (payload : Bytes) (rb : Bool) (sizes : List Nat) :
    match Ref.sendLike (prompt c) (blacklist c) payload rb (proxySend payload rb sizes p).1 r with
    | .ok r' => Sim c (proxySend payload rb sizes p).2 r'
    | .bad => False
    | _ => True := by
  unfold Ref.sendLike proxySend
  cases hemp : payload.isEmpty with
  | true => simp only [if_true]; exact h
  | false =>
    simp only [Bool.false_eq_true, if_false]
    by_cases hph' : ¬ r.phase = .running
    · rw [phase_bne hph', sim_slot_false h hph']
      simp only [Bool.not_false, if_true]
      exact h
    have hph : r.phase = .running := Decidable.not_not.mp hph'
    obtain ⟨hslot, halive, hgen, hearly, hmon, hpok, hlenp⟩ := h.running hph
    have hns : (!p.slot) = false := by rw [hslot]; rfl
    rw [phase_beq hph, hns]
    simp only [Bool.false_eq_true, if_false]
    rw [h.bl]
    cases hforb : forbidden (blacklist c) payload with
    | true =>
      simp only [if_true]
      unfold proxyIO
      simp only [hns, Bool.false_eq_true, if_false]
      have hbl1 : (load sizes [] p.r).st.blacklist = blacklist c := h.bl
      rw [send_illegal_op (load sizes [] p.r) payload rb hemp (by rw [hbl1]; exact hforb)]
      simp only [resOf, tagOf, sizesOf, List.filterMap_nil]
      have hg1 := load_good sizes [] p.r h.good
      obtain ⟨m, id, hrel, hregs, hfr⟩ := hmon
      refine ⟨h.rem, h.ps1, hg1.cut, ?_, h.bl, h.prm, h.own, ?_, ?_, ?_⟩
      · show pending (load sizes [] p.r).st = r.pend
        rw [load_pending, h.pend, List.append_nil]
      · intro _
        exact ⟨hslot, halive, hgen, hearly, ⟨m, id, rel_cut (rel_load _ _ hrel), hregs, hfr⟩, hpok, hlenp⟩
      · intro hc; rw [hph] at hc; simp at hc
      · intro hc; rw [hph] at hc; simp at hc
    | false =>
      simp only [Bool.false_eq_true, if_false]
      cases htyp : typable payload with
      | false => simp
      | true =>
        simp only [Bool.not_true, Bool.false_eq_true, if_false]
        cases hrbp : (rb && !r.pend.isEmpty) with
        | true => simp
        | false =>
          simp only [Bool.false_eq_true, if_false]
          cases hst : r.rem.status with
          | some st => simp [Ref.typed, hst]
          | none =>
            rw [typed_eq _ _ _ hst, h.ps1, h.rem, react_alive _ _ _ hst]
            cases hpok' : promptOk (prompt c) (r.since ++ (r.pend ++ (type (prompt c) payload r.rem).1))
                (type (prompt c) payload r.rem).2.status with
            | false => simp
            | true =>
              simp only [if_true]
              generalize hout : (type (prompt c) payload r.rem).1 = out at hpok'
              generalize hrem' : (type (prompt c) payload r.rem).2 = rem' at hpok'
              have htl := type_len (prompt c) payload r.rem (no_four c payload hforb)
              rw [hout, hrem', hst] at htl
              have hgain : rem'.status.isSome = true → (prompt c).length ≤ out.length - Tty.readBackLen payload
                  ∧ Tty.readBackLen payload ≤ out.length := by
                intro hs
                have : gain (prompt c) none rem'.status = (prompt c).length := by simp [gain, hs]
                omega
              have hrbl : Tty.readBackLen payload ≤ out.length := by omega
              cases rb with
              | false =>
                simp only [Bool.not_false, if_true]
                have hg1 := load_good sizes out p.r h.good
                have hbl1 : (load sizes out p.r).st.blacklist = blacklist c := h.bl
                obtain ⟨hres, hsz, hscr⟩ := send_norb_op (load sizes out p.r) payload hg1 (by rw [hbl1]; exact hforb)
                unfold proxyIO
                simp only [hns, Bool.false_eq_true, if_false]
                have hsim := quiet_sim c p r h hph (.send payload false none false) rfl rfl rfl sizes out rem' rfl hscr hpok'
                  (fun hs => by have := (hgain hs).1; simp only [List.length_append]; omega)
                generalize obsOp (.send payload false none false) (load sizes out p.r) = o2 at hres hsz hsim
                obtain ⟨o, r2⟩ := o2
                simp only at hres hsz hsim ⊢
                rw [hres]
                have hb : (TRes.unit == TRes.unit) = true := rfl
                simp only [resOf, hsz, hb, List.isEmpty_nil, Bool.and_self, if_true]
                rw [h.ps1] at hsim
                exact hsim
              | true =>
                simp only [Bool.not_true, Bool.false_eq_true, if_false]
                simp only [Bool.true_and, Bool.not_eq_false', List.isEmpty_iff] at hrbp
                have hpend0 : r.pend = [] := by
                  cases hp : r.pend with
                  | nil => rfl
                  | cons x xs => rw [hp] at hrbp; simp at hrbp
                generalize hr1 : load sizes out p.r = r1
                have hg1 : C03.Good r1.st := by rw [← hr1]; exact load_good _ _ _ h.good
                have hz1 : Z r1.st := by rw [← hr1]; exact load_z _ _ _
                have hp1 : pending r1.st = out := by rw [← hr1, load_pending, h.pend, hpend0, List.nil_append]
                have hprm1 : r1.st.prompt = some (.lit (prompt c)) := by rw [← hr1]; exact h.prm
                have hbl1 : r1.st.blacklist = blacklist c := by rw [← hr1]; exact h.bl
                have hmon1 : Mon1 (prompt c) r.since r1 := by
                  obtain ⟨m, id, hrel, hregs, hfr⟩ := hmon
                  rw [← hr1]
                  exact ⟨m, id, rel_load _ _ hrel, hregs, hfr⟩
                have hm := read_mon (prompt c) r.since (prompt_ne c) r1 (.send payload true none false) rfl rfl hg1 hmon1
                have hle := send_rb_le r1 payload hg1 hz1
                have hk := ChanCase.keeps r1 (.send payload true none false) hg1 rfl
                simp only at hm
                obtain ⟨hkle, hflat, hpend2, hg2, hnocc, hdeath, m', id, hrel', hregs', hframes'⟩ := hm
                rw [hp1] at hkle hflat hpend2 hdeath hregs'
                rw [hpend0, List.nil_append] at hpok'
                have hne := noEarly_of _ _ _ hpok'
                have hocc := occurs_take_iff (prompt c) r.since out rem'.status.isSome _ hkle (prompt_ne c) hne hnocc
                have hnd : deathOf (obsOp (.send payload true none false) r1).1.res = none := by
                  cases hd : deathOf (obsOp (.send payload true none false) r1).1.res with
                  | none => rfl
                  | some v =>
                    exfalso
                    have h1 : (deathOf (obsOp (.send payload true none false) r1).1.res).isSome = true := by rw [hd]; rfl
                    obtain ⟨hs, hkeq, _⟩ := hocc.mp (hdeath.mp h1)
                    have := (hgain hs).1
                    have hpl : 0 < (prompt c).length := List.length_pos_iff.mpr (prompt_ne c)
                    omega
                obtain ⟨hres, hsum, _⟩ := send_rb_op r1 payload hg1 hz1 (by rw [hbl1]; exact hforb) (by rw [hp1]; exact hrbl) hnd
                obtain ⟨hprm2, hbl2⟩ := keeps_cfg hk rfl
                unfold proxyIO
                simp only [hns, Bool.false_eq_true, if_false, hr1]
                generalize obsOp (.send payload true none false) r1 = o2 at hres hsum hnd hpend2 hg2 hrel' hregs' hprm2 hbl2
                obtain ⟨o, r2⟩ := o2
                simp only at hres hsum hnd hpend2 hg2 hrel' hregs' hprm2 hbl2 ⊢
                rw [hres]
                have hb : (TRes.unit == TRes.unit) = true := rfl
                simp only [resOf, hsum, hb, beq_self_eq_true, Bool.true_and, hpend0, List.nil_append,
                  decide_eq_true_eq.mpr hrbl, if_true]
                refine ⟨rfl, rfl, hg2, ?_, by rw [hbl2]; exact hbl1, by rw [hprm2]; exact hprm1, h.own, ?_, ?_, ?_⟩
                · show pending r2.st = out.drop (Tty.readBackLen payload)
                  rw [hpend2, hsum]
                · intro _
                  refine ⟨hslot, halive, hgen, hearly, ⟨m', id, hrel', ?_, hframes'⟩, ?_, ?_⟩
                  · rw [hregs', hnd, hsum]; rfl
                  · show promptOk (prompt c) ((r.since ++ out.take (Tty.readBackLen payload)) ++ out.drop (Tty.readBackLen payload)) rem'.status = true
                    rw [List.append_assoc, List.take_append_drop]
                    exact hpok'
                  · intro hs
                    show (prompt c).length ≤ (out.drop (Tty.readBackLen payload)).length
                    have := (hgain hs).1
                    simp only [List.length_drop]
                    exact this
                · intro hc; exact absurd (show r.phase = _ from hc) (by rw [hph]; simp)
                · intro hc; exact absurd (show r.phase = _ from hc) (by rw [hph]; simp)

theorem type_single (ps1 : Bytes) (c : Byte) (m : Rem) : type ps1 [c] m = ((key ps1 c m).1 ++ [], (key ps1 c m).2) := rfl

/-- `sendcontrol` -/
theorem sendcontrol_sim (c : Case) (p : PSt) (r : Ref) (h : Sim c p r) (n : Nat) (sizes : List Nat) :
    match Ref.step (prompt c) (blacklist c) (.sendcontrol n) (proxySendcontrol n sizes p).1 r with
    | .ok r' => Sim c (proxySendcontrol n sizes p).2 r'
    | .bad => False
    | _ => True := by
  unfold Ref.step proxySendcontrol
  simp only
  by_cases hph' : ¬ r.phase = .running
  · rw [phase_bne hph', sim_slot_false h hph']
    simp only [Bool.not_false, if_true]
    exact h
  have hph : r.phase = .running := Decidable.not_not.mp hph'
  obtain ⟨hslot, halive, hgen, hearly, hmon, hpok, hlenp⟩ := h.running hph
  have hns : (!p.slot) = false := by rw [hslot]; rfl
  rw [phase_beq hph, hns]
  simp only [Bool.false_eq_true, if_false]
  cases hn34 : (n != 3 && n != 4) with
  | true => simp
  | false =>
    simp only [Bool.false_eq_true, if_false]
    have hn : n = 3 ∨ n = 4 := by
      simp only [Bool.and_eq_false_iff, bne_eq_false_iff_eq] at hn34
      exact hn34
    have hle : n ≤ 0x1F := by rcases hn with rfl | rfl <;> decide
    rw [if_pos hle]
    cases hst : r.rem.status with
    | some st => simp [Ref.typed, hst]
    | none =>
      rw [typed_eq _ _ _ hst, h.ps1, h.rem, react_alive _ _ _ hst]
      cases hpok' : promptOk (prompt c) (r.since ++ (r.pend ++ (type (prompt c) [UInt8.ofNat n] r.rem).1))
          (type (prompt c) [UInt8.ofNat n] r.rem).2.status with
      | false => simp
      | true =>
        simp only [if_true]
        have hg := key_gain (prompt c) (UInt8.ofNat n) r.rem
        rw [hst] at hg
        have hty := type_single (prompt c) (UInt8.ofNat n) r.rem
        generalize hout : (type (prompt c) [UInt8.ofNat n] r.rem).1 = out at hpok'
        generalize hrem' : (type (prompt c) [UInt8.ofNat n] r.rem).2 = rem' at hpok'
        have hg' : gain (prompt c) none rem'.status ≤ out.length := by
          rw [← hout, ← hrem', hty]
          simpa using hg
        have hg1 := load_good sizes out p.r h.good
        obtain ⟨hres, hsz, hscr⟩ := sendcontrol_op (load sizes out p.r) n hle
        unfold proxyIO
        simp only [hns, Bool.false_eq_true, if_false]
        have hsim := quiet_sim c p r h hph (.sendcontrol n) rfl rfl rfl sizes out rem' rfl hscr hpok'
          (fun hs => by
            have : gain (prompt c) none rem'.status = (prompt c).length := by simp [gain, hs]
            simp only [List.length_append]; omega)
        generalize obsOp (.sendcontrol n) (load sizes out p.r) = o2 at hres hsz hsim
        obtain ⟨o, r2⟩ := o2
        simp only at hres hsz hsim ⊢
        rw [hres]
        have hb : (TRes.unit == TRes.unit) = true := rfl
        simp only [resOf, hsz, hb, List.isEmpty_nil, Bool.and_self, if_true]
        rw [h.ps1] at hsim
        exact hsim

/-- a read-type call on a proxy whose command has ended (or was terminated) -/
theorem io_ended (c : Case) (p : PSt) (r : Ref) (h : Sim c p r) (hph : r.phase ≠ .running) (op : Op)
    (sizes : List Nat) (hz : zeroTimeout op = none) :
    proxyIO op sizes [] p = (⟨.err .ended, []⟩, p) := by
  unfold proxyIO
  rw [sim_slot_false h hph, hz]
  rfl

theorem zeroTimeout_none (op : Op) (t : Option Nat) (hop : opTimeout op = some t) (ht : (t == some 0) = false) :
    zeroTimeout op = none := by
  have ht' : t ≠ some 0 := by rw [← beq_eq_false_iff_ne]; exact ht
  cases op with
  | expect ps t' =>
    simp only [opTimeout, Option.some.injEq] at hop; subst hop
    cases t' with
    | none => rfl
    | some T => cases T with
      | zero => exact absurd rfl ht'
      | succ k => rfl
  | rup q t' =>
    simp only [opTimeout, Option.some.injEq] at hop; subst hop
    cases t' with
    | none => rfl
    | some T => cases T with
      | zero => exact absurd rfl ht'
      | succ k => rfl
  | rut t' =>
    simp only [opTimeout, Option.some.injEq] at hop; subst hop
    cases t' with
    | none => rfl
    | some T => cases T with
      | zero => exact absurd rfl ht'
      | succ k => rfl
  | _ => simp [opTimeout] at hop

/-- uses of the machine's own channel while it is lent -/
theorem probe_own (k : Nat) :
    Own.step (Own.step {} (.borrowEnter 0)).2 (probeOp k) = (.errBorrowed, (Own.step {} (.borrowEnter 0)).2) := by
  match k with
  | 0 => rfl
  | 1 => rfl
  | 2 => rfl
  | 3 => rfl
  | 4 => rfl
  | k + 5 => rfl

end Run
