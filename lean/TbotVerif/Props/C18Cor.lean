import TbotVerif.Props.C18
/-! C18 — what the verdict of the monitor means: corollaries (a) deadlines, (b) credentials,
    (d) bootlogs, each for EVERY observation `Spec.C18` accepts (so for the model, by `run_spec`,
    and for every observation of the implementation the check accepts). -/

namespace C18
open Board Chan Spec C06

/-- `Spec.C18`, unfolded: the last event is `poweroff`, the monitor accepts the events before it
    and the outcome and the bootlogs fit its final state -/
theorem monitorOk_unfold (c : Board.Case) (o : Obs) (h : Spec.monitorOk c o = true) :
    ∃ pre t m, o.evs = pre ++ [.poff t] ∧ steps c {} pre = some m ∧ accept c m t o.res = true ∧ logsOk m o = true := by
  unfold Spec.monitorOk at h
  cases hl : o.evs.getLast? with
  | none => rw [hl] at h; simp at h
  | some e =>
    rw [hl] at h
    cases e with
    | poff t =>
      simp only at h
      obtain ⟨ys, hys⟩ := List.getLast?_eq_some_iff.mp hl
      rw [hys, List.dropLast_concat] at h
      cases hs : steps c {} ys with
      | none => rw [hs] at h; simp at h
      | some m =>
        rw [hs] at h
        simp only [Bool.and_eq_true] at h
        exact ⟨ys, t, m, hys, hs, h.1, h.2⟩
    | _ => simp at h

theorem C18_unfold (c : Board.Case) (o : Obs) (h : Spec.C18 c o = true) :
    (∃ pre t m, o.evs = pre ++ [.poff t] ∧ steps c {} pre = some m ∧ accept c m t o.res = true ∧ logsOk m o = true)
    ∧ (coopB c = true → o.res = none) := by
  unfold Spec.C18 at h
  simp only [Bool.and_eq_true, Bool.or_eq_true, Bool.not_eq_true'] at h
  refine ⟨monitorOk_unfold c o h.1, fun hc => ?_⟩
  rcases h.2 with h2 | h2
  · rw [hc] at h2; simp at h2
  · cases hr : o.res with
    | none => rfl
    | some e => rw [hr] at h2; simp at h2

/-! ### the stage clock: `m.start` is the time of the event that began the stage -/

/-- the phases of the U-Boot stage (until `do_boot` has returned) and of the Linux stage -/
def ubPhase : Ph → Bool
  | .ubAuto | .ubLoop | .ubUp | .bootSent => true
  | _ => false
def lnxPhase : Ph → Bool
  | .ask | .login1 | .login2 | .pw | .done | .lnxUp => true
  | _ => false

/-- `m.start` is the time of the event that began the stage `m` is in -/
def StartOk (c : Board.Case) (evs : List Ev) (m : Mon) : Prop :=
  (ubPhase m.ph = true → c.ub.isSome = true ∧ .pon m.start ∈ evs) ∧
  (lnxPhase m.ph = true → if c.ub.isSome then .booted m.start ∈ evs else .pon m.start ∈ evs)

theorem startOk_of_same {c : Board.Case} {evs : List Ev} {m m' : Mon}
    (hu : ubPhase m.ph = true → c.ub.isSome = true ∧ Ev.pon m.start ∈ evs)
    (hl : lnxPhase m.ph = true → if c.ub.isSome then Ev.booted m.start ∈ evs else Ev.pon m.start ∈ evs)
    (hs : m'.start = m.start) (h1 : ubPhase m'.ph = true → ubPhase m.ph = true)
    (h2 : lnxPhase m'.ph = true → lnxPhase m.ph = true) : StartOk c evs m' := by
  unfold StartOk
  rw [hs]
  exact ⟨fun h => hu (h1 h), fun h => hl (h2 h)⟩

theorem afterUser_ph (l : LnxCfg) (t : Nat) (m : Mon) : (afterUser l t m).ph = .pw ∨ (afterUser l t m).ph = .done := by
  unfold afterUser; split
  · exact Or.inl rfl
  · exact Or.inr rfl

theorem afterUser_start (l : LnxCfg) (t : Nat) (m : Mon) : (afterUser l t m).start = m.start := by
  unfold afterUser; split <;> rfl

theorem step_startOk (c : Board.Case) (pre : List Ev) (m m' : Mon) (e : Ev) (hp : StartOk c pre m)
    (h : step c m e = some m') : StartOk c (pre ++ [e]) m' := by
  obtain ⟨hu, hl⟩ := hp
  have hu' : ubPhase m.ph = true → c.ub.isSome = true ∧ Ev.pon m.start ∈ pre ++ [e] :=
    fun h => ⟨(hu h).1, List.mem_append_left _ (hu h).2⟩
  have hl' : lnxPhase m.ph = true → if c.ub.isSome then Ev.booted m.start ∈ pre ++ [e] else Ev.pon m.start ∈ pre ++ [e] := by
    intro h
    have := hl h
    split at this <;> simp_all
  cases e with
  | pon t =>
    simp only [step] at h
    split at h
    · simp at h
    · split at h
      · simp only [Option.some.injEq] at h
        subst h
        rename_i u _ hub
        refine ⟨fun _ => by simp [wait, hub], fun hh => ?_⟩
        simp only [wait] at hh
        split at hh <;> simp [lnxPhase] at hh
      · simp only [Option.some.injEq] at h
        subst h
        rename_i l hub _
        refine ⟨fun hh => ?_, fun _ => ?_⟩
        · simp only [enterLnx, wait] at hh
          split at hh <;> simp [ubPhase] at hh
        · simp [hub, enterLnx, wait]
      · simp at h
  | poff t => simp [step] at h
  | rd r =>
    simp only [step] at h
    split at h
    · simp only [Option.some.injEq] at h
      subst h
      exact startOk_of_same hu' hl' (by unfold rdStep; split <;> rfl) (by rw [rdStep_ph]; exact id) (by rw [rdStep_ph]; exact id)
    · simp at h
  | wr t b =>
    simp only [step] at h
    repeat' split at h
    all_goals first
      | (simp at h; done)
      | (simp only [Option.some.injEq] at h
         subst h
         first
           | exact startOk_of_same hu' hl' rfl (by simp_all [wait, ubPhase, lnxPhase]) (by simp_all [wait, ubPhase, lnxPhase])
           | (refine startOk_of_same hu' hl' (afterUser_start _ _ _) (fun hh => ?_) (fun _ => by simp_all [lnxPhase])
              rcases afterUser_ph _ t m with h1 | h1 <;> rw [h1] at hh <;> simp [ubPhase] at hh))
  | ubReady t =>
    simp only [step] at h
    repeat' split at h
    all_goals first
      | (simp at h; done)
      | (simp only [Option.some.injEq] at h
         subst h
         exact startOk_of_same hu' hl' rfl (by simp_all [ubPhase, lnxPhase]) (by simp_all [ubPhase, lnxPhase]))
  | booted t =>
    simp only [step] at h
    repeat' split at h
    all_goals first
      | (simp at h; done)
      | (simp only [Option.some.injEq] at h
         subst h
         rename_i l hph _ _
         have hub := (hu (by rw [hph]; rfl)).1
         refine ⟨fun hh => ?_, fun _ => ?_⟩
         · simp only [enterLnx, wait] at hh
           split at hh <;> simp [ubPhase] at hh
         · simp [hub, enterLnx, wait])
  | lnxReady t =>
    simp only [step] at h
    repeat' split at h
    all_goals first
      | (simp at h; done)
      | (simp only [Option.some.injEq] at h
         subst h
         exact startOk_of_same hu' hl' rfl (by simp_all [ubPhase, lnxPhase]) (by simp_all [ubPhase, lnxPhase]))

theorem steps_startOk (c : Board.Case) : ∀ (evs pre : List Ev) (m m' : Mon), StartOk c pre m →
    steps c m evs = some m' → StartOk c (pre ++ evs) m' := by
  intro evs
  induction evs with
  | nil => intro pre m m' hp h; simp only [steps, Option.some.injEq] at h; subst h; simpa using hp
  | cons e es ih =>
    intro pre m m' hp h
    simp only [steps] at h
    cases hs : step c m e with
    | none => rw [hs] at h; simp at h
    | some m1 =>
      rw [hs] at h
      have := ih (pre ++ [e]) m1 m' (step_startOk c pre m m1 e hp hs) h
      simpa using this

/-- in an accepted trace the stage clock of the final state is the time of `poweron()` (U-Boot
    stage, or Linux stage of a machine without U-Boot) or of the return of `do_boot()` -/
theorem accepted_start (c : Board.Case) (pre : List Ev) (m : Mon) (h : steps c {} pre = some m) : StartOk c pre m := by
  have := steps_startOk c pre [] {} m ⟨fun h => by simp [ubPhase] at h, fun h => by simp [lnxPhase] at h⟩ h
  simpa using this

/-! ### (a) deadlines -/

/-- a failure reported in the Linux stage with `boot_timeout = T` configured is a `TimeoutError`
    raised no later than `T` after the stage began -/
theorem deadline_linux (c : Board.Case) (m : Mon) (t : Nat) (e : Exc) (hacc : accept c m t (some e) = true)
    (T : Nat) (hT : lnxT c = some T) (hph : m.ph = .ask ∨ m.ph = .login1 ∨ m.ph = .login2 ∨ m.ph = .pw) :
    e = .timeout ∧ t ≤ m.start + T := by
  rcases hph with h | h | h | h <;> cases e <;> simp [accept, h, hT, within] at hacc ⊢ <;> first | exact hacc.1 | exact hacc.1.1

/-- a failure reported in the U-Boot stage with `boot_timeout = T` configured is a `TimeoutError`
    raised no later than `T` (+ one poll period in the prompt loop) after power-on -/
theorem deadline_uboot (c : Board.Case) (m : Mon) (t : Nat) (e : Exc) (hacc : accept c m t (some e) = true)
    (T : Nat) (hT : ubT c = some T) (hph : m.ph = .ubAuto ∨ m.ph = .ubLoop) :
    e = .timeout ∧ t ≤ m.start + T + (Params.ubootPollRead + Params.ubootPollSleep) := by
  rcases hph with h | h <;> cases e <;> simp [accept, h, hT, within] at hacc ⊢ <;> omega

/-- a `TimeoutError` is only ever reported when a boot time-out is configured for the stage, and
    never when the awaited text had arrived (except for a login delay that does not fit) -/
theorem timeout_only_when_configured (c : Board.Case) (m : Mon) (t : Nat) (hacc : accept c m t (some .timeout) = true) :
    ((m.ph = .ubAuto ∨ m.ph = .ubLoop) ∧ (ubT c).isSome = true ∧ m.hit = none)
    ∨ ((m.ph = .ask ∨ m.ph = .login2 ∨ m.ph = .pw) ∧ (lnxT c).isSome = true ∧ m.hit = none)
    ∨ (m.ph = .login1 ∧ (lnxT c).isSome = true) := by
  cases hph : m.ph <;> simp [accept, hph] at hacc ⊢
  · exact ⟨hacc.1.1, hacc.2⟩
  · exact ⟨hacc.1.1.1, hacc.1.2⟩
  · exact ⟨hacc.1.1, hacc.2⟩
  · exact hacc.1.1
  · exact ⟨hacc.1.1, hacc.2⟩
  · exact ⟨hacc.1.1, hacc.2⟩

/-- success is reported only in the final state, at the moment of the last event -/
theorem ok_only_at_end (c : Board.Case) (m : Mon) (t : Nat) (hacc : accept c m t none = true) :
    m.ph = (if c.lnx.isSome then .lnxUp else .ubUp) ∧ t = m.lastT := by
  simpa [accept] using hacc

/-! ### (b) credentials -/

/-- when the monitor's `hit` is set after a run of reads that began with `hit = none`, one of the
    deliveries completed the awaited text, and `hit` is its return time -/
theorem hitOf_sound (f : Bytes → Bool) : ∀ (recs : List ReadRec) (acc : Bytes) (t : Nat),
    hitOf f acc none recs = some t →
    ∃ pre r post d, recs = pre ++ r :: post ∧ r.data = some d ∧ r.t1 = t ∧ f (acc ++ (dataOf pre).flatten ++ d) = true := by
  intro recs
  induction recs with
  | nil => intro acc t h; simp [hitOf] at h
  | cons r rs ih =>
    intro acc t h
    unfold hitOf at h
    cases hd : r.data with
    | none =>
      rw [hd] at h
      obtain ⟨pre, r', post, d, h1, h2, h3, h4⟩ := ih acc t h
      refine ⟨r :: pre, r', post, d, by rw [h1]; rfl, h2, h3, ?_⟩
      rw [dataOf_cons_none _ _ hd]; exact h4
    | some d =>
      rw [hd] at h
      simp only at h
      by_cases hf : f (acc ++ d) = true
      · rw [if_pos hf, hitOf_some] at h
        simp only [Option.some.injEq] at h
        exact ⟨[], r, rs, d, rfl, hd, h, by simpa using hf⟩
      · rw [if_neg hf] at h
        obtain ⟨pre, r', post, d', h1, h2, h3, h4⟩ := ih (acc ++ d) t h
        refine ⟨r :: pre, r', post, d', by rw [h1]; rfl, h2, h3, ?_⟩
        rw [dataOf_cons_some _ _ _ hd]
        simpa [List.append_assoc] using h4

/-- **the user name is written only at the moment a delivery completed the login prompt, the
    password only at the moment a delivery completed the password prompt; nothing is written
    after them** -/
theorem credentials (c : Board.Case) (l : LnxCfg) (hl : c.lnx = some l) (m m' : Mon) (t : Nat) (b : Bytes)
    (h : step c m (.wr t b) = some m') :
    ((m.ph = .login2 ∨ (m.ph = .login1 ∧ l.delay = 0)) → b = l.user ++ [13] ∧ m.hit = some t)
    ∧ (m.ph = .login1 → l.delay ≠ 0 → b = [13] ∧ ∃ th, m.hit = some th ∧ t = th + l.delay)
    ∧ (m.ph = .pw → ∃ pw, l.password = some pw ∧ b = pw ++ [13] ∧ m.hit = some t)
    ∧ (m.ph = .ask → b = [13] ∧ m.hit = some t)
    ∧ m.ph ≠ .done ∧ m.ph ≠ .lnxUp := by
  simp only [step] at h
  refine ⟨?_, ?_, ?_, ?_, ?_, ?_⟩
  · intro hph
    rcases hph with hph | ⟨hph, hd⟩
    · simp [hph, hl] at h
      exact ⟨h.1.1.1, h.1.1.2⟩
    · simp [hph, hl, hd] at h
      exact ⟨h.1.1.1, h.1.1.2⟩
  · intro hph hd
    simp [hph, hl, hd] at h
    cases hh : m.hit with
    | none => rw [hh] at h; simp at h
    | some th =>
      rw [hh] at h
      simp at h
      exact ⟨h.1.1.1, th, rfl, h.1.1.2⟩
  · intro hph
    simp [hph, hl] at h
    cases hp : l.password with
    | none => rw [hp] at h; simp at h
    | some pw =>
      rw [hp] at h
      simp at h
      exact ⟨pw, rfl, h.1.1.1, h.1.1.2⟩
  · intro hph
    simp [hph, hl] at h
    exact ⟨h.1.1.1, h.1.1.2⟩
  · intro hph; simp [hph] at h
  · intro hph; simp [hph] at h

/-- **no password is sent when `no_password_timeout` ran out**: bring-up is reported complete from
    the password wait only if no delivery completed the password prompt and exactly
    `no_password_timeout` passed since the user name was written -/
theorem password_skipped (c : Board.Case) (l : LnxCfg) (hl : c.lnx = some l) (m m' : Mon) (t : Nat)
    (h : step c m (.lnxReady t) = some m') (hph : m.ph = .pw) :
    ∃ n, l.noPw = some n ∧ m.hit = none ∧ t = m.t0 + n := by
  simp [step, hph, hl] at h
  cases hn : l.noPw with
  | none => rw [hn] at h; simp at h
  | some n =>
    rw [hn] at h
    simp at h
    exact ⟨n, rfl, h.1.1.1.1, h.1.1.1.2⟩

/-! ### (d) bootlogs -/

/-- the bootlogs of an accepted observation are exactly what the monitor accumulated: the text
    (`EventIO.write` of every fragment) of everything delivered while the startup event was
    attached — and they are unset when the event was never entered -/
theorem bootlogs (m : Mon) (o : Obs) (h : logsOk m o = true) :
    o.ubLog = (if m.ubSet then some m.ulog else none) ∧ o.lnxLog = (if m.lnxSet then some m.llog else none) := by
  simpa [logsOk] using h

/-- a run of deliveries in a reading phase extends the log of the stage by their text, in order -/
theorem log_grows (f : Bytes → Bool) (lg : Nat) (m : Mon) (recs : List ReadRec) :
    (rdAll f lg m recs).ulog = (if lg = 1 then m.ulog ++ textOf (dataOf recs) else m.ulog)
    ∧ (rdAll f lg m recs).llog = (if lg = 2 then m.llog ++ textOf (dataOf recs) else m.llog) := by
  rw [rdAll_eq]; exact ⟨rfl, rfl⟩

/-! ### for the model -/

/-- (a), (d) for the model: every well-formed case, every console -/
theorem model_verdict (c : Board.Case) (h : WfCase c) :
    ∃ pre t m, (Board.run c).evs = pre ++ [.poff t] ∧ steps c {} pre = some m ∧ StartOk c pre m
      ∧ accept c m t (Board.run c).res = true
      ∧ (Board.run c).ubLog = (if m.ubSet then some m.ulog else none)
      ∧ (Board.run c).lnxLog = (if m.lnxSet then some m.llog else none) := by
  obtain ⟨pre, t, m, h1, h2, h3, h4⟩ := monitorOk_unfold c _ (run_monitor c h)
  obtain ⟨h5, h6⟩ := bootlogs m _ h4
  exact ⟨pre, t, m, h1, h2, accepted_start c pre m h2, h3, h5, h6⟩


/-- **(a) for the model, Linux stage**: with `boot_timeout = T`, whatever the console does, a
    bring-up that fails in the Linux stage fails with `TimeoutError`, no later than `T` after
    `poweron()` (machine without U-Boot) / after `do_boot()` returned (through U-Boot) -/
theorem model_deadline_linux (c : Board.Case) (h : WfCase c) (T : Nat) (hT : lnxT c = some T) (e : Exc)
    (he : (Board.run c).res = some e) :
    ∃ pre t m, (Board.run c).evs = pre ++ [.poff t] ∧ steps c {} pre = some m ∧
      ((m.ph = .ask ∨ m.ph = .login1 ∨ m.ph = .login2 ∨ m.ph = .pw) →
        e = .timeout ∧ t ≤ m.start + T
        ∧ (if c.ub.isSome then Ev.booted m.start ∈ pre else Ev.pon m.start ∈ pre)) := by
  obtain ⟨pre, t, m, h1, h2, h3, h4, _, _⟩ := model_verdict c h
  rw [he] at h4
  refine ⟨pre, t, m, h1, h2, fun hph => ?_⟩
  obtain ⟨h5, h6⟩ := deadline_linux c m t e h4 T hT hph
  exact ⟨h5, h6, h3.2 (by rcases hph with h | h | h | h <;> rw [h] <;> rfl)⟩

/-- **(a) for the model, U-Boot stage**: with `boot_timeout = T`, a bring-up that fails before the
    U-Boot prompt was reached fails with `TimeoutError`, no later than `T` + one poll period after
    `poweron()` -/
theorem model_deadline_uboot (c : Board.Case) (h : WfCase c) (T : Nat) (hT : ubT c = some T) (e : Exc)
    (he : (Board.run c).res = some e) :
    ∃ pre t m, (Board.run c).evs = pre ++ [.poff t] ∧ steps c {} pre = some m ∧
      ((m.ph = .ubAuto ∨ m.ph = .ubLoop) →
        e = .timeout ∧ t ≤ m.start + T + (Params.ubootPollRead + Params.ubootPollSleep) ∧ Ev.pon m.start ∈ pre) := by
  obtain ⟨pre, t, m, h1, h2, h3, h4, _, _⟩ := model_verdict c h
  rw [he] at h4
  refine ⟨pre, t, m, h1, h2, fun hph => ?_⟩
  obtain ⟨h5, h6⟩ := deadline_uboot c m t e h4 T hT hph
  exact ⟨h5, h6, (h3.1 (by rcases hph with h | h <;> rw [h] <;> rfl)).2⟩

end C18
