import TbotVerif.Spec.Files
import TbotVerif.Props.QuoteUtf8
import TbotVerif.Props.C08Text
/-! C11 — text: `bytes.decode` inverts `str.encode` (UTF-8 round trip for every Python string), the
    tty's ONLCR and tbot's CR/LF normalisation cancel for CR-free text. -/

namespace Files

theorem u8 (n : Nat) (h : n < 256) : (UInt8.ofNat n).toNat = n := by
  simp only [UInt8.toNat_ofNat']; omega

theorem isCont_of (b : Byte) (h1 : 128 ≤ b.toNat) (h2 : b.toNat ≤ 191) : isCont b = true := by
  unfold isCont
  have e1 : (0x80 : Byte).toNat = 128 := rfl
  have e2 : (0xBF : Byte).toNat = 191 := rfl
  simp only [Bool.and_eq_true, decide_eq_true_eq, UInt8.le_iff_toNat_le, e1, e2]
  exact ⟨h1, h2⟩

theorem lt_of (a b : Byte) (h : a.toNat < b.toNat) : a < b := UInt8.lt_iff_toNat_lt.mpr h
theorem nlt_of (a b : Byte) (h : b.toNat ≤ a.toNat) : ¬ a < b := fun hc => by
  have := UInt8.lt_iff_toNat_lt.mp hc; omega

theorem valid_nat (c : Char) : c.val.toNat < 0xD800 ∨ (0xDFFF < c.val.toNat ∧ c.val.toNat < 0x110000) := c.valid

theorem ofNat_val (c : Char) : Char.ofNat c.val.toNat = c := Char.ofNat_toNat c

/-- one step of the decoder on the encoding of a character gives back the character -/
theorem decodeStep_enc (c : Char) (rest : Bytes) :
    decodeStep (String.utf8EncodeChar c ++ rest) = (c, (String.utf8EncodeChar c).length) := by
  have hvalid := valid_nat c
  generalize hv : c.val.toNat = v at hvalid
  by_cases h1 : v ≤ 127
  · simp only [String.utf8EncodeChar, hv, h1, if_true, List.cons_append, List.nil_append, List.length_cons, List.length_nil]
    rw [C08.decodeStep_lo _ _ (lt_of _ _ (by rw [u8 v (by omega)]; exact Nat.lt_succ_of_le h1))]
    rw [u8 v (by omega), ← hv, ofNat_val]
  · by_cases h2 : v ≤ 2047
    · simp only [String.utf8EncodeChar, hv, h1, h2, if_true, if_false, List.cons_append, List.nil_append, List.length_cons,
        List.length_nil]
      have t0 : (UInt8.ofNat (v / 64 % 32 + 192)).toNat = v / 64 % 32 + 192 := u8 _ (by omega)
      have t1 : (UInt8.ofNat (v % 64 + 128)).toNat = v % 64 + 128 := u8 _ (by omega)
      unfold decodeStep
      dsimp only
      rw [if_neg (nlt_of _ _ (by rw [t0]; show 128 ≤ _; omega)),
          if_neg (nlt_of _ _ (by rw [t0]; show 194 ≤ _; omega)),
          if_pos (lt_of _ _ (by rw [t0]; show _ < 224; omega)),
          if_pos (isCont_of _ (by rw [t1]; omega) (by rw [t1]; omega))]
      congr 1
      unfold cp2
      rw [t0, t1]
      have : (v / 64 % 32 + 192) % 32 * 64 + (v % 64 + 128) % 64 = v := by omega
      rw [this, ← hv, ofNat_val]
    · by_cases h3 : v ≤ 65535
      · simp only [String.utf8EncodeChar, hv, h1, h2, h3, if_true, if_false, List.cons_append, List.nil_append,
          List.length_cons, List.length_nil]
        have t0 : (UInt8.ofNat (v / 4096 % 16 + 224)).toNat = v / 4096 % 16 + 224 := u8 _ (by omega)
        have t1 : (UInt8.ofNat (v / 64 % 64 + 128)).toNat = v / 64 % 64 + 128 := u8 _ (by omega)
        have t2 : (UInt8.ofNat (v % 64 + 128)).toNat = v % 64 + 128 := u8 _ (by omega)
        have hs3 : snd3 (UInt8.ofNat (v / 4096 % 16 + 224)) (UInt8.ofNat (v / 64 % 64 + 128)) = true := by
          unfold snd3
          by_cases e0 : v / 4096 % 16 = 0
          · have : UInt8.ofNat (v / 4096 % 16 + 224) = 0xE0 := by rw [e0]; rfl
            rw [this]
            simp only [beq_self_eq_true, if_true, inR, Bool.and_eq_true, decide_eq_true_eq, UInt8.le_iff_toNat_le, t1]
            have e1 : (0xA0 : Byte).toNat = 160 := rfl
            have e2 : (0xBF : Byte).toNat = 191 := rfl
            rw [e1, e2]; omega
          · have n0 : (UInt8.ofNat (v / 4096 % 16 + 224) == 0xE0) = false := by
              apply Bool.eq_false_iff.mpr
              intro hc
              have := congrArg UInt8.toNat (eq_of_beq hc)
              rw [t0] at this
              have e : (0xE0 : Byte).toNat = 224 := rfl
              omega
            rw [n0]
            simp only [Bool.false_eq_true, if_false]
            by_cases eD : v / 4096 % 16 = 13
            · have : UInt8.ofNat (v / 4096 % 16 + 224) = 0xED := by rw [eD]; rfl
              rw [this]
              simp only [beq_self_eq_true, if_true, inR, Bool.and_eq_true, decide_eq_true_eq, UInt8.le_iff_toNat_le, t1]
              have e1 : (0x80 : Byte).toNat = 128 := rfl
              have e2 : (0x9F : Byte).toNat = 159 := rfl
              rw [e1, e2]; omega
            · have nD : (UInt8.ofNat (v / 4096 % 16 + 224) == 0xED) = false := by
                apply Bool.eq_false_iff.mpr
                intro hc
                have := congrArg UInt8.toNat (eq_of_beq hc)
                rw [t0] at this
                have e : (0xED : Byte).toNat = 237 := rfl
                omega
              rw [nD]
              simp only [Bool.false_eq_true, if_false]
              exact isCont_of _ (by rw [t1]; omega) (by rw [t1]; omega)
        unfold decodeStep
        dsimp only
        rw [if_neg (nlt_of _ _ (by rw [t0]; show 128 ≤ _; omega)),
            if_neg (nlt_of _ _ (by rw [t0]; show 194 ≤ _; omega)),
            if_neg (nlt_of _ _ (by rw [t0]; show 224 ≤ _; omega)),
            if_pos (lt_of _ _ (by rw [t0]; show _ < 240; omega)),
            if_pos hs3,
            if_pos (isCont_of _ (by rw [t2]; omega) (by rw [t2]; omega))]
        congr 1
        unfold cp3
        rw [t0, t1, t2]
        have : (v / 4096 % 16 + 224) % 16 * 4096 + (v / 64 % 64 + 128) % 64 * 64 + (v % 64 + 128) % 64 = v := by omega
        rw [this, ← hv, ofNat_val]
      · simp only [String.utf8EncodeChar, hv, h1, h2, h3, if_false, List.cons_append, List.nil_append,
          List.length_cons, List.length_nil]
        have t0 : (UInt8.ofNat (v / 262144 % 8 + 240)).toNat = v / 262144 % 8 + 240 := u8 _ (by omega)
        have t1 : (UInt8.ofNat (v / 4096 % 64 + 128)).toNat = v / 4096 % 64 + 128 := u8 _ (by omega)
        have t2 : (UInt8.ofNat (v / 64 % 64 + 128)).toNat = v / 64 % 64 + 128 := u8 _ (by omega)
        have t3 : (UInt8.ofNat (v % 64 + 128)).toNat = v % 64 + 128 := u8 _ (by omega)
        have hs4 : snd4 (UInt8.ofNat (v / 262144 % 8 + 240)) (UInt8.ofNat (v / 4096 % 64 + 128)) = true := by
          unfold snd4
          by_cases e0 : v / 262144 % 8 = 0
          · have : UInt8.ofNat (v / 262144 % 8 + 240) = 0xF0 := by rw [e0]; rfl
            rw [this]
            simp only [beq_self_eq_true, if_true, inR, Bool.and_eq_true, decide_eq_true_eq, UInt8.le_iff_toNat_le, t1]
            have e1 : (0x90 : Byte).toNat = 144 := rfl
            have e2 : (0xBF : Byte).toNat = 191 := rfl
            rw [e1, e2]; omega
          · have n0 : (UInt8.ofNat (v / 262144 % 8 + 240) == 0xF0) = false := by
              apply Bool.eq_false_iff.mpr
              intro hc
              have := congrArg UInt8.toNat (eq_of_beq hc)
              rw [t0] at this
              have e : (0xF0 : Byte).toNat = 240 := rfl
              omega
            rw [n0]
            simp only [Bool.false_eq_true, if_false]
            by_cases e4 : v / 262144 % 8 = 4
            · have : UInt8.ofNat (v / 262144 % 8 + 240) = 0xF4 := by rw [e4]; rfl
              rw [this]
              simp only [beq_self_eq_true, if_true, inR, Bool.and_eq_true, decide_eq_true_eq, UInt8.le_iff_toNat_le, t1]
              have e1 : (0x80 : Byte).toNat = 128 := rfl
              have e2 : (0x8F : Byte).toNat = 143 := rfl
              rw [e1, e2]; omega
            · have n4 : (UInt8.ofNat (v / 262144 % 8 + 240) == 0xF4) = false := by
                apply Bool.eq_false_iff.mpr
                intro hc
                have := congrArg UInt8.toNat (eq_of_beq hc)
                rw [t0] at this
                have e : (0xF4 : Byte).toNat = 244 := rfl
                omega
              rw [n4]
              simp only [Bool.false_eq_true, if_false]
              exact isCont_of _ (by rw [t1]; omega) (by rw [t1]; omega)
        unfold decodeStep
        dsimp only
        rw [if_neg (nlt_of _ _ (by rw [t0]; show 128 ≤ _; omega)),
            if_neg (nlt_of _ _ (by rw [t0]; show 194 ≤ _; omega)),
            if_neg (nlt_of _ _ (by rw [t0]; show 224 ≤ _; omega)),
            if_neg (nlt_of _ _ (by rw [t0]; show 240 ≤ _; omega)),
            if_pos (lt_of _ _ (by rw [t0]; show _ < 245; omega)),
            if_pos hs4,
            if_pos (isCont_of _ (by rw [t2]; omega) (by rw [t2]; omega)),
            if_pos (isCont_of _ (by rw [t3]; omega) (by rw [t3]; omega))]
        congr 1
        unfold cp4
        rw [t0, t1, t2, t3]
        have : (v / 262144 % 8 + 240) % 8 * 262144 + (v / 4096 % 64 + 128) % 64 * 4096 + (v / 64 % 64 + 128) % 64 * 64
            + (v % 64 + 128) % 64 = v := by omega
        rw [this, ← hv, ofNat_val]

theorem enc_cons (c : Char) (t : List Char) : enc (c :: t) = String.utf8EncodeChar c ++ enc t := by
  simp [enc]

theorem enc_append (a b : List Char) : enc (a ++ b) = enc a ++ enc b := by
  simp [enc]

theorem decodeFuel_enc : ∀ (t : List Char) (n : Nat), (enc t).length ≤ n → decodeFuel n (enc t) = t := by
  intro t
  induction t with
  | nil =>
    intro n _
    cases n <;> rfl
  | cons c t ih =>
    intro n hn
    rw [enc_cons] at hn ⊢
    have hne := Quote.enc_ne_nil c
    cases hu : String.utf8EncodeChar c with
    | nil => exact absurd hu hne
    | cons b bs =>
      rw [hu] at hn
      simp only [List.cons_append, List.length_cons, List.length_append] at hn
      cases n with
      | zero => omega
      | succ n =>
        have hstep := decodeStep_enc c (enc t)
        rw [hu] at hstep
        simp only [List.cons_append] at hstep ⊢
        unfold decodeFuel
        simp only [hstep]
        congr 1
        have : (b :: (bs ++ enc t)).drop (b :: bs).length = enc t := by
          rw [← List.cons_append, List.drop_left]
        rw [this]
        exact ih n (by simp only [List.length_cons] at *; omega)

/-- **UTF-8 round trip**: decoding the encoding of any Python string gives the string back -/
theorem decodeReplace_enc (t : List Char) : decodeReplace (enc t) = t :=
  decodeFuel_enc t _ (Nat.le_refl _)

/-- ONLCR on characters -/
def cookC (t : List Char) : List Char := t.flatMap fun c => if c = '\n' then ['\r', '\n'] else [c]

theorem utf8_nl : String.utf8EncodeChar '\n' = [10] := by decide
theorem utf8_cr : String.utf8EncodeChar '\r' = [13] := by decide

/-- a character other than newline has no LF byte in its encoding -/
theorem cook_char (c : Char) (h : c ≠ '\n') : Tty.cook (String.utf8EncodeChar c) = String.utf8EncodeChar c := by
  have hno : ∀ b ∈ String.utf8EncodeChar c, (b == Tty.LF) = false := by
    intro b hb
    by_cases hc : c.toNat < 128
    · rw [Quote.enc_ascii c hc] at hb
      simp only [List.mem_singleton] at hb
      subst hb
      apply Bool.eq_false_iff.mpr
      intro hcon
      have h1 := congrArg UInt8.toNat (eq_of_beq hcon)
      rw [u8 _ (by omega)] at h1
      have h2 : Tty.LF.toNat = 10 := rfl
      rw [h2] at h1
      apply h
      have : c = Char.ofNat 10 := by rw [← h1]; exact (Char.ofNat_toNat c).symm
      rw [this]
    · have := Quote.enc_high c (by omega) b hb
      apply Bool.eq_false_iff.mpr
      intro hcon
      have h1 := congrArg UInt8.toNat (eq_of_beq hcon)
      have h2 : Tty.LF.toNat = 10 := rfl
      omega
  unfold Tty.cook
  generalize String.utf8EncodeChar c = l at hno
  induction l with
  | nil => rfl
  | cons x xs ih =>
    simp only [List.flatMap_cons, hno x (by simp), Bool.false_eq_true, if_false, List.singleton_append]
    rw [ih (fun b hb => hno b (List.mem_cons_of_mem _ hb))]

theorem cook_append (a b : Bytes) : Tty.cook (a ++ b) = Tty.cook a ++ Tty.cook b := by
  simp [Tty.cook]

/-- ONLCR commutes with encoding -/
theorem cook_enc (t : List Char) : Tty.cook (enc t) = enc (cookC t) := by
  induction t with
  | nil => rfl
  | cons c t ih =>
    rw [enc_cons, cook_append, ih]
    unfold cookC
    simp only [List.flatMap_cons]
    rw [enc_append]
    congr 1
    by_cases h : c = '\n'
    · subst h
      simp only [if_true]
      rw [utf8_nl]
      simp only [enc, List.flatMap_cons, List.flatMap_nil, List.append_nil, utf8_cr, utf8_nl]
      rfl
    · simp only [h, if_false]
      rw [cook_char c h]
      simp [enc]

/-- tbot's CR/LF normalisation undoes ONLCR on CR-free text -/
theorem replace2_cookC (t : List Char) (h : '\r' ∉ t) : replace2 '\r' '\n' '\n' (cookC t) = t := by
  induction t with
  | nil => rfl
  | cons c t ih =>
    have hc : c ≠ '\r' := fun hc => h (by rw [hc]; simp)
    have ht : '\r' ∉ t := fun hm => h (List.mem_cons_of_mem _ hm)
    unfold cookC
    simp only [List.flatMap_cons]
    by_cases hn : c = '\n'
    · subst hn
      simp only [if_true, List.cons_append, List.nil_append]
      unfold replace2
      simp only [beq_self_eq_true, Bool.and_self, if_true]
      exact congrArg _ (ih ht)
    · simp only [hn, if_false, List.singleton_append]
      have hne : (c == '\r') = false := Bool.eq_false_iff.mpr (fun hh => hc (eq_of_beq hh))
      have ih' := ih ht
      unfold cookC at ih'
      cases hrest : (t.flatMap fun c => if c = '\n' then ['\r', '\n'] else [c]) with
      | nil =>
        rw [hrest] at ih'
        simp only [replace2] at ih' ⊢
        rw [← ih']
      | cons y ys =>
        rw [hrest] at ih'
        unfold replace2
        simp only [hne, Bool.false_and, Bool.false_eq_true, if_false]
        rw [ih']

theorem replace2_id (a b r : Char) (t : List Char) (h : b ∉ t) : replace2 a b r t = t := by
  induction t with
  | nil => rfl
  | cons c t ih =>
    have ht : b ∉ t := fun hm => h (List.mem_cons_of_mem _ hm)
    cases t with
    | nil => rfl
    | cons y ys =>
      unfold replace2
      have hy : (y == b) = false := Bool.eq_false_iff.mpr (fun hh => h (by rw [← eq_of_beq hh]; simp))
      simp only [hy, Bool.and_false, Bool.false_eq_true, if_false]
      rw [ih ht]

/-- **what `read_text` makes of `cat`'s output**: for every CR-free Python string, decoding and
    normalising the cooked encoding gives the string back -/
theorem text_cook_enc (t : List Char) (h : '\r' ∉ t) : text (Tty.cook (enc t)) = t := by
  unfold text normNl
  rw [cook_enc, decodeReplace_enc, replace2_cookC t h, replace2_id _ _ _ _ h]

/-- CR-free bytes come from CR-free strings -/
theorem cr_char_of_enc (t : List Char) (h : Tty.CR ∉ enc t) : '\r' ∉ t := by
  induction t with
  | nil => simp
  | cons c t ih =>
    rw [enc_cons, List.mem_append, not_or] at h
    intro hm
    rcases List.mem_cons.mp hm with h1 | h1
    · apply h.1
      rw [← h1, utf8_cr]
      simp [Tty.CR]
    · exact ih h.2 h1

/-! ### ASCII text (base64 output) -/

def toChar (b : Byte) : Char := Char.ofNat b.toNat

theorem enc_map_toChar (x : Bytes) (h : ∀ b ∈ x, b.toNat < 128) : enc (x.map toChar) = x := by
  induction x with
  | nil => rfl
  | cons b x ih =>
    have hb := h b (by simp)
    rw [List.map_cons, enc_cons, ih (fun b' hb' => h b' (List.mem_cons_of_mem _ hb'))]
    have hn : (toChar b).toNat = b.toNat := C08.toNat_ofNat_valid _ (Or.inl (by omega))
    rw [Quote.enc_ascii _ (by rw [hn]; exact hb), hn]
    simp

/-- what `read_bytes` hands to the decoder: for ASCII, CR-free output of `base64`, the text tbot
    returns, encoded again, is the output itself -/
theorem ascii_text (x : Bytes) (hascii : ∀ b ∈ x, b.toNat < 128) (hcr : Tty.CR ∉ x) :
    enc (text (Tty.cook x)) = x := by
  have hx := enc_map_toChar x hascii
  have hcr' : '\r' ∉ x.map toChar := cr_char_of_enc _ (by rw [hx]; exact hcr)
  conv => lhs; rw [← hx]
  rw [text_cook_enc _ hcr', hx]

theorem b64Alphabet_facts : b64Alphabet.all (fun c => decide (c.toNat < 128) && c != 13 && c != 10) = true := by
  decide +kernel

theorem isB64_facts (c : Byte) (h : isB64 c = true) : c.toNat < 128 ∧ c ≠ 13 ∧ c ≠ 10 := by
  unfold isB64 at h
  rcases Bool.or_eq_true_iff.mp h with h | h
  · have hm : c ∈ b64Alphabet := by simpa using h
    have := List.all_eq_true.mp b64Alphabet_facts c hm
    simp only [Bool.and_eq_true, decide_eq_true_eq, bne_iff_ne, ne_eq] at this
    exact ⟨this.1.1, this.1.2, this.2⟩
  · rw [eq_of_beq h]; decide

/-- dropping CR and LF from lines of base64 symbols that were joined by a line ending `nl` -/
theorem filter_lines (ls : List Bytes) (nl : Byte) (hnl : nl = 13 ∨ nl = 10) (h : ∀ l ∈ ls, ∀ c ∈ l, isB64 c = true) :
    (ls.flatMap (· ++ [nl])).filter (fun c => c != 13 && c != 10) = ls.flatten := by
  induction ls with
  | nil => rfl
  | cons l ls ih =>
    simp only [List.flatMap_cons, List.filter_append, List.flatten_cons]
    rw [ih (fun l' hl' => h l' (List.mem_cons_of_mem _ hl'))]
    have h1 : l.filter (fun c => c != 13 && c != 10) = l := by
      apply List.filter_eq_self.mpr
      intro c hc
      obtain ⟨_, h13, h10⟩ := isB64_facts c (h l (by simp) c hc)
      simp [h13, h10]
    have h2 : [nl].filter (fun c => c != 13 && c != 10) = [] := by
      rcases hnl with rfl | rfl <;> rfl
    rw [h1, h2]; simp

theorem input_lines (ls : List Bytes) (h : ∀ l ∈ ls, ∀ c ∈ l, isB64 c = true) :
    Tty.input (ls.flatMap (· ++ [13])) = ls.flatMap (· ++ [10]) := by
  induction ls with
  | nil => rfl
  | cons l ls ih =>
    have ih' := ih (fun l' hl' => h l' (List.mem_cons_of_mem _ hl'))
    unfold Tty.input at ih' ⊢
    simp only [List.flatMap_cons, List.map_append, ih']
    congr 1
    have : l.map (fun c => if c == Tty.CR then Tty.LF else c) = l := by
      conv => rhs; rw [← List.map_id l]
      apply List.map_congr_left
      intro c hc
      obtain ⟨_, h13, _⟩ := isB64_facts c (h l (by simp) c hc)
      have : (c == Tty.CR) = false := Bool.eq_false_iff.mpr (fun hh => h13 (eq_of_beq hh))
      simp [this]
    rw [this]
    rfl

end Files
