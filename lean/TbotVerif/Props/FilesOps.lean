import TbotVerif.Props.FilesChan
/-! C11 — the shell-level steps of a file transfer on the channel model: `echo $?`, `exec0`,
    `run()` entry and `terminate0()`, each for EVERY fragmentation of the remote's answer. -/

namespace Files
open Chan Shell C05 C02 C03 Spec

/-! ### constants (string literals are evaluated by the kernel) -/

theorem echoStatusLine_eq : echoStatusLine = [101, 99, 104, 111, 32, 36, 63] := by decide +kernel
theorem statusBytes_zero : statusBytes 0 = [48] := by decide +kernel
theorem teeMsg_eq : teeMsg = [116, 101, 101, 58, 32] := by decide +kernel

/-- the remote's answer to `echo $?` after a successful command -/
theorem respStatus_zero (ps1 : Bytes) :
    respStatus false ps1 0 = Tty.echo false (echoStatusLine ++ [13]) ++ ([48, 13, 10] ++ ps1) := by
  unfold respStatus respCmd
  rw [statusBytes_zero]
  have : Tty.cook ([48] ++ [Tty.LF]) = [48, 13, 10] := by decide
  rw [this]
  simp [Tty.CR]

/-- what a shell must not forbid for the protocol to work at all -/
def BlOk (bl : Bytes) : Prop := forbidden bl (echoStatusLine ++ [13]) = false

/-- what the prompt must satisfy: non-empty, and no proper prefix of `0 CR LF prompt` ends with it -/
structure PromptOk (ps1 : Bytes) : Prop where
  ne : ps1 ≠ []
  status : NoEarly ps1 [48, 13, 10]

/-- **`posix_fetch_return_code`** after a successful command: `echo $?` is sent and read back, the
    answer `0` is read up to the prompt — for every fragmentation. -/
theorem fetchRetcode_ok {s : St} {ps1 bl : Bytes} {nd : Nat} {tx : Bytes}
    (hss : SS s ps1 bl [] nd (respStatus false ps1 0) tx) (hbl : BlOk bl) (hp : PromptOk ps1) :
    ∃ s', fetchRetcode s = (.ok 0, s') ∧ SS s' ps1 bl [] nd [] (tx ++ (echoStatusLine ++ [13])) := by
  rw [respStatus_zero] at hss
  obtain ⟨s1, h1, hss1⟩ := ss_send (echoStatusLine ++ [13]) hss hbl (quiet_nil_regs _)
  simp only [List.map_nil] at hss1
  obtain ⟨s2, h2, hss2⟩ := ss_rup [48, 13, 10] hss1 hp.ne hp.status
  refine ⟨s2, ?_, hss2⟩
  unfold fetchRetcode sendline
  rw [h1]
  simp only [h2]
  have : parseInt (text [48, 13, 10]) = some 0 := by decide
  rw [this]

/-- **`exec0(line)`** on an idle session: the command line is sent and read back, its output read
    up to the prompt, the status fetched.  `out` is what the command prints. -/
theorem exec0Fed_ok {s : St} {ps1 bl : Bytes} {nd : Nat} {tx : Bytes} (line out : Bytes) (a1 a2 : List Bytes)
    (hss : SS s ps1 bl [] nd [] tx) (hbl : BlOk bl) (hp : PromptOk ps1)
    (hline : forbidden bl (line ++ [13]) = false) (hout : NoEarly ps1 (Tty.cook out))
    (ha1 : a1.flatten = respCmd false ps1 line out) (hn1 : ∀ p ∈ a1, p ≠ [])
    (ha2 : a2.flatten = respStatus false ps1 0) (hn2 : ∀ p ∈ a2, p ≠ []) :
    ∃ s', exec0Fed line a1 a2 s = (.ok (text (Tty.cook out)), s')
      ∧ SS s' ps1 bl [] nd [] (tx ++ (line ++ [13]) ++ (echoStatusLine ++ [13])) := by
  have hf := ss_feed a1 hss hn1
  rw [ha1] at hf
  unfold respCmd at hf
  simp only [List.nil_append, List.append_assoc] at hf
  obtain ⟨s1, h1, hss1⟩ := ss_send (line ++ [13]) (by simpa [Tty.CR] using hf) hline (quiet_nil_regs _)
  simp only [List.map_nil] at hss1
  have hss1' := ss_streamEnter 0 false hss1
  obtain ⟨s2, h2, hss2⟩ := ss_rup (Tty.cook out) hss1' hp.ne hout
  have hss2' := ss_streamExit 0 (streamEnter 0 false s1).1 hss2
  have hf2 := ss_feed a2 hss2' hn2
  rw [ha2] at hf2
  simp only [List.nil_append] at hf2
  obtain ⟨s3, h3, hss3⟩ := fetchRetcode_ok hf2 hbl hp
  refine ⟨s3, ?_, hss3⟩
  unfold exec0Fed sendline
  rw [h1]
  simp only [h2, h3, if_true]

/-- the registration `run()` makes for the prompt -/
def promptReg (nd : Nat) (ps1 since : Bytes) : Reg := { id := nd, pat := .lit ps1, exc := excEnded, since := since }

/-- **`run()` entry** (`cmd_context` up to its `yield`) on an idle session whose script will hold
    the echo of the command line followed by `W`. -/
theorem runEnter_ok {s : St} {ps1 bl : Bytes} {nd : Nat} {tx : Bytes} (line W : Bytes)
    (hss : SS s ps1 bl [] nd (Tty.echo false (line ++ [13]) ++ W) tx) (hp : PromptOk ps1)
    (hline : forbidden bl (line ++ [13]) = false) :
    ∃ px s', runEnter ps1 line s = (.ok px, s') ∧ px.did = nd
      ∧ SS s' ps1 bl [promptReg nd ps1 []] (nd + 1) W (tx ++ (line ++ [13])) := by
  have hss0 : SS { s with chunk := Params.readChunkSize } ps1 bl [] nd (Tty.echo false (line ++ [13]) ++ W) tx :=
    { chunk := (by decide : 0 < Params.readChunkSize), slice := hss.slice, prompt := hss.prompt, bl := hss.bl, slow := hss.slow, wf := hss.wf
      flat := hss.flat, deaths := hss.deaths, lit := hss.lit, nd := hss.nd, tx := hss.tx }
  obtain ⟨s1, h1, hss1⟩ := ss_send (line ++ [13]) hss0 hline (quiet_nil_regs _)
  simp only [List.map_nil] at hss1
  have hss1' := ss_streamEnter 0 false hss1
  obtain ⟨hid, hss2⟩ := ss_deathEnter ps1 excEnded hss1' hp.ne
  refine ⟨⟨(streamEnter 0 false s1).1, nd⟩, (deathEnter (.lit ps1) excEnded (streamEnter 0 false s1).2).2, ?_, rfl, hss2⟩
  unfold runEnter sendline
  simp only [h1]
  rw [← hid]

/-- **`terminate0()`** when the command has consumed everything typed and exits with status 0: the
    script holds just the prompt. -/
theorem terminate0_ok {s : St} {ps1 bl : Bytes} {nd nd' : Nat} {tx since : Bytes} (px : Proxy) (a2 : List Bytes)
    (hss : SS s ps1 bl [promptReg nd ps1 since] nd' ps1 tx) (hpx : px.did = nd) (hbl : BlOk bl)
    (hp : PromptOk ps1) (ha2 : a2.flatten = respStatus false ps1 0) (hn2 : ∀ p ∈ a2, p ≠ []) :
    ∃ s', terminate0 px a2 s = (.ok [], s') ∧ SS s' ps1 bl [] nd' [] (tx ++ (echoStatusLine ++ [13])) := by
  have hss1 := ss_deathExit px.did hss
  have hfil : [promptReg nd ps1 since].filter (fun r => r.id != px.did) = [] := by
    simp [promptReg, hpx]
  rw [hfil] at hss1
  have hne : NoEarly ps1 [] := by
    intro k hk hle hsuf
    simp only [List.nil_append] at hle hsuf ⊢
    have := hsuf.length_le
    simp only [List.length_take] at this
    omega
  obtain ⟨s2, h2, hss2⟩ := ss_rup [] (by simpa using hss1) hp.ne hne
  have hss2' := ss_streamExit 0 px.prev hss2
  have hf2 := ss_feed a2 hss2' hn2
  rw [ha2] at hf2
  simp only [List.nil_append] at hf2
  obtain ⟨s3, h3, hss3⟩ := fetchRetcode_ok hf2 hbl hp
  refine ⟨s3, ?_, hss3⟩
  unfold terminate0
  simp only [h2, h3, if_true]
  rfl

end Files
